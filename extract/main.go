// gsextract — go/ast fact extractor: reads /repo's current sources and regenerates
// lean/Gostatix/Generated/*.lean (lock table, decoder error table, the Lua scripts as Lean terms: lua.go,
// the integer kernels: arith.go, murmur3 piece by piece: murmur.go, JSON mirror-struct table and
// binary layout table: layout.go).
package main

import (
	"flag"
	"fmt"
	"os"
	"sort"
)

func main() {
	repo := flag.String("repo", "/repo", "repository root")
	out := flag.String("out", "", "output directory for generated Lean files")
	dump := flag.Bool("dump-lua-names", false, "print the locals of every Lua script in declaration order (Go source of lua_names.go) and exit")
	dumpShapes := flag.Bool("dump-lua-shapes", false, "print the shape table of the Lua scripts (Go source of lua_shapes.go) and exit")
	flag.Parse()
	if *dumpShapes {
		if _, err := genLuaScripts(*repo); err != nil {
			fmt.Fprintln(os.Stderr, err)
			os.Exit(1)
		}
		var keys []string
		for k := range luaShapes {
			keys = append(keys, k)
		}
		sort.Strings(keys)
		fmt.Println("package main\n\n// luaShapeNames: see genLuaScripts.  Regenerate with `gsextract -repo /repo -dump-lua-shapes > lua_shapes.go`\n// ONLY when the committed names are the ones the proofs mention.\nvar luaShapeNames = map[string]string{")
		for _, k := range keys {
			fmt.Printf("\t%q: %q,\n", k, luaShapes[k])
		}
		fmt.Println("}")
		return
	}
	if *dump {
		if _, err := genLuaScripts(*repo); err != nil {
			fmt.Fprintln(os.Stderr, err)
			os.Exit(1)
		}
		dumpLuaNames()
		return
	}
	if *out == "" {
		fmt.Fprintln(os.Stderr, "missing -out")
		os.Exit(2)
	}
	if err := os.MkdirAll(*out, 0o755); err != nil {
		fmt.Fprintln(os.Stderr, err)
		os.Exit(2)
	}
	if err := generate(*repo, *out); err != nil {
		fmt.Fprintln(os.Stderr, err)
		os.Exit(1)
	}
}

// writeIfChanged keeps mtimes stable so that lake does not rebuild needlessly
func writeIfChanged(path string, content string) error {
	old, err := os.ReadFile(path)
	if err == nil && string(old) == content {
		return nil
	}
	return os.WriteFile(path, []byte(content), 0o644)
}
