package main

// Persistence layouts (C10 / C11 tables).
//
//   genJsonTable   -> Generated/JsonTable.lean    the `json:"…"` mirror structs, and for every
//                     function that marshals / unmarshals / builds / consumes one of them: which
//                     struct goes through encoding/json and which of its fields are SET resp. READ
//   genLayoutTable -> Generated/LayoutTable.lean  the ordered stream operations of every
//                     WriteTo / writeTo / ReadFrom / readFrom method
//
// Both are go/ast only (no go/types): types are followed syntactically through declarations
// (`var x T`, `x := T{…}`, `x := make(T, …)`, `x := f(…)` with f declared in the package, struct
// fields incl. embedded ones, index / range over slices and maps, conversions).  Whatever is
// outside these shapes is reported as `unknown := true` (with a reason); nothing is guessed.
//
// Calls to UNEXPORTED functions / methods of the package are expanded in place (recursively, depth
// limit 4, recursion guard), so that extracting a private helper from an Export / Import / WriteTo /
// ReadFrom does not change the table of the exported method (apart from the `-- file:line` comments):
//   * JSON table: the helper's body is walked with the caller's entry as target; its receiver and its
//     parameters are bound to the receiver paths / string literals of the caller's arguments (`wire`
//     survives); a helper that hands a parameter back unchanged (`return p`) passes the wire through
//     (`recv.key = pick(flag, v.Key)` reads Key straight into .key).  Only helpers that may have to do
//     with a mirror struct or encoding/json are expanded (mayTouch).
//   * layout table: a call that passes the stream (as itself, once) is replaced by the stream operations
//     of the callee at the caller's loop depth; a byte-order parameter and value parameters of interface
//     type are replaced by the caller's arguments.  writeTo / readFrom / WriteTo / ReadFrom stay nested
//     entries.  Exported callees are never expanded.
// This file depends on no other generator file (own loader and string helpers).

import (
	"fmt"
	"go/ast"
	"go/parser"
	"go/token"
	"go/types"
	"path/filepath"
	"reflect"
	"sort"
	"strconv"
	"strings"
)

// ---------------------------------------------------------------------------------------------
// package view

type layoutPkg struct {
	fset      *token.FileSet
	files     map[string]*ast.File       // base name -> file (non-test files of the package)
	structs   map[string]*ast.StructType // named struct types
	funcs     map[string][]*ast.FuncDecl // functions and methods by name
	named     map[string]ast.Expr        // every package-level named type -> its type expression
	mirrors   map[string]*mirrorStruct   // structs with at least one json tag
	mirrorFld map[string]bool            // Go field names occurring in some mirror struct
	fileOf    map[*ast.FuncDecl]*ast.File
	decls     []*ast.FuncDecl        // all functions / methods with a body, in (file, position) order
	expanded  map[*ast.FuncDecl]bool // unexported callees whose body was expanded into a caller's entry
	touch     map[*ast.FuncDecl]int  // memo of mayTouch
}

type mirrorField struct {
	goName, goType, key                     string
	tagged, omitempty, asString, skip, expo bool
	unknown                                 bool
	why                                     string
	pos                                     token.Pos
}

type mirrorStruct struct {
	name    string
	fields  []mirrorField
	unknown bool
	why     string
	pos     token.Pos
}

var predeclaredTypes = map[string]bool{"bool": true, "byte": true, "complex64": true, "complex128": true,
	"error": true, "float32": true, "float64": true, "int": true, "int8": true, "int16": true, "int32": true,
	"int64": true, "rune": true, "string": true, "uint": true, "uint8": true, "uint16": true, "uint32": true,
	"uint64": true, "uintptr": true, "any": true}

// results of library functions the tables need (the function is identified by its full source text
// AND the import path of its package identifier)
var layoutExtern = map[string]struct{ importPath, result string }{
	"base64.URLEncoding.EncodeToString": {"encoding/base64", "string"},
	"base64.StdEncoding.EncodeToString": {"encoding/base64", "string"},
}

func loadLayoutPkg(repo string) (*layoutPkg, error) {
	// the loader is private to this file (no dependency on the other generators)
	p := &layoutPkg{fset: token.NewFileSet(), files: map[string]*ast.File{}, structs: map[string]*ast.StructType{},
		funcs: map[string][]*ast.FuncDecl{}, named: map[string]ast.Expr{}, mirrors: map[string]*mirrorStruct{},
		mirrorFld: map[string]bool{}, fileOf: map[*ast.FuncDecl]*ast.File{}, expanded: map[*ast.FuncDecl]bool{}}
	matches, err := filepath.Glob(filepath.Join(repo, "*.go"))
	if err != nil {
		return nil, err
	}
	sort.Strings(matches)
	var names []string
	for _, path := range matches {
		base := filepath.Base(path)
		if strings.HasSuffix(base, "_test.go") {
			continue
		}
		f, err := parser.ParseFile(p.fset, path, nil, parser.SkipObjectResolution)
		if err != nil {
			return nil, err
		}
		p.files[base] = f
		names = append(names, base)
	}
	for _, n := range names {
		f := p.files[n]
		for _, d := range f.Decls {
			switch d := d.(type) {
			case *ast.FuncDecl:
				p.funcs[d.Name.Name] = append(p.funcs[d.Name.Name], d)
				if d.Body != nil {
					p.decls = append(p.decls, d)
					p.fileOf[d] = f
				}
			case *ast.GenDecl:
				for _, s := range d.Specs {
					if ts, ok := s.(*ast.TypeSpec); ok {
						p.named[ts.Name.Name] = ts.Type
						if st, ok := ts.Type.(*ast.StructType); ok {
							p.structs[ts.Name.Name] = st
						}
					}
				}
			}
		}
		// struct types with json tags, wherever they are declared (also inside functions)
		ast.Inspect(f, func(x ast.Node) bool {
			ts, ok := x.(*ast.TypeSpec)
			if !ok {
				return true
			}
			st, ok := ts.Type.(*ast.StructType)
			if !ok {
				return true
			}
			if ms := p.readMirror(ts.Name.Name, st, ts.Pos()); ms != nil {
				if old, dup := p.mirrors[ms.name]; dup {
					old.unknown, old.why = true, "two struct types of this name carry json tags"
				} else {
					p.mirrors[ms.name] = ms
					if _, top := p.structs[ms.name]; !top {
						p.structs[ms.name] = st // a local declaration: make its fields resolvable
					}
				}
			}
			return true
		})
	}
	for _, ms := range p.mirrors {
		for _, f := range ms.fields {
			p.mirrorFld[f.goName] = true
		}
	}
	return p, nil
}

func (p *layoutPkg) at(pos token.Pos) string {
	q := p.fset.Position(pos)
	return fmt.Sprintf("%s:%d", filepath.Base(q.Filename), q.Line)
}

// readMirror returns nil when no field of the struct has a `json` tag key
func (p *layoutPkg) readMirror(name string, st *ast.StructType, pos token.Pos) *mirrorStruct {
	ms := &mirrorStruct{name: name, pos: pos}
	any := false
	for _, f := range st.Fields.List {
		tag, hasJSON, tagOK := "", false, true
		if f.Tag != nil {
			raw, err := strconv.Unquote(f.Tag.Value)
			if err != nil {
				tagOK = false
			} else {
				tag, hasJSON = reflect.StructTag(raw).Lookup("json")
				// Lookup silently stops at a malformed pair; insist on the conventional form
				if !hasJSON && strings.Contains(raw, "json") {
					tagOK = false
				}
			}
		}
		if hasJSON {
			any = true
		}
		mk := func(goName string, embedded bool) mirrorField {
			mf := mirrorField{goName: goName, goType: types.ExprString(f.Type), key: goName, pos: f.Pos(),
				expo: ast.IsExported(goName)}
			if embedded {
				mf.unknown, mf.why = true, "embedded field"
			}
			if !tagOK {
				mf.unknown, mf.why = true, "tag not understood"
				return mf
			}
			if !hasJSON {
				return mf
			}
			mf.tagged = true
			if tag == "-" {
				mf.skip = true
				return mf
			}
			parts := strings.Split(tag, ",")
			if parts[0] != "" {
				mf.key = parts[0]
			}
			for _, o := range parts[1:] {
				switch o {
				case "omitempty":
					mf.omitempty = true
				case "string":
					mf.asString = true
				default:
					mf.unknown, mf.why = true, "tag option "+strconv.Quote(o)+" not understood"
				}
			}
			return mf
		}
		if len(f.Names) == 0 {
			ms.fields = append(ms.fields, mk(types.ExprString(f.Type), true))
			continue
		}
		for _, n := range f.Names {
			ms.fields = append(ms.fields, mk(n.Name, false))
		}
	}
	if !any {
		return nil
	}
	return ms
}

// ---------------------------------------------------------------------------------------------
// syntactic types

func derefType(t ast.Expr) ast.Expr {
	for {
		switch v := t.(type) {
		case *ast.StarExpr:
			t = v.X
		case *ast.ParenExpr:
			t = v.X
		default:
			return t
		}
	}
}

// underlying resolves a named non-struct type of the package (type minHeap []heapElement)
func (p *layoutPkg) underlying(t ast.Expr) ast.Expr {
	for i := 0; i < 8; i++ {
		id, ok := t.(*ast.Ident)
		if !ok {
			return t
		}
		u, ok := p.named[id.Name]
		if !ok {
			return t
		}
		if _, isStruct := u.(*ast.StructType); isStruct {
			return t
		}
		if _, isIface := u.(*ast.InterfaceType); isIface {
			return t
		}
		t = u
	}
	return t
}

// fieldTypeU is fieldType with an ambiguity check over embedded structs
func (p *layoutPkg) fieldTypeU(structName, field string, depth int) (ast.Expr, bool) {
	st := p.structs[structName]
	if st == nil || depth > 4 {
		return nil, true
	}
	for _, f := range st.Fields.List {
		for _, n := range f.Names {
			if n.Name == field {
				return f.Type, true
			}
		}
	}
	var hit ast.Expr
	for _, f := range st.Fields.List {
		if len(f.Names) == 0 {
			t, ok := p.fieldTypeU(lyTypeName(f.Type), field, depth+1)
			if !ok {
				return nil, false
			}
			if t != nil {
				if hit != nil {
					return nil, false
				}
				hit = t
			}
		}
	}
	return hit, true
}

func (p *layoutPkg) methodDecl(recv, name string) *ast.FuncDecl {
	for _, d := range p.funcs[name] {
		if d.Recv != nil && len(d.Recv.List) > 0 && lyTypeName(d.Recv.List[0].Type) == recv {
			return d
		}
	}
	return nil
}

func (p *layoutPkg) plainFunc(name string) *ast.FuncDecl {
	var hit *ast.FuncDecl
	for _, d := range p.funcs[name] {
		if d.Recv == nil {
			if hit != nil {
				return nil
			}
			hit = d
		}
	}
	return hit
}

func resultList(d *ast.FuncDecl) []ast.Expr {
	var r []ast.Expr
	if d == nil || d.Type.Results == nil {
		return nil
	}
	for _, f := range d.Type.Results.List {
		n := len(f.Names)
		if n == 0 {
			n = 1
		}
		for k := 0; k < n; k++ {
			r = append(r, f.Type)
		}
	}
	return r
}

type typeEnv struct {
	p        *layoutPkg
	file     *ast.File
	vars     map[string]ast.Expr // local name -> type (nil = declared, type not understood)
	poisoned map[string]bool     // declared more than once with different types
}

func (e *typeEnv) importPathOf(name string) string {
	for _, im := range e.file.Imports {
		path, _ := strconv.Unquote(im.Path.Value)
		if im.Name != nil {
			if im.Name.Name == name {
				return path
			}
			continue
		}
		segs := strings.Split(path, "/")
		last := segs[len(segs)-1]
		if len(segs) > 1 && len(last) > 1 && last[0] == 'v' && strings.Trim(last[1:], "0123456789") == "" {
			last = segs[len(segs)-2]
		}
		if last == name || strings.TrimPrefix(last, "go-") == name {
			return path
		}
	}
	return ""
}

// isPkg: an identifier that is not a local and names an import of the file
func (e *typeEnv) isPkg(x ast.Expr, path string) bool {
	id, ok := x.(*ast.Ident)
	if !ok {
		return false
	}
	if _, local := e.vars[id.Name]; local {
		return false
	}
	return e.importPathOf(id.Name) == path
}

func isTypeExpr(x ast.Expr) bool {
	switch v := x.(type) {
	case *ast.ArrayType, *ast.MapType, *ast.ChanType, *ast.FuncType, *ast.InterfaceType, *ast.StructType:
		return true
	case *ast.ParenExpr:
		return isTypeExpr(v.X)
	}
	return false
}

// callResults: result types of a call, nil when not understood
func (e *typeEnv) callResults(c *ast.CallExpr) []ast.Expr {
	if isTypeExpr(c.Fun) && len(c.Args) == 1 { // conversion []byte(x)
		return []ast.Expr{c.Fun}
	}
	if ext, ok := layoutExtern[types.ExprString(c.Fun)]; ok {
		root := c.Fun
		for {
			if s, ok := root.(*ast.SelectorExpr); ok {
				root = s.X
				continue
			}
			break
		}
		if e.isPkg(root, ext.importPath) {
			return []ast.Expr{ast.NewIdent(ext.result)}
		}
		return nil
	}
	switch f := c.Fun.(type) {
	case *ast.Ident:
		if _, local := e.vars[f.Name]; local {
			return nil
		}
		switch f.Name {
		case "make":
			if len(c.Args) >= 1 {
				return []ast.Expr{c.Args[0]}
			}
			return nil
		case "new":
			if len(c.Args) == 1 {
				return []ast.Expr{&ast.StarExpr{X: c.Args[0]}}
			}
			return nil
		case "append":
			if len(c.Args) >= 1 {
				if t := e.typeOf(c.Args[0]); t != nil {
					return []ast.Expr{t}
				}
			}
			return nil
		case "len", "cap", "copy":
			return []ast.Expr{ast.NewIdent("int")}
		}
		if predeclaredTypes[f.Name] && len(c.Args) == 1 {
			return []ast.Expr{f}
		}
		if _, isType := e.p.named[f.Name]; isType && len(c.Args) == 1 {
			return []ast.Expr{f}
		}
		if d := e.p.plainFunc(f.Name); d != nil {
			return resultList(d)
		}
	case *ast.SelectorExpr:
		rt := e.typeOf(f.X)
		if rt == nil {
			return nil
		}
		if id, ok := derefType(rt).(*ast.Ident); ok {
			if d := e.p.methodDecl(id.Name, f.Sel.Name); d != nil {
				return resultList(d)
			}
			// method promoted from an embedded struct
			if st := e.p.structs[id.Name]; st != nil {
				var hit *ast.FuncDecl
				n := 0
				for _, fl := range st.Fields.List {
					if len(fl.Names) == 0 {
						if d := e.p.methodDecl(lyTypeName(fl.Type), f.Sel.Name); d != nil {
							hit = d
							n++
						}
					}
				}
				if n == 1 {
					return resultList(hit)
				}
			}
		}
	}
	return nil
}

// typeOf: the static type of an expression as a type expression, nil when not understood
func (e *typeEnv) typeOf(x ast.Expr) ast.Expr {
	switch v := x.(type) {
	case *ast.ParenExpr:
		return e.typeOf(v.X)
	case *ast.Ident:
		if e.poisoned[v.Name] {
			return nil
		}
		return e.vars[v.Name]
	case *ast.SelectorExpr:
		t := e.typeOf(v.X)
		if t == nil {
			return nil
		}
		id, ok := derefType(t).(*ast.Ident)
		if !ok {
			return nil
		}
		ft, unamb := e.p.fieldTypeU(id.Name, v.Sel.Name, 0)
		if !unamb {
			return nil
		}
		return ft
	case *ast.IndexExpr:
		t := e.typeOf(v.X)
		if t == nil {
			return nil
		}
		switch u := e.p.underlying(derefType(t)).(type) {
		case *ast.ArrayType:
			return u.Elt
		case *ast.MapType:
			return u.Value
		}
		return nil
	case *ast.SliceExpr:
		t := e.typeOf(v.X)
		if t == nil {
			return nil
		}
		if a, ok := e.p.underlying(derefType(t)).(*ast.ArrayType); ok && a.Len != nil {
			return &ast.ArrayType{Elt: a.Elt}
		}
		return t
	case *ast.StarExpr:
		t := e.typeOf(v.X)
		if s, ok := t.(*ast.StarExpr); ok {
			return s.X
		}
		return nil
	case *ast.UnaryExpr:
		if v.Op == token.AND {
			if t := e.typeOf(v.X); t != nil {
				return &ast.StarExpr{X: t}
			}
		}
		return nil
	case *ast.CompositeLit:
		return v.Type
	case *ast.TypeAssertExpr:
		return v.Type
	case *ast.CallExpr:
		if r := e.callResults(v); len(r) == 1 {
			return r[0]
		}
		return nil
	}
	return nil
}

func typeText(t ast.Expr) string {
	if t == nil {
		return "?"
	}
	return types.ExprString(t)
}

// mentions: does the type expression mention one of the given named types
func mentions(t ast.Expr, names map[string]*mirrorStruct) bool {
	found := false
	if t == nil {
		return false
	}
	ast.Inspect(t, func(x ast.Node) bool {
		if id, ok := x.(*ast.Ident); ok {
			if _, hit := names[id.Name]; hit {
				found = true
			}
		}
		return !found
	})
	return found
}

// buildEnv collects the locals of a function with their declared / inferred types.
// A name declared twice with different types (shadowing) is poisoned: its type is unknown.
func (p *layoutPkg) buildEnv(fd *ast.FuncDecl) (*typeEnv, []string) {
	poisoned := map[string]bool{}
	var env *typeEnv
	for round := 0; round < 6; round++ {
		env = &typeEnv{p: p, file: p.fileOf[fd], vars: map[string]ast.Expr{}, poisoned: poisoned}
		seen := map[string]string{}
		next := map[string]bool{}
		for k := range poisoned {
			next[k] = true
		}
		declare := func(id *ast.Ident, t ast.Expr) {
			if id == nil || id.Name == "_" {
				return
			}
			txt := typeText(t)
			if old, ok := seen[id.Name]; ok && old != txt {
				next[id.Name] = true
			}
			if _, ok := seen[id.Name]; !ok {
				seen[id.Name] = txt
				env.vars[id.Name] = t
			}
		}
		fields := func(fl *ast.FieldList) {
			if fl == nil {
				return
			}
			for _, f := range fl.List {
				for _, n := range f.Names {
					declare(n, f.Type)
				}
			}
		}
		fields(fd.Recv)
		fields(fd.Type.Params)
		fields(fd.Type.Results)
		ast.Inspect(fd.Body, func(x ast.Node) bool {
			switch v := x.(type) {
			case *ast.FuncLit:
				fields(v.Type.Params)
				fields(v.Type.Results)
			case *ast.DeclStmt:
				gd, ok := v.Decl.(*ast.GenDecl)
				if !ok || (gd.Tok != token.VAR && gd.Tok != token.CONST) {
					return true
				}
				for _, s := range gd.Specs {
					vs, ok := s.(*ast.ValueSpec)
					if !ok {
						continue
					}
					for i, n := range vs.Names {
						switch {
						case vs.Type != nil:
							declare(n, vs.Type)
						case len(vs.Values) == len(vs.Names):
							declare(n, env.typeOf(vs.Values[i]))
						case len(vs.Values) == 1:
							if c, ok := vs.Values[0].(*ast.CallExpr); ok {
								if r := env.callResults(c); len(r) == len(vs.Names) {
									declare(n, r[i])
									continue
								}
							}
							declare(n, nil)
						default:
							declare(n, nil)
						}
					}
				}
			case *ast.AssignStmt:
				if v.Tok != token.DEFINE {
					return true
				}
				var rs []ast.Expr
				if len(v.Rhs) == len(v.Lhs) {
					for _, r := range v.Rhs {
						rs = append(rs, env.typeOf(r))
					}
				} else if len(v.Rhs) == 1 {
					if c, ok := v.Rhs[0].(*ast.CallExpr); ok {
						if r := env.callResults(c); len(r) == len(v.Lhs) {
							rs = r
						}
					}
				}
				for i, l := range v.Lhs {
					id, ok := l.(*ast.Ident)
					if !ok {
						continue
					}
					var t ast.Expr
					if i < len(rs) {
						t = rs[i]
					}
					if _, already := seen[id.Name]; already && t == nil {
						// `x, err := …` re-using an earlier err: nothing new is learnt
						if len(v.Lhs) > 1 {
							continue
						}
					}
					declare(id, t)
				}
			case *ast.RangeStmt:
				if v.Tok != token.DEFINE {
					return true
				}
				var kt, vt ast.Expr
				if t := env.typeOf(v.X); t != nil {
					switch u := p.underlying(derefType(t)).(type) {
					case *ast.ArrayType:
						kt, vt = ast.NewIdent("int"), u.Elt
					case *ast.MapType:
						kt, vt = u.Key, u.Value
					case *ast.Ident:
						if u.Name == "string" {
							kt, vt = ast.NewIdent("int"), ast.NewIdent("rune")
						}
					}
				}
				if id, ok := v.Key.(*ast.Ident); ok {
					declare(id, kt)
				}
				if id, ok := v.Value.(*ast.Ident); ok {
					declare(id, vt)
				}
			}
			return true
		})
		same := len(next) == len(poisoned)
		poisoned = next
		env.poisoned = poisoned
		if same {
			break
		}
	}
	var ps []string
	for k := range poisoned {
		ps = append(ps, k)
	}
	sort.Strings(ps)
	return env, ps
}

// ---------------------------------------------------------------------------------------------
// JSON table

type fieldUse struct {
	strct, field string
	positional   bool
	index        int
	wire         string // ".recvField" when the value comes straight from / goes straight to a receiver field
	pos          token.Pos
}

type jsonUse struct {
	fn         string
	fd         *ast.FuncDecl
	marshals   []string
	unmarshals []string
	sets       []fieldUse
	reads      []fieldUse
	calls      []string // names of package functions / methods called (resolved after all are known)
	callees    []string
	unknown    bool
	why        []string
}

func (u *jsonUse) flag(why string) {
	u.unknown = true
	for _, w := range u.why {
		if w == why {
			return
		}
	}
	u.why = append(u.why, why)
}

func (u *jsonUse) relevant() bool {
	return len(u.marshals)+len(u.unmarshals)+len(u.sets)+len(u.reads) > 0 || u.unknown
}

func funcLabel(fd *ast.FuncDecl) string {
	if fd.Recv != nil && len(fd.Recv.List) > 0 {
		return lyTypeName(fd.Recv.List[0].Type) + "." + fd.Name.Name
	}
	return fd.Name.Name
}

type jsonScan struct {
	p   *layoutPkg
	env *typeEnv
	u   *jsonUse
	// roots: identifiers that stand for a place of the ENTRY method's receiver.  The receiver itself
	// maps to "" (so recv.x is ".x"); inside an expanded helper its receiver and its parameters map to
	// the path (".a", ".a.b", ".M()") or the string literal the caller passed.
	roots map[string]string
	stack []*ast.FuncDecl // helpers being expanded (recursion guard, depth limit)
}

const maxExpandDepth = 4

func (s *jsonScan) mirrorOf(t ast.Expr) *mirrorStruct {
	if t == nil {
		return nil
	}
	if id, ok := derefType(t).(*ast.Ident); ok {
		return s.p.mirrors[id.Name]
	}
	return nil
}

// recvPath renders `recv.a.b` / `recv.M()` as ".a.b" / ".M()"; "" for anything else
func (s *jsonScan) recvPath(x ast.Expr) string {
	switch v := x.(type) {
	case *ast.ParenExpr:
		return s.recvPath(v.X)
	case *ast.BasicLit:
		if v.Kind == token.STRING {
			return v.Value
		}
	case *ast.Ident:
		// a helper's parameter bound to a receiver path / string literal of the caller
		return s.roots[v.Name]
	case *ast.SelectorExpr:
		if id, ok := v.X.(*ast.Ident); ok {
			if r, ok := s.roots[id.Name]; ok && (r == "" || strings.HasPrefix(r, ".")) {
				return r + "." + v.Sel.Name
			}
			return ""
		}
		if in := s.recvPath(v.X); strings.HasPrefix(in, ".") {
			return in + "." + v.Sel.Name
		}
	case *ast.CallExpr:
		if len(v.Args) == 0 {
			if _, ok := v.Fun.(*ast.SelectorExpr); ok {
				if in := s.recvPath(v.Fun); strings.HasPrefix(in, ".") {
					return in + "()"
				}
			}
			return ""
		}
		// an unexported helper that hands one of its parameters back: the value is the argument's
		if d := s.expandable(v); d != nil {
			if pt := s.p.passthrough(d); len(pt) == 1 {
				for i := range pt {
					if i < len(v.Args) {
						return s.recvPath(v.Args[i])
					}
				}
			}
		}
	}
	return ""
}

// expandable: the call goes to exactly one UNEXPORTED function / method of the package (with a body)
func (s *jsonScan) expandable(c *ast.CallExpr) *ast.FuncDecl {
	return s.p.privateCallee(s.env, c)
}

// privateCallee resolves a call to the one unexported function or method of the package it names
func (p *layoutPkg) privateCallee(env *typeEnv, c *ast.CallExpr) *ast.FuncDecl {
	var d *ast.FuncDecl
	switch f := c.Fun.(type) {
	case *ast.Ident:
		if _, local := env.vars[f.Name]; local {
			return nil
		}
		d = p.plainFunc(f.Name)
	case *ast.SelectorExpr:
		if id, ok := f.X.(*ast.Ident); ok {
			if _, local := env.vars[id.Name]; !local && env.importPathOf(id.Name) != "" {
				return nil
			}
		}
		rt := env.typeOf(f.X)
		if rt == nil {
			return nil
		}
		id, ok := derefType(rt).(*ast.Ident)
		if !ok {
			return nil
		}
		if _, ours := p.named[id.Name]; !ours {
			return nil
		}
		d = p.methodDecl(id.Name, f.Sel.Name)
	}
	if d == nil || d.Body == nil || ast.IsExported(d.Name.Name) || c.Ellipsis.IsValid() {
		return nil
	}
	return d
}

// paramNames: the parameters of a declaration in order ("" for unnamed / blank ones); ok = false for variadic
func paramNames(d *ast.FuncDecl) ([]string, bool) {
	var out []string
	for _, f := range d.Type.Params.List {
		if _, variadic := f.Type.(*ast.Ellipsis); variadic {
			return nil, false
		}
		if len(f.Names) == 0 {
			out = append(out, "")
		}
		for _, n := range f.Names {
			if n.Name == "_" {
				out = append(out, "")
			} else {
				out = append(out, n.Name)
			}
		}
	}
	return out, true
}

// assignedIdents: identifiers assigned (not declared) or address-taken somewhere in the body
func assignedIdents(d *ast.FuncDecl) map[string]bool {
	out := map[string]bool{}
	ast.Inspect(d.Body, func(x ast.Node) bool {
		switch v := x.(type) {
		case *ast.AssignStmt:
			for _, l := range v.Lhs {
				if id, ok := l.(*ast.Ident); ok {
					out[id.Name] = true // also `x := …` in an inner scope: the name no longer means the parameter
				}
			}
		case *ast.IncDecStmt:
			if id, ok := v.X.(*ast.Ident); ok {
				out[id.Name] = true
			}
		case *ast.UnaryExpr:
			if id, ok := v.X.(*ast.Ident); ok && v.Op == token.AND {
				out[id.Name] = true
			}
		case *ast.RangeStmt:
			for _, l := range []ast.Expr{v.Key, v.Value} {
				if id, ok := l.(*ast.Ident); ok {
					out[id.Name] = true
				}
			}
		}
		return true
	})
	return out
}

// passthrough: indices of the parameters a single-result function returns unchanged in some return
// statement (`func pick(flag bool, v string) string { if flag { return fresh() }; return v }` -> {1})
func (p *layoutPkg) passthrough(d *ast.FuncDecl) map[int]bool {
	out := map[int]bool{}
	if len(resultList(d)) != 1 {
		return out
	}
	names, ok := paramNames(d)
	if !ok {
		return out
	}
	assigned := assignedIdents(d)
	var walk func(n ast.Node)
	walk = func(n ast.Node) {
		ast.Inspect(n, func(x ast.Node) bool {
			switch v := x.(type) {
			case *ast.FuncLit:
				return false
			case *ast.ReturnStmt:
				if len(v.Results) == 1 {
					if id, ok := v.Results[0].(*ast.Ident); ok {
						for i, n := range names {
							if n != "" && n == id.Name && !assigned[n] {
								out[i] = true
							}
						}
					}
				}
			}
			return true
		})
	}
	walk(d.Body)
	return out
}

// mayTouch: could the function, or anything of the package it calls (by name, over-approximated),
// have to do with a mirror struct or encoding/json?  Only such helpers are expanded; the others
// (getRedisClient, key arithmetic, …) contribute nothing to an entry.
func (p *layoutPkg) mayTouch(d *ast.FuncDecl) bool {
	if p.touch == nil {
		p.touch = map[*ast.FuncDecl]int{}
	}
	switch p.touch[d] {
	case 1:
		return true
	case 2, 3: // no / being visited (a cycle adds nothing by itself)
		return false
	}
	p.touch[d] = 3
	hit := false
	var callees []string
	ast.Inspect(d, func(x ast.Node) bool {
		switch v := x.(type) {
		case *ast.Ident:
			if _, m := p.mirrors[v.Name]; m || v.Name == "json" {
				hit = true
			}
		case *ast.CallExpr:
			switch f := v.Fun.(type) {
			case *ast.Ident:
				callees = append(callees, f.Name)
			case *ast.SelectorExpr:
				callees = append(callees, f.Sel.Name)
			}
		}
		return !hit
	})
	if !hit {
		for _, n := range callees {
			for _, g := range p.funcs[n] {
				if g != d && g.Body != nil && p.mayTouch(g) {
					hit = true
				}
			}
		}
	}
	if hit {
		p.touch[d] = 1
	} else {
		p.touch[d] = 2
	}
	return hit
}

// expand walks the body of an unexported helper as if it stood at the call: its sets / reads /
// marshal calls / unknown flags go into the caller's entry; its receiver and parameters are bound to
// the receiver paths of the caller's arguments so that the `wire` information survives.
func (s *jsonScan) expand(c *ast.CallExpr, d *ast.FuncDecl) {
	label := funcLabel(d)
	if len(s.stack) >= maxExpandDepth {
		s.u.flag("helper calls nested deeper than " + strconv.Itoa(maxExpandDepth) + " at " + label)
		return
	}
	for _, x := range s.stack {
		if x == d {
			s.u.flag("recursive helper " + label)
			return
		}
	}
	env, poisoned := s.p.buildEnv(d)
	child := &jsonScan{p: s.p, env: env, u: s.u, roots: map[string]string{}, stack: append(append([]*ast.FuncDecl{}, s.stack...), d)}
	assigned := assignedIdents(d)
	if d.Recv != nil && len(d.Recv.List) > 0 && len(d.Recv.List[0].Names) > 0 {
		rn := d.Recv.List[0].Names[0].Name
		if sel, ok := c.Fun.(*ast.SelectorExpr); ok && !assigned[rn] {
			if id, ok := sel.X.(*ast.Ident); ok {
				if r, ok := s.roots[id.Name]; ok && (r == "" || strings.HasPrefix(r, ".")) {
					child.roots[rn] = r
				}
			} else if r := s.recvPath(sel.X); strings.HasPrefix(r, ".") {
				child.roots[rn] = r
			}
		}
	}
	if names, ok := paramNames(d); ok && len(names) == len(c.Args) {
		for i, n := range names {
			if n == "" || assigned[n] {
				continue
			}
			if r := s.recvPath(c.Args[i]); r != "" {
				child.roots[n] = r
			}
		}
	}
	before := len(s.u.marshals) + len(s.u.unmarshals) + len(s.u.sets) + len(s.u.reads)
	child.block(d.Body)
	after := len(s.u.marshals) + len(s.u.unmarshals) + len(s.u.sets) + len(s.u.reads)
	if after > before {
		for _, n := range poisoned {
			if shadowInvolvesMirror(s.p, d, n) {
				s.u.flag("local " + n + " of " + label + " is declared with several types, one of them a mirror struct")
			}
		}
	}
	s.p.expanded[d] = true
}

func (s *jsonScan) addSet(fu fieldUse)  { s.u.sets = append(s.u.sets, fu) }
func (s *jsonScan) addRead(fu fieldUse) { s.u.reads = append(s.u.reads, fu) }

// composite: a composite literal whose type is (or whose elements are) mirror structs
func (s *jsonScan) composite(c *ast.CompositeLit, t ast.Expr) {
	if t == nil {
		t = c.Type
	}
	if ms := s.mirrorOf(t); ms != nil {
		positional := len(c.Elts) > 0
		for _, el := range c.Elts {
			if _, kv := el.(*ast.KeyValueExpr); kv {
				positional = false
			}
		}
		if positional && len(c.Elts) != len(ms.fields) {
			s.u.flag("positional literal of " + ms.name + " with " + strconv.Itoa(len(c.Elts)) + " elements")
		}
		for i, el := range c.Elts {
			val := el
			fu := fieldUse{strct: ms.name, pos: el.Pos()}
			if kv, ok := el.(*ast.KeyValueExpr); ok {
				id, ok := kv.Key.(*ast.Ident)
				if !ok {
					s.u.flag("literal key not an identifier")
					continue
				}
				fu.field, val = id.Name, kv.Value
			} else if positional && i < len(ms.fields) {
				fu.field, fu.positional, fu.index = ms.fields[i].goName, true, i
			} else {
				s.u.flag("mixed literal of " + ms.name)
				continue
			}
			fu.wire = s.recvPath(val)
			s.addSet(fu)
			s.value(val, s.p.fieldTypeOrNil(ms.name, fu.field))
		}
		return
	}
	// slice / array / map of something: elements may elide their type
	var elt ast.Expr
	if t != nil {
		switch u := s.p.underlying(derefType(t)).(type) {
		case *ast.ArrayType:
			elt = u.Elt
		case *ast.MapType:
			elt = u.Value
		}
	}
	for _, el := range c.Elts {
		if kv, ok := el.(*ast.KeyValueExpr); ok {
			s.expr(kv.Key)
			s.value(kv.Value, elt)
			continue
		}
		s.value(el, elt)
	}
}

func (p *layoutPkg) fieldTypeOrNil(strct, field string) ast.Expr {
	t, ok := p.fieldTypeU(strct, field, 0)
	if !ok {
		return nil
	}
	return t
}

// value: an expression in read position with an expected type (for elided literal types)
func (s *jsonScan) value(x ast.Expr, expected ast.Expr) {
	if c, ok := x.(*ast.CompositeLit); ok && c.Type == nil {
		s.composite(c, expected)
		return
	}
	s.expr(x)
}

func builtinNoEscape(name string) bool {
	switch name {
	case "append", "len", "cap", "copy", "make", "new", "delete", "panic", "print", "println":
		return true
	}
	return false
}

func (s *jsonScan) jsonCall(c *ast.CallExpr, sel *ast.SelectorExpr) {
	strip := func(a ast.Expr) ast.Expr {
		if u, ok := a.(*ast.UnaryExpr); ok && u.Op == token.AND {
			return u.X
		}
		return a
	}
	record := func(list *[]string, arg ast.Expr) {
		var t ast.Expr
		if cl, ok := strip(arg).(*ast.CompositeLit); ok {
			t = cl.Type
		} else {
			t = s.env.typeOf(strip(arg))
		}
		if t == nil {
			*list = append(*list, "?")
			s.u.flag("json." + sel.Sel.Name + " of an expression whose type is not understood: " + types.ExprString(arg))
			return
		}
		*list = append(*list, types.ExprString(derefType(t)))
	}
	switch sel.Sel.Name {
	case "Marshal":
		if len(c.Args) == 1 {
			record(&s.u.marshals, c.Args[0])
			s.expr(c.Args[0])
			return
		}
	case "Unmarshal":
		if len(c.Args) == 2 {
			record(&s.u.unmarshals, c.Args[1])
			s.expr(c.Args[0])
			return
		}
	}
	s.u.flag("json." + sel.Sel.Name + " is not understood")
	for _, a := range c.Args {
		s.expr(a)
	}
}

// expr: walk an expression in read position
func (s *jsonScan) expr(x ast.Expr) {
	switch v := x.(type) {
	case nil:
	case *ast.ParenExpr:
		s.expr(v.X)
	case *ast.SelectorExpr:
		t := s.env.typeOf(v.X)
		if ms := s.mirrorOf(t); ms != nil {
			s.addRead(fieldUse{strct: ms.name, field: v.Sel.Name, pos: v.Sel.Pos()})
		} else if t == nil && s.p.mirrorFld[v.Sel.Name] {
			if id, ok := v.X.(*ast.Ident); !ok || s.env.poisoned[id.Name] || func() bool { _, l := s.env.vars[id.Name]; return l }() {
				s.u.flag("selector ." + v.Sel.Name + " (a mirror-struct field name) on an expression whose type is not understood: " + types.ExprString(v.X))
			}
		}
		s.expr(v.X)
	case *ast.IndexExpr:
		s.expr(v.X)
		s.expr(v.Index)
	case *ast.SliceExpr:
		s.expr(v.X)
		s.expr(v.Low)
		s.expr(v.High)
		s.expr(v.Max)
	case *ast.StarExpr:
		s.expr(v.X)
	case *ast.UnaryExpr:
		if c, ok := v.X.(*ast.CompositeLit); ok {
			s.composite(c, nil)
			return
		}
		s.expr(v.X)
	case *ast.BinaryExpr:
		s.expr(v.X)
		s.expr(v.Y)
	case *ast.KeyValueExpr:
		s.expr(v.Key)
		s.expr(v.Value)
	case *ast.TypeAssertExpr:
		s.expr(v.X)
	case *ast.CompositeLit:
		s.composite(v, nil)
	case *ast.FuncLit:
		s.block(v.Body)
	case *ast.CallExpr:
		s.call(v)
	}
}

func (s *jsonScan) call(c *ast.CallExpr) { s.callTo(c, "") }

// callTo: `target` is the receiver field the call's result is assigned to ("" if none): a mirror field
// that an unexported helper hands back unchanged is then READ straight into that field.
func (s *jsonScan) callTo(c *ast.CallExpr, target string) {
	if isTypeExpr(c.Fun) {
		for _, a := range c.Args {
			s.expr(a)
		}
		return
	}
	name, isBuiltin, isConv, recvUnknown := "", false, false, false
	switch f := c.Fun.(type) {
	case *ast.Ident:
		if _, local := s.env.vars[f.Name]; !local {
			name = f.Name
			isBuiltin = builtinNoEscape(f.Name)
			_, named := s.p.named[f.Name]
			isConv = predeclaredTypes[f.Name] || named
		}
	case *ast.SelectorExpr:
		if s.env.isPkg(f.X, "encoding/json") {
			s.jsonCall(c, f)
			return
		}
		// a method called on a mirror value can read anything of it
		if ms := s.mirrorOf(s.env.typeOf(f.X)); ms != nil {
			found := false
			for _, mf := range ms.fields {
				if mf.goName == f.Sel.Name {
					found = true
				}
			}
			if !found {
				s.u.flag("method ." + f.Sel.Name + " called on a " + ms.name)
			}
		}
		// the callee is a method of the package when the receiver's type is a type of the package;
		// a receiver whose type is not understood may be one (it is looked up by name below), but then
		// a mirror value among the arguments is reported
		if !s.isImport(f.X) {
			if rt := s.env.typeOf(f.X); rt == nil {
				name, recvUnknown = f.Sel.Name, true
			} else if id, ok := derefType(rt).(*ast.Ident); ok {
				if _, ours := s.p.named[id.Name]; ours {
					name = f.Sel.Name
				}
			}
		}
		s.expr(f.X)
	default:
		s.expr(c.Fun)
	}
	inPkg := name != "" && len(s.p.funcs[name]) > 0 && !isBuiltin && !isConv
	var helper *ast.FuncDecl
	if inPkg {
		helper = s.expandable(c)
		if helper == nil {
			s.u.calls = append(s.u.calls, s.resolveCallee(c, name)...)
		}
	}
	var handedBack map[int]bool
	if helper != nil && target != "" {
		handedBack = s.p.passthrough(helper)
	}
	for i, a := range c.Args {
		if !isBuiltin && !isConv && (!inPkg || recvUnknown) {
			if t := s.env.typeOf(a); mentions(t, s.p.mirrors) {
				s.u.flag("a value of type " + types.ExprString(t) + " is passed to " + types.ExprString(c.Fun) + ", which is not known to be a function of the package")
			}
		}
		if handedBack[i] {
			if sel, ok := a.(*ast.SelectorExpr); ok {
				if ms := s.mirrorOf(s.env.typeOf(sel.X)); ms != nil {
					s.addRead(fieldUse{strct: ms.name, field: sel.Sel.Name, pos: sel.Sel.Pos(), wire: target})
					s.expr(sel.X)
					continue
				}
			}
		}
		s.expr(a)
	}
	if helper != nil && s.p.mayTouch(helper) {
		s.expand(c, helper)
	}
}

func (s *jsonScan) isImport(x ast.Expr) bool {
	id, ok := x.(*ast.Ident)
	if !ok {
		return false
	}
	if _, local := s.env.vars[id.Name]; local {
		return false
	}
	return s.env.importPathOf(id.Name) != ""
}

// resolveCallee: "Recv.name" for the receiver type when it is understood and declares the method;
// every declaration of that name otherwise (interface receivers: all implementers)
func (s *jsonScan) resolveCallee(c *ast.CallExpr, name string) []string {
	if sel, ok := c.Fun.(*ast.SelectorExpr); ok {
		if t := s.env.typeOf(sel.X); t != nil {
			if id, ok := derefType(t).(*ast.Ident); ok {
				if d := s.p.methodDecl(id.Name, name); d != nil {
					return []string{funcLabel(d)}
				}
			}
		}
		var out []string
		for _, d := range s.p.funcs[name] {
			if d.Recv != nil && d.Body != nil {
				out = append(out, funcLabel(d))
			}
		}
		return out
	}
	if d := s.p.plainFunc(name); d != nil && d.Body != nil {
		return []string{name}
	}
	return nil
}

// lhs: walk an assignment target; the outermost field of a mirror struct is SET
func (s *jsonScan) lhs(x ast.Expr, rhs ast.Expr, alsoRead bool) {
	switch v := x.(type) {
	case *ast.ParenExpr:
		s.lhs(v.X, rhs, alsoRead)
	case *ast.SelectorExpr:
		if ms := s.mirrorOf(s.env.typeOf(v.X)); ms != nil {
			fu := fieldUse{strct: ms.name, field: v.Sel.Name, pos: v.Sel.Pos()}
			if rhs != nil {
				fu.wire = s.recvPath(rhs)
			}
			s.addSet(fu)
			if alsoRead {
				s.addRead(fieldUse{strct: ms.name, field: v.Sel.Name, pos: v.Sel.Pos()})
			}
			s.lhsPath(v.X)
			return
		}
		s.lhsPath(v.X)
	case *ast.IndexExpr:
		s.lhsPath(v.X)
		s.expr(v.Index)
	case *ast.StarExpr:
		s.lhsPath(v.X)
	}
}

// lhsPath: the path leading to an assigned location is neither set nor read; its indices are read
func (s *jsonScan) lhsPath(x ast.Expr) {
	switch v := x.(type) {
	case *ast.ParenExpr:
		s.lhsPath(v.X)
	case *ast.SelectorExpr:
		s.lhsPath(v.X)
	case *ast.IndexExpr:
		s.lhsPath(v.X)
		s.expr(v.Index)
	case *ast.StarExpr:
		s.lhsPath(v.X)
	case *ast.Ident:
	default:
		s.expr(x)
	}
}

func (s *jsonScan) block(b *ast.BlockStmt) {
	if b == nil {
		return
	}
	for _, st := range b.List {
		s.stmt(st)
	}
}

func (s *jsonScan) stmt(st ast.Stmt) {
	switch v := st.(type) {
	case nil:
	case *ast.BlockStmt:
		s.block(v)
	case *ast.ExprStmt:
		s.expr(v.X)
	case *ast.AssignStmt:
		for i, l := range v.Lhs {
			var rhs ast.Expr
			if len(v.Rhs) == len(v.Lhs) {
				rhs = v.Rhs[i]
			}
			if v.Tok == token.DEFINE {
				if _, ok := l.(*ast.Ident); ok {
					continue
				}
			}
			s.lhs(l, rhs, v.Tok != token.ASSIGN && v.Tok != token.DEFINE)
		}
		for i, r := range v.Rhs {
			// `recv.field = v.F`: the read goes straight to a receiver field
			if len(v.Rhs) == len(v.Lhs) && v.Tok == token.ASSIGN {
				if sel, ok := r.(*ast.SelectorExpr); ok {
					if ms := s.mirrorOf(s.env.typeOf(sel.X)); ms != nil {
						s.addRead(fieldUse{strct: ms.name, field: sel.Sel.Name, pos: sel.Sel.Pos(), wire: s.recvTarget(v.Lhs[i])})
						s.expr(sel.X)
						continue
					}
				}
			}
			var exp ast.Expr
			if len(v.Rhs) == len(v.Lhs) {
				exp = s.env.typeOf(v.Lhs[i])
				if c, ok := r.(*ast.CallExpr); ok && v.Tok == token.ASSIGN {
					if t := s.recvTarget(v.Lhs[i]); strings.HasPrefix(t, ".") {
						s.callTo(c, t)
						continue
					}
				}
			}
			s.value(r, exp)
		}
	case *ast.IncDecStmt:
		s.lhs(v.X, nil, true)
	case *ast.DeclStmt:
		if gd, ok := v.Decl.(*ast.GenDecl); ok {
			for _, sp := range gd.Specs {
				if vs, ok := sp.(*ast.ValueSpec); ok {
					for _, val := range vs.Values {
						s.value(val, vs.Type)
					}
				}
			}
		}
	case *ast.ReturnStmt:
		for _, r := range v.Results {
			s.expr(r)
		}
	case *ast.IfStmt:
		s.stmt(v.Init)
		s.expr(v.Cond)
		s.block(v.Body)
		s.stmt(v.Else)
	case *ast.ForStmt:
		s.stmt(v.Init)
		s.expr(v.Cond)
		s.stmt(v.Post)
		s.block(v.Body)
	case *ast.RangeStmt:
		if v.Tok == token.ASSIGN {
			if v.Key != nil {
				s.lhs(v.Key, nil, false)
			}
			if v.Value != nil {
				s.lhs(v.Value, nil, false)
			}
		}
		s.expr(v.X)
		s.block(v.Body)
	case *ast.SwitchStmt:
		s.stmt(v.Init)
		s.expr(v.Tag)
		s.block(v.Body)
	case *ast.TypeSwitchStmt:
		s.stmt(v.Init)
		s.stmt(v.Assign)
		s.block(v.Body)
	case *ast.CaseClause:
		for _, e := range v.List {
			s.expr(e)
		}
		for _, b := range v.Body {
			s.stmt(b)
		}
	case *ast.SelectStmt:
		s.block(v.Body)
	case *ast.CommClause:
		s.stmt(v.Comm)
		for _, b := range v.Body {
			s.stmt(b)
		}
	case *ast.SendStmt:
		s.expr(v.Chan)
		s.expr(v.Value)
	case *ast.GoStmt:
		s.call(v.Call)
	case *ast.DeferStmt:
		s.call(v.Call)
	case *ast.LabeledStmt:
		s.stmt(v.Stmt)
	case *ast.BranchStmt, *ast.EmptyStmt:
	default:
		s.u.flag(fmt.Sprintf("statement %T is not understood", st))
	}
}

// recvTarget: ".field" when the assignment target is a field of the receiver
func (s *jsonScan) recvTarget(l ast.Expr) string {
	if sel, ok := l.(*ast.SelectorExpr); ok {
		return s.recvPath(sel)
	}
	return ""
}

func (p *layoutPkg) scanJSON() []*jsonUse {
	var all []*jsonUse
	for _, fd := range p.decls {
		env, poisoned := p.buildEnv(fd)
		u := &jsonUse{fn: funcLabel(fd), fd: fd}
		sc := &jsonScan{p: p, env: env, u: u, roots: map[string]string{}, stack: []*ast.FuncDecl{fd}}
		if fd.Recv != nil && len(fd.Recv.List) > 0 && len(fd.Recv.List[0].Names) > 0 {
			if rn := fd.Recv.List[0].Names[0].Name; !assignedIdents(fd)[rn] {
				sc.roots[rn] = ""
			}
		}
		sc.block(fd.Body)
		// a shadowed name is only a problem where mirror structs are involved
		if len(u.marshals)+len(u.unmarshals)+len(u.sets)+len(u.reads) > 0 && len(poisoned) > 0 {
			mirrorNamed := false
			ast.Inspect(fd.Body, func(x ast.Node) bool {
				if id, ok := x.(*ast.Ident); ok {
					if _, hit := p.mirrors[id.Name]; hit {
						mirrorNamed = true
					}
				}
				return true
			})
			if mirrorNamed {
				for _, n := range poisoned {
					if shadowInvolvesMirror(p, fd, n) {
						u.flag("local " + n + " is declared with several types, one of them a mirror struct")
					}
				}
			}
		}
		all = append(all, u)
	}
	byName := map[string]*jsonUse{}
	for _, u := range all {
		byName[u.fn] = u
	}
	var out []*jsonUse
	// an entry per function that is relevant after expansion; an unexported helper whose body was
	// expanded into its callers has no entry of its own (its content is in theirs)
	emitted := func(u *jsonUse) bool {
		return u.relevant() && (ast.IsExported(u.fd.Name.Name) || !p.expanded[u.fd])
	}
	for _, u := range all {
		if !emitted(u) {
			continue
		}
		seen := map[string]bool{}
		for _, c := range u.calls {
			if h := byName[c]; h != nil && emitted(h) && !seen[c] && c != u.fn {
				seen[c] = true
				u.callees = append(u.callees, c)
			}
		}
		sort.Strings(u.callees)
		out = append(out, u)
	}
	sort.SliceStable(out, func(i, j int) bool { return out[i].fn < out[j].fn })
	return out
}

// shadowInvolvesMirror: some declaration of `name` in fd has an explicit type or a literal that
// mentions a mirror struct
func shadowInvolvesMirror(p *layoutPkg, fd *ast.FuncDecl, name string) bool {
	hit := false
	check := func(t ast.Expr) {
		if mentions(t, p.mirrors) {
			hit = true
		}
	}
	ast.Inspect(fd.Body, func(x ast.Node) bool {
		switch v := x.(type) {
		case *ast.ValueSpec:
			for i, n := range v.Names {
				if n.Name == name {
					check(v.Type)
					if i < len(v.Values) {
						check(v.Values[i])
					}
				}
			}
		case *ast.AssignStmt:
			if v.Tok == token.DEFINE {
				for i, l := range v.Lhs {
					if id, ok := l.(*ast.Ident); ok && id.Name == name && i < len(v.Rhs) {
						check(v.Rhs[i])
					}
				}
			}
		}
		return true
	})
	return hit
}

func dedupUses(in []fieldUse) []fieldUse {
	seen := map[string]bool{}
	var out []fieldUse
	for _, f := range in {
		k := f.strct + "\x00" + f.field + "\x00" + f.wire + "\x00" + strconv.FormatBool(f.positional) + strconv.Itoa(f.index)
		if seen[k] {
			continue
		}
		seen[k] = true
		out = append(out, f)
	}
	return out
}

func genJsonTable(repo string) (string, error) {
	p, err := loadLayoutPkg(repo)
	if err != nil {
		return "", err
	}
	var names []string
	for n := range p.mirrors {
		names = append(names, n)
	}
	sort.Strings(names)
	var sb strings.Builder
	sb.WriteString("/- GENERATED by /verif/extract (layout.go) from /repo's current sources on every run. DO NOT EDIT.\n")
	sb.WriteString("   jsonStructs: every struct type with at least one `json:\"…\"` field tag.\n")
	sb.WriteString("   jsonUses: every function that marshals / unmarshals through encoding/json or sets / reads a field of\n")
	sb.WriteString("   such a struct; `wire` is the receiver field (\".name\", \".Method()\", or a string literal) a value comes\n")
	sb.WriteString("   straight from (sets) resp. is assigned to (reads), \"\" for anything more involved.\n")
	sb.WriteString("   Calls to UNEXPORTED functions / methods of the package are expanded in place (depth <= 4): what such a\n")
	sb.WriteString("   helper sets / reads / marshals is part of its caller's entry and the helper has no entry of its own;\n")
	sb.WriteString("   `exported` = the function's name is exported; `callees` = other entries called (not expanded). -/\n")
	sb.WriteString("namespace Gostatix.Generated\n\n")
	sb.WriteString("structure JsonField where\n  goName : String\n  goType : String\n  key : String\n  tagged : Bool\n  exported : Bool\n  omitempty : Bool\n  asString : Bool\n  skip : Bool\n  unknown : Bool\n  deriving Repr, DecidableEq\n\n")
	sb.WriteString("structure JsonStruct where\n  name : String\n  fields : List JsonField\n  unknown : Bool\n  deriving Repr, DecidableEq\n\n")
	sb.WriteString("structure FieldUse where\n  strct : String\n  field : String\n  positional : Bool\n  index : Nat\n  wire : String\n  deriving Repr, DecidableEq\n\n")
	sb.WriteString("structure JsonUse where\n  fn : String\n  exported : Bool\n  marshals : List String\n  unmarshals : List String\n  sets : List FieldUse\n  reads : List FieldUse\n  callees : List String\n  unknown : Bool\n  deriving Repr, DecidableEq\n\n")
	sb.WriteString("def jsonStructs : List JsonStruct := [\n")
	for i, n := range names {
		ms := p.mirrors[n]
		if i > 0 {
			sb.WriteString(",\n")
		}
		fmt.Fprintf(&sb, "  -- %s", p.at(ms.pos))
		if ms.why != "" {
			fmt.Fprintf(&sb, "  (unknown: %s)", ms.why)
		}
		fmt.Fprintf(&sb, "\n  { name := %s, unknown := %s, fields := [\n", lyQuote(ms.name), lyBool(ms.unknown))
		for j, f := range ms.fields {
			if j > 0 {
				sb.WriteString(",\n")
			}
			fmt.Fprintf(&sb, "      -- %s", p.at(f.pos))
			if f.why != "" {
				fmt.Fprintf(&sb, "  (unknown: %s)", f.why)
			}
			fmt.Fprintf(&sb, "\n      { goName := %s, goType := %s, key := %s, tagged := %s, exported := %s, omitempty := %s, asString := %s, skip := %s, unknown := %s }",
				lyQuote(f.goName), lyQuote(f.goType), lyQuote(f.key), lyBool(f.tagged), lyBool(f.expo),
				lyBool(f.omitempty), lyBool(f.asString), lyBool(f.skip), lyBool(f.unknown))
		}
		sb.WriteString(" ] }")
	}
	sb.WriteString("\n]\n\n")
	uses := p.scanJSON()
	writeUses := func(list []fieldUse, what string) {
		list = dedupUses(list)
		fmt.Fprintf(&sb, "    %s := [", what)
		for j, f := range list {
			if j > 0 {
				sb.WriteString(",")
			}
			fmt.Fprintf(&sb, "\n      -- %s\n      { strct := %s, field := %s, positional := %s, index := %d, wire := %s }",
				p.at(f.pos), lyQuote(f.strct), lyQuote(f.field), lyBool(f.positional), f.index, lyQuote(f.wire))
		}
		sb.WriteString(" ]")
	}
	sb.WriteString("def jsonUses : List JsonUse := [\n")
	for i, u := range uses {
		if i > 0 {
			sb.WriteString(",\n")
		}
		fmt.Fprintf(&sb, "  -- %s", p.at(u.fd.Pos()))
		for _, w := range u.why {
			fmt.Fprintf(&sb, "\n  --   unknown: %s", strings.ReplaceAll(w, "\n", " "))
		}
		fmt.Fprintf(&sb, "\n  { fn := %s, exported := %s, marshals := %s, unmarshals := %s, callees := %s, unknown := %s,\n",
			lyQuote(u.fn), lyBool(ast.IsExported(u.fd.Name.Name)), lyQuoteList(u.marshals), lyQuoteList(u.unmarshals), lyQuoteList(u.callees), lyBool(u.unknown))
		writeUses(u.sets, "sets")
		sb.WriteString(",\n")
		writeUses(u.reads, "reads")
		sb.WriteString(" }")
	}
	sb.WriteString("\n]\n\nend Gostatix.Generated\n")
	return sb.String(), nil
}

func lyQuoteList(l []string) string {
	q := make([]string, len(l))
	for i, s := range l {
		q[i] = lyQuote(s)
	}
	return "[" + strings.Join(q, ", ") + "]"
}

// ---------------------------------------------------------------------------------------------
// binary layout table

type streamOp struct {
	kind    string // binary.Write | stream.Write | binary.Read | io.ReadFull | nested | other
	ty      string
	callee  string
	order   string
	depth   int
	unknown bool
	why     string
	pos     token.Pos
}

type layoutEntry struct {
	typ, method, dir string
	stream           string
	ops              []streamOp
	unknown          bool
	why              []string
	pos              token.Pos
}

type layoutScan struct {
	p      *layoutPkg
	env    *typeEnv
	e      *layoutEntry
	stream string
	// inside an expanded helper: its parameters (other than the stream) stand for the caller's arguments
	bind  map[string]layoutBinding
	stack []*ast.FuncDecl // the method and the helpers being expanded (recursion guard, depth limit)
}

type layoutBinding struct {
	expr ast.Expr
	from *layoutScan
}

func (l *layoutEntry) flag(why string) {
	l.unknown = true
	for _, w := range l.why {
		if w == why {
			return
		}
	}
	l.why = append(l.why, why)
}

var nestedNames = map[string]string{"writeTo": "write", "WriteTo": "write", "readFrom": "read", "ReadFrom": "read"}

func (s *layoutScan) isStream(x ast.Expr) bool {
	id, ok := x.(*ast.Ident)
	return ok && id.Name == s.stream
}

func mentionsIdent(x ast.Node, name string) bool {
	found := false
	if x == nil {
		return false
	}
	ast.Inspect(x, func(n ast.Node) bool {
		if id, ok := n.(*ast.Ident); ok && id.Name == name {
			found = true
		}
		return !found
	})
	return found
}

func (p *layoutPkg) isInterface(t ast.Expr) bool {
	switch v := p.underlying(t).(type) {
	case *ast.InterfaceType:
		return true
	case *ast.Ident:
		if v.Name == "any" {
			return true
		}
		_, ok := p.named[v.Name].(*ast.InterfaceType)
		return ok
	}
	return false
}

// staticType: like typeEnv.typeOf, but a helper's parameter of interface type (or of a type that is
// not understood) has the static type of the argument the caller passed
func (s *layoutScan) staticType(x ast.Expr) ast.Expr {
	switch v := x.(type) {
	case *ast.ParenExpr:
		return s.staticType(v.X)
	case *ast.Ident:
		if b, ok := s.bind[v.Name]; ok {
			if declared := s.env.typeOf(v); declared == nil || s.p.isInterface(declared) {
				return b.from.staticType(b.expr)
			}
		}
	case *ast.UnaryExpr:
		if v.Op == token.AND {
			if t := s.staticType(v.X); t != nil {
				return &ast.StarExpr{X: t}
			}
			return nil
		}
	}
	return s.env.typeOf(x)
}

// orderText: the byte order expression; a helper's parameter is replaced by the caller's argument
func (s *layoutScan) orderText(x ast.Expr) string {
	if id, ok := x.(*ast.Ident); ok {
		if b, ok := s.bind[id.Name]; ok {
			return b.from.orderText(b.expr)
		}
	}
	return types.ExprString(x)
}

func (s *layoutScan) tyOf(x ast.Expr, op *streamOp) {
	t := s.staticType(x)
	if t == nil {
		op.ty, op.unknown, op.why = "?", true, "type of "+types.ExprString(x)+" is not understood"
		return
	}
	op.ty = types.ExprString(t)
}

// classify returns the stream operation a call performs, nil if the call does not involve the stream
func (s *layoutScan) classify(c *ast.CallExpr) *streamOp {
	op := &streamOp{pos: c.Pos()}
	if sel, ok := c.Fun.(*ast.SelectorExpr); ok {
		switch {
		case s.env.isPkg(sel.X, "encoding/binary") && (sel.Sel.Name == "Write" || sel.Sel.Name == "Read"):
			op.kind = "binary." + sel.Sel.Name
			if len(c.Args) != 3 || !s.isStream(c.Args[0]) {
				if !mentionsIdent(c, s.stream) {
					return nil // a binary.Write into some other buffer
				}
				op.unknown, op.why, op.ty = true, "argument shape not understood", "?"
				return op
			}
			op.order = s.orderText(c.Args[1])
			arg := c.Args[2]
			if sel.Sel.Name == "Read" {
				if u, ok := arg.(*ast.UnaryExpr); ok && u.Op == token.AND {
					s.tyOf(u.X, op)
				} else {
					s.tyOf(arg, op)
					op.ty = strings.TrimPrefix(op.ty, "*")
				}
			} else {
				s.tyOf(arg, op)
			}
			if mentionsIdent(arg, s.stream) {
				op.unknown, op.why = true, "the stream occurs inside the value"
			}
			return op
		case s.env.isPkg(sel.X, "io") && sel.Sel.Name == "ReadFull" && len(c.Args) == 2 && s.isStream(c.Args[0]):
			op.kind = "io.ReadFull"
			s.tyOf(c.Args[1], op)
			return op
		case s.isStream(sel.X) && sel.Sel.Name == "Write" && len(c.Args) == 1:
			op.kind = "stream.Write"
			s.tyOf(c.Args[0], op)
			if mentionsIdent(c.Args[0], s.stream) {
				op.unknown, op.why = true, "the stream occurs inside the value"
			}
			return op
		case nestedNames[sel.Sel.Name] != "" && len(c.Args) == 1 && s.isStream(c.Args[0]) && !mentionsIdent(sel.X, s.stream):
			op.kind, op.callee = "nested", sel.Sel.Name
			s.tyOf(sel.X, op)
			if nestedNames[sel.Sel.Name] != s.e.dir {
				op.unknown, op.why = true, "a "+nestedNames[sel.Sel.Name]+" call inside a "+s.e.dir+" method"
			}
			return op
		}
	}
	if mentionsIdent(c, s.stream) {
		// only the outermost call that mentions the stream is reported
		op.kind, op.ty, op.unknown = "other", types.ExprString(c.Fun), true
		op.why = "use of the stream that is not understood"
		return op
	}
	return nil
}

// exprOps reports the stream operations inside an expression, in source order
func (s *layoutScan) exprOps(x ast.Node, depth int, cond string) {
	if x == nil {
		return
	}
	ast.Inspect(x, func(n ast.Node) bool {
		switch v := n.(type) {
		case *ast.FuncLit:
			if mentionsIdent(v, s.stream) {
				s.e.flag("the stream is used inside a function literal")
			}
			return false
		case *ast.CallExpr:
			if s.expandHelper(v, depth, cond) {
				return false
			}
			if op := s.classify(v); op != nil {
				op.depth = depth
				if cond != "" && !op.unknown {
					op.unknown, op.why = true, "inside "+cond
				}
				s.e.ops = append(s.e.ops, *op)
				if op.kind == "nested" {
					// the receiver expression may itself contain calls, none of them on the stream
					return false
				}
				return false
			}
		}
		return true
	})
}

// expandHelper: a call that hands the stream to an UNEXPORTED function / method of the package (other
// than writeTo / readFrom, which stay nested entries) is replaced by the stream operations of the
// callee's body, at the caller's loop depth.  The stream must be passed as itself, once; the other
// parameters are bound to the caller's arguments (byte order, values of interface type, pointers).
func (s *layoutScan) expandHelper(c *ast.CallExpr, depth int, cond string) bool {
	if !mentionsIdent(c, s.stream) {
		return false
	}
	d := s.p.privateCallee(s.env, c)
	if d == nil || nestedNames[d.Name.Name] != "" {
		return false
	}
	names, ok := paramNames(d)
	if !ok || len(names) != len(c.Args) {
		return false
	}
	k := -1
	for i, a := range c.Args {
		if s.isStream(a) {
			if k >= 0 {
				return false
			}
			k = i
		} else if mentionsIdent(a, s.stream) {
			return false
		}
	}
	if k < 0 || names[k] == "" {
		return false
	}
	if sel, ok := c.Fun.(*ast.SelectorExpr); ok && mentionsIdent(sel.X, s.stream) {
		return false
	}
	refuse := func(why string) bool {
		s.e.ops = append(s.e.ops, streamOp{kind: "other", ty: types.ExprString(c.Fun), depth: depth, unknown: true, why: why, pos: c.Pos()})
		return true
	}
	if len(s.stack) >= maxExpandDepth+1 {
		return refuse("helper calls nested deeper than " + strconv.Itoa(maxExpandDepth))
	}
	for _, x := range s.stack {
		if x == d {
			return refuse("recursive helper")
		}
	}
	env, poisoned := s.p.buildEnv(d)
	assigned := assignedIdents(d)
	if assigned[names[k]] {
		return refuse("the helper assigns to its stream parameter")
	}
	for _, pn := range poisoned {
		if pn == names[k] {
			return refuse("the helper shadows its stream parameter")
		}
	}
	child := &layoutScan{p: s.p, env: env, e: s.e, stream: names[k], bind: map[string]layoutBinding{},
		stack: append(append([]*ast.FuncDecl{}, s.stack...), d)}
	for i, n := range names {
		if i != k && n != "" && !assigned[n] {
			child.bind[n] = layoutBinding{c.Args[i], s}
		}
	}
	child.stmts(d.Body.List, depth, cond, true)
	s.p.expanded[d] = true
	return true
}

func lastIsNil(r *ast.ReturnStmt) bool {
	if len(r.Results) == 0 {
		return true // bare return: named results, not followed
	}
	id, ok := r.Results[len(r.Results)-1].(*ast.Ident)
	return ok && id.Name == "nil"
}

func (s *layoutScan) stmts(list []ast.Stmt, depth int, cond string, top bool) {
	for i, st := range list {
		switch v := st.(type) {
		case *ast.BlockStmt:
			s.stmts(v.List, depth, cond, false)
		case *ast.IfStmt:
			if v.Init != nil {
				s.stmts([]ast.Stmt{v.Init}, depth, cond, false)
			}
			s.exprOps(v.Cond, depth, cond)
			s.stmts(v.Body.List, depth, "an if body", false)
			if v.Else != nil {
				s.stmts([]ast.Stmt{v.Else}, depth, "an else branch", false)
			}
		case *ast.ForStmt:
			if v.Init != nil {
				s.exprOps(v.Init, depth, "a loop header")
			}
			s.exprOps(v.Cond, depth, "a loop header")
			if v.Post != nil {
				s.exprOps(v.Post, depth, "a loop header")
			}
			s.stmts(v.Body.List, depth+1, cond, false)
		case *ast.RangeStmt:
			s.exprOps(v.X, depth, cond)
			s.stmts(v.Body.List, depth+1, cond, false)
		case *ast.SwitchStmt, *ast.TypeSwitchStmt, *ast.SelectStmt:
			s.exprOps(v, depth, "a switch / select")
		case *ast.GoStmt:
			s.exprOps(v.Call, depth, "a go statement")
		case *ast.DeferStmt:
			s.exprOps(v.Call, depth, "a defer statement")
		case *ast.LabeledStmt:
			s.e.flag("labelled statement")
			s.stmts([]ast.Stmt{v.Stmt}, depth, cond, false)
		case *ast.BranchStmt:
			s.e.flag("loop control statement " + v.Tok.String())
		case *ast.ReturnStmt:
			for _, r := range v.Results {
				s.exprOps(r, depth, cond)
			}
			last := top && i == len(list)-1
			if !last && lastIsNil(v) {
				s.e.flag("a successful return before the end of the method (" + s.p.at(v.Pos()) + ")")
			}
		default:
			s.exprOps(st, depth, cond)
		}
	}
}

func streamParam(fd *ast.FuncDecl) (string, string) {
	for _, f := range fd.Type.Params.List {
		t := types.ExprString(f.Type)
		if (t == "io.Writer" || t == "io.Reader") && len(f.Names) == 1 {
			return f.Names[0].Name, t
		}
	}
	return "", ""
}

func genLayoutTable(repo string) (string, error) {
	p, err := loadLayoutPkg(repo)
	if err != nil {
		return "", err
	}
	var entries []*layoutEntry
	for _, fd := range p.decls {
		dir := nestedNames[fd.Name.Name]
		if dir == "" || fd.Recv == nil || len(fd.Recv.List) == 0 {
			continue
		}
		env, poisoned := p.buildEnv(fd)
		e := &layoutEntry{typ: lyTypeName(fd.Recv.List[0].Type), method: fd.Name.Name, dir: dir, pos: fd.Pos()}
		name, ty := streamParam(fd)
		e.stream = name
		switch {
		case name == "":
			e.flag("no io.Writer / io.Reader parameter")
		case dir == "write" && ty != "io.Writer", dir == "read" && ty != "io.Reader":
			e.flag("parameter type " + ty + " in a " + dir + " method")
		}
		if name != "" {
			for _, pn := range poisoned {
				if pn == name {
					e.flag("the stream parameter is shadowed")
				}
			}
			sc := &layoutScan{p: p, env: env, e: e, stream: name, stack: []*ast.FuncDecl{fd}}
			sc.stmts(fd.Body.List, 0, "", true)
		}
		for _, op := range e.ops {
			if op.unknown {
				e.unknown = true
			}
		}
		entries = append(entries, e)
	}
	sort.SliceStable(entries, func(i, j int) bool {
		if entries[i].typ != entries[j].typ {
			return entries[i].typ < entries[j].typ
		}
		return entries[i].method < entries[j].method
	})
	var sb strings.Builder
	sb.WriteString("/- GENERATED by /verif/extract (layout.go) from /repo's current sources on every run. DO NOT EDIT.\n")
	sb.WriteString("   layoutTable: for every WriteTo / writeTo / ReadFrom / readFrom method the operations on its stream\n")
	sb.WriteString("   parameter in source order.  kind: binary.Write | binary.Read (ty = static type of the value / of the\n")
	sb.WriteString("   variable read into, order = byte order expression) | stream.Write | io.ReadFull (ty = type of the\n")
	sb.WriteString("   byte slice) | nested (callee = method called with the stream, ty = static type of its receiver) |\n")
	sb.WriteString("   other (not understood).  depth = number of enclosing for / range loops.\n")
	sb.WriteString("   A call that passes the stream to an UNEXPORTED function / method of the package other than writeTo /\n")
	sb.WriteString("   readFrom is replaced by the operations of the callee's body (recursively, depth <= 4). -/\n")
	sb.WriteString("namespace Gostatix.Generated\n\n")
	sb.WriteString("structure StreamOp where\n  kind : String\n  ty : String\n  callee : String\n  order : String\n  depth : Nat\n  unknown : Bool\n  deriving Repr, DecidableEq\n\n")
	sb.WriteString("structure LayoutEntry where\n  typ : String\n  method : String\n  dir : String\n  ops : List StreamOp\n  unknown : Bool\n  deriving Repr, DecidableEq\n\n")
	sb.WriteString("def layoutTable : List LayoutEntry := [\n")
	for i, e := range entries {
		if i > 0 {
			sb.WriteString(",\n")
		}
		fmt.Fprintf(&sb, "  -- %s", p.at(e.pos))
		for _, w := range e.why {
			fmt.Fprintf(&sb, "\n  --   unknown: %s", w)
		}
		fmt.Fprintf(&sb, "\n  { typ := %s, method := %s, dir := %s, unknown := %s, ops := [", lyQuote(e.typ), lyQuote(e.method), lyQuote(e.dir), lyBool(e.unknown))
		for j, op := range e.ops {
			if j > 0 {
				sb.WriteString(",")
			}
			fmt.Fprintf(&sb, "\n      -- %s", p.at(op.pos))
			if op.why != "" {
				fmt.Fprintf(&sb, "  (unknown: %s)", op.why)
			}
			fmt.Fprintf(&sb, "\n      { kind := %s, ty := %s, callee := %s, order := %s, depth := %d, unknown := %s }",
				lyQuote(op.kind), lyQuote(op.ty), lyQuote(op.callee), lyQuote(op.order), op.depth, lyBool(op.unknown))
		}
		sb.WriteString(" ] }")
	}
	sb.WriteString("\n]\n\nend Gostatix.Generated\n")
	return sb.String(), nil
}

// ---------------------------------------------------------------------------------------------
// small helpers (local copies, so that this file depends on no other generator)

func lyTypeName(e ast.Expr) string {
	switch t := e.(type) {
	case *ast.StarExpr:
		return lyTypeName(t.X)
	case *ast.ParenExpr:
		return lyTypeName(t.X)
	case *ast.Ident:
		return t.Name
	}
	return ""
}

func lyBool(b bool) string {
	if b {
		return "true"
	}
	return "false"
}

// lyQuote prints a Go string as a Lean string literal
func lyQuote(s string) string {
	var b strings.Builder
	b.WriteByte('"')
	for _, r := range s {
		switch r {
		case '"':
			b.WriteString("\\\"")
		case '\\':
			b.WriteString("\\\\")
		case '\n':
			b.WriteString("\\n")
		case '\t':
			b.WriteString("\\t")
		default:
			b.WriteRune(r)
		}
	}
	b.WriteByte('"')
	return b.String()
}
