module gsextract

go 1.19
