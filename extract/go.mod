module gsextract

go 1.19

require github.com/yuin/gopher-lua v1.1.0
