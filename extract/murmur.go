package main

// murmur3 x64_128 (murmur.go): the pieces of the hash function are located with go/ast and translated
// into Lean 4 definitions over `UInt64` (lean/Gostatix/Generated/Murmur.lean, regenerated on every
// run).  lean/Gostatix/Model/GoMurmur.lean (hand-written) assembles them into `sum128`, and
// lean/Gostatix/Props/MurmurTie.lean proves that this function is the hand transcription
// `Gostatix.Murmur.sum128` for ALL byte strings; both are re-checked by `lake build` against whatever
// this file emits.
//
// Like arith.go the translator is purely syntactic (no go/types).  Every piece is recognised by an
// exact statement shape; a piece that leaves the subset gets NO definition (a comment and an entry in
// `Murmur.unsupported`), so the assembly and the tie theorems no longer type-check.
//
// Pieces
//   constants   every name of the `const (...)` blocks of murmur.go with an integer literal value
//               (`c1_128`, `c2_128` : UInt64; `block_size`)
//   blockLoad   `t := (*[2]uint64)(unsafe.Pointer(&p[i*S]))` followed by `k1, k2 := t[a], t[b]` - exactly this
//               shape - becomes two little-endian 8-byte loads at byte offsets i*S+8a, i*S+8b
//               (ASSUMPTION: little-endian target, recorded in the generated header)
//   bmixBlock   the rest of the loop body of `(*digest128).bmix`, straight-line
//   bmixLoop*   the loop header `for i := 0; i < nblocks; i++` (start, step) as data; `h1, h2 := d.h1, d.h2` before and
//               `d.h1, d.h2 = h1, h2` after the loop are checked
//   fmix64      straight-line, `return <expr>`
//   tailMix     `var k1, k2 uint64` and `switch len(tail) & M { case M: ...; fallthrough; case M-1: ... }` of
//               `(*digest128).Sum128`: the case values must be the literals M, M-1, M-2, ... in this order,
//               one value per case, no default, every case but the last ends in `fallthrough` and the
//               last does not; then the statements of `case c` run iff `len(tail) & M >= c`, and every
//               statement `v op= e` of case c becomes `let v := if sel >= c then v op e else v`
//   finalize    the statements of Sum128 after the switch up to `return h1, h2`
//   digestSum128  Sum128 = tailMix, then finalize
//   seeds, nblocksOf, tailStart   from the six statements of `sum128` (exact shapes, see mmSum128)
//   getHashWord from `getHash` of base_cuckoo_filter.go (`hash1, _ := sum128(data); return hash1`): which word is used
//
// Straight-line subset
//   statements  `v = e`, `v op= e` with op in * + - ^ | &, v a uint64/uint local, parameter or named result
//   expressions locals, the constants above, integer literals (typed by the other operand), parentheses,
//               `x op y` with op in * + - ^ | & (operands of identical type: checked here),
//               `x << n`, `x >> n` with a literal 0 <= n < 64 (unsigned x),
//               `bits.RotateLeft64(x, n)` with a literal 0 <= n < 64,
//               `uint64(x)` for x of type uint64 / uint (identity on a 64-bit target),
//               `uint64(s[n])` for the []byte parameter s and a literal n (inside `case c` only, and n < c),
//               calls of functions of murmur.go translated before (fmix64)

import (
	"fmt"
	"go/ast"
	"go/parser"
	"go/token"
	"go/types"
	"math/big"
	"os"
	"path/filepath"
	"sort"
	"strconv"
	"strings"
)

type mmTy int

const (
	mmNone mmTy = iota
	mmU64
	mmUint
	mmUntyped
	mmBytes
)

func (t mmTy) String() string {
	switch t {
	case mmU64:
		return "uint64"
	case mmUint:
		return "uint"
	case mmUntyped:
		return "untyped constant"
	case mmBytes:
		return "[]byte"
	}
	return "?"
}

func mmTyOf(e ast.Expr) mmTy {
	switch t := e.(type) {
	case *ast.Ident:
		switch t.Name {
		case "uint64":
			return mmU64
		case "uint":
			return mmUint
		}
	case *ast.ArrayType:
		if t.Len == nil {
			if id, ok := t.Elt.(*ast.Ident); ok && (id.Name == "byte" || id.Name == "uint8") {
				return mmBytes
			}
		}
	}
	return mmNone
}

type mmEnv struct {
	vars      map[string]mmTy
	caseBound int // > 0 inside `case c` of the tail switch: byte indices must be < c
}

type mmGen struct {
	fset       *token.FileSet
	file       *ast.File
	base       string
	lines      []string
	consts     map[string]*big.Int
	constOrder []string
	constLine  map[string]int
	funcs      map[string]*ast.FuncDecl // "name" or "Recv.name"
	fields     map[string][]string      // struct -> field names of type uint64, in order (nil if another type occurs)
	bitsName   string
	unsafeName string
	translated map[string]bool // helper functions that have a definition
}

func (g *mmGen) line(n ast.Node) int { return g.fset.Position(n.Pos()).Line }

func (g *mmGen) at(n ast.Node) string { return fmt.Sprintf("%s:%d", g.base, g.line(n)) }

func (g *mmGen) src(n ast.Node) string {
	l := g.line(n)
	if l >= 1 && l <= len(g.lines) {
		return strings.TrimSpace(g.lines[l-1])
	}
	return ""
}

// cmt: the `-- murmur.go:<line>: <source>` comment of a node
func (g *mmGen) cmt(n ast.Node) string {
	return fmt.Sprintf("-- %s: %s", g.at(n), g.src(n))
}

func mmLit(e ast.Expr) (*big.Int, bool) {
	if p, ok := e.(*ast.ParenExpr); ok {
		return mmLit(p.X)
	}
	if _, ok := e.(*ast.BasicLit); !ok {
		return nil, false
	}
	v := constValue(e)
	return v, v != nil
}

func mmSmallLit(e ast.Expr, limit int64) (int, bool) {
	v, ok := mmLit(e)
	if !ok || v.Sign() < 0 || !v.IsInt64() || v.Int64() >= limit {
		return 0, false
	}
	return int(v.Int64()), true
}

func isIdent(e ast.Expr, name string) bool {
	id, ok := e.(*ast.Ident)
	return ok && id.Name == name
}

// isSel: e is `x.f`
func isSel(e ast.Expr, x, f string) bool {
	s, ok := e.(*ast.SelectorExpr)
	return ok && isIdent(s.X, x) && s.Sel.Name == f
}

func loadMurmur(repo string) (*mmGen, error) {
	path := filepath.Join(repo, "murmur.go")
	data, err := os.ReadFile(path)
	if err != nil {
		return nil, err
	}
	g := &mmGen{fset: token.NewFileSet(), base: "murmur.go", consts: map[string]*big.Int{}, constLine: map[string]int{},
		funcs: map[string]*ast.FuncDecl{}, fields: map[string][]string{}, translated: map[string]bool{}}
	g.file, err = parser.ParseFile(g.fset, path, data, parser.SkipObjectResolution)
	if err != nil {
		return nil, err
	}
	g.lines = strings.Split(string(data), "\n")
	for _, im := range g.file.Imports {
		p, _ := strconv.Unquote(im.Path.Value)
		name := filepath.Base(p)
		if im.Name != nil {
			name = im.Name.Name
		}
		switch p {
		case "math/bits":
			g.bitsName = name
		case "unsafe":
			g.unsafeName = name
		}
	}
	for _, d := range g.file.Decls {
		switch d := d.(type) {
		case *ast.FuncDecl:
			key := d.Name.Name
			if d.Recv != nil && len(d.Recv.List) == 1 {
				key = typeName(d.Recv.List[0].Type) + "." + key
			}
			g.funcs[key] = d
		case *ast.GenDecl:
			for _, s := range d.Specs {
				switch s := s.(type) {
				case *ast.ValueSpec:
					if d.Tok != token.CONST || s.Type != nil || len(s.Names) != len(s.Values) {
						continue
					}
					for i, n := range s.Names {
						if v, ok := mmLit(s.Values[i]); ok && v.Sign() >= 0 {
							g.consts[n.Name] = v
							g.constLine[n.Name] = g.line(n)
							g.constOrder = append(g.constOrder, n.Name)
						}
					}
				case *ast.TypeSpec:
					st, ok := s.Type.(*ast.StructType)
					if !ok {
						continue
					}
					var names []string
					good := true
					for _, f := range st.Fields.List {
						if mmTyOf(f.Type) != mmU64 || len(f.Names) == 0 {
							good = false
						}
						for _, n := range f.Names {
							names = append(names, n.Name)
						}
					}
					if good {
						g.fields[s.Name.Name] = names
					}
				}
			}
		}
	}
	return g, nil
}

// ---------------------------------------------------------------------------------------------
// expressions and straight-line statements

func (g *mmGen) expr(e ast.Expr, env *mmEnv) (lexpr, mmTy, error) {
	switch x := e.(type) {
	case *ast.ParenExpr:
		return g.expr(x.X, env)
	case *ast.Ident:
		if t, ok := env.vars[x.Name]; ok {
			if t != mmU64 && t != mmUint {
				return lexpr{}, mmNone, unsupportedf("%s: `%s` of type %s used as an integer", g.at(x), x.Name, t)
			}
			return lexpr{leanIdent(x.Name), true}, t, nil
		}
		if _, ok := g.consts[x.Name]; ok {
			return lexpr{leanIdent(x.Name), true}, mmUntyped, nil
		}
		return lexpr{}, mmNone, unsupportedf("%s: identifier `%s` is neither a uint64/uint variable of the piece nor an integer constant of murmur.go", g.at(x), x.Name)
	case *ast.BasicLit:
		v, ok := mmLit(x)
		if !ok || v.Sign() < 0 || v.BitLen() > 64 {
			return lexpr{}, mmNone, unsupportedf("%s: literal %s", g.at(x), x.Value)
		}
		return lexpr{x.Value, true}, mmUntyped, nil
	case *ast.BinaryExpr:
		switch x.Op {
		case token.SHL, token.SHR:
			l, lt, err := g.expr(x.X, env)
			if err != nil {
				return lexpr{}, mmNone, err
			}
			if lt != mmU64 && lt != mmUint {
				return lexpr{}, mmNone, unsupportedf("%s: shift of an operand of type %s", g.at(x), lt)
			}
			n, ok := mmSmallLit(x.Y, 64)
			if !ok {
				return lexpr{}, mmNone, unsupportedf("%s: shift count %s is not a literal in 0..63", g.at(x), types.ExprString(x.Y))
			}
			op := "<<<"
			if x.Op == token.SHR {
				op = ">>>"
			}
			return lexpr{fmt.Sprintf("%s %s %d", l.paren(), op, n), false}, lt, nil
		case token.MUL, token.ADD, token.SUB, token.XOR, token.OR, token.AND:
			l, lt, err := g.expr(x.X, env)
			if err != nil {
				return lexpr{}, mmNone, err
			}
			r, rt, err := g.expr(x.Y, env)
			if err != nil {
				return lexpr{}, mmNone, err
			}
			t := lt
			switch {
			case lt == mmUntyped && rt == mmUntyped:
				return lexpr{}, mmNone, unsupportedf("%s: constant expression %s", g.at(x), types.ExprString(x))
			case lt == mmUntyped:
				t = rt
			case rt == mmUntyped:
			case lt != rt:
				return lexpr{}, mmNone, unsupportedf("%s: operands of types %s and %s", g.at(x), lt, rt)
			}
			return lexpr{fmt.Sprintf("%s %s %s", l.paren(), leanOp[x.Op], r.paren()), false}, t, nil
		}
		return lexpr{}, mmNone, unsupportedf("%s: operator %s", g.at(x), x.Op)
	case *ast.CallExpr:
		return g.call(x, env)
	}
	return lexpr{}, mmNone, unsupportedf("%s: expression %s", g.at(e), types.ExprString(e))
}

func (g *mmGen) call(x *ast.CallExpr, env *mmEnv) (lexpr, mmTy, error) {
	if x.Ellipsis != token.NoPos {
		return lexpr{}, mmNone, unsupportedf("%s: variadic call", g.at(x))
	}
	// bits.RotateLeft64(v, n)
	if sel, ok := x.Fun.(*ast.SelectorExpr); ok {
		if g.bitsName != "" && isIdent(sel.X, g.bitsName) && sel.Sel.Name == "RotateLeft64" && len(x.Args) == 2 {
			if _, shadow := env.vars[g.bitsName]; shadow {
				return lexpr{}, mmNone, unsupportedf("%s: `%s` is shadowed", g.at(x), g.bitsName)
			}
			a, at, err := g.expr(x.Args[0], env)
			if err != nil {
				return lexpr{}, mmNone, err
			}
			if at != mmU64 {
				return lexpr{}, mmNone, unsupportedf("%s: bits.RotateLeft64 of an operand of type %s", g.at(x), at)
			}
			n, ok := mmSmallLit(x.Args[1], 64)
			if !ok {
				return lexpr{}, mmNone, unsupportedf("%s: rotation count %s is not a literal in 0..63", g.at(x), types.ExprString(x.Args[1]))
			}
			return lexpr{fmt.Sprintf("GoBits.rotl64 %s %d", a.paren(), n), false}, mmU64, nil
		}
		return lexpr{}, mmNone, unsupportedf("%s: call of %s", g.at(x), types.ExprString(x.Fun))
	}
	id, ok := x.Fun.(*ast.Ident)
	if !ok {
		return lexpr{}, mmNone, unsupportedf("%s: call of %s", g.at(x), types.ExprString(x.Fun))
	}
	if _, shadow := env.vars[id.Name]; shadow {
		return lexpr{}, mmNone, unsupportedf("%s: call of the variable `%s`", g.at(x), id.Name)
	}
	if id.Name == "uint64" && len(x.Args) == 1 {
		// uint64(s[n]) for a []byte s
		if ix, ok := x.Args[0].(*ast.IndexExpr); ok {
			s, ok := ix.X.(*ast.Ident)
			if !ok || env.vars[s.Name] != mmBytes {
				return lexpr{}, mmNone, unsupportedf("%s: index expression %s", g.at(x), types.ExprString(ix))
			}
			n, ok := mmSmallLit(ix.Index, 1<<31)
			if !ok {
				return lexpr{}, mmNone, unsupportedf("%s: index %s is not a literal", g.at(x), types.ExprString(ix.Index))
			}
			if env.caseBound <= 0 || n >= env.caseBound {
				return lexpr{}, mmNone, unsupportedf("%s: %s[%d] is read where only indices < %d are known to be in range", g.at(x), s.Name, n, env.caseBound)
			}
			return lexpr{fmt.Sprintf("GoBits.byteAt %s %d", leanIdent(s.Name), n), false}, mmU64, nil
		}
		a, at, err := g.expr(x.Args[0], env)
		if err != nil {
			return lexpr{}, mmNone, err
		}
		if at != mmU64 && at != mmUint {
			return lexpr{}, mmNone, unsupportedf("%s: conversion of %s to uint64", g.at(x), at)
		}
		return a, mmU64, nil // identity: uint is 64 bits wide on the targets considered
	}
	if g.translated[id.Name] && len(x.Args) == 1 {
		a, at, err := g.expr(x.Args[0], env)
		if err != nil {
			return lexpr{}, mmNone, err
		}
		if at != mmU64 {
			return lexpr{}, mmNone, unsupportedf("%s: argument of type %s for %s", g.at(x), at, id.Name)
		}
		return lexpr{fmt.Sprintf("%s %s", leanIdent(id.Name), a.paren()), false}, mmU64, nil
	}
	return lexpr{}, mmNone, unsupportedf("%s: call of %s", g.at(x), id.Name)
}

var mmAssignOp = map[token.Token]token.Token{token.MUL_ASSIGN: token.MUL, token.ADD_ASSIGN: token.ADD, token.SUB_ASSIGN: token.SUB,
	token.XOR_ASSIGN: token.XOR, token.OR_ASSIGN: token.OR, token.AND_ASSIGN: token.AND}

// straight translates `v = e` / `v op= e` statements into `let` lines; with cond != "" every line is
// `let v := if cond then <new value> else v`
func (g *mmGen) straight(stmts []ast.Stmt, env *mmEnv, cond string, note string, b *strings.Builder) error {
	for _, s := range stmts {
		as, ok := s.(*ast.AssignStmt)
		if !ok {
			return unsupportedf("%s: statement `%s` is not an assignment", g.at(s), g.src(s))
		}
		if len(as.Lhs) != 1 || len(as.Rhs) != 1 {
			return unsupportedf("%s: multiple assignment", g.at(s))
		}
		id, ok := as.Lhs[0].(*ast.Ident)
		if !ok {
			return unsupportedf("%s: assignment to %s", g.at(s), types.ExprString(as.Lhs[0]))
		}
		vt, ok := env.vars[id.Name]
		if !ok || (vt != mmU64 && vt != mmUint) {
			return unsupportedf("%s: assignment to `%s`, which is not a uint64/uint variable of the piece", g.at(s), id.Name)
		}
		var rhs ast.Expr
		switch {
		case as.Tok == token.ASSIGN:
			rhs = as.Rhs[0]
		case mmAssignOp[as.Tok] != token.ILLEGAL:
			rhs = &ast.BinaryExpr{X: &ast.Ident{Name: id.Name, NamePos: id.NamePos}, OpPos: as.TokPos, Op: mmAssignOp[as.Tok],
				Y: &ast.ParenExpr{Lparen: as.Rhs[0].Pos(), X: as.Rhs[0]}}
		default:
			return unsupportedf("%s: assignment operator %s", g.at(s), as.Tok)
		}
		e, et, err := g.expr(rhs, env)
		if err != nil {
			return err
		}
		if et != vt && et != mmUntyped {
			return unsupportedf("%s: value of type %s assigned to `%s` of type %s", g.at(s), et, id.Name, vt)
		}
		v := leanIdent(id.Name)
		if cond == "" {
			fmt.Fprintf(b, "  let %s : UInt64 := %s  %s%s\n", v, e.s, g.cmt(s), note)
		} else {
			fmt.Fprintf(b, "  let %s : UInt64 := if %s then %s else %s  %s%s\n", v, cond, e.s, v, g.cmt(s), note)
		}
	}
	return nil
}

// ---------------------------------------------------------------------------------------------
// the pieces

type mmPiece struct {
	name string
	def  string // "" when unsupported
	why  string
}

func (g *mmGen) recvOf(fd *ast.FuncDecl, typ string) (string, error) {
	if fd.Recv == nil || len(fd.Recv.List) != 1 || len(fd.Recv.List[0].Names) != 1 || typeName(fd.Recv.List[0].Type) != typ {
		return "", unsupportedf("%s: receiver of %s", g.at(fd), fd.Name.Name)
	}
	return fd.Recv.List[0].Names[0].Name, nil
}

type mmParam struct {
	name string
	ty   mmTy
}

func (g *mmGen) fieldList(fl *ast.FieldList) []mmParam {
	var out []mmParam
	if fl == nil {
		return nil
	}
	for _, f := range fl.List {
		t := mmTyOf(f.Type)
		if len(f.Names) == 0 {
			out = append(out, mmParam{"", t})
		}
		for _, n := range f.Names {
			out = append(out, mmParam{n.Name, t})
		}
	}
	return out
}

// stateLoad: `a, b <tok> d.f1, d.f2` with f1, f2 the fields of digest128 in declaration order
func (g *mmGen) stateLoad(s ast.Stmt, tok token.Token, recv string, fields []string) ([]string, error) {
	as, ok := s.(*ast.AssignStmt)
	if !ok || as.Tok != tok || len(as.Lhs) != len(fields) || len(as.Rhs) != len(fields) {
		return nil, unsupportedf("%s: expected `.. %s %s.%s, ..`, found `%s`", g.at(s), tok, recv, strings.Join(fields, ", "+recv+"."), g.src(s))
	}
	var names []string
	for i, f := range fields {
		id, ok := as.Lhs[i].(*ast.Ident)
		if !ok || !isSel(as.Rhs[i], recv, f) {
			return nil, unsupportedf("%s: expected the fields of %s in declaration order, found `%s`", g.at(s), recv, g.src(s))
		}
		names = append(names, id.Name)
	}
	return names, nil
}

// stateStore: `d.f1, d.f2 = a, b`
func (g *mmGen) stateStore(s ast.Stmt, recv string, fields, names []string) error {
	as, ok := s.(*ast.AssignStmt)
	if !ok || as.Tok != token.ASSIGN || len(as.Lhs) != len(fields) || len(as.Rhs) != len(fields) {
		return unsupportedf("%s: expected `%s.%s = %s`, found `%s`", g.at(s), recv, strings.Join(fields, ", "+recv+"."), strings.Join(names, ", "), g.src(s))
	}
	for i, f := range fields {
		if !isSel(as.Lhs[i], recv, f) || !isIdent(as.Rhs[i], names[i]) {
			return unsupportedf("%s: expected `%s.%s = %s`, found `%s`", g.at(s), recv, strings.Join(fields, ", "+recv+"."), strings.Join(names, ", "), g.src(s))
		}
	}
	return nil
}

func distinct(names ...string) bool {
	seen := map[string]bool{}
	for _, n := range names {
		if seen[n] || n == "_" || n == "" {
			return false
		}
		seen[n] = true
	}
	return true
}

// bmix: blockLoad, bmixBlock, loop header
func (g *mmGen) bmix() []mmPiece {
	fail := func(err error) []mmPiece {
		return []mmPiece{{"blockLoad", "", err.Error()}, {"bmixBlock", "", err.Error()}, {"bmixLoop", "", err.Error()}}
	}
	fd := g.funcs["digest128.bmix"]
	fields := g.fields["digest128"]
	if fd == nil || fd.Body == nil || len(fields) != 2 {
		return fail(unsupportedf("murmur.go: method (*digest128).bmix / struct digest128 with two uint64 fields not found"))
	}
	recv, err := g.recvOf(fd, "digest128")
	if err != nil {
		return fail(err)
	}
	ps := g.fieldList(fd.Type.Params)
	if len(ps) != 2 || ps[0].ty != mmBytes || !isIdent(fd.Type.Params.List[len(fd.Type.Params.List)-1].Type, "int") || fd.Type.Results != nil {
		return fail(unsupportedf("%s: expected bmix(p []byte, nblocks int)", g.at(fd)))
	}
	p, nblocks := ps[0].name, ps[1].name
	body := fd.Body.List
	if len(body) != 3 {
		return fail(unsupportedf("%s: expected three statements (load the state, loop, store the state), found %d", g.at(fd), len(body)))
	}
	st, err := g.stateLoad(body[0], token.DEFINE, recv, fields)
	if err != nil {
		return fail(err)
	}
	if err := g.stateStore(body[2], recv, fields, st); err != nil {
		return fail(err)
	}
	loop, ok := body[1].(*ast.ForStmt)
	if !ok {
		return fail(unsupportedf("%s: expected a for loop", g.at(body[1])))
	}
	// for i := 0; i < nblocks; i++
	ini, ok := loop.Init.(*ast.AssignStmt)
	if !ok || ini.Tok != token.DEFINE || len(ini.Lhs) != 1 || len(ini.Rhs) != 1 {
		return fail(unsupportedf("%s: loop initialisation", g.at(loop)))
	}
	iv, ok := ini.Lhs[0].(*ast.Ident)
	from, ok2 := mmSmallLit(ini.Rhs[0], 1<<31)
	if !ok || !ok2 {
		return fail(unsupportedf("%s: loop initialisation", g.at(loop)))
	}
	cond, ok := loop.Cond.(*ast.BinaryExpr)
	if !ok || cond.Op != token.LSS || !isIdent(cond.X, iv.Name) || !isIdent(cond.Y, nblocks) {
		return fail(unsupportedf("%s: loop condition is not `%s < %s`", g.at(loop), iv.Name, nblocks))
	}
	post, ok := loop.Post.(*ast.IncDecStmt)
	if !ok || post.Tok != token.INC || !isIdent(post.X, iv.Name) {
		return fail(unsupportedf("%s: loop post statement is not `%s++`", g.at(loop), iv.Name))
	}
	lb := loop.Body.List
	if len(lb) < 2 {
		return fail(unsupportedf("%s: loop body too short", g.at(loop)))
	}
	// t := (*[2]uint64)(unsafe.Pointer(&p[i*S]))
	stride, tname, err := g.unsafeLoad(lb[0], p, iv.Name)
	if err != nil {
		return fail(err)
	}
	// k1, k2 := t[a], t[b]
	ks, ok := lb[1].(*ast.AssignStmt)
	if !ok || ks.Tok != token.DEFINE || len(ks.Lhs) != 2 || len(ks.Rhs) != 2 {
		return fail(unsupportedf("%s: expected `k1, k2 := %s[0], %s[1]`, found `%s`", g.at(lb[1]), tname, tname, g.src(lb[1])))
	}
	var kn []string
	var kw []int
	for i := 0; i < 2; i++ {
		id, ok := ks.Lhs[i].(*ast.Ident)
		ix, ok2 := ks.Rhs[i].(*ast.IndexExpr)
		if !ok || !ok2 || !isIdent(ix.X, tname) {
			return fail(unsupportedf("%s: expected `k1, k2 := %s[0], %s[1]`, found `%s`", g.at(lb[1]), tname, tname, g.src(lb[1])))
		}
		w, ok := mmSmallLit(ix.Index, 2)
		if !ok {
			return fail(unsupportedf("%s: word index %s of the [2]uint64 view", g.at(lb[1]), types.ExprString(ix.Index)))
		}
		kn = append(kn, id.Name)
		kw = append(kw, w)
	}
	if !distinct(st[0], st[1], kn[0], kn[1]) {
		return fail(unsupportedf("%s: the state and block variables are not four distinct names", g.at(lb[1])))
	}
	var ld strings.Builder
	fmt.Fprintf(&ld, "/-- murmur.go, (*digest128).bmix: the two words of block `%s`\n    %s: %s\n    %s: %s\n", iv.Name, g.at(lb[0]), g.src(lb[0]), g.at(lb[1]), g.src(lb[1]))
	fmt.Fprintf(&ld, "    ASSUMPTION (little-endian target): word w of the [2]uint64 view at &%s[j] is the little-endian\n    value of the bytes %s[j+8w] .. %s[j+8w+7]; result: (%s, %s) -/\n", p, p, p, kn[0], kn[1])
	fmt.Fprintf(&ld, "def blockLoad (%s : List UInt8) (%s : Nat) : UInt64 × UInt64 :=\n", leanIdent(p), leanIdent(iv.Name))
	fmt.Fprintf(&ld, "  (GoBits.loadLE64 %s (%s * %d + %d), GoBits.loadLE64 %s (%s * %d + %d))\n",
		leanIdent(p), leanIdent(iv.Name), stride, 8*kw[0], leanIdent(p), leanIdent(iv.Name), stride, 8*kw[1])

	var lp strings.Builder
	fmt.Fprintf(&lp, "/-- murmur.go, (*digest128).bmix: loop header\n    %s: %s\n    (before: %s: %s; after: %s: %s) -/\n",
		g.at(loop), g.src(loop), g.at(body[0]), g.src(body[0]), g.at(body[2]), g.src(body[2]))
	fmt.Fprintf(&lp, "def bmixLoopFrom : Nat := %d\n", from)
	fmt.Fprintf(&lp, "/-- `%s++` -/\ndef bmixLoopStep : Nat := 1\n", iv.Name)

	pieces := []mmPiece{{"blockLoad", ld.String(), ""}, {"bmixLoop", lp.String(), ""}}

	env := &mmEnv{vars: map[string]mmTy{st[0]: mmU64, st[1]: mmU64, kn[0]: mmU64, kn[1]: mmU64}}
	var bb strings.Builder
	if len(lb) < 3 {
		return append(pieces, mmPiece{"bmixBlock", "", g.at(loop) + ": nothing after the load in the loop body"})
	}
	fmt.Fprintf(&bb, "/-- murmur.go, (*digest128).bmix: the loop body after the load (lines %d..%d), state (%s, %s) -/\n",
		g.line(lb[2]), g.fset.Position(loop.Body.Rbrace).Line-1, st[0], st[1])
	fmt.Fprintf(&bb, "def bmixBlock (%s %s %s %s : UInt64) : UInt64 × UInt64 :=\n", leanIdent(st[0]), leanIdent(st[1]), leanIdent(kn[0]), leanIdent(kn[1]))
	if err := g.straight(lb[2:], env, "", "", &bb); err != nil {
		return append(pieces, mmPiece{"bmixBlock", "", err.Error()})
	}
	fmt.Fprintf(&bb, "  (%s, %s)\n", leanIdent(st[0]), leanIdent(st[1]))
	return append(pieces, mmPiece{"bmixBlock", bb.String(), ""})
}

// unsafeLoad recognises exactly `t := (*[2]uint64)(unsafe.Pointer(&p[i*S]))`; returns S and t
func (g *mmGen) unsafeLoad(s ast.Stmt, p, i string) (int, string, error) {
	bad := func() (int, string, error) {
		return 0, "", unsupportedf("%s: expected `t := (*[2]uint64)(unsafe.Pointer(&%s[%s*<literal>]))`, found `%s`", g.at(s), p, i, g.src(s))
	}
	as, ok := s.(*ast.AssignStmt)
	if !ok || as.Tok != token.DEFINE || len(as.Lhs) != 1 || len(as.Rhs) != 1 || g.unsafeName == "" {
		return bad()
	}
	t, ok := as.Lhs[0].(*ast.Ident)
	if !ok {
		return bad()
	}
	conv, ok := as.Rhs[0].(*ast.CallExpr)
	if !ok || len(conv.Args) != 1 {
		return bad()
	}
	par, ok := conv.Fun.(*ast.ParenExpr)
	if !ok {
		return bad()
	}
	star, ok := par.X.(*ast.StarExpr)
	if !ok {
		return bad()
	}
	arr, ok := star.X.(*ast.ArrayType)
	if !ok || arr.Len == nil || !isIdent(arr.Elt, "uint64") {
		return bad()
	}
	if n, ok := mmSmallLit(arr.Len, 3); !ok || n != 2 {
		return bad()
	}
	up, ok := conv.Args[0].(*ast.CallExpr)
	if !ok || len(up.Args) != 1 || !isSel(up.Fun, g.unsafeName, "Pointer") {
		return bad()
	}
	amp, ok := up.Args[0].(*ast.UnaryExpr)
	if !ok || amp.Op != token.AND {
		return bad()
	}
	ix, ok := amp.X.(*ast.IndexExpr)
	if !ok || !isIdent(ix.X, p) {
		return bad()
	}
	mul, ok := ix.Index.(*ast.BinaryExpr)
	if !ok || mul.Op != token.MUL || !isIdent(mul.X, i) {
		return bad()
	}
	stride, ok := mmSmallLit(mul.Y, 1<<20)
	if !ok {
		return bad()
	}
	return stride, t.Name, nil
}

func (g *mmGen) fmix() mmPiece {
	fd := g.funcs["fmix64"]
	if fd == nil || fd.Body == nil {
		return mmPiece{"fmix64", "", "murmur.go: function fmix64 not found"}
	}
	ps, rs := g.fieldList(fd.Type.Params), g.fieldList(fd.Type.Results)
	if len(ps) != 1 || ps[0].ty != mmU64 || ps[0].name == "" || ps[0].name == "_" || len(rs) != 1 || rs[0].ty != mmU64 || rs[0].name != "" {
		return mmPiece{"fmix64", "", g.at(fd) + ": expected func fmix64(k uint64) uint64"}
	}
	body := fd.Body.List
	if len(body) == 0 {
		return mmPiece{"fmix64", "", g.at(fd) + ": empty body"}
	}
	ret, ok := body[len(body)-1].(*ast.ReturnStmt)
	if !ok || len(ret.Results) != 1 {
		return mmPiece{"fmix64", "", g.at(body[len(body)-1]) + ": expected `return <expr>`"}
	}
	env := &mmEnv{vars: map[string]mmTy{ps[0].name: mmU64}}
	var b strings.Builder
	fmt.Fprintf(&b, "/-- murmur.go, fmix64 (lines %d..%d) -/\n", g.line(fd), g.fset.Position(fd.Body.Rbrace).Line)
	fmt.Fprintf(&b, "def fmix64 (%s : UInt64) : UInt64 :=\n", leanIdent(ps[0].name))
	if err := g.straight(body[:len(body)-1], env, "", "", &b); err != nil {
		return mmPiece{"fmix64", "", err.Error()}
	}
	e, et, err := g.expr(ret.Results[0], env)
	if err != nil {
		return mmPiece{"fmix64", "", err.Error()}
	}
	if et != mmU64 {
		return mmPiece{"fmix64", "", fmt.Sprintf("%s: result of type %s", g.at(ret), et)}
	}
	fmt.Fprintf(&b, "  %s  %s\n", e.s, g.cmt(ret))
	g.translated["fmix64"] = true
	return mmPiece{"fmix64", b.String(), ""}
}

// Sum128: tailMix, finalize, digestSum128
func (g *mmGen) sumTail() []mmPiece {
	fail := func(err error) []mmPiece {
		return []mmPiece{{"tailMix", "", err.Error()}, {"finalize", "", err.Error()}, {"digestSum128", "", err.Error()}}
	}
	fd := g.funcs["digest128.Sum128"]
	fields := g.fields["digest128"]
	if fd == nil || fd.Body == nil || len(fields) != 2 {
		return fail(unsupportedf("murmur.go: method (*digest128).Sum128 / struct digest128 with two uint64 fields not found"))
	}
	recv, err := g.recvOf(fd, "digest128")
	if err != nil {
		return fail(err)
	}
	ps, rs := g.fieldList(fd.Type.Params), g.fieldList(fd.Type.Results)
	if len(ps) != 2 || ps[0].ty != mmBytes || ps[1].ty != mmUint || len(rs) != 2 || rs[0].ty != mmU64 || rs[1].ty != mmU64 ||
		!distinct(recv, ps[0].name, ps[1].name, rs[0].name, rs[1].name) {
		return fail(unsupportedf("%s: expected Sum128(tail []byte, dlen uint) (h1, h2 uint64)", g.at(fd)))
	}
	tail, dlen, r1, r2 := ps[0].name, ps[1].name, rs[0].name, rs[1].name
	body := fd.Body.List
	if len(body) < 4 {
		return fail(unsupportedf("%s: body too short", g.at(fd)))
	}
	st, err := g.stateLoad(body[0], token.ASSIGN, recv, fields)
	if err != nil {
		return fail(err)
	}
	if st[0] != r1 || st[1] != r2 {
		return fail(unsupportedf("%s: the state is not loaded into the named results (%s, %s)", g.at(body[0]), r1, r2))
	}
	// var k1, k2 uint64
	ds, ok := body[1].(*ast.DeclStmt)
	var kn []string
	if ok {
		if gd, ok := ds.Decl.(*ast.GenDecl); ok && gd.Tok == token.VAR && len(gd.Specs) == 1 {
			if vs, ok := gd.Specs[0].(*ast.ValueSpec); ok && len(vs.Values) == 0 && mmTyOf(vs.Type) == mmU64 {
				for _, n := range vs.Names {
					kn = append(kn, n.Name)
				}
			}
		}
	}
	if len(kn) == 0 || !distinct(append([]string{recv, tail, dlen, r1, r2}, kn...)...) {
		return fail(unsupportedf("%s: expected `var k1, k2 uint64`, found `%s`", g.at(body[1]), g.src(body[1])))
	}
	sw, ok := body[2].(*ast.SwitchStmt)
	if !ok || sw.Init != nil {
		return fail(unsupportedf("%s: expected `switch len(%s) & <literal>`", g.at(body[2]), tail))
	}
	tag, ok := sw.Tag.(*ast.BinaryExpr)
	if !ok || tag.Op != token.AND {
		return fail(unsupportedf("%s: expected `switch len(%s) & <literal>`", g.at(sw), tail))
	}
	lc, ok := tag.X.(*ast.CallExpr)
	mask, ok2 := mmSmallLit(tag.Y, 1<<20)
	if !ok || !ok2 || !isIdent(lc.Fun, "len") || len(lc.Args) != 1 || !isIdent(lc.Args[0], tail) {
		return fail(unsupportedf("%s: expected `switch len(%s) & <literal>`", g.at(sw), tail))
	}
	ret, ok := body[len(body)-1].(*ast.ReturnStmt)
	if !ok || !(len(ret.Results) == 0 || (len(ret.Results) == 2 && isIdent(ret.Results[0], r1) && isIdent(ret.Results[1], r2))) {
		return fail(unsupportedf("%s: expected `return %s, %s`", g.at(body[len(body)-1]), r1, r2))
	}

	var pieces []mmPiece
	// --- tailMix
	tm := func() mmPiece {
		var b strings.Builder
		fmt.Fprintf(&b, "/-- murmur.go, (*digest128).Sum128: the tail switch (lines %d..%d).  The case values are %d, %d, ... in\n", g.line(body[1]), g.fset.Position(sw.Body.Rbrace).Line, mask, mask-1)
		fmt.Fprintf(&b, "    source order, every case but the last ends in `fallthrough`: the statements of `case c` run iff\n    `len(%s) & %d ≥ c`.  `%s` has length < 2^63 (a Go slice), so `&` on the `int` is `&&&` on `Nat`. -/\n", tail, mask, tail)
		fmt.Fprintf(&b, "def tailMix (%s : List UInt8) (%s %s : UInt64) : UInt64 × UInt64 :=\n", leanIdent(tail), leanIdent(r1), leanIdent(r2))
		for _, k := range kn {
			fmt.Fprintf(&b, "  let %s : UInt64 := 0  %s\n", leanIdent(k), g.cmt(body[1]))
		}
		fmt.Fprintf(&b, "  let sel : Nat := %s.length &&& %d  %s\n", leanIdent(tail), mask, g.cmt(sw))
		vars := map[string]mmTy{tail: mmBytes, dlen: mmUint, r1: mmU64, r2: mmU64}
		for _, k := range kn {
			vars[k] = mmU64
		}
		if _, clash := vars["sel"]; clash {
			return mmPiece{"tailMix", "", "a variable of Sum128 is called `sel`"}
		}
		n := len(sw.Body.List)
		if n == 0 {
			return mmPiece{"tailMix", "", g.at(sw) + ": switch without cases"}
		}
		for _, c := range sw.Body.List {
			if cc, ok := c.(*ast.CaseClause); !ok || len(cc.List) != 1 {
				return mmPiece{"tailMix", "", g.at(c) + ": a default clause or a case with several values"}
			}
		}
		for i, c := range sw.Body.List {
			cc := c.(*ast.CaseClause)
			if len(cc.List) != 1 {
				return mmPiece{"tailMix", "", g.at(cc) + ": a default clause or a case with several values"}
			}
			v, ok := mmSmallLit(cc.List[0], 1<<20)
			if !ok || v != mask-i || v < 1 {
				return mmPiece{"tailMix", "", fmt.Sprintf("%s: case value %s, expected the literal %d (descending from the mask)", g.at(cc), types.ExprString(cc.List[0]), mask-i)}
			}
			stmts := cc.Body
			falls := false
			if len(stmts) > 0 {
				if br, ok := stmts[len(stmts)-1].(*ast.BranchStmt); ok && br.Tok == token.FALLTHROUGH {
					falls = true
					stmts = stmts[:len(stmts)-1]
				}
			}
			if i < n-1 && !falls {
				return mmPiece{"tailMix", "", fmt.Sprintf("%s: case %d does not end in `fallthrough`", g.at(cc), v)}
			}
			if i == n-1 && falls {
				return mmPiece{"tailMix", "", fmt.Sprintf("%s: the last case ends in `fallthrough`", g.at(cc))}
			}
			env := &mmEnv{vars: vars, caseBound: v}
			if err := g.straight(stmts, env, fmt.Sprintf("sel ≥ %d", v), fmt.Sprintf(" (case %d)", v), &b); err != nil {
				return mmPiece{"tailMix", "", err.Error()}
			}
		}
		fmt.Fprintf(&b, "  (%s, %s)\n", leanIdent(r1), leanIdent(r2))
		return mmPiece{"tailMix", b.String(), ""}
	}()
	pieces = append(pieces, tm)

	// --- finalize
	fin := func() mmPiece {
		var b strings.Builder
		fmt.Fprintf(&b, "/-- murmur.go, (*digest128).Sum128: after the switch (lines %d..%d); `%s uint` is passed as its 64-bit value -/\n",
			g.fset.Position(sw.Body.Rbrace).Line+1, g.line(ret), dlen)
		fmt.Fprintf(&b, "def finalize (%s %s %s : UInt64) : UInt64 × UInt64 :=\n", leanIdent(r1), leanIdent(r2), leanIdent(dlen))
		env := &mmEnv{vars: map[string]mmTy{r1: mmU64, r2: mmU64, dlen: mmUint}}
		if err := g.straight(body[3:len(body)-1], env, "", "", &b); err != nil {
			return mmPiece{"finalize", "", err.Error()}
		}
		fmt.Fprintf(&b, "  (%s, %s)  %s\n", leanIdent(r1), leanIdent(r2), g.cmt(ret))
		return mmPiece{"finalize", b.String(), ""}
	}()
	pieces = append(pieces, fin)

	if tm.def == "" || fin.def == "" {
		return append(pieces, mmPiece{"digestSum128", "", "tailMix / finalize not translated"})
	}
	var b strings.Builder
	fmt.Fprintf(&b, "/-- murmur.go, (*digest128).Sum128 (lines %d..%d) on the state (%s.%s, %s.%s): %s: %s -/\n", g.line(fd), g.fset.Position(fd.Body.Rbrace).Line,
		recv, fields[0], recv, fields[1], g.at(body[0]), g.src(body[0]))
	fmt.Fprintf(&b, "def digestSum128 (%s : List UInt8) (%s : UInt64) (%s %s : UInt64) : UInt64 × UInt64 :=\n", leanIdent(tail), leanIdent(dlen), leanIdent(r1), leanIdent(r2))
	fmt.Fprintf(&b, "  let s := tailMix %s %s %s\n  finalize s.1 s.2 %s\n", leanIdent(tail), leanIdent(r1), leanIdent(r2), leanIdent(dlen))
	return append(pieces, mmPiece{"digestSum128", b.String(), ""})
}

// sum128: seeds, nblocksOf, tailStart from
//
//	d := digest128{h1: 0, h2: 0}; dlen := len(data); nblocks := dlen / N; d.bmix(data, nblocks);
//	tail := data[nblocks*d.Size():]; return d.Sum128(tail, uint(dlen))
func (g *mmGen) sumTop() mmPiece {
	const name = "sum128 (seedH1, seedH2, nblocksOf, tailStart)"
	bad := func(n ast.Node, want string) mmPiece {
		return mmPiece{name, "", fmt.Sprintf("%s: expected `%s`, found `%s`", g.at(n), want, g.src(n))}
	}
	fd := g.funcs["sum128"]
	fields := g.fields["digest128"]
	if fd == nil || fd.Body == nil || len(fields) != 2 {
		return mmPiece{name, "", "murmur.go: function sum128 / struct digest128 with two uint64 fields not found"}
	}
	ps, rs := g.fieldList(fd.Type.Params), g.fieldList(fd.Type.Results)
	if fd.Recv != nil || len(ps) != 1 || ps[0].ty != mmBytes || len(rs) != 2 || rs[0].ty != mmU64 || rs[1].ty != mmU64 {
		return mmPiece{name, "", g.at(fd) + ": expected func sum128(data []byte) (h1 uint64, h2 uint64)"}
	}
	data := ps[0].name
	body := fd.Body.List
	if len(body) != 6 {
		return mmPiece{name, "", fmt.Sprintf("%s: expected six statements, found %d", g.at(fd), len(body))}
	}
	// d := digest128{h1: 0, h2: 0}
	s0, ok := body[0].(*ast.AssignStmt)
	if !ok || s0.Tok != token.DEFINE || len(s0.Lhs) != 1 || len(s0.Rhs) != 1 {
		return bad(body[0], "d := digest128{h1: .., h2: ..}")
	}
	d, ok := s0.Lhs[0].(*ast.Ident)
	cl, ok2 := s0.Rhs[0].(*ast.CompositeLit)
	if !ok || !ok2 || !isIdent(cl.Type, "digest128") {
		return bad(body[0], "d := digest128{h1: .., h2: ..}")
	}
	seeds := map[string]string{fields[0]: "0", fields[1]: "0"}
	for _, el := range cl.Elts {
		kv, ok := el.(*ast.KeyValueExpr)
		if !ok {
			return bad(body[0], "d := digest128{h1: .., h2: ..}")
		}
		k, ok := kv.Key.(*ast.Ident)
		v, ok2 := mmLit(kv.Value)
		if !ok || !ok2 || v.Sign() < 0 || v.BitLen() > 64 {
			return bad(body[0], "d := digest128{h1: <literal>, h2: <literal>}")
		}
		if _, known := seeds[k.Name]; !known {
			return bad(body[0], "d := digest128{h1: .., h2: ..}")
		}
		seeds[k.Name] = v.String()
	}
	// dlen := len(data)
	s1, ok := body[1].(*ast.AssignStmt)
	if !ok || s1.Tok != token.DEFINE || len(s1.Lhs) != 1 || len(s1.Rhs) != 1 {
		return bad(body[1], "dlen := len("+data+")")
	}
	dlen, ok := s1.Lhs[0].(*ast.Ident)
	lc, ok2 := s1.Rhs[0].(*ast.CallExpr)
	if !ok || !ok2 || !isIdent(lc.Fun, "len") || len(lc.Args) != 1 || !isIdent(lc.Args[0], data) {
		return bad(body[1], "dlen := len("+data+")")
	}
	// nblocks := dlen / N
	s2, ok := body[2].(*ast.AssignStmt)
	if !ok || s2.Tok != token.DEFINE || len(s2.Lhs) != 1 || len(s2.Rhs) != 1 {
		return bad(body[2], "nblocks := "+dlen.Name+" / <literal>")
	}
	nb, ok := s2.Lhs[0].(*ast.Ident)
	q, ok2 := s2.Rhs[0].(*ast.BinaryExpr)
	if !ok || !ok2 || q.Op != token.QUO || !isIdent(q.X, dlen.Name) {
		return bad(body[2], "nblocks := "+dlen.Name+" / <literal>")
	}
	div, ok := mmSmallLit(q.Y, 1<<20)
	if !ok || div == 0 {
		return bad(body[2], "nblocks := "+dlen.Name+" / <literal>")
	}
	if !distinct(data, d.Name, dlen.Name, nb.Name) {
		return mmPiece{name, "", g.at(fd) + ": the locals of sum128 are not distinct"}
	}
	// d.bmix(data, nblocks)
	s3, ok := body[3].(*ast.ExprStmt)
	want3 := fmt.Sprintf("%s.bmix(%s, %s)", d.Name, data, nb.Name)
	if !ok {
		return bad(body[3], want3)
	}
	c3, ok := s3.X.(*ast.CallExpr)
	if !ok || !isSel(c3.Fun, d.Name, "bmix") || len(c3.Args) != 2 || !isIdent(c3.Args[0], data) || !isIdent(c3.Args[1], nb.Name) {
		return bad(body[3], want3)
	}
	// tail := data[nblocks*d.Size():]
	want4 := fmt.Sprintf("tail := %s[%s*%s.Size():]", data, nb.Name, d.Name)
	s4, ok := body[4].(*ast.AssignStmt)
	if !ok || s4.Tok != token.DEFINE || len(s4.Lhs) != 1 || len(s4.Rhs) != 1 {
		return bad(body[4], want4)
	}
	tail, ok := s4.Lhs[0].(*ast.Ident)
	sl, ok2 := s4.Rhs[0].(*ast.SliceExpr)
	if !ok || !ok2 || !isIdent(sl.X, data) || sl.High != nil || sl.Max != nil || sl.Slice3 || sl.Low == nil || !distinct(data, d.Name, dlen.Name, nb.Name, tail.Name) {
		return bad(body[4], want4)
	}
	mul, ok := sl.Low.(*ast.BinaryExpr)
	if !ok || mul.Op != token.MUL || !isIdent(mul.X, nb.Name) {
		return bad(body[4], want4)
	}
	size, sizeNote := 0, ""
	if n, ok := mmSmallLit(mul.Y, 1<<20); ok {
		size = n
	} else if sc, ok := mul.Y.(*ast.CallExpr); ok && isSel(sc.Fun, d.Name, "Size") && len(sc.Args) == 0 {
		sf := g.funcs["digest128.Size"]
		if sf == nil || sf.Body == nil || len(sf.Body.List) != 1 || sf.Type.Params.NumFields() != 0 {
			return mmPiece{name, "", "murmur.go: method (*digest128).Size with the body `return <literal>` not found"}
		}
		r, ok := sf.Body.List[0].(*ast.ReturnStmt)
		if !ok || len(r.Results) != 1 {
			return bad(sf, "func (d *digest128) Size() int { return <literal> }")
		}
		n, ok := mmSmallLit(r.Results[0], 1<<20)
		if !ok {
			return bad(sf, "func (d *digest128) Size() int { return <literal> }")
		}
		size = n
		sizeNote = fmt.Sprintf("; %s: %s", g.at(sf), g.src(sf))
	} else {
		return bad(body[4], want4)
	}
	// return d.Sum128(tail, uint(dlen))
	want5 := fmt.Sprintf("return %s.Sum128(%s, uint(%s))", d.Name, tail.Name, dlen.Name)
	s5, ok := body[5].(*ast.ReturnStmt)
	if !ok || len(s5.Results) != 1 {
		return bad(body[5], want5)
	}
	c5, ok := s5.Results[0].(*ast.CallExpr)
	if !ok || !isSel(c5.Fun, d.Name, "Sum128") || len(c5.Args) != 2 || !isIdent(c5.Args[0], tail.Name) {
		return bad(body[5], want5)
	}
	cv, ok := c5.Args[1].(*ast.CallExpr)
	if !ok || !isIdent(cv.Fun, "uint") || len(cv.Args) != 1 || !isIdent(cv.Args[0], dlen.Name) {
		return bad(body[5], want5)
	}
	var b strings.Builder
	fmt.Fprintf(&b, "/-- murmur.go, sum128 (lines %d..%d).  Checked statement by statement:\n", g.line(fd), g.fset.Position(fd.Body.Rbrace).Line)
	for _, s := range body {
		fmt.Fprintf(&b, "    %s: %s\n", g.at(s), g.src(s))
	}
	fmt.Fprintf(&b, "    initial state (%s.%s, %s.%s) -/\n", d.Name, fields[0], d.Name, fields[1])
	fmt.Fprintf(&b, "def seedH1 : UInt64 := %s\ndef seedH2 : UInt64 := %s\n", seeds[fields[0]], seeds[fields[1]])
	fmt.Fprintf(&b, "/-- %s: %s  (`%s = len(%s)`, an `int` ≥ 0: `/` is the division of `Nat`) -/\n", g.at(body[2]), g.src(body[2]), dlen.Name, data)
	fmt.Fprintf(&b, "def nblocksOf (%s : Nat) : Nat := %s / %d\n", leanIdent(dlen.Name), leanIdent(dlen.Name), div)
	fmt.Fprintf(&b, "/-- %s: %s%s  (first byte of the tail) -/\n", g.at(body[4]), g.src(body[4]), sizeNote)
	fmt.Fprintf(&b, "def tailStart (%s : Nat) : Nat := %s * %d\n", leanIdent(nb.Name), leanIdent(nb.Name), size)
	return mmPiece{name, b.String(), ""}
}

// getHashWord: base_cuckoo_filter.go `func getHash(data []byte) uint64 { hash1, _ := sum128(data); return hash1 }`
func (g *mmGen) getHashWord(repo string) mmPiece {
	const name = "getHashWord"
	path := filepath.Join(repo, "base_cuckoo_filter.go")
	data, err := os.ReadFile(path)
	if err != nil {
		return mmPiece{name, "", "base_cuckoo_filter.go: " + err.Error()}
	}
	fset := token.NewFileSet()
	f, err := parser.ParseFile(fset, path, data, parser.SkipObjectResolution)
	if err != nil {
		return mmPiece{name, "", "base_cuckoo_filter.go: " + err.Error()}
	}
	lines := strings.Split(string(data), "\n")
	at := func(n ast.Node) string {
		l := fset.Position(n.Pos()).Line
		return fmt.Sprintf("base_cuckoo_filter.go:%d: %s", l, strings.TrimSpace(lines[l-1]))
	}
	for _, d := range f.Decls {
		fd, ok := d.(*ast.FuncDecl)
		if !ok || fd.Recv != nil || fd.Name.Name != "getHash" || fd.Body == nil {
			continue
		}
		if fd.Type.Params.NumFields() != 1 || len(fd.Type.Params.List[0].Names) != 1 || mmTyOf(fd.Type.Params.List[0].Type) != mmBytes ||
			fd.Type.Results.NumFields() != 1 || mmTyOf(fd.Type.Results.List[0].Type) != mmU64 || len(fd.Body.List) != 2 {
			return mmPiece{name, "", at(fd) + ": expected func getHash(data []byte) uint64 with two statements"}
		}
		arg := fd.Type.Params.List[0].Names[0].Name
		as, ok := fd.Body.List[0].(*ast.AssignStmt)
		ret, ok2 := fd.Body.List[1].(*ast.ReturnStmt)
		if !ok || !ok2 || as.Tok != token.DEFINE || len(as.Lhs) != 2 || len(as.Rhs) != 1 || len(ret.Results) != 1 {
			return mmPiece{name, "", at(fd.Body.List[0]) + ": expected `a, b := sum128(data)` and `return a` / `return b`"}
		}
		call, ok := as.Rhs[0].(*ast.CallExpr)
		if !ok || !isIdent(call.Fun, "sum128") || len(call.Args) != 1 || !isIdent(call.Args[0], arg) {
			return mmPiece{name, "", at(as) + ": expected a call sum128(" + arg + ")"}
		}
		r, ok := ret.Results[0].(*ast.Ident)
		if !ok || r.Name == "_" {
			return mmPiece{name, "", at(ret) + ": expected `return <one of the two results>`"}
		}
		word := -1
		for i, l := range as.Lhs {
			if isIdent(l, r.Name) {
				word = i
			}
		}
		if word < 0 || isIdent(as.Lhs[0], "_") && isIdent(as.Lhs[1], "_") {
			return mmPiece{name, "", at(ret) + ": the result is not one of the two words"}
		}
		var b strings.Builder
		fmt.Fprintf(&b, "/-- base_cuckoo_filter.go, getHash: which word of sum128 the cuckoo filter uses\n    %s\n    %s -/\n", at(as), at(ret))
		fmt.Fprintf(&b, "def getHashWord (r : UInt64 × UInt64) : UInt64 := r.%d\n", word+1)
		return mmPiece{name, b.String(), ""}
	}
	return mmPiece{name, "", "base_cuckoo_filter.go: function getHash not found"}
}

func genMurmur(repo string) (string, error) {
	g, err := loadMurmur(repo)
	if err != nil {
		return "", err
	}
	var b strings.Builder
	b.WriteString("/- GENERATED by extract/murmur.go from murmur.go (and getHash of base_cuckoo_filter.go) of the repository's\n")
	b.WriteString("   current sources on every run. DO NOT EDIT.\n")
	b.WriteString("   murmur3 x64_128 as written in murmur.go, piece by piece, over `UInt64` (Go's uint64 / uint arithmetic is\n")
	b.WriteString("   the wrap-around arithmetic of `UInt64`; shifts and rotations have literal counts < 64).  The pieces are\n")
	b.WriteString("   assembled into `sum128` by the hand-written Gostatix/Model/GoMurmur.lean; Gostatix/Props/MurmurTie.lean\n")
	b.WriteString("   proves that the result is the hand transcription Gostatix/Model/Murmur.lean for all inputs.\n")
	b.WriteString("   ASSUMPTIONS: (1) little-endian target (amd64, arm64): the `(*[2]uint64)(unsafe.Pointer(&p[j]))` view reads\n")
	b.WriteString("   the words `GoBits.loadLE64 p j` and `GoBits.loadLE64 p (j+8)`; unaligned loads are allowed on these targets;\n")
	b.WriteString("   (2) `uint` and `int` are 64 bits wide, slice lengths are < 2^63, so `len(s) & m`, `len(s) / n` are the\n")
	b.WriteString("   operations of `Nat` and `uint(len(s))` is `UInt64.ofNat`.\n")
	b.WriteString("   A piece outside the supported subset has NO definition here, only a comment and an entry in\n")
	b.WriteString("   `unsupported`; GoMurmur.lean and MurmurTie.lean then fail to build. -/\n")
	b.WriteString("import Gostatix.Model.GoBits\n")
	b.WriteString("namespace Gostatix.Generated.Murmur\n")
	b.WriteString("open Gostatix\n\n")

	// constants, in source order
	names := append([]string(nil), g.constOrder...)
	sort.SliceStable(names, func(i, j int) bool { return g.constLine[names[i]] < g.constLine[names[j]] })
	for _, n := range names {
		v := g.consts[n]
		l := g.constLine[n]
		srcl := ""
		if l >= 1 && l <= len(g.lines) {
			srcl = strings.TrimSpace(g.lines[l-1])
		}
		if v.BitLen() > 64 {
			fmt.Fprintf(&b, "-- murmur.go:%d: %s: constant does not fit 64 bits, no definition\n\n", l, srcl)
			continue
		}
		fmt.Fprintf(&b, "/-- murmur.go:%d: %s -/\ndef %s : UInt64 := 0x%x\n\n", l, srcl, leanIdent(n), v)
	}

	var pieces []mmPiece
	pieces = append(pieces, g.fmix())
	pieces = append(pieces, g.bmix()...)
	pieces = append(pieces, g.sumTail()...)
	pieces = append(pieces, g.sumTop())
	pieces = append(pieces, g.getHashWord(repo))
	var bad []mmPiece
	for _, p := range pieces {
		if p.def == "" {
			bad = append(bad, p)
			fmt.Fprintf(&b, "-- %s: UNSUPPORTED, no definition emitted: %s\n\n", p.name, strings.ReplaceAll(p.why, "\n", " "))
			continue
		}
		b.WriteString(p.def)
		b.WriteString("\n")
	}
	b.WriteString("/-- the pieces the translator could not translate (name, reason) -/\n")
	b.WriteString("def unsupported : List (String × String) := [")
	for i, p := range bad {
		if i > 0 {
			b.WriteString(",")
		}
		fmt.Fprintf(&b, "\n  (%s, %s)", leanString(p.name), leanString(p.why))
	}
	if len(bad) > 0 {
		b.WriteString("\n")
	}
	b.WriteString("]\n\nend Gostatix.Generated.Murmur\n")
	return b.String(), nil
}
