package main

// murmur3 x64_128 (murmur.go): the pieces of the hash function are located with go/ast and translated
// into Lean 4 definitions over `UInt64` (lean/Gostatix/Generated/Murmur.lean, regenerated on every
// run).  lean/Gostatix/Model/GoMurmur.lean (hand-written) assembles them into `sum128`, and
// lean/Gostatix/Props/MurmurTie.lean proves that this function is the hand transcription
// `Gostatix.Murmur.sum128` for ALL byte strings; both are re-checked by `lake build` against whatever
// this file emits.
//
// Like arith.go the translator is purely syntactic (no go/types).  Every piece is recognised by a
// statement shape; a piece that leaves the subset gets NO definition (a comment and an entry in
// `Murmur.unsupported`), so the assembly and the tie theorems no longer type-check.
//
// The NAMES of the generated definitions are roles chosen here (`blockLoad`, `bmixBlock`, `tailMix`,
// `finalize`, ...), never Go identifiers: the hand-written Lean files do not depend on how the Go
// source calls its constants, locals or helper functions.  The Go names that ARE used, to locate the
// pieces: the functions `(*digest128).bmix`, `(*digest128).Sum128`, `(*digest128).Size`, `sum128` of
// murmur.go and `getHash` of base_cuckoo_filter.go, and the struct `digest128`.
//
// Constants   every identifier that refers to a package-level integer constant of murmur.go is replaced
//             by its VALUE (constant expressions `+ - * / <<` of such constants are folded); the generated
//             file contains no named constants, only a comment table of the `const` declarations.
// Helpers     a call `f(a, ..)` of a package-level function of murmur.go whose parameters are uint64/uint,
//             whose single unnamed result is uint64/uint and whose body is straight-line code followed by
//             one `return <expr>` is INLINED (`(let p := a; ...; <expr>)`, locals renamed apart), also
//             inside such helpers, to depth 4; fmix64 is such a helper.  Anything else is refused.
//
// Pieces
//   blockLoad   `t := (*[2]uint64)(unsafe.Pointer(&p[i*S]))` followed by `k1, k2 := t[a], t[b]` - exactly this
//               shape (S, a, b constants) - becomes two little-endian 8-byte loads at byte offsets i*S+8a, i*S+8b
//               (ASSUMPTION: little-endian target, recorded in the generated header)
//   bmixBlock   the rest of the loop body of `(*digest128).bmix`, straight-line
//   bmixLoop*   the loop header `for i := 0; i < nblocks; i++` (start, step) as data; `h1, h2 := d.h1, d.h2` before and
//               `d.h1, d.h2 = h1, h2` after the loop are checked
//   tailMix     the statements of `(*digest128).Sum128` between `h1, h2 = d.h1, d.h2` and the end of
//               `switch len(tail) & M { case M: ...; fallthrough; case M-1: ... }`: a straight-line prefix
//               (`var k1, k2 uint64`), then the switch; the case values must be the constants M, M-1, M-2, ...
//               in this order, one value per case, no default, every case but the last ends in
//               `fallthrough` and the last does not; then the statements of `case c` run iff
//               `len(tail) & M >= c`, and every statement `v op= e` of case c becomes
//               `let v := if sel >= c then v op e else v`
//   finalize    the statements of Sum128 after the switch up to `return h1, h2`
//   digestSum128  Sum128 = tailMix, then finalize
//   seedH1/seedH2, nblocksOf, tailStart, lengthArg   from `sum128`, whose statements may come in any order that
//               compiles: creation of the digest (`d := digest128{..}`, `var d digest128`), int locals
//               (`dlen := len(data)`, `nblocks := dlen / C`), `tail := data[<nblocks>*C':]` (C' a constant or
//               `d.Size()`, C' <= C), one call `d.bmix(data, <nblocks>)`, `return d.Sum128(<tail>, uint(<len>))`
//   getHashWord from `getHash` of base_cuckoo_filter.go (`a, b := sum128(data); return a`): which word is used
//
// Straight-line subset
//   statements  `v = e`, `v op= e` with op in * + - ^ | &, v a uint64/uint local, parameter or named result;
//               tuple assignments `a, b = e1, e2` with Go's SIMULTANEOUS semantics (all right-hand sides are
//               bound to temporaries first); `x := e`, `x, y := e1, e2` and `var x, y uint64` introducing NEW
//               names (no shadowing), outside the switch only
//   expressions locals, integer constants (by value), integer literals (typed by the other operand), parentheses,
//               `x op y` with op in * + - ^ | & (operands of identical type: checked here),
//               `x << n`, `x >> n` with a constant 0 <= n < 64 (unsigned x),
//               `bits.RotateLeft64(x, n)` with a constant 0 <= n < 64,
//               `uint64(x)` / `uint(x)` for x of type uint64 / uint (identity on a 64-bit target),
//               `uint64(s[n])` for the []byte parameter s and a constant n (inside `case c` only, and n < c),
//               calls of inlinable helpers (see above)

import (
	"fmt"
	"go/ast"
	"go/parser"
	"go/token"
	"go/types"
	"math/big"
	"os"
	"path/filepath"
	"strconv"
	"strings"
)

type mmTy int

const (
	mmNone mmTy = iota
	mmU64
	mmUint
	mmInt
	mmUntyped
	mmBytes
)

func (t mmTy) String() string {
	switch t {
	case mmU64:
		return "uint64"
	case mmUint:
		return "uint"
	case mmInt:
		return "int"
	case mmUntyped:
		return "untyped constant"
	case mmBytes:
		return "[]byte"
	}
	return "?"
}

func (t mmTy) word() bool { return t == mmU64 || t == mmUint }

func mmTyOf(e ast.Expr) mmTy {
	switch t := e.(type) {
	case *ast.Ident:
		switch t.Name {
		case "uint64":
			return mmU64
		case "uint":
			return mmUint
		case "int":
			return mmInt
		}
	case *ast.ArrayType:
		if t.Len == nil {
			if id, ok := t.Elt.(*ast.Ident); ok && (id.Name == "byte" || id.Name == "uint8") {
				return mmBytes
			}
		}
	}
	return mmNone
}

type mmEnv struct {
	vars      map[string]mmTy
	rename    map[string]string // Go name -> Lean name (inlined helpers)
	caseBound int               // > 0 inside `case c` of the tail switch: byte indices must be < c
	depth     int               // inlining depth
}

func (env *mmEnv) lean(name string) string {
	if r, ok := env.rename[name]; ok {
		return leanIdent(r)
	}
	return leanIdent(name)
}

type mmConstDecl struct {
	name string
	expr ast.Expr
	ty   mmTy // mmUntyped, or the declared type
	line int
}

type mmGen struct {
	fset       *token.FileSet
	file       *ast.File
	base       string
	lines      []string
	consts     map[string]*mmConstDecl
	constOrder []string
	funcs      map[string]*ast.FuncDecl // "name" or "Recv.name"
	fields     map[string][]string      // struct -> field names of type uint64, in order (nil if another type occurs)
	bitsName   string
	unsafeName string
	idents     map[string]bool // every identifier of murmur.go (fresh names avoid them)
	shadow     map[string]bool // names declared inside the function being translated
	fresh      int
	inlined    []string // notes about the helpers inlined into the piece being translated
}

func (g *mmGen) line(n ast.Node) int { return g.fset.Position(n.Pos()).Line }

func (g *mmGen) at(n ast.Node) string { return fmt.Sprintf("%s:%d", g.base, g.line(n)) }

func (g *mmGen) src(n ast.Node) string {
	l := g.line(n)
	if l >= 1 && l <= len(g.lines) {
		return strings.TrimSpace(g.lines[l-1])
	}
	return ""
}

// cmt: the `-- murmur.go:<line>: <source>` comment of a node
func (g *mmGen) cmt(n ast.Node) string {
	return fmt.Sprintf("-- %s: %s", g.at(n), g.src(n))
}

// freshName: a Lean name that is no identifier of murmur.go
func (g *mmGen) freshName(stem string) string {
	for {
		g.fresh++
		n := fmt.Sprintf("%s_%d", stem, g.fresh)
		if !g.idents[n] {
			return n
		}
	}
}

// declaredIn: every name declared inside a function (receiver, parameters, results, :=, var, const, range keys)
func declaredIn(fd *ast.FuncDecl) map[string]bool {
	out := map[string]bool{}
	add := func(fl *ast.FieldList) {
		if fl == nil {
			return
		}
		for _, f := range fl.List {
			for _, n := range f.Names {
				out[n.Name] = true
			}
		}
	}
	add(fd.Recv)
	add(fd.Type.Params)
	add(fd.Type.Results)
	if fd.Body == nil {
		return out
	}
	ast.Inspect(fd.Body, func(n ast.Node) bool {
		switch v := n.(type) {
		case *ast.AssignStmt:
			if v.Tok == token.DEFINE {
				for _, l := range v.Lhs {
					if id, ok := l.(*ast.Ident); ok {
						out[id.Name] = true
					}
				}
			}
		case *ast.ValueSpec:
			for _, id := range v.Names {
				out[id.Name] = true
			}
		case *ast.TypeSpec:
			out[v.Name.Name] = true
		case *ast.RangeStmt:
			if v.Tok == token.DEFINE {
				if id, ok := v.Key.(*ast.Ident); ok {
					out[id.Name] = true
				}
				if id, ok := v.Value.(*ast.Ident); ok {
					out[id.Name] = true
				}
			}
		case *ast.FuncLit:
			add(v.Type.Params)
			add(v.Type.Results)
		case *ast.LabeledStmt:
			out[v.Label.Name] = true
		}
		return true
	})
	return out
}

// enter: start translating (a piece of) fd
func (g *mmGen) enter(fd *ast.FuncDecl) {
	g.shadow = declaredIn(fd)
	g.fresh = 0
	g.inlined = nil
}

// constEval: the value of a constant expression built from integer literals, package-level integer
// constants of murmur.go (not shadowed in the current function) and + - * / <<
func (g *mmGen) constEval(e ast.Expr, depth int) (*big.Int, bool) {
	if depth > 16 {
		return nil, false
	}
	switch x := e.(type) {
	case *ast.ParenExpr:
		return g.constEval(x.X, depth+1)
	case *ast.BasicLit:
		v := constValue(x)
		return v, v != nil
	case *ast.Ident:
		c := g.consts[x.Name]
		if c == nil || g.shadow[x.Name] {
			return nil, false
		}
		saved := g.shadow
		g.shadow = nil // the defining expression lives at package level
		v, ok := g.constEval(c.expr, depth+1)
		g.shadow = saved
		return v, ok
	case *ast.BinaryExpr:
		a, ok := g.constEval(x.X, depth+1)
		if !ok {
			return nil, false
		}
		b, ok := g.constEval(x.Y, depth+1)
		if !ok {
			return nil, false
		}
		switch x.Op {
		case token.ADD:
			return new(big.Int).Add(a, b), true
		case token.SUB:
			return new(big.Int).Sub(a, b), true
		case token.MUL:
			return new(big.Int).Mul(a, b), true
		case token.QUO:
			if b.Sign() <= 0 || a.Sign() < 0 {
				return nil, false
			}
			return new(big.Int).Quo(a, b), true
		case token.SHL:
			if b.Sign() < 0 || !b.IsInt64() || b.Int64() > 200 {
				return nil, false
			}
			return new(big.Int).Lsh(a, uint(b.Int64())), true
		}
	}
	return nil, false
}

// smallConst: a constant expression with value in [0, limit)
func (g *mmGen) smallConst(e ast.Expr, limit int64) (int, bool) {
	v, ok := g.constEval(e, 0)
	if !ok || v.Sign() < 0 || !v.IsInt64() || v.Int64() >= limit {
		return 0, false
	}
	return int(v.Int64()), true
}

func leanNumeral(v *big.Int) string {
	if v.IsInt64() && v.Int64() < 1024 {
		return v.String()
	}
	return fmt.Sprintf("0x%x", v)
}

func isIdent(e ast.Expr, name string) bool {
	id, ok := e.(*ast.Ident)
	return ok && id.Name == name
}

// isSel: e is `x.f`
func isSel(e ast.Expr, x, f string) bool {
	s, ok := e.(*ast.SelectorExpr)
	return ok && isIdent(s.X, x) && s.Sel.Name == f
}

func loadMurmur(repo string) (*mmGen, error) {
	path := filepath.Join(repo, "murmur.go")
	data, err := os.ReadFile(path)
	if err != nil {
		return nil, err
	}
	g := &mmGen{fset: token.NewFileSet(), base: "murmur.go", consts: map[string]*mmConstDecl{},
		funcs: map[string]*ast.FuncDecl{}, fields: map[string][]string{}, idents: map[string]bool{}}
	g.file, err = parser.ParseFile(g.fset, path, data, parser.SkipObjectResolution)
	if err != nil {
		return nil, err
	}
	g.lines = strings.Split(string(data), "\n")
	ast.Inspect(g.file, func(n ast.Node) bool {
		if id, ok := n.(*ast.Ident); ok {
			g.idents[id.Name] = true
		}
		return true
	})
	for _, im := range g.file.Imports {
		p, _ := strconv.Unquote(im.Path.Value)
		name := filepath.Base(p)
		if im.Name != nil {
			name = im.Name.Name
		}
		switch p {
		case "math/bits":
			g.bitsName = name
		case "unsafe":
			g.unsafeName = name
		}
	}
	for _, d := range g.file.Decls {
		switch d := d.(type) {
		case *ast.FuncDecl:
			key := d.Name.Name
			if d.Recv != nil && len(d.Recv.List) == 1 {
				key = typeName(d.Recv.List[0].Type) + "." + key
			}
			g.funcs[key] = d
		case *ast.GenDecl:
			for _, s := range d.Specs {
				switch s := s.(type) {
				case *ast.ValueSpec:
					if d.Tok != token.CONST || len(s.Names) != len(s.Values) {
						continue // iota-style continuation lines are not integer constants we resolve
					}
					ty := mmUntyped
					if s.Type != nil {
						ty = mmTyOf(s.Type)
						if ty != mmU64 && ty != mmUint && ty != mmInt {
							continue
						}
					}
					for i, n := range s.Names {
						g.consts[n.Name] = &mmConstDecl{n.Name, s.Values[i], ty, g.line(n)}
						g.constOrder = append(g.constOrder, n.Name)
					}
				case *ast.TypeSpec:
					st, ok := s.Type.(*ast.StructType)
					if !ok {
						continue
					}
					var names []string
					good := true
					for _, f := range st.Fields.List {
						if mmTyOf(f.Type) != mmU64 || len(f.Names) == 0 {
							good = false
						}
						for _, n := range f.Names {
							names = append(names, n.Name)
						}
					}
					if good {
						g.fields[s.Name.Name] = names
					}
				}
			}
		}
	}
	return g, nil
}

// ---------------------------------------------------------------------------------------------
// expressions and straight-line statements

func (g *mmGen) numeral(e ast.Expr, v *big.Int) (lexpr, error) {
	if v.Sign() < 0 || v.BitLen() > 64 {
		return lexpr{}, unsupportedf("%s: constant %s does not fit 64 unsigned bits", g.at(e), v.String())
	}
	return lexpr{leanNumeral(v), true}, nil
}

func (g *mmGen) expr(e ast.Expr, env *mmEnv) (lexpr, mmTy, error) {
	switch x := e.(type) {
	case *ast.ParenExpr:
		return g.expr(x.X, env)
	case *ast.Ident:
		if t, ok := env.vars[x.Name]; ok {
			if !t.word() {
				return lexpr{}, mmNone, unsupportedf("%s: `%s` of type %s used as an integer", g.at(x), x.Name, t)
			}
			return lexpr{env.lean(x.Name), true}, t, nil
		}
		if c := g.consts[x.Name]; c != nil {
			v, ok := g.constEval(x, 0)
			if !ok {
				return lexpr{}, mmNone, unsupportedf("%s: constant `%s` (shadowed, or not an integer constant expression)", g.at(x), x.Name)
			}
			if c.ty == mmInt {
				return lexpr{}, mmNone, unsupportedf("%s: constant `%s` of type int in unsigned arithmetic", g.at(x), x.Name)
			}
			n, err := g.numeral(x, v)
			return n, c.ty, err
		}
		return lexpr{}, mmNone, unsupportedf("%s: identifier `%s` is neither a uint64/uint variable of the piece nor an integer constant of murmur.go", g.at(x), x.Name)
	case *ast.BasicLit:
		v, ok := g.constEval(x, 0)
		if !ok {
			return lexpr{}, mmNone, unsupportedf("%s: literal %s", g.at(x), x.Value)
		}
		n, err := g.numeral(x, v)
		return n, mmUntyped, err
	case *ast.BinaryExpr:
		switch x.Op {
		case token.SHL, token.SHR:
			l, lt, err := g.expr(x.X, env)
			if err != nil {
				return lexpr{}, mmNone, err
			}
			if !lt.word() {
				return lexpr{}, mmNone, unsupportedf("%s: shift of an operand of type %s", g.at(x), lt)
			}
			n, ok := g.smallConst(x.Y, 64)
			if !ok {
				return lexpr{}, mmNone, unsupportedf("%s: shift count %s is not a constant in 0..63", g.at(x), types.ExprString(x.Y))
			}
			op := "<<<"
			if x.Op == token.SHR {
				op = ">>>"
			}
			return lexpr{fmt.Sprintf("%s %s %d", l.paren(), op, n), false}, lt, nil
		case token.MUL, token.ADD, token.SUB, token.XOR, token.OR, token.AND:
			l, lt, err := g.expr(x.X, env)
			if err != nil {
				return lexpr{}, mmNone, err
			}
			r, rt, err := g.expr(x.Y, env)
			if err != nil {
				return lexpr{}, mmNone, err
			}
			t := lt
			switch {
			case lt == mmUntyped && rt == mmUntyped:
				v, ok := g.constEval(x, 0)
				if !ok {
					return lexpr{}, mmNone, unsupportedf("%s: constant expression %s", g.at(x), types.ExprString(x))
				}
				n, err := g.numeral(x, v)
				return n, mmUntyped, err
			case lt == mmUntyped:
				t = rt
			case rt == mmUntyped:
			case lt != rt:
				return lexpr{}, mmNone, unsupportedf("%s: operands of types %s and %s", g.at(x), lt, rt)
			}
			return lexpr{fmt.Sprintf("%s %s %s", l.paren(), leanOp[x.Op], r.paren()), false}, t, nil
		}
		return lexpr{}, mmNone, unsupportedf("%s: operator %s", g.at(x), x.Op)
	case *ast.CallExpr:
		return g.call(x, env)
	}
	return lexpr{}, mmNone, unsupportedf("%s: expression %s", g.at(e), types.ExprString(e))
}

func (g *mmGen) call(x *ast.CallExpr, env *mmEnv) (lexpr, mmTy, error) {
	if x.Ellipsis != token.NoPos {
		return lexpr{}, mmNone, unsupportedf("%s: variadic call", g.at(x))
	}
	// bits.RotateLeft64(v, n)
	if sel, ok := x.Fun.(*ast.SelectorExpr); ok {
		if g.bitsName != "" && isIdent(sel.X, g.bitsName) && sel.Sel.Name == "RotateLeft64" && len(x.Args) == 2 {
			if _, sh := env.vars[g.bitsName]; sh || g.shadow[g.bitsName] {
				return lexpr{}, mmNone, unsupportedf("%s: `%s` is shadowed", g.at(x), g.bitsName)
			}
			a, at, err := g.expr(x.Args[0], env)
			if err != nil {
				return lexpr{}, mmNone, err
			}
			if at != mmU64 {
				return lexpr{}, mmNone, unsupportedf("%s: bits.RotateLeft64 of an operand of type %s", g.at(x), at)
			}
			n, ok := g.smallConst(x.Args[1], 64)
			if !ok {
				return lexpr{}, mmNone, unsupportedf("%s: rotation count %s is not a constant in 0..63", g.at(x), types.ExprString(x.Args[1]))
			}
			return lexpr{fmt.Sprintf("GoBits.rotl64 %s %d", a.paren(), n), false}, mmU64, nil
		}
		return lexpr{}, mmNone, unsupportedf("%s: call of %s", g.at(x), types.ExprString(x.Fun))
	}
	id, ok := x.Fun.(*ast.Ident)
	if !ok {
		return lexpr{}, mmNone, unsupportedf("%s: call of %s", g.at(x), types.ExprString(x.Fun))
	}
	if _, sh := env.vars[id.Name]; sh || g.shadow[id.Name] {
		return lexpr{}, mmNone, unsupportedf("%s: call of `%s`, which is declared inside the function", g.at(x), id.Name)
	}
	if (id.Name == "uint64" || id.Name == "uint") && len(x.Args) == 1 {
		to := mmU64
		if id.Name == "uint" {
			to = mmUint
		}
		// uint64(s[n]) for a []byte s
		if ix, ok := x.Args[0].(*ast.IndexExpr); ok {
			s, ok := ix.X.(*ast.Ident)
			if !ok || env.vars[s.Name] != mmBytes {
				return lexpr{}, mmNone, unsupportedf("%s: index expression %s", g.at(x), types.ExprString(ix))
			}
			n, ok := g.smallConst(ix.Index, 1<<31)
			if !ok {
				return lexpr{}, mmNone, unsupportedf("%s: index %s is not a constant", g.at(x), types.ExprString(ix.Index))
			}
			if env.caseBound <= 0 || n >= env.caseBound {
				return lexpr{}, mmNone, unsupportedf("%s: %s[%d] is read where only indices < %d are known to be in range", g.at(x), s.Name, n, env.caseBound)
			}
			return lexpr{fmt.Sprintf("GoBits.byteAt %s %d", env.lean(s.Name), n), false}, to, nil
		}
		a, at, err := g.expr(x.Args[0], env)
		if err != nil {
			return lexpr{}, mmNone, err
		}
		if !at.word() && at != mmUntyped {
			return lexpr{}, mmNone, unsupportedf("%s: conversion of %s to %s", g.at(x), at, id.Name)
		}
		return a, to, nil // identity: uint is 64 bits wide on the targets considered
	}
	if fd := g.funcs[id.Name]; fd != nil && fd.Recv == nil {
		return g.inlineCall(x, fd, env)
	}
	return lexpr{}, mmNone, unsupportedf("%s: call of %s", g.at(x), id.Name)
}

// inlineCall: f(a, ..) for a package-level f of murmur.go with uint64/uint parameters, one unnamed uint64/uint
// result and a body `<straight-line>; return <expr>` becomes `(let p := a; ..; <expr>)`
func (g *mmGen) inlineCall(x *ast.CallExpr, fd *ast.FuncDecl, env *mmEnv) (lexpr, mmTy, error) {
	name := fd.Name.Name
	if env.depth >= 4 {
		return lexpr{}, mmNone, unsupportedf("%s: call of %s: helper calls nested deeper than 4 (or recursive)", g.at(x), name)
	}
	ps, rs := g.fieldList(fd.Type.Params), g.fieldList(fd.Type.Results)
	if fd.Body == nil || fd.Type.TypeParams != nil || len(rs) != 1 || !rs[0].ty.word() || rs[0].name != "" || len(ps) != len(x.Args) {
		return lexpr{}, mmNone, unsupportedf("%s: call of %s, which is not a helper `func(uint64, ..) uint64` with an unnamed result", g.at(x), name)
	}
	var pn []string
	for _, p := range ps {
		if !p.ty.word() || p.name == "" {
			return lexpr{}, mmNone, unsupportedf("%s: call of %s: parameter of type other than uint64/uint", g.at(x), name)
		}
		pn = append(pn, p.name)
	}
	if len(pn) > 0 && !distinct(pn...) {
		return lexpr{}, mmNone, unsupportedf("%s: call of %s: blank or repeated parameter names", g.at(x), name)
	}
	body := fd.Body.List
	if len(body) == 0 {
		return lexpr{}, mmNone, unsupportedf("%s: call of %s: empty body", g.at(x), name)
	}
	ret, ok := body[len(body)-1].(*ast.ReturnStmt)
	if !ok || len(ret.Results) != 1 {
		return lexpr{}, mmNone, unsupportedf("%s: call of %s: the body does not end in `return <expr>`", g.at(x), name)
	}
	// arguments, in the caller's scope
	var parts []string
	henv := &mmEnv{vars: map[string]mmTy{}, rename: map[string]string{}, depth: env.depth + 1}
	for i, a := range x.Args {
		ae, at, err := g.expr(a, env)
		if err != nil {
			return lexpr{}, mmNone, err
		}
		if at != ps[i].ty && at != mmUntyped {
			return lexpr{}, mmNone, unsupportedf("%s: argument of type %s for the %s parameter `%s` of %s", g.at(a), at, ps[i].ty, ps[i].name, name)
		}
		henv.vars[ps[i].name] = ps[i].ty
		henv.rename[ps[i].name] = g.freshName(ps[i].name)
		parts = append(parts, fmt.Sprintf("let %s : UInt64 := %s", henv.lean(ps[i].name), ae.s))
	}
	saved := g.shadow
	g.shadow = declaredIn(fd)
	defer func() { g.shadow = saved }()
	lets, err := g.straight(body[:len(body)-1], henv, "")
	if err != nil {
		return lexpr{}, mmNone, err
	}
	for _, l := range lets {
		parts = append(parts, fmt.Sprintf("let %s : UInt64 := %s", l.name, l.rhs))
	}
	re, rt, err := g.expr(ret.Results[0], henv)
	if err != nil {
		return lexpr{}, mmNone, err
	}
	if rt != rs[0].ty && rt != mmUntyped {
		return lexpr{}, mmNone, unsupportedf("%s: %s returns a value of type %s", g.at(ret), name, rt)
	}
	note := fmt.Sprintf("%s: func %s (lines %d..%d)", g.at(fd), name, g.line(fd), g.fset.Position(fd.Body.Rbrace).Line)
	seen := false
	for _, n := range g.inlined {
		if n == note {
			seen = true
		}
	}
	if !seen {
		g.inlined = append(g.inlined, note)
	}
	parts = append(parts, re.s)
	return lexpr{"(" + strings.Join(parts, "; ") + ")", true}, rs[0].ty, nil
}

var mmAssignOp = map[token.Token]token.Token{token.MUL_ASSIGN: token.MUL, token.ADD_ASSIGN: token.ADD, token.SUB_ASSIGN: token.SUB,
	token.XOR_ASSIGN: token.XOR, token.OR_ASSIGN: token.OR, token.AND_ASSIGN: token.AND}

// mmLet: one `let name : UInt64 := rhs` of a translated statement list
type mmLet struct {
	name string // Lean name
	rhs  string
	cmt  string
}

// straight translates assignments / definitions into `let` bindings; with cond != "" every assignment
// to a variable is `let v := if cond then <new value> else v` (definitions are refused there)
func (g *mmGen) straight(stmts []ast.Stmt, env *mmEnv, cond string) ([]mmLet, error) {
	var out []mmLet
	guard := func(v, e string) string {
		if cond == "" {
			return e
		}
		return fmt.Sprintf("if %s then %s else %s", cond, e, v)
	}
	for _, s := range stmts {
		if ds, ok := s.(*ast.DeclStmt); ok {
			// var a, b uint64
			gd, ok := ds.Decl.(*ast.GenDecl)
			if !ok || gd.Tok != token.VAR || cond != "" {
				return nil, unsupportedf("%s: declaration `%s`", g.at(s), g.src(s))
			}
			for _, sp := range gd.Specs {
				vs, ok := sp.(*ast.ValueSpec)
				if !ok || len(vs.Values) != 0 || !mmTyOf(vs.Type).word() {
					return nil, unsupportedf("%s: expected `var a, b uint64`, found `%s`", g.at(s), g.src(s))
				}
				for _, n := range vs.Names {
					if _, dup := env.vars[n.Name]; dup || n.Name == "_" {
						return nil, unsupportedf("%s: `%s` is declared twice (shadowing is not supported)", g.at(s), n.Name)
					}
					env.vars[n.Name] = mmTyOf(vs.Type)
					out = append(out, mmLet{env.lean(n.Name), "0", g.cmt(s)})
				}
			}
			continue
		}
		as, ok := s.(*ast.AssignStmt)
		if !ok {
			return nil, unsupportedf("%s: statement `%s` is neither an assignment nor a declaration", g.at(s), g.src(s))
		}
		if len(as.Lhs) != len(as.Rhs) {
			return nil, unsupportedf("%s: assignment from a multi-valued expression", g.at(s))
		}
		var ids []*ast.Ident
		for _, l := range as.Lhs {
			id, ok := l.(*ast.Ident)
			if !ok || id.Name == "_" {
				return nil, unsupportedf("%s: assignment to %s", g.at(s), types.ExprString(l))
			}
			ids = append(ids, id)
		}
		switch {
		case as.Tok == token.DEFINE:
			if cond != "" {
				return nil, unsupportedf("%s: `:=` inside a case of the switch", g.at(s))
			}
			// all right-hand sides first (in the old scope), then the new names
			var rhs []lexpr
			var tys []mmTy
			for _, r := range as.Rhs {
				e, et, err := g.expr(r, env)
				if err != nil {
					return nil, err
				}
				if !et.word() {
					return nil, unsupportedf("%s: `:=` of a value of type %s", g.at(s), et)
				}
				rhs = append(rhs, e)
				tys = append(tys, et)
			}
			for i, id := range ids {
				if _, dup := env.vars[id.Name]; dup {
					return nil, unsupportedf("%s: `%s` is redeclared (shadowing is not supported)", g.at(s), id.Name)
				}
				for j := 0; j < i; j++ {
					if ids[j].Name == id.Name {
						return nil, unsupportedf("%s: `%s` twice on the left", g.at(s), id.Name)
					}
				}
			}
			if len(ids) == 1 {
				env.vars[ids[0].Name] = tys[0]
				out = append(out, mmLet{env.lean(ids[0].Name), rhs[0].s, g.cmt(s)})
				continue
			}
			var tmps []string
			for i := range ids {
				t := g.freshName("tmp")
				tmps = append(tmps, t)
				out = append(out, mmLet{t, rhs[i].s, g.cmt(s) + fmt.Sprintf(" (right-hand side #%d, evaluated first)", i+1)})
			}
			for i, id := range ids {
				env.vars[id.Name] = tys[i]
				out = append(out, mmLet{env.lean(id.Name), tmps[i], g.cmt(s)})
			}
		case as.Tok == token.ASSIGN && len(ids) > 1:
			// tuple assignment: simultaneous
			var tmps []string
			for i, id := range ids {
				vt, ok := env.vars[id.Name]
				if !ok || !vt.word() {
					return nil, unsupportedf("%s: assignment to `%s`, which is not a uint64/uint variable of the piece", g.at(s), id.Name)
				}
				for j := 0; j < i; j++ {
					if ids[j].Name == id.Name {
						return nil, unsupportedf("%s: `%s` twice on the left", g.at(s), id.Name)
					}
				}
				e, et, err := g.expr(as.Rhs[i], env)
				if err != nil {
					return nil, err
				}
				if et != vt && et != mmUntyped {
					return nil, unsupportedf("%s: value of type %s assigned to `%s` of type %s", g.at(s), et, id.Name, vt)
				}
				t := g.freshName("tmp")
				tmps = append(tmps, t)
				out = append(out, mmLet{t, e.s, g.cmt(s) + fmt.Sprintf(" (right-hand side #%d, evaluated first)", i+1)})
			}
			for i, id := range ids {
				v := env.lean(id.Name)
				out = append(out, mmLet{v, guard(v, tmps[i]), g.cmt(s)})
			}
		default:
			if len(ids) != 1 {
				return nil, unsupportedf("%s: multiple assignment with %s", g.at(s), as.Tok)
			}
			id := ids[0]
			vt, ok := env.vars[id.Name]
			if !ok || !vt.word() {
				return nil, unsupportedf("%s: assignment to `%s`, which is not a uint64/uint variable of the piece", g.at(s), id.Name)
			}
			var rhs ast.Expr
			switch {
			case as.Tok == token.ASSIGN:
				rhs = as.Rhs[0]
			case mmAssignOp[as.Tok] != token.ILLEGAL:
				rhs = &ast.BinaryExpr{X: &ast.Ident{Name: id.Name, NamePos: id.NamePos}, OpPos: as.TokPos, Op: mmAssignOp[as.Tok],
					Y: &ast.ParenExpr{Lparen: as.Rhs[0].Pos(), X: as.Rhs[0]}}
			default:
				return nil, unsupportedf("%s: assignment operator %s", g.at(s), as.Tok)
			}
			e, et, err := g.expr(rhs, env)
			if err != nil {
				return nil, err
			}
			if et != vt && et != mmUntyped {
				return nil, unsupportedf("%s: value of type %s assigned to `%s` of type %s", g.at(s), et, id.Name, vt)
			}
			v := env.lean(id.Name)
			out = append(out, mmLet{v, guard(v, e.s), g.cmt(s)})
		}
	}
	return out, nil
}

func writeLets(b *strings.Builder, lets []mmLet, note string) {
	for _, l := range lets {
		fmt.Fprintf(b, "  let %s : UInt64 := %s  %s%s\n", l.name, l.rhs, l.cmt, note)
	}
}

func (g *mmGen) inlinedNote() string {
	if len(g.inlined) == 0 {
		return ""
	}
	return "\n    helpers inlined: " + strings.Join(g.inlined, "; ")
}

// ---------------------------------------------------------------------------------------------
// the pieces

type mmPiece struct {
	name string
	def  string // "" when unsupported
	why  string
}

func (g *mmGen) recvOf(fd *ast.FuncDecl, typ string) (string, error) {
	if fd.Recv == nil || len(fd.Recv.List) != 1 || len(fd.Recv.List[0].Names) != 1 || typeName(fd.Recv.List[0].Type) != typ {
		return "", unsupportedf("%s: receiver of %s", g.at(fd), fd.Name.Name)
	}
	return fd.Recv.List[0].Names[0].Name, nil
}

type mmParam struct {
	name string
	ty   mmTy
}

func (g *mmGen) fieldList(fl *ast.FieldList) []mmParam {
	var out []mmParam
	if fl == nil {
		return nil
	}
	for _, f := range fl.List {
		t := mmTyOf(f.Type)
		if len(f.Names) == 0 {
			out = append(out, mmParam{"", t})
		}
		for _, n := range f.Names {
			out = append(out, mmParam{n.Name, t})
		}
	}
	return out
}

// stateLoad: `a, b <tok> d.f1, d.f2` with f1, f2 the fields of digest128 in declaration order
func (g *mmGen) stateLoad(s ast.Stmt, tok token.Token, recv string, fields []string) ([]string, error) {
	as, ok := s.(*ast.AssignStmt)
	if !ok || as.Tok != tok || len(as.Lhs) != len(fields) || len(as.Rhs) != len(fields) {
		return nil, unsupportedf("%s: expected `.. %s %s.%s`, found `%s`", g.at(s), tok, recv, strings.Join(fields, ", "+recv+"."), g.src(s))
	}
	var names []string
	for i, f := range fields {
		id, ok := as.Lhs[i].(*ast.Ident)
		if !ok || !isSel(as.Rhs[i], recv, f) {
			return nil, unsupportedf("%s: expected the fields of %s in declaration order, found `%s`", g.at(s), recv, g.src(s))
		}
		names = append(names, id.Name)
	}
	return names, nil
}

// stateStore: `d.f1, d.f2 = a, b`
func (g *mmGen) stateStore(s ast.Stmt, recv string, fields, names []string) error {
	want := fmt.Sprintf("%s.%s = %s", recv, strings.Join(fields, ", "+recv+"."), strings.Join(names, ", "))
	as, ok := s.(*ast.AssignStmt)
	if !ok || as.Tok != token.ASSIGN || len(as.Lhs) != len(fields) || len(as.Rhs) != len(fields) {
		return unsupportedf("%s: expected `%s`, found `%s`", g.at(s), want, g.src(s))
	}
	for i, f := range fields {
		if !isSel(as.Lhs[i], recv, f) || !isIdent(as.Rhs[i], names[i]) {
			return unsupportedf("%s: expected `%s`, found `%s`", g.at(s), want, g.src(s))
		}
	}
	return nil
}

func distinct(names ...string) bool {
	seen := map[string]bool{}
	for _, n := range names {
		if seen[n] || n == "_" || n == "" {
			return false
		}
		seen[n] = true
	}
	return true
}

// bmix: blockLoad, bmixBlock, loop header
func (g *mmGen) bmix() []mmPiece {
	fail := func(err error) []mmPiece {
		return []mmPiece{{"blockLoad", "", err.Error()}, {"bmixLoop", "", err.Error()}, {"bmixBlock", "", err.Error()}}
	}
	fd := g.funcs["digest128.bmix"]
	fields := g.fields["digest128"]
	if fd == nil || fd.Body == nil || len(fields) != 2 {
		return fail(unsupportedf("murmur.go: method (*digest128).bmix / struct digest128 with two uint64 fields not found"))
	}
	g.enter(fd)
	recv, err := g.recvOf(fd, "digest128")
	if err != nil {
		return fail(err)
	}
	ps := g.fieldList(fd.Type.Params)
	if len(ps) != 2 || ps[0].ty != mmBytes || ps[1].ty != mmInt || fd.Type.Results != nil {
		return fail(unsupportedf("%s: expected bmix(p []byte, nblocks int)", g.at(fd)))
	}
	p, nblocks := ps[0].name, ps[1].name
	body := fd.Body.List
	if len(body) != 3 {
		return fail(unsupportedf("%s: expected three statements (load the state, loop, store the state), found %d", g.at(fd), len(body)))
	}
	st, err := g.stateLoad(body[0], token.DEFINE, recv, fields)
	if err != nil {
		return fail(err)
	}
	if err := g.stateStore(body[2], recv, fields, st); err != nil {
		return fail(err)
	}
	loop, ok := body[1].(*ast.ForStmt)
	if !ok {
		return fail(unsupportedf("%s: expected a for loop", g.at(body[1])))
	}
	// for i := 0; i < nblocks; i++
	ini, ok := loop.Init.(*ast.AssignStmt)
	if !ok || ini.Tok != token.DEFINE || len(ini.Lhs) != 1 || len(ini.Rhs) != 1 {
		return fail(unsupportedf("%s: loop initialisation", g.at(loop)))
	}
	iv, ok := ini.Lhs[0].(*ast.Ident)
	from, ok2 := g.smallConst(ini.Rhs[0], 1<<31)
	if !ok || !ok2 {
		return fail(unsupportedf("%s: loop initialisation", g.at(loop)))
	}
	cond, ok := loop.Cond.(*ast.BinaryExpr)
	if !ok || cond.Op != token.LSS || !isIdent(cond.X, iv.Name) || !isIdent(cond.Y, nblocks) {
		return fail(unsupportedf("%s: loop condition is not `%s < %s`", g.at(loop), iv.Name, nblocks))
	}
	post, ok := loop.Post.(*ast.IncDecStmt)
	if !ok || post.Tok != token.INC || !isIdent(post.X, iv.Name) {
		return fail(unsupportedf("%s: loop post statement is not `%s++`", g.at(loop), iv.Name))
	}
	lb := loop.Body.List
	if len(lb) < 2 {
		return fail(unsupportedf("%s: loop body too short", g.at(loop)))
	}
	// t := (*[2]uint64)(unsafe.Pointer(&p[i*S]))
	stride, tname, err := g.unsafeLoad(lb[0], p, iv.Name)
	if err != nil {
		return fail(err)
	}
	// k1, k2 := t[a], t[b]
	ks, ok := lb[1].(*ast.AssignStmt)
	if !ok || ks.Tok != token.DEFINE || len(ks.Lhs) != 2 || len(ks.Rhs) != 2 {
		return fail(unsupportedf("%s: expected `k1, k2 := %s[0], %s[1]`, found `%s`", g.at(lb[1]), tname, tname, g.src(lb[1])))
	}
	var kn []string
	var kw []int
	for i := 0; i < 2; i++ {
		id, ok := ks.Lhs[i].(*ast.Ident)
		ix, ok2 := ks.Rhs[i].(*ast.IndexExpr)
		if !ok || !ok2 || !isIdent(ix.X, tname) {
			return fail(unsupportedf("%s: expected `k1, k2 := %s[0], %s[1]`, found `%s`", g.at(lb[1]), tname, tname, g.src(lb[1])))
		}
		w, ok := g.smallConst(ix.Index, 2)
		if !ok {
			return fail(unsupportedf("%s: word index %s of the [2]uint64 view", g.at(lb[1]), types.ExprString(ix.Index)))
		}
		kn = append(kn, id.Name)
		kw = append(kw, w)
	}
	if !distinct(st[0], st[1], kn[0], kn[1]) {
		return fail(unsupportedf("%s: the state and block variables are not four distinct names", g.at(lb[1])))
	}
	var ld strings.Builder
	fmt.Fprintf(&ld, "/-- murmur.go, (*digest128).bmix: the two words of block `%s`\n    %s: %s\n    %s: %s\n", iv.Name, g.at(lb[0]), g.src(lb[0]), g.at(lb[1]), g.src(lb[1]))
	fmt.Fprintf(&ld, "    ASSUMPTION (little-endian target): word w of the [2]uint64 view at &%s[j] is the little-endian\n    value of the bytes %s[j+8w] .. %s[j+8w+7]; result: (%s, %s) -/\n", p, p, p, kn[0], kn[1])
	fmt.Fprintf(&ld, "def blockLoad (%s : List UInt8) (%s : Nat) : UInt64 × UInt64 :=\n", leanIdent(p), leanIdent(iv.Name))
	fmt.Fprintf(&ld, "  (GoBits.loadLE64 %s (%s * %d + %d), GoBits.loadLE64 %s (%s * %d + %d))\n",
		leanIdent(p), leanIdent(iv.Name), stride, 8*kw[0], leanIdent(p), leanIdent(iv.Name), stride, 8*kw[1])

	var lp strings.Builder
	fmt.Fprintf(&lp, "/-- murmur.go, (*digest128).bmix: loop header\n    %s: %s\n    (before: %s: %s; after: %s: %s) -/\n",
		g.at(loop), g.src(loop), g.at(body[0]), g.src(body[0]), g.at(body[2]), g.src(body[2]))
	fmt.Fprintf(&lp, "def bmixLoopFrom : Nat := %d\n", from)
	fmt.Fprintf(&lp, "/-- `%s++` -/\ndef bmixLoopStep : Nat := 1\n", iv.Name)

	pieces := []mmPiece{{"blockLoad", ld.String(), ""}, {"bmixLoop", lp.String(), ""}}

	if len(lb) < 3 {
		return append(pieces, mmPiece{"bmixBlock", "", g.at(loop) + ": nothing after the load in the loop body"})
	}
	env := &mmEnv{vars: map[string]mmTy{st[0]: mmU64, st[1]: mmU64, kn[0]: mmU64, kn[1]: mmU64}}
	lets, err := g.straight(lb[2:], env, "")
	if err != nil {
		return append(pieces, mmPiece{"bmixBlock", "", err.Error()})
	}
	var bb strings.Builder
	fmt.Fprintf(&bb, "/-- murmur.go, (*digest128).bmix: the loop body after the load (lines %d..%d), state (%s, %s)%s -/\n",
		g.line(lb[2]), g.fset.Position(loop.Body.Rbrace).Line-1, st[0], st[1], g.inlinedNote())
	fmt.Fprintf(&bb, "def bmixBlock (%s %s %s %s : UInt64) : UInt64 × UInt64 :=\n", leanIdent(st[0]), leanIdent(st[1]), leanIdent(kn[0]), leanIdent(kn[1]))
	writeLets(&bb, lets, "")
	fmt.Fprintf(&bb, "  (%s, %s)\n", leanIdent(st[0]), leanIdent(st[1]))
	return append(pieces, mmPiece{"bmixBlock", bb.String(), ""})
}

// unsafeLoad recognises exactly `t := (*[2]uint64)(unsafe.Pointer(&p[i*S]))` (S a constant); returns S and t
func (g *mmGen) unsafeLoad(s ast.Stmt, p, i string) (int, string, error) {
	bad := func() (int, string, error) {
		return 0, "", unsupportedf("%s: expected `t := (*[2]uint64)(unsafe.Pointer(&%s[%s*<constant>]))`, found `%s`", g.at(s), p, i, g.src(s))
	}
	as, ok := s.(*ast.AssignStmt)
	if !ok || as.Tok != token.DEFINE || len(as.Lhs) != 1 || len(as.Rhs) != 1 || g.unsafeName == "" || g.shadow[g.unsafeName] {
		return bad()
	}
	t, ok := as.Lhs[0].(*ast.Ident)
	if !ok {
		return bad()
	}
	conv, ok := as.Rhs[0].(*ast.CallExpr)
	if !ok || len(conv.Args) != 1 {
		return bad()
	}
	par, ok := conv.Fun.(*ast.ParenExpr)
	if !ok {
		return bad()
	}
	star, ok := par.X.(*ast.StarExpr)
	if !ok {
		return bad()
	}
	arr, ok := star.X.(*ast.ArrayType)
	if !ok || arr.Len == nil || !isIdent(arr.Elt, "uint64") || g.shadow["uint64"] {
		return bad()
	}
	if n, ok := g.smallConst(arr.Len, 3); !ok || n != 2 {
		return bad()
	}
	up, ok := conv.Args[0].(*ast.CallExpr)
	if !ok || len(up.Args) != 1 || !isSel(up.Fun, g.unsafeName, "Pointer") {
		return bad()
	}
	amp, ok := up.Args[0].(*ast.UnaryExpr)
	if !ok || amp.Op != token.AND {
		return bad()
	}
	ix, ok := amp.X.(*ast.IndexExpr)
	if !ok || !isIdent(ix.X, p) {
		return bad()
	}
	mul, ok := ix.Index.(*ast.BinaryExpr)
	if !ok || mul.Op != token.MUL {
		return bad()
	}
	var k ast.Expr
	switch {
	case isIdent(mul.X, i):
		k = mul.Y
	case isIdent(mul.Y, i):
		k = mul.X
	default:
		return bad()
	}
	stride, ok := g.smallConst(k, 1<<20)
	if !ok {
		return bad()
	}
	return stride, t.Name, nil
}

// Sum128: tailMix, finalize, digestSum128
func (g *mmGen) sumTail() []mmPiece {
	fail := func(err error) []mmPiece {
		return []mmPiece{{"tailMix", "", err.Error()}, {"finalize", "", err.Error()}, {"digestSum128", "", err.Error()}}
	}
	fd := g.funcs["digest128.Sum128"]
	fields := g.fields["digest128"]
	if fd == nil || fd.Body == nil || len(fields) != 2 {
		return fail(unsupportedf("murmur.go: method (*digest128).Sum128 / struct digest128 with two uint64 fields not found"))
	}
	g.enter(fd)
	recv, err := g.recvOf(fd, "digest128")
	if err != nil {
		return fail(err)
	}
	ps, rs := g.fieldList(fd.Type.Params), g.fieldList(fd.Type.Results)
	if len(ps) != 2 || ps[0].ty != mmBytes || ps[1].ty != mmUint || len(rs) != 2 || rs[0].ty != mmU64 || rs[1].ty != mmU64 ||
		!distinct(recv, ps[0].name, ps[1].name, rs[0].name, rs[1].name) {
		return fail(unsupportedf("%s: expected Sum128(tail []byte, dlen uint) (h1, h2 uint64) with named results", g.at(fd)))
	}
	tail, dlen, r1, r2 := ps[0].name, ps[1].name, rs[0].name, rs[1].name
	body := fd.Body.List
	if len(body) < 3 {
		return fail(unsupportedf("%s: body too short", g.at(fd)))
	}
	st, err := g.stateLoad(body[0], token.ASSIGN, recv, fields)
	if err != nil {
		return fail(err)
	}
	if st[0] != r1 || st[1] != r2 {
		return fail(unsupportedf("%s: the state is not loaded into the named results (%s, %s)", g.at(body[0]), r1, r2))
	}
	ret, ok := body[len(body)-1].(*ast.ReturnStmt)
	if !ok || !(len(ret.Results) == 0 || (len(ret.Results) == 2 && isIdent(ret.Results[0], r1) && isIdent(ret.Results[1], r2))) {
		return fail(unsupportedf("%s: expected `return %s, %s`", g.at(body[len(body)-1]), r1, r2))
	}
	// the switch: the only statement of the body that is neither an assignment nor a declaration
	si := -1
	for i := 1; i < len(body)-1; i++ {
		switch body[i].(type) {
		case *ast.AssignStmt, *ast.DeclStmt:
		case *ast.SwitchStmt:
			if si >= 0 {
				return fail(unsupportedf("%s: a second switch statement", g.at(body[i])))
			}
			si = i
		default:
			return fail(unsupportedf("%s: expected assignments, declarations and one `switch len(%s) & <constant>` over the tail bytes; found `%s` (loops / ifs over the tail are not translated)", g.at(body[i]), tail, g.src(body[i])))
		}
	}
	if si < 0 {
		return fail(unsupportedf("%s: no `switch len(%s) & <constant>` over the tail bytes found", g.at(fd), tail))
	}
	sw := body[si].(*ast.SwitchStmt)
	wantSw := fmt.Sprintf("switch len(%s) & <constant>", tail)
	if sw.Init != nil {
		return fail(unsupportedf("%s: expected `%s`", g.at(sw), wantSw))
	}
	tag, ok := sw.Tag.(*ast.BinaryExpr)
	if !ok || tag.Op != token.AND {
		return fail(unsupportedf("%s: expected `%s`", g.at(sw), wantSw))
	}
	lc, ok := tag.X.(*ast.CallExpr)
	mask, ok2 := g.smallConst(tag.Y, 1<<20)
	if !ok || !ok2 || !isIdent(lc.Fun, "len") || g.shadow["len"] || len(lc.Args) != 1 || !isIdent(lc.Args[0], tail) {
		return fail(unsupportedf("%s: expected `%s`", g.at(sw), wantSw))
	}

	var pieces []mmPiece
	// --- tailMix
	tm := func() mmPiece {
		vars := map[string]mmTy{tail: mmBytes, dlen: mmUint, r1: mmU64, r2: mmU64}
		env := &mmEnv{vars: vars}
		pre, err := g.straight(body[1:si], env, "")
		if err != nil {
			return mmPiece{"tailMix", "", err.Error()}
		}
		sel := "sel"
		if g.idents[sel] {
			sel = g.freshName("sel")
		}
		var cases strings.Builder
		n := len(sw.Body.List)
		if n == 0 {
			return mmPiece{"tailMix", "", g.at(sw) + ": switch without cases"}
		}
		for _, c := range sw.Body.List {
			if cc, ok := c.(*ast.CaseClause); !ok || len(cc.List) != 1 {
				return mmPiece{"tailMix", "", g.at(c) + ": a default clause or a case with several values"}
			}
		}
		for i, c := range sw.Body.List {
			cc := c.(*ast.CaseClause)
			v, ok := g.smallConst(cc.List[0], 1<<20)
			if !ok || v != mask-i || v < 1 {
				return mmPiece{"tailMix", "", fmt.Sprintf("%s: case value %s, expected the constant %d (descending from the mask)", g.at(cc), types.ExprString(cc.List[0]), mask-i)}
			}
			stmts := cc.Body
			falls := false
			if len(stmts) > 0 {
				if br, ok := stmts[len(stmts)-1].(*ast.BranchStmt); ok && br.Tok == token.FALLTHROUGH {
					falls = true
					stmts = stmts[:len(stmts)-1]
				}
			}
			if i < n-1 && !falls {
				return mmPiece{"tailMix", "", fmt.Sprintf("%s: case %d does not end in `fallthrough`", g.at(cc), v)}
			}
			if i == n-1 && falls {
				return mmPiece{"tailMix", "", fmt.Sprintf("%s: the last case ends in `fallthrough`", g.at(cc))}
			}
			env.caseBound = v
			lets, err := g.straight(stmts, env, fmt.Sprintf("%s ≥ %d", sel, v))
			if err != nil {
				return mmPiece{"tailMix", "", err.Error()}
			}
			writeLets(&cases, lets, fmt.Sprintf(" (case %d)", v))
		}
		var b strings.Builder
		fmt.Fprintf(&b, "/-- murmur.go, (*digest128).Sum128: the tail switch (lines %d..%d).  The case values are %d, %d, ... in\n", g.line(body[1]), g.fset.Position(sw.Body.Rbrace).Line, mask, mask-1)
		fmt.Fprintf(&b, "    source order, every case but the last ends in `fallthrough`: the statements of `case c` run iff\n    `len(%s) & %d ≥ c`.  `%s` has length < 2^63 (a Go slice), so `&` on the `int` is `&&&` on `Nat`.%s -/\n", tail, mask, tail, g.inlinedNote())
		fmt.Fprintf(&b, "def tailMix (%s : List UInt8) (%s %s : UInt64) : UInt64 × UInt64 :=\n", leanIdent(tail), leanIdent(r1), leanIdent(r2))
		writeLets(&b, pre, "")
		fmt.Fprintf(&b, "  let %s : Nat := %s.length &&& %d  %s\n", sel, leanIdent(tail), mask, g.cmt(sw))
		b.WriteString(cases.String())
		fmt.Fprintf(&b, "  (%s, %s)\n", leanIdent(r1), leanIdent(r2))
		return mmPiece{"tailMix", b.String(), ""}
	}()
	pieces = append(pieces, tm)

	// --- finalize
	fin := func() mmPiece {
		g.fresh = 0
		g.inlined = nil
		env := &mmEnv{vars: map[string]mmTy{r1: mmU64, r2: mmU64, dlen: mmUint}}
		lets, err := g.straight(body[si+1:len(body)-1], env, "")
		if err != nil {
			return mmPiece{"finalize", "", err.Error()}
		}
		var b strings.Builder
		fmt.Fprintf(&b, "/-- murmur.go, (*digest128).Sum128: after the switch (lines %d..%d); `%s uint` is passed as its 64-bit value%s -/\n",
			g.fset.Position(sw.Body.Rbrace).Line+1, g.line(ret), dlen, g.inlinedNote())
		fmt.Fprintf(&b, "def finalize (%s %s %s : UInt64) : UInt64 × UInt64 :=\n", leanIdent(r1), leanIdent(r2), leanIdent(dlen))
		writeLets(&b, lets, "")
		fmt.Fprintf(&b, "  (%s, %s)  %s\n", leanIdent(r1), leanIdent(r2), g.cmt(ret))
		return mmPiece{"finalize", b.String(), ""}
	}()
	pieces = append(pieces, fin)

	if tm.def == "" || fin.def == "" {
		return append(pieces, mmPiece{"digestSum128", "", "tailMix / finalize not translated"})
	}
	var b strings.Builder
	fmt.Fprintf(&b, "/-- murmur.go, (*digest128).Sum128 (lines %d..%d) on the state (%s.%s, %s.%s): %s: %s -/\n", g.line(fd), g.fset.Position(fd.Body.Rbrace).Line,
		recv, fields[0], recv, fields[1], g.at(body[0]), g.src(body[0]))
	fmt.Fprintf(&b, "def digestSum128 (%s : List UInt8) (%s : UInt64) (%s %s : UInt64) : UInt64 × UInt64 :=\n", leanIdent(tail), leanIdent(dlen), leanIdent(r1), leanIdent(r2))
	fmt.Fprintf(&b, "  let s := tailMix %s %s %s\n  finalize s.1 s.2 %s\n", leanIdent(tail), leanIdent(r1), leanIdent(r2), leanIdent(dlen))
	return append(pieces, mmPiece{"digestSum128", b.String(), ""})
}

// mmSym: a non-negative int expression of sum128 in terms of dlen = len(data)
type mmSym struct {
	kind int // 0 constant, 1 len(data), 2 len(data)/c, 3 (len(data)/c)*m
	v    int // constant value
	c, m int
}

func (s mmSym) lean() string {
	switch s.kind {
	case 0:
		return strconv.Itoa(s.v)
	case 1:
		return "dlen"
	case 2:
		return fmt.Sprintf("dlen / %d", s.c)
	}
	return fmt.Sprintf("dlen / %d * %d", s.c, s.m)
}

// sum128: seeds, nblocksOf, tailStart, lengthArg.  The statements may come in any order that compiles:
//
//	d := digest128{h1: 0, h2: 0} | var d digest128;  x := <int expr>;  t := data[<int expr>:];
//	d.bmix(data, <int expr>) (once);  return d.Sum128(<t or data[..:]>, uint(<int expr>)) (last)
//
// int expressions: len(data), int locals, constants, d.Size(), <len>/C, (<len>/C)*M with M <= C
func (g *mmGen) sumTop() mmPiece {
	const name = "sum128 (seedH1, seedH2, nblocksOf, tailStart, lengthArg)"
	bad := func(n ast.Node, why string) mmPiece {
		return mmPiece{name, "", fmt.Sprintf("%s: %s: `%s`", g.at(n), why, g.src(n))}
	}
	fd := g.funcs["sum128"]
	fields := g.fields["digest128"]
	if fd == nil || fd.Body == nil || len(fields) != 2 {
		return mmPiece{name, "", "murmur.go: function sum128 / struct digest128 with two uint64 fields not found"}
	}
	g.enter(fd)
	ps, rs := g.fieldList(fd.Type.Params), g.fieldList(fd.Type.Results)
	if fd.Recv != nil || len(ps) != 1 || ps[0].ty != mmBytes || ps[0].name == "" || len(rs) != 2 || rs[0].ty != mmU64 || rs[1].ty != mmU64 {
		return mmPiece{name, "", g.at(fd) + ": expected func sum128(data []byte) (uint64, uint64)"}
	}
	data := ps[0].name
	for _, b := range []string{"len", "uint", "digest128"} {
		if g.shadow[b] {
			return mmPiece{name, "", g.at(fd) + ": `" + b + "` is redeclared inside sum128"}
		}
	}
	body := fd.Body.List
	ints := map[string]mmSym{}
	tails := map[string]mmSym{}
	dname := ""
	seeds := map[string]string{fields[0]: "0", fields[1]: "0"}
	var nb *mmSym
	sizeNote := ""

	var sym func(e ast.Expr) (mmSym, bool)
	sym = func(e ast.Expr) (mmSym, bool) {
		if v, ok := g.smallConst(e, 1<<30); ok {
			return mmSym{kind: 0, v: v}, true
		}
		switch x := e.(type) {
		case *ast.ParenExpr:
			return sym(x.X)
		case *ast.Ident:
			s, ok := ints[x.Name]
			return s, ok
		case *ast.CallExpr:
			if isIdent(x.Fun, "len") && len(x.Args) == 1 && isIdent(x.Args[0], data) {
				return mmSym{kind: 1}, true
			}
			if dname != "" && isSel(x.Fun, dname, "Size") && len(x.Args) == 0 {
				sf := g.funcs["digest128.Size"]
				if sf == nil || sf.Body == nil || len(sf.Body.List) != 1 || sf.Type.Params.NumFields() != 0 {
					return mmSym{}, false
				}
				r, ok := sf.Body.List[0].(*ast.ReturnStmt)
				if !ok || len(r.Results) != 1 {
					return mmSym{}, false
				}
				saved := g.shadow
				g.shadow = declaredIn(sf)
				n, ok := g.smallConst(r.Results[0], 1<<30)
				g.shadow = saved
				if !ok {
					return mmSym{}, false
				}
				sizeNote = fmt.Sprintf("; %s: %s", g.at(sf), g.src(sf))
				return mmSym{kind: 0, v: n}, true
			}
		case *ast.BinaryExpr:
			a, ok := sym(x.X)
			if !ok {
				return mmSym{}, false
			}
			b, ok := sym(x.Y)
			if !ok {
				return mmSym{}, false
			}
			switch {
			case x.Op == token.QUO && a.kind == 1 && b.kind == 0 && b.v > 0:
				return mmSym{kind: 2, c: b.v}, true
			case x.Op == token.MUL && a.kind == 2 && b.kind == 0 && b.v <= a.c:
				return mmSym{kind: 3, c: a.c, m: b.v}, true
			case x.Op == token.MUL && b.kind == 2 && a.kind == 0 && a.v <= b.c:
				return mmSym{kind: 3, c: b.c, m: a.v}, true
			}
		}
		return mmSym{}, false
	}
	tailOf := func(e ast.Expr) (mmSym, bool) {
		if id, ok := e.(*ast.Ident); ok {
			s, ok := tails[id.Name]
			return s, ok
		}
		sl, ok := e.(*ast.SliceExpr)
		if !ok || !isIdent(sl.X, data) || sl.High != nil || sl.Max != nil || sl.Slice3 || sl.Low == nil {
			return mmSym{}, false
		}
		return sym(sl.Low)
	}
	declared := func(n string) bool {
		_, a := ints[n]
		_, b := tails[n]
		return a || b || n == dname || n == data || n == "_"
	}
	var notes []string
	var start, length *mmSym
	for i, s := range body {
		notes = append(notes, fmt.Sprintf("    %s: %s", g.at(s), g.src(s)))
		last := i == len(body)-1
		switch v := s.(type) {
		case *ast.DeclStmt:
			// var d digest128
			gd, ok := v.Decl.(*ast.GenDecl)
			if !ok || gd.Tok != token.VAR || len(gd.Specs) != 1 {
				return bad(s, "declaration not understood")
			}
			vs, ok := gd.Specs[0].(*ast.ValueSpec)
			if !ok || len(vs.Names) != 1 || len(vs.Values) != 0 || !isIdent(vs.Type, "digest128") || dname != "" || declared(vs.Names[0].Name) {
				return bad(s, "expected `var d digest128` (once)")
			}
			dname = vs.Names[0].Name
		case *ast.AssignStmt:
			if v.Tok != token.DEFINE || len(v.Lhs) != 1 || len(v.Rhs) != 1 {
				return bad(s, "expected `x := <expr>`")
			}
			id, ok := v.Lhs[0].(*ast.Ident)
			if !ok || declared(id.Name) {
				return bad(s, "redeclaration or assignment to something that is not a new name")
			}
			rhs := v.Rhs[0]
			if u, ok := rhs.(*ast.UnaryExpr); ok && u.Op == token.AND {
				rhs = u.X
			}
			if cl, ok := rhs.(*ast.CompositeLit); ok {
				if !isIdent(cl.Type, "digest128") || dname != "" {
					return bad(s, "expected `d := digest128{h1: .., h2: ..}` (once)")
				}
				for _, el := range cl.Elts {
					kv, ok := el.(*ast.KeyValueExpr)
					if !ok {
						return bad(s, "positional composite literal")
					}
					k, ok := kv.Key.(*ast.Ident)
					val, ok2 := g.constEval(kv.Value, 0)
					if !ok || !ok2 || val.Sign() < 0 || val.BitLen() > 64 {
						return bad(s, "field value is not a constant")
					}
					if _, known := seeds[k.Name]; !known {
						return bad(s, "unknown field")
					}
					seeds[k.Name] = leanNumeral(val)
				}
				dname = id.Name
				continue
			}
			if ts, ok := tailOf(rhs); ok {
				if _, isSlice := rhs.(*ast.SliceExpr); isSlice {
					tails[id.Name] = ts
					continue
				}
			}
			if is, ok := sym(rhs); ok {
				ints[id.Name] = is
				continue
			}
			return bad(s, "right-hand side is neither the digest, an int expression over len("+data+") nor "+data+"[<int expr>:]")
		case *ast.ExprStmt:
			c, ok := v.X.(*ast.CallExpr)
			if !ok || dname == "" || !isSel(c.Fun, dname, "bmix") || len(c.Args) != 2 || !isIdent(c.Args[0], data) || nb != nil {
				return bad(s, "expected one call `d.bmix("+data+", <nblocks>)` after the digest was created")
			}
			n, ok := sym(c.Args[1])
			if !ok {
				return bad(s, "the block count is not an int expression over len("+data+")")
			}
			nb = &n
		case *ast.ReturnStmt:
			if !last || len(v.Results) != 1 || nb == nil {
				return bad(s, "expected `return d.Sum128(<tail>, uint(<len>))` as the last statement, after d.bmix")
			}
			c, ok := v.Results[0].(*ast.CallExpr)
			if !ok || !isSel(c.Fun, dname, "Sum128") || len(c.Args) != 2 {
				return bad(s, "expected `return d.Sum128(<tail>, uint(<len>))`")
			}
			ts, ok := tailOf(c.Args[0])
			if !ok {
				return bad(s, "the tail argument is not "+data+"[<int expr>:]")
			}
			cv, ok := c.Args[1].(*ast.CallExpr)
			if !ok || !isIdent(cv.Fun, "uint") || len(cv.Args) != 1 {
				return bad(s, "the length argument is not uint(<int expr>)")
			}
			ls, ok := sym(cv.Args[0])
			if !ok {
				return bad(s, "the length argument is not an int expression over len("+data+")")
			}
			start, length = &ts, &ls
		default:
			return bad(s, "statement not understood")
		}
	}
	if start == nil || length == nil || nb == nil {
		return mmPiece{name, "", g.at(fd) + ": no `return d.Sum128(..)` at the end"}
	}
	var b strings.Builder
	fmt.Fprintf(&b, "/-- murmur.go, sum128 (lines %d..%d).  Statements (each one recognised; pure definitions may come in any order):\n", g.line(fd), g.fset.Position(fd.Body.Rbrace).Line)
	b.WriteString(strings.Join(notes, "\n"))
	fmt.Fprintf(&b, "\n    initial state (%s.%s, %s.%s) -/\n", dname, fields[0], dname, fields[1])
	fmt.Fprintf(&b, "def seedH1 : UInt64 := %s\ndef seedH2 : UInt64 := %s\n", seeds[fields[0]], seeds[fields[1]])
	fmt.Fprintf(&b, "/-- the block count passed to `%s.bmix`, as a function of `dlen = len(%s)` (an `int` ≥ 0: `/` is the division of `Nat`) -/\n", dname, data)
	fmt.Fprintf(&b, "def nblocksOf (dlen : Nat) : Nat := %s\n", nb.lean())
	fmt.Fprintf(&b, "/-- the index of the first byte of the tail passed to `%s.Sum128`%s -/\n", dname, sizeNote)
	fmt.Fprintf(&b, "def tailStart (dlen : Nat) : Nat := %s\n", start.lean())
	fmt.Fprintf(&b, "/-- the length passed to `%s.Sum128` (before the conversion to `uint`) -/\n", dname)
	fmt.Fprintf(&b, "def lengthArg (dlen : Nat) : Nat := %s\n", length.lean())
	return mmPiece{name, b.String(), ""}
}

// getHashWord: base_cuckoo_filter.go `func getHash(data []byte) uint64 { hash1, _ := sum128(data); return hash1 }`
func (g *mmGen) getHashWord(repo string) mmPiece {
	const name = "getHashWord"
	path := filepath.Join(repo, "base_cuckoo_filter.go")
	data, err := os.ReadFile(path)
	if err != nil {
		return mmPiece{name, "", "base_cuckoo_filter.go: " + err.Error()}
	}
	fset := token.NewFileSet()
	f, err := parser.ParseFile(fset, path, data, parser.SkipObjectResolution)
	if err != nil {
		return mmPiece{name, "", "base_cuckoo_filter.go: " + err.Error()}
	}
	lines := strings.Split(string(data), "\n")
	at := func(n ast.Node) string {
		l := fset.Position(n.Pos()).Line
		return fmt.Sprintf("base_cuckoo_filter.go:%d: %s", l, strings.TrimSpace(lines[l-1]))
	}
	for _, d := range f.Decls {
		fd, ok := d.(*ast.FuncDecl)
		if !ok || fd.Recv != nil || fd.Name.Name != "getHash" || fd.Body == nil {
			continue
		}
		if fd.Type.Params.NumFields() != 1 || len(fd.Type.Params.List[0].Names) != 1 || mmTyOf(fd.Type.Params.List[0].Type) != mmBytes ||
			fd.Type.Results.NumFields() != 1 || mmTyOf(fd.Type.Results.List[0].Type) != mmU64 || len(fd.Body.List) != 2 {
			return mmPiece{name, "", at(fd) + ": expected func getHash(data []byte) uint64 with two statements"}
		}
		arg := fd.Type.Params.List[0].Names[0].Name
		as, ok := fd.Body.List[0].(*ast.AssignStmt)
		ret, ok2 := fd.Body.List[1].(*ast.ReturnStmt)
		if !ok || !ok2 || as.Tok != token.DEFINE || len(as.Lhs) != 2 || len(as.Rhs) != 1 || len(ret.Results) != 1 {
			return mmPiece{name, "", at(fd.Body.List[0]) + ": expected `a, b := sum128(data)` and `return a` / `return b`"}
		}
		call, ok := as.Rhs[0].(*ast.CallExpr)
		if !ok || !isIdent(call.Fun, "sum128") || len(call.Args) != 1 || !isIdent(call.Args[0], arg) {
			return mmPiece{name, "", at(as) + ": expected a call sum128(" + arg + ")"}
		}
		r, ok := ret.Results[0].(*ast.Ident)
		if !ok || r.Name == "_" {
			return mmPiece{name, "", at(ret) + ": expected `return <one of the two results>`"}
		}
		word := -1
		for i, l := range as.Lhs {
			if isIdent(l, r.Name) {
				word = i
			}
		}
		if word < 0 {
			return mmPiece{name, "", at(ret) + ": the result is not one of the two words"}
		}
		var b strings.Builder
		fmt.Fprintf(&b, "/-- base_cuckoo_filter.go, getHash: which word of sum128 the cuckoo filter uses\n    %s\n    %s -/\n", at(as), at(ret))
		fmt.Fprintf(&b, "def getHashWord (r : UInt64 × UInt64) : UInt64 := r.%d\n", word+1)
		return mmPiece{name, b.String(), ""}
	}
	return mmPiece{name, "", "base_cuckoo_filter.go: function getHash not found"}
}

func genMurmur(repo string) (string, error) {
	g, err := loadMurmur(repo)
	if err != nil {
		return "", err
	}
	var b strings.Builder
	b.WriteString("/- GENERATED by extract/murmur.go from murmur.go (and getHash of base_cuckoo_filter.go) of the repository's\n")
	b.WriteString("   current sources on every run. DO NOT EDIT.\n")
	b.WriteString("   murmur3 x64_128 as written in murmur.go, piece by piece, over `UInt64` (Go's uint64 / uint arithmetic is\n")
	b.WriteString("   the wrap-around arithmetic of `UInt64`; shifts and rotations have constant counts < 64).  The pieces are\n")
	b.WriteString("   assembled into `sum128` by the hand-written Gostatix/Model/GoMurmur.lean; Gostatix/Props/MurmurTie.lean\n")
	b.WriteString("   proves that the result is the hand transcription Gostatix/Model/Murmur.lean for all inputs.\n")
	b.WriteString("   The definition names are ROLES chosen by the translator, not Go identifiers; package-level integer\n")
	b.WriteString("   constants are replaced by their values, calls of straight-line helper functions are inlined.\n")
	b.WriteString("   ASSUMPTIONS: (1) little-endian target (amd64, arm64): the `(*[2]uint64)(unsafe.Pointer(&p[j]))` view reads\n")
	b.WriteString("   the words `GoBits.loadLE64 p j` and `GoBits.loadLE64 p (j+8)`; unaligned loads are allowed on these targets;\n")
	b.WriteString("   (2) `uint` and `int` are 64 bits wide, slice lengths are < 2^63, so `len(s) & m`, `len(s) / n` are the\n")
	b.WriteString("   operations of `Nat` and `uint(len(s))` is `UInt64.ofNat`.\n")
	b.WriteString("   A piece outside the supported subset has NO definition here, only a comment and an entry in\n")
	b.WriteString("   `unsupported`; GoMurmur.lean and MurmurTie.lean then fail to build.\n")
	b.WriteString("   Integer constants of murmur.go (resolved by value wherever they are used):\n")
	for _, n := range g.constOrder {
		c := g.consts[n]
		g.shadow = nil
		val := "not an integer constant expression"
		if v, ok := g.constEval(c.expr, 0); ok {
			val = leanNumeral(v)
		}
		srcl := ""
		if c.line >= 1 && c.line <= len(g.lines) {
			srcl = strings.TrimSpace(g.lines[c.line-1])
		}
		fmt.Fprintf(&b, "     murmur.go:%d: %s   [= %s]\n", c.line, srcl, val)
	}
	b.WriteString("-/\n")
	b.WriteString("import Gostatix.Model.GoBits\n")
	b.WriteString("namespace Gostatix.Generated.Murmur\n")
	b.WriteString("open Gostatix\n\n")

	var pieces []mmPiece
	pieces = append(pieces, g.bmix()...)
	pieces = append(pieces, g.sumTail()...)
	pieces = append(pieces, g.sumTop())
	pieces = append(pieces, g.getHashWord(repo))
	var bad []mmPiece
	for _, p := range pieces {
		if p.def == "" {
			bad = append(bad, p)
			fmt.Fprintf(&b, "-- %s: UNSUPPORTED, no definition emitted: %s\n\n", p.name, strings.ReplaceAll(p.why, "\n", " "))
			continue
		}
		b.WriteString(p.def)
		b.WriteString("\n")
	}
	b.WriteString("/-- the pieces the translator could not translate (name, reason) -/\n")
	b.WriteString("def unsupported : List (String × String) := [")
	for i, p := range bad {
		if i > 0 {
			b.WriteString(",")
		}
		fmt.Fprintf(&b, "\n  (%s, %s)", leanString(p.name), leanString(p.why))
	}
	if len(bad) > 0 {
		b.WriteString("\n")
	}
	b.WriteString("]\n\nend Gostatix.Generated.Murmur\n")
	return b.String(), nil
}
