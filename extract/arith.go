package main

// Integer kernels: the index / position arithmetic of a few functions of the repository is located
// with go/ast (by file, receiver and function name) and translated into Lean 4 definitions over
// `UInt64` (lean/Gostatix/Generated/Arith.lean, regenerated on every run).  The theorems of
// lean/Gostatix/Props/ArithTie.lean state that these definitions agree with the hand-written `Nat`
// models for all inputs; they are re-checked by `lake build` against whatever this file emits.
//
// The translator is purely syntactic (no go/types: the repository's dependencies are not needed).
// It keeps its own little type environment (function parameters, receiver fields, `var` / `:=`
// locals, results of package functions, a table of two external functions) and checks Go's
// "operands have identical types" rule itself; if its types disagree it answers `unsupported`
// instead of guessing.  A kernel that leaves the subset below gets NO definition (only a comment and
// an entry in `Arith.unsupported`), so the tie theorem naming it no longer type-checks.
//
// Supported subset
//   types      uint64, uint, uintptr (64-bit unsigned), int, int64 (64-bit, two's-complement bit pattern in a
//              UInt64), uint8/byte, uint16, uint32 (zero-extended, results re-truncated)
//   leaves     identifiers that are inputs of the kernel (function parameters, locals, the key of
//              `for c := range <slice made with make([]T, n)>`), receiver fields `recv.f` -> input `f`,
//              `len(recv.f)` -> input `len_f` (int), `a[<literal>]` of an array parameter -> input `a_<literal>`,
//              integer literals (typed by the other operand)
//   locals     `x := e` / `var x T = e` of straight-line code that are not inputs become `let`;
//              the local and everything its definition reads must be assigned exactly once in the function
//   operators  + - * / % ^ & | &^ << >>  (signed: only + - * ^ & | &^ <<; shift counts must be unsigned or literals)
//   calls      conversions uint64(x) uint(x) uintptr(x) int(x) int64(x) uint8(x) byte(x) uint16(x) uint32(x),
//              bits.LeadingZeros64(x) (with "math/bits" imported as `bits`)
//   everything else (floats, strings, other calls, comparisons, unary operators, ...) -> unsupported
//
// Private helpers: a call of an UNEXPORTED function of the package, or of an unexported method on the receiver
// (declared on the receiver's type or on a struct it embeds), is inlined when the helper's body is straight-line code
// (`:=` / `var` declarations only) ending in a single `return e` (or `return a, b`, consumed by a tuple assignment
// `x, y := helper(...)`, or forwarded by `return helper(...)`): parameters stand for the argument expressions (read in the
// caller), fields of the helper's receiver are the caller's receiver fields, the helper's locals become `let`s named
// `<helper>_<local>`; nesting depth at most 3.  Inside a helper only parameters, receiver fields, package constants
// and `callIn` calls are leaves (no inputs by name).  `callIn` names an input by what it is: the result of a call
// of the given package function (`getHash(...)` -> `secondHash`), wherever and under whatever name it is stored.
// A kernel statement that is no longer in the named function is looked for in the unexported helpers that function
// calls (depth 3; the match must be unique).  Package-level integer constants are replaced by their values.
// In a call target `r.m` (tgtArg) `r` stands for the receiver, whatever its name in the function that is read.
//
// Store kernels (tgtStore): a read-modify-write STATEMENT `recv.f[i]..[j] op= e` (or `recv.f[..] = e'` with the
// old value of the left-hand side occurring in e') becomes `def k (old ... : UInt64) := old op e`.  Inputs: the
// old value of the left-hand side (named by `lhsInput`), function parameters, and elements `x[i]..[j]` of a
// local slice / of the same field of another parameter of the receiver's type, indexed exactly like the
// left-hand side (named through `alias`).  The statement must keep its shape, otherwise `unsupported`:
//   - exactly one statement of the function stores to the field (an element of another depth, `++`, a
//     multi-assignment, a second store - e.g. a saturating fix-up - are rejected);
//   - it is reached through `for` / `range` / block statements only (not inside if / switch / select / a closure),
//     and every enclosing loop body consists of that single statement (no guard, `continue` or `break`);
//   - no `if` / `switch` that precedes it mentions one of its operands or index variables (an overflow guard);
//   - a parameter operand is not reassigned in the function; calls (a saturating helper) are not arithmetic.

import (
	"fmt"
	"go/ast"
	"go/parser"
	"go/token"
	"go/types"
	"math/big"
	"os"
	"path/filepath"
	"sort"
	"strconv"
	"strings"
)

type goTy int

const (
	tyNone goTy = iota
	tyUntyped
	tyU64
	tyUint
	tyUintptr
	tyInt
	tyI64
	tyU8
	tyU16
	tyU32
)

var goTyNames = map[string]goTy{
	"uint64": tyU64, "uint": tyUint, "uintptr": tyUintptr, "int": tyInt, "int64": tyI64,
	"uint8": tyU8, "byte": tyU8, "uint16": tyU16, "uint32": tyU32,
}

func (t goTy) String() string {
	switch t {
	case tyUntyped:
		return "untyped constant"
	case tyU64:
		return "uint64"
	case tyUint:
		return "uint"
	case tyUintptr:
		return "uintptr"
	case tyInt:
		return "int"
	case tyI64:
		return "int64"
	case tyU8:
		return "uint8"
	case tyU16:
		return "uint16"
	case tyU32:
		return "uint32"
	}
	return "?"
}

func (t goTy) signed() bool { return t == tyInt || t == tyI64 }

func (t goTy) width() int {
	switch t {
	case tyU8:
		return 8
	case tyU16:
		return 16
	case tyU32:
		return 32
	}
	return 64
}

// trunc wraps an expression of a narrow unsigned type whose UInt64 computation may have left the range
func truncTo(t goTy, e lexpr) lexpr {
	switch t.width() {
	case 8:
		return lexpr{"GoArith.trunc8 " + e.paren(), false}
	case 16:
		return lexpr{"GoArith.trunc16 " + e.paren(), false}
	case 32:
		return lexpr{"GoArith.trunc32 " + e.paren(), false}
	}
	return e
}

type lexpr struct {
	s      string
	atomic bool
}

func (e lexpr) paren() string {
	if e.atomic {
		return e.s
	}
	return "(" + e.s + ")"
}

// ---------------------------------------------------------------------------------------------

type targetKind int

const (
	tgtReturn targetKind = iota // result #index of the final `return` of the function body
	tgtAssign                   // right-hand side of the unique `name = e` / `name := e` / `name[i] = e`
	tgtArg                      // argument #index of the unique call whose function prints as `name`
	tgtStore                    // the unique read-modify-write statement storing to the receiver field `name` (see above)
)

type kernelSpec struct {
	lean   string // name of the generated definition
	file   string
	recv   string // receiver type ("" for a function)
	fn     string
	kind   targetKind
	name   string
	index  int
	elem   bool              // tgtAssign: the left-hand side is an element store `name[i] = e` (else the variable itself)
	unwrap []string          // single-argument calls to strip from the target, outermost first
	params []string          // the inputs, in the order of the Lean binders
	opaque map[string]string // `uint64(<callee>(...))` -> input of that name (uint64); for non-integer subterms
	callIn map[string]string // result of a call of the package function <callee> (not an input by name) -> input of that name
	// tupleIn: `a, b := <callee>(...)` of a function outside the package: the i-th result is the input of that
	// name, whatever the local is called; rangeIn: the key of `for k := range <target slice>` is the input of
	// that name.  (Inputs by ROLE: renaming a local does not rename the parameter of the generated kernel.)
	tupleIn map[string][]string
	rangeIn string
	// tgtStore only
	depth    int               // number of index levels of the stored element (`recv.f[i][j]`: 2, `recv.f`: 0)
	lhsInput string            // name of the input that stands for the old value of the left-hand side
	alias    map[string]string // element leaf (`x` for a local `x[i][j]`, `p_f` for `p.f[i][j]`) -> input name
}

var arithKernels = []kernelSpec{
	{lean: "cmsPosition", file: "base_count_min_sketch.go", recv: "AbstractCountMinSketch", fn: "getPositions",
		kind: tgtAssign, name: "positions", elem: true, params: []string{"hash1", "hash2", "c", "columns"},
		tupleIn: map[string][]string{"metro.Hash128": {"hash1", "hash2"}}, rangeIn: "c"},
	{lean: "hllRegisterIndex", file: "base_hyperloglog.go", recv: "AbstractHyperLogLog", fn: "getRegisterIndexAndCount",
		kind: tgtReturn, index: 0, params: []string{"hash", "numBytesPerHash"}, tupleIn: map[string][]string{"metro.Hash128": {"hash", ""}}},
	{lean: "hllCount", file: "base_hyperloglog.go", recv: "AbstractHyperLogLog", fn: "getRegisterIndexAndCount",
		kind: tgtReturn, index: 1, params: []string{"hash", "numBytesPerHash"}, tupleIn: map[string][]string{"metro.Hash128": {"hash", ""}}},
	{lean: "hllStoredIndexRedis", file: "hyperloglog_redis.go", recv: "HyperLogLogRedis", fn: "Update",
		kind: tgtArg, name: "h.updateRegisters", index: 0, params: []string{"registerIndex"}},
	{lean: "hllStoredValueRedis", file: "hyperloglog_redis.go", recv: "HyperLogLogRedis", fn: "Update",
		kind: tgtArg, name: "h.updateRegisters", index: 1, params: []string{"count"}},
	{lean: "cuckooFirstIndex", file: "base_cuckoo_filter.go", recv: "AbstractCuckooFilter", fn: "getPositions",
		kind: tgtReturn, index: 1, params: []string{"hash", "size"}},
	{lean: "cuckooSecondIndex", file: "base_cuckoo_filter.go", recv: "AbstractCuckooFilter", fn: "getPositions",
		kind: tgtReturn, index: 2, params: []string{"hash", "secondHash", "size"}, callIn: map[string]string{"getHash": "secondHash"}},
	{lean: "cuckooKickIndexMem", file: "cuckoo_filter.go", recv: "CuckooFilter", fn: "Insert",
		kind: tgtAssign, name: "newIndex", params: []string{"index", "hash", "len_buckets"}, callIn: map[string]string{"getHash": "hash"}},
	{lean: "cuckooKickIndexRedis", file: "cuckoo_filter_redis.go", recv: "CuckooFilterRedis", fn: "Insert",
		kind: tgtAssign, name: "newIndex", params: []string{"index", "hash", "len_buckets"}, callIn: map[string]string{"getHash": "hash"}},
	{lean: "bloomIndexInt", file: "bloom_filter.go", recv: "BloomFilter", fn: "getIndex",
		kind: tgtReturn, index: 0, unwrap: []string{"uint", "?math.Abs", "float64"},
		params: []string{"hashes_0", "hashes_1", "i", "cubic", "size"},
		opaque: map[string]string{"math.Floor": "cubic"}},
	{lean: "cmsCellUpdate", file: "count_min_sketch.go", recv: "CountMinSketch", fn: "Update",
		kind: tgtStore, name: "matrix", depth: 2, lhsInput: "cell", params: []string{"cell", "count"}},
	{lean: "cmsAllSumUpdate", file: "count_min_sketch.go", recv: "CountMinSketch", fn: "Update",
		kind: tgtStore, name: "allSum", depth: 0, lhsInput: "allSum", params: []string{"allSum", "count"}},
	{lean: "cmsCellMerge", file: "count_min_sketch.go", recv: "CountMinSketch", fn: "Merge",
		kind: tgtStore, name: "matrix", depth: 2, lhsInput: "a", params: []string{"a", "b"},
		alias: map[string]string{"other": "b", "cms1_matrix": "b"}},
}

// results of functions outside the package (everything else is looked up in the package itself)
var externResults = map[string][]goTy{
	"metro.Hash128": {tyU64, tyU64},
	"metro.Hash64":  {tyU64},
}

type arithPkg struct {
	fset    *token.FileSet
	files   map[string]*ast.File
	src     map[string][]string
	structs map[string]*ast.StructType
	funcs   map[string][]*ast.FuncDecl
	consts  map[string]*pkgConst
}

// pkgConst: a package-level `const name [T] = e`
type pkgConst struct {
	ty   ast.Expr // declared type or nil
	val  ast.Expr
	busy bool
}

func loadArithPkg(repo string) (*arithPkg, error) {
	p := &arithPkg{fset: token.NewFileSet(), files: map[string]*ast.File{}, src: map[string][]string{},
		structs: map[string]*ast.StructType{}, funcs: map[string][]*ast.FuncDecl{}, consts: map[string]*pkgConst{}}
	matches, err := filepath.Glob(filepath.Join(repo, "*.go"))
	if err != nil {
		return nil, err
	}
	sort.Strings(matches)
	for _, path := range matches {
		base := filepath.Base(path)
		if strings.HasSuffix(base, "_test.go") {
			continue
		}
		data, err := os.ReadFile(path)
		if err != nil {
			return nil, err
		}
		f, err := parser.ParseFile(p.fset, path, data, parser.SkipObjectResolution)
		if err != nil {
			return nil, err
		}
		p.files[base] = f
		p.src[base] = strings.Split(string(data), "\n")
		for _, d := range f.Decls {
			switch d := d.(type) {
			case *ast.FuncDecl:
				p.funcs[d.Name.Name] = append(p.funcs[d.Name.Name], d)
			case *ast.GenDecl:
				for _, s := range d.Specs {
					if ts, ok := s.(*ast.TypeSpec); ok {
						if st, ok := ts.Type.(*ast.StructType); ok {
							p.structs[ts.Name.Name] = st
						}
					}
					// explicit constants only (an omitted value repeats the previous expression, usually with iota)
					if vs, ok := s.(*ast.ValueSpec); ok && d.Tok == token.CONST && len(vs.Values) == len(vs.Names) {
						for i, n := range vs.Names {
							p.consts[n.Name] = &pkgConst{ty: vs.Type, val: vs.Values[i]}
						}
					}
				}
			}
		}
	}
	return p, nil
}

func tyOfTypeExpr(e ast.Expr) goTy {
	if id, ok := e.(*ast.Ident); ok {
		return goTyNames[id.Name]
	}
	return tyNone
}

// fieldType looks a field up in a struct of the package, through embedded structs
func (p *arithPkg) fieldType(structName, field string, depth int) ast.Expr {
	st := p.structs[structName]
	if st == nil || depth > 4 {
		return nil
	}
	for _, f := range st.Fields.List {
		for _, n := range f.Names {
			if n.Name == field {
				return f.Type
			}
		}
	}
	for _, f := range st.Fields.List {
		if len(f.Names) == 0 {
			if t := p.fieldType(typeName(f.Type), field, depth+1); t != nil {
				return t
			}
		}
	}
	return nil
}

// resultTypes of a call `f(...)`, `x.m(...)` or `pkg.f(...)`; nil if unknown
func (p *arithPkg) resultTypes(call *ast.CallExpr) []goTy {
	if r, ok := externResults[types.ExprString(call.Fun)]; ok {
		return r
	}
	var name string
	switch f := call.Fun.(type) {
	case *ast.Ident:
		name = f.Name
	case *ast.SelectorExpr:
		name = f.Sel.Name
	default:
		return nil
	}
	decls := p.funcs[name]
	if len(decls) == 0 {
		return nil
	}
	var res []goTy
	for i, d := range decls {
		var r []goTy
		if d.Type.Results != nil {
			for _, f := range d.Type.Results.List {
				n := len(f.Names)
				if n == 0 {
					n = 1
				}
				for k := 0; k < n; k++ {
					r = append(r, tyOfTypeExpr(f.Type))
				}
			}
		}
		if i == 0 {
			res = r
		} else if fmt.Sprint(r) != fmt.Sprint(res) { // several functions of that name must agree
			return nil
		}
	}
	return res
}

// ---------------------------------------------------------------------------------------------

type unsupportedErr struct{ why string }

func (u unsupportedErr) Error() string { return u.why }

func unsupportedf(format string, args ...interface{}) error {
	return unsupportedErr{fmt.Sprintf(format, args...)}
}

type letBinding struct {
	name string
	body lexpr
}

type arithCtx struct {
	pkg      *arithPkg
	spec     *kernelSpec
	fd       *ast.FuncDecl
	recvName string
	recvType string
	bitsName string         // local name of "math/bits"
	assigns  map[string]int // assignment count per identifier / "recv.field" in the whole function
	inputTy  map[string]goTy
	inputSrc map[string]string // where the input comes from ("local", "field", "len", "elem", "opaque")
	lets     []letBinding
	letTy    map[string]goTy
	busy     map[string]bool
	lines    map[srcLine]bool
	// inlined helpers (see frame)
	binds    map[string]*binding // parameters of the helper being read -> the argument expressions of the call
	prefix   string              // prefix of the `let` names of the helper's locals
	depth    int
	parent   *frame
	inlined  map[string]int // how often a helper was inlined (for unique prefixes)
	anyInput bool           // scratch context for typing: every leaf is an input
	// tgtStore only
	lhsKey string   // printed left-hand side of the store: an occurrence in the right-hand side is its old value
	lhsTy  goTy     // element type of the stored field
	lhsIdx []string // printed index expressions of the left-hand side, outermost first
}

// frame: the function whose body is being read - the kernel's function or a private helper that is being inlined
type frame struct {
	fd       *ast.FuncDecl
	recvName string
	recvType string
	bitsName string
	assigns  map[string]int
	binds    map[string]*binding
	prefix   string
	depth    int
	parent   *frame
}

// binding of a helper parameter: the argument expression, to be read in the caller's frame
type binding struct {
	arg     ast.Expr
	fr      frame
	visible []ast.Node
	inLet   bool
}

type srcLine struct {
	file string
	line int
}

func (c *arithCtx) frame() frame {
	return frame{c.fd, c.recvName, c.recvType, c.bitsName, c.assigns, c.binds, c.prefix, c.depth, c.parent}
}

func (c *arithCtx) setFrame(f frame) {
	c.fd, c.recvName, c.recvType, c.bitsName, c.assigns = f.fd, f.recvName, f.recvType, f.bitsName, f.assigns
	c.binds, c.prefix, c.depth, c.parent = f.binds, f.prefix, f.depth, f.parent
}

// newFrame of a function declaration of the package (receiver, `math/bits` import of its file, assignment counts)
func (p *arithPkg) newFrame(fd *ast.FuncDecl) frame {
	f := frame{fd: fd, assigns: countAssignments(fd)}
	if fd.Recv != nil && len(fd.Recv.List) == 1 {
		f.recvType = typeName(fd.Recv.List[0].Type)
		if len(fd.Recv.List[0].Names) == 1 {
			f.recvName = fd.Recv.List[0].Names[0].Name
		}
	}
	if file := p.files[filepath.Base(p.fset.Position(fd.Pos()).Filename)]; file != nil {
		for _, imp := range file.Imports {
			if path, _ := strconv.Unquote(imp.Path.Value); path == "math/bits" {
				f.bitsName = "bits"
				if imp.Name != nil {
					f.bitsName = imp.Name.Name
				}
			}
		}
	}
	return f
}

func (c *arithCtx) isParam(name string) bool {
	if c.anyInput {
		return true
	}
	for _, p := range c.spec.params {
		if p == name {
			return true
		}
	}
	return false
}

func (c *arithCtx) input(name string, ty goTy, src string, pos token.Pos) (lexpr, goTy, error) {
	if !c.isParam(name) {
		return lexpr{}, tyNone, unsupportedf("%s: `%s` (%s) is not among the inputs %v of the kernel", c.at(pos), name, src, c.spec.params)
	}
	if ty == tyNone {
		return lexpr{}, tyNone, unsupportedf("%s: no supported integer type for `%s`", c.at(pos), name)
	}
	if old, ok := c.inputSrc[name]; ok && (old != src || c.inputTy[name] != ty) {
		return lexpr{}, tyNone, unsupportedf("%s: input `%s` is used both as %s and as %s", c.at(pos), name, old, src)
	}
	c.inputSrc[name] = src
	c.inputTy[name] = ty
	return lexpr{leanIdent(name), true}, ty, nil
}

func (c *arithCtx) at(pos token.Pos) string {
	p := c.pkg.fset.Position(pos)
	return fmt.Sprintf("%s:%d", filepath.Base(p.Filename), p.Line)
}

func (c *arithCtx) mark(n ast.Node) {
	p := c.pkg.fset.Position(n.Pos())
	c.lines[srcLine{filepath.Base(p.Filename), p.Line}] = true
}

var leanKeywords = map[string]bool{"at": true, "end": true, "from": true, "fun": true, "have": true, "show": true,
	"then": true, "else": true, "if": true, "let": true, "in": true, "do": true, "by": true, "with": true, "open": true,
	"def": true, "theorem": true, "match": true, "where": true, "instance": true, "structure": true, "class": true,
	"namespace": true, "section": true, "variable": true, "universe": true, "import": true, "Type": true, "Prop": true,
	"Sort": true, "mutual": true, "macro": true, "syntax": true, "deriving": true, "return": true, "for": true}

func leanIdent(s string) string {
	if leanKeywords[s] {
		return "«" + s + "»"
	}
	return s
}

// countAssignments: how often every identifier (or `x.f`) is assigned anywhere in the function;
// taking the address counts as "assigned arbitrarily often".
func countAssignments(fd *ast.FuncDecl) map[string]int {
	m := map[string]int{}
	key := func(e ast.Expr) string {
		for {
			switch x := e.(type) {
			case *ast.ParenExpr:
				e = x.X
				continue
			case *ast.IndexExpr:
				e = x.X
				continue
			case *ast.StarExpr:
				e = x.X
				continue
			}
			break
		}
		switch x := e.(type) {
		case *ast.Ident:
			return x.Name
		case *ast.SelectorExpr:
			return types.ExprString(x)
		}
		return ""
	}
	ast.Inspect(fd.Body, func(n ast.Node) bool {
		switch s := n.(type) {
		case *ast.AssignStmt:
			for _, l := range s.Lhs {
				if _, isIdx := l.(*ast.IndexExpr); isIdx {
					continue // an element store does not change the slice / array variable's identity; arrays are not leaves
				}
				m[key(l)]++
			}
		case *ast.IncDecStmt:
			m[key(s.X)] += 2
		case *ast.RangeStmt:
			if s.Key != nil {
				m[key(s.Key)]++
			}
			if s.Value != nil {
				m[key(s.Value)]++
			}
		case *ast.ValueSpec:
			for _, n := range s.Names {
				m[n.Name]++
			}
		case *ast.UnaryExpr:
			if s.Op == token.AND {
				m[key(s.X)] += 2
			}
		}
		return true
	})
	return m
}

// ---------------------------------------------------------------------------------------------
// locating the target

type found struct {
	expr    ast.Expr
	visible []ast.Node // the statements (and loop headers) that precede the target on its path
	node    ast.Node
	fwd     *ast.CallExpr // tgtReturn: `return helper(...)` forwards all results of this call
	fwdN    int           // the number of results
}

// notFoundErr: the function has no statement of the wanted kind at all (it may have been moved into a helper)
type notFoundErr struct{ unsupportedErr }

func copyVisible(v []ast.Node, extra ...ast.Node) []ast.Node {
	r := make([]ast.Node, 0, len(v)+len(extra))
	r = append(r, v...)
	return append(r, extra...)
}

func (c *arithCtx) matchStmt(s ast.Stmt, visible []ast.Node, out *[]found) {
	spec := c.spec
	switch spec.kind {
	case tgtAssign:
		as, ok := s.(*ast.AssignStmt)
		if !ok {
			return
		}
		for i, l := range as.Lhs {
			base := l
			ix, isElem := l.(*ast.IndexExpr)
			if isElem {
				base = ix.X
			}
			if isElem != spec.elem {
				continue
			}
			id, ok := base.(*ast.Ident)
			if !ok || id.Name != spec.name {
				continue
			}
			if (as.Tok != token.ASSIGN && as.Tok != token.DEFINE) || len(as.Lhs) != len(as.Rhs) {
				*out = append(*out, found{expr: nil, visible: visible, node: s})
				continue
			}
			*out = append(*out, found{expr: as.Rhs[i], visible: visible, node: s})
		}
	case tgtArg:
		var exprs []ast.Node
		switch s := s.(type) {
		case *ast.AssignStmt, *ast.ExprStmt, *ast.ReturnStmt, *ast.DeclStmt, *ast.IncDecStmt, *ast.SendStmt, *ast.GoStmt, *ast.DeferStmt:
			exprs = append(exprs, s)
		case *ast.IfStmt:
			exprs = append(exprs, s.Cond)
		case *ast.ForStmt:
			if s.Cond != nil {
				exprs = append(exprs, s.Cond)
			}
		case *ast.RangeStmt:
			exprs = append(exprs, s.X)
		}
		for _, e := range exprs {
			ast.Inspect(e, func(n ast.Node) bool {
				if _, ok := n.(*ast.FuncLit); ok {
					return false
				}
				if call, ok := n.(*ast.CallExpr); ok && c.isTargetCall(call) {
					if spec.index < len(call.Args) && !call.Ellipsis.IsValid() {
						*out = append(*out, found{expr: call.Args[spec.index], visible: visible, node: s})
					} else {
						*out = append(*out, found{expr: nil, visible: visible, node: s})
					}
				}
				return true
			})
		}
	}
}

func (c *arithCtx) walk(list []ast.Stmt, visible []ast.Node, out *[]found) {
	for i, s := range list {
		vis := copyVisible(visible)
		for _, p := range list[:i] {
			vis = append(vis, p)
		}
		c.matchStmt(s, vis, out)
		switch s := s.(type) {
		case *ast.BlockStmt:
			c.walk(s.List, vis, out)
		case *ast.IfStmt:
			c.walkIf(s, vis, out)
		case *ast.ForStmt:
			v := vis
			if s.Init != nil {
				c.matchStmt(s.Init, vis, out)
				v = copyVisible(vis, s.Init)
			}
			c.walk(s.Body.List, v, out)
		case *ast.RangeStmt:
			c.walk(s.Body.List, copyVisible(vis, s), out)
		case *ast.LabeledStmt:
			c.walk([]ast.Stmt{s.Stmt}, vis, out)
		}
	}
}

func (c *arithCtx) walkIf(s *ast.IfStmt, vis []ast.Node, out *[]found) {
	v := vis
	if s.Init != nil {
		c.matchStmt(s.Init, vis, out)
		v = copyVisible(vis, s.Init)
	}
	c.walk(s.Body.List, v, out)
	switch e := s.Else.(type) {
	case *ast.BlockStmt:
		c.walk(e.List, v, out)
	case *ast.IfStmt:
		c.matchStmt(e, v, out)
		c.walkIf(e, v, out)
	}
}

func (c *arithCtx) locate() (found, error) {
	if c.spec.kind == tgtStore {
		return c.locateStore()
	}
	body := c.fd.Body.List
	if c.spec.kind == tgtReturn {
		if len(body) == 0 {
			return found{}, unsupportedf("empty function body")
		}
		ret, ok := body[len(body)-1].(*ast.ReturnStmt)
		if !ok {
			return found{}, unsupportedf("%s: the function body does not end in a return statement", c.at(body[len(body)-1].Pos()))
		}
		var vis []ast.Node
		for _, s := range body[:len(body)-1] {
			vis = append(vis, s)
		}
		if n := numResults(c.fd); n > 1 && len(ret.Results) == 1 && c.spec.index < n {
			if call, ok := ret.Results[0].(*ast.CallExpr); ok {
				return found{expr: nil, visible: vis, node: ret, fwd: call, fwdN: n}, nil
			}
		}
		if c.spec.index >= len(ret.Results) {
			return found{}, unsupportedf("%s: the final return has no result #%d", c.at(ret.Pos()), c.spec.index)
		}
		return found{expr: ret.Results[c.spec.index], visible: vis, node: ret}, nil
	}
	var out []found
	c.walk(body, nil, &out)
	what := "assignment to `" + c.spec.name + "`"
	if c.spec.kind == tgtArg {
		what = "call of `" + c.spec.name + "`"
	}
	if len(out) == 0 {
		return found{}, notFoundErr{unsupportedErr{fmt.Sprintf("no %s found in straight-line / if / for nesting", what)}}
	}
	if len(out) > 1 {
		return found{}, unsupportedf("%d candidates for the %s (must be unique)", len(out), what)
	}
	if out[0].expr == nil {
		return found{}, unsupportedf("%s: %s has an unsupported shape", c.at(out[0].node.Pos()), what)
	}
	return out[0], nil
}

// ---------------------------------------------------------------------------------------------
// store kernels (tgtStore)

var opAssign = map[token.Token]token.Token{token.ADD_ASSIGN: token.ADD, token.SUB_ASSIGN: token.SUB, token.MUL_ASSIGN: token.MUL,
	token.QUO_ASSIGN: token.QUO, token.REM_ASSIGN: token.REM, token.AND_ASSIGN: token.AND, token.OR_ASSIGN: token.OR,
	token.XOR_ASSIGN: token.XOR, token.SHL_ASSIGN: token.SHL, token.SHR_ASSIGN: token.SHR, token.AND_NOT_ASSIGN: token.AND_NOT}

// peelIndex strips parentheses and index expressions: base expression and the printed indices, outermost first
func peelIndex(e ast.Expr) (ast.Expr, []string) {
	var idx []string
	for {
		switch x := e.(type) {
		case *ast.ParenExpr:
			e = x.X
			continue
		case *ast.IndexExpr:
			idx = append([]string{types.ExprString(x.Index)}, idx...)
			e = x.X
			continue
		}
		return e, idx
	}
}

// elemType peels n slice / array levels off a type expression
func elemType(t ast.Expr, n int) goTy {
	for ; n > 0; n-- {
		at, ok := t.(*ast.ArrayType)
		if !ok {
			return tyNone
		}
		t = at.Elt
	}
	return tyOfTypeExpr(t)
}

// mentioned: the identifiers and selected field names of a node
func mentioned(n ast.Node) map[string]bool {
	m := map[string]bool{}
	ast.Inspect(n, func(n ast.Node) bool {
		switch x := n.(type) {
		case *ast.Ident:
			m[x.Name] = true
		case *ast.SelectorExpr:
			m[x.Sel.Name] = true
		}
		return true
	})
	return m
}

func (c *arithCtx) locateStore() (found, error) {
	spec := c.spec
	target := c.recvType + "." + spec.name
	if c.recvName == "" {
		return found{}, unsupportedf("the receiver of %s has no name", spec.fn)
	}
	isField := func(e ast.Expr) bool {
		sel, ok := e.(*ast.SelectorExpr)
		if !ok || sel.Sel.Name != spec.name {
			return false
		}
		id, ok := sel.X.(*ast.Ident)
		return ok && id.Name == c.recvName
	}
	type hit struct {
		node ast.Stmt
		as   *ast.AssignStmt // nil: `++`, `--`, a range variable, or the address is taken
		lhs  ast.Expr
		pos  token.Pos
	}
	var hits []hit
	ast.Inspect(c.fd.Body, func(n ast.Node) bool {
		switch s := n.(type) {
		case *ast.AssignStmt:
			for _, l := range s.Lhs {
				if b, _ := peelIndex(l); isField(b) {
					hits = append(hits, hit{s, s, l, s.Pos()})
				}
			}
		case *ast.IncDecStmt:
			if b, _ := peelIndex(s.X); isField(b) {
				hits = append(hits, hit{s, nil, s.X, s.Pos()})
			}
		case *ast.RangeStmt:
			for _, kv := range []ast.Expr{s.Key, s.Value} {
				if kv == nil {
					continue
				}
				if b, _ := peelIndex(kv); isField(b) {
					hits = append(hits, hit{s, nil, kv, s.Pos()})
				}
			}
		case *ast.UnaryExpr:
			if s.Op == token.AND {
				if b, _ := peelIndex(s.X); isField(b) {
					hits = append(hits, hit{nil, nil, s.X, s.Pos()})
				}
			}
		}
		return true
	})
	if len(hits) == 0 {
		return found{}, notFoundErr{unsupportedErr{fmt.Sprintf("no statement of %s stores to %s", c.fd.Name.Name, target)}}
	}
	if len(hits) > 1 {
		var at []string
		for _, h := range hits {
			at = append(at, c.at(h.pos))
		}
		return found{}, unsupportedf("%d statements store to %s (%s); the read-modify-write statement must be the only one", len(hits), target, strings.Join(at, ", "))
	}
	h := hits[0]
	if h.as == nil {
		return found{}, unsupportedf("%s: %s is changed by ++ / -- / a range clause or its address is taken", c.at(h.pos), types.ExprString(h.lhs))
	}
	as := h.as
	if len(as.Lhs) != 1 || len(as.Rhs) != 1 {
		return found{}, unsupportedf("%s: the store to %s is a multiple assignment", c.at(h.pos), target)
	}
	_, idx := peelIndex(as.Lhs[0])
	if len(idx) != spec.depth {
		return found{}, unsupportedf("%s: the store %s has %d index levels, expected %d", c.at(h.pos), types.ExprString(as.Lhs[0]), len(idx), spec.depth)
	}
	// the path to the statement: blocks, for and range statements only
	var resVisible []ast.Node
	var resLoops []ast.Stmt
	var path func(list []ast.Stmt, visible []ast.Node, loops []ast.Stmt) bool
	path = func(list []ast.Stmt, visible []ast.Node, loops []ast.Stmt) bool {
		for i, s := range list {
			vis := copyVisible(visible)
			for _, p := range list[:i] {
				vis = append(vis, p)
			}
			if s == ast.Stmt(as) {
				resVisible, resLoops = vis, loops
				return true
			}
			inner := append(append([]ast.Stmt{}, loops...), s)
			switch s := s.(type) {
			case *ast.BlockStmt:
				if path(s.List, vis, loops) {
					return true
				}
			case *ast.ForStmt:
				v := vis
				if s.Init != nil {
					v = copyVisible(vis, s.Init)
				}
				if path(s.Body.List, v, inner) {
					return true
				}
			case *ast.RangeStmt:
				if path(s.Body.List, copyVisible(vis, s), inner) {
					return true
				}
			case *ast.LabeledStmt:
				if path([]ast.Stmt{s.Stmt}, vis, loops) {
					return true
				}
			}
		}
		return false
	}
	if !path(c.fd.Body.List, nil, nil) {
		return found{}, unsupportedf("%s: the store to %s is conditional (inside an if / switch / select / closure)", c.at(h.pos), target)
	}
	for _, l := range resLoops {
		var body *ast.BlockStmt
		switch l := l.(type) {
		case *ast.ForStmt:
			body = l.Body
		case *ast.RangeStmt:
			body = l.Body
		}
		if len(body.List) != 1 {
			return found{}, unsupportedf("%s: the body of the loop around the store to %s has %d statements (the store must be the only one)", c.at(l.Pos()), target, len(body.List))
		}
	}
	// no guard on the operands before the statement
	ops := map[string]bool{} // operands: identifiers and selected field names (not the struct a field is selected from)
	ast.Inspect(as, func(n ast.Node) bool {
		switch x := n.(type) {
		case *ast.SelectorExpr:
			ops[x.Sel.Name] = true
			_, isIdent := x.X.(*ast.Ident)
			return !isIdent
		case *ast.Ident:
			ops[x.Name] = true
		}
		return true
	})
	for _, v := range resVisible {
		switch v.(type) {
		case *ast.IfStmt, *ast.SwitchStmt, *ast.TypeSwitchStmt, *ast.SelectStmt:
			var clash []string
			for name := range mentioned(v) {
				if ops[name] {
					clash = append(clash, name)
				}
			}
			if len(clash) > 0 {
				sort.Strings(clash)
				return found{}, unsupportedf("%s: a conditional statement before the store to %s mentions its operand(s) %s", c.at(v.Pos()), target, strings.Join(clash, ", "))
			}
		}
	}
	if d := c.findLocal(c.recvName, resVisible); d != nil {
		return found{}, unsupportedf("%s: receiver name `%s` is shadowed", c.at(h.pos), c.recvName)
	}
	ft := c.pkg.fieldType(c.recvType, spec.name, 0)
	if ft == nil {
		return found{}, unsupportedf("%s: no field %s in %s", c.at(h.pos), spec.name, c.recvType)
	}
	c.lhsTy = elemType(ft, spec.depth)
	if c.lhsTy == tyNone {
		return found{}, unsupportedf("%s: %s (field type %s) is not an integer", c.at(h.pos), types.ExprString(as.Lhs[0]), types.ExprString(ft))
	}
	c.lhsKey = types.ExprString(as.Lhs[0])
	c.lhsIdx = idx
	for _, l := range resLoops {
		c.mark(l) // quote the loop headers
	}
	var e ast.Expr
	if as.Tok == token.ASSIGN {
		e = as.Rhs[0]
	} else if op, ok := opAssign[as.Tok]; ok {
		e = &ast.BinaryExpr{X: as.Lhs[0], OpPos: as.TokPos, Op: op, Y: as.Rhs[0]}
	} else {
		return found{}, unsupportedf("%s: assignment operator %s", c.at(h.pos), as.Tok)
	}
	return found{expr: e, visible: resVisible, node: as}, nil
}

// storeElemLeaf: `x[i]..[j]` of a local slice, or `p.f[i]..[j]` of a parameter of the receiver's type, indexed
// exactly like the left-hand side of the store
func (c *arithCtx) storeElemLeaf(ix *ast.IndexExpr, visible []ast.Node) (lexpr, goTy, error) {
	base, idx := peelIndex(ix)
	pos := c.at(ix.Pos())
	if strings.Join(idx, "][") != strings.Join(c.lhsIdx, "][") {
		return lexpr{}, tyNone, unsupportedf("%s: %s is not indexed like the stored element %s", pos, types.ExprString(ix), c.lhsKey)
	}
	var name string
	var ty ast.Expr
	switch b := base.(type) {
	case *ast.Ident:
		d := c.findLocal(b.Name, visible)
		if d == nil || d.isParam {
			return lexpr{}, tyNone, unsupportedf("%s: `%s` is not a local slice", pos, b.Name)
		}
		if c.assigns[b.Name] != 1 {
			return lexpr{}, tyNone, unsupportedf("%s: local `%s` is assigned %d times in the function", pos, b.Name, c.assigns[b.Name])
		}
		name = b.Name
		if d.ty != nil {
			ty = d.ty
		} else if call, ok := d.rhs.(*ast.CallExpr); ok && len(call.Args) >= 2 {
			if f, ok := call.Fun.(*ast.Ident); ok && f.Name == "make" && c.findLocal("make", visible) == nil {
				ty = call.Args[0]
			}
		}
		if ty == nil {
			// a snapshot obtained from a (private) function or method of the package: the element type
			// is the declared result type of that function (unique declaration, single result)
			if call, ok := d.rhs.(*ast.CallExpr); ok {
				var fname string
				switch f := call.Fun.(type) {
				case *ast.Ident:
					fname = f.Name
				case *ast.SelectorExpr:
					fname = f.Sel.Name
				}
				if decls := c.pkg.funcs[fname]; fname != "" && len(decls) == 1 && decls[0].Type.Results != nil &&
					len(decls[0].Type.Results.List) == 1 && len(decls[0].Type.Results.List[0].Names) <= 1 {
					ty = decls[0].Type.Results.List[0].Type
				}
			}
		}
		if ty == nil {
			return lexpr{}, tyNone, unsupportedf("%s: local `%s` is not declared with a slice type or make", pos, b.Name)
		}
	case *ast.SelectorExpr:
		id, ok := b.X.(*ast.Ident)
		if !ok {
			return lexpr{}, tyNone, unsupportedf("%s: element of %s", pos, types.ExprString(b))
		}
		d := c.findLocal(id.Name, visible)
		if d == nil || !d.isParam || typeName(d.ty) != c.recvType || c.assigns[id.Name] > 0 {
			return lexpr{}, tyNone, unsupportedf("%s: `%s` is not an unmodified parameter of type %s", pos, id.Name, c.recvType)
		}
		name = id.Name + "_" + b.Sel.Name
		ty = c.pkg.fieldType(c.recvType, b.Sel.Name, 0)
		if ty == nil {
			return lexpr{}, tyNone, unsupportedf("%s: no field %s in %s", pos, b.Sel.Name, c.recvType)
		}
	default:
		return lexpr{}, tyNone, unsupportedf("%s: index expression %s", pos, types.ExprString(ix))
	}
	t := elemType(ty, len(idx))
	if t == tyNone {
		return lexpr{}, tyNone, unsupportedf("%s: %s (of type %s) is not an integer", pos, types.ExprString(ix), types.ExprString(ty))
	}
	in, ok := c.spec.alias[name]
	if !ok {
		return lexpr{}, tyNone, unsupportedf("%s: element of `%s` is not among the operands %v of the kernel", pos, name, c.spec.alias)
	}
	return c.input(in, t, "element of "+types.ExprString(base)+", indexed like the store", ix.Pos())
}

// ---------------------------------------------------------------------------------------------
// declarations of locals

type localDecl struct {
	ty      ast.Expr      // declared type, or nil
	rhs     ast.Expr      // one-to-one initialiser, or nil
	call    *ast.CallExpr // multi-value call initialiser, the result index and the number of results
	callIdx int
	callN   int
	rangeOf ast.Expr // key of `for k := range X`
	visible []ast.Node
	node    ast.Node
	isParam bool
}

func (c *arithCtx) findLocal(name string, visible []ast.Node) *localDecl {
	for i := len(visible) - 1; i >= 0; i-- {
		before := visible[:i]
		switch s := visible[i].(type) {
		case *ast.AssignStmt:
			if s.Tok != token.DEFINE {
				continue
			}
			for k, l := range s.Lhs {
				id, ok := l.(*ast.Ident)
				if !ok || id.Name != name {
					continue
				}
				d := &localDecl{visible: before, node: s}
				if len(s.Lhs) == len(s.Rhs) {
					d.rhs = s.Rhs[k]
				} else if len(s.Rhs) == 1 {
					if call, ok := s.Rhs[0].(*ast.CallExpr); ok {
						d.call, d.callIdx, d.callN = call, k, len(s.Lhs)
					}
				}
				return d
			}
		case *ast.DeclStmt:
			gd, ok := s.Decl.(*ast.GenDecl)
			if !ok || gd.Tok != token.VAR {
				continue
			}
			for _, sp := range gd.Specs {
				vs := sp.(*ast.ValueSpec)
				for k, n := range vs.Names {
					if n.Name != name {
						continue
					}
					d := &localDecl{ty: vs.Type, visible: before, node: s}
					if len(vs.Values) == len(vs.Names) {
						d.rhs = vs.Values[k]
					} else if len(vs.Values) == 1 {
						if call, ok := vs.Values[0].(*ast.CallExpr); ok {
							d.call, d.callIdx, d.callN = call, k, len(vs.Names)
						}
					}
					return d
				}
			}
		case *ast.RangeStmt:
			if s.Tok != token.DEFINE {
				continue
			}
			if id, ok := s.Key.(*ast.Ident); ok && id.Name == name {
				return &localDecl{rangeOf: s.X, visible: before, node: s}
			}
			if id, ok := s.Value.(*ast.Ident); ok && id.Name == name {
				return &localDecl{visible: before, node: s} // element variable: no type known
			}
		}
	}
	// parameters and named results
	lists := []*ast.FieldList{c.fd.Type.Params, c.fd.Type.Results}
	for li, fl := range lists {
		if fl == nil {
			continue
		}
		for _, f := range fl.List {
			for _, n := range f.Names {
				if n.Name == name {
					return &localDecl{ty: f.Type, isParam: li == 0, node: f}
				}
			}
		}
	}
	return nil
}

// isMadeSlice: X is a local declared as `X := make([]T, ...)` (so `for k := range X` has an int key)
func (c *arithCtx) isMadeSlice(x ast.Expr, visible []ast.Node) bool {
	id, ok := x.(*ast.Ident)
	if !ok {
		return false
	}
	d := c.findLocal(id.Name, visible)
	if d == nil {
		return false
	}
	if d.ty != nil {
		at, ok := d.ty.(*ast.ArrayType)
		return ok && at.Len == nil
	}
	call, ok := d.rhs.(*ast.CallExpr)
	if !ok || len(call.Args) < 2 {
		return false
	}
	if f, ok := call.Fun.(*ast.Ident); !ok || f.Name != "make" {
		return false
	}
	at, ok := call.Args[0].(*ast.ArrayType)
	return ok && at.Len == nil
}

// localType: the Go type of a local that is an input of the kernel
func (c *arithCtx) localType(name string, d *localDecl, pos token.Pos) (goTy, error) {
	switch {
	case d.ty != nil:
		if t := tyOfTypeExpr(d.ty); t != tyNone {
			return t, nil
		}
		return tyNone, unsupportedf("%s: `%s` has type %s", c.at(pos), name, types.ExprString(d.ty))
	case d.rangeOf != nil:
		if c.isMadeSlice(d.rangeOf, d.visible) {
			return tyInt, nil
		}
		return tyNone, unsupportedf("%s: range key `%s` over something that is not a local slice", c.at(pos), name)
	case d.call != nil:
		if r := c.pkg.resultTypes(d.call); r != nil && d.callIdx < len(r) && r[d.callIdx] != tyNone {
			return r[d.callIdx], nil
		}
		return tyNone, unsupportedf("%s: result type of %s unknown (input `%s`)", c.at(pos), types.ExprString(d.call.Fun), name)
	case d.rhs != nil:
		if call, ok := d.rhs.(*ast.CallExpr); ok {
			if r := c.pkg.resultTypes(call); len(r) == 1 && r[0] != tyNone {
				return r[0], nil
			}
		}
		// type of an arithmetic initialiser: translate it in a scratch context that accepts every leaf
		sc := &arithCtx{pkg: c.pkg, inputTy: map[string]goTy{}, inputSrc: map[string]string{}, letTy: map[string]goTy{},
			busy: map[string]bool{}, lines: map[srcLine]bool{}, inlined: map[string]int{}, anyInput: true}
		sc.setFrame(c.frame())
		sc.assigns = map[string]int{}
		anySpec := *c.spec
		anySpec.params = nil
		sc.spec = &anySpec
		sc.spec.params = collectIdents(d.rhs)
		_, t, err := sc.expr(d.rhs, d.visible, false)
		if err != nil {
			return tyNone, unsupportedf("%s: cannot type input `%s`: %v", c.at(pos), name, err)
		}
		if t == tyUntyped {
			t = tyInt
		}
		return t, nil
	}
	return tyNone, unsupportedf("%s: no type for `%s`", c.at(pos), name)
}

func collectIdents(e ast.Expr) []string {
	var r []string
	ast.Inspect(e, func(n ast.Node) bool {
		switch x := n.(type) {
		case *ast.Ident:
			r = append(r, x.Name)
		case *ast.SelectorExpr:
			r = append(r, x.Sel.Name, "len_"+x.Sel.Name)
		}
		return true
	})
	return r
}

// ---------------------------------------------------------------------------------------------
// expressions

func (c *arithCtx) ident(id *ast.Ident, visible []ast.Node, inLet bool) (lexpr, goTy, error) {
	name := id.Name
	d := c.findLocal(name, visible)
	if d == nil {
		if v, t, ok, err := c.pkgConst(name, id.Pos()); ok {
			return v, t, err
		}
		return lexpr{}, tyNone, unsupportedf("%s: identifier `%s` is neither a parameter nor a local of the straight-line path", c.at(id.Pos()), name)
	}
	if b := c.binds[name]; b != nil && d.isParam {
		// parameter of an inlined helper: the argument expression, read in the caller
		if c.assigns[name] > 0 {
			return lexpr{}, tyNone, unsupportedf("%s: parameter `%s` of the inlined helper %s is reassigned", c.at(id.Pos()), name, c.fd.Name.Name)
		}
		pt := tyOfTypeExpr(d.ty)
		if pt == tyNone {
			return lexpr{}, tyNone, unsupportedf("%s: parameter `%s` of %s has type %s", c.at(id.Pos()), name, c.fd.Name.Name, types.ExprString(d.ty))
		}
		here := c.frame()
		c.setFrame(b.fr)
		e, t, err := c.expr(b.arg, b.visible, b.inLet || inLet)
		if err == nil && t == tyUntyped {
			e, err = c.typedConst(b.arg, pt)
			t = pt
		}
		c.setFrame(here)
		if err != nil {
			return lexpr{}, tyNone, err
		}
		if t != pt {
			return lexpr{}, tyNone, unsupportedf("%s: argument %s of type %s for parameter `%s %s` (type inference of the translator is off)", c.at(b.arg.Pos()), types.ExprString(b.arg), t, name, pt)
		}
		return e, t, nil
	}
	if c.parent != nil && d.isParam {
		return lexpr{}, tyNone, unsupportedf("%s: `%s` is not a bound parameter of the inlined helper %s", c.at(id.Pos()), name, c.fd.Name.Name)
	}
	if role := c.roleOf(d); role != "" && c.parent == nil && !c.isParam(name) {
		// an input by what it is (result of the hash call, key of the loop over the target slice)
		t, err := c.localType(name, d, id.Pos())
		if err != nil {
			return lexpr{}, tyNone, err
		}
		if c.assigns[name] > 1 {
			return lexpr{}, tyNone, unsupportedf("%s: `%s` (input `%s` by role) is assigned more than once", c.at(id.Pos()), name, role)
		}
		if d.rangeOf != nil {
			c.mark(d.node)
		}
		return c.input(role, t, "local `"+name+"`", id.Pos())
	}
	if c.isParam(name) && c.parent == nil {
		t, err := c.localType(name, d, id.Pos())
		if err != nil {
			return lexpr{}, tyNone, err
		}
		if inLet {
			// read by a `let` that is evaluated earlier than the target: must not change in between
			n := c.assigns[name]
			if (d.isParam && n > 0) || n > 1 {
				return lexpr{}, tyNone, unsupportedf("%s: `%s` is read by an inlined local but assigned more than once in the function", c.at(id.Pos()), name)
			}
		}
		if d.rangeOf != nil {
			c.mark(d.node) // quote the loop header too
		}
		if c.spec.kind == tgtStore && c.assigns[name] > 0 && d.isParam {
			return lexpr{}, tyNone, unsupportedf("%s: operand `%s` of the store is a parameter that is reassigned in the function", c.at(id.Pos()), name)
		}
		return c.input(name, t, "local", id.Pos())
	}
	// a local that is not an input: inline its definition as a `let`
	lname := c.prefix + name // locals of an inlined helper are prefixed with the helper's name
	if t, ok := c.letTy[lname]; ok {
		return lexpr{leanIdent(lname), true}, t, nil
	}
	if c.busy[lname] {
		return lexpr{}, tyNone, unsupportedf("%s: cyclic definition of `%s`", c.at(id.Pos()), name)
	}
	if d.rhs == nil && d.call == nil {
		return lexpr{}, tyNone, unsupportedf("%s: local `%s` is not an input of the kernel %v and has no arithmetic definition to inline", c.at(id.Pos()), name, c.spec.params)
	}
	if c.assigns[name] != 1 {
		return lexpr{}, tyNone, unsupportedf("%s: local `%s` is assigned %d times in the function; only single-assignment locals are inlined", c.at(id.Pos()), name, c.assigns[name])
	}
	if call, ok := d.rhs.(*ast.CallExpr); ok && d.ty == nil {
		// the local holds the result of a call that is an input by what it is (`callIn`): the input itself, no `let`
		if e, t, ok, err := c.callInput(call, d.visible); ok {
			if err == nil {
				c.mark(d.node)
			}
			return e, t, err
		}
	}
	if c.inputSrc[lname] != "" || (lname != name && c.isParam(lname)) {
		return lexpr{}, tyNone, unsupportedf("%s: local `%s` clashes with an input of the same name", c.at(id.Pos()), lname)
	}
	c.busy[lname] = true
	var e lexpr
	var t goTy
	var err error
	if d.rhs != nil {
		e, t, err = c.expr(d.rhs, d.visible, true)
	} else { // `a, b := helper(...)`
		e, t, err = c.inlineCall(d.call, d.callIdx, d.callN, d.visible, true)
	}
	delete(c.busy, lname)
	if err != nil {
		return lexpr{}, tyNone, err
	}
	if d.ty != nil {
		dt := tyOfTypeExpr(d.ty)
		if dt == tyNone || (t != tyUntyped && t != dt) {
			return lexpr{}, tyNone, unsupportedf("%s: declared type %s of `%s` does not match", c.at(id.Pos()), types.ExprString(d.ty), name)
		}
		if t == tyUntyped && d.rhs != nil {
			if e, err = c.typedConst(d.rhs, dt); err != nil {
				return lexpr{}, tyNone, err
			}
		}
		t = dt
	}
	if t == tyUntyped && d.rhs != nil { // `k := 5` is an int
		if e, err = c.typedConst(d.rhs, tyInt); err != nil {
			return lexpr{}, tyNone, err
		}
		t = tyInt
	}
	c.mark(d.node)
	c.lets = append(c.lets, letBinding{lname, e})
	c.letTy[lname] = t
	return lexpr{leanIdent(lname), true}, t, nil
}

// constant value of a literal (parentheses allowed)
func constValue(e ast.Expr) *big.Int {
	switch x := e.(type) {
	case *ast.ParenExpr:
		return constValue(x.X)
	case *ast.BasicLit:
		if x.Kind != token.INT {
			return nil
		}
		v, ok := new(big.Int).SetString(strings.ReplaceAll(x.Value, "_", ""), 0)
		if !ok {
			return nil
		}
		return v
	}
	return nil
}

// constant value of an untyped constant expression (literals, parentheses, package-level constants, + - *)
func (c *arithCtx) constVal(e ast.Expr) *big.Int {
	switch x := e.(type) {
	case *ast.ParenExpr:
		return c.constVal(x.X)
	case *ast.Ident:
		// a package-level constant, unless the function has a parameter or local of that name
		if c.fd == nil || c.assigns[x.Name] > 0 || c.funcParam(x.Name) {
			return nil
		}
		v, _ := c.pkg.constEval(x.Name, 0)
		return v
	case *ast.BinaryExpr:
		a, b := c.constVal(x.X), c.constVal(x.Y)
		if a == nil || b == nil {
			return nil
		}
		switch x.Op {
		case token.ADD:
			return new(big.Int).Add(a, b)
		case token.SUB:
			return new(big.Int).Sub(a, b)
		case token.MUL:
			return new(big.Int).Mul(a, b)
		}
		return nil
	case *ast.BasicLit:
		if x.Kind != token.INT {
			return nil
		}
		v, ok := new(big.Int).SetString(strings.ReplaceAll(x.Value, "_", ""), 0)
		if !ok {
			return nil
		}
		return v
	}
	return nil
}

// typedConst: an untyped constant converted to type t (must be representable)
func (c *arithCtx) typedConst(e ast.Expr, t goTy) (lexpr, error) {
	v := c.constVal(e)
	if v == nil {
		return lexpr{}, unsupportedf("%s: constant expression %s", c.at(e.Pos()), types.ExprString(e))
	}
	bits := uint(t.width())
	if t.signed() {
		bits = 63
	}
	if v.Sign() < 0 || v.BitLen() > int(bits) {
		return lexpr{}, unsupportedf("%s: constant %s does not fit %s (or is negative)", c.at(e.Pos()), v.String(), t)
	}
	return lexpr{v.String(), true}, nil
}

var leanOp = map[token.Token]string{token.ADD: "+", token.SUB: "-", token.MUL: "*", token.QUO: "/", token.REM: "%",
	token.XOR: "^^^", token.AND: "&&&", token.OR: "|||"}

func (c *arithCtx) expr(e ast.Expr, visible []ast.Node, inLet bool) (lexpr, goTy, error) {
	if c.lhsKey != "" {
		if _, isParen := e.(*ast.ParenExpr); !isParen && types.ExprString(e) == c.lhsKey {
			return c.input(c.spec.lhsInput, c.lhsTy, "old value of "+c.lhsKey, e.Pos())
		}
		if ix, ok := e.(*ast.IndexExpr); ok {
			return c.storeElemLeaf(ix, visible)
		}
	}
	switch x := e.(type) {
	case *ast.ParenExpr:
		return c.expr(x.X, visible, inLet)
	case *ast.BasicLit:
		v := c.constVal(x)
		if v == nil {
			return lexpr{}, tyNone, unsupportedf("%s: literal %s", c.at(x.Pos()), x.Value)
		}
		return lexpr{v.String(), true}, tyUntyped, nil
	case *ast.Ident:
		return c.ident(x, visible, inLet)
	case *ast.SelectorExpr:
		id, ok := x.X.(*ast.Ident)
		if !ok || id.Name != c.recvName || c.recvName == "" {
			return lexpr{}, tyNone, unsupportedf("%s: selector %s (only fields of the receiver are supported)", c.at(x.Pos()), types.ExprString(x))
		}
		if d := c.findLocal(id.Name, visible); d != nil && !d.isParam {
			return lexpr{}, tyNone, unsupportedf("%s: receiver name `%s` is shadowed", c.at(x.Pos()), id.Name)
		}
		ft := c.pkg.fieldType(c.recvType, x.Sel.Name, 0)
		if ft == nil {
			return lexpr{}, tyNone, unsupportedf("%s: no field %s in %s", c.at(x.Pos()), x.Sel.Name, c.recvType)
		}
		t := tyOfTypeExpr(ft)
		if t == tyNone {
			return lexpr{}, tyNone, unsupportedf("%s: field %s has type %s", c.at(x.Pos()), x.Sel.Name, types.ExprString(ft))
		}
		if inLet && c.assigns[types.ExprString(x)] > 0 {
			return lexpr{}, tyNone, unsupportedf("%s: %s is read by an inlined local but assigned in the function", c.at(x.Pos()), types.ExprString(x))
		}
		if err := c.sameField(x.Sel.Name, x.Pos()); err != nil {
			return lexpr{}, tyNone, err
		}
		return c.input(x.Sel.Name, t, "field", x.Pos())
	case *ast.IndexExpr:
		// a[<literal>] of an array-typed parameter
		id, ok := x.X.(*ast.Ident)
		v := c.constVal(x.Index)
		if !ok || v == nil {
			return lexpr{}, tyNone, unsupportedf("%s: index expression %s", c.at(x.Pos()), types.ExprString(x))
		}
		d := c.findLocal(id.Name, visible)
		if d == nil || !d.isParam {
			return lexpr{}, tyNone, unsupportedf("%s: %s is not an array parameter", c.at(x.Pos()), id.Name)
		}
		at, ok := d.ty.(*ast.ArrayType)
		if !ok || at.Len == nil || c.assigns[id.Name] > 0 {
			return lexpr{}, tyNone, unsupportedf("%s: %s is not an unmodified array parameter", c.at(x.Pos()), id.Name)
		}
		return c.input(id.Name+"_"+v.String(), tyOfTypeExpr(at.Elt), "elem", x.Pos())
	case *ast.BinaryExpr:
		return c.binary(x, visible, inLet)
	case *ast.CallExpr:
		return c.call(x, visible, inLet)
	case *ast.UnaryExpr:
		if x.Op == token.ADD {
			return c.expr(x.X, visible, inLet)
		}
		return lexpr{}, tyNone, unsupportedf("%s: unary operator %s", c.at(x.Pos()), x.Op)
	}
	return lexpr{}, tyNone, unsupportedf("%s: expression %s", c.at(e.Pos()), types.ExprString(e))
}

func (c *arithCtx) binary(x *ast.BinaryExpr, visible []ast.Node, inLet bool) (lexpr, goTy, error) {
	a, ta, err := c.expr(x.X, visible, inLet)
	if err != nil {
		return lexpr{}, tyNone, err
	}
	b, tb, err := c.expr(x.Y, visible, inLet)
	if err != nil {
		return lexpr{}, tyNone, err
	}
	pos := c.at(x.OpPos)
	switch x.Op {
	case token.SHL, token.SHR:
		if ta == tyUntyped {
			return lexpr{}, tyNone, unsupportedf("%s: shift of an untyped constant", pos)
		}
		if tb == tyUntyped {
			if b, err = c.typedConst(x.Y, tyUint); err != nil {
				return lexpr{}, tyNone, err
			}
		} else if tb.signed() {
			return lexpr{}, tyNone, unsupportedf("%s: signed shift count (%s)", pos, tb)
		}
		if x.Op == token.SHR {
			if ta.signed() {
				return lexpr{}, tyNone, unsupportedf("%s: >> on a signed operand (%s)", pos, ta)
			}
			return lexpr{"GoArith.goShr " + a.paren() + " " + b.paren(), false}, ta, nil
		}
		return truncTo(ta, lexpr{"GoArith.goShl " + a.paren() + " " + b.paren(), false}), ta, nil
	case token.ADD, token.SUB, token.MUL, token.QUO, token.REM, token.XOR, token.AND, token.OR, token.AND_NOT:
		if ta == tyUntyped && tb == tyUntyped {
			if v := c.constVal(x); v != nil && v.Sign() >= 0 {
				return lexpr{v.String(), true}, tyUntyped, nil
			}
			return lexpr{}, tyNone, unsupportedf("%s: constant expression %s", pos, types.ExprString(x))
		}
		if ta == tyUntyped {
			if a, err = c.typedConst(x.X, tb); err != nil {
				return lexpr{}, tyNone, err
			}
			ta = tb
		}
		if tb == tyUntyped {
			if b, err = c.typedConst(x.Y, ta); err != nil {
				return lexpr{}, tyNone, err
			}
			tb = ta
		}
		if ta != tb {
			return lexpr{}, tyNone, unsupportedf("%s: operand types %s and %s of %s differ (type inference of the translator is off)", pos, ta, tb, x.Op)
		}
		if ta.signed() && (x.Op == token.QUO || x.Op == token.REM) {
			return lexpr{}, tyNone, unsupportedf("%s: %s on signed operands (%s)", pos, x.Op, ta)
		}
		if x.Op == token.AND_NOT {
			return lexpr{a.paren() + " &&& (~~~ " + b.paren() + ")", false}, ta, nil
		}
		r := lexpr{a.paren() + " " + leanOp[x.Op] + " " + b.paren(), false}
		switch x.Op {
		case token.ADD, token.SUB, token.MUL:
			r = truncTo(ta, r)
		}
		return r, ta, nil
	}
	return lexpr{}, tyNone, unsupportedf("%s: operator %s", pos, x.Op)
}

func (c *arithCtx) call(x *ast.CallExpr, visible []ast.Node, inLet bool) (lexpr, goTy, error) {
	fun := types.ExprString(x.Fun)
	pos := c.at(x.Pos())
	// conversions
	if id, ok := x.Fun.(*ast.Ident); ok {
		if to, ok := goTyNames[id.Name]; ok {
			if len(x.Args) != 1 {
				return lexpr{}, tyNone, unsupportedf("%s: conversion %s with %d arguments", pos, fun, len(x.Args))
			}
			if c.findLocal(id.Name, visible) != nil {
				return lexpr{}, tyNone, unsupportedf("%s: `%s` is shadowed by a local", pos, id.Name)
			}
			if inner, ok := x.Args[0].(*ast.CallExpr); ok && to == tyU64 {
				if name, ok := c.spec.opaque[types.ExprString(inner.Fun)]; ok {
					return c.input(name, tyU64, "opaque "+fun+"("+types.ExprString(inner.Fun)+"(...))", x.Pos())
				}
			}
			a, ta, err := c.expr(x.Args[0], visible, inLet)
			if err != nil {
				return lexpr{}, tyNone, err
			}
			if ta == tyUntyped {
				a, err = c.typedConst(x.Args[0], to)
				return a, to, err
			}
			if to.width() < ta.width() {
				return truncTo(to, a), to, nil
			}
			return a, to, nil // widening of an unsigned value / same-width reinterpretation: same UInt64
		}
		if id.Name == "len" && len(x.Args) == 1 {
			if sel, ok := x.Args[0].(*ast.SelectorExpr); ok {
				if r, ok := sel.X.(*ast.Ident); ok && r.Name == c.recvName && c.recvName != "" && c.findLocal("len", visible) == nil {
					if c.pkg.fieldType(c.recvType, sel.Sel.Name, 0) == nil {
						return lexpr{}, tyNone, unsupportedf("%s: no field %s in %s", pos, sel.Sel.Name, c.recvType)
					}
					if err := c.sameField(sel.Sel.Name, x.Pos()); err != nil {
						return lexpr{}, tyNone, err
					}
					return c.input("len_"+sel.Sel.Name, tyInt, "len", x.Pos())
				}
			}
			return lexpr{}, tyNone, unsupportedf("%s: len of something that is not a receiver field", pos)
		}
	}
	if c.bitsName != "" && fun == c.bitsName+".LeadingZeros64" && len(x.Args) == 1 {
		a, ta, err := c.expr(x.Args[0], visible, inLet)
		if err != nil {
			return lexpr{}, tyNone, err
		}
		if ta != tyU64 {
			return lexpr{}, tyNone, unsupportedf("%s: argument of %s has type %s", pos, fun, ta)
		}
		return lexpr{"GoArith.clz64u " + a.paren(), false}, tyInt, nil
	}
	if e, t, ok, err := c.callInput(x, visible); ok {
		return e, t, err
	}
	return c.inlineCall(x, 0, 1, visible, inLet)
}

// ---------------------------------------------------------------------------------------------
// package constants, private helpers

func (c *arithCtx) funcParam(name string) bool {
	for _, fl := range []*ast.FieldList{c.fd.Type.Params, c.fd.Type.Results} {
		if fl == nil {
			continue
		}
		for _, f := range fl.List {
			for _, n := range f.Names {
				if n.Name == name {
					return true
				}
			}
		}
	}
	return false
}

// constEval: the value of a package-level integer constant (literals, parentheses, other constants, + - *)
func (p *arithPkg) constEval(name string, depth int) (*big.Int, goTy) {
	k := p.consts[name]
	if k == nil || k.busy || depth > 8 {
		return nil, tyNone
	}
	k.busy = true
	defer func() { k.busy = false }()
	var ev func(e ast.Expr) *big.Int
	ev = func(e ast.Expr) *big.Int {
		switch x := e.(type) {
		case *ast.ParenExpr:
			return ev(x.X)
		case *ast.BasicLit:
			if x.Kind != token.INT {
				return nil
			}
			v, ok := new(big.Int).SetString(strings.ReplaceAll(x.Value, "_", ""), 0)
			if !ok {
				return nil
			}
			return v
		case *ast.Ident:
			v, _ := p.constEval(x.Name, depth+1)
			return v
		case *ast.BinaryExpr:
			a, b := ev(x.X), ev(x.Y)
			if a == nil || b == nil {
				return nil
			}
			switch x.Op {
			case token.ADD:
				return new(big.Int).Add(a, b)
			case token.SUB:
				return new(big.Int).Sub(a, b)
			case token.MUL:
				return new(big.Int).Mul(a, b)
			}
		}
		return nil
	}
	v := ev(k.val)
	if v == nil {
		return nil, tyNone
	}
	t := tyUntyped
	if k.ty != nil {
		if t = tyOfTypeExpr(k.ty); t == tyNone {
			return nil, tyNone
		}
	}
	return v, t
}

// pkgConst: identifier that is no local -> package-level integer constant, by value
func (c *arithCtx) pkgConst(name string, pos token.Pos) (lexpr, goTy, bool, error) {
	if c.pkg.consts[name] == nil {
		return lexpr{}, tyNone, false, nil
	}
	v, t := c.pkg.constEval(name, 0)
	if v == nil {
		return lexpr{}, tyNone, true, unsupportedf("%s: package constant `%s` is not a plain integer constant", c.at(pos), name)
	}
	if t != tyUntyped {
		bits := t.width()
		if t.signed() {
			bits = 63
		}
		if v.Sign() < 0 || v.BitLen() > bits {
			return lexpr{}, tyNone, true, unsupportedf("%s: constant %s = %s does not fit %s (or is negative)", c.at(pos), name, v.String(), t)
		}
	}
	return lexpr{v.String(), true}, t, true, nil
}

func numResults(fd *ast.FuncDecl) int {
	n := 0
	if fd.Type.Results != nil {
		for _, f := range fd.Type.Results.List {
			if len(f.Names) == 0 {
				n++
			} else {
				n += len(f.Names)
			}
		}
	}
	return n
}

func resultType(fd *ast.FuncDecl, idx int) ast.Expr {
	if fd.Type.Results != nil {
		for _, f := range fd.Type.Results.List {
			k := len(f.Names)
			if k == 0 {
				k = 1
			}
			if idx < k {
				return f.Type
			}
			idx -= k
		}
	}
	return nil
}

// embeds: struct `outer` embeds `inner` (directly or through embedded structs)
func (p *arithPkg) embeds(outer, inner string, depth int) bool {
	st := p.structs[outer]
	if st == nil || depth > 4 {
		return false
	}
	for _, f := range st.Fields.List {
		if len(f.Names) == 0 {
			if t := typeName(f.Type); t == inner || p.embeds(t, inner, depth+1) {
				return true
			}
		}
	}
	return false
}

// fieldOwner: the struct that declares the field a selector `x.field` on a value of struct type `structName` denotes
func (p *arithPkg) fieldOwner(structName, field string, depth int) string {
	st := p.structs[structName]
	if st == nil || depth > 4 {
		return ""
	}
	for _, f := range st.Fields.List {
		for _, n := range f.Names {
			if n.Name == field {
				return structName
			}
		}
	}
	for _, f := range st.Fields.List {
		if len(f.Names) == 0 {
			if o := p.fieldOwner(typeName(f.Type), field, depth+1); o != "" {
				return o
			}
		}
	}
	return ""
}

// sameField: inside an inlined method, `recv.field` must be the field that `recv.field` denotes in every caller up to
// the kernel's function (the helper may be declared on an embedded struct), and no caller may assign it
func (c *arithCtx) sameField(field string, pos token.Pos) error {
	owner := c.pkg.fieldOwner(c.recvType, field, 0)
	for f := c.parent; f != nil; f = f.parent {
		if f.recvType == "" || c.pkg.fieldOwner(f.recvType, field, 0) != owner {
			return unsupportedf("%s: field %s of the inlined helper's receiver is not the field %s.%s of its caller %s", c.at(pos), field, f.recvType, field, f.fd.Name.Name)
		}
		if f.assigns[f.recvName+"."+field] > 0 {
			return unsupportedf("%s: field %s is read by the inlined helper but assigned in its caller %s", c.at(pos), field, f.fd.Name.Name)
		}
	}
	return nil
}

func unexported(name string) bool {
	return name != "" && name != "_" && !ast.IsExported(name)
}

// callee: the declaration of the unexported package function / method on the receiver that `call` calls, or nil and why not
func (c *arithCtx) callee(call *ast.CallExpr, visible []ast.Node) (*ast.FuncDecl, string) {
	var cands []*ast.FuncDecl
	switch f := call.Fun.(type) {
	case *ast.Ident:
		if !unexported(f.Name) {
			return nil, ""
		}
		if c.findLocal(f.Name, visible) != nil {
			return nil, " (the name is shadowed by a local)"
		}
		for _, d := range c.pkg.funcs[f.Name] {
			if d.Recv == nil && d.Body != nil {
				cands = append(cands, d)
			}
		}
	case *ast.SelectorExpr:
		id, ok := f.X.(*ast.Ident)
		if !ok || c.recvName == "" || id.Name != c.recvName || !unexported(f.Sel.Name) {
			return nil, ""
		}
		if d := c.findLocal(id.Name, visible); d != nil {
			return nil, " (the receiver name is shadowed)"
		}
		if c.pkg.fieldType(c.recvType, f.Sel.Name, 0) != nil {
			return nil, " (a field, not a method)"
		}
		var own, promoted []*ast.FuncDecl
		for _, d := range c.pkg.funcs[f.Sel.Name] {
			if d.Recv == nil || len(d.Recv.List) != 1 || d.Body == nil {
				continue
			}
			if t := typeName(d.Recv.List[0].Type); t == c.recvType {
				own = append(own, d)
			} else if c.pkg.embeds(c.recvType, t, 0) {
				promoted = append(promoted, d)
			}
		}
		cands = own
		if len(own) == 0 {
			cands = promoted
		}
	default:
		return nil, ""
	}
	if len(cands) != 1 {
		return nil, fmt.Sprintf(" (%d declarations in the package)", len(cands))
	}
	return cands[0], ""
}

// roleOf: the input a local IS, independently of its name (spec.tupleIn / spec.rangeIn), or ""
func (c *arithCtx) roleOf(d *localDecl) string {
	if d == nil {
		return ""
	}
	if d.call != nil {
		if names, ok := c.spec.tupleIn[types.ExprString(d.call.Fun)]; ok && d.callIdx < len(names) {
			return names[d.callIdx]
		}
	}
	if d.rangeOf != nil && c.spec.rangeIn != "" {
		if id, ok := d.rangeOf.(*ast.Ident); ok && id.Name == c.spec.name {
			return c.spec.rangeIn
		}
	}
	return ""
}

// callInput: the call is an input of the kernel by what it computes (spec.callIn: package function -> input name)
func (c *arithCtx) callInput(call *ast.CallExpr, visible []ast.Node) (lexpr, goTy, bool, error) {
	id, ok := call.Fun.(*ast.Ident)
	if !ok {
		return lexpr{}, tyNone, false, nil
	}
	name, ok := c.spec.callIn[id.Name]
	if !ok || c.findLocal(id.Name, visible) != nil {
		return lexpr{}, tyNone, false, nil
	}
	r := c.pkg.resultTypes(call)
	if len(r) != 1 || r[0] == tyNone {
		return lexpr{}, tyNone, true, unsupportedf("%s: result type of %s unknown (input `%s`)", c.at(call.Pos()), id.Name, name)
	}
	e, t, err := c.input(name, r[0], "result of "+types.ExprString(call), call.Pos())
	return e, t, true, err
}

// inlineCall: result #idx (of nres) of a call of an unexported helper whose body is straight-line code ending in `return`
func (c *arithCtx) inlineCall(call *ast.CallExpr, idx, nres int, visible []ast.Node, inLet bool) (lexpr, goTy, error) {
	pos := c.at(call.Pos())
	fun := types.ExprString(call.Fun)
	fd, why := c.callee(call, visible)
	if fd == nil {
		return lexpr{}, tyNone, unsupportedf("%s: call of %s%s", pos, fun, why)
	}
	bad := func(format string, args ...interface{}) (lexpr, goTy, error) {
		return lexpr{}, tyNone, unsupportedf("%s: call of %s: %s", pos, fun, fmt.Sprintf(format, args...))
	}
	if c.depth >= 3 {
		return bad("helpers nested deeper than 3")
	}
	for f := c.parent; f != nil; f = f.parent {
		if f.fd == fd {
			return bad("recursive helper")
		}
	}
	if fd == c.fd {
		return bad("recursive helper")
	}
	if call.Ellipsis.IsValid() {
		return bad("variadic call")
	}
	var params []string
	for _, f := range fd.Type.Params.List {
		if _, variadic := f.Type.(*ast.Ellipsis); variadic {
			return bad("variadic helper")
		}
		if len(f.Names) == 0 {
			params = append(params, "_")
		}
		for _, n := range f.Names {
			params = append(params, n.Name)
		}
	}
	if len(params) != len(call.Args) {
		return bad("%d arguments for %d parameters", len(call.Args), len(params))
	}
	if n := numResults(fd); n != nres || idx >= n {
		return bad("it has %d results, %d are consumed", n, nres)
	}
	rt := tyOfTypeExpr(resultType(fd, idx))
	if rt == tyNone {
		return bad("result #%d has type %s", idx, types.ExprString(resultType(fd, idx)))
	}
	body := fd.Body.List
	if len(body) == 0 {
		return bad("empty body")
	}
	ret, ok := body[len(body)-1].(*ast.ReturnStmt)
	if !ok {
		return bad("its body does not end in a return statement")
	}
	var vis []ast.Node
	for _, s := range body[:len(body)-1] {
		switch s := s.(type) {
		case *ast.AssignStmt:
			if s.Tok != token.DEFINE {
				return bad("its body is not straight-line declarations and a return (%s)", c.at(s.Pos()))
			}
		case *ast.DeclStmt:
		default:
			return bad("its body is not straight-line declarations and a return (%s)", c.at(s.Pos()))
		}
		vis = append(vis, s)
	}
	var target ast.Expr
	var fwd *ast.CallExpr
	switch {
	case len(ret.Results) == nres:
		target = ret.Results[idx]
	case len(ret.Results) == 1 && nres > 1:
		if fwd, ok = ret.Results[0].(*ast.CallExpr); !ok {
			return bad("its return statement has %d results", len(ret.Results))
		}
	default:
		return bad("its return statement has %d results", len(ret.Results))
	}
	here := c.frame()
	nf := c.pkg.newFrame(fd)
	nf.depth, nf.parent = c.depth+1, &here
	c.inlined[fd.Name.Name]++
	nf.prefix = fd.Name.Name + "_"
	if n := c.inlined[fd.Name.Name]; n > 1 {
		nf.prefix = fmt.Sprintf("%s_%d_", fd.Name.Name, n)
	}
	nf.binds = map[string]*binding{}
	for i, p := range params {
		if p != "_" {
			nf.binds[p] = &binding{arg: call.Args[i], fr: here, visible: visible, inLet: inLet}
		}
	}
	c.setFrame(nf)
	defer c.setFrame(here)
	c.mark(ret)
	if fwd != nil {
		return c.inlineCall(fwd, idx, nres, vis, inLet)
	}
	e, t, err := c.expr(target, vis, inLet)
	if err != nil {
		return lexpr{}, tyNone, err
	}
	if t == tyUntyped {
		if e, err = c.typedConst(target, rt); err != nil {
			return lexpr{}, tyNone, err
		}
		t = rt
	}
	if t != rt {
		return bad("it returns a %s as %s (type inference of the translator is off)", t, rt)
	}
	return e, rt, nil
}

// isTargetCall (tgtArg): the call prints as spec.name; for `r.m` the actual receiver name stands for `r`
func (c *arithCtx) isTargetCall(call *ast.CallExpr) bool {
	if types.ExprString(call.Fun) == c.spec.name {
		return true
	}
	if i := strings.IndexByte(c.spec.name, '.'); i > 0 && c.recvName != "" {
		if sel, ok := call.Fun.(*ast.SelectorExpr); ok && sel.Sel.Name == c.spec.name[i+1:] {
			if id, ok := sel.X.(*ast.Ident); ok && id.Name == c.recvName {
				return true
			}
		}
	}
	return false
}

// privateCallees: the unexported functions / methods on the receiver that the function calls, transitively (breadth first)
func (p *arithPkg) privateCallees(root frame, depth int) []*ast.FuncDecl {
	var out []*ast.FuncDecl
	seen := map[*ast.FuncDecl]bool{root.fd: true}
	level := []frame{root}
	for d := 0; d < depth && len(level) > 0; d++ {
		var next []frame
		for _, fr := range level {
			sc := &arithCtx{pkg: p}
			sc.setFrame(fr)
			ast.Inspect(fr.fd.Body, func(n ast.Node) bool {
				if call, ok := n.(*ast.CallExpr); ok {
					if fd, _ := sc.callee(call, nil); fd != nil && !seen[fd] {
						seen[fd] = true
						out = append(out, fd)
						next = append(next, p.newFrame(fd))
					}
				}
				return true
			})
		}
		level = next
	}
	return out
}

// ---------------------------------------------------------------------------------------------

type kernelResult struct {
	spec  *kernelSpec
	def   string // Lean text of the definition ("" if unsupported)
	why   string
	where string
}

func (p *arithPkg) translate(spec *kernelSpec) kernelResult {
	res := kernelResult{spec: spec}
	fail := func(err error) kernelResult {
		res.why = err.Error()
		return res
	}
	file := p.files[spec.file]
	if file == nil {
		return fail(unsupportedf("file %s not found", spec.file))
	}
	var fd *ast.FuncDecl
	for _, d := range file.Decls {
		f, ok := d.(*ast.FuncDecl)
		if !ok || f.Name.Name != spec.fn || f.Body == nil {
			continue
		}
		recv := ""
		if f.Recv != nil && len(f.Recv.List) == 1 {
			recv = typeName(f.Recv.List[0].Type)
		}
		if recv == spec.recv {
			fd = f
		}
	}
	fnName := spec.fn
	if spec.recv != "" {
		fnName = spec.recv + "." + spec.fn
	}
	res.where = spec.file + ", " + fnName
	if fd == nil {
		return fail(unsupportedf("function %s not found in %s", fnName, spec.file))
	}
	c := &arithCtx{pkg: p, spec: spec, inputTy: map[string]goTy{}, inputSrc: map[string]string{}, letTy: map[string]goTy{},
		busy: map[string]bool{}, lines: map[srcLine]bool{}, inlined: map[string]int{}}
	c.setFrame(p.newFrame(fd))
	tgt, err := c.locate()
	if _, missing := err.(notFoundErr); missing {
		// the statement may have been moved into an unexported helper of the function: the unique match among them
		var hits []frame
		var tgts []found
		for _, callee := range p.privateCallees(c.frame(), 3) {
			c.setFrame(p.newFrame(callee))
			if t, e := c.locate(); e == nil {
				hits, tgts = append(hits, c.frame()), append(tgts, t)
			} else if _, missing := e.(notFoundErr); !missing {
				return fail(e)
			}
		}
		if len(hits) > 1 {
			return fail(unsupportedf("%v; %d of the helpers it calls have one (must be unique)", err, len(hits)))
		}
		if len(hits) == 1 {
			c.setFrame(hits[0])
			tgt, err = tgts[0], nil
			res.where += ", in its helper " + hits[0].fd.Name.Name
		} else {
			c.setFrame(p.newFrame(fd))
		}
	}
	if err != nil {
		return fail(err)
	}
	e := tgt.expr
	if tgt.fwd != nil && len(spec.unwrap) > 0 {
		return fail(unsupportedf("%s: the result is forwarded from %s", c.at(tgt.fwd.Pos()), types.ExprString(tgt.fwd.Fun)))
	}
	for _, u := range spec.unwrap {
		// "?f": the wrapper f may be absent (math.Abs around a float64 converted from an unsigned integer is
		// the identity)
		optional := strings.HasPrefix(u, "?")
		u = strings.TrimPrefix(u, "?")
		for {
			p, ok := e.(*ast.ParenExpr)
			if !ok {
				break
			}
			e = p.X
		}
		call, ok := e.(*ast.CallExpr)
		if optional && (!ok || types.ExprString(call.Fun) != u) {
			continue
		}
		if !ok || types.ExprString(call.Fun) != u || len(call.Args) != 1 {
			return fail(unsupportedf("%s: expected a call %s(...) around the integer part, found %s", c.at(e.Pos()), u, types.ExprString(e)))
		}
		e = call.Args[0]
	}
	c.mark(tgt.node)
	var body lexpr
	var ty goTy
	if tgt.fwd != nil {
		body, ty, err = c.inlineCall(tgt.fwd, spec.index, tgt.fwdN, tgt.visible, false)
	} else {
		body, ty, err = c.expr(e, tgt.visible, false)
	}
	if err != nil {
		return fail(err)
	}
	if ty == tyUntyped {
		return fail(unsupportedf("%s: the kernel is a constant", c.at(e.Pos())))
	}

	var b strings.Builder
	var lines []srcLine
	for l := range c.lines {
		lines = append(lines, l)
	}
	sort.Slice(lines, func(i, j int) bool { // the kernel's file first
		a, b := lines[i], lines[j]
		if a.file != b.file {
			return a.file == spec.file || (b.file != spec.file && a.file < b.file)
		}
		return a.line < b.line
	})
	fmt.Fprintf(&b, "/-- %s", res.where)
	if spec.kind == tgtReturn {
		fmt.Fprintf(&b, ", result #%d", spec.index)
	} else if spec.kind == tgtArg {
		fmt.Fprintf(&b, ", argument #%d of %s", spec.index, spec.name)
	} else if spec.kind == tgtStore {
		fmt.Fprintf(&b, ", the store to %s", c.lhsKey)
	}
	if len(spec.unwrap) > 0 {
		fmt.Fprintf(&b, ", inside %s(...)", strings.ReplaceAll(strings.Join(spec.unwrap, "("), "?", ""))
	}
	b.WriteString("\n")
	for _, l := range lines {
		fmt.Fprintf(&b, "    %s:%d: %s\n", l.file, l.line, strings.ReplaceAll(strings.TrimSpace(p.src[l.file][l.line-1]), "-/", "- /"))
	}
	b.WriteString("    inputs:")
	for i, prm := range spec.params {
		if i > 0 {
			b.WriteString(",")
		}
		if t, ok := c.inputTy[prm]; ok {
			fmt.Fprintf(&b, " %s %s (%s)", prm, t, c.inputSrc[prm])
		} else {
			fmt.Fprintf(&b, " %s (unused)", prm)
		}
	}
	fmt.Fprintf(&b, "; result type %s -/\n", ty)
	fmt.Fprintf(&b, "def %s (", spec.lean)
	for i, prm := range spec.params {
		if i > 0 {
			b.WriteString(" ")
		}
		b.WriteString(leanIdent(prm))
	}
	b.WriteString(" : UInt64) : UInt64 :=\n")
	for _, l := range c.lets {
		fmt.Fprintf(&b, "  let %s : UInt64 := %s\n", leanIdent(l.name), l.body.s)
	}
	fmt.Fprintf(&b, "  %s\n", body.s)
	res.def = b.String()
	return res
}

func genArith(repo string) (string, error) {
	p, err := loadArithPkg(repo)
	if err != nil {
		return "", err
	}
	var b strings.Builder
	b.WriteString("/- GENERATED by /verif/extract (arith.go) from /repo's current sources on every run. DO NOT EDIT.\n")
	b.WriteString("   The integer index / position arithmetic of the Go functions named in the comments, translated\n")
	b.WriteString("   expression by expression into `UInt64` (uint64 / uint / int / int64: the 64-bit pattern;\n")
	b.WriteString("   uint8 / uint16 / uint32: zero-extended).  Go shifts and bits.LeadingZeros64 are the functions of\n")
	b.WriteString("   Gostatix.Model.GoArith.  The `store` kernels are read-modify-write statements of uint64 counters\n")
	b.WriteString("   (`x op= e` as `x op e` of the old value; the statement must keep its shape, see extract/arith.go).\n")
	b.WriteString("   A kernel outside the supported subset has NO definition here, only a\n")
	b.WriteString("   comment and an entry in `unsupported`; Gostatix/Props/ArithTie*.lean then fails to build. -/\n")
	b.WriteString("import Gostatix.Model.GoArith\n")
	b.WriteString("namespace Gostatix.Generated.Arith\n")
	b.WriteString("open Gostatix\n\n")
	var bad []kernelResult
	for i := range arithKernels {
		r := p.translate(&arithKernels[i])
		if r.def == "" {
			bad = append(bad, r)
			fmt.Fprintf(&b, "-- %s (%s): UNSUPPORTED, no definition emitted: %s\n\n", r.spec.lean, r.where, strings.ReplaceAll(r.why, "\n", " "))
			continue
		}
		b.WriteString(r.def)
		b.WriteString("\n")
	}
	b.WriteString("/-- the kernels the translator could not translate (name, reason) -/\n")
	b.WriteString("def unsupported : List (String × String) := [")
	for i, r := range bad {
		if i > 0 {
			b.WriteString(",")
		}
		fmt.Fprintf(&b, "\n  (%s, %s)", leanString(r.spec.lean), leanString(r.why))
	}
	if len(bad) > 0 {
		b.WriteString("\n")
	}
	b.WriteString("]\n\nend Gostatix.Generated.Arith\n")
	return b.String(), nil
}

func leanString(s string) string {
	var b strings.Builder
	b.WriteByte('"')
	for _, r := range s {
		switch r {
		case '"':
			b.WriteString("\\\"")
		case '\\':
			b.WriteString("\\\\")
		case '\n':
			b.WriteString("\\n")
		case '\t':
			b.WriteString("\\t")
		default:
			b.WriteRune(r)
		}
	}
	b.WriteByte('"')
	return b.String()
}
