package main

// Integer kernels: the index / position arithmetic of a few functions of the repository is located
// with go/ast (by file, receiver and function name) and translated into Lean 4 definitions over
// `UInt64` (lean/Gostatix/Generated/Arith.lean, regenerated on every run).  The theorems of
// lean/Gostatix/Props/ArithTie.lean state that these definitions agree with the hand-written `Nat`
// models for all inputs; they are re-checked by `lake build` against whatever this file emits.
//
// The translator is purely syntactic (no go/types: the repository's dependencies are not needed).
// It keeps its own little type environment (function parameters, receiver fields, `var` / `:=`
// locals, results of package functions, a table of two external functions) and checks Go's
// "operands have identical types" rule itself; if its types disagree it answers `unsupported`
// instead of guessing.  A kernel that leaves the subset below gets NO definition (only a comment and
// an entry in `Arith.unsupported`), so the tie theorem naming it no longer type-checks.
//
// Supported subset
//   types      uint64, uint, uintptr (64-bit unsigned), int, int64 (64-bit, two's-complement bit pattern in a
//              UInt64), uint8/byte, uint16, uint32 (zero-extended, results re-truncated)
//   leaves     identifiers that are inputs of the kernel (function parameters, locals, the key of
//              `for c := range <slice made with make([]T, n)>`), receiver fields `recv.f` -> input `f`,
//              `len(recv.f)` -> input `len_f` (int), `a[<literal>]` of an array parameter -> input `a_<literal>`,
//              integer literals (typed by the other operand)
//   locals     `x := e` / `var x T = e` of straight-line code that are not inputs become `let`;
//              the local and everything its definition reads must be assigned exactly once in the function
//   operators  + - * / % ^ & | &^ << >>  (signed: only + - * ^ & | &^ <<; shift counts must be unsigned or literals)
//   calls      conversions uint64(x) uint(x) uintptr(x) int(x) int64(x) uint8(x) byte(x) uint16(x) uint32(x),
//              bits.LeadingZeros64(x) (with "math/bits" imported as `bits`)
//   everything else (floats, strings, other calls, comparisons, unary operators, ...) -> unsupported

import (
	"fmt"
	"go/ast"
	"go/parser"
	"go/token"
	"go/types"
	"math/big"
	"os"
	"path/filepath"
	"sort"
	"strconv"
	"strings"
)

type goTy int

const (
	tyNone goTy = iota
	tyUntyped
	tyU64
	tyUint
	tyUintptr
	tyInt
	tyI64
	tyU8
	tyU16
	tyU32
)

var goTyNames = map[string]goTy{
	"uint64": tyU64, "uint": tyUint, "uintptr": tyUintptr, "int": tyInt, "int64": tyI64,
	"uint8": tyU8, "byte": tyU8, "uint16": tyU16, "uint32": tyU32,
}

func (t goTy) String() string {
	switch t {
	case tyUntyped:
		return "untyped constant"
	case tyU64:
		return "uint64"
	case tyUint:
		return "uint"
	case tyUintptr:
		return "uintptr"
	case tyInt:
		return "int"
	case tyI64:
		return "int64"
	case tyU8:
		return "uint8"
	case tyU16:
		return "uint16"
	case tyU32:
		return "uint32"
	}
	return "?"
}

func (t goTy) signed() bool { return t == tyInt || t == tyI64 }

func (t goTy) width() int {
	switch t {
	case tyU8:
		return 8
	case tyU16:
		return 16
	case tyU32:
		return 32
	}
	return 64
}

// trunc wraps an expression of a narrow unsigned type whose UInt64 computation may have left the range
func truncTo(t goTy, e lexpr) lexpr {
	switch t.width() {
	case 8:
		return lexpr{"GoArith.trunc8 " + e.paren(), false}
	case 16:
		return lexpr{"GoArith.trunc16 " + e.paren(), false}
	case 32:
		return lexpr{"GoArith.trunc32 " + e.paren(), false}
	}
	return e
}

type lexpr struct {
	s      string
	atomic bool
}

func (e lexpr) paren() string {
	if e.atomic {
		return e.s
	}
	return "(" + e.s + ")"
}

// ---------------------------------------------------------------------------------------------

type targetKind int

const (
	tgtReturn targetKind = iota // result #index of the final `return` of the function body
	tgtAssign                   // right-hand side of the unique `name = e` / `name := e` / `name[i] = e`
	tgtArg                      // argument #index of the unique call whose function prints as `name`
)

type kernelSpec struct {
	lean   string // name of the generated definition
	file   string
	recv   string // receiver type ("" for a function)
	fn     string
	kind   targetKind
	name   string
	index  int
	elem   bool              // tgtAssign: the left-hand side is an element store `name[i] = e` (else the variable itself)
	unwrap []string          // single-argument calls to strip from the target, outermost first
	params []string          // the inputs, in the order of the Lean binders
	opaque map[string]string // `uint64(<callee>(...))` -> input of that name (uint64); for non-integer subterms
}

var arithKernels = []kernelSpec{
	{lean: "cmsPosition", file: "base_count_min_sketch.go", recv: "AbstractCountMinSketch", fn: "getPositions",
		kind: tgtAssign, name: "positions", elem: true, params: []string{"hash1", "hash2", "c", "columns"}},
	{lean: "hllRegisterIndex", file: "base_hyperloglog.go", recv: "AbstractHyperLogLog", fn: "getRegisterIndexAndCount",
		kind: tgtReturn, index: 0, params: []string{"hash", "numBytesPerHash"}},
	{lean: "hllCount", file: "base_hyperloglog.go", recv: "AbstractHyperLogLog", fn: "getRegisterIndexAndCount",
		kind: tgtReturn, index: 1, params: []string{"hash", "numBytesPerHash"}},
	{lean: "hllStoredIndexRedis", file: "hyperloglog_redis.go", recv: "HyperLogLogRedis", fn: "Update",
		kind: tgtArg, name: "h.updateRegisters", index: 0, params: []string{"registerIndex"}},
	{lean: "hllStoredValueRedis", file: "hyperloglog_redis.go", recv: "HyperLogLogRedis", fn: "Update",
		kind: tgtArg, name: "h.updateRegisters", index: 1, params: []string{"count"}},
	{lean: "cuckooFirstIndex", file: "base_cuckoo_filter.go", recv: "AbstractCuckooFilter", fn: "getPositions",
		kind: tgtReturn, index: 1, params: []string{"hash", "size"}},
	{lean: "cuckooSecondIndex", file: "base_cuckoo_filter.go", recv: "AbstractCuckooFilter", fn: "getPositions",
		kind: tgtReturn, index: 2, params: []string{"hash", "secondHash", "size"}},
	{lean: "cuckooKickIndexMem", file: "cuckoo_filter.go", recv: "CuckooFilter", fn: "Insert",
		kind: tgtAssign, name: "newIndex", params: []string{"index", "hash", "len_buckets"}},
	{lean: "cuckooKickIndexRedis", file: "cuckoo_filter_redis.go", recv: "CuckooFilterRedis", fn: "Insert",
		kind: tgtAssign, name: "newIndex", params: []string{"index", "hash", "len_buckets"}},
	{lean: "bloomIndexInt", file: "bloom_filter.go", recv: "BloomFilter", fn: "getIndex",
		kind: tgtReturn, index: 0, unwrap: []string{"uint", "math.Abs", "float64"},
		params: []string{"hashes_0", "hashes_1", "i", "cubic", "size"},
		opaque: map[string]string{"math.Floor": "cubic"}},
}

// results of functions outside the package (everything else is looked up in the package itself)
var externResults = map[string][]goTy{
	"metro.Hash128": {tyU64, tyU64},
	"metro.Hash64":  {tyU64},
}

type arithPkg struct {
	fset    *token.FileSet
	files   map[string]*ast.File
	src     map[string][]string
	structs map[string]*ast.StructType
	funcs   map[string][]*ast.FuncDecl
}

func loadArithPkg(repo string) (*arithPkg, error) {
	p := &arithPkg{fset: token.NewFileSet(), files: map[string]*ast.File{}, src: map[string][]string{},
		structs: map[string]*ast.StructType{}, funcs: map[string][]*ast.FuncDecl{}}
	matches, err := filepath.Glob(filepath.Join(repo, "*.go"))
	if err != nil {
		return nil, err
	}
	sort.Strings(matches)
	for _, path := range matches {
		base := filepath.Base(path)
		if strings.HasSuffix(base, "_test.go") {
			continue
		}
		data, err := os.ReadFile(path)
		if err != nil {
			return nil, err
		}
		f, err := parser.ParseFile(p.fset, path, data, parser.SkipObjectResolution)
		if err != nil {
			return nil, err
		}
		p.files[base] = f
		p.src[base] = strings.Split(string(data), "\n")
		for _, d := range f.Decls {
			switch d := d.(type) {
			case *ast.FuncDecl:
				p.funcs[d.Name.Name] = append(p.funcs[d.Name.Name], d)
			case *ast.GenDecl:
				for _, s := range d.Specs {
					if ts, ok := s.(*ast.TypeSpec); ok {
						if st, ok := ts.Type.(*ast.StructType); ok {
							p.structs[ts.Name.Name] = st
						}
					}
				}
			}
		}
	}
	return p, nil
}

func tyOfTypeExpr(e ast.Expr) goTy {
	if id, ok := e.(*ast.Ident); ok {
		return goTyNames[id.Name]
	}
	return tyNone
}

// fieldType looks a field up in a struct of the package, through embedded structs
func (p *arithPkg) fieldType(structName, field string, depth int) ast.Expr {
	st := p.structs[structName]
	if st == nil || depth > 4 {
		return nil
	}
	for _, f := range st.Fields.List {
		for _, n := range f.Names {
			if n.Name == field {
				return f.Type
			}
		}
	}
	for _, f := range st.Fields.List {
		if len(f.Names) == 0 {
			if t := p.fieldType(typeName(f.Type), field, depth+1); t != nil {
				return t
			}
		}
	}
	return nil
}

// resultTypes of a call `f(...)`, `x.m(...)` or `pkg.f(...)`; nil if unknown
func (p *arithPkg) resultTypes(call *ast.CallExpr) []goTy {
	if r, ok := externResults[types.ExprString(call.Fun)]; ok {
		return r
	}
	var name string
	switch f := call.Fun.(type) {
	case *ast.Ident:
		name = f.Name
	case *ast.SelectorExpr:
		name = f.Sel.Name
	default:
		return nil
	}
	decls := p.funcs[name]
	if len(decls) == 0 {
		return nil
	}
	var res []goTy
	for i, d := range decls {
		var r []goTy
		if d.Type.Results != nil {
			for _, f := range d.Type.Results.List {
				n := len(f.Names)
				if n == 0 {
					n = 1
				}
				for k := 0; k < n; k++ {
					r = append(r, tyOfTypeExpr(f.Type))
				}
			}
		}
		if i == 0 {
			res = r
		} else if fmt.Sprint(r) != fmt.Sprint(res) { // several functions of that name must agree
			return nil
		}
	}
	return res
}

// ---------------------------------------------------------------------------------------------

type unsupportedErr struct{ why string }

func (u unsupportedErr) Error() string { return u.why }

func unsupportedf(format string, args ...interface{}) error {
	return unsupportedErr{fmt.Sprintf(format, args...)}
}

type letBinding struct {
	name string
	body lexpr
}

type arithCtx struct {
	pkg      *arithPkg
	spec     *kernelSpec
	fd       *ast.FuncDecl
	recvName string
	recvType string
	bitsName string         // local name of "math/bits"
	assigns  map[string]int // assignment count per identifier / "recv.field" in the whole function
	inputTy  map[string]goTy
	inputSrc map[string]string // where the input comes from ("local", "field", "len", "elem", "opaque")
	lets     []letBinding
	letTy    map[string]goTy
	busy     map[string]bool
	lines    map[int]bool
}

func (c *arithCtx) isParam(name string) bool {
	for _, p := range c.spec.params {
		if p == name {
			return true
		}
	}
	return false
}

func (c *arithCtx) input(name string, ty goTy, src string, pos token.Pos) (lexpr, goTy, error) {
	if !c.isParam(name) {
		return lexpr{}, tyNone, unsupportedf("%s: `%s` (%s) is not among the inputs %v of the kernel", c.at(pos), name, src, c.spec.params)
	}
	if ty == tyNone {
		return lexpr{}, tyNone, unsupportedf("%s: no supported integer type for `%s`", c.at(pos), name)
	}
	if old, ok := c.inputSrc[name]; ok && (old != src || c.inputTy[name] != ty) {
		return lexpr{}, tyNone, unsupportedf("%s: input `%s` is used both as %s and as %s", c.at(pos), name, old, src)
	}
	c.inputSrc[name] = src
	c.inputTy[name] = ty
	return lexpr{leanIdent(name), true}, ty, nil
}

func (c *arithCtx) at(pos token.Pos) string {
	p := c.pkg.fset.Position(pos)
	return fmt.Sprintf("%s:%d", filepath.Base(p.Filename), p.Line)
}

func (c *arithCtx) mark(n ast.Node) {
	c.lines[c.pkg.fset.Position(n.Pos()).Line] = true
}

var leanKeywords = map[string]bool{"at": true, "end": true, "from": true, "fun": true, "have": true, "show": true,
	"then": true, "else": true, "if": true, "let": true, "in": true, "do": true, "by": true, "with": true, "open": true,
	"def": true, "theorem": true, "match": true, "where": true, "instance": true, "structure": true, "class": true,
	"namespace": true, "section": true, "variable": true, "universe": true, "import": true, "Type": true, "Prop": true,
	"Sort": true, "mutual": true, "macro": true, "syntax": true, "deriving": true, "return": true, "for": true}

func leanIdent(s string) string {
	if leanKeywords[s] {
		return "«" + s + "»"
	}
	return s
}

// countAssignments: how often every identifier (or `x.f`) is assigned anywhere in the function;
// taking the address counts as "assigned arbitrarily often".
func countAssignments(fd *ast.FuncDecl) map[string]int {
	m := map[string]int{}
	key := func(e ast.Expr) string {
		for {
			switch x := e.(type) {
			case *ast.ParenExpr:
				e = x.X
				continue
			case *ast.IndexExpr:
				e = x.X
				continue
			case *ast.StarExpr:
				e = x.X
				continue
			}
			break
		}
		switch x := e.(type) {
		case *ast.Ident:
			return x.Name
		case *ast.SelectorExpr:
			return types.ExprString(x)
		}
		return ""
	}
	ast.Inspect(fd.Body, func(n ast.Node) bool {
		switch s := n.(type) {
		case *ast.AssignStmt:
			for _, l := range s.Lhs {
				if _, isIdx := l.(*ast.IndexExpr); isIdx {
					continue // an element store does not change the slice / array variable's identity; arrays are not leaves
				}
				m[key(l)]++
			}
		case *ast.IncDecStmt:
			m[key(s.X)] += 2
		case *ast.RangeStmt:
			if s.Key != nil {
				m[key(s.Key)]++
			}
			if s.Value != nil {
				m[key(s.Value)]++
			}
		case *ast.ValueSpec:
			for _, n := range s.Names {
				m[n.Name]++
			}
		case *ast.UnaryExpr:
			if s.Op == token.AND {
				m[key(s.X)] += 2
			}
		}
		return true
	})
	return m
}

// ---------------------------------------------------------------------------------------------
// locating the target

type found struct {
	expr    ast.Expr
	visible []ast.Node // the statements (and loop headers) that precede the target on its path
	node    ast.Node
}

func copyVisible(v []ast.Node, extra ...ast.Node) []ast.Node {
	r := make([]ast.Node, 0, len(v)+len(extra))
	r = append(r, v...)
	return append(r, extra...)
}

func (c *arithCtx) matchStmt(s ast.Stmt, visible []ast.Node, out *[]found) {
	spec := c.spec
	switch spec.kind {
	case tgtAssign:
		as, ok := s.(*ast.AssignStmt)
		if !ok {
			return
		}
		for i, l := range as.Lhs {
			base := l
			ix, isElem := l.(*ast.IndexExpr)
			if isElem {
				base = ix.X
			}
			if isElem != spec.elem {
				continue
			}
			id, ok := base.(*ast.Ident)
			if !ok || id.Name != spec.name {
				continue
			}
			if (as.Tok != token.ASSIGN && as.Tok != token.DEFINE) || len(as.Lhs) != len(as.Rhs) {
				*out = append(*out, found{nil, visible, s})
				continue
			}
			*out = append(*out, found{as.Rhs[i], visible, s})
		}
	case tgtArg:
		var exprs []ast.Node
		switch s := s.(type) {
		case *ast.AssignStmt, *ast.ExprStmt, *ast.ReturnStmt, *ast.DeclStmt, *ast.IncDecStmt, *ast.SendStmt, *ast.GoStmt, *ast.DeferStmt:
			exprs = append(exprs, s)
		case *ast.IfStmt:
			exprs = append(exprs, s.Cond)
		case *ast.ForStmt:
			if s.Cond != nil {
				exprs = append(exprs, s.Cond)
			}
		case *ast.RangeStmt:
			exprs = append(exprs, s.X)
		}
		for _, e := range exprs {
			ast.Inspect(e, func(n ast.Node) bool {
				if _, ok := n.(*ast.FuncLit); ok {
					return false
				}
				if call, ok := n.(*ast.CallExpr); ok && types.ExprString(call.Fun) == spec.name {
					if spec.index < len(call.Args) && !call.Ellipsis.IsValid() {
						*out = append(*out, found{call.Args[spec.index], visible, s})
					} else {
						*out = append(*out, found{nil, visible, s})
					}
				}
				return true
			})
		}
	}
}

func (c *arithCtx) walk(list []ast.Stmt, visible []ast.Node, out *[]found) {
	for i, s := range list {
		vis := copyVisible(visible)
		for _, p := range list[:i] {
			vis = append(vis, p)
		}
		c.matchStmt(s, vis, out)
		switch s := s.(type) {
		case *ast.BlockStmt:
			c.walk(s.List, vis, out)
		case *ast.IfStmt:
			c.walkIf(s, vis, out)
		case *ast.ForStmt:
			v := vis
			if s.Init != nil {
				c.matchStmt(s.Init, vis, out)
				v = copyVisible(vis, s.Init)
			}
			c.walk(s.Body.List, v, out)
		case *ast.RangeStmt:
			c.walk(s.Body.List, copyVisible(vis, s), out)
		case *ast.LabeledStmt:
			c.walk([]ast.Stmt{s.Stmt}, vis, out)
		}
	}
}

func (c *arithCtx) walkIf(s *ast.IfStmt, vis []ast.Node, out *[]found) {
	v := vis
	if s.Init != nil {
		c.matchStmt(s.Init, vis, out)
		v = copyVisible(vis, s.Init)
	}
	c.walk(s.Body.List, v, out)
	switch e := s.Else.(type) {
	case *ast.BlockStmt:
		c.walk(e.List, v, out)
	case *ast.IfStmt:
		c.matchStmt(e, v, out)
		c.walkIf(e, v, out)
	}
}

func (c *arithCtx) locate() (found, error) {
	body := c.fd.Body.List
	if c.spec.kind == tgtReturn {
		if len(body) == 0 {
			return found{}, unsupportedf("empty function body")
		}
		ret, ok := body[len(body)-1].(*ast.ReturnStmt)
		if !ok {
			return found{}, unsupportedf("%s: the function body does not end in a return statement", c.at(body[len(body)-1].Pos()))
		}
		if c.spec.index >= len(ret.Results) {
			return found{}, unsupportedf("%s: the final return has no result #%d", c.at(ret.Pos()), c.spec.index)
		}
		var vis []ast.Node
		for _, s := range body[:len(body)-1] {
			vis = append(vis, s)
		}
		return found{ret.Results[c.spec.index], vis, ret}, nil
	}
	var out []found
	c.walk(body, nil, &out)
	what := "assignment to `" + c.spec.name + "`"
	if c.spec.kind == tgtArg {
		what = "call of `" + c.spec.name + "`"
	}
	if len(out) == 0 {
		return found{}, unsupportedf("no %s found in straight-line / if / for nesting", what)
	}
	if len(out) > 1 {
		return found{}, unsupportedf("%d candidates for the %s (must be unique)", len(out), what)
	}
	if out[0].expr == nil {
		return found{}, unsupportedf("%s: %s has an unsupported shape", c.at(out[0].node.Pos()), what)
	}
	return out[0], nil
}

// ---------------------------------------------------------------------------------------------
// declarations of locals

type localDecl struct {
	ty      ast.Expr      // declared type, or nil
	rhs     ast.Expr      // one-to-one initialiser, or nil
	call    *ast.CallExpr // multi-value call initialiser and the result index
	callIdx int
	rangeOf ast.Expr // key of `for k := range X`
	visible []ast.Node
	node    ast.Node
	isParam bool
}

func (c *arithCtx) findLocal(name string, visible []ast.Node) *localDecl {
	for i := len(visible) - 1; i >= 0; i-- {
		before := visible[:i]
		switch s := visible[i].(type) {
		case *ast.AssignStmt:
			if s.Tok != token.DEFINE {
				continue
			}
			for k, l := range s.Lhs {
				id, ok := l.(*ast.Ident)
				if !ok || id.Name != name {
					continue
				}
				d := &localDecl{visible: before, node: s}
				if len(s.Lhs) == len(s.Rhs) {
					d.rhs = s.Rhs[k]
				} else if len(s.Rhs) == 1 {
					if call, ok := s.Rhs[0].(*ast.CallExpr); ok {
						d.call, d.callIdx = call, k
					}
				}
				return d
			}
		case *ast.DeclStmt:
			gd, ok := s.Decl.(*ast.GenDecl)
			if !ok || gd.Tok != token.VAR {
				continue
			}
			for _, sp := range gd.Specs {
				vs := sp.(*ast.ValueSpec)
				for k, n := range vs.Names {
					if n.Name != name {
						continue
					}
					d := &localDecl{ty: vs.Type, visible: before, node: s}
					if len(vs.Values) == len(vs.Names) {
						d.rhs = vs.Values[k]
					} else if len(vs.Values) == 1 {
						if call, ok := vs.Values[0].(*ast.CallExpr); ok {
							d.call, d.callIdx = call, k
						}
					}
					return d
				}
			}
		case *ast.RangeStmt:
			if s.Tok != token.DEFINE {
				continue
			}
			if id, ok := s.Key.(*ast.Ident); ok && id.Name == name {
				return &localDecl{rangeOf: s.X, visible: before, node: s}
			}
			if id, ok := s.Value.(*ast.Ident); ok && id.Name == name {
				return &localDecl{visible: before, node: s} // element variable: no type known
			}
		}
	}
	// parameters and named results
	lists := []*ast.FieldList{c.fd.Type.Params, c.fd.Type.Results}
	for li, fl := range lists {
		if fl == nil {
			continue
		}
		for _, f := range fl.List {
			for _, n := range f.Names {
				if n.Name == name {
					return &localDecl{ty: f.Type, isParam: li == 0, node: f}
				}
			}
		}
	}
	return nil
}

// isMadeSlice: X is a local declared as `X := make([]T, ...)` (so `for k := range X` has an int key)
func (c *arithCtx) isMadeSlice(x ast.Expr, visible []ast.Node) bool {
	id, ok := x.(*ast.Ident)
	if !ok {
		return false
	}
	d := c.findLocal(id.Name, visible)
	if d == nil {
		return false
	}
	if d.ty != nil {
		at, ok := d.ty.(*ast.ArrayType)
		return ok && at.Len == nil
	}
	call, ok := d.rhs.(*ast.CallExpr)
	if !ok || len(call.Args) < 2 {
		return false
	}
	if f, ok := call.Fun.(*ast.Ident); !ok || f.Name != "make" {
		return false
	}
	at, ok := call.Args[0].(*ast.ArrayType)
	return ok && at.Len == nil
}

// localType: the Go type of a local that is an input of the kernel
func (c *arithCtx) localType(name string, d *localDecl, pos token.Pos) (goTy, error) {
	switch {
	case d.ty != nil:
		if t := tyOfTypeExpr(d.ty); t != tyNone {
			return t, nil
		}
		return tyNone, unsupportedf("%s: `%s` has type %s", c.at(pos), name, types.ExprString(d.ty))
	case d.rangeOf != nil:
		if c.isMadeSlice(d.rangeOf, d.visible) {
			return tyInt, nil
		}
		return tyNone, unsupportedf("%s: range key `%s` over something that is not a local slice", c.at(pos), name)
	case d.call != nil:
		if r := c.pkg.resultTypes(d.call); r != nil && d.callIdx < len(r) && r[d.callIdx] != tyNone {
			return r[d.callIdx], nil
		}
		return tyNone, unsupportedf("%s: result type of %s unknown (input `%s`)", c.at(pos), types.ExprString(d.call.Fun), name)
	case d.rhs != nil:
		if call, ok := d.rhs.(*ast.CallExpr); ok {
			if r := c.pkg.resultTypes(call); len(r) == 1 && r[0] != tyNone {
				return r[0], nil
			}
		}
		// type of an arithmetic initialiser: translate it in a scratch context that accepts every leaf
		sc := &arithCtx{pkg: c.pkg, fd: c.fd, recvName: c.recvName, recvType: c.recvType, bitsName: c.bitsName,
			assigns: map[string]int{}, inputTy: map[string]goTy{}, inputSrc: map[string]string{}, letTy: map[string]goTy{},
			busy: map[string]bool{}, lines: map[int]bool{}}
		anySpec := *c.spec
		anySpec.params = nil
		sc.spec = &anySpec
		sc.spec.params = collectIdents(d.rhs)
		_, t, err := sc.expr(d.rhs, d.visible, false)
		if err != nil {
			return tyNone, unsupportedf("%s: cannot type input `%s`: %v", c.at(pos), name, err)
		}
		if t == tyUntyped {
			t = tyInt
		}
		return t, nil
	}
	return tyNone, unsupportedf("%s: no type for `%s`", c.at(pos), name)
}

func collectIdents(e ast.Expr) []string {
	var r []string
	ast.Inspect(e, func(n ast.Node) bool {
		switch x := n.(type) {
		case *ast.Ident:
			r = append(r, x.Name)
		case *ast.SelectorExpr:
			r = append(r, x.Sel.Name, "len_"+x.Sel.Name)
		}
		return true
	})
	return r
}

// ---------------------------------------------------------------------------------------------
// expressions

func (c *arithCtx) ident(id *ast.Ident, visible []ast.Node, inLet bool) (lexpr, goTy, error) {
	name := id.Name
	d := c.findLocal(name, visible)
	if d == nil {
		return lexpr{}, tyNone, unsupportedf("%s: identifier `%s` is neither a parameter nor a local of the straight-line path", c.at(id.Pos()), name)
	}
	if c.isParam(name) {
		t, err := c.localType(name, d, id.Pos())
		if err != nil {
			return lexpr{}, tyNone, err
		}
		if inLet {
			// read by a `let` that is evaluated earlier than the target: must not change in between
			n := c.assigns[name]
			if (d.isParam && n > 0) || n > 1 {
				return lexpr{}, tyNone, unsupportedf("%s: `%s` is read by an inlined local but assigned more than once in the function", c.at(id.Pos()), name)
			}
		}
		if d.rangeOf != nil {
			c.mark(d.node) // quote the loop header too
		}
		return c.input(name, t, "local", id.Pos())
	}
	// a local that is not an input: inline its definition as a `let`
	if t, ok := c.letTy[name]; ok {
		return lexpr{leanIdent(name), true}, t, nil
	}
	if c.busy[name] {
		return lexpr{}, tyNone, unsupportedf("%s: cyclic definition of `%s`", c.at(id.Pos()), name)
	}
	if d.rhs == nil {
		return lexpr{}, tyNone, unsupportedf("%s: local `%s` is not an input of the kernel %v and has no arithmetic definition to inline", c.at(id.Pos()), name, c.spec.params)
	}
	if c.assigns[name] != 1 {
		return lexpr{}, tyNone, unsupportedf("%s: local `%s` is assigned %d times in the function; only single-assignment locals are inlined", c.at(id.Pos()), name, c.assigns[name])
	}
	if c.inputSrc[name] != "" {
		return lexpr{}, tyNone, unsupportedf("%s: local `%s` clashes with an input of the same name", c.at(id.Pos()), name)
	}
	c.busy[name] = true
	e, t, err := c.expr(d.rhs, d.visible, true)
	delete(c.busy, name)
	if err != nil {
		return lexpr{}, tyNone, err
	}
	if d.ty != nil {
		dt := tyOfTypeExpr(d.ty)
		if dt == tyNone || (t != tyUntyped && t != dt) {
			return lexpr{}, tyNone, unsupportedf("%s: declared type %s of `%s` does not match", c.at(id.Pos()), types.ExprString(d.ty), name)
		}
		if t == tyUntyped {
			if e, err = c.typedConst(d.rhs, dt); err != nil {
				return lexpr{}, tyNone, err
			}
		}
		t = dt
	}
	if t == tyUntyped { // `k := 5` is an int
		if e, err = c.typedConst(d.rhs, tyInt); err != nil {
			return lexpr{}, tyNone, err
		}
		t = tyInt
	}
	c.mark(d.node)
	c.lets = append(c.lets, letBinding{name, e})
	c.letTy[name] = t
	return lexpr{leanIdent(name), true}, t, nil
}

// constant value of an untyped constant expression (literals, parentheses)
func constValue(e ast.Expr) *big.Int {
	switch x := e.(type) {
	case *ast.ParenExpr:
		return constValue(x.X)
	case *ast.BasicLit:
		if x.Kind != token.INT {
			return nil
		}
		v, ok := new(big.Int).SetString(strings.ReplaceAll(x.Value, "_", ""), 0)
		if !ok {
			return nil
		}
		return v
	}
	return nil
}

// typedConst: an untyped constant converted to type t (must be representable)
func (c *arithCtx) typedConst(e ast.Expr, t goTy) (lexpr, error) {
	v := constValue(e)
	if v == nil {
		return lexpr{}, unsupportedf("%s: constant expression %s", c.at(e.Pos()), types.ExprString(e))
	}
	bits := uint(t.width())
	if t.signed() {
		bits = 63
	}
	if v.Sign() < 0 || v.BitLen() > int(bits) {
		return lexpr{}, unsupportedf("%s: constant %s does not fit %s (or is negative)", c.at(e.Pos()), v.String(), t)
	}
	return lexpr{v.String(), true}, nil
}

var leanOp = map[token.Token]string{token.ADD: "+", token.SUB: "-", token.MUL: "*", token.QUO: "/", token.REM: "%",
	token.XOR: "^^^", token.AND: "&&&", token.OR: "|||"}

func (c *arithCtx) expr(e ast.Expr, visible []ast.Node, inLet bool) (lexpr, goTy, error) {
	switch x := e.(type) {
	case *ast.ParenExpr:
		return c.expr(x.X, visible, inLet)
	case *ast.BasicLit:
		v := constValue(x)
		if v == nil {
			return lexpr{}, tyNone, unsupportedf("%s: literal %s", c.at(x.Pos()), x.Value)
		}
		return lexpr{v.String(), true}, tyUntyped, nil
	case *ast.Ident:
		return c.ident(x, visible, inLet)
	case *ast.SelectorExpr:
		id, ok := x.X.(*ast.Ident)
		if !ok || id.Name != c.recvName || c.recvName == "" {
			return lexpr{}, tyNone, unsupportedf("%s: selector %s (only fields of the receiver are supported)", c.at(x.Pos()), types.ExprString(x))
		}
		if d := c.findLocal(id.Name, visible); d != nil && !d.isParam {
			return lexpr{}, tyNone, unsupportedf("%s: receiver name `%s` is shadowed", c.at(x.Pos()), id.Name)
		}
		ft := c.pkg.fieldType(c.recvType, x.Sel.Name, 0)
		if ft == nil {
			return lexpr{}, tyNone, unsupportedf("%s: no field %s in %s", c.at(x.Pos()), x.Sel.Name, c.recvType)
		}
		t := tyOfTypeExpr(ft)
		if t == tyNone {
			return lexpr{}, tyNone, unsupportedf("%s: field %s has type %s", c.at(x.Pos()), x.Sel.Name, types.ExprString(ft))
		}
		if inLet && c.assigns[types.ExprString(x)] > 0 {
			return lexpr{}, tyNone, unsupportedf("%s: %s is read by an inlined local but assigned in the function", c.at(x.Pos()), types.ExprString(x))
		}
		return c.input(x.Sel.Name, t, "field", x.Pos())
	case *ast.IndexExpr:
		// a[<literal>] of an array-typed parameter
		id, ok := x.X.(*ast.Ident)
		v := constValue(x.Index)
		if !ok || v == nil {
			return lexpr{}, tyNone, unsupportedf("%s: index expression %s", c.at(x.Pos()), types.ExprString(x))
		}
		d := c.findLocal(id.Name, visible)
		if d == nil || !d.isParam {
			return lexpr{}, tyNone, unsupportedf("%s: %s is not an array parameter", c.at(x.Pos()), id.Name)
		}
		at, ok := d.ty.(*ast.ArrayType)
		if !ok || at.Len == nil || c.assigns[id.Name] > 0 {
			return lexpr{}, tyNone, unsupportedf("%s: %s is not an unmodified array parameter", c.at(x.Pos()), id.Name)
		}
		return c.input(id.Name+"_"+v.String(), tyOfTypeExpr(at.Elt), "elem", x.Pos())
	case *ast.BinaryExpr:
		return c.binary(x, visible, inLet)
	case *ast.CallExpr:
		return c.call(x, visible, inLet)
	case *ast.UnaryExpr:
		if x.Op == token.ADD {
			return c.expr(x.X, visible, inLet)
		}
		return lexpr{}, tyNone, unsupportedf("%s: unary operator %s", c.at(x.Pos()), x.Op)
	}
	return lexpr{}, tyNone, unsupportedf("%s: expression %s", c.at(e.Pos()), types.ExprString(e))
}

func (c *arithCtx) binary(x *ast.BinaryExpr, visible []ast.Node, inLet bool) (lexpr, goTy, error) {
	a, ta, err := c.expr(x.X, visible, inLet)
	if err != nil {
		return lexpr{}, tyNone, err
	}
	b, tb, err := c.expr(x.Y, visible, inLet)
	if err != nil {
		return lexpr{}, tyNone, err
	}
	pos := c.at(x.OpPos)
	switch x.Op {
	case token.SHL, token.SHR:
		if ta == tyUntyped {
			return lexpr{}, tyNone, unsupportedf("%s: shift of an untyped constant", pos)
		}
		if tb == tyUntyped {
			if b, err = c.typedConst(x.Y, tyUint); err != nil {
				return lexpr{}, tyNone, err
			}
		} else if tb.signed() {
			return lexpr{}, tyNone, unsupportedf("%s: signed shift count (%s)", pos, tb)
		}
		if x.Op == token.SHR {
			if ta.signed() {
				return lexpr{}, tyNone, unsupportedf("%s: >> on a signed operand (%s)", pos, ta)
			}
			return lexpr{"GoArith.goShr " + a.paren() + " " + b.paren(), false}, ta, nil
		}
		return truncTo(ta, lexpr{"GoArith.goShl " + a.paren() + " " + b.paren(), false}), ta, nil
	case token.ADD, token.SUB, token.MUL, token.QUO, token.REM, token.XOR, token.AND, token.OR, token.AND_NOT:
		if ta == tyUntyped && tb == tyUntyped {
			return lexpr{}, tyNone, unsupportedf("%s: constant expression %s", pos, types.ExprString(x))
		}
		if ta == tyUntyped {
			if a, err = c.typedConst(x.X, tb); err != nil {
				return lexpr{}, tyNone, err
			}
			ta = tb
		}
		if tb == tyUntyped {
			if b, err = c.typedConst(x.Y, ta); err != nil {
				return lexpr{}, tyNone, err
			}
			tb = ta
		}
		if ta != tb {
			return lexpr{}, tyNone, unsupportedf("%s: operand types %s and %s of %s differ (type inference of the translator is off)", pos, ta, tb, x.Op)
		}
		if ta.signed() && (x.Op == token.QUO || x.Op == token.REM) {
			return lexpr{}, tyNone, unsupportedf("%s: %s on signed operands (%s)", pos, x.Op, ta)
		}
		if x.Op == token.AND_NOT {
			return lexpr{a.paren() + " &&& (~~~ " + b.paren() + ")", false}, ta, nil
		}
		r := lexpr{a.paren() + " " + leanOp[x.Op] + " " + b.paren(), false}
		switch x.Op {
		case token.ADD, token.SUB, token.MUL:
			r = truncTo(ta, r)
		}
		return r, ta, nil
	}
	return lexpr{}, tyNone, unsupportedf("%s: operator %s", pos, x.Op)
}

func (c *arithCtx) call(x *ast.CallExpr, visible []ast.Node, inLet bool) (lexpr, goTy, error) {
	fun := types.ExprString(x.Fun)
	pos := c.at(x.Pos())
	// conversions
	if id, ok := x.Fun.(*ast.Ident); ok {
		if to, ok := goTyNames[id.Name]; ok {
			if len(x.Args) != 1 {
				return lexpr{}, tyNone, unsupportedf("%s: conversion %s with %d arguments", pos, fun, len(x.Args))
			}
			if c.findLocal(id.Name, visible) != nil {
				return lexpr{}, tyNone, unsupportedf("%s: `%s` is shadowed by a local", pos, id.Name)
			}
			if inner, ok := x.Args[0].(*ast.CallExpr); ok && to == tyU64 {
				if name, ok := c.spec.opaque[types.ExprString(inner.Fun)]; ok {
					return c.input(name, tyU64, "opaque "+fun+"("+types.ExprString(inner.Fun)+"(...))", x.Pos())
				}
			}
			a, ta, err := c.expr(x.Args[0], visible, inLet)
			if err != nil {
				return lexpr{}, tyNone, err
			}
			if ta == tyUntyped {
				a, err = c.typedConst(x.Args[0], to)
				return a, to, err
			}
			if to.width() < ta.width() {
				return truncTo(to, a), to, nil
			}
			return a, to, nil // widening of an unsigned value / same-width reinterpretation: same UInt64
		}
		if id.Name == "len" && len(x.Args) == 1 {
			if sel, ok := x.Args[0].(*ast.SelectorExpr); ok {
				if r, ok := sel.X.(*ast.Ident); ok && r.Name == c.recvName && c.recvName != "" && c.findLocal("len", visible) == nil {
					if c.pkg.fieldType(c.recvType, sel.Sel.Name, 0) == nil {
						return lexpr{}, tyNone, unsupportedf("%s: no field %s in %s", pos, sel.Sel.Name, c.recvType)
					}
					return c.input("len_"+sel.Sel.Name, tyInt, "len", x.Pos())
				}
			}
			return lexpr{}, tyNone, unsupportedf("%s: len of something that is not a receiver field", pos)
		}
	}
	if c.bitsName != "" && fun == c.bitsName+".LeadingZeros64" && len(x.Args) == 1 {
		a, ta, err := c.expr(x.Args[0], visible, inLet)
		if err != nil {
			return lexpr{}, tyNone, err
		}
		if ta != tyU64 {
			return lexpr{}, tyNone, unsupportedf("%s: argument of %s has type %s", pos, fun, ta)
		}
		return lexpr{"GoArith.clz64u " + a.paren(), false}, tyInt, nil
	}
	return lexpr{}, tyNone, unsupportedf("%s: call of %s", pos, fun)
}

// ---------------------------------------------------------------------------------------------

type kernelResult struct {
	spec  *kernelSpec
	def   string // Lean text of the definition ("" if unsupported)
	why   string
	where string
}

func (p *arithPkg) translate(spec *kernelSpec) kernelResult {
	res := kernelResult{spec: spec}
	fail := func(err error) kernelResult {
		res.why = err.Error()
		return res
	}
	file := p.files[spec.file]
	if file == nil {
		return fail(unsupportedf("file %s not found", spec.file))
	}
	var fd *ast.FuncDecl
	for _, d := range file.Decls {
		f, ok := d.(*ast.FuncDecl)
		if !ok || f.Name.Name != spec.fn || f.Body == nil {
			continue
		}
		recv := ""
		if f.Recv != nil && len(f.Recv.List) == 1 {
			recv = typeName(f.Recv.List[0].Type)
		}
		if recv == spec.recv {
			fd = f
		}
	}
	fnName := spec.fn
	if spec.recv != "" {
		fnName = spec.recv + "." + spec.fn
	}
	res.where = spec.file + ", " + fnName
	if fd == nil {
		return fail(unsupportedf("function %s not found in %s", fnName, spec.file))
	}
	c := &arithCtx{pkg: p, spec: spec, fd: fd, recvType: spec.recv, assigns: countAssignments(fd),
		inputTy: map[string]goTy{}, inputSrc: map[string]string{}, letTy: map[string]goTy{}, busy: map[string]bool{}, lines: map[int]bool{}}
	if fd.Recv != nil && len(fd.Recv.List[0].Names) == 1 {
		c.recvName = fd.Recv.List[0].Names[0].Name
	}
	for _, imp := range file.Imports {
		if path, _ := strconv.Unquote(imp.Path.Value); path == "math/bits" {
			c.bitsName = "bits"
			if imp.Name != nil {
				c.bitsName = imp.Name.Name
			}
		}
	}
	tgt, err := c.locate()
	if err != nil {
		return fail(err)
	}
	e := tgt.expr
	for _, u := range spec.unwrap {
		for {
			p, ok := e.(*ast.ParenExpr)
			if !ok {
				break
			}
			e = p.X
		}
		call, ok := e.(*ast.CallExpr)
		if !ok || types.ExprString(call.Fun) != u || len(call.Args) != 1 {
			return fail(unsupportedf("%s: expected a call %s(...) around the integer part, found %s", c.at(e.Pos()), u, types.ExprString(e)))
		}
		e = call.Args[0]
	}
	c.mark(tgt.node)
	body, ty, err := c.expr(e, tgt.visible, false)
	if err != nil {
		return fail(err)
	}
	if ty == tyUntyped {
		return fail(unsupportedf("%s: the kernel is a constant", c.at(e.Pos())))
	}

	var b strings.Builder
	var lines []int
	for l := range c.lines {
		lines = append(lines, l)
	}
	sort.Ints(lines)
	fmt.Fprintf(&b, "/-- %s", res.where)
	if spec.kind == tgtReturn {
		fmt.Fprintf(&b, ", result #%d", spec.index)
	} else if spec.kind == tgtArg {
		fmt.Fprintf(&b, ", argument #%d of %s", spec.index, spec.name)
	}
	if len(spec.unwrap) > 0 {
		fmt.Fprintf(&b, ", inside %s(...)", strings.Join(spec.unwrap, "("))
	}
	b.WriteString("\n")
	for _, l := range lines {
		fmt.Fprintf(&b, "    %s:%d: %s\n", spec.file, l, strings.ReplaceAll(strings.TrimSpace(p.src[spec.file][l-1]), "-/", "- /"))
	}
	b.WriteString("    inputs:")
	for i, prm := range spec.params {
		if i > 0 {
			b.WriteString(",")
		}
		if t, ok := c.inputTy[prm]; ok {
			fmt.Fprintf(&b, " %s %s (%s)", prm, t, c.inputSrc[prm])
		} else {
			fmt.Fprintf(&b, " %s (unused)", prm)
		}
	}
	fmt.Fprintf(&b, "; result type %s -/\n", ty)
	fmt.Fprintf(&b, "def %s (", spec.lean)
	for i, prm := range spec.params {
		if i > 0 {
			b.WriteString(" ")
		}
		b.WriteString(leanIdent(prm))
	}
	b.WriteString(" : UInt64) : UInt64 :=\n")
	for _, l := range c.lets {
		fmt.Fprintf(&b, "  let %s : UInt64 := %s\n", leanIdent(l.name), l.body.s)
	}
	fmt.Fprintf(&b, "  %s\n", body.s)
	res.def = b.String()
	return res
}

func genArith(repo string) (string, error) {
	p, err := loadArithPkg(repo)
	if err != nil {
		return "", err
	}
	var b strings.Builder
	b.WriteString("/- GENERATED by /verif/extract (arith.go) from /repo's current sources on every run. DO NOT EDIT.\n")
	b.WriteString("   The integer index / position arithmetic of the Go functions named in the comments, translated\n")
	b.WriteString("   expression by expression into `UInt64` (uint64 / uint / int / int64: the 64-bit pattern;\n")
	b.WriteString("   uint8 / uint16 / uint32: zero-extended).  Go shifts and bits.LeadingZeros64 are the functions of\n")
	b.WriteString("   Gostatix.Model.GoArith.  A kernel outside the supported subset has NO definition here, only a\n")
	b.WriteString("   comment and an entry in `unsupported`; Gostatix/Props/ArithTie.lean then fails to build. -/\n")
	b.WriteString("import Gostatix.Model.GoArith\n")
	b.WriteString("namespace Gostatix.Generated.Arith\n")
	b.WriteString("open Gostatix\n\n")
	var bad []kernelResult
	for i := range arithKernels {
		r := p.translate(&arithKernels[i])
		if r.def == "" {
			bad = append(bad, r)
			fmt.Fprintf(&b, "-- %s (%s): UNSUPPORTED, no definition emitted: %s\n\n", r.spec.lean, r.where, strings.ReplaceAll(r.why, "\n", " "))
			continue
		}
		b.WriteString(r.def)
		b.WriteString("\n")
	}
	b.WriteString("/-- the kernels the translator could not translate (name, reason) -/\n")
	b.WriteString("def unsupported : List (String × String) := [")
	for i, r := range bad {
		if i > 0 {
			b.WriteString(",")
		}
		fmt.Fprintf(&b, "\n  (%s, %s)", leanString(r.spec.lean), leanString(r.why))
	}
	if len(bad) > 0 {
		b.WriteString("\n")
	}
	b.WriteString("]\n\nend Gostatix.Generated.Arith\n")
	return b.String(), nil
}

func leanString(s string) string {
	var b strings.Builder
	b.WriteByte('"')
	for _, r := range s {
		switch r {
		case '"':
			b.WriteString("\\\"")
		case '\\':
			b.WriteString("\\\\")
		case '\n':
			b.WriteString("\\n")
		case '\t':
			b.WriteString("\\t")
		default:
			b.WriteRune(r)
		}
	}
	b.WriteByte('"')
	return b.String()
}
