package main

// Lua scripts: every `redis.NewScript(<string literal>)` of the non-test Go files of the
// repository root is parsed with the Lua parser of gopher-lua (the parser miniredis itself runs the
// scripts with) and printed as a Lean term of `Gostatix.Lua.Stmt` (lean/Gostatix/Model/Lua.lean).
// The output, Gostatix/Generated/LuaScripts.lean, is regenerated on every run: the Lean
// interpreter `Lua.run` therefore always executes the scripts the Go code currently contains.
//
// The translator is purely syntactic.  A construct outside the subset of Model/Lua.lean becomes an
// explicit `Stmt.unsupported "<why>"` / `Expr.unsupported "<why>"` node; nothing is guessed.

import (
	"crypto/sha1"
	"encoding/hex"
	"fmt"
	"go/ast"
	"go/parser"
	"go/token"
	"math/big"
	"os"
	"path/filepath"
	"regexp"
	"sort"
	"strconv"
	"strings"

	luaast "github.com/yuin/gopher-lua/ast"
	luaparse "github.com/yuin/gopher-lua/parse"
)

type luaScript struct {
	file    string // base name of the Go file
	fn      string // enclosing function, `Recv.name` for methods, "" at package level
	varName string // variable the script is assigned to, "" if none
	offset  int    // position in the file (ordering only)
	text    string // the script text, "" with ok == false if the argument is not a string literal
	ok      bool
	why     string
	lean    string // name of the generated definition
}

// goRedisName returns the local name under which the file imports go-redis ("" if it does not).
func goRedisName(f *ast.File) string {
	for _, imp := range f.Imports {
		path, err := strconv.Unquote(imp.Path.Value)
		if err != nil || !strings.Contains(path, "go-redis") {
			continue
		}
		if imp.Name != nil {
			return imp.Name.Name
		}
		return "redis"
	}
	return ""
}

func isNewScript(call *ast.CallExpr, pkg string) bool {
	sel, ok := call.Fun.(*ast.SelectorExpr)
	if !ok || sel.Sel.Name != "NewScript" {
		return false
	}
	x, ok := sel.X.(*ast.Ident)
	return ok && x.Name == pkg
}

func recvTypeName(fd *ast.FuncDecl) string {
	if fd.Recv == nil || len(fd.Recv.List) == 0 {
		return ""
	}
	return typeName(fd.Recv.List[0].Type)
}

func collectLuaScripts(repo string) ([]*luaScript, error) {
	entries, err := os.ReadDir(repo)
	if err != nil {
		return nil, err
	}
	var names []string
	for _, e := range entries {
		n := e.Name()
		if e.IsDir() || !strings.HasSuffix(n, ".go") || strings.HasSuffix(n, "_test.go") {
			continue
		}
		names = append(names, n)
	}
	sort.Strings(names)
	var out []*luaScript
	for _, n := range names {
		fset := token.NewFileSet()
		f, err := parser.ParseFile(fset, filepath.Join(repo, n), nil, 0)
		if err != nil {
			return nil, err
		}
		pkg := goRedisName(f)
		if pkg == "" {
			continue
		}
		scan := func(root ast.Node, fn string) {
			// variable names: `x := redis.NewScript(..)`, `x = ..`, `var x = ..`
			vars := map[*ast.CallExpr]string{}
			ast.Inspect(root, func(nd ast.Node) bool {
				switch s := nd.(type) {
				case *ast.AssignStmt:
					if len(s.Lhs) == len(s.Rhs) {
						for i, r := range s.Rhs {
							if c, ok := r.(*ast.CallExpr); ok && isNewScript(c, pkg) {
								if id, ok := s.Lhs[i].(*ast.Ident); ok {
									vars[c] = id.Name
								}
							}
						}
					}
				case *ast.ValueSpec:
					if len(s.Names) == len(s.Values) {
						for i, r := range s.Values {
							if c, ok := r.(*ast.CallExpr); ok && isNewScript(c, pkg) {
								vars[c] = s.Names[i].Name
							}
						}
					}
				}
				return true
			})
			ast.Inspect(root, func(nd ast.Node) bool {
				c, ok := nd.(*ast.CallExpr)
				if !ok || !isNewScript(c, pkg) {
					return true
				}
				sc := &luaScript{file: n, fn: fn, varName: vars[c], offset: fset.Position(c.Pos()).Offset}
				if len(c.Args) == 1 {
					if lit, ok := c.Args[0].(*ast.BasicLit); ok && lit.Kind == token.STRING {
						if s, err := strconv.Unquote(lit.Value); err == nil {
							sc.text, sc.ok = s, true
						} else {
							sc.why = "string literal cannot be unquoted"
						}
					} else {
						sc.why = "script text is not a string literal"
					}
				} else {
					sc.why = "NewScript with other than one argument"
				}
				out = append(out, sc)
				return true
			})
		}
		for _, d := range f.Decls {
			switch dd := d.(type) {
			case *ast.FuncDecl:
				fn := dd.Name.Name
				if r := recvTypeName(dd); r != "" {
					fn = r + "." + fn
				}
				scan(dd, fn)
			case *ast.GenDecl:
				scan(dd, "")
			}
		}
	}
	sort.SliceStable(out, func(i, j int) bool {
		if out[i].file != out[j].file {
			return out[i].file < out[j].file
		}
		return out[i].offset < out[j].offset
	})
	// names of the generated definitions: <file without .go>_<variable>, made unique
	used := map[string]int{}
	nonIdent := regexp.MustCompile(`[^A-Za-z0-9_]`)
	for i, sc := range out {
		v := sc.varName
		if v == "" {
			v = fmt.Sprintf("script%d", i+1)
		}
		name := nonIdent.ReplaceAllString(strings.TrimSuffix(sc.file, ".go")+"_"+v, "_")
		used[name]++
		if used[name] > 1 {
			name = fmt.Sprintf("%s_%d", name, used[name])
		}
		sc.lean = name
	}
	return out, nil
}

// ---------------------------------------------------------------------------------------------
// Lua AST -> Lean term

// leanStr prints a byte string as a Lean string literal whose characters are the bytes.
func leanStr(s string) string {
	var sb strings.Builder
	sb.WriteByte('"')
	for i := 0; i < len(s); i++ {
		b := s[i]
		switch {
		case b == '"':
			sb.WriteString(`\"`)
		case b == '\\':
			sb.WriteString(`\\`)
		case b >= 0x20 && b <= 0x7e:
			sb.WriteByte(b)
		default:
			fmt.Fprintf(&sb, `\x%02x`, b)
		}
	}
	sb.WriteByte('"')
	return sb.String()
}

func leanStrList(l []string) string {
	q := make([]string, len(l))
	for i, s := range l {
		q[i] = leanStr(s)
	}
	return "[" + strings.Join(q, ", ") + "]"
}

var plainNumber = regexp.MustCompile(`^(0|[1-9][0-9]*)$`)
var twoTo53 = new(big.Int).Lsh(big.NewInt(1), 53)

type luaPrinter struct {
	unsupported []string // reasons, for the header comment
	// alpha-normalisation: the k-th local declared by the script (textual order) is printed under the
	// k-th name of `canon` (lua_names.go: the names the locals had when the proofs were written), so
	// that renaming a Lua local in the Go sources does not change the generated term.  Scoping is
	// resolved here; if the canonical names would capture (two visible locals under one name, or a
	// local under the name of a global the script uses) the script is printed with its own names.
	canon    []string
	scopes   []map[string]string // source name -> printed name
	declared []string            // source names in declaration order (for -dump-lua-names)
	printed  []string
	capture  bool
}

var luaGlobals = map[string]bool{"KEYS": true, "ARGV": true, "redis": true, "tonumber": true, "tostring": true, "unpack": true,
	"ipairs": true, "pairs": true, "string": true, "math": true, "table": true, "type": true, "next": true, "select": true}

func (p *luaPrinter) push() { p.scopes = append(p.scopes, map[string]string{}) }
func (p *luaPrinter) pop()  { p.scopes = p.scopes[:len(p.scopes)-1] }

// bind declares a local and returns the name it is printed under
func (p *luaPrinter) bind(src string) string {
	name := src
	if k := len(p.declared); k < len(p.canon) {
		name = p.canon[k]
	}
	p.declared = append(p.declared, src)
	p.printed = append(p.printed, name)
	if luaGlobals[name] {
		p.capture = true
	}
	for _, sc := range p.scopes {
		for other, pn := range sc {
			if pn == name && other != src {
				p.capture = true
			}
		}
	}
	if len(p.scopes) == 0 {
		p.push()
	}
	p.scopes[len(p.scopes)-1][src] = name
	return name
}

func (p *luaPrinter) bindAll(names []string) []string {
	out := make([]string, len(names))
	for i, n := range names {
		out[i] = p.bind(n)
	}
	return out
}

// use resolves an identifier: a visible local is printed under its bound name, anything else is a global
func (p *luaPrinter) use(src string) string {
	for i := len(p.scopes) - 1; i >= 0; i-- {
		if n, ok := p.scopes[i][src]; ok {
			return n
		}
	}
	return src
}

func (p *luaPrinter) scopedBlock(stmts []luaast.Stmt, indent string) string {
	p.push()
	defer p.pop()
	return p.block(stmts, indent)
}

func (p *luaPrinter) unsupExpr(why string) string {
	p.unsupported = append(p.unsupported, why)
	return ".unsupported " + leanStr(why)
}

func (p *luaPrinter) unsupStmt(why string) string {
	p.unsupported = append(p.unsupported, why)
	return ".unsupported " + leanStr(why)
}

func paren(s string) string { return "(" + s + ")" }

var arithOps = map[string]string{"+": ".add", "-": ".sub", "*": ".mul", "/": ".div", "%": ".mod", "^": ".pow"}
var relOps = map[string]string{"==": ".eq", "~=": ".ne", "<": ".lt", "<=": ".le", ">": ".gt", ">=": ".ge"}
var logicOps = map[string]string{"and": ".and", "or": ".or"}

// fnRef recognises what a call expression calls: a name or `name.field`.
func fnRef(e luaast.Expr) (string, bool) {
	switch f := e.(type) {
	case *luaast.IdentExpr:
		return ".global " + leanStr(f.Value), true
	case *luaast.AttrGetExpr:
		obj, ok1 := f.Object.(*luaast.IdentExpr)
		key, ok2 := f.Key.(*luaast.StringExpr)
		if ok1 && ok2 {
			return ".field " + leanStr(obj.Value) + " " + leanStr(key.Value), true
		}
	}
	return "", false
}

func (p *luaPrinter) exprList(es []luaast.Expr) string {
	parts := make([]string, len(es))
	for i, e := range es {
		parts[i] = p.expr(e)
	}
	return "[" + strings.Join(parts, ", ") + "]"
}

// callParts returns the FnRef and argument list of a call, or why it is outside the subset.
func (p *luaPrinter) callParts(c *luaast.FuncCallExpr) (string, string, string) {
	if c.Receiver != nil || c.Method != "" {
		return "", "", "method call"
	}
	ref, ok := fnRef(c.Func)
	if !ok {
		return "", "", "call of a computed function"
	}
	return ref, p.exprList(c.Args), ""
}

func (p *luaPrinter) expr(e luaast.Expr) string {
	switch x := e.(type) {
	case *luaast.NilExpr:
		return ".litNil"
	case *luaast.TrueExpr:
		return ".litTrue"
	case *luaast.FalseExpr:
		return ".litFalse"
	case *luaast.NumberExpr:
		if plainNumber.MatchString(x.Value) {
			n, _ := new(big.Int).SetString(x.Value, 10)
			if n.Cmp(twoTo53) <= 0 {
				return ".num " + x.Value
			}
		}
		return p.unsupExpr("number literal " + x.Value)
	case *luaast.StringExpr:
		return ".str " + leanStr(x.Value)
	case *luaast.IdentExpr:
		return ".var " + leanStr(p.use(x.Value))
	case *luaast.AttrGetExpr:
		return ".index " + paren(p.expr(x.Object)) + " " + paren(p.expr(x.Key))
	case *luaast.TableExpr:
		vals := make([]luaast.Expr, 0, len(x.Fields))
		for _, f := range x.Fields {
			if f.Key != nil {
				return p.unsupExpr("table constructor with keys")
			}
			vals = append(vals, f.Value)
		}
		return ".table " + p.exprList(vals)
	case *luaast.FuncCallExpr:
		ref, args, why := p.callParts(x)
		if why != "" {
			return p.unsupExpr(why)
		}
		s := ".call " + paren(ref) + " " + args
		if x.AdjustRet {
			return ".paren " + paren(s)
		}
		return s
	case *luaast.LogicalOpExpr:
		if op, ok := logicOps[x.Operator]; ok {
			return ".binop " + op + " " + paren(p.expr(x.Lhs)) + " " + paren(p.expr(x.Rhs))
		}
		return p.unsupExpr("logical operator " + x.Operator)
	case *luaast.RelationalOpExpr:
		if op, ok := relOps[x.Operator]; ok {
			return ".binop " + op + " " + paren(p.expr(x.Lhs)) + " " + paren(p.expr(x.Rhs))
		}
		return p.unsupExpr("relational operator " + x.Operator)
	case *luaast.StringConcatOpExpr:
		return ".binop .concat " + paren(p.expr(x.Lhs)) + " " + paren(p.expr(x.Rhs))
	case *luaast.ArithmeticOpExpr:
		if op, ok := arithOps[x.Operator]; ok {
			return ".binop " + op + " " + paren(p.expr(x.Lhs)) + " " + paren(p.expr(x.Rhs))
		}
		return p.unsupExpr("arithmetic operator " + x.Operator)
	case *luaast.UnaryMinusOpExpr:
		return ".unop .neg " + paren(p.expr(x.Expr))
	case *luaast.UnaryNotOpExpr:
		return ".unop .not " + paren(p.expr(x.Expr))
	case *luaast.UnaryLenOpExpr:
		return ".unop .len " + paren(p.expr(x.Expr))
	case *luaast.Comma3Expr:
		return p.unsupExpr("vararg expression")
	case *luaast.FunctionExpr:
		return p.unsupExpr("function expression")
	}
	return p.unsupExpr(fmt.Sprintf("expression %T", e))
}

func (p *luaPrinter) block(stmts []luaast.Stmt, indent string) string {
	if len(stmts) == 0 {
		return "[]"
	}
	var sb strings.Builder
	sb.WriteString("[\n")
	for i, s := range stmts {
		sb.WriteString(indent + "  " + p.stmt(s, indent+"  "))
		if i < len(stmts)-1 {
			sb.WriteByte(',')
		}
		sb.WriteByte('\n')
	}
	sb.WriteString(indent + "]")
	return sb.String()
}

func (p *luaPrinter) stmt(s luaast.Stmt, indent string) string {
	switch x := s.(type) {
	case *luaast.LocalAssignStmt:
		exprs := p.exprList(x.Exprs) // `local x = x` reads the OUTER x: expressions first
		return ".localDecl " + leanStrList(p.bindAll(x.Names)) + " " + exprs
	case *luaast.AssignStmt:
		if len(x.Lhs) != 1 || len(x.Rhs) != 1 {
			return p.unsupStmt("multiple assignment")
		}
		switch x.Lhs[0].(type) {
		case *luaast.IdentExpr, *luaast.AttrGetExpr:
			return ".assign " + paren(p.expr(x.Lhs[0])) + " " + paren(p.expr(x.Rhs[0]))
		}
		return p.unsupStmt("assignment target")
	case *luaast.FuncCallStmt:
		c, ok := x.Expr.(*luaast.FuncCallExpr)
		if !ok {
			return p.unsupStmt("call statement")
		}
		ref, args, why := p.callParts(c)
		if why != "" {
			return p.unsupStmt(why)
		}
		return ".callStmt " + paren(ref) + " " + args
	case *luaast.IfStmt:
		cond := paren(p.expr(x.Condition))
		return ".ifThen " + cond + " " + p.scopedBlock(x.Then, indent) + " " + p.scopedBlock(x.Else, indent)
	case *luaast.NumberForStmt:
		step := "none"
		if x.Step != nil {
			step = paren("some " + paren(p.expr(x.Step)))
		}
		init, limit := paren(p.expr(x.Init)), paren(p.expr(x.Limit))
		p.push()
		defer p.pop()
		return ".numFor " + leanStr(p.bind(x.Name)) + " " + init + " " + limit + " " + step + " " + p.block(x.Stmts, indent)
	case *luaast.GenericForStmt:
		if len(x.Exprs) == 1 && len(x.Names) >= 1 {
			if c, ok := x.Exprs[0].(*luaast.FuncCallExpr); ok && c.Receiver == nil && len(c.Args) == 1 {
				if id, ok := c.Func.(*luaast.IdentExpr); ok && id.Value == "ipairs" {
					arg := paren(p.expr(c.Args[0]))
					p.push()
					defer p.pop()
					return ".ipairsFor " + leanStrList(p.bindAll(x.Names)) + " " + arg + " " + p.block(x.Stmts, indent)
				}
			}
		}
		return p.unsupStmt("generic for other than `in ipairs(t)`")
	case *luaast.ReturnStmt:
		return ".ret " + p.exprList(x.Exprs)
	case *luaast.DoBlockStmt:
		return p.unsupStmt("do block")
	case *luaast.WhileStmt:
		return p.unsupStmt("while loop")
	case *luaast.RepeatStmt:
		return p.unsupStmt("repeat loop")
	case *luaast.FuncDefStmt:
		return p.unsupStmt("function definition")
	case *luaast.BreakStmt:
		return p.unsupStmt("break")
	case *luaast.LabelStmt:
		return p.unsupStmt("label")
	case *luaast.GotoStmt:
		return p.unsupStmt("goto")
	}
	return p.unsupStmt(fmt.Sprintf("statement %T", s))
}

// luaDeclared: source names of the locals of every script, in declaration order (-dump-lua-names)
var luaDeclared = map[string][]string{}

func genLuaScripts(repo string) (string, error) {
	scripts, err := collectLuaScripts(repo)
	if err != nil {
		return "", err
	}
	var sb strings.Builder
	sb.WriteString("/- GENERATED by /verif/extract (lua.go) from /repo's current sources on every run. DO NOT EDIT.\n")
	sb.WriteString("   Every `redis.NewScript(<literal>)` of the non-test Go files, parsed with gopher-lua's parser\n")
	sb.WriteString("   and printed as a term of `Gostatix.Lua.Stmt`; `sha1` is the SHA-1 of the script text (EVALSHA). -/\n")
	sb.WriteString("import Gostatix.Model.Lua\n")
	sb.WriteString("namespace Gostatix.Generated.LuaScripts\n")
	sb.WriteString("open Gostatix.Lua\n\n")
	// Names of the generated definitions.  collectLuaScripts named every script after the Go variable
	// that holds it; the proofs mention these names, so a script is first looked up by its SHAPE (the
	// term printed with positional names for its locals, per file): renaming the Go variable, renaming
	// Lua locals or hoisting the script into a package-level variable then keeps the name.
	luaShapes = map[string]string{}
	taken := map[string]bool{}
	for _, sc := range scripts {
		if !sc.ok {
			continue
		}
		chunk, err := luaparse.Parse(strings.NewReader(sc.text), sc.lean)
		if err != nil {
			continue
		}
		pp := &luaPrinter{canon: luaPositional}
		body := pp.scopedBlock(chunk, "")
		if pp.capture {
			continue
		}
		sum := sha1.Sum([]byte(body))
		key := sc.file + "|" + hex.EncodeToString(sum[:])
		luaShapes[key] = sc.lean
		if canon, ok := luaShapeNames[key]; ok && !taken[canon] {
			sc.lean = canon
		}
		taken[sc.lean] = true
	}
	for _, sc := range scripts {
		p := &luaPrinter{}
		var body string
		sha := ""
		if !sc.ok {
			body = "[\n  " + p.unsupStmt(sc.why) + "\n]"
		} else {
			sum := sha1.Sum([]byte(sc.text))
			sha = hex.EncodeToString(sum[:])
			chunk, err := luaparse.Parse(strings.NewReader(sc.text), sc.lean)
			if err != nil {
				msg := strings.Join(strings.Fields(err.Error()), " ")
				body = "[\n  " + p.unsupStmt("lua parse error: "+msg) + "\n]"
			} else {
				p.canon = luaCanonNames[sc.lean]
				body = p.scopedBlock(chunk, "")
				if p.capture {
					// the canonical names do not fit this script any more: print it as written
					p = &luaPrinter{}
					body = p.scopedBlock(chunk, "")
				}
				luaDeclared[sc.lean] = p.declared
			}
		}
		fmt.Fprintf(&sb, "/-- %s, %s, variable `%s`", sc.file, orDash(sc.fn), orDash(sc.varName))
		if len(p.unsupported) > 0 {
			fmt.Fprintf(&sb, "; outside the subset: %s", strings.ReplaceAll(strings.Join(p.unsupported, "; "), "-/", "- /"))
		}
		sb.WriteString(" -/\n")
		fmt.Fprintf(&sb, "def %s : Block := %s\n\n", sc.lean, body)
		sc.text = sha // keep only the hash from here on
	}
	sb.WriteString("def all : List ScriptInfo := [\n")
	for i, sc := range scripts {
		fmt.Fprintf(&sb, "  { name := %s, file := %s, func := %s, sha1 := %s, ast := %s }",
			leanStr(sc.lean), leanStr(sc.file), leanStr(sc.fn), leanStr(sc.text), sc.lean)
		if i < len(scripts)-1 {
			sb.WriteByte(',')
		}
		sb.WriteByte('\n')
	}
	sb.WriteString("]\n\nend Gostatix.Generated.LuaScripts\n")
	return sb.String(), nil
}

// luaShapes: shape key -> name, of the last run (for -dump-lua-shapes)
var luaShapes map[string]string

// luaPositional: names for the k-th declared local of a script when computing its shape
var luaPositional = func() []string {
	out := make([]string, 96)
	for i := range out {
		out[i] = fmt.Sprintf("l%d_", i+1)
	}
	return out
}()

func orDash(s string) string {
	if s == "" {
		return "-"
	}
	return strings.ReplaceAll(s, "-/", "- /")
}
