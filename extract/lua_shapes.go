package main

// luaShapeNames: see genLuaScripts.  Regenerate with `gsextract -repo /repo -dump-lua-shapes > lua_shapes.go`
// ONLY when the committed names are the ones the proofs mention.
var luaShapeNames = map[string]string{
	"bucket_redis.go|646ea1d8dd2c1acd7427677ecf94df2a2087434e":           "bucket_redis_equals",
	"bucket_redis.go|8c91d6cb55bfc9f17a3bb3589f653766f12df173":           "bucket_redis_exists",
	"bucket_redis.go|b15dfe150df2c9558d14956e0c455fc8fa7302a5":           "bucket_redis_isFreeScript",
	"bucket_redis.go|ce77a8cc08f26472fc4639f1f8015e0c7637bc1f":           "bucket_redis_addElement",
	"bucket_redis.go|ec56bdcc59d7dd50d0dd969791b918e999ee837b":           "bucket_redis_removeElement",
	"count_min_sketch_redis.go|1507a92a82f20a4fd1b16deb88285017bbd72009": "count_min_sketch_redis_updateLists",
	"count_min_sketch_redis.go|366ec035b03f019716f311d9b46b998d21690c01": "count_min_sketch_redis_initMatrixRedis",
	"count_min_sketch_redis.go|539384263dd49250f80ad693b6872fb2072e4716": "count_min_sketch_redis_mergeMatrixScript",
	"count_min_sketch_redis.go|79f48961e6b64dd2ec83ef47287d26164760f997": "count_min_sketch_redis_setMatrixScript",
	"count_min_sketch_redis.go|813cc27f58a1fda9210f8655ca25909f3ee7b333": "count_min_sketch_redis_compareMatrixScript",
	"count_min_sketch_redis.go|b48829a8a3cba5d83fc45c9fd55b7607cfa62e53": "count_min_sketch_redis_countLists",
	"count_min_sketch_redis.go|d751847883c8b45c26798247355c29e6c00da4af": "count_min_sketch_redis_fetchMatrixAsTable",
	"cuckoo_filter_redis.go|d444a8897e6be59e999d1a4c6b65ea7bfb677481":    "cuckoo_filter_redis_initCuckooFilterRedis",
	"hyperloglog_redis.go|1c7395b78093ba3a0b63415ca40a217a705f11e5":      "hyperloglog_redis_mergeRegistersScript",
	"hyperloglog_redis.go|aa9d65cf978544f1c3be66f3b7436dc9543cae28":      "hyperloglog_redis_initList",
	"hyperloglog_redis.go|abf2bcc9b7da7c0d06a27a0e3abd80515a5f1cba":      "hyperloglog_redis_updateList",
	"hyperloglog_redis.go|d6dbe917c119e63464561796edac32885c29f027":      "hyperloglog_redis_importRegistersScript",
	"hyperloglog_redis.go|dd9080d7b67baa66739aeb6ffe06fd5cccb4dfb9":      "hyperloglog_redis_equals",
	"hyperloglog_redis.go|e836f12e3e0e7e458dc85805d14b5bf15e1c256e":      "hyperloglog_redis_harmonicMeanScript",
	"top_k_redis.go|b0cdd7f489258434c112b7941d31ad21c484e497":            "top_k_redis_equals",
	"top_k_redis.go|dad503fcae4cc1d8eb7ffc06f9af9a3eefd3ba7d":            "top_k_redis_importHeapScript",
}
