package main

// luaCanonNames: see luaPrinter.canon.  Regenerate with `gsextract -repo /repo -dump-lua-names`
// ONLY together with the proofs in lean/Gostatix/Proofs/Lua*.lean, which mention these names.
var luaCanonNames = map[string][]string{
	"bucket_redis_addElement":                    {"key", "lenKey", "bucketLength", "size", "element", "pos"},
	"bucket_redis_equals":                        {"key1", "key2", "size", "vals1", "vals2", "i"},
	"bucket_redis_exists":                        {"key", "element", "pos"},
	"bucket_redis_isFreeScript":                  {"key", "lenKey", "bucketLength", "size"},
	"bucket_redis_removeElement":                 {"key", "lenKey", "element", "pos"},
	"count_min_sketch_redis_compareMatrixScript": {"key1", "key2", "rows", "columns", "i", "rowKey1", "vals1", "rowKey2", "vals2", "j"},
	"count_min_sketch_redis_countLists":          {"size", "cmsKey", "min", "i", "row", "column", "val", "count"},
	"count_min_sketch_redis_fetchMatrixAsTable":  {"key", "size", "matrix", "i", "rowKey", "values", "j", "v"},
	"count_min_sketch_redis_initMatrixRedis":     {"key", "rows", "columns", "i", "rowKey", "list", "j"},
	"count_min_sketch_redis_mergeMatrixScript":   {"key1", "key2", "rows", "columns", "i", "rowKey1", "vals1", "rowKey2", "vals2", "vals3", "j"},
	"count_min_sketch_redis_setMatrixScript":     {"key", "columns", "index", "rows", "i", "row", "rowKey", "j"},
	"count_min_sketch_redis_updateLists":         {"size", "cmsKey", "count", "i", "row", "column", "val"},
	"cuckoo_filter_redis_initCuckooFilterRedis":  {"key", "size", "bucketSize", "i"},
	"hyperloglog_redis_equals":                   {"key1", "key2", "size", "vals1", "vals2", "i"},
	"hyperloglog_redis_harmonicMeanScript":       {"key", "size", "hmean", "values", "i", "value"},
	"hyperloglog_redis_importRegistersScript":    {"key", "size", "registers", "i"},
	"hyperloglog_redis_initList":                 {"key", "size", "registers", "i"},
	"hyperloglog_redis_mergeRegistersScript":     {"key1", "key2", "size", "vals1", "vals2", "i"},
	"hyperloglog_redis_updateList":               {"key", "index", "val", "count"},
	"top_k_redis_equals":                         {"key1", "key2", "size", "vals1", "vals2", "i"},
	"top_k_redis_importHeapScript":               {"key", "vals2", "i", "element", "score"},
}
