package main

import (
	"fmt"
	"go/ast"
	"go/parser"
	"go/token"
	"os"
	"path/filepath"
	"sort"
	"strings"
)

// ---------------------------------------------------------------------------------------------
// Lock table (C07): for every method of the five in-memory types, which accesses to mutable
// state it makes and whether they are dominated by Lock()/RLock() on that instance's mutex.
// The extractor is syntactic and answers `unknown` (-> guarded := false) for shapes it does not
// understand; it never guesses in favour of the code.
// The same file carries a second table, `sectionTable` (see "Section table" below): the ordered list
// of the critical sections every method consists of.

var memTypes = map[string][]string{ // type -> mutable fields
	"BloomFilter":    {"filter"},
	"CuckooFilter":   {"buckets", "length"},
	"CountMinSketch": {"matrix", "allSum"},
	"HyperLogLog":    {"registers"},
	"TopK":           {"heap", "sketch"},
}

// methods outside the property's call classes (constructors are functions, not methods)
var exemptMethods = map[string]bool{"Import": true, "ReadFrom": true, "Equals": true, "GetBitSet": true}

var writerCalls = map[string]bool{"add": true, "remove": true, "set": true, "unSet": true, "swap": true,
	"insert": true, "insertMulti": true, "unmarshal": true, "readFrom": true,
	"Update": true, "UpdateOnce": true, "UpdateString": true, "Push": true, "Pop": true, "Remove": true, "Fix": true, "Init": true}

type access struct {
	recv    string // identifier the access goes through
	write   bool
	guarded bool
	excl    bool
}

type methodInfo struct {
	typ, name string
	recvName  string
	params    map[string]string // ident -> mem type, for the receiver and parameters of mem types
	accesses  []access
	unknown   bool
	calls     []helperCall // calls to other methods of mem types through tracked identifiers
	selfLocks bool
	// an Unlock/RUnlock below the top level of the body ("explicit Unlock before every return"): this
	// walk shares one lock state between the branches and cannot follow it; the accesses are judged as
	// if the Unlock were not there, and the verdict is left to the path-sensitive section analysis
	// below (guarded only if that analysis understands the method and finds no access outside a section)
	nestedUnlock bool
	decl         *ast.FuncDecl  // for the section analysis (secAnalysis below)
	pos          token.Position // position of the declaration
}

type helperCall struct {
	recv    string
	typ     string
	method  string
	guarded bool
	excl    bool
}

func typeName(e ast.Expr) string {
	switch t := e.(type) {
	case *ast.StarExpr:
		return typeName(t.X)
	case *ast.Ident:
		return t.Name
	}
	return ""
}

// The instance mutex is identified by its declared TYPE, not by its name: the one field of the struct
// declared as sync.Mutex / sync.RWMutex / pointer to either (collectStructs).  A struct of the five
// with no such field, with several, or with an embedded (nameless) one is not understood: every method
// of that type is `unknown` in both tables.
var (
	mutexFieldOf = map[string]string{} // mem type -> name of its mutex field
	mutexNames   = map[string]bool{}   // the names above (for instances whose type is not known)
	mutexProblem = map[string]string{} // mem type -> why its mutex field is not understood
)

// isMutexField: is `field` the mutex field of an instance of type typ ("" = type not known)
func isMutexField(typ, field string) bool {
	if typ != "" {
		return mutexFieldOf[typ] != "" && mutexFieldOf[typ] == field
	}
	return mutexNames[field]
}

// lockCall recognises X.<mutex>.Lock() / RLock() / Unlock() / RUnlock(); returns (X, op)
func (m *methodInfo) lockCall(e ast.Expr) (string, string) {
	call, ok := e.(*ast.CallExpr)
	if !ok {
		return "", ""
	}
	sel, ok := call.Fun.(*ast.SelectorExpr)
	if !ok {
		return "", ""
	}
	inner, ok := sel.X.(*ast.SelectorExpr)
	if !ok {
		return "", ""
	}
	id, ok := inner.X.(*ast.Ident)
	if !ok || !isMutexField(m.params[id.Name], inner.Sel.Name) {
		return "", ""
	}
	switch sel.Sel.Name {
	case "Lock", "RLock", "Unlock", "RUnlock":
		return id.Name, sel.Sel.Name
	}
	return "", ""
}

type lockState struct {
	held map[string]string // ident -> "Lock" | "RLock"
}

func (m *methodInfo) isMutableSel(e ast.Expr) (string, bool) {
	sel, ok := e.(*ast.SelectorExpr)
	if !ok {
		return "", false
	}
	id, ok := sel.X.(*ast.Ident)
	if !ok {
		return "", false
	}
	typ, ok := m.params[id.Name]
	if !ok {
		return "", false
	}
	for _, f := range memTypes[typ] {
		if sel.Sel.Name == f {
			return id.Name, true
		}
	}
	return "", false
}

// scanExpr records the accesses inside an expression / simple statement
func (m *methodInfo) scan(n ast.Node, st *lockState, lhsWrite bool) {
	if n == nil {
		return
	}
	ast.Inspect(n, func(x ast.Node) bool {
		switch v := x.(type) {
		case *ast.FuncLit:
			// closures passed to a call (sort.Slice comparators) run synchronously in place;
			// `go` statements are rejected in walk()
			return true
		case *ast.CallExpr:
			if id, op := m.lockCall(v); id != "" {
				_ = op
				m.unknown = true // lock operation in an unexpected position
				return false
			}
			if sel, ok := v.Fun.(*ast.SelectorExpr); ok {
				// method call through a tracked identifier: X.helper(...)
				if id, ok := sel.X.(*ast.Ident); ok {
					if typ, tracked := m.params[id.Name]; tracked {
						mode, held := st.held[id.Name]
						m.calls = append(m.calls, helperCall{id.Name, typ, sel.Sel.Name, held, mode == "Lock"})
					}
				}
				// call on a mutable field: X.filter.insert(...), X.buckets[i].add(...), heap.Push(&X.heap, ..)
				w := writerCalls[sel.Sel.Name]
				base := sel.X
				for {
					if ix, ok := base.(*ast.IndexExpr); ok {
						base = ix.X
						continue
					}
					break
				}
				if id, ok := m.isMutableSel(base); ok {
					mode, held := st.held[id]
					m.accesses = append(m.accesses, access{id, w, held, mode == "Lock"})
				}
				if w {
					for _, a := range v.Args {
						arg := a
						if u, ok := arg.(*ast.UnaryExpr); ok {
							arg = u.X
						}
						if id, ok := m.isMutableSel(arg); ok {
							mode, held := st.held[id]
							m.accesses = append(m.accesses, access{id, true, held, mode == "Lock"})
						}
					}
				}
			}
		case *ast.SelectorExpr:
			if id, ok := m.isMutableSel(v); ok {
				typ := m.params[id]
				if typ == "BloomFilter" {
					// the interface value itself is only assigned by Import/ReadFrom (exempt); the bits
					// behind it are reached through method calls (handled above)
					return true
				}
				mode, held := st.held[id]
				m.accesses = append(m.accesses, access{id, lhsWrite, held, mode == "Lock"})
			}
		}
		return true
	})
}

func (m *methodInfo) isLockIf(s *ast.IfStmt) (string, string, bool) {
	// if <cond> { X.<mutex>.Lock(); defer X.<mutex>.Unlock() }
	if s.Else != nil || s.Init != nil || len(s.Body.List) != 2 {
		return "", "", false
	}
	es, ok := s.Body.List[0].(*ast.ExprStmt)
	if !ok {
		return "", "", false
	}
	id, op := m.lockCall(es.X)
	if id == "" || (op != "Lock" && op != "RLock") {
		return "", "", false
	}
	ds, ok := s.Body.List[1].(*ast.DeferStmt)
	if !ok {
		return "", "", false
	}
	id2, op2 := m.lockCall(ds.Call)
	if id2 != id || !strings.HasSuffix(op2, "Unlock") {
		return "", "", false
	}
	return id, op, true
}

func (m *methodInfo) walk(stmts []ast.Stmt, st *lockState, top bool) {
	for _, s := range stmts {
		switch v := s.(type) {
		case *ast.ExprStmt:
			if id, op := m.lockCall(v.X); id != "" {
				if !top {
					if strings.HasSuffix(op, "Unlock") {
						if _, held := st.held[id]; held {
							m.nestedUnlock = true
							continue
						}
					}
					m.unknown = true
					continue
				}
				switch op {
				case "Lock", "RLock":
					st.held[id] = op
					if id == m.recvName {
						m.selfLocks = true
					}
				default:
					delete(st.held, id)
				}
				continue
			}
			m.scan(v.X, st, false)
		case *ast.DeferStmt:
			if id, op := m.lockCall(v.Call); id != "" && strings.HasSuffix(op, "Unlock") {
				if _, held := st.held[id]; !held || !top {
					m.unknown = true
				}
				continue // stays held until the function returns
			}
			m.scan(v.Call, st, false)
		case *ast.IfStmt:
			if id, op, ok := m.isLockIf(v); ok && top {
				st.held[id] = op
				if id == m.recvName {
					m.selfLocks = true
				}
				continue
			}
			m.scan(v.Init, st, false)
			m.scan(v.Cond, st, false)
			m.walk(v.Body.List, st, false)
			if v.Else != nil {
				if b, ok := v.Else.(*ast.BlockStmt); ok {
					m.walk(b.List, st, false)
				} else {
					m.walk([]ast.Stmt{v.Else}, st, false)
				}
			}
		case *ast.ForStmt:
			m.scan(v.Init, st, false)
			m.scan(v.Cond, st, false)
			m.scan(v.Post, st, false)
			m.walk(v.Body.List, st, false)
		case *ast.RangeStmt:
			m.scan(v.X, st, false)
			m.walk(v.Body.List, st, false)
		case *ast.BlockStmt:
			m.walk(v.List, st, false)
		case *ast.AssignStmt:
			for _, l := range v.Lhs {
				m.scan(l, st, true)
			}
			for _, r := range v.Rhs {
				m.scan(r, st, false)
			}
		case *ast.IncDecStmt:
			m.scan(v.X, st, true)
		case *ast.SwitchStmt, *ast.TypeSwitchStmt, *ast.SelectStmt, *ast.GoStmt:
			m.unknown = true
		default:
			m.scan(s, st, false)
		}
	}
}

func collectMethods(repo string) ([]*methodInfo, error) {
	ms, _, err := collectMethodsAndFacts(repo)
	return ms, err
}

func collectMethodsAndFacts(repo string) ([]*methodInfo, *repoFacts, error) {
	fset := token.NewFileSet()
	files, _ := filepath.Glob(filepath.Join(repo, "*.go"))
	sort.Strings(files)
	var out []*methodInfo
	facts := &repoFacts{fset: fset, fieldTypes: map[string]map[string]string{}, lockingFuncs: map[string]bool{}, lockingForeignMethods: map[string]bool{}}
	var parsed []*ast.File
	for _, f := range files {
		if strings.HasSuffix(f, "_test.go") || strings.HasPrefix(filepath.Base(f), "verif_") {
			continue
		}
		af, err := parser.ParseFile(fset, f, nil, 0)
		if err != nil {
			return nil, nil, err
		}
		parsed = append(parsed, af)
	}
	// the struct declarations first (mutex field by declared type, fields of the five types), then the
	// functions that mention a lock, then the methods: a method may precede its struct, in another file
	mutexFieldOf, mutexNames, mutexProblem = map[string]string{}, map[string]bool{}, map[string]string{}
	for _, af := range parsed {
		facts.collectStructs(af)
	}
	for t := range memTypes {
		if _, ok := facts.fieldTypes[t]; !ok {
			mutexProblem[t] = "struct declaration not found"
		}
	}
	for _, af := range parsed {
		facts.collect(af)
	}
	for _, af := range parsed {
		for _, d := range af.Decls {
			fd, ok := d.(*ast.FuncDecl)
			if !ok || fd.Recv == nil || len(fd.Recv.List) == 0 || fd.Body == nil {
				continue
			}
			rt := typeName(fd.Recv.List[0].Type)
			if _, ok := memTypes[rt]; !ok {
				continue
			}
			m := &methodInfo{typ: rt, name: fd.Name.Name, params: map[string]string{}, decl: fd, pos: fset.Position(fd.Pos())}
			if len(fd.Recv.List[0].Names) > 0 {
				m.recvName = fd.Recv.List[0].Names[0].Name
				m.params[m.recvName] = rt
			}
			for _, p := range fd.Type.Params.List {
				pt := typeName(p.Type)
				if _, ok := memTypes[pt]; ok {
					for _, n := range p.Names {
						m.params[n.Name] = pt
					}
				}
			}
			m.walk(fd.Body.List, &lockState{held: map[string]string{}}, true)
			if mutexProblem[rt] != "" {
				m.unknown = true
			}
			out = append(out, m)
		}
	}
	sort.Slice(out, func(i, j int) bool {
		if out[i].typ != out[j].typ {
			return out[i].typ < out[j].typ
		}
		return out[i].name < out[j].name
	})
	return out, facts, nil
}

func leanBool(b bool) string {
	if b {
		return "true"
	}
	return "false"
}

func genLockTable(repo string) (string, error) {
	ms, facts, err := collectMethodsAndFacts(repo)
	if err != nil {
		return "", err
	}
	byKey := map[string]*methodInfo{}
	for _, m := range ms {
		byKey[m.typ+"."+m.name] = m
	}
	// a helper is a method that touches mutable state without taking the lock itself: its accesses
	// are charged to every call site (transitively, 3 rounds)
	for round := 0; round < 3; round++ {
		for _, m := range ms {
			for _, hc := range m.calls {
				h := byKey[hc.typ+"."+hc.method]
				if h == nil || exemptMethods[h.name] || (h.selfLocks && ast.IsExported(h.name)) {
					continue
				}
				for _, a := range h.accesses {
					if a.recv != h.recvName {
						continue
					}
					if h.selfLocks {
						// an UNEXPORTED method that takes the lock of its receiver itself (a phase of the caller
						// moved into a helper): its accesses are the caller's, guarded the way the helper guards them
						m.accesses = append(m.accesses, access{hc.recv, a.write, a.guarded, a.excl})
						continue
					}
					m.accesses = append(m.accesses, access{hc.recv, a.write, hc.guarded, hc.excl})
				}
				if h.unknown {
					m.unknown = true
				}
				if h.nestedUnlock {
					m.nestedUnlock = true
				}
			}
		}
		for _, m := range ms { // avoid unbounded duplication
			if len(m.accesses) > 400 {
				m.accesses = m.accesses[:400]
			}
		}
	}
	secs := analyseSections(ms, byKey, facts)
	var sb strings.Builder
	sb.WriteString("/- GENERATED by /verif/extract from /repo's current sources on every run. DO NOT EDIT. -/\n")
	sb.WriteString("import Gostatix.Model.Conc\nimport Gostatix.Model.Sections\nnamespace Gostatix.Generated\nopen Gostatix.Conc\n\n")
	sb.WriteString("def lockTable : List MethodFact := [\n")
	first := true
	for mi, m := range ms {
		touches, writes, guarded, excl := false, false, true, true
		for _, a := range m.accesses {
			touches = true
			if a.write {
				writes = true
			}
			if !a.guarded {
				guarded = false
			}
			if !a.excl {
				excl = false
			}
		}
		if m.unknown {
			guarded = false
		}
		if m.nestedUnlock && (secs[mi].unknown || secs[mi].anyBare()) {
			guarded = false
		}
		helper := touches && !m.selfLocks && !ast.IsExported(m.name)
		exempt := exemptMethods[m.name] || helper
		if !first {
			sb.WriteString(",\n")
		}
		first = false
		fmt.Fprintf(&sb, "  { typ := %q, method := %q, touchesMutable := %s, writesMutable := %s, guarded := %s, exclusive := %s, exempt := %s }",
			m.typ, m.name, leanBool(touches), leanBool(writes), leanBool(guarded && touches), leanBool(excl && touches), leanBool(exempt))
	}
	sb.WriteString("\n]\n\n")
	writeSectionTable(&sb, secs)
	sb.WriteString("\nend Gostatix.Generated\n")
	return sb.String(), nil
}

// ---------------------------------------------------------------------------------------------
// Section table (C07Sections): for every method of the five in-memory types, the ORDERED list of
// the critical sections it consists of.  The lock table above answers "is every access guarded";
// this one answers "how many critical sections is one call made of, on which instances, in which
// order, nested or one after the other".  Same rules: syntactic, path-insensitive wherever the
// paths disagree, and `sectionsUnknown` for every shape that is not listed here:
//
//   `X.lock` below stands for X.<the mutex field of X's type>: the one field declared sync.Mutex /
//   sync.RWMutex / pointer to either, whatever its name (collectStructs; a struct of the five with none,
//   several or an embedded one makes every method of the type unknown).
//
//   understood
//     X.lock.Lock() / X.lock.RLock()        as a statement of the function body itself (not inside
//                                           a branch, a loop, a block or a closure)
//     X.lock.Unlock() / X.lock.RUnlock()    as a statement anywhere, when it closes a section this
//                                           method opened on X with the matching mode and every path
//                                           agrees on what is held wherever paths join
//     defer X.lock.Unlock() / RUnlock()     as a statement of the function body, for a section that
//                                           is open: the section lasts until the function returns
//     if c { X.lock.Lock(); defer X.lock.Unlock() }   (exactly this) as a statement of the function
//                                           body: a CONDITIONAL section that lasts until the return
//     return / panic(..) / end of body      every section still open must be a deferred one
//     X.M(..)                               M a method of the five types that takes locks itself
//                                           (directly or through such calls): one item `call`, a
//                                           section of the callee's instance, not expanded
//     X.h(..)                               h a method of the five types that takes no lock: its
//                                           accesses are charged to the section open on X here
//     X.p(..)                               p an UNEXPORTED method that takes locks itself, called as a
//                                           statement / in an expression of the function body: expanded
//                                           in place - p's sections become sections of the caller, on X
//                                           for p's receiver, on the argument for p's parameters (a phase
//                                           of the caller moved into a private method)
//   X is the receiver (`recv`), a parameter (`arg`), recv.f for a field f whose type is one of the
//   five types or a local `a := recv.f` (`field`), anything else (`other`).
//
//   unknown (refused)
//     Lock/RLock inside a branch, a loop, a block, a closure, a defer, a go statement; a second Lock
//     on an instance already held; Unlock of something this method does not hold, with the wrong
//     mode, or already deferred; paths that join holding different locks (if without else that
//     unlocks, loop body that unlocks and continues, break/continue holding less than at loop
//     entry); return / panic / fall-through with a not-deferred section still open ("unlock missing
//     on a path"); any other mention of a `.lock` field (address taken, passed to a helper, method
//     value, closure); switch / select / go / goto / labels; a deferred call that touches the
//     tracked state or calls a method of the five types; a call to a function or foreign method of
//     the package whose body mentions a lock; an instance of the five types handed to a function
//     that is not a method of the five types; a call to a locking method outside every section from
//     inside a branch or loop (the number of sections would depend on the path); a re-assigned
//     alias; an unexported locking helper called inside a branch / loop, recursively, or locking an
//     instance the caller already holds.

type repoFacts struct {
	fset                  *token.FileSet
	fieldTypes            map[string]map[string]string // mem type -> field -> mem type (pointer or value)
	lockingFuncs          map[string]bool              // package-level functions whose body mentions a lock
	lockingForeignMethods map[string]bool              // methods of other types whose body mentions a lock
}

func mentionsLock(n ast.Node) bool {
	found := false
	ast.Inspect(n, func(x ast.Node) bool {
		if sel, ok := x.(*ast.SelectorExpr); ok {
			switch sel.Sel.Name {
			case "Lock", "RLock", "Unlock", "RUnlock", "TryLock", "TryRLock":
				found = true
			}
			if mutexNames[sel.Sel.Name] {
				found = true
			}
		}
		return !found
	})
	return found
}

// isMutexType: sync.Mutex / sync.RWMutex / pointer to either (`sync` under whatever name the file imports it)
func isMutexType(e ast.Expr, syncName string) bool {
	if st, ok := e.(*ast.StarExpr); ok {
		e = st.X
	}
	if p, ok := e.(*ast.ParenExpr); ok {
		e = p.X
	}
	sel, ok := e.(*ast.SelectorExpr)
	if !ok {
		return false
	}
	pkg, ok := sel.X.(*ast.Ident)
	return ok && pkg.Name == syncName && (sel.Sel.Name == "Mutex" || sel.Sel.Name == "RWMutex")
}

func (rf *repoFacts) collectStructs(af *ast.File) {
	syncName := ""
	for _, im := range af.Imports {
		if im.Path.Value == `"sync"` {
			syncName = "sync"
			if im.Name != nil {
				syncName = im.Name.Name
			}
		}
	}
	for _, d := range af.Decls {
		switch v := d.(type) {
		case *ast.GenDecl:
			for _, sp := range v.Specs {
				ts, ok := sp.(*ast.TypeSpec)
				if !ok {
					continue
				}
				st, ok := ts.Type.(*ast.StructType)
				if !ok {
					continue
				}
				if _, ok := memTypes[ts.Name.Name]; !ok {
					continue
				}
				ft := map[string]string{}
				var mutexes []string
				for _, f := range st.Fields.List {
					if syncName != "" && syncName != "_" && syncName != "." && isMutexType(f.Type, syncName) {
						if len(f.Names) == 0 {
							mutexes = append(mutexes, "(embedded)")
						}
						for _, n := range f.Names {
							mutexes = append(mutexes, n.Name)
						}
					}
					tn := typeName(f.Type)
					if _, ok := memTypes[tn]; ok {
						for _, n := range f.Names {
							ft[n.Name] = tn
						}
					}
				}
				rf.fieldTypes[ts.Name.Name] = ft
				switch {
				case len(mutexes) == 0:
					mutexProblem[ts.Name.Name] = "no field of type sync.Mutex / sync.RWMutex"
				case len(mutexes) > 1:
					mutexProblem[ts.Name.Name] = "several mutex fields: " + strings.Join(mutexes, ", ")
				case mutexes[0] == "(embedded)":
					mutexProblem[ts.Name.Name] = "embedded mutex"
				default:
					mutexFieldOf[ts.Name.Name] = mutexes[0]
					mutexNames[mutexes[0]] = true
				}
			}
		}
	}
}

func (rf *repoFacts) collect(af *ast.File) {
	for _, d := range af.Decls {
		switch v := d.(type) {
		case *ast.FuncDecl:
			if v.Body == nil || !mentionsLock(v.Body) {
				continue
			}
			if v.Recv == nil || len(v.Recv.List) == 0 {
				rf.lockingFuncs[v.Name.Name] = true
			} else if _, ok := memTypes[typeName(v.Recv.List[0].Type)]; !ok {
				rf.lockingForeignMethods[v.Name.Name] = true
			}
		}
	}
}

// instRef names the instance a lock / call / access goes through
type instRef struct {
	key  string // canonical expression, e.g. "t", "t.sketch"
	kind string // recv | arg | field | other
	name string // parameter name, field name, or the expression for `other`
	typ  string // mem type of the instance, "" when it is none of the five
}

func (r instRef) lean() string {
	switch r.kind {
	case "recv":
		return ".recv"
	case "arg":
		return fmt.Sprintf(".arg %q", r.name)
	case "field":
		return fmt.Sprintf(".field %q", r.name)
	}
	return fmt.Sprintf(".other %q", r.name)
}

func (r instRef) show() string {
	switch r.kind {
	case "recv":
		return "recv"
	case "arg":
		return "arg:" + r.name
	case "field":
		return "field:" + r.name
	}
	return "other"
}

type secItem struct {
	inst        instRef
	mode        string // W | R | call
	callee      string // method name for mode call (the type is inst.typ)
	nested      bool   // starts while an earlier section of this method is still held
	outer       *secItem
	seq         bool // released before the next item of the list starts
	reads       bool
	writes      bool
	conditional bool
	deferred    bool
	depth       int // statement nesting depth where it starts (calls only)
	pos         token.Position
	endPos      token.Position // first explicit release seen
	args        []ast.Expr     // call arguments (calls only)
	held        pstate         // the sections held when this one starts, outermost first
	via         string         // set on sections that were expanded from a private locking helper
}

type rw struct{ r, w bool }

type secAnalysis struct {
	m        *methodInfo
	facts    *repoFacts
	byKey    map[string]*methodInfo
	params   []string          // parameter names in order
	paramTyp map[string]string // every parameter -> mem type or ""
	alias    map[string]instRef
	items    []*secItem
	bare     map[string]*rw // instance key -> accesses outside every section on that instance
	unknown  bool
	why      []string
	locking  bool
	// items with the calls of unexported locking methods replaced by those methods' own sections
	expanded     []*secItem
	expandedDone bool
}

func (sa *secAnalysis) anyBare() bool {
	for _, b := range sa.bare {
		if b.r || b.w {
			return true
		}
	}
	return false
}

func (sa *secAnalysis) refuse(pos token.Pos, format string, a ...interface{}) {
	sa.unknown = true
	p := sa.facts.fset.Position(pos)
	w := fmt.Sprintf("%s:%d %s", filepath.Base(p.Filename), p.Line, fmt.Sprintf(format, a...))
	for _, x := range sa.why {
		if x == w {
			return
		}
	}
	sa.why = append(sa.why, w)
}

func exprString(e ast.Expr) string {
	switch v := e.(type) {
	case *ast.Ident:
		return v.Name
	case *ast.SelectorExpr:
		return exprString(v.X) + "." + v.Sel.Name
	case *ast.ParenExpr:
		return exprString(v.X)
	case *ast.StarExpr:
		return "*" + exprString(v.X)
	case *ast.UnaryExpr:
		return v.Op.String() + exprString(v.X)
	case *ast.IndexExpr:
		return exprString(v.X) + "[..]"
	case *ast.CallExpr:
		return exprString(v.Fun) + "(..)"
	}
	return "?"
}

// resolve maps an expression to the instance it denotes (receiver, parameter, recv.f, alias)
func (sa *secAnalysis) resolve(e ast.Expr) (instRef, bool) {
	switch v := e.(type) {
	case *ast.ParenExpr:
		return sa.resolve(v.X)
	case *ast.StarExpr:
		return sa.resolve(v.X)
	case *ast.UnaryExpr:
		if v.Op == token.AND {
			return sa.resolve(v.X)
		}
	case *ast.Ident:
		if r, ok := sa.alias[v.Name]; ok {
			return r, true
		}
		if v.Name != "" && v.Name == sa.m.recvName {
			return instRef{v.Name, "recv", "", sa.m.typ}, true
		}
		if t, ok := sa.paramTyp[v.Name]; ok {
			return instRef{v.Name, "arg", v.Name, t}, true
		}
	case *ast.SelectorExpr:
		base, ok := sa.resolve(v.X)
		if ok && base.typ != "" {
			if ft, ok := sa.facts.fieldTypes[base.typ][v.Sel.Name]; ok {
				key := base.key + "." + v.Sel.Name
				if base.kind == "recv" {
					return instRef{key, "field", v.Sel.Name, ft}, true
				}
				return instRef{key, "other", key, ft}, true
			}
		}
	}
	return instRef{}, false
}

// isMutexSel: E.<name> where <name> is the mutex field of E's type (or, for an E whose type is not
// known, the mutex field name of any of the five types)
func (sa *secAnalysis) isMutexSel(v *ast.SelectorExpr) bool {
	if r, ok := sa.resolve(v.X); ok {
		return isMutexField(r.typ, v.Sel.Name)
	}
	return mutexNames[v.Sel.Name]
}

// lockOp recognises E.<mutex>.Lock() / RLock() / Unlock() / RUnlock() for an arbitrary E
func (sa *secAnalysis) lockOp(e ast.Expr) (instRef, string, bool) {
	call, ok := e.(*ast.CallExpr)
	if !ok || len(call.Args) != 0 {
		return instRef{}, "", false
	}
	sel, ok := call.Fun.(*ast.SelectorExpr)
	if !ok {
		return instRef{}, "", false
	}
	inner, ok := sel.X.(*ast.SelectorExpr)
	if !ok {
		return instRef{}, "", false
	}
	switch sel.Sel.Name {
	case "Lock", "RLock", "Unlock", "RUnlock":
	default:
		return instRef{}, "", false
	}
	r, ok := sa.resolve(inner.X)
	if !ok {
		s := exprString(inner.X)
		r = instRef{s, "other", s, ""}
	}
	if !isMutexField(r.typ, inner.Sel.Name) {
		return instRef{}, "", false
	}
	return r, sel.Sel.Name, true
}

// path state: the sections held, outermost first
type pstate []*secItem

func (p pstate) clone() pstate { return append(pstate(nil), p...) }
func (p pstate) equal(q pstate) bool {
	if len(p) != len(q) {
		return false
	}
	for i := range p {
		if p[i] != q[i] {
			return false
		}
	}
	return true
}
func (p pstate) on(key string) *secItem {
	for i := len(p) - 1; i >= 0; i-- {
		if p[i].inst.key == key {
			return p[i]
		}
	}
	return nil
}
func (p pstate) innermost() *secItem {
	if len(p) == 0 {
		return nil
	}
	return p[len(p)-1]
}
func (p pstate) without(it *secItem) pstate {
	var q pstate
	for _, x := range p {
		if x != it {
			q = append(q, x)
		}
	}
	return q
}
func (p pstate) allDeferred() bool {
	for _, x := range p {
		if !x.deferred {
			return false
		}
	}
	return true
}

type walkCtx struct {
	depth     int
	loopEntry []pstate
}

func (sa *secAnalysis) touch(st pstate, key string, write bool) {
	if s := st.on(key); s != nil {
		if write {
			s.writes = true
		} else {
			s.reads = true
		}
		return
	}
	b := sa.bare[key]
	if b == nil {
		b = &rw{}
		sa.bare[key] = b
	}
	if write {
		b.w = true
	} else {
		b.r = true
	}
}

// scanNode records, for an expression or a statement without lock operations of its own, the
// accesses to tracked mutable state, the calls to methods of the five types, and everything that
// makes the shape not understood
func (sa *secAnalysis) scanNode(n ast.Node, st pstate, ctx walkCtx, lhsWrite bool) {
	if n == nil {
		return
	}
	// accesses: the legacy scanner, on a scratch record
	tmp := &methodInfo{typ: sa.m.typ, name: sa.m.name, recvName: sa.m.recvName, params: sa.m.params}
	tmp.scan(n, &lockState{held: map[string]string{}}, lhsWrite)
	if tmp.unknown {
		sa.refuse(n.Pos(), "lock operation in an unexpected position")
	}
	for _, a := range tmp.accesses {
		sa.touch(st, a.recv, a.write)
	}
	ast.Inspect(n, func(x ast.Node) bool {
		switch v := x.(type) {
		case *ast.SelectorExpr:
			if sa.isMutexSel(v) {
				sa.refuse(v.Pos(), "mutex %s used outside a Lock/Unlock statement", exprString(v))
			}
		case *ast.GoStmt:
			sa.refuse(v.Pos(), "go statement")
		case *ast.CallExpr:
			if id, ok := v.Fun.(*ast.Ident); ok && sa.facts.lockingFuncs[id.Name] {
				sa.refuse(v.Pos(), "call of %s, whose body mentions a lock", id.Name)
			}
			isMemCall := false
			if sel, ok := v.Fun.(*ast.SelectorExpr); ok {
				if r, ok := sa.resolve(sel.X); ok && r.typ != "" {
					if _, ok := sa.byKey[r.typ+"."+sel.Sel.Name]; ok {
						isMemCall = true
						it := &secItem{inst: r, mode: "call", callee: sel.Sel.Name, pos: sa.facts.fset.Position(v.Pos()),
							depth: ctx.depth, args: v.Args, held: st.clone(), outer: st.innermost()}
						it.nested = it.outer != nil
						sa.items = append(sa.items, it)
					}
				}
				if !isMemCall && sa.facts.lockingForeignMethods[sel.Sel.Name] {
					sa.refuse(v.Pos(), "call of a method %s whose body mentions a lock", sel.Sel.Name)
				}
			}
			if !isMemCall {
				for _, a := range v.Args {
					if r, ok := sa.resolve(a); ok && r.typ != "" {
						sa.refuse(a.Pos(), "instance %s handed to %s", exprString(a), exprString(v.Fun))
					}
				}
			}
		}
		return true
	})
}

func isPanicCall(e ast.Expr) bool {
	call, ok := e.(*ast.CallExpr)
	if !ok {
		return false
	}
	id, ok := call.Fun.(*ast.Ident)
	return ok && id.Name == "panic"
}

func (sa *secAnalysis) openSection(st pstate, r instRef, op string, pos token.Pos) pstate {
	if st.on(r.key) != nil {
		sa.refuse(pos, "%s locked while this method already holds it", r.key)
	}
	it := &secItem{inst: r, mode: map[string]string{"Lock": "W", "RLock": "R"}[op], pos: sa.facts.fset.Position(pos), outer: st.innermost(), held: st.clone()}
	it.nested = it.outer != nil
	sa.items = append(sa.items, it)
	return append(st.clone(), it)
}

func (sa *secAnalysis) closeSection(st pstate, r instRef, op string, pos token.Pos) pstate {
	s := st.on(r.key)
	if s == nil {
		sa.refuse(pos, "%s of %s, which this method does not hold here", op, r.key)
		return st
	}
	if s.deferred {
		sa.refuse(pos, "%s of %s, whose release is already deferred", op, r.key)
		return st
	}
	if (s.mode == "W") != (op == "Unlock") {
		sa.refuse(pos, "%s closes a section opened in the other mode", op)
	}
	if s.endPos.Line == 0 {
		s.endPos = sa.facts.fset.Position(pos)
	}
	return st.without(s)
}

// isLockIfGen: if <cond> { X.lock.Lock(); defer X.lock.Unlock() }
func (sa *secAnalysis) isLockIfGen(s *ast.IfStmt) (instRef, string, bool) {
	if s.Else != nil || s.Init != nil || len(s.Body.List) != 2 {
		return instRef{}, "", false
	}
	es, ok := s.Body.List[0].(*ast.ExprStmt)
	if !ok {
		return instRef{}, "", false
	}
	r, op, ok := sa.lockOp(es.X)
	if !ok || (op != "Lock" && op != "RLock") {
		return instRef{}, "", false
	}
	ds, ok := s.Body.List[1].(*ast.DeferStmt)
	if !ok {
		return instRef{}, "", false
	}
	r2, op2, ok := sa.lockOp(ds.Call)
	if !ok || r2.key != r.key || (op == "Lock") != (op2 == "Unlock") || (op == "RLock") != (op2 == "RUnlock") {
		return instRef{}, "", false
	}
	return r, op, true
}

// walk returns the path state after the statements and whether every path through them left
// the enclosing block (return, panic, break, continue)
func (sa *secAnalysis) walk(stmts []ast.Stmt, st pstate, ctx walkCtx) (pstate, bool) {
	for _, s := range stmts {
		switch v := s.(type) {
		case *ast.ExprStmt:
			if r, op, ok := sa.lockOp(v.X); ok {
				switch op {
				case "Lock", "RLock":
					if ctx.depth > 0 {
						sa.refuse(v.Pos(), "%s taken inside a branch, loop or block", op)
					}
					st = sa.openSection(st, r, op, v.Pos())
				default:
					st = sa.closeSection(st, r, op, v.Pos())
				}
				continue
			}
			sa.scanNode(v.X, st, ctx, false)
			if isPanicCall(v.X) {
				if !st.allDeferred() {
					sa.refuse(v.Pos(), "panic with a lock held whose release is not deferred")
				}
				return st, true
			}
		case *ast.DeferStmt:
			if r, op, ok := sa.lockOp(v.Call); ok {
				sec := st.on(r.key)
				switch {
				case op == "Lock" || op == "RLock":
					sa.refuse(v.Pos(), "deferred %s", op)
				case ctx.depth > 0:
					sa.refuse(v.Pos(), "deferred %s inside a branch, loop or block", op)
				case sec == nil:
					sa.refuse(v.Pos(), "deferred %s of %s, which is not held here", op, r.key)
				case sec.deferred:
					sa.refuse(v.Pos(), "second deferred release of %s", r.key)
				default:
					if (sec.mode == "W") != (op == "Unlock") {
						sa.refuse(v.Pos(), "deferred %s closes a section opened in the other mode", op)
					}
					sec.deferred = true
				}
				continue
			}
			before := len(sa.items)
			probe := &methodInfo{typ: sa.m.typ, name: sa.m.name, recvName: sa.m.recvName, params: sa.m.params}
			probe.scan(v.Call, &lockState{held: map[string]string{}}, false)
			sa.scanNode(v.Call, st, ctx, false)
			if len(probe.accesses) > 0 || len(sa.items) != before {
				sa.refuse(v.Pos(), "deferred call touches tracked state or calls a method of the five types")
			}
		case *ast.IfStmt:
			if r, op, ok := sa.isLockIfGen(v); ok && ctx.depth == 0 {
				sa.scanNode(v.Cond, st, ctx, false)
				st = sa.openSection(st, r, op, v.Body.List[0].Pos())
				sec := st.innermost()
				sec.conditional = true
				sec.deferred = true
				continue
			}
			if v.Init != nil {
				sa.walkSimple(v.Init, st, ctx)
			}
			sa.scanNode(v.Cond, st, ctx, false)
			inner := walkCtx{ctx.depth + 1, ctx.loopEntry}
			var ends []pstate
			if e, term := sa.walk(v.Body.List, st.clone(), inner); !term {
				ends = append(ends, e)
			}
			switch e := v.Else.(type) {
			case nil:
				ends = append(ends, st)
			case *ast.BlockStmt:
				if e2, term := sa.walk(e.List, st.clone(), inner); !term {
					ends = append(ends, e2)
				}
			default:
				if e2, term := sa.walk([]ast.Stmt{e}, st.clone(), inner); !term {
					ends = append(ends, e2)
				}
			}
			if len(ends) == 0 {
				return st, true
			}
			for _, e := range ends[1:] {
				if !e.equal(ends[0]) {
					sa.refuse(v.Pos(), "the branches of this if join holding different locks")
					break
				}
			}
			st = ends[0]
		case *ast.ForStmt:
			if v.Init != nil {
				sa.walkSimple(v.Init, st, ctx)
			}
			if v.Cond != nil {
				sa.scanNode(v.Cond, st, ctx, false)
			}
			if v.Post != nil {
				sa.walkSimple(v.Post, st, ctx)
			}
			sa.walkLoopBody(v.Body.List, st, ctx, v.Pos())
		case *ast.RangeStmt:
			if v.Key != nil {
				sa.scanNode(v.Key, st, ctx, true)
			}
			if v.Value != nil {
				sa.scanNode(v.Value, st, ctx, true)
			}
			sa.scanNode(v.X, st, ctx, false)
			sa.walkLoopBody(v.Body.List, st, ctx, v.Pos())
		case *ast.BlockStmt:
			e, term := sa.walk(v.List, st.clone(), walkCtx{ctx.depth + 1, ctx.loopEntry})
			if term {
				return e, true
			}
			st = e
		case *ast.ReturnStmt:
			for _, r := range v.Results {
				sa.scanNode(r, st, ctx, false)
			}
			if !st.allDeferred() {
				sa.refuse(v.Pos(), "return with a lock held whose release is not deferred (unlock missing on this path)")
			}
			return st, true
		case *ast.BranchStmt:
			if v.Label != nil || (v.Tok != token.BREAK && v.Tok != token.CONTINUE) || len(ctx.loopEntry) == 0 {
				sa.refuse(v.Pos(), "%s", v.Tok.String())
			} else if !st.equal(ctx.loopEntry[len(ctx.loopEntry)-1]) {
				sa.refuse(v.Pos(), "%s holding other locks than at loop entry", v.Tok.String())
			}
			return st, true
		case *ast.SwitchStmt, *ast.TypeSwitchStmt, *ast.SelectStmt, *ast.GoStmt, *ast.LabeledStmt:
			sa.refuse(s.Pos(), "statement kind not analysed (switch / select / go / label)")
			sa.scanNode(s, st, ctx, false)
		default:
			sa.walkSimple(s, st, ctx)
		}
	}
	return st, false
}

func (sa *secAnalysis) walkLoopBody(body []ast.Stmt, st pstate, ctx walkCtx, pos token.Pos) {
	inner := walkCtx{ctx.depth + 1, append(append([]pstate(nil), ctx.loopEntry...), st)}
	if e, term := sa.walk(body, st.clone(), inner); !term && !e.equal(st) {
		sa.refuse(pos, "loop body ends holding other locks than at loop entry")
	}
}

// walkSimple: assignments, inc/dec, declarations, sends, expression statements without lock calls
func (sa *secAnalysis) walkSimple(s ast.Stmt, st pstate, ctx walkCtx) {
	switch v := s.(type) {
	case *ast.AssignStmt:
		for _, l := range v.Lhs {
			if id, ok := l.(*ast.Ident); ok {
				if _, isAlias := sa.alias[id.Name]; isAlias {
					sa.refuse(v.Pos(), "alias %s assigned again", id.Name)
				}
				if id.Name == sa.m.recvName || sa.paramTyp[id.Name] != "" {
					sa.refuse(v.Pos(), "%s assigned", id.Name)
				}
			}
			sa.scanNode(l, st, ctx, true)
		}
		for _, r := range v.Rhs {
			sa.scanNode(r, st, ctx, false)
		}
		if len(v.Lhs) == 1 && len(v.Rhs) == 1 {
			if id, ok := v.Lhs[0].(*ast.Ident); ok && id.Name != "_" {
				if r, ok := sa.resolve(v.Rhs[0]); ok && r.typ != "" {
					if v.Tok == token.DEFINE && ctx.depth == 0 {
						sa.alias[id.Name] = r
					} else {
						sa.refuse(v.Pos(), "instance %s stored in %s", exprString(v.Rhs[0]), id.Name)
					}
				}
			}
		}
	case *ast.IncDecStmt:
		sa.scanNode(v.X, st, ctx, true)
	case *ast.ExprStmt:
		sa.scanNode(v.X, st, ctx, false)
	default:
		sa.scanNode(s, st, ctx, false)
	}
}

func (sa *secAnalysis) run() {
	fd := sa.m.decl
	for _, p := range fd.Type.Params.List {
		pt := typeName(p.Type)
		if _, ok := memTypes[pt]; !ok {
			pt = ""
		}
		for _, n := range p.Names {
			sa.params = append(sa.params, n.Name)
			sa.paramTyp[n.Name] = pt
		}
	}
	if why := mutexProblem[sa.m.typ]; why != "" {
		sa.refuse(fd.Pos(), "mutex field of %s not understood: %s", sa.m.typ, why)
	}
	st, term := sa.walk(fd.Body.List, nil, walkCtx{})
	if !term && !st.allDeferred() {
		sa.refuse(fd.Body.Rbrace, "end of body with a lock held whose release is not deferred")
	}
}

func analyseSections(ms []*methodInfo, byKey map[string]*methodInfo, facts *repoFacts) []*secAnalysis {
	var all []*secAnalysis
	bySa := map[string]*secAnalysis{}
	for _, m := range ms {
		sa := &secAnalysis{m: m, facts: facts, byKey: byKey, paramTyp: map[string]string{}, alias: map[string]instRef{}, bare: map[string]*rw{}}
		sa.run()
		all = append(all, sa)
		bySa[m.typ+"."+m.name] = sa
	}
	// which methods take locks themselves (directly, or by calling such a method)
	for _, sa := range all {
		for _, it := range sa.items {
			if it.mode != "call" {
				sa.locking = true
			}
		}
	}
	for changed := true; changed; {
		changed = false
		for _, sa := range all {
			if sa.locking {
				continue
			}
			for _, it := range sa.items {
				if it.mode == "call" && bySa[it.inst.typ+"."+it.callee].locking {
					sa.locking, changed = true, true
				}
			}
		}
	}
	// calls of methods that take no lock are not sections: their accesses (all of them outside any
	// section of their own) are charged to the section open on the instance at the call, or to `bare`
	for round := 0; round < 4; round++ {
		for _, sa := range all {
			for _, it := range sa.items {
				if it.mode != "call" {
					continue
				}
				h := bySa[it.inst.typ+"."+it.callee]
				if h.locking && !h.expandable() {
					continue
				}
				if h.unknown && !sa.unknown {
					sa.unknown = true
					sa.why = append(sa.why, fmt.Sprintf("%s:%d calls %s.%s, which is not understood", filepath.Base(it.pos.Filename), it.pos.Line, h.m.typ, h.m.name))
				}
				keys := make([]string, 0, len(h.bare))
				for k := range h.bare {
					keys = append(keys, k)
				}
				sort.Strings(keys)
				for _, k := range keys {
					acc := h.bare[k]
					var target instRef
					ok := false
					if k == h.m.recvName {
						target, ok = it.inst, true
					} else {
						for i, pn := range h.params {
							if pn == k && i < len(it.args) {
								target, ok = sa.resolve(it.args[i])
							}
						}
					}
					if !ok {
						// state reached through something the call site cannot name: charge it to the call's instance, unguarded
						b := sa.bare["?"+it.inst.key]
						if b == nil {
							b = &rw{}
							sa.bare["?"+it.inst.key] = b
						}
						b.r, b.w = b.r || acc.r, b.w || acc.w
						continue
					}
					// the section that was open on the target when the call was made
					if sec := it.held.on(target.key); sec != nil {
						sec.reads, sec.writes = sec.reads || acc.r, sec.writes || acc.w
					} else {
						b := sa.bare[target.key]
						if b == nil {
							b = &rw{}
							sa.bare[target.key] = b
						}
						b.r, b.w = b.r || acc.r, b.w || acc.w
					}
				}
			}
		}
	}
	// keep the calls of locking methods as items, drop the others
	for _, sa := range all {
		var kept []*secItem
		for _, it := range sa.items {
			if it.mode == "call" {
				if !bySa[it.inst.typ+"."+it.callee].locking {
					continue
				}
				if it.outer == nil && it.depth > 0 {
					sa.unknown = true
					sa.why = append(sa.why, fmt.Sprintf("%s:%d call of the locking method %s.%s outside every section from inside a branch or loop", filepath.Base(it.pos.Filename), it.pos.Line, it.inst.typ, it.callee))
				}
			}
			kept = append(kept, it)
		}
		sa.items = kept
	}
	// calls of UNEXPORTED locking methods are expanded in place: the helper's sections become sections of
	// the caller, on the instance the helper was called on / was handed (a phase of the caller that was
	// moved into a private method, e.g. "lock the argument, copy, unlock")
	for _, sa := range all {
		sa.expand(bySa, map[*secAnalysis]bool{})
	}
	for _, sa := range all {
		sa.items = sa.expanded
		// seq: released before the next item starts <=> the next item does not start inside it
		for i, it := range sa.items {
			it.seq = true
			if i+1 < len(sa.items) {
				for _, o := range sa.items[i+1].held {
					if o == it {
						it.seq = false
					}
				}
			}
		}
	}
	return all
}

// expandable: an unexported method that takes locks itself
func (sa *secAnalysis) expandable() bool { return sa.locking && !ast.IsExported(sa.m.name) }

// mapInst: an instance named in the frame of the callee h, renamed into the frame of the caller sa
func (sa *secAnalysis) mapInst(h *secAnalysis, r instRef, call *secItem) instRef {
	switch r.kind {
	case "recv":
		return call.inst
	case "arg":
		for i, pn := range h.params {
			if pn == r.name && i < len(call.args) {
				if t, ok := sa.resolve(call.args[i]); ok {
					return t
				}
				s := exprString(call.args[i])
				return instRef{"?" + s, "other", s, r.typ}
			}
		}
	case "field":
		if call.inst.kind == "recv" {
			return instRef{call.inst.key + "." + r.name, "field", r.name, r.typ}
		}
		k := call.inst.key + "." + r.name
		return instRef{k, "other", k, r.typ}
	}
	return instRef{"?" + h.m.name + ":" + r.key, "other", r.name, r.typ}
}

func (sa *secAnalysis) expand(bySa map[string]*secAnalysis, visiting map[*secAnalysis]bool) {
	if sa.expandedDone {
		return
	}
	visiting[sa] = true
	var out []*secItem
	for _, it := range sa.items {
		var h *secAnalysis
		if it.mode == "call" {
			h = bySa[it.inst.typ+"."+it.callee]
		}
		if h == nil || !h.expandable() {
			out = append(out, it)
			continue
		}
		where := fmt.Sprintf("%s:%d", filepath.Base(it.pos.Filename), it.pos.Line)
		if visiting[h] {
			sa.unknown = true
			sa.why = append(sa.why, where+" recursive call of the locking helper "+h.m.name)
			out = append(out, it)
			continue
		}
		h.expand(bySa, visiting)
		if it.depth > 0 {
			sa.unknown = true
			sa.why = append(sa.why, where+" locking helper "+h.m.name+" called inside a branch, loop or block")
		}
		if h.unknown && !sa.unknown {
			sa.unknown = true
			sa.why = append(sa.why, where+" calls "+h.m.typ+"."+h.m.name+", which is not understood")
		}
		copyOf := map[*secItem]*secItem{}
		for _, hi := range h.expanded {
			c := *hi
			c.inst = sa.mapInst(h, hi.inst, it)
			c.held = it.held.clone()
			for _, o := range hi.held {
				if oc := copyOf[o]; oc != nil {
					c.held = append(c.held, oc)
				}
			}
			if c.mode != "call" && c.held.on(c.inst.key) != nil {
				sa.unknown = true
				sa.why = append(sa.why, where+" "+h.m.name+" locks "+c.inst.key+", which is already held here")
			}
			c.outer = c.held.innermost()
			c.nested = c.outer != nil
			if c.via == "" {
				c.via = h.m.typ + "." + h.m.name + ", called at " + where
			} else {
				c.via += " <- " + h.m.name + ", called at " + where
			}
			copyOf[hi] = &c
			out = append(out, &c)
		}
	}
	delete(visiting, sa)
	sa.expanded, sa.expandedDone = out, true
}

func mutexShown(typ string) string {
	if n := mutexFieldOf[typ]; n != "" {
		return n
	}
	return "<mutex>"
}

func writeSectionTable(sb *strings.Builder, all []*secAnalysis) {
	sb.WriteString("/- the critical sections every method consists of, in source order (see extract/gen.go, \"Section table\") -/\n")
	sb.WriteString("def sectionTable : List MethodSections := [\n")
	for i, sa := range all {
		bareR, bareW := false, false
		for _, b := range sa.bare {
			bareR, bareW = bareR || b.r, bareW || b.w
		}
		fmt.Fprintf(sb, "  -- %s:%d\n", filepath.Base(sa.m.pos.Filename), sa.m.pos.Line)
		for _, w := range sa.why {
			fmt.Fprintf(sb, "  --   not understood: %s\n", w)
		}
		fmt.Fprintf(sb, "  { typ := %q, method := %q, sectionsUnknown := %s, bareReads := %s, bareWrites := %s, sections := [",
			sa.m.typ, sa.m.name, leanBool(sa.unknown), leanBool(bareR), leanBool(bareW))
		for j, it := range sa.items {
			if j > 0 {
				sb.WriteString(",")
			}
			sb.WriteString("\n")
			what := ""
			switch {
			case it.mode == "call":
				what = fmt.Sprintf("call %s.%s on %s", it.inst.typ, it.callee, it.inst.show())
			case it.conditional:
				what = fmt.Sprintf("if .. { %s.%s.%s(); defer unlock } on %s, until return", it.inst.key, mutexShown(it.inst.typ), map[string]string{"W": "Lock", "R": "RLock"}[it.mode], it.inst.show())
			case it.deferred:
				what = fmt.Sprintf("%s.%s.%s() on %s, deferred unlock: until return", it.inst.key, mutexShown(it.inst.typ), map[string]string{"W": "Lock", "R": "RLock"}[it.mode], it.inst.show())
			default:
				what = fmt.Sprintf("%s.%s.%s() on %s, first unlock at line %d", it.inst.key, mutexShown(it.inst.typ), map[string]string{"W": "Lock", "R": "RLock"}[it.mode], it.inst.show(), it.endPos.Line)
			}
			if it.via != "" {
				what += " (in " + it.via + ")"
			}
			fmt.Fprintf(sb, "      -- %s:%d %s\n", filepath.Base(it.pos.Filename), it.pos.Line, what)
			outer, outerTyp := ".none", ""
			if it.outer != nil {
				outer, outerTyp = it.outer.inst.lean(), it.outer.inst.typ
			}
			mode := map[string]string{"W": ".W", "R": ".R", "call": ".call"}[it.mode]
			// fields at their default (callee "", nested false, outer .none, outerTyp "", conditional false) are omitted
			fmt.Fprintf(sb, "      { inst := %s, instTyp := %q, mode := %s", it.inst.lean(), it.inst.typ, mode)
			if it.callee != "" {
				fmt.Fprintf(sb, ", callee := %q", it.callee)
			}
			if it.nested {
				fmt.Fprintf(sb, ", nested := true, outer := %s, outerTyp := %q", outer, outerTyp)
			}
			fmt.Fprintf(sb, ", seq := %s, reads := %s, writes := %s", leanBool(it.seq), leanBool(it.reads), leanBool(it.writes))
			if it.conditional {
				sb.WriteString(", conditional := true")
			}
			sb.WriteString(" }")
		}
		if len(sa.items) > 0 {
			sb.WriteString("\n    ")
		}
		sb.WriteString("] }")
		if i+1 < len(all) {
			sb.WriteString(",")
		}
		sb.WriteString("\n")
	}
	sb.WriteString("]\n")
}

// ---------------------------------------------------------------------------------------------
// Decoder table (C18): every fallible read in ReadFrom/readFrom/Import has its error tested and
// returned before the next statement that reads or assigns.

type readFact struct {
	fn, call   string
	propagated bool
}

func fallibleCallName(e ast.Expr) string {
	call, ok := e.(*ast.CallExpr)
	if !ok {
		return ""
	}
	sel, ok := call.Fun.(*ast.SelectorExpr)
	if !ok {
		return ""
	}
	x := ""
	if id, ok := sel.X.(*ast.Ident); ok {
		x = id.Name
	}
	switch {
	case x == "binary" && sel.Sel.Name == "Read":
		return "binary.Read"
	case x == "io" && sel.Sel.Name == "ReadFull":
		return "io.ReadFull"
	case x == "json" && sel.Sel.Name == "Unmarshal":
		return "json.Unmarshal"
	case sel.Sel.Name == "readFrom" || sel.Sel.Name == "ReadFrom":
		return x + "." + sel.Sel.Name
	}
	return ""
}

func returnsErr(s ast.Stmt, errName string) bool {
	ifs, ok := s.(*ast.IfStmt)
	if !ok {
		return false
	}
	cond, ok := ifs.Cond.(*ast.BinaryExpr)
	if !ok || cond.Op != token.NEQ {
		return false
	}
	id, ok := cond.X.(*ast.Ident)
	if !ok || id.Name != errName {
		return false
	}
	for _, b := range ifs.Body.List {
		if _, ok := b.(*ast.ReturnStmt); ok {
			return true
		}
	}
	return false
}

func scanReads(fn string, stmts []ast.Stmt, out *[]readFact) {
	for i, s := range stmts {
		switch v := s.(type) {
		case *ast.AssignStmt:
			if len(v.Rhs) == 1 {
				if name := fallibleCallName(v.Rhs[0]); name != "" {
					errName := ""
					if id, ok := v.Lhs[len(v.Lhs)-1].(*ast.Ident); ok {
						errName = id.Name
					}
					ok := errName != "" && errName != "_" && i+1 < len(stmts) && returnsErr(stmts[i+1], errName)
					*out = append(*out, readFact{fn, name, ok})
				}
			}
		case *ast.IfStmt:
			// if _, err := io.ReadFull(...); err != nil { return }
			if as, ok := v.Init.(*ast.AssignStmt); ok && len(as.Rhs) == 1 {
				if name := fallibleCallName(as.Rhs[0]); name != "" {
					errName := ""
					if id, ok := as.Lhs[len(as.Lhs)-1].(*ast.Ident); ok {
						errName = id.Name
					}
					w := &ast.IfStmt{Cond: v.Cond, Body: v.Body}
					*out = append(*out, readFact{fn, name, errName != "" && returnsErr(w, errName)})
				}
			}
			scanReads(fn, v.Body.List, out)
		case *ast.ForStmt:
			scanReads(fn, v.Body.List, out)
		case *ast.RangeStmt:
			scanReads(fn, v.Body.List, out)
		case *ast.BlockStmt:
			scanReads(fn, v.List, out)
		case *ast.ExprStmt:
			if name := fallibleCallName(v.X); name != "" {
				*out = append(*out, readFact{fn, name, false}) // result dropped
			}
		}
	}
}

func genDecoderTable(repo string) (string, error) {
	fset := token.NewFileSet()
	files, _ := filepath.Glob(filepath.Join(repo, "*.go"))
	var facts []readFact
	memRecv := map[string]bool{"BloomFilter": true, "BitSetMem": true, "CuckooFilter": true, "BucketMem": true, "CountMinSketch": true, "HyperLogLog": true, "TopK": true}
	for _, f := range files {
		if strings.HasSuffix(f, "_test.go") {
			continue
		}
		af, err := parser.ParseFile(fset, f, nil, 0)
		if err != nil {
			return "", err
		}
		for _, d := range af.Decls {
			fd, ok := d.(*ast.FuncDecl)
			if !ok || fd.Recv == nil || fd.Body == nil {
				continue
			}
			rt := typeName(fd.Recv.List[0].Type)
			if !memRecv[rt] {
				continue
			}
			if fd.Name.Name != "ReadFrom" && fd.Name.Name != "readFrom" && fd.Name.Name != "Import" {
				continue
			}
			scanReads(rt+"."+fd.Name.Name, fd.Body.List, &facts)
		}
	}
	sort.Slice(facts, func(i, j int) bool { return facts[i].fn+facts[i].call < facts[j].fn+facts[j].call })
	var sb strings.Builder
	sb.WriteString("/- GENERATED by /verif/extract from /repo's current sources on every run. DO NOT EDIT. -/\n")
	sb.WriteString("namespace Gostatix.Generated\n\nstructure ReadFact where\n  fn : String\n  call : String\n  propagated : Bool\n  deriving Repr, DecidableEq\n\n")
	sb.WriteString("def decoderTable : List ReadFact := [\n")
	for i, f := range facts {
		if i > 0 {
			sb.WriteString(",\n")
		}
		fmt.Fprintf(&sb, "  { fn := %q, call := %q, propagated := %s }", f.fn, f.call, leanBool(f.propagated))
	}
	sb.WriteString("\n]\n\nend Gostatix.Generated\n")
	return sb.String(), nil
}

func generate(repo, out string) error {
	lt, err := genLockTable(repo)
	if err != nil {
		return err
	}
	if err := writeIfChanged(filepath.Join(out, "LockTable.lean"), lt); err != nil {
		return err
	}
	dt, err := genDecoderTable(repo)
	if err != nil {
		return err
	}
	if err := writeIfChanged(filepath.Join(out, "DecoderTable.lean"), dt); err != nil {
		return err
	}
	ls, err := genLuaScripts(repo)
	if err != nil {
		return err
	}
	if err := writeIfChanged(filepath.Join(out, "LuaScripts.lean"), ls); err != nil {
		return err
	}
	ar, err := genArith(repo)
	if err != nil {
		return err
	}
	if err := writeIfChanged(filepath.Join(out, "Arith.lean"), ar); err != nil {
		return err
	}
	jt, err := genJsonTable(repo)
	if err != nil {
		return err
	}
	if err := writeIfChanged(filepath.Join(out, "JsonTable.lean"), jt); err != nil {
		return err
	}
	bt, err := genLayoutTable(repo)
	if err != nil {
		return err
	}
	if err := writeIfChanged(filepath.Join(out, "LayoutTable.lean"), bt); err != nil {
		return err
	}
	mm, err := genMurmur(repo)
	if err != nil {
		return err
	}
	if err := writeIfChanged(filepath.Join(out, "Murmur.lean"), mm); err != nil {
		return err
	}
	lp, err := genLoops(repo)
	if err != nil {
		return err
	}
	if err := writeIfChanged(filepath.Join(out, "Loops.lean"), lp); err != nil {
		return err
	}
	_ = os.Stdout
	return nil
}
