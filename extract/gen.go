package main

import (
	"fmt"
	"go/ast"
	"go/parser"
	"go/token"
	"os"
	"path/filepath"
	"sort"
	"strings"
)

// ---------------------------------------------------------------------------------------------
// Lock table (C07): for every method of the five in-memory types, which accesses to mutable
// state it makes and whether they are dominated by Lock()/RLock() on that instance's mutex.
// The extractor is syntactic and answers `unknown` (-> guarded := false) for shapes it does not
// understand; it never guesses in favour of the code.

var memTypes = map[string][]string{ // type -> mutable fields
	"BloomFilter":    {"filter"},
	"CuckooFilter":   {"buckets", "length"},
	"CountMinSketch": {"matrix", "allSum"},
	"HyperLogLog":    {"registers"},
	"TopK":           {"heap", "sketch"},
}

// methods outside the property's call classes (constructors are functions, not methods)
var exemptMethods = map[string]bool{"Import": true, "ReadFrom": true, "Equals": true, "GetBitSet": true}

var writerCalls = map[string]bool{"add": true, "remove": true, "set": true, "unSet": true, "swap": true,
	"insert": true, "insertMulti": true, "unmarshal": true, "readFrom": true,
	"Update": true, "UpdateOnce": true, "UpdateString": true, "Push": true, "Pop": true, "Remove": true, "Fix": true, "Init": true}

type access struct {
	recv    string // identifier the access goes through
	write   bool
	guarded bool
	excl    bool
}

type methodInfo struct {
	typ, name string
	recvName  string
	params    map[string]string // ident -> mem type, for the receiver and parameters of mem types
	accesses  []access
	unknown   bool
	calls     []helperCall // calls to other methods of mem types through tracked identifiers
	selfLocks bool
}

type helperCall struct {
	recv    string
	typ     string
	method  string
	guarded bool
	excl    bool
}

func typeName(e ast.Expr) string {
	switch t := e.(type) {
	case *ast.StarExpr:
		return typeName(t.X)
	case *ast.Ident:
		return t.Name
	}
	return ""
}

// lockCall recognises X.lock.Lock() / RLock() / Unlock() / RUnlock(); returns (X, op)
func lockCall(e ast.Expr) (string, string) {
	call, ok := e.(*ast.CallExpr)
	if !ok {
		return "", ""
	}
	sel, ok := call.Fun.(*ast.SelectorExpr)
	if !ok {
		return "", ""
	}
	inner, ok := sel.X.(*ast.SelectorExpr)
	if !ok || inner.Sel.Name != "lock" {
		return "", ""
	}
	id, ok := inner.X.(*ast.Ident)
	if !ok {
		return "", ""
	}
	switch sel.Sel.Name {
	case "Lock", "RLock", "Unlock", "RUnlock":
		return id.Name, sel.Sel.Name
	}
	return "", ""
}

type lockState struct {
	held map[string]string // ident -> "Lock" | "RLock"
}

func (m *methodInfo) isMutableSel(e ast.Expr) (string, bool) {
	sel, ok := e.(*ast.SelectorExpr)
	if !ok {
		return "", false
	}
	id, ok := sel.X.(*ast.Ident)
	if !ok {
		return "", false
	}
	typ, ok := m.params[id.Name]
	if !ok {
		return "", false
	}
	for _, f := range memTypes[typ] {
		if sel.Sel.Name == f {
			return id.Name, true
		}
	}
	return "", false
}

// scanExpr records the accesses inside an expression / simple statement
func (m *methodInfo) scan(n ast.Node, st *lockState, lhsWrite bool) {
	if n == nil {
		return
	}
	ast.Inspect(n, func(x ast.Node) bool {
		switch v := x.(type) {
		case *ast.FuncLit:
			// closures passed to a call (sort.Slice comparators) run synchronously in place;
			// `go` statements are rejected in walk()
			return true
		case *ast.CallExpr:
			if id, op := lockCall(v); id != "" {
				_ = op
				m.unknown = true // lock operation in an unexpected position
				return false
			}
			if sel, ok := v.Fun.(*ast.SelectorExpr); ok {
				// method call through a tracked identifier: X.helper(...)
				if id, ok := sel.X.(*ast.Ident); ok {
					if typ, tracked := m.params[id.Name]; tracked {
						mode, held := st.held[id.Name]
						m.calls = append(m.calls, helperCall{id.Name, typ, sel.Sel.Name, held, mode == "Lock"})
					}
				}
				// call on a mutable field: X.filter.insert(...), X.buckets[i].add(...), heap.Push(&X.heap, ..)
				w := writerCalls[sel.Sel.Name]
				base := sel.X
				for {
					if ix, ok := base.(*ast.IndexExpr); ok {
						base = ix.X
						continue
					}
					break
				}
				if id, ok := m.isMutableSel(base); ok {
					mode, held := st.held[id]
					m.accesses = append(m.accesses, access{id, w, held, mode == "Lock"})
				}
				if w {
					for _, a := range v.Args {
						arg := a
						if u, ok := arg.(*ast.UnaryExpr); ok {
							arg = u.X
						}
						if id, ok := m.isMutableSel(arg); ok {
							mode, held := st.held[id]
							m.accesses = append(m.accesses, access{id, true, held, mode == "Lock"})
						}
					}
				}
			}
		case *ast.SelectorExpr:
			if id, ok := m.isMutableSel(v); ok {
				typ := m.params[id]
				if typ == "BloomFilter" {
					// the interface value itself is only assigned by Import/ReadFrom (exempt); the bits
					// behind it are reached through method calls (handled above)
					return true
				}
				mode, held := st.held[id]
				m.accesses = append(m.accesses, access{id, lhsWrite, held, mode == "Lock"})
			}
		}
		return true
	})
}

func isLockIf(s *ast.IfStmt) (string, string, bool) {
	// if <cond> { X.lock.Lock(); defer X.lock.Unlock() }
	if s.Else != nil || s.Init != nil || len(s.Body.List) != 2 {
		return "", "", false
	}
	es, ok := s.Body.List[0].(*ast.ExprStmt)
	if !ok {
		return "", "", false
	}
	id, op := lockCall(es.X)
	if id == "" || (op != "Lock" && op != "RLock") {
		return "", "", false
	}
	ds, ok := s.Body.List[1].(*ast.DeferStmt)
	if !ok {
		return "", "", false
	}
	id2, op2 := lockCall(ds.Call)
	if id2 != id || !strings.HasSuffix(op2, "Unlock") {
		return "", "", false
	}
	return id, op, true
}

func (m *methodInfo) walk(stmts []ast.Stmt, st *lockState, top bool) {
	for _, s := range stmts {
		switch v := s.(type) {
		case *ast.ExprStmt:
			if id, op := lockCall(v.X); id != "" {
				if !top {
					m.unknown = true
					continue
				}
				switch op {
				case "Lock", "RLock":
					st.held[id] = op
					if id == m.recvName {
						m.selfLocks = true
					}
				default:
					delete(st.held, id)
				}
				continue
			}
			m.scan(v.X, st, false)
		case *ast.DeferStmt:
			if id, op := lockCall(v.Call); id != "" && strings.HasSuffix(op, "Unlock") {
				if _, held := st.held[id]; !held || !top {
					m.unknown = true
				}
				continue // stays held until the function returns
			}
			m.scan(v.Call, st, false)
		case *ast.IfStmt:
			if id, op, ok := isLockIf(v); ok && top {
				st.held[id] = op
				if id == m.recvName {
					m.selfLocks = true
				}
				continue
			}
			m.scan(v.Init, st, false)
			m.scan(v.Cond, st, false)
			m.walk(v.Body.List, st, false)
			if v.Else != nil {
				if b, ok := v.Else.(*ast.BlockStmt); ok {
					m.walk(b.List, st, false)
				} else {
					m.walk([]ast.Stmt{v.Else}, st, false)
				}
			}
		case *ast.ForStmt:
			m.scan(v.Init, st, false)
			m.scan(v.Cond, st, false)
			m.scan(v.Post, st, false)
			m.walk(v.Body.List, st, false)
		case *ast.RangeStmt:
			m.scan(v.X, st, false)
			m.walk(v.Body.List, st, false)
		case *ast.BlockStmt:
			m.walk(v.List, st, false)
		case *ast.AssignStmt:
			for _, l := range v.Lhs {
				m.scan(l, st, true)
			}
			for _, r := range v.Rhs {
				m.scan(r, st, false)
			}
		case *ast.IncDecStmt:
			m.scan(v.X, st, true)
		case *ast.SwitchStmt, *ast.TypeSwitchStmt, *ast.SelectStmt, *ast.GoStmt:
			m.unknown = true
		default:
			m.scan(s, st, false)
		}
	}
}

func collectMethods(repo string) ([]*methodInfo, error) {
	fset := token.NewFileSet()
	files, _ := filepath.Glob(filepath.Join(repo, "*.go"))
	var out []*methodInfo
	for _, f := range files {
		if strings.HasSuffix(f, "_test.go") || strings.HasPrefix(filepath.Base(f), "verif_") {
			continue
		}
		af, err := parser.ParseFile(fset, f, nil, 0)
		if err != nil {
			return nil, err
		}
		for _, d := range af.Decls {
			fd, ok := d.(*ast.FuncDecl)
			if !ok || fd.Recv == nil || len(fd.Recv.List) == 0 || fd.Body == nil {
				continue
			}
			rt := typeName(fd.Recv.List[0].Type)
			if _, ok := memTypes[rt]; !ok {
				continue
			}
			m := &methodInfo{typ: rt, name: fd.Name.Name, params: map[string]string{}}
			if len(fd.Recv.List[0].Names) > 0 {
				m.recvName = fd.Recv.List[0].Names[0].Name
				m.params[m.recvName] = rt
			}
			for _, p := range fd.Type.Params.List {
				pt := typeName(p.Type)
				if _, ok := memTypes[pt]; ok {
					for _, n := range p.Names {
						m.params[n.Name] = pt
					}
				}
			}
			m.walk(fd.Body.List, &lockState{held: map[string]string{}}, true)
			out = append(out, m)
		}
	}
	sort.Slice(out, func(i, j int) bool {
		if out[i].typ != out[j].typ {
			return out[i].typ < out[j].typ
		}
		return out[i].name < out[j].name
	})
	return out, nil
}

func leanBool(b bool) string {
	if b {
		return "true"
	}
	return "false"
}

func genLockTable(repo string) (string, error) {
	ms, err := collectMethods(repo)
	if err != nil {
		return "", err
	}
	byKey := map[string]*methodInfo{}
	for _, m := range ms {
		byKey[m.typ+"."+m.name] = m
	}
	// a helper is a method that touches mutable state without taking the lock itself: its accesses
	// are charged to every call site (transitively, 3 rounds)
	for round := 0; round < 3; round++ {
		for _, m := range ms {
			for _, hc := range m.calls {
				h := byKey[hc.typ+"."+hc.method]
				if h == nil || h.selfLocks || exemptMethods[h.name] {
					continue
				}
				for _, a := range h.accesses {
					if a.recv != h.recvName {
						continue
					}
					m.accesses = append(m.accesses, access{hc.recv, a.write, hc.guarded, hc.excl})
				}
				if h.unknown {
					m.unknown = true
				}
			}
		}
		for _, m := range ms { // avoid unbounded duplication
			if len(m.accesses) > 400 {
				m.accesses = m.accesses[:400]
			}
		}
	}
	var sb strings.Builder
	sb.WriteString("/- GENERATED by /verif/extract from /repo's current sources on every run. DO NOT EDIT. -/\n")
	sb.WriteString("import Gostatix.Model.Conc\nnamespace Gostatix.Generated\nopen Gostatix.Conc\n\n")
	sb.WriteString("def lockTable : List MethodFact := [\n")
	first := true
	for _, m := range ms {
		touches, writes, guarded, excl := false, false, true, true
		for _, a := range m.accesses {
			touches = true
			if a.write {
				writes = true
			}
			if !a.guarded {
				guarded = false
			}
			if !a.excl {
				excl = false
			}
		}
		if m.unknown {
			guarded = false
		}
		helper := touches && !m.selfLocks && !ast.IsExported(m.name)
		exempt := exemptMethods[m.name] || helper
		if !first {
			sb.WriteString(",\n")
		}
		first = false
		fmt.Fprintf(&sb, "  { typ := %q, method := %q, touchesMutable := %s, writesMutable := %s, guarded := %s, exclusive := %s, exempt := %s }",
			m.typ, m.name, leanBool(touches), leanBool(writes), leanBool(guarded && touches), leanBool(excl && touches), leanBool(exempt))
	}
	sb.WriteString("\n]\n\nend Gostatix.Generated\n")
	return sb.String(), nil
}

// ---------------------------------------------------------------------------------------------
// Decoder table (C18): every fallible read in ReadFrom/readFrom/Import has its error tested and
// returned before the next statement that reads or assigns.

type readFact struct {
	fn, call   string
	propagated bool
}

func fallibleCallName(e ast.Expr) string {
	call, ok := e.(*ast.CallExpr)
	if !ok {
		return ""
	}
	sel, ok := call.Fun.(*ast.SelectorExpr)
	if !ok {
		return ""
	}
	x := ""
	if id, ok := sel.X.(*ast.Ident); ok {
		x = id.Name
	}
	switch {
	case x == "binary" && sel.Sel.Name == "Read":
		return "binary.Read"
	case x == "io" && sel.Sel.Name == "ReadFull":
		return "io.ReadFull"
	case x == "json" && sel.Sel.Name == "Unmarshal":
		return "json.Unmarshal"
	case sel.Sel.Name == "readFrom" || sel.Sel.Name == "ReadFrom":
		return x + "." + sel.Sel.Name
	}
	return ""
}

func returnsErr(s ast.Stmt, errName string) bool {
	ifs, ok := s.(*ast.IfStmt)
	if !ok {
		return false
	}
	cond, ok := ifs.Cond.(*ast.BinaryExpr)
	if !ok || cond.Op != token.NEQ {
		return false
	}
	id, ok := cond.X.(*ast.Ident)
	if !ok || id.Name != errName {
		return false
	}
	for _, b := range ifs.Body.List {
		if _, ok := b.(*ast.ReturnStmt); ok {
			return true
		}
	}
	return false
}

func scanReads(fn string, stmts []ast.Stmt, out *[]readFact) {
	for i, s := range stmts {
		switch v := s.(type) {
		case *ast.AssignStmt:
			if len(v.Rhs) == 1 {
				if name := fallibleCallName(v.Rhs[0]); name != "" {
					errName := ""
					if id, ok := v.Lhs[len(v.Lhs)-1].(*ast.Ident); ok {
						errName = id.Name
					}
					ok := errName != "" && errName != "_" && i+1 < len(stmts) && returnsErr(stmts[i+1], errName)
					*out = append(*out, readFact{fn, name, ok})
				}
			}
		case *ast.IfStmt:
			// if _, err := io.ReadFull(...); err != nil { return }
			if as, ok := v.Init.(*ast.AssignStmt); ok && len(as.Rhs) == 1 {
				if name := fallibleCallName(as.Rhs[0]); name != "" {
					errName := ""
					if id, ok := as.Lhs[len(as.Lhs)-1].(*ast.Ident); ok {
						errName = id.Name
					}
					w := &ast.IfStmt{Cond: v.Cond, Body: v.Body}
					*out = append(*out, readFact{fn, name, errName != "" && returnsErr(w, errName)})
				}
			}
			scanReads(fn, v.Body.List, out)
		case *ast.ForStmt:
			scanReads(fn, v.Body.List, out)
		case *ast.RangeStmt:
			scanReads(fn, v.Body.List, out)
		case *ast.BlockStmt:
			scanReads(fn, v.List, out)
		case *ast.ExprStmt:
			if name := fallibleCallName(v.X); name != "" {
				*out = append(*out, readFact{fn, name, false}) // result dropped
			}
		}
	}
}

func genDecoderTable(repo string) (string, error) {
	fset := token.NewFileSet()
	files, _ := filepath.Glob(filepath.Join(repo, "*.go"))
	var facts []readFact
	memRecv := map[string]bool{"BloomFilter": true, "BitSetMem": true, "CuckooFilter": true, "BucketMem": true, "CountMinSketch": true, "HyperLogLog": true, "TopK": true}
	for _, f := range files {
		if strings.HasSuffix(f, "_test.go") {
			continue
		}
		af, err := parser.ParseFile(fset, f, nil, 0)
		if err != nil {
			return "", err
		}
		for _, d := range af.Decls {
			fd, ok := d.(*ast.FuncDecl)
			if !ok || fd.Recv == nil || fd.Body == nil {
				continue
			}
			rt := typeName(fd.Recv.List[0].Type)
			if !memRecv[rt] {
				continue
			}
			if fd.Name.Name != "ReadFrom" && fd.Name.Name != "readFrom" && fd.Name.Name != "Import" {
				continue
			}
			scanReads(rt+"."+fd.Name.Name, fd.Body.List, &facts)
		}
	}
	sort.Slice(facts, func(i, j int) bool { return facts[i].fn+facts[i].call < facts[j].fn+facts[j].call })
	var sb strings.Builder
	sb.WriteString("/- GENERATED by /verif/extract from /repo's current sources on every run. DO NOT EDIT. -/\n")
	sb.WriteString("namespace Gostatix.Generated\n\nstructure ReadFact where\n  fn : String\n  call : String\n  propagated : Bool\n  deriving Repr, DecidableEq\n\n")
	sb.WriteString("def decoderTable : List ReadFact := [\n")
	for i, f := range facts {
		if i > 0 {
			sb.WriteString(",\n")
		}
		fmt.Fprintf(&sb, "  { fn := %q, call := %q, propagated := %s }", f.fn, f.call, leanBool(f.propagated))
	}
	sb.WriteString("\n]\n\nend Gostatix.Generated\n")
	return sb.String(), nil
}

func generate(repo, out string) error {
	lt, err := genLockTable(repo)
	if err != nil {
		return err
	}
	if err := writeIfChanged(filepath.Join(out, "LockTable.lean"), lt); err != nil {
		return err
	}
	dt, err := genDecoderTable(repo)
	if err != nil {
		return err
	}
	if err := writeIfChanged(filepath.Join(out, "DecoderTable.lean"), dt); err != nil {
		return err
	}
	ls, err := genLuaScripts(repo)
	if err != nil {
		return err
	}
	if err := writeIfChanged(filepath.Join(out, "LuaScripts.lean"), ls); err != nil {
		return err
	}
	ar, err := genArith(repo)
	if err != nil {
		return err
	}
	if err := writeIfChanged(filepath.Join(out, "Arith.lean"), ar); err != nil {
		return err
	}
	jt, err := genJsonTable(repo)
	if err != nil {
		return err
	}
	if err := writeIfChanged(filepath.Join(out, "JsonTable.lean"), jt); err != nil {
		return err
	}
	bt, err := genLayoutTable(repo)
	if err != nil {
		return err
	}
	if err := writeIfChanged(filepath.Join(out, "LayoutTable.lean"), bt); err != nil {
		return err
	}
	mm, err := genMurmur(repo)
	if err != nil {
		return err
	}
	if err := writeIfChanged(filepath.Join(out, "Murmur.lean"), mm); err != nil {
		return err
	}
	_ = os.Stdout
	return nil
}
