package main

func generate(repo, out string) error { return nil }
