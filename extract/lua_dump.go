package main

import (
	"fmt"
	"sort"
	"strings"
)

func dumpLuaNames() {
	fmt.Println("package main")
	fmt.Println()
	fmt.Println("// luaCanonNames: see luaPrinter.canon.  Regenerate with `gsextract -repo /repo -dump-lua-names`")
	fmt.Println("// ONLY together with the proofs in lean/Gostatix/Proofs/Lua*.lean, which mention these names.")
	fmt.Println("var luaCanonNames = map[string][]string{")
	var keys []string
	for k := range luaDeclared {
		keys = append(keys, k)
	}
	sort.Strings(keys)
	for _, k := range keys {
		q := make([]string, len(luaDeclared[k]))
		for i, n := range luaDeclared[k] {
			q[i] = fmt.Sprintf("%q", n)
		}
		fmt.Printf("\t%q: {%s},\n", k, strings.Join(q, ", "))
	}
	fmt.Println("}")
}
