package main

// Whole function bodies, loops included: four small functions of the in-memory Count-Min sketch are translated
// STATEMENT BY STATEMENT into Lean 4 definitions (lean/Gostatix/Generated/Loops.lean, regenerated on every run) over the
// small semantics of lean/Gostatix/Model/GoLoop.lean.  lean/Gostatix/Props/LoopTieCMS.lean proves the result equal to the
// hand-written machine model `CMSM` for all inputs; it is re-checked by `lake build` against whatever this file emits.
//
// Like arith.go the translator is purely syntactic (go/ast, its own little type environment).  A function that leaves
// the statement language below gets NO definition, only a comment and an entry in `Loops.unsupported` (file:line and
// reason), so that the tie theorems no longer elaborate.
//
// Statement language
//   values       64-bit integers (uint64, uint, uintptr, int, int64: the 64-bit pattern in a `UInt64`), slices of them of
//                depth 1 and 2 (`List UInt64`, `List (List UInt64)`), `[]byte` (opaque, only passed on), pointers to the
//                sketch struct (a record of its integer / slice fields, embedded structs flattened), `error` results
//   result       `Option` of (the receiver if the function stores to it, the Go results); `none` = a Go run-time panic
//   loops        `for i := range X`, `for i, v := range X`, `for i := 0; i < N; i++` (also `i := T(0)`, `i += 1`) with X a
//                slice (local, field, element, call result) and N unsigned / `int` / `len(..)`, N not changed by the body;
//                -> `GoLoop.forN n state (fun i state => body)`, the state being the variables the body assigns.
//                `v` is `X[i]`; X must not be written by the body.  The loop variable must not be assigned.
//                The outermost loop of a nest becomes its own `def <function>_loop<k>`.  No break / continue / goto / labels.
//   assignments  `x = e`, `x op= e`, `x++`, `x--`, `x := e`, `var x T [= e]`, `a, b := f()` (f: metro.Hash128) to locals, to
//                `recv.f`, `recv.f[i]`, `recv.f[i][j]`, `x[i]`, `x[i][j]`: functional update, every index checked
//                (`GoLoop.idx` / `GoLoop.set1`: out of range = panic = `none`).  A local bound to an element slice
//                (`row := cms.matrix[r]`) stands for that path (the index variables and the local are single-assignment).
//   if           `if cond { .. } [else { .. } | else if ..]` (no init statement); cond: == != < <= > >= on integers, && || !
//                (short-circuit kept when the right operand can panic)
//   return       `return`, `return e`, `return nil`, `return fmt.Errorf("literal", fields..)` / `errors.New("literal")`:
//                only as the last statement of the function body or of an `if` branch that is not inside a loop; the
//                error exits of a function are the constructors of a generated enumeration, named after the first word
//                of the format string that the other format strings of the function do not contain
//   expressions  + - * & | ^ &^ (wrapping), / % (unsigned; by zero = panic), conversions between the 64-bit integer
//                types, integer literals, package constants, len(X), make([]T, n), make([][]T, n),
//                append([]T(nil), X...) (a copy)
//   calls        lock calls `p.<mutex field>.Lock/Unlock/RLock/RUnlock()` (also deferred): SKIPPED, recognised by the
//                field's declared type sync.Mutex / sync.RWMutex (they are the lock table's business);
//                another translated function (`cms.getPositions(data)`): a call of its definition;
//                metro.Hash128(data, seed): the opaque parameter `metroHash128` of every definition that needs it;
//                an unexported function / method of the package: inlined (its body must be in the language, `return`
//                only as its last statement, depth <= 3, no recursion)
//   aliasing     slices are values in Lean.  Refused: copying a slice variable / field / element into another variable
//                or element (except the element-path locals above and `append([]T(nil), X...)`), reading a field of a
//                pointer parameter after the receiver has been stored to (the two may be the same object), a store
//                to a pointer parameter.  Assumed (not checked here): the rows of a `[][]T` field do not share storage.
//   everything else (switch, select, go, closures, floats, strings, maps, channels, ...) -> unsupported
//
// Additions for the HyperLogLog group (second namespace `Gostatix.Generated.LoopsHLL` of the same file, own record
// `HllState`, own `unsupported`; the Count-Min namespace is emitted exactly as before):
//   uint8        values and `[]uint8` slices (NOT spelled `[]byte`, which stays opaque data) are kept zero-extended in a
//                `UInt64`; a conversion to uint8 from a wider type is `GoArith.trunc8`; only comparisons, conversions and
//                stores of uint8 values are supported (no uint8 arithmetic)
//   << >>        `GoArith.goShl` / `GoArith.goShr` (unsigned or constant count, `>>` on unsigned operands only),
//                `bits.LeadingZeros64` -> `GoArith.clz64u` (as in arith.go)
//   helpers      an inlined helper may `return` at the end of an `if` branch as well (`util.Max`); functions without
//                receiver of a package `<module>/internal/...` of the repository (internal/util) are inlined like
//                unexported functions of the package itself

import (
	"fmt"
	"go/ast"
	"go/parser"
	"go/token"
	"go/types"
	"math/big"
	"os"
	"path/filepath"
	"regexp"
	"sort"
	"strconv"
	"strings"
)

type loopSpec struct {
	lean string // name of the generated definition
	file string
	recv string
	fn   string
}

var loopSpecs = []loopSpec{
	{"cmsGetPositions", "base_count_min_sketch.go", "AbstractCountMinSketch", "getPositions"},
	{"cmsUpdate", "count_min_sketch.go", "CountMinSketch", "Update"},
	{"cmsCount", "count_min_sketch.go", "CountMinSketch", "Count"},
	{"cmsMerge", "count_min_sketch.go", "CountMinSketch", "Merge"},
}

// a group: the struct whose fields make up the Lean record, the record's name, the namespace, the functions
type loopGroup struct {
	struc, record, ns, what, tie string
	specs                        []loopSpec
}

var hllSpecs = []loopSpec{
	{"hllUpdate", "hyperloglog.go", "HyperLogLog", "Update"},
	{"hllMerge", "hyperloglog.go", "HyperLogLog", "Merge"},
}

var loopGroups = []loopGroup{
	{"CountMinSketch", "Sketch", "Gostatix.Generated.Loops", "", "", loopSpecs},
	{"HyperLogLog", "HllState", "Gostatix.Generated.LoopsHLL", "in-memory HyperLogLog (uint8 registers: zero-extended `UInt64`, conversions to uint8 are `GoArith.trunc8`)", "Gostatix/Props/LoopTieHLL.lean", hllSpecs},
}

// the group being translated
var (
	loopStruct = "CountMinSketch"
	loopRecord = "Sketch"
	curSpecs   = loopSpecs
)

// external functions: Lean parameter, its type, argument kinds, number of uint64 results
type loopExtern struct {
	param  string
	leanTy string
	args   []lkind
	nres   int
	imp    string // suffix of the import path
}

var loopExterns = map[string]loopExtern{
	"metro.Hash128": {"metroHash128", "List UInt8 → UInt64 → UInt64 × UInt64", []lkind{kBytes, kInt}, 2, "go-metro"},
}

// ---------------------------------------------------------------------------------------------
// types and values

type lkind int

const (
	kNone lkind = iota
	kInt
	kUntyped
	kBool
	kSlice // of 64-bit integers, depth 1 or 2
	kBytes
	kRec
	kErr
)

type lty struct {
	kind  lkind
	ity   goTy // kInt; kSlice: the element type
	depth int  // kSlice
}

func (t lty) lean() string {
	switch t.kind {
	case kInt:
		return "UInt64"
	case kBool:
		return "Bool"
	case kSlice:
		if t.depth == 2 {
			return "List (List UInt64)"
		}
		return "List UInt64"
	case kBytes:
		return "List UInt8"
	case kRec:
		return loopRecord
	}
	return "?"
}

func (t lty) String() string {
	switch t.kind {
	case kInt:
		return t.ity.String()
	case kUntyped:
		return "untyped constant"
	case kBool:
		return "bool"
	case kSlice:
		return strings.Repeat("[]", t.depth) + t.ity.String()
	case kBytes:
		return "[]byte"
	case kRec:
		return "*" + loopStruct
	case kErr:
		return "error"
	}
	return "?"
}

func is64(t goTy) bool {
	switch t {
	case tyU64, tyUint, tyUintptr, tyInt, tyI64:
		return true
	}
	return false
}

// ltyOf a type expression (tyNone kind if outside the language)
func (g *loopGen) ltyOf(e ast.Expr) lty {
	switch t := e.(type) {
	case *ast.Ident:
		if it := goTyNames[t.Name]; is64(it) || (it == tyU8 && t.Name == "uint8") {
			return lty{kind: kInt, ity: it}
		}
		if t.Name == "error" {
			return lty{kind: kErr}
		}
		if t.Name == "bool" {
			return lty{kind: kBool}
		}
	case *ast.StarExpr:
		if id, ok := t.X.(*ast.Ident); ok && (id.Name == loopStruct || g.pkg.embeds(loopStruct, id.Name, 0)) {
			return lty{kind: kRec}
		}
	case *ast.ArrayType:
		if t.Len != nil {
			return lty{}
		}
		// `[]byte` is opaque data (only passed on); `[]uint8` is a slice of small counters
		if id, ok := t.Elt.(*ast.Ident); ok && id.Name == "byte" {
			return lty{kind: kBytes}
		}
		inner := g.ltyOf(t.Elt)
		if inner.kind == kInt {
			return lty{kind: kSlice, ity: inner.ity, depth: 1}
		}
		if inner.kind == kSlice && inner.depth == 1 {
			return lty{kind: kSlice, ity: inner.ity, depth: 2}
		}
	}
	return lty{}
}

type code []string

func indent(c code, n int) code {
	pad := strings.Repeat(" ", n)
	out := make(code, len(c))
	for i, l := range c {
		out[i] = pad + l
	}
	return out
}

// lvar: a Go variable and its Lean name
type lvar struct {
	goName string
	lean   string
	ty     lty
	seq    int
	isRecv bool   // the receiver of the translated function (a record that is threaded through)
	isPtr  bool   // another pointer to the struct (read only)
	alias  *lpath // an element-slice local: the path it denotes
	struc  string // kRec: the struct type the Go variable points to
	fresh  bool   // a local slice made in this function (make / copy / call result)
	// single-assignment bookkeeping
	writes  int
	loopVar bool
	same    *lvar // another Go name (in an inlined helper) of this Lean variable
}

// lpath: base variable, optional field, index expressions (Lean text of type UInt64)
type lpath struct {
	v     *lvar
	field string
	idx   []string
	ty    lty // type of the denoted element
}

func (p lpath) key() string { return p.v.lean + "." + p.field }

func (p lpath) baseText() string {
	if p.field != "" {
		return p.v.lean + "." + leanIdent(p.field)
	}
	return p.v.lean
}

type lval struct {
	pre code // bind lines evaluated before
	s   lexpr
	ty  lty
	cv  *big.Int // untyped constant
	// a slice value that shares storage with nothing (make, a copy, a call result)
	fresh bool
	lenOf string // `len(X)`: the Lean text of X
}

type lenv struct {
	vars map[string]*lvar
}

func (e *lenv) with(v *lvar) *lenv {
	n := &lenv{vars: make(map[string]*lvar, len(e.vars)+1)}
	for k, x := range e.vars {
		n.vars[k] = x
	}
	n.vars[v.goName] = v
	return n
}

// access log of a compound statement (loop body, branch): which outer variables it assigns / reads
type lrecorder struct {
	outer  map[*lvar]bool
	hit    []*lvar
	hitSet map[*lvar]bool
	writes map[string]bool // path key -> shape changing
	reads  map[string]bool // path key -> more than the length is read
}

type fnSummary struct {
	spec     *loopSpec
	mutRecv  bool
	results  []lty
	externs  map[string]bool
	params   []*lvar
	ok       bool
	errCtors []string
}

type loopGen struct {
	pkg     *arithPkg
	fields  []recField
	mutexes map[string]bool // field names of declared type sync.Mutex / sync.RWMutex (of the struct or embedded)
	done    map[string]*fnSummary
	out     map[string]string // lean name -> text
	repo    string
	sub     map[string]map[string]*ast.FuncDecl // functions of internal packages of the module, by directory
	why     map[string]string
}

type recField struct {
	name string
	ty   lty
}

// per translated function
type lfn struct {
	g           *loopGen
	spec        *loopSpec
	fd          *ast.FuncDecl
	recv        *lvar
	tmp         int
	seq         int
	tmpTy       map[string]string
	recs        []*lrecorder
	noReturn    int
	loopNest    int
	nloops      int
	recvWritten map[string]bool // fields of the receiver stored to so far ("*": the whole record)
	externs     map[string]bool
	defs        []string // lifted loop definitions
	results     []lty
	errSites    map[*ast.CallExpr]string
	errCtors    []string
	errTexts    []string
	inline      []*ast.FuncDecl
	names       map[string]bool // every identifier of the functions read (temporaries must not clash)
	allVars     []*lvar
	curPos      token.Pos
	aliasKeys   map[string]bool
	aliasIdx    []*lvar
	retK        func(env *lenv, vals []ast.Expr, pos token.Pos) code
}

func (f *lfn) fail(pos token.Pos, format string, args ...interface{}) {
	p := f.g.pkg.fset.Position(pos)
	panic(unsupportedErr{fmt.Sprintf("%s:%d: %s", filepath.Base(p.Filename), p.Line, fmt.Sprintf(format, args...))})
}

func (f *lfn) srcComment(n ast.Node) string {
	p := f.g.pkg.fset.Position(n.Pos())
	file := filepath.Base(p.Filename)
	line := ""
	if src := f.g.pkg.src[file]; p.Line-1 < len(src) {
		line = strings.TrimSpace(src[p.Line-1])
	}
	return fmt.Sprintf("-- %s:%d: %s", file, p.Line, strings.ReplaceAll(line, "-/", "- /"))
}

func (f *lfn) newTmp(leanTy string) string {
	for {
		f.tmp++
		n := fmt.Sprintf("t%d", f.tmp)
		if !f.names[n] {
			f.tmpTy[n] = leanTy
			return n
		}
	}
}

func (f *lfn) newVar(goName string, ty lty) *lvar {
	f.seq++
	v := &lvar{goName: goName, lean: leanIdent(goName), ty: ty, seq: f.seq}
	f.allVars = append(f.allVars, v)
	return v
}

// noteWrite / noteRead: tell every enclosing compound statement
func (f *lfn) noteWrite(p lpath, shape bool) {
	p.v = p.v.root()
	p.v.writes++
	if shape && f.aliasKeys[p.key()] {
		f.fail(f.curPos, "a slice is stored to %s although an element-slice local denotes an element of it", p.key())
	}
	if p.v.isRecv {
		k := p.field
		if k == "" {
			k = "*"
		}
		f.recvWritten[k] = true
	}
	for _, r := range f.recs {
		if r.outer[p.v] {
			if !r.hitSet[p.v] {
				r.hitSet[p.v] = true
				r.hit = append(r.hit, p.v)
			}
			r.writes[p.key()] = r.writes[p.key()] || shape
		}
	}
}

func (f *lfn) noteRead(p lpath, lenOnly bool) {
	p.v = p.v.root()
	for _, r := range f.recs {
		if r.outer[p.v] {
			r.reads[p.key()] = r.reads[p.key()] || !lenOnly
		}
	}
}

func (f *lfn) pushRec(env *lenv) *lrecorder {
	r := &lrecorder{outer: map[*lvar]bool{}, hitSet: map[*lvar]bool{}, writes: map[string]bool{}, reads: map[string]bool{}}
	for _, v := range env.vars {
		r.outer[v.root()] = true
	}
	f.recs = append(f.recs, r)
	return r
}

func (f *lfn) popRec() { f.recs = f.recs[:len(f.recs)-1] }

func tupleOf(vs []*lvar) string {
	switch len(vs) {
	case 0:
		return "()"
	case 1:
		return vs[0].lean
	}
	var s []string
	for _, v := range vs {
		s = append(s, v.lean)
	}
	return "(" + strings.Join(s, ", ") + ")"
}

func tupleTy(vs []*lvar) string {
	switch len(vs) {
	case 0:
		return "Unit"
	case 1:
		return vs[0].ty.lean()
	}
	var s []string
	for _, v := range vs {
		s = append(s, v.ty.lean())
	}
	return strings.Join(s, " × ")
}

func parenTy(s string) string {
	if strings.ContainsAny(s, " ") {
		return "(" + s + ")"
	}
	return s
}

// ---------------------------------------------------------------------------------------------
// paths and expressions

func natIndex(v lval) string {
	if v.cv != nil {
		return v.cv.String()
	}
	return v.s.paren() + ".toNat"
}

// path of an addressable expression: variable, `p.f`, `X[i]`
func (f *lfn) path(e ast.Expr, env *lenv) (code, lpath) {
	switch x := e.(type) {
	case *ast.ParenExpr:
		return f.path(x.X, env)
	case *ast.Ident:
		v := env.vars[x.Name]
		if v == nil {
			f.fail(x.Pos(), "`%s` is not a variable of the translated function", x.Name)
		}
		if v.alias != nil {
			a := *v.alias
			a.idx = append([]string{}, a.idx...)
			return nil, a
		}
		return nil, lpath{v: v, ty: v.ty}
	case *ast.SelectorExpr:
		id, ok := x.X.(*ast.Ident)
		if !ok {
			f.fail(x.Pos(), "selector %s (only fields of the receiver / of a pointer parameter)", types.ExprString(x))
		}
		v := env.vars[id.Name]
		if v == nil || v.ty.kind != kRec {
			f.fail(x.Pos(), "selector %s: `%s` is not a pointer to %s", types.ExprString(x), id.Name, loopStruct)
		}
		for _, fl := range f.g.fields {
			if fl.name == x.Sel.Name {
				return nil, lpath{v: v, field: fl.name, ty: fl.ty}
			}
		}
		f.fail(x.Pos(), "field %s is not an integer / integer-slice field of %s", x.Sel.Name, loopStruct)
	case *ast.IndexExpr:
		pre, p := f.path(x.X, env)
		if p.ty.kind != kSlice {
			f.fail(x.Pos(), "index expression %s on a value of type %s", types.ExprString(x), p.ty)
		}
		iv := f.expr(x.Index, env)
		if iv.ty.kind == kUntyped {
			if iv.cv.Sign() < 0 || iv.cv.BitLen() > 63 {
				f.fail(x.Pos(), "constant index %s", iv.cv)
			}
		} else if iv.ty.kind != kInt {
			f.fail(x.Pos(), "index of type %s", iv.ty)
		}
		// (a negative int index is ≥ 2^63 as a pattern: out of range of every list Go can hold)
		pre = append(pre, iv.pre...)
		p.idx = append(p.idx, natIndex(iv))
		if p.ty.depth == 1 {
			p.ty = lty{kind: kInt, ity: p.ty.ity}
		} else {
			p.ty = lty{kind: kSlice, ity: p.ty.ity, depth: p.ty.depth - 1}
		}
		return pre, p
	}
	f.fail(e.Pos(), "expression %s is not a variable, field or element", types.ExprString(e))
	return nil, lpath{}
}

// chain reads the containers along a path: texts of base, base[i0], base[i0][i1], ...
func (f *lfn) chain(p lpath, lenOnly bool) (code, []string) {
	if p.v.root().isPtr && (f.recvWritten[p.field] || f.recvWritten["*"]) {
		f.fail(f.curPos, "`%s.%s` is read after that field of the receiver has been stored to (the pointer may be the receiver itself; slices are values in the translation)", p.v.goName, p.field)
	}
	f.noteRead(p, lenOnly)
	var pre code
	cur := p.baseText()
	texts := []string{cur}
	ty := p.v.ty
	if p.field != "" {
		for _, fl := range f.g.fields {
			if fl.name == p.field {
				ty = fl.ty
			}
		}
	}
	for _, ix := range p.idx {
		if ty.depth == 1 {
			ty = lty{kind: kInt, ity: ty.ity}
		} else {
			ty = lty{kind: kSlice, ity: ty.ity, depth: ty.depth - 1}
		}
		t := f.newTmp(ty.lean())
		pre = append(pre, fmt.Sprintf("(GoLoop.idx %s %s).bind fun %s =>", cur, ix, t))
		cur = t
		texts = append(texts, cur)
	}
	return pre, texts
}

func (f *lfn) typedConst(v lval, t goTy, pos token.Pos) lval {
	bits := t.width()
	if t.signed() {
		bits = 63
	}
	if v.cv.Sign() < 0 || v.cv.BitLen() > bits {
		f.fail(pos, "constant %s does not fit %s (or is negative)", v.cv, t)
	}
	return lval{pre: v.pre, s: lexpr{v.cv.String(), true}, ty: lty{kind: kInt, ity: t}, cv: v.cv}
}

func (f *lfn) constOf(e ast.Expr) *big.Int {
	sc := &arithCtx{pkg: f.g.pkg, fd: f.fd, assigns: map[string]int{}}
	return sc.constVal(e)
}

var cmpOps = map[token.Token]bool{token.EQL: true, token.NEQ: true, token.LSS: true, token.LEQ: true, token.GTR: true, token.GEQ: true}

func (f *lfn) expr(e ast.Expr, env *lenv) lval {
	switch x := e.(type) {
	case *ast.ParenExpr:
		return f.expr(x.X, env)
	case *ast.BasicLit:
		v := constValue(x)
		if v == nil {
			f.fail(x.Pos(), "literal %s", x.Value)
		}
		return lval{s: lexpr{v.String(), true}, ty: lty{kind: kUntyped}, cv: v}
	case *ast.Ident:
		if env.vars[x.Name] == nil {
			switch x.Name {
			case "true", "false":
				return lval{s: lexpr{x.Name, true}, ty: lty{kind: kBool}}
			}
			if f.g.pkg.consts[x.Name] != nil {
				v, t := f.g.pkg.constEval(x.Name, 0)
				if v == nil || (t != tyUntyped && !is64(t)) {
					f.fail(x.Pos(), "package constant `%s` is not a plain 64-bit integer constant", x.Name)
				}
				r := lval{s: lexpr{v.String(), true}, ty: lty{kind: kUntyped}, cv: v}
				if t != tyUntyped {
					r = f.typedConst(r, t, x.Pos())
					r.cv = nil
				}
				return r
			}
		}
		return f.readExpr(x, env)
	case *ast.SelectorExpr, *ast.IndexExpr:
		return f.readExpr(e, env)
	case *ast.UnaryExpr:
		switch x.Op {
		case token.ADD:
			return f.expr(x.X, env)
		case token.NOT:
			a := f.expr(x.X, env)
			if a.ty.kind != kBool {
				f.fail(x.Pos(), "! on %s", a.ty)
			}
			return lval{pre: a.pre, s: lexpr{"!" + a.s.paren(), false}, ty: a.ty}
		}
		f.fail(x.Pos(), "unary operator %s", x.Op)
	case *ast.BinaryExpr:
		return f.binary(x, env)
	case *ast.CallExpr:
		vs := f.call(x, env, 1)
		return vs[0]
	}
	f.fail(e.Pos(), "expression %s", types.ExprString(e))
	return lval{}
}

func (f *lfn) readExpr(e ast.Expr, env *lenv) lval {
	pre, p := f.path(e, env)
	pre2, texts := f.chain(p, false)
	return lval{pre: append(pre, pre2...), s: lexpr{texts[len(texts)-1], true}, ty: p.ty}
}

func (f *lfn) binary(x *ast.BinaryExpr, env *lenv) lval {
	if x.Op == token.LAND || x.Op == token.LOR {
		a, b := f.expr(x.X, env), f.expr(x.Y, env)
		if a.ty.kind != kBool || b.ty.kind != kBool {
			f.fail(x.OpPos, "%s on %s and %s", x.Op, a.ty, b.ty)
		}
		op := "&&"
		if x.Op == token.LOR {
			op = "||"
		}
		if len(b.pre) == 0 {
			return lval{pre: a.pre, s: lexpr{a.s.paren() + " " + op + " " + b.s.paren(), false}, ty: a.ty}
		}
		// the right operand can panic: it is evaluated only when Go evaluates it
		t := f.newTmp("Bool")
		short := "some true"
		if x.Op == token.LAND {
			short = "some false"
		}
		cond := a.s.s
		if x.Op == token.LAND {
			cond = "!" + a.s.paren()
		}
		pre := append(code{}, a.pre...)
		pre = append(pre, fmt.Sprintf("(if %s then %s else", cond, short))
		pre = append(pre, indent(b.pre, 2)...)
		pre = append(pre, fmt.Sprintf("  some %s).bind fun %s =>", b.s.paren(), t))
		return lval{pre: pre, s: lexpr{t, true}, ty: a.ty}
	}
	a, b := f.expr(x.X, env), f.expr(x.Y, env)
	pre := append(append(code{}, a.pre...), b.pre...)
	intOperands := func() goTy {
		if a.ty.kind == kUntyped && b.ty.kind == kUntyped {
			f.fail(x.OpPos, "constant expression %s", types.ExprString(x))
		}
		if a.ty.kind == kUntyped && b.ty.kind == kInt {
			a = f.typedConst(a, b.ty.ity, x.X.Pos())
		}
		if b.ty.kind == kUntyped && a.ty.kind == kInt {
			b = f.typedConst(b, a.ty.ity, x.Y.Pos())
		}
		if a.ty.kind != kInt || b.ty.kind != kInt {
			f.fail(x.OpPos, "%s on %s and %s", x.Op, a.ty, b.ty)
		}
		if a.ty.ity != b.ty.ity {
			f.fail(x.OpPos, "operand types %s and %s of %s differ (type inference of the translator is off)", a.ty, b.ty, x.Op)
		}
		return a.ty.ity
	}
	if cmpOps[x.Op] {
		t := intOperands()
		var s string
		as, bs := a.s.paren(), b.s.paren()
		switch x.Op {
		case token.EQL:
			s = as + " == " + bs
		case token.NEQ:
			s = as + " != " + bs
		default:
			l, r, strict := as, bs, x.Op == token.LSS || x.Op == token.GTR
			if x.Op == token.GTR || x.Op == token.GEQ {
				l, r = bs, as
			}
			switch {
			case t.signed() && strict:
				s = "GoLoop.intLt " + l + " " + r
			case t.signed():
				s = "!(GoLoop.intLt " + r + " " + l + ")"
			case strict:
				s = "decide (" + l + " < " + r + ")"
			default:
				s = "decide (" + l + " ≤ " + r + ")"
			}
		}
		return lval{pre: pre, s: lexpr{s, false}, ty: lty{kind: kBool}}
	}
	switch x.Op {
	case token.SHL, token.SHR:
		if a.ty.kind != kInt || a.ty.ity == tyU8 {
			f.fail(x.OpPos, "shift of a %s", a.ty)
		}
		if b.ty.kind == kUntyped {
			b = f.typedConst(b, tyUint, x.Y.Pos())
		} else if b.ty.kind != kInt || b.ty.ity.signed() || b.ty.ity == tyU8 {
			f.fail(x.OpPos, "shift count of type %s", b.ty)
		}
		if x.Op == token.SHR {
			if a.ty.ity.signed() {
				f.fail(x.OpPos, ">> on a signed operand (%s)", a.ty)
			}
			return lval{pre: pre, s: lexpr{"GoArith.goShr " + a.s.paren() + " " + b.s.paren(), false}, ty: a.ty}
		}
		return lval{pre: pre, s: lexpr{"GoArith.goShl " + a.s.paren() + " " + b.s.paren(), false}, ty: a.ty}
	case token.ADD, token.SUB, token.MUL, token.XOR, token.AND, token.OR, token.AND_NOT:
		if a.ty.kind == kUntyped && b.ty.kind == kUntyped {
			if v := f.constOf(x); v != nil && v.Sign() >= 0 {
				return lval{s: lexpr{v.String(), true}, ty: lty{kind: kUntyped}, cv: v}
			}
		}
		t := intOperands()
		if t == tyU8 {
			f.fail(x.OpPos, "%s on uint8 operands (only comparisons and conversions of uint8 are supported)", x.Op)
		}
		if x.Op == token.AND_NOT {
			return lval{pre: pre, s: lexpr{a.s.paren() + " &&& (~~~ " + b.s.paren() + ")", false}, ty: lty{kind: kInt, ity: t}}
		}
		return lval{pre: pre, s: lexpr{a.s.paren() + " " + leanOp[x.Op] + " " + b.s.paren(), false}, ty: lty{kind: kInt, ity: t}}
	case token.QUO, token.REM:
		t := intOperands()
		if t.signed() || t == tyU8 {
			f.fail(x.OpPos, "%s on signed / uint8 operands (%s)", x.Op, t)
		}
		fn := "GoLoop.div"
		if x.Op == token.REM {
			fn = "GoLoop.mod"
		}
		tmp := f.newTmp("UInt64")
		pre = append(pre, fmt.Sprintf("(%s %s %s).bind fun %s =>", fn, a.s.paren(), b.s.paren(), tmp))
		return lval{pre: pre, s: lexpr{tmp, true}, ty: lty{kind: kInt, ity: t}}
	}
	f.fail(x.OpPos, "operator %s", x.Op)
	return lval{}
}

// ---------------------------------------------------------------------------------------------
// calls

// lockCall: `p.<mutex field>.Lock()` etc. on the receiver / a pointer parameter
func (f *lfn) lockCall(call *ast.CallExpr, env *lenv) bool {
	if len(call.Args) != 0 {
		return false
	}
	m, ok := call.Fun.(*ast.SelectorExpr)
	if !ok {
		return false
	}
	switch m.Sel.Name {
	case "Lock", "Unlock", "RLock", "RUnlock":
	default:
		return false
	}
	fld, ok := m.X.(*ast.SelectorExpr)
	if !ok {
		return false
	}
	id, ok := fld.X.(*ast.Ident)
	if !ok {
		return false
	}
	v := env.vars[id.Name]
	return v != nil && v.ty.kind == kRec && f.g.mutexes[fld.Sel.Name]
}

// methodOn: the unique method `name` declared on struct `struc` or on a struct it embeds
func (g *loopGen) methodOn(struc, name string) *ast.FuncDecl {
	var own, promoted []*ast.FuncDecl
	for _, d := range g.pkg.funcs[name] {
		if d.Recv == nil || len(d.Recv.List) != 1 || d.Body == nil {
			continue
		}
		if t := typeName(d.Recv.List[0].Type); t == struc {
			own = append(own, d)
		} else if g.pkg.embeds(struc, t, 0) {
			promoted = append(promoted, d)
		}
	}
	if len(own) == 1 {
		return own[0]
	}
	if len(own) == 0 && len(promoted) == 1 {
		return promoted[0]
	}
	return nil
}

func (f *lfn) shadowed(name string, env *lenv) bool { return env.vars[name] != nil }

// call with nres consumed results (0: expression statement)
func (f *lfn) call(x *ast.CallExpr, env *lenv, nres int) []lval {
	fun := types.ExprString(x.Fun)
	one := func(v lval) []lval {
		if nres != 1 {
			f.fail(x.Pos(), "%s has one result, %d are consumed", fun, nres)
		}
		return []lval{v}
	}
	switch fn := x.Fun.(type) {
	case *ast.Ident:
		if f.shadowed(fn.Name, env) {
			f.fail(x.Pos(), "call of the variable `%s`", fn.Name)
		}
		if to, ok := goTyNames[fn.Name]; ok {
			if !(is64(to) || (to == tyU8 && fn.Name == "uint8")) || len(x.Args) != 1 {
				f.fail(x.Pos(), "conversion %s (only the 64-bit integer types and uint8)", fun)
			}
			a := f.expr(x.Args[0], env)
			if a.ty.kind == kUntyped {
				r := f.typedConst(a, to, x.Pos())
				return one(r)
			}
			if a.ty.kind != kInt {
				f.fail(x.Pos(), "conversion of %s to %s", a.ty, to)
			}
			if to == tyU8 && a.ty.ity != tyU8 {
				a.s = lexpr{"GoArith.trunc8 " + a.s.paren(), false} // uint8 values are kept zero-extended
			}
			a.ty, a.lenOf = lty{kind: kInt, ity: to}, ""
			return one(a)
		}
		switch fn.Name {
		case "len":
			if len(x.Args) != 1 {
				f.fail(x.Pos(), "len with %d arguments", len(x.Args))
			}
			var pre code
			var text string
			switch x.Args[0].(type) {
			case *ast.Ident, *ast.SelectorExpr, *ast.IndexExpr, *ast.ParenExpr:
				p1, p := f.path(x.Args[0], env)
				if p.ty.kind != kSlice {
					f.fail(x.Pos(), "len of %s", p.ty)
				}
				p2, texts := f.chain(p, true)
				pre, text = append(p1, p2...), texts[len(texts)-1]
			default:
				a := f.expr(x.Args[0], env)
				if a.ty.kind != kSlice {
					f.fail(x.Pos(), "len of %s", a.ty)
				}
				pre, text = a.pre, a.s.paren()
			}
			return one(lval{pre: pre, s: lexpr{"UInt64.ofNat " + text + ".length", false}, ty: lty{kind: kInt, ity: tyInt}, lenOf: text})
		case "make":
			if len(x.Args) != 2 {
				f.fail(x.Pos(), "make with %d arguments (make([]T, n) only)", len(x.Args))
			}
			t := f.g.ltyOf(x.Args[0])
			if t.kind != kSlice {
				f.fail(x.Pos(), "make of %s", types.ExprString(x.Args[0]))
			}
			n := f.expr(x.Args[1], env)
			if n.ty.kind != kInt && n.ty.kind != kUntyped {
				f.fail(x.Pos(), "make with a length of type %s", n.ty)
			}
			var cnt string
			switch {
			case n.cv != nil:
				cnt = n.cv.String()
			case n.lenOf != "":
				cnt = n.lenOf + ".length"
			case n.ty.ity.signed():
				cnt = "(GoLoop.intToNat " + n.s.paren() + ")"
			default:
				cnt = n.s.paren() + ".toNat"
			}
			zero := "0"
			if t.depth == 2 {
				zero = "[]"
			}
			return one(lval{pre: n.pre, s: lexpr{"List.replicate " + cnt + " " + zero, false}, ty: t, fresh: true})
		case "append":
			// append([]T(nil), X...): a copy of X
			if len(x.Args) == 2 && x.Ellipsis.IsValid() {
				if conv, ok := x.Args[0].(*ast.CallExpr); ok && len(conv.Args) == 1 {
					if id, ok := conv.Args[0].(*ast.Ident); ok && id.Name == "nil" && !f.shadowed("nil", env) {
						if t := f.g.ltyOf(conv.Fun); t.kind == kSlice && t.depth == 1 {
							a := f.expr(x.Args[1], env)
							if a.ty != t {
								f.fail(x.Pos(), "append(%s(nil), X...) with X of type %s", t, a.ty)
							}
							a.fresh = true
							return one(a)
						}
					}
				}
			}
			f.fail(x.Pos(), "append (only the copy idiom append([]T(nil), X...))")
		}
		if !unexported(fn.Name) {
			f.fail(x.Pos(), "call of %s", fun)
		}
		var cands []*ast.FuncDecl
		for _, d := range f.g.pkg.funcs[fn.Name] {
			if d.Recv == nil && d.Body != nil {
				cands = append(cands, d)
			}
		}
		if len(cands) != 1 {
			f.fail(x.Pos(), "call of %s (%d declarations in the package)", fun, len(cands))
		}
		return f.inlineCall(x, cands[0], nil, env, nres)
	case *ast.SelectorExpr:
		if ext, ok := loopExterns[fun]; ok {
			pk := fn.X.(*ast.Ident).Name
			if f.shadowed(pk, env) || !f.imports(ext.imp, pk) {
				f.fail(x.Pos(), "call of %s: `%s` is not the imported package", fun, pk)
			}
			if len(x.Args) != len(ext.args) || nres != ext.nres {
				f.fail(x.Pos(), "call of %s with %d arguments, %d results consumed", fun, len(x.Args), nres)
			}
			var pre code
			text := ext.param
			for i, a := range x.Args {
				v := f.expr(a, env)
				if v.ty.kind == kUntyped && ext.args[i] == kInt {
					v = f.typedConst(v, tyU64, a.Pos())
				}
				if v.ty.kind != ext.args[i] || (v.ty.kind == kInt && v.ty.ity != tyU64) {
					f.fail(a.Pos(), "argument %d of %s has type %s", i, fun, v.ty)
				}
				pre = append(pre, v.pre...)
				text += " " + v.s.paren()
			}
			f.externs[fun] = true
			var out []lval
			for i := 0; i < nres; i++ {
				out = append(out, lval{s: lexpr{fmt.Sprintf("(%s).%d", text, i+1), false}, ty: lty{kind: kInt, ity: tyU64}})
			}
			out[0].pre = pre
			return out
		}
		id, ok := fn.X.(*ast.Ident)
		if !ok {
			f.fail(x.Pos(), "call of %s", fun)
		}
		if env.vars[id.Name] == nil {
			if path := f.importPath(id.Name); path == "math/bits" && fn.Sel.Name == "LeadingZeros64" && len(x.Args) == 1 {
				a := f.expr(x.Args[0], env)
				if a.ty.kind != kInt || a.ty.ity != tyU64 {
					f.fail(x.Pos(), "argument of %s has type %s", fun, a.ty)
				}
				return one(lval{pre: a.pre, s: lexpr{"GoArith.clz64u " + a.s.paren(), false}, ty: lty{kind: kInt, ity: tyInt}})
			} else if fd := f.g.subPkgFunc(path, fn.Sel.Name); fd != nil {
				// a function of a package of the same module (internal/util): inlined like a private helper
				return f.inlineCall(x, fd, nil, env, nres)
			}
		}
		obj := env.vars[id.Name]
		if obj == nil || obj.ty.kind != kRec {
			f.fail(x.Pos(), "call of %s (not a method of the sketch, not a known external function)", fun)
		}
		fd := f.g.methodOn(obj.struc, fn.Sel.Name)
		if fd == nil {
			f.fail(x.Pos(), "call of %s: no unique method %s on %s", fun, fn.Sel.Name, obj.struc)
		}
		for i := range curSpecs {
			sp := &curSpecs[i]
			if sp.fn == fd.Name.Name && sp.recv == typeName(fd.Recv.List[0].Type) {
				return f.rootCall(x, sp, obj, env, nres)
			}
		}
		if !unexported(fn.Sel.Name) {
			f.fail(x.Pos(), "call of the exported method %s (not one of the translated functions)", fun)
		}
		return f.inlineCall(x, fd, obj, env, nres)
	}
	f.fail(x.Pos(), "call of %s", fun)
	return nil
}

// importPath: the path of the package imported under `name` in the file being read ("" if none)
func (f *lfn) importPath(name string) string {
	file := f.g.pkg.files[filepath.Base(f.g.pkg.fset.Position(f.curPos).Filename)]
	if file == nil {
		return ""
	}
	for _, imp := range file.Imports {
		path, _ := strconv.Unquote(imp.Path.Value)
		n := path[strings.LastIndex(path, "/")+1:]
		if imp.Name != nil {
			n = imp.Name.Name
		}
		if n == name {
			return path
		}
	}
	return ""
}

// subPkgFunc: the function `name` (no receiver) of the package `<module>/internal/...` of the repository
func (g *loopGen) subPkgFunc(path, name string) *ast.FuncDecl {
	i := strings.Index(path, "/internal/")
	if i < 0 {
		return nil
	}
	dir := filepath.Join(g.repo, path[i+1:])
	if g.sub[dir] == nil {
		g.sub[dir] = map[string]*ast.FuncDecl{}
		matches, _ := filepath.Glob(filepath.Join(dir, "*.go"))
		sort.Strings(matches)
		for _, m := range matches {
			if strings.HasSuffix(m, "_test.go") {
				continue
			}
			data, err := os.ReadFile(m)
			if err != nil {
				continue
			}
			file, err := parser.ParseFile(g.pkg.fset, m, data, parser.SkipObjectResolution)
			if err != nil {
				continue
			}
			if _, clash := g.pkg.src[filepath.Base(m)]; !clash {
				g.pkg.src[filepath.Base(m)] = strings.Split(string(data), "\n")
			}
			for _, d := range file.Decls {
				if fd, ok := d.(*ast.FuncDecl); ok && fd.Recv == nil && fd.Body != nil {
					g.sub[dir][fd.Name.Name] = fd
				}
			}
		}
	}
	return g.sub[dir][name]
}

func (f *lfn) imports(suffix, name string) bool {
	file := f.g.pkg.files[filepath.Base(f.g.pkg.fset.Position(f.curPos).Filename)]
	if file == nil {
		return false
	}
	for _, imp := range file.Imports {
		path, _ := strconv.Unquote(imp.Path.Value)
		if strings.HasSuffix(path, suffix) {
			if imp.Name != nil {
				return imp.Name.Name == name
			}
			return name == strings.TrimPrefix(path[strings.LastIndex(path, "/")+1:], "go-")
		}
	}
	return false
}

// args of a call of a package function: values in the order of the parameters
func (f *lfn) argValues(x *ast.CallExpr, fd *ast.FuncDecl, env *lenv) (code, []lval, []string, []lty) {
	if x.Ellipsis.IsValid() {
		f.fail(x.Pos(), "variadic call")
	}
	var names []string
	var tys []lty
	for _, p := range fd.Type.Params.List {
		t := f.g.ltyOf(p.Type)
		if t.kind == kNone || t.kind == kErr || t.kind == kBool {
			f.fail(x.Pos(), "call of %s: parameter type %s", fd.Name.Name, types.ExprString(p.Type))
		}
		if len(p.Names) == 0 {
			names, tys = append(names, "_"), append(tys, t)
		}
		for _, n := range p.Names {
			names, tys = append(names, n.Name), append(tys, t)
		}
	}
	if len(names) != len(x.Args) {
		f.fail(x.Pos(), "call of %s: %d arguments for %d parameters", fd.Name.Name, len(x.Args), len(names))
	}
	var pre code
	var vals []lval
	for i, a := range x.Args {
		v := f.expr(a, env)
		if v.ty.kind == kUntyped && tys[i].kind == kInt {
			v = f.typedConst(v, tys[i].ity, a.Pos())
		}
		if v.ty != tys[i] {
			f.fail(a.Pos(), "argument %s of type %s for parameter `%s %s`", types.ExprString(a), v.ty, names[i], tys[i])
		}
		if v.ty.kind == kRec {
			if _, ok := a.(*ast.Ident); !ok {
				f.fail(a.Pos(), "pointer argument %s", types.ExprString(a))
			}
		}
		pre = append(pre, v.pre...)
		v.pre = nil
		vals = append(vals, v)
	}
	return pre, vals, names, tys
}

// rootCall: a call of another translated function
func (f *lfn) rootCall(x *ast.CallExpr, sp *loopSpec, obj *lvar, env *lenv, nres int) []lval {
	sum := f.g.translate(sp)
	if !sum.ok {
		f.fail(x.Pos(), "call of %s, which could not be translated", sp.fn)
	}
	if len(sum.results) != nres {
		f.fail(x.Pos(), "%s has %d results, %d are consumed", sp.fn, len(sum.results), nres)
	}
	fd := f.g.methodOn(obj.struc, sp.fn)
	pre, vals, _, _ := f.argValues(x, fd, env)
	text := sp.lean
	for _, e := range sortedKeys(sum.externs) {
		f.externs[e] = true
		text += " " + loopExterns[e].param
	}
	text += " " + obj.lean
	for i, v := range vals {
		if v.ty.kind == kSlice && !v.fresh {
			f.fail(x.Args[i].Pos(), "slice argument %s (slices are values in the translation)", types.ExprString(x.Args[i]))
		}
		text += " " + v.s.paren()
	}
	var pat []string
	if sum.mutRecv {
		if !obj.isRecv {
			f.fail(x.Pos(), "%s stores to its receiver and is called on the pointer parameter `%s`", sp.fn, obj.goName)
		}
		f.noteWrite(lpath{v: obj}, true)
		pat = append(pat, obj.lean)
	} else {
		f.noteRead(lpath{v: obj}, false)
	}
	var out []lval
	for _, t := range sum.results {
		if t.kind == kErr {
			f.fail(x.Pos(), "the error result of %s is consumed", sp.fn)
		}
		n := f.newTmp(t.lean())
		pat = append(pat, n)
		out = append(out, lval{s: lexpr{n, true}, ty: t, fresh: true})
	}
	p := strings.Join(pat, ", ")
	if len(pat) != 1 {
		p = "(" + p + ")"
	}
	pre = append(pre, fmt.Sprintf("(%s).bind fun %s =>", text, p))
	if len(out) == 0 {
		return []lval{{pre: pre}}
	}
	out[0].pre = pre
	return out
}

func sortedKeys(m map[string]bool) []string {
	var s []string
	for k := range m {
		s = append(s, k)
	}
	sort.Strings(s)
	return s
}

// inlineCall: the body of an unexported function / method, as a compound statement
func (f *lfn) inlineCall(x *ast.CallExpr, fd *ast.FuncDecl, obj *lvar, env *lenv, nres int) []lval {
	name := fd.Name.Name
	if len(f.inline) >= 3 {
		f.fail(x.Pos(), "call of %s: helpers nested deeper than 3", name)
	}
	if fd == f.fd {
		f.fail(x.Pos(), "call of %s: recursion", name)
	}
	for _, d := range f.inline {
		if d == fd {
			f.fail(x.Pos(), "call of %s: recursion", name)
		}
	}
	var rtys []lty
	if fd.Type.Results != nil {
		for _, r := range fd.Type.Results.List {
			t := f.g.ltyOf(r.Type)
			if len(r.Names) > 0 {
				f.fail(x.Pos(), "call of %s: named results", name)
			}
			if t.kind != kInt && t.kind != kSlice {
				f.fail(x.Pos(), "call of %s: result type %s", name, types.ExprString(r.Type))
			}
			rtys = append(rtys, t)
		}
	}
	if len(rtys) != nres {
		f.fail(x.Pos(), "%s has %d results, %d are consumed", name, len(rtys), nres)
	}
	pre, vals, names, tys := f.argValues(x, fd, env)
	f.collectNames(fd)
	// the helper's environment: its receiver is the object of the call, its parameters are new locals
	henv := &lenv{vars: map[string]*lvar{}}
	if obj != nil {
		r := fd.Recv.List[0]
		if len(r.Names) == 1 && r.Names[0].Name != "_" {
			o := *obj
			o.goName = r.Names[0].Name
			o.struc = typeName(r.Type)
			// the same Lean variable under the helper's name for it
			henv.vars[o.goName] = f.sameAs(obj, &o)
		}
	}
	var lets code
	for i, n := range names {
		if n == "_" {
			continue
		}
		v := vals[i]
		if tys[i].kind == kRec {
			a := env.vars[x.Args[i].(*ast.Ident).Name]
			o := *a
			o.goName = n
			henv.vars[n] = f.sameAs(a, &o)
			continue
		}
		if tys[i].kind == kSlice && !v.fresh {
			f.fail(x.Args[i].Pos(), "slice argument %s (slices are values in the translation)", types.ExprString(x.Args[i]))
		}
		pv := f.newVar(n, tys[i])
		if pv.lean == f.recv.lean {
			f.fail(x.Pos(), "call of %s: parameter `%s` has the name of the receiver", name, n)
		}
		if v.s.s != pv.lean {
			t := f.newTmp(tys[i].lean())
			pre = append(pre, fmt.Sprintf("let %s : %s := %s", t, tys[i].lean(), v.s.s))
			lets = append(lets, fmt.Sprintf("let %s : %s := %s", pv.lean, tys[i].lean(), t))
		}
		henv.vars[n] = pv
	}
	// `return` may also end an `if` branch of the helper (as in the translated functions themselves): every return
	// yields the tuple (outer variables assigned, results), and so does the end of a result-less body
	f.inline = append(f.inline, fd)
	var resTmp []string
	hits, _, text := f.compound(env, false, func(k func(*lenv, []string) code) code {
		saveNR, saveRet := f.noReturn, f.retK
		f.noReturn = 0
		defer func() { f.noReturn, f.retK = saveNR, saveRet }()
		f.retK = func(e *lenv, vals []ast.Expr, pos token.Pos) code {
			if len(vals) != nres {
				f.fail(pos, "%s returns %d values, %d are consumed", name, len(vals), nres)
			}
			var c code
			var rs []string
			for i, r := range vals {
				v := f.expr(r, e)
				if v.ty.kind == kUntyped && rtys[i].kind == kInt {
					v = f.typedConst(v, rtys[i].ity, r.Pos())
				}
				if v.ty != rtys[i] {
					f.fail(r.Pos(), "%s returns a %s as %s", name, v.ty, rtys[i])
				}
				if v.ty.kind == kSlice && !v.fresh && !f.freshLocal(r, e, env) {
					f.fail(r.Pos(), "%s returns a slice that is not a local copy (slices are values in the translation)", name)
				}
				c = append(c, v.pre...)
				rs = append(rs, v.s.s)
			}
			return append(c, k(e, rs)...)
		}
		return f.block(fd.Body.List, henv, func(e *lenv) code {
			if nres > 0 {
				f.fail(x.Pos(), "call of %s: its body does not end in a return of %d values", name, nres)
			}
			return k(e, nil)
		})
	})
	f.inline = f.inline[:len(f.inline)-1]
	pat := []string{}
	for _, h := range hits {
		pat = append(pat, h.lean)
	}
	var out []lval
	for i := range rtys {
		t := f.newTmp(rtys[i].lean())
		resTmp = append(resTmp, t)
		pat = append(pat, t)
		out = append(out, lval{s: lexpr{t, true}, ty: rtys[i], fresh: true})
	}
	p := strings.Join(pat, ", ")
	if len(pat) != 1 {
		p = "(" + p + ")"
	}
	pre = append(pre, fmt.Sprintf("(-- inlined: %s", name))
	pre = append(pre, indent(lets, 1)...)
	pre = append(pre, indent(text, 1)...)
	pre[len(pre)-1] += ").bind fun " + p + " =>"
	if len(out) == 0 {
		return []lval{{pre: pre}}
	}
	out[0].pre = pre
	return out
}

// sameAs: `o` is another Go name of the Lean variable `v` (writes are recorded on `v`)
func (f *lfn) sameAs(v, o *lvar) *lvar {
	if o.goName == v.goName && o.struc == v.struc {
		return v
	}
	o.same = v
	return o
}

// freshLocal: the returned expression is a local slice of the helper that was made there
func (f *lfn) freshLocal(e ast.Expr, henv, outer *lenv) bool {
	id, ok := e.(*ast.Ident)
	if !ok {
		return false
	}
	v := henv.vars[id.Name]
	return v != nil && v.fresh && v.alias == nil
}

func (f *lfn) collectNames(fd *ast.FuncDecl) {
	ast.Inspect(fd, func(n ast.Node) bool {
		if id, ok := n.(*ast.Ident); ok {
			f.names[id.Name] = true
		}
		return true
	})
}

// ---------------------------------------------------------------------------------------------
// statements

func (v *lvar) root() *lvar {
	for v.same != nil {
		v = v.same
	}
	return v
}

// compound: a statement whose effect is the tuple of the outer variables it assigns.  The body is compiled twice:
// once to learn which variables these are, once with the continuation `some (tuple)`.
func (f *lfn) compound(env *lenv, isLoop bool, gen func(k func(*lenv, []string) code) code) ([]*lvar, *lrecorder, code) {
	tmp, nloops, ndefs, written := f.tmp, f.nloops, len(f.defs), map[string]bool{}
	for k := range f.recvWritten {
		written[k] = true
	}
	f.noReturn++
	rec := f.pushRec(env)
	gen(func(*lenv, []string) code { return nil })
	f.popRec()
	hits := append([]*lvar{}, rec.hit...)
	sort.Slice(hits, func(i, j int) bool { return hits[i].seq < hits[j].seq })
	f.tmp, f.nloops, f.defs = tmp, nloops, f.defs[:ndefs]
	if !isLoop {
		f.recvWritten = written
	}
	rec2 := f.pushRec(env)
	text := gen(func(e *lenv, extra []string) code {
		parts := []string{}
		for _, h := range hits {
			parts = append(parts, h.lean)
		}
		parts = append(parts, extra...)
		switch len(parts) {
		case 0:
			return code{"some ()"}
		case 1:
			if strings.ContainsAny(parts[0], " ") {
				return code{"some (" + parts[0] + ")"}
			}
			return code{"some " + parts[0]}
		}
		return code{"some (" + strings.Join(parts, ", ") + ")"}
	})
	f.popRec()
	f.noReturn--
	return hits, rec2, text
}

func (f *lfn) block(list []ast.Stmt, env *lenv, k func(*lenv) code) code {
	if len(list) == 0 {
		return k(env)
	}
	return f.stmt(list[0], env, func(e *lenv) code { return f.block(list[1:], e, k) }, len(list) == 1)
}

// store `p = mk(old)`; needOld: the old value of the element is read
func (f *lfn) store(p lpath, pos token.Pos, needOld bool, mk func(old string) lval) code {
	v := p.v.root()
	if v.isPtr {
		f.fail(pos, "store to the pointer parameter `%s` (only the receiver is threaded through)", p.v.goName)
	}
	if v.loopVar {
		f.fail(pos, "the loop variable `%s` is assigned", p.v.goName)
	}
	d := len(p.idx)
	cont := p
	if d > 0 {
		cont.idx = p.idx[:d-1]
	}
	pre, texts := f.chain(cont, false)
	base := v.ty
	for _, fl := range f.g.fields {
		if p.field != "" && fl.name == p.field {
			base = fl.ty
		}
	}
	old := ""
	if needOld {
		if d == 0 {
			old = p.baseText()
		} else {
			old = f.newTmp(p.ty.lean())
			pre = append(pre, fmt.Sprintf("(GoLoop.idx %s %s).bind fun %s =>", texts[d-1], p.idx[d-1], old))
		}
	}
	nv := mk(old)
	if nv.ty.kind == kUntyped && p.ty.kind == kInt {
		nv = f.typedConst(nv, p.ty.ity, pos)
	}
	if nv.ty != p.ty {
		f.fail(pos, "a value of type %s is stored to a %s", nv.ty, p.ty)
	}
	if nv.ty.kind == kSlice && !nv.fresh {
		f.fail(pos, "a slice is copied into another variable / element (slices are values in the translation)")
	}
	if nv.ty.kind != kInt && nv.ty.kind != kSlice {
		f.fail(pos, "store of a %s", nv.ty)
	}
	pre = append(pre, nv.pre...)
	val := nv.s.s
	for k := d - 1; k >= 0; k-- {
		ty := lty{kind: kSlice, ity: base.ity, depth: base.depth - k}.lean()
		t := f.newTmp(ty)
		if strings.ContainsAny(val, " ") {
			val = "(" + val + ")"
		}
		pre = append(pre, fmt.Sprintf("(GoLoop.set1 %s %s %s).bind fun %s =>", texts[k], p.idx[k], val, t))
		val = t
	}
	f.noteWrite(lpath{v: v, field: p.field}, p.ty.kind == kSlice)
	if p.field != "" {
		pre = append(pre, fmt.Sprintf("let %s : %s := { %s with %s := %s }", v.lean, v.ty.lean(), v.lean, leanIdent(p.field), val))
	} else {
		pre = append(pre, fmt.Sprintf("let %s : %s := %s", v.lean, v.ty.lean(), val))
	}
	return pre
}

func (f *lfn) declare(name string, ty lty, env *lenv) (*lvar, *lenv) {
	if name == "_" {
		return nil, env
	}
	if old := env.vars[name]; old != nil {
		for _, r := range f.recs {
			if r.outer[old.root()] {
				f.fail(f.curPos, "`%s` shadows a variable of an enclosing block", name)
			}
		}
	}
	v := f.newVar(name, ty)
	if v.lean == f.recv.lean || loopExternParam(v.lean) {
		f.fail(f.curPos, "local `%s` has the name of the receiver / of an external function parameter", name)
	}
	return v, env.with(v)
}

func loopExternParam(n string) bool {
	for _, e := range loopExterns {
		if e.param == n {
			return true
		}
	}
	return false
}

func (f *lfn) stmt(s ast.Stmt, env *lenv, k func(*lenv) code, last bool) code {
	f.curPos = s.Pos()
	cm := code{f.srcComment(s)}
	switch s := s.(type) {
	case *ast.EmptyStmt:
		return k(env)
	case *ast.BlockStmt:
		hits, _, text := f.compound(env, false, func(k2 func(*lenv, []string) code) code {
			return f.block(s.List, env, func(e *lenv) code { return k2(e, nil) })
		})
		return append(f.joined(text, hits), k(env)...)
	case *ast.DeferStmt:
		if f.lockCall(s.Call, env) && len(f.inline) == 0 {
			cm[0] += "   (lock call: skipped)"
			return append(cm, k(env)...)
		}
		f.fail(s.Pos(), "defer of %s (only the unlock calls of the instance mutex are recognised)", types.ExprString(s.Call.Fun))
	case *ast.ExprStmt:
		call, ok := s.X.(*ast.CallExpr)
		if !ok {
			f.fail(s.Pos(), "expression statement %s", types.ExprString(s.X))
		}
		if f.lockCall(call, env) {
			cm[0] += "   (lock call: skipped)"
			return append(cm, k(env)...)
		}
		vs := f.call(call, env, 0)
		return append(append(cm, vs[0].pre...), k(env)...)
	case *ast.IncDecStmt:
		pre, p := f.path(s.X, env)
		if p.ty.kind != kInt {
			f.fail(s.Pos(), "%s on a %s", s.Tok, p.ty)
		}
		op := " + 1"
		if s.Tok == token.DEC {
			op = " - 1"
		}
		st := f.store(p, s.Pos(), true, func(old string) lval { return lval{s: lexpr{old + op, false}, ty: p.ty} })
		return append(append(append(cm, pre...), st...), k(env)...)
	case *ast.DeclStmt:
		gd, ok := s.Decl.(*ast.GenDecl)
		if !ok || gd.Tok != token.VAR {
			f.fail(s.Pos(), "declaration statement")
		}
		out := cm
		for _, sp := range gd.Specs {
			vs := sp.(*ast.ValueSpec)
			if vs.Type == nil || (len(vs.Values) != 0 && len(vs.Values) != len(vs.Names)) {
				f.fail(s.Pos(), "var declaration without a type / with a multi-value initialiser")
			}
			t := f.g.ltyOf(vs.Type)
			if t.kind != kInt {
				f.fail(s.Pos(), "var of type %s (only the 64-bit integer types)", types.ExprString(vs.Type))
			}
			for i, n := range vs.Names {
				val := lval{s: lexpr{"0", true}, ty: t}
				if len(vs.Values) > 0 {
					val = f.expr(vs.Values[i], env)
					if val.ty.kind == kUntyped {
						val = f.typedConst(val, t.ity, s.Pos())
					}
					if val.ty != t {
						f.fail(s.Pos(), "`%s` of type %s is initialised with a %s", n.Name, t, val.ty)
					}
				}
				var v *lvar
				out = append(out, val.pre...)
				if v, env = f.declare(n.Name, t, env); v != nil {
					out = append(out, fmt.Sprintf("let %s : %s := %s", v.lean, t.lean(), val.s.s))
				}
			}
		}
		return append(out, k(env)...)
	case *ast.AssignStmt:
		return append(cm, f.assign(s, env, k)...)
	case *ast.IfStmt:
		return append(cm, f.ifStmt(s, env, k)...)
	case *ast.ForStmt, *ast.RangeStmt:
		return append(cm, f.loop(s, env, k)...)
	case *ast.ReturnStmt:
		if f.noReturn > 0 || !last {
			f.fail(s.Pos(), "return inside a loop / a branch that is joined / a helper, or not as the last statement of its block")
		}
		return append(cm, f.retK(env, s.Results, s.Pos())...)
	}
	f.fail(s.Pos(), "statement %T", s)
	return nil
}

// joined: `(text).bind fun tuple =>`
func (f *lfn) joined(text code, hits []*lvar) code {
	out := append(code{}, text...)
	out[0] = "(" + out[0]
	for i := 1; i < len(out); i++ {
		out[i] = " " + out[i]
	}
	out[len(out)-1] += ").bind fun " + tupleOf(hits) + " =>"
	return out
}

func (f *lfn) assign(s *ast.AssignStmt, env *lenv, k func(*lenv) code) code {
	if s.Tok == token.DEFINE {
		if len(s.Rhs) == 1 && len(s.Lhs) > 1 {
			call, ok := s.Rhs[0].(*ast.CallExpr)
			if !ok {
				f.fail(s.Pos(), "multi-value definition from %s", types.ExprString(s.Rhs[0]))
			}
			vs := f.call(call, env, len(s.Lhs))
			out := append(code{}, vs[0].pre...)
			for i, l := range s.Lhs {
				id, ok := l.(*ast.Ident)
				if !ok {
					f.fail(s.Pos(), "definition of %s", types.ExprString(l))
				}
				var v *lvar
				if v, env = f.declare(id.Name, vs[i].ty, env); v != nil {
					v.fresh = vs[i].fresh
					out = append(out, fmt.Sprintf("let %s : %s := %s", v.lean, v.ty.lean(), vs[i].s.s))
				}
			}
			return append(out, k(env)...)
		}
		if len(s.Lhs) != 1 || len(s.Rhs) != 1 {
			f.fail(s.Pos(), "multiple definition")
		}
		id, ok := s.Lhs[0].(*ast.Ident)
		if !ok {
			f.fail(s.Pos(), "definition of %s", types.ExprString(s.Lhs[0]))
		}
		// an element slice taken into a local: the local stands for the path
		if ix, ok := s.Rhs[0].(*ast.IndexExpr); ok {
			if pre, p := f.path(ix, env); p.ty.kind == kSlice {
				return append(pre, f.aliasLocal(id.Name, p, ix, env, k)...)
			}
		}
		val := f.expr(s.Rhs[0], env)
		if val.ty.kind == kUntyped {
			val = f.typedConst(val, tyInt, s.Pos())
		}
		if val.ty.kind == kSlice && !val.fresh {
			f.fail(s.Pos(), "a slice is copied into another variable (slices are values in the translation)")
		}
		if val.ty.kind != kInt && val.ty.kind != kSlice && val.ty.kind != kBool {
			f.fail(s.Pos(), "definition of a %s", val.ty)
		}
		out := append(code{}, val.pre...)
		var v *lvar
		if v, env = f.declare(id.Name, val.ty, env); v != nil {
			v.fresh = val.fresh
			out = append(out, fmt.Sprintf("let %s : %s := %s", v.lean, v.ty.lean(), val.s.s))
		}
		return append(out, k(env)...)
	}
	if len(s.Lhs) != 1 || len(s.Rhs) != 1 {
		f.fail(s.Pos(), "multiple assignment")
	}
	pre, p := f.path(s.Lhs[0], env)
	var st code
	if s.Tok == token.ASSIGN {
		st = f.store(p, s.Pos(), false, func(string) lval { return f.expr(s.Rhs[0], env) })
	} else {
		op, ok := opAssign[s.Tok]
		if !ok {
			f.fail(s.Pos(), "assignment operator %s", s.Tok)
		}
		if p.ty.kind != kInt {
			f.fail(s.Pos(), "%s on a %s", s.Tok, p.ty)
		}
		st = f.store(p, s.Pos(), true, func(old string) lval {
			// `x op= e` is `x = x op (e)`: the old value enters as a variable of the expression
			ov := f.newVar("\x00old", p.ty)
			ov.lean = old
			e2 := env.with(ov)
			return f.binary(&ast.BinaryExpr{X: &ast.Ident{Name: "\x00old", NamePos: s.Pos()}, OpPos: s.TokPos, Op: op, Y: s.Rhs[0]}, e2)
		})
	}
	return append(append(pre, st...), k(env)...)
}

func (f *lfn) aliasLocal(name string, p lpath, ix *ast.IndexExpr, env *lenv, k func(*lenv) code) code {
	// the index expressions must be variables / constants that keep their value
	for e := ast.Expr(ix); ; {
		x, ok := e.(*ast.IndexExpr)
		if !ok {
			break
		}
		switch i := x.Index.(type) {
		case *ast.BasicLit:
		case *ast.Ident:
			if v := env.vars[i.Name]; v != nil {
				f.aliasIdx = append(f.aliasIdx, v)
			}
		default:
			f.fail(x.Pos(), "element slice %s taken into a local: the index must be a variable or a literal", types.ExprString(ix))
		}
		e = x.X
	}
	pre, _ := f.chain(p, false) // the bounds checks of the Go statement
	v := f.newVar(name, p.ty)
	v.alias = &p
	f.aliasIdx = append(f.aliasIdx, v)
	f.aliasKeys[p.key()] = true
	return append(pre, k(env.with(v))...)
}

func (f *lfn) cond(e ast.Expr, env *lenv) lval {
	c := f.expr(e, env)
	if c.ty.kind != kBool {
		f.fail(e.Pos(), "condition of type %s", c.ty)
	}
	return c
}

func endsInReturn(b *ast.BlockStmt) bool {
	if n := len(b.List); n > 0 {
		_, ok := b.List[n-1].(*ast.ReturnStmt)
		return ok
	}
	return false
}

func (f *lfn) ifStmt(s *ast.IfStmt, env *lenv, k func(*lenv) code) code {
	if s.Init != nil {
		f.fail(s.Pos(), "if with an init statement")
	}
	c := f.cond(s.Cond, env)
	var elseList []ast.Stmt
	switch e := s.Else.(type) {
	case *ast.BlockStmt:
		elseList = e.List
	case *ast.IfStmt:
		elseList = []ast.Stmt{e}
	}
	thenRet := endsInReturn(s.Body)
	elseRet := false
	if b, ok := s.Else.(*ast.BlockStmt); ok {
		elseRet = endsInReturn(b)
	}
	out := append(code{}, c.pre...)
	if (thenRet || elseRet) && f.noReturn == 0 {
		// a branch leaves the function: the rest of the block belongs to the other branch
		kt, ke := k, k
		dead := func(*lenv) code { return nil }
		if thenRet {
			kt = dead
		}
		if elseRet {
			ke = dead
		}
		out = append(out, "if "+c.s.s+" then")
		out = append(out, indent(f.block(s.Body.List, env, kt), 2)...)
		out = append(out, "else")
		return append(out, indent(f.block(elseList, env, ke), 2)...)
	}
	hits, _, text := f.compound(env, false, func(k2 func(*lenv, []string) code) code {
		t := code{"if " + c.s.s + " then"}
		t = append(t, indent(f.block(s.Body.List, env, func(e *lenv) code { return k2(e, nil) }), 2)...)
		t = append(t, "else")
		return append(t, indent(f.block(elseList, env, func(e *lenv) code { return k2(e, nil) }), 2)...)
	})
	return append(append(out, f.joined(text, hits)...), k(env)...)
}

// ---------------------------------------------------------------------------------------------
// loops

var identRe = regexp.MustCompile(`[A-Za-z_«][A-Za-z0-9_'«»]*`)

func zeroConst(e ast.Expr) (goTy, bool) {
	switch x := e.(type) {
	case *ast.ParenExpr:
		return zeroConst(x.X)
	case *ast.BasicLit:
		if v := constValue(x); v != nil && v.Sign() == 0 {
			return tyInt, true
		}
	case *ast.CallExpr:
		if id, ok := x.Fun.(*ast.Ident); ok && len(x.Args) == 1 && is64(goTyNames[id.Name]) {
			if _, ok := zeroConst(x.Args[0]); ok {
				return goTyNames[id.Name], true
			}
		}
	}
	return tyNone, false
}

func (f *lfn) loop(s ast.Stmt, env *lenv, k func(*lenv) code) code {
	var pre code
	var nText string // the number of iterations (a Nat)
	var keyName, valName string
	var keyTy goTy = tyInt
	var valTy lty
	var ranged string // Lean text of the ranged slice (for `v`)
	var valAlias *lpath
	var body *ast.BlockStmt
	checkHeader := false
	hdr := f.pushRec(env)
	switch s := s.(type) {
	case *ast.RangeStmt:
		body = s.Body
		if s.Tok != token.DEFINE && (s.Key != nil || s.Value != nil) {
			f.fail(s.Pos(), "range loop that assigns existing variables")
		}
		name := func(e ast.Expr) string {
			if e == nil {
				return ""
			}
			id, ok := e.(*ast.Ident)
			if !ok {
				f.fail(s.Pos(), "range variable %s", types.ExprString(e))
			}
			if id.Name == "_" {
				return ""
			}
			return id.Name
		}
		keyName, valName = name(s.Key), name(s.Value)
		var xt lty
		switch s.X.(type) {
		case *ast.Ident, *ast.SelectorExpr, *ast.IndexExpr, *ast.ParenExpr:
			p1, p := f.path(s.X, env)
			if valName != "" && p.ty.kind == kSlice && p.ty.depth == 2 {
				a := p
				valAlias = &a // `row` of `for i, row := range m`: the path m[i], not a copy
			}
			p2, texts := f.chain(p, valName == "" || valAlias != nil)
			pre, ranged, xt = append(p1, p2...), texts[len(texts)-1], p.ty
		default:
			v := f.expr(s.X, env)
			pre, xt = v.pre, v.ty
			ranged = v.s.s
			if !v.s.atomic {
				ranged = f.newTmp(v.ty.lean())
				pre = append(pre, fmt.Sprintf("let %s : %s := %s", ranged, v.ty.lean(), v.s.s))
			}
		}
		if xt.kind != kSlice {
			f.fail(s.Pos(), "range over a %s", xt)
		}
		if strings.ContainsAny(ranged, " ") {
			ranged = "(" + ranged + ")"
		}
		nText = ranged + ".length"
		if xt.depth == 1 {
			valTy = lty{kind: kInt, ity: xt.ity}
		} else {
			valTy = lty{kind: kSlice, ity: xt.ity, depth: 1}
			if valName != "" && valAlias == nil {
				f.fail(s.Pos(), "range value of slice type over something that is not a variable / field / element")
			}
		}
		checkHeader = valName != "" && valAlias == nil
	case *ast.ForStmt:
		body = s.Body
		bad := func() { f.fail(s.Pos(), "for loop that is not `for i := 0; i < N; i++`") }
		init, ok := s.Init.(*ast.AssignStmt)
		if !ok || init.Tok != token.DEFINE || len(init.Lhs) != 1 || len(init.Rhs) != 1 || s.Cond == nil || s.Post == nil {
			bad()
		}
		id, ok := init.Lhs[0].(*ast.Ident)
		if !ok || id.Name == "_" {
			bad()
		}
		keyName = id.Name
		if keyTy, ok = zeroConst(init.Rhs[0]); !ok {
			bad()
		}
		cnd, ok := s.Cond.(*ast.BinaryExpr)
		if !ok || cnd.Op != token.LSS {
			bad()
		}
		if ci, ok := cnd.X.(*ast.Ident); !ok || ci.Name != keyName {
			bad()
		}
		switch p := s.Post.(type) {
		case *ast.IncDecStmt:
			if pi, ok := p.X.(*ast.Ident); !ok || pi.Name != keyName || p.Tok != token.INC {
				bad()
			}
		case *ast.AssignStmt:
			one := len(p.Rhs) == 1 && constValue(p.Rhs[0]) != nil && constValue(p.Rhs[0]).Cmp(big.NewInt(1)) == 0
			if pi, ok := p.Lhs[0].(*ast.Ident); !ok || len(p.Lhs) != 1 || pi.Name != keyName || p.Tok != token.ADD_ASSIGN || !one {
				bad()
			}
		default:
			bad()
		}
		if env.vars[keyName] != nil && mentioned(cnd.Y)[keyName] {
			f.fail(s.Pos(), "the loop bound mentions the variable `%s` that the loop variable shadows", keyName)
		}
		n := f.expr(cnd.Y, env)
		pre = n.pre
		switch {
		case n.ty.kind == kUntyped:
			if n.cv.Sign() < 0 || n.cv.BitLen() > 63 {
				f.fail(s.Pos(), "loop bound %s", n.cv)
			}
			nText = n.cv.String()
		case n.ty.kind != kInt || n.ty.ity != keyTy:
			f.fail(s.Pos(), "loop variable of type %s, bound of type %s", keyTy, n.ty)
		case n.lenOf != "":
			nText = n.lenOf + ".length"
		case keyTy.signed():
			nText = "(GoLoop.intToNat " + n.s.paren() + ")"
		default:
			nText = n.s.paren() + ".toNat"
		}
		checkHeader = true
	}
	f.popRec()
	// the body
	natName := "i_n"
	if keyName != "" {
		natName = keyName + "_n"
	}
	for f.names[natName] {
		natName += "'"
	}
	tmpStart := f.tmp
	f.loopNest++
	var benvOut *lenv
	hits, rec, text := f.compound(env, true, func(k2 func(*lenv, []string) code) code {
		benv := env
		var c code
		if keyName != "" {
			var kv *lvar
			if kv, benv = f.declare(keyName, lty{kind: kInt, ity: keyTy}, benv); kv != nil {
				kv.loopVar = true
				c = append(c, fmt.Sprintf("let %s : UInt64 := UInt64.ofNat %s", kv.lean, natName))
			}
		}
		if valName != "" {
			if valAlias != nil {
				a := *valAlias
				a.idx = append(append([]string{}, a.idx...), natName)
				a.ty = valTy
				v := f.newVar(valName, valTy)
				v.alias = &a
				v.loopVar = true
				f.aliasKeys[a.key()] = true
				benv = benv.with(v)
			} else {
				var vv *lvar
				if vv, benv = f.declare(valName, valTy, benv); vv != nil {
					c = append(c, fmt.Sprintf("(GoLoop.idx %s %s).bind fun %s =>", ranged, natName, vv.lean))
				}
			}
		}
		benvOut = benv
		return append(c, f.block(body.List, benv, func(e *lenv) code { return k2(e, nil) })...)
	})
	f.loopNest--
	_ = benvOut
	if checkHeader {
		for _, key := range sortedKeys(hdr.reads) { // (values: whether more than the length is read)
			full := hdr.reads[key]
			if shape, written := rec.writes[key]; written && (full || shape) {
				f.fail(s.Pos(), "the loop bound / the ranged slice (%s) is changed by the loop body", key)
			}
		}
	}
	st := tupleOf(hits)
	loopText := code{fmt.Sprintf("GoLoop.forN %s %s fun %s %s =>", nText, st, natName, st)}
	loopText = append(loopText, indent(text, 2)...)
	if f.loopNest > 0 {
		return append(append(pre, f.joined(loopText, hits)...), k(env)...)
	}
	// the outermost loop of a nest: its own definition; parameters = the variables its text mentions
	f.nloops++
	name := fmt.Sprintf("%s_loop%d", f.spec.lean, f.nloops)
	used := map[string]bool{}
	for _, l := range loopText {
		if strings.HasPrefix(strings.TrimSpace(l), "--") {
			continue
		}
		for _, m := range identRe.FindAllString(l, -1) {
			used[m] = true
		}
	}
	var params, args []string
	for _, e := range sortedKeys(f.externs) {
		if x := loopExterns[e]; used[x.param] {
			params = append(params, fmt.Sprintf("(%s : %s)", x.param, x.leanTy))
			args = append(args, x.param)
		}
	}
	var vs []*lvar
	seen := map[string]bool{}
	for _, v := range env.vars {
		if r := v.root(); r.alias == nil && used[r.lean] && !seen[r.lean] {
			seen[r.lean] = true
			vs = append(vs, r)
		}
	}
	// parameter order: by first USE in the loop text (bound first, then the body), so that re-ordering
	// independent statements before the loop or renaming locals does not permute the parameters
	firstUse := map[string]int{}
	pos := 0
	for _, l := range loopText {
		if strings.HasPrefix(strings.TrimSpace(l), "--") {
			continue
		}
		for _, m := range identRe.FindAllString(l, -1) {
			pos++
			if _, ok := firstUse[m]; !ok {
				firstUse[m] = pos
			}
		}
	}
	recvLean := ""
	if f.recv != nil {
		recvLean = f.recv.root().lean
	}
	sort.SliceStable(vs, func(i, j int) bool {
		// the receiver stays first
		if (vs[i].lean == recvLean) != (vs[j].lean == recvLean) {
			return vs[i].lean == recvLean
		}
		a, b := firstUse[vs[i].lean], firstUse[vs[j].lean]
		if a != b {
			return a < b
		}
		return vs[i].seq < vs[j].seq
	})
	for _, v := range vs {
		params = append(params, fmt.Sprintf("(%s : %s)", v.lean, v.ty.lean()))
		args = append(args, v.lean)
	}
	for i := 1; i <= tmpStart; i++ {
		if t := fmt.Sprintf("t%d", i); used[t] && f.tmpTy[t] != "" {
			params = append(params, fmt.Sprintf("(%s : %s)", t, f.tmpTy[t]))
			args = append(args, t)
		}
	}
	var d strings.Builder
	fmt.Fprintf(&d, "/-- the loop of %s at %s -/\n", f.spec.fn, f.at(s.Pos()))
	fmt.Fprintf(&d, "def %s %s : Option %s :=\n", name, strings.Join(params, " "), parenTy(tupleTy(hits)))
	d.WriteString("  " + f.srcComment(s) + "\n")
	for _, l := range loopText {
		d.WriteString("  " + l + "\n")
	}
	f.defs = append(f.defs, d.String())
	call := name
	if len(args) > 0 {
		call += " " + strings.Join(args, " ")
	}
	pre = append(pre, fmt.Sprintf("(%s).bind fun %s =>", call, st))
	return append(pre, k(env)...)
}

func (f *lfn) at(pos token.Pos) string {
	p := f.g.pkg.fset.Position(pos)
	return fmt.Sprintf("%s:%d", filepath.Base(p.Filename), p.Line)
}

// ---------------------------------------------------------------------------------------------
// functions

var wordRe = regexp.MustCompile(`[A-Za-z]+`)

// errCtorNames: one constructor per error exit, named after the first word of its text that no other exit's text has
func errCtorNames(texts []string) ([]string, bool) {
	words := make([][]string, len(texts))
	for i, t := range texts {
		for _, w := range wordRe.FindAllString(t, -1) {
			words[i] = append(words[i], strings.ToLower(w))
		}
	}
	names := make([]string, len(texts))
	for i := range texts {
		if len(texts) == 1 {
			names[i] = "err"
			continue
		}
		for _, w := range words[i] {
			unique := true
			for j := range texts {
				if j == i {
					continue
				}
				for _, w2 := range words[j] {
					if w2 == w {
						unique = false
					}
				}
			}
			if unique {
				names[i] = "err" + strings.ToUpper(w[:1]) + w[1:]
				break
			}
		}
		if names[i] == "" {
			return nil, false
		}
	}
	return names, true
}

// errorSite: `fmt.Errorf("literal", ...)` / `errors.New("literal")`
func errorSite(e ast.Expr) (*ast.CallExpr, string, bool) {
	call, ok := e.(*ast.CallExpr)
	if !ok || len(call.Args) == 0 {
		return nil, "", false
	}
	switch types.ExprString(call.Fun) {
	case "fmt.Errorf":
	case "errors.New":
		if len(call.Args) != 1 {
			return nil, "", false
		}
	default:
		return nil, "", false
	}
	lit, ok := call.Args[0].(*ast.BasicLit)
	if !ok || lit.Kind != token.STRING {
		return nil, "", false
	}
	s, err := strconv.Unquote(lit.Value)
	if err != nil {
		return nil, "", false
	}
	return call, s, true
}

func (g *loopGen) findFunc(sp *loopSpec) *ast.FuncDecl {
	file := g.pkg.files[sp.file]
	if file == nil {
		return nil
	}
	var fd *ast.FuncDecl
	for _, d := range file.Decls {
		if x, ok := d.(*ast.FuncDecl); ok && x.Name.Name == sp.fn && x.Body != nil && x.Recv != nil && len(x.Recv.List) == 1 &&
			typeName(x.Recv.List[0].Type) == sp.recv {
			fd = x
		}
	}
	return fd
}

func (g *loopGen) translate(sp *loopSpec) *fnSummary {
	if s, ok := g.done[sp.lean]; ok {
		if s == nil {
			return &fnSummary{spec: sp} // recursion
		}
		return s
	}
	g.done[sp.lean] = nil
	sum := &fnSummary{spec: sp, externs: map[string]bool{}}
	g.done[sp.lean] = sum
	fd := g.findFunc(sp)
	if fd == nil {
		g.why[sp.lean] = fmt.Sprintf("%s: function %s.%s not found", sp.file, sp.recv, sp.fn)
		return sum
	}
	var text string
	func() {
		defer func() {
			if r := recover(); r != nil {
				u, ok := r.(unsupportedErr)
				if !ok {
					panic(r)
				}
				g.why[sp.lean] = u.why
			}
		}()
		mut := false
		for pass := 0; pass < 2; pass++ {
			f := &lfn{g: g, spec: sp, fd: fd, tmpTy: map[string]string{}, externs: map[string]bool{}, errSites: map[*ast.CallExpr]string{}, recvWritten: map[string]bool{},
				names: map[string]bool{}, aliasKeys: map[string]bool{}}
			text = f.function(mut, sum)
			mut = f.recv.writes > 0
		}
		sum.mutRecv = mut
		sum.ok = true
	}()
	if sum.ok {
		g.out[sp.lean] = text
	}
	return sum
}

func (f *lfn) function(mutRecv bool, sum *fnSummary) string {
	fd, g := f.fd, f.g
	f.curPos = fd.Pos()
	f.collectNames(fd)
	r := fd.Recv.List[0]
	if len(r.Names) != 1 || r.Names[0].Name == "_" {
		f.fail(fd.Pos(), "the receiver has no name")
	}
	if _, ptr := r.Type.(*ast.StarExpr); !ptr {
		f.fail(fd.Pos(), "value receiver")
	}
	f.recv = f.newVar(r.Names[0].Name, lty{kind: kRec})
	f.recv.isRecv, f.recv.struc = true, typeName(r.Type)
	if loopExternParam(f.recv.lean) {
		f.fail(fd.Pos(), "the receiver has the name of an external function parameter")
	}
	env := (&lenv{vars: map[string]*lvar{}}).with(f.recv)
	var params []*lvar
	for _, p := range fd.Type.Params.List {
		t := g.ltyOf(p.Type)
		if t.kind != kInt && t.kind != kBytes && t.kind != kRec {
			f.fail(p.Pos(), "parameter of type %s", types.ExprString(p.Type))
		}
		for _, n := range p.Names {
			if n.Name == "_" {
				f.fail(p.Pos(), "unnamed parameter")
			}
			var v *lvar
			v, env = f.declare(n.Name, t, env)
			if t.kind == kRec {
				v.isPtr, v.struc = true, typeName(p.Type)
			}
			params = append(params, v)
		}
		if len(p.Names) == 0 {
			f.fail(p.Pos(), "unnamed parameter")
		}
	}
	f.results = nil
	hasErr := false
	if fd.Type.Results != nil {
		for _, r := range fd.Type.Results.List {
			if len(r.Names) > 0 {
				f.fail(r.Pos(), "named results")
			}
			t := g.ltyOf(r.Type)
			if t.kind != kInt && t.kind != kSlice && t.kind != kErr {
				f.fail(r.Pos(), "result of type %s", types.ExprString(r.Type))
			}
			hasErr = hasErr || t.kind == kErr
			f.results = append(f.results, t)
		}
	}
	errTy := f.spec.lean + "Err"
	if hasErr {
		ast.Inspect(fd.Body, func(n ast.Node) bool {
			if ret, ok := n.(*ast.ReturnStmt); ok {
				for _, e := range ret.Results {
					if call, text, ok := errorSite(e); ok {
						f.errSites[call] = ""
						f.errTexts = append(f.errTexts, text)
					}
				}
			}
			return true
		})
		var ok bool
		if f.errCtors, ok = errCtorNames(f.errTexts); !ok {
			f.fail(fd.Pos(), "the texts of the error exits cannot be told apart by a word")
		}
		i := 0
		ast.Inspect(fd.Body, func(n ast.Node) bool {
			if ret, ok := n.(*ast.ReturnStmt); ok {
				for _, e := range ret.Results {
					if call, _, ok := errorSite(e); ok {
						f.errSites[call] = f.errCtors[i]
						i++
					}
				}
			}
			return true
		})
	}
	resTy := []string{}
	if mutRecv {
		resTy = append(resTy, loopRecord)
	}
	for _, t := range f.results {
		if t.kind == kErr {
			resTy = append(resTy, errTy)
		} else {
			resTy = append(resTy, t.lean())
		}
	}
	finish := func(parts []string) code {
		if mutRecv {
			parts = append([]string{f.recv.lean}, parts...)
		}
		switch len(parts) {
		case 0:
			return code{"some ()"}
		case 1:
			return code{"some " + parts[0]}
		}
		return code{"some (" + strings.Join(parts, ", ") + ")"}
	}
	f.retK = func(e *lenv, vals []ast.Expr, pos token.Pos) code {
		if len(vals) != len(f.results) {
			f.fail(pos, "return of %d values, the function has %d results", len(vals), len(f.results))
		}
		var c code
		var parts []string
		for i, x := range vals {
			rt := f.results[i]
			if rt.kind == kErr {
				if id, ok := x.(*ast.Ident); ok && id.Name == "nil" && e.vars["nil"] == nil {
					parts = append(parts, errTy+".nil")
					continue
				}
				call, _, ok := errorSite(x)
				if !ok {
					f.fail(x.Pos(), "error result %s (only nil, fmt.Errorf(\"literal\", ..), errors.New(\"literal\"))", types.ExprString(x))
				}
				for _, a := range call.Args[1:] {
					if v := f.expr(a, e); len(v.pre) > 0 {
						f.fail(a.Pos(), "argument %s of the error text can panic", types.ExprString(a))
					}
				}
				parts = append(parts, errTy+"."+f.errSites[call])
				continue
			}
			v := f.expr(x, e)
			if v.ty.kind == kUntyped && rt.kind == kInt {
				v = f.typedConst(v, rt.ity, x.Pos())
			}
			if v.ty != rt {
				f.fail(x.Pos(), "a %s is returned as %s", v.ty, rt)
			}
			if v.ty.kind == kSlice && !v.fresh && !f.freshLocal(x, e, nil) {
				f.fail(x.Pos(), "the returned slice is not a local made in the function (slices are values in the translation)")
			}
			c = append(c, v.pre...)
			p := v.s.s
			if len(vals) > 1 || mutRecv {
				p = v.s.s
			} else {
				p = v.s.paren()
			}
			parts = append(parts, p)
		}
		return append(c, finish(parts)...)
	}
	body := f.block(fd.Body.List, env, func(e *lenv) code {
		if len(f.results) > 0 {
			f.fail(fd.Body.Rbrace, "the function body does not end in a return")
		}
		return finish(nil)
	})
	for _, v := range f.aliasIdx {
		if v.writes > 0 {
			f.fail(fd.Pos(), "`%s` is assigned although an element-slice local depends on it", v.goName)
		}
	}
	// the text
	var b strings.Builder
	if hasErr {
		fmt.Fprintf(&b, "/-- the `error` result of %s: `nil`", f.spec.fn)
		for i, c := range f.errCtors {
			fmt.Fprintf(&b, ",\n    `%s` = %s", c, strings.ReplaceAll(strconv.Quote(f.errTexts[i]), "-/", "- /"))
		}
		fmt.Fprintf(&b, " -/\ninductive %s where\n  | nil\n", errTy)
		for _, c := range f.errCtors {
			fmt.Fprintf(&b, "  | %s\n", c)
		}
		b.WriteString("  deriving Repr, DecidableEq\n\n")
	}
	for _, d := range f.defs {
		b.WriteString(d)
		b.WriteString("\n")
	}
	fmt.Fprintf(&b, "/-- %s, %s.%s (%s), the whole body", f.spec.file, f.spec.recv, f.spec.fn, f.at(fd.Pos()))
	if mutRecv {
		b.WriteString("; the function stores to its receiver: the new receiver is the first component of the result")
	}
	b.WriteString(" -/\n")
	fmt.Fprintf(&b, "def %s", f.spec.lean)
	for _, e := range sortedKeys(f.externs) {
		fmt.Fprintf(&b, " (%s : %s)", loopExterns[e].param, loopExterns[e].leanTy)
	}
	fmt.Fprintf(&b, " (%s : %s)", f.recv.lean, loopRecord)
	for _, p := range params {
		fmt.Fprintf(&b, " (%s : %s)", p.lean, p.ty.lean())
	}
	rt := "Unit"
	if len(resTy) > 0 {
		rt = strings.Join(resTy, " × ")
	}
	fmt.Fprintf(&b, " : Option %s :=\n", parenTy(rt))
	for _, l := range body {
		b.WriteString("  " + l + "\n")
	}
	sum.results, sum.externs, sum.params, sum.errCtors = f.results, f.externs, params, f.errCtors
	return b.String()
}

// recordFields: the integer / integer-slice fields of the struct, embedded structs flattened; the mutex fields
func (g *loopGen) recordFields(struc string, depth int, skipped *[]string) {
	st := g.pkg.structs[struc]
	if st == nil || depth > 4 {
		return
	}
	for _, fl := range st.Fields.List {
		if len(fl.Names) == 0 {
			if n := typeName(fl.Type); g.pkg.structs[n] != nil {
				g.recordFields(n, depth+1, skipped)
			} else {
				*skipped = append(*skipped, types.ExprString(fl.Type)+" (embedded)")
			}
			continue
		}
		ts := strings.TrimPrefix(types.ExprString(fl.Type), "*")
		for _, n := range fl.Names {
			if ts == "sync.Mutex" || ts == "sync.RWMutex" {
				g.mutexes[n.Name] = true
				*skipped = append(*skipped, n.Name+" "+ts+" (the instance mutex)")
				continue
			}
			if t := g.ltyOf(fl.Type); t.kind == kInt || t.kind == kSlice {
				g.fields = append(g.fields, recField{n.Name, t})
			} else {
				*skipped = append(*skipped, n.Name+" "+types.ExprString(fl.Type))
			}
		}
	}
}

func genLoops(repo string) (string, error) {
	p, err := loadArithPkg(repo)
	if err != nil {
		return "", err
	}
	var b strings.Builder
	b.WriteString("/- GENERATED by /verif/extract (loops.go) from /repo's current sources on every run. DO NOT EDIT.\n")
	b.WriteString("   Whole function bodies of the in-memory Count-Min sketch, loops included, translated statement by\n")
	b.WriteString("   statement (the statement language is described in the header of extract/loops.go, its semantics\n")
	b.WriteString("   in Gostatix/Model/GoLoop.lean).  Integers are `UInt64` (uint64 / uint / int: the 64-bit pattern),\n")
	b.WriteString("   slices are `List`s, every index is checked, `none` is a Go run-time panic; the lock calls are\n")
	b.WriteString("   skipped; `metro.Hash128` is the parameter `metroHash128`.  A function outside the language has\n")
	b.WriteString("   NO definition here, only a comment and an entry in `unsupported`;\n")
	b.WriteString("   Gostatix/Props/LoopTieCMS.lean then fails to build.\n")
	b.WriteString("   Further structures follow in namespaces of their own (each with its own record and `unsupported`). -/\n")
	b.WriteString("import Gostatix.Model.GoLoop\n")
	b.WriteString("import Gostatix.Model.GoArith\n")
	b.WriteString("set_option linter.unusedVariables false\n")
	for gi := range loopGroups {
		grp := &loopGroups[gi]
		loopStruct, loopRecord, curSpecs = grp.struc, grp.record, grp.specs
		g := &loopGen{pkg: p, repo: repo, sub: map[string]map[string]*ast.FuncDecl{}, mutexes: map[string]bool{}, done: map[string]*fnSummary{}, out: map[string]string{}, why: map[string]string{}}
		if gi > 0 {
			fmt.Fprintf(&b, "\n/- the %s; a function outside the language has no definition,\n   %s then fails to build -/\n", grp.what, grp.tie)
		}
		g.group(&b, grp)
	}
	return b.String(), nil
}

func (g *loopGen) group(b *strings.Builder, grp *loopGroup) {
	var skipped []string
	g.recordFields(loopStruct, 0, &skipped)
	fmt.Fprintf(b, "namespace %s\n", grp.ns)
	b.WriteString("open Gostatix\n\n")
	fmt.Fprintf(b, "/-- the integer and integer-slice fields of %s (embedded structs flattened)", loopStruct)
	if len(skipped) > 0 {
		fmt.Fprintf(b, ";\n    not part of the record: %s", strings.Join(skipped, ", "))
	}
	b.WriteString(" -/\n")
	fmt.Fprintf(b, "structure %s where\n", loopRecord)
	for _, fl := range g.fields {
		fmt.Fprintf(b, "  %s : %s  -- %s\n", leanIdent(fl.name), fl.ty.lean(), fl.ty)
	}
	b.WriteString("  deriving Repr, DecidableEq\n\n")
	for i := range grp.specs {
		g.translate(&grp.specs[i])
	}
	var bad []string
	for i := range grp.specs {
		sp := &grp.specs[i]
		if text, ok := g.out[sp.lean]; ok {
			b.WriteString(text)
			b.WriteString("\n")
			continue
		}
		bad = append(bad, sp.lean)
		fmt.Fprintf(b, "-- %s (%s, %s.%s): UNSUPPORTED, no definition emitted: %s\n\n", sp.lean, sp.file, sp.recv, sp.fn, strings.ReplaceAll(g.why[sp.lean], "\n", " "))
	}
	b.WriteString("/-- the functions the translator could not translate (name, file:line and reason) -/\n")
	b.WriteString("def unsupported : List (String × String) := [")
	for i, n := range bad {
		if i > 0 {
			b.WriteString(",")
		}
		fmt.Fprintf(b, "\n  (%s, %s)", leanString(n), leanString(g.why[n]))
	}
	if len(bad) > 0 {
		b.WriteString("\n")
	}
	fmt.Fprintf(b, "]\n\nend %s\n", grp.ns)
}
