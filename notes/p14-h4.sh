#!/bin/bash
# P14 follow-up: apply each behaviour-preserving H4 patch (/tmp/harm/H4/_out/hN/patch.diff) to a scratch copy of
# /repo, regenerate LockTable.lean from the copy, build C07Sections + C07Lock, report, restore.  Never touches /repo.
export GOFLAGS=-mod=mod GOPROXY=off GOSUMDB=off GOTOOLCHAIN=local
ROOT=$(cd "$(dirname "$0")/.." && pwd)
R=$ROOT/tmp-repo; T=$ROOT/tmp-sens; GEN=$ROOT/lean/Gostatix/Generated/LockTable.lean
cp "$GEN" /tmp/p14-LockTable.good
for h in ${@:-h1 h2 h3 h4 h5 h6}; do
  rm -rf "$R" "$T"; mkdir -p "$T"; cp -r /repo "$R"; rm -rf "$R/.git"
  (cd "$R" && git init -q . >/dev/null 2>&1; git apply /tmp/harm/H4/_out/$h/patch.diff) || { echo "== $h: patch does not apply"; continue; }
  (cd "$R" && go build ./... 2>&1 | head -3)
  "$ROOT/extract/gsextract" -repo "$R" -out "$T" || echo "$h: extractor error"
  cp "$T/LockTable.lean" "$GEN"
  if (cd "$ROOT/lean" && lake build Gostatix.Props.C07Sections Gostatix.Props.C07Lock) > "$T/build.log" 2>&1; then res=PASS; else res=FAIL; fi
  echo "== $h: $(head -1 /tmp/harm/H4/_out/$h/README.md)"
  echo "   lake build Gostatix.Props.C07Sections Gostatix.Props.C07Lock: $res"
  grep -E "^error: Gostatix" "$T/build.log" | cut -c1-120
  diff /tmp/p14-LockTable.good "$T/LockTable.lean" | grep '^>' | grep -v "^> *-- [a-z_]*.go:[0-9]*$" | cut -c1-240 | head -${SHOW:-12}
  for f in Arith DecoderTable JsonTable LayoutTable LuaScripts Murmur; do cmp -s "$T/$f.lean" "$ROOT/lean/Gostatix/Generated/$f.lean" || echo "   (other generated file differs: $f.lean)"; done
done
cp /tmp/p14-LockTable.good "$GEN"; rm -rf "$R" "$T"
(cd "$ROOT/lean" && lake build Gostatix.Props.C07Sections Gostatix.Props.C07Lock >/dev/null 2>&1)
