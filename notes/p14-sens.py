#!/usr/bin/env python3
"""P14 sensitivity check: for each case, copy /repo to /scratch/agentP14/tmp-repo, replace ONE method by a
variant, `go build` the copy, regenerate LockTable.lean from the copy, build
Gostatix.Props.C07Sections + Gostatix.Props.C07Lock against it, report which theorems fail, restore.
Never touches /repo.  usage: notes/p14-sens.py [case ...]"""
import os, re, shutil, subprocess, sys

ROOT = os.path.dirname(os.path.dirname(os.path.abspath(__file__)))
R = os.path.join(ROOT, 'tmp-repo')
T = os.path.join(ROOT, 'tmp-sens')
GEN = os.path.join(ROOT, 'lean/Gostatix/Generated/LockTable.lean')
# RENAME=1: every case runs on top of H4 h1 (mutex field `lock` renamed to `mu` in the five structs)
RENAME = os.environ.get('RENAME') == '1'


def rn(text):
    return text.replace('.lock.', '.mu.').replace('.lock,', '.mu,').replace('.lock)', '.mu)') if RENAME else text


ENV = dict(os.environ, GOFLAGS='-mod=mod', GOPROXY='off', GOSUMDB='off', GOTOOLCHAIN='local')


def method_span(src, recv_type, name):
    m = re.search(r'^func \(\w+ \*%s\) %s\(' % (recv_type, name), src, flags=re.M)
    assert m, (recv_type, name)
    end = src.index('\n}\n', m.start()) + 3
    return m.start(), end


HLL_UPDATE_CHECK_THEN_ACT = '''func (h *HyperLogLog) Update(data []byte) {
	registerIndex, count := h.getRegisterIndexAndCount(data)
	h.lock.RLock()
	current := h.registers[registerIndex]
	h.lock.RUnlock()
	if uint(current) >= uint(uint8(count)) {
		return
	}
	h.lock.Lock()
	h.registers[registerIndex] = uint8(count)
	h.lock.Unlock()
}
'''

# both sections take the WRITE lock: every access is guarded and exclusive, the lock table accepts it
HLL_UPDATE_CHECK_THEN_ACT_W = HLL_UPDATE_CHECK_THEN_ACT.replace('RLock', 'Lock').replace('RUnlock', 'Unlock')

HLL_UPDATE_CHECK_THEN_ACT_BRANCH = '''func (h *HyperLogLog) Update(data []byte) {
	registerIndex, count := h.getRegisterIndexAndCount(data)
	h.lock.RLock()
	current := h.registers[registerIndex]
	h.lock.RUnlock()
	if uint(current) < uint(uint8(count)) {
		h.lock.Lock()
		h.registers[registerIndex] = uint8(count)
		h.lock.Unlock()
	}
}
'''

HLL_UPDATE_CHECK_THEN_ACT_DEFER = '''func (h *HyperLogLog) Update(data []byte) {
	registerIndex, count := h.getRegisterIndexAndCount(data)
	h.lock.RLock()
	current := h.registers[registerIndex]
	h.lock.RUnlock()
	if uint(current) >= uint(uint8(count)) {
		return
	}
	h.lock.Lock()
	defer h.lock.Unlock()
	h.registers[registerIndex] = uint8(count)
}
'''

CMS_MERGE_NESTED = '''func (cms *CountMinSketch) Merge(cms1 *CountMinSketch) error {
	if cms.rows != cms1.rows {
		return fmt.Errorf("gostatix: can't merge sketches with unequal row counts, %d and %d", cms.rows, cms1.rows)
	}
	if cms.columns != cms1.columns {
		return fmt.Errorf("gostatix: can't merge sketches with unequal column counts, %d and %d", cms.columns, cms1.columns)
	}
	cms.lock.Lock()
	defer cms.lock.Unlock()
	cms1.lock.Lock()
	other := make([][]uint64, len(cms1.matrix))
	for i := range cms1.matrix {
		other[i] = append([]uint64(nil), cms1.matrix[i]...)
	}
	cms1.lock.Unlock()
	for i := range cms.matrix {
		for j := range cms.matrix[i] {
			cms.matrix[i][j] += other[i][j]
		}
	}
	return nil
}
'''

CUCKOO_INSERT = '''func (cuckooFilter *CuckooFilter) Insert(data []byte, destructive bool) bool {
	cuckooFilter.lock.Lock()

	fingerPrint, fIndex, sIndex, _ := cuckooFilter.getPositions(data)
	if cuckooFilter.buckets[fIndex].isFree() {
		cuckooFilter.buckets[fIndex].add(fingerPrint)
	} else if cuckooFilter.buckets[sIndex].isFree() {
		cuckooFilter.buckets[sIndex].add(fingerPrint)
	} else {
		var index uint64
		if rand.Float32() < 0.5 {
			index = fIndex
		} else {
			index = sIndex
		}
		currFingerPrint := fingerPrint
		var items []entry
		for i := uint64(0); i < cuckooFilter.retries; i++ {
			randIndex := uint64(math.Ceil(rand.Float64() * float64(cuckooFilter.buckets[index].getLength()-1)))
			prevFingerPrint := cuckooFilter.buckets[index].at(randIndex)
			items = append(items, entry{prevFingerPrint, index, randIndex})
			cuckooFilter.buckets[index].set(randIndex, currFingerPrint)
			hash := getHash([]byte(prevFingerPrint))
			newIndex := (index ^ hash) %% uint64(len(cuckooFilter.buckets))
			if cuckooFilter.buckets[newIndex].isFree() {
				cuckooFilter.buckets[newIndex].add(prevFingerPrint)
				cuckooFilter.length++
				cuckooFilter.lock.Unlock()
				return true
			}
			currFingerPrint = prevFingerPrint
			index = newIndex
		}
		if !destructive {
			for i := len(items) - 1; i >= 0; i-- {
				item := items[i]
				cuckooFilter.buckets[item.firstIndex].set(item.secondIndex, item.fingerPrint)
			}
		}
		cuckooFilter.lock.Unlock()
		panic("cannot insert element, cuckoofilter is full")
	}
%s	return true
}
'''
# (iii) the Unlock sits before the last write
CUCKOO_INSERT_EARLY_UNLOCK = CUCKOO_INSERT % '\tcuckooFilter.lock.Unlock()\n\tcuckooFilter.length++\n'
# harmless: explicit Unlock at every return, after the last write
CUCKOO_INSERT_EXPLICIT = CUCKOO_INSERT % '\tcuckooFilter.length++\n\tcuckooFilter.lock.Unlock()\n'

# (iii') the literal one-line move: the deferred Unlock becomes a plain Unlock before the last write,
# the other exits are forgotten
def cuckoo_literal_move(src):
    a, b = method_span(src, 'CuckooFilter', 'Insert')
    body = src[a:b]
    assert rn('\tdefer cuckooFilter.lock.Unlock()\n') in body
    body = body.replace(rn('\tdefer cuckooFilter.lock.Unlock()\n'), '', 1)
    i = body.rindex('\tcuckooFilter.length++\n')
    body = body[:i] + rn('\tcuckooFilter.lock.Unlock()\n') + body[i:]
    return src[:a] + body + src[b:]

CUCKOO_REMOVE_EXPLICIT = '''func (cuckooFilter *CuckooFilter) Remove(data []byte) bool {
	cuckooFilter.lock.Lock()

	fingerPrint, fIndex, sIndex, _ := cuckooFilter.getPositions(data)
	if cuckooFilter.buckets[fIndex].lookup(fingerPrint) {
		cuckooFilter.buckets[fIndex].remove(fingerPrint)
		cuckooFilter.length--
		cuckooFilter.lock.Unlock()
		return true
	} else if cuckooFilter.buckets[sIndex].lookup(fingerPrint) {
		cuckooFilter.buckets[sIndex].remove(fingerPrint)
		cuckooFilter.length--
		cuckooFilter.lock.Unlock()
		return true
	} else {
		cuckooFilter.lock.Unlock()
		return false
	}
}
'''

# the Unlock of ONE branch sits before the write of that branch
CUCKOO_REMOVE_EARLY_UNLOCK_IN_BRANCH = CUCKOO_REMOVE_EXPLICIT.replace(
    '\t\tcuckooFilter.length--\n\t\tcuckooFilter.lock.Unlock()\n', '\t\tcuckooFilter.lock.Unlock()\n\t\tcuckooFilter.length--\n', 1)
# ONE branch forgets its Unlock
CUCKOO_REMOVE_MISSING_UNLOCK = CUCKOO_REMOVE_EXPLICIT.replace('\t\tcuckooFilter.lock.Unlock()\n\t\treturn false\n', '\t\treturn false\n', 1)
assert CUCKOO_REMOVE_EARLY_UNLOCK_IN_BRANCH != CUCKOO_REMOVE_EXPLICIT and CUCKOO_REMOVE_MISSING_UNLOCK != CUCKOO_REMOVE_EXPLICIT

HLL_UPDATE_HELPER = '''func (h *HyperLogLog) Update(data []byte) {
	h.lock.Lock()
	defer h.lock.Unlock()
	h.updateLocked(data)
}

// updateLocked is called with h.lock held
func (h *HyperLogLog) updateLocked(data []byte) {
	registerIndex, count := h.getRegisterIndexAndCount(data)
	h.registers[registerIndex] = uint8(util.Max(uint(h.registers[registerIndex]), uint(uint8(count))))
}
'''

CMS_MERGE_HELPERS = '''func (cms *CountMinSketch) Merge(cms1 *CountMinSketch) error {
	if cms.rows != cms1.rows {
		return fmt.Errorf("gostatix: can't merge sketches with unequal row counts, %d and %d", cms.rows, cms1.rows)
	}
	if cms.columns != cms1.columns {
		return fmt.Errorf("gostatix: can't merge sketches with unequal column counts, %d and %d", cms.columns, cms1.columns)
	}
	cms1.lock.Lock()
	other := cms1.copyMatrixLocked()
	cms1.lock.Unlock()
	cms.lock.Lock()
	cms.addMatrixLocked(other)
	cms.lock.Unlock()
	return nil
}

func (cms *CountMinSketch) copyMatrixLocked() [][]uint64 {
	other := make([][]uint64, len(cms.matrix))
	for i := range cms.matrix {
		other[i] = append([]uint64(nil), cms.matrix[i]...)
	}
	return other
}

func (cms *CountMinSketch) addMatrixLocked(other [][]uint64) {
	for i := range cms.matrix {
		for j := range cms.matrix[i] {
			cms.matrix[i][j] += other[i][j]
		}
	}
}
'''

# the helper takes the lock itself: Update becomes a delegating method that is not on the explicit list
HLL_UPDATE_LOCKING_HELPER = '''func (h *HyperLogLog) Update(data []byte) {
	registerIndex, count := h.getRegisterIndexAndCount(data)
	h.store(registerIndex, count)
}

func (h *HyperLogLog) store(registerIndex, count uint64) {
	h.lock.Lock()
	defer h.lock.Unlock()
	h.registers[registerIndex] = uint8(util.Max(uint(h.registers[registerIndex]), uint(uint8(count))))
}
'''

# Top-K takes the two locks in the other order
def topk_reversed():
    p = os.path.join(R, 'top_k.go')
    src = open(p).read()
    a, b = method_span(src, 'TopK', 'Values')
    body = src[a:b].replace(rn('\tt.lock.Lock()\n\tdefer t.lock.Unlock()\n'),
                            rn('\tt.sketch.lock.Lock()\n\tdefer t.sketch.lock.Unlock()\n\tt.lock.Lock()\n\tdefer t.lock.Unlock()\n'), 1)
    assert body != src[a:b]
    open(p, 'w').write(src[:a] + body + src[b:])


# the mutex is handed to a helper
HLL_RESET_LOCK_PASSED = '''func (h *HyperLogLog) Reset() {
	withLock(&h.lock, func() {
		for i := range h.registers {
			h.registers[i] = 0
		}
	})
}

func withLock(l *sync.RWMutex, f func()) {
	l.Lock()
	defer l.Unlock()
	f()
}
'''

# lock taken in a loop
HLL_RESET_LOCK_IN_LOOP = '''func (h *HyperLogLog) Reset() {
	for i := range h.registers {
		h.lock.Lock()
		h.registers[i] = 0
		h.lock.Unlock()
	}
}
'''


# check-then-act hidden in two private helpers that each take the lock themselves
HLL_UPDATE_SPLIT_IN_HELPERS = '''func (h *HyperLogLog) Update(data []byte) {
	registerIndex, count := h.getRegisterIndexAndCount(data)
	if uint(h.peek(registerIndex)) >= uint(uint8(count)) {
		return
	}
	h.store(registerIndex, count)
}

func (h *HyperLogLog) peek(registerIndex uint64) uint8 {
	h.lock.Lock()
	defer h.lock.Unlock()
	return h.registers[registerIndex]
}

func (h *HyperLogLog) store(registerIndex, count uint64) {
	h.lock.Lock()
	defer h.lock.Unlock()
	h.registers[registerIndex] = uint8(count)
}
'''

HLL_UPDATE_SPLIT_IN_HELPERS_TOP = HLL_UPDATE_SPLIT_IN_HELPERS.replace(
    '''	if uint(h.peek(registerIndex)) >= uint(uint8(count)) {''', '''	current := h.peek(registerIndex)
	if uint(current) >= uint(uint8(count)) {''')
assert HLL_UPDATE_SPLIT_IN_HELPERS_TOP != HLL_UPDATE_SPLIT_IN_HELPERS


# the snapshot helper of H4 h2, but called while the receiver's lock is held
def merge_helper_nested():
    p = os.path.join(R, 'count_min_sketch.go')
    src = open(p).read()
    a, b = method_span(src, 'CountMinSketch', 'Merge')
    new = rn(CMS_MERGE_NESTED)
    i = new.index(rn('\tcms1.lock.Lock()\n'))
    j = new.index(rn('\tcms1.lock.Unlock()\n')) + len(rn('\tcms1.lock.Unlock()\n'))
    new = new[:i] + '\tother := cms1.snapshotMatrix()\n' + new[j:]
    new += rn('''
func (cms *CountMinSketch) snapshotMatrix() [][]uint64 {
	cms.lock.Lock()
	snapshot := make([][]uint64, len(cms.matrix))
	for i := range cms.matrix {
		snapshot[i] = append([]uint64(nil), cms.matrix[i]...)
	}
	cms.lock.Unlock()
	return snapshot
}
''')
    open(p, 'w').write(src[:a] + new + src[b:])


# a second mutex field: which one is "the" instance mutex is no longer determined by the declared type
def second_mutex():
    p = os.path.join(R, 'hyperloglog.go')
    src = open(p).read()
    old = rn('\tlock      sync.RWMutex\n').replace('.mu', '.mu')
    if RENAME:
        m = re.search(r'\tmu +sync\.RWMutex\n', src)
    else:
        m = re.search(r'\tlock +sync\.RWMutex\n', src)
    assert m
    open(p, 'w').write(src[:m.end()] + '\tstatsLock sync.Mutex\n' + src[m.end():])


def repl(file, typ, name, new):
    def f():
        p = os.path.join(R, file)
        s = open(p).read()
        a, b = method_span(s, typ, name)
        open(p, 'w').write(s[:a] + rn(new) + s[b:])
    return f


def literal_move():
    p = os.path.join(R, 'cuckoo_filter.go')
    new = cuckoo_literal_move(open(p).read())
    open(p, 'w').write(new)


CASES = [
    ('baseline', 'unchanged copy of /repo', lambda: None),
    ('i', 'HyperLogLog.Update: compare under RLock, release, store under Lock (early return)', repl('hyperloglog.go', 'HyperLogLog', 'Update', HLL_UPDATE_CHECK_THEN_ACT)),
    ('i-W', 'the same with Lock() for the comparing section too (passes the lock table)', repl('hyperloglog.go', 'HyperLogLog', 'Update', HLL_UPDATE_CHECK_THEN_ACT_W)),
    ('i-defer', 'the same with `defer Unlock` on the second section', repl('hyperloglog.go', 'HyperLogLog', 'Update', HLL_UPDATE_CHECK_THEN_ACT_DEFER)),
    ('i-branch', 'the same with the Lock inside the if branch', repl('hyperloglog.go', 'HyperLogLog', 'Update', HLL_UPDATE_CHECK_THEN_ACT_BRANCH)),
    ('ii', 'CountMinSketch.Merge holds the receiver lock while it snapshots the argument (nested)', repl('count_min_sketch.go', 'CountMinSketch', 'Merge', CMS_MERGE_NESTED)),
    ('iii', 'CuckooFilter.Insert: explicit Unlock at every exit, the last one BEFORE the last write', repl('cuckoo_filter.go', 'CuckooFilter', 'Insert', CUCKOO_INSERT_EARLY_UNLOCK)),
    ('iii-literal', 'CuckooFilter.Insert: `defer Unlock` replaced by one Unlock before the last write', literal_move),
    ('iii-branch', 'CuckooFilter.Remove: explicit Unlocks, in ONE branch the Unlock sits before the write', repl('cuckoo_filter.go', 'CuckooFilter', 'Remove', CUCKOO_REMOVE_EARLY_UNLOCK_IN_BRANCH)),
    ('missing', 'CuckooFilter.Remove: explicit Unlocks, ONE branch returns without Unlock', repl('cuckoo_filter.go', 'CuckooFilter', 'Remove', CUCKOO_REMOVE_MISSING_UNLOCK)),
    ('helpers-split', 'HyperLogLog.Update: compare in private locking helper peek(), store in private locking helper store() (call in the if condition)', repl('hyperloglog.go', 'HyperLogLog', 'Update', HLL_UPDATE_SPLIT_IN_HELPERS)),
    ('helpers-split-top', 'the same with `current := h.peek(..)` as a statement of the body', repl('hyperloglog.go', 'HyperLogLog', 'Update', HLL_UPDATE_SPLIT_IN_HELPERS_TOP)),
    ('helper-nested', 'CountMinSketch.Merge calls the private snapshotMatrix() helper of H4 h2 while holding the receiver lock', merge_helper_nested),
    ('two-mutexes', 'HyperLogLog gets a second field of type sync.Mutex', second_mutex),
    ('order', 'TopK.Values takes the sketch lock first, then the Top-K lock', topk_reversed),
    ('passed', 'HyperLogLog.Reset hands &h.lock to a helper function', repl('hyperloglog.go', 'HyperLogLog', 'Reset', HLL_RESET_LOCK_PASSED)),
    ('loop', 'HyperLogLog.Reset locks once per register inside the loop', repl('hyperloglog.go', 'HyperLogLog', 'Reset', HLL_RESET_LOCK_IN_LOOP)),
    ('h-helper', 'harmless: HyperLogLog.Update body moved into updateLocked, called with the lock held', repl('hyperloglog.go', 'HyperLogLog', 'Update', HLL_UPDATE_HELPER)),
    ('h-merge-helpers', 'harmless: both halves of CountMinSketch.Merge moved into helpers called with the lock held, explicit Unlock', repl('count_min_sketch.go', 'CountMinSketch', 'Merge', CMS_MERGE_HELPERS)),
    ('h-explicit-remove', 'harmless: CuckooFilter.Remove with an explicit Unlock before every return instead of defer', repl('cuckoo_filter.go', 'CuckooFilter', 'Remove', CUCKOO_REMOVE_EXPLICIT)),
    ('h-explicit-insert', 'harmless: CuckooFilter.Insert with an explicit Unlock before every return / panic, after the last write', repl('cuckoo_filter.go', 'CuckooFilter', 'Insert', CUCKOO_INSERT_EXPLICIT)),
    ('h-locking-helper', 'harmless: HyperLogLog.Update delegates to a private helper that takes the lock itself', repl('hyperloglog.go', 'HyperLogLog', 'Update', HLL_UPDATE_LOCKING_HELPER)),
]


def sh(cmd, cwd=None):
    p = subprocess.run(cmd, cwd=cwd, env=ENV, stdout=subprocess.PIPE, stderr=subprocess.STDOUT, text=True)
    return p.returncode, p.stdout


def main():
    want = sys.argv[1:]
    good = open(GEN).read()
    try:
        for name, desc, edit in CASES:
            if want and name not in want:
                continue
            shutil.rmtree(R, ignore_errors=True)
            shutil.rmtree(T, ignore_errors=True)
            shutil.copytree('/repo', R, ignore=shutil.ignore_patterns('.git'))
            os.makedirs(T)
            if RENAME:
                sh(['git', 'init', '-q', '.'], cwd=R)
                rc, out = sh(['git', 'apply', '/tmp/harm/H4/_out/h1/patch.diff'], cwd=R)
                assert rc == 0, out
                shutil.rmtree(os.path.join(R, '.git'), ignore_errors=True)
            edit()
            rc, out = sh(['gofmt', '-l', '.'], cwd=R)
            rc, out = sh(['go', 'build', './...'], cwd=R)
            gobuild = 'ok' if rc == 0 else 'FAILS: ' + out[:300]
            rc, out = sh([os.path.join(ROOT, 'extract/gsextract'), '-repo', R, '-out', T])
            assert rc == 0, out
            new = open(os.path.join(T, 'LockTable.lean')).read()
            open(GEN, 'w').write(new)
            rc, out = sh(['lake', 'build', 'Gostatix.Props.C07Sections', 'Gostatix.Props.C07Lock'], cwd=os.path.join(ROOT, 'lean'))
            print(f'== {name}: {desc}')
            print(f'   go build of the copy: {gobuild}')
            print(f'   lake build Gostatix.Props.C07Sections Gostatix.Props.C07Lock: {"PASS" if rc == 0 else "FAIL"}')
            # which theorems fail: the error positions mapped back to the theorem names
            failing = []
            for mod in ['C07Sections', 'C07Lock']:
                src = open(os.path.join(ROOT, 'lean/Gostatix/Props', mod + '.lean')).read().splitlines()
                for m in re.finditer(r'error: Gostatix/Props/%s\.lean:(\d+):' % mod, out):
                    ln = int(m.group(1))
                    for k in range(ln - 1, -1, -1):
                        mm = re.match(r'theorem (\S+)', src[k])
                        if mm:
                            if mm.group(1) not in failing:
                                failing.append(mm.group(1))
                            break
            if failing:
                print('   failing: ' + ', '.join(failing))
            # the changed rows of the generated table
            gl, nl = good.splitlines(), new.splitlines()
            for line in nl:
                if line not in gl and ('sectionsUnknown' in line or 'not understood' in line or 'inst :=' in line or 'typ :=' in line):
                    print('   + ' + line.strip()[:260])
    finally:
        open(GEN, 'w').write(good)
        shutil.rmtree(R, ignore_errors=True)
        shutil.rmtree(T, ignore_errors=True)
        sh(['lake', 'build', 'Gostatix.Props.C07Sections', 'Gostatix.Props.C07Lock'], cwd=os.path.join(ROOT, 'lean'))


if __name__ == '__main__':
    main()
