#!/bin/bash
# P11 sensitivity check: apply ONE textual edit to a scratch copy of /repo, regenerate Murmur.lean from
# the copy, build Gostatix.Props.MurmurTie against it, report PASS/FAIL, then restore everything.
# usage: notes/p11-sens.sh <name> <file> <old> <new>     (old/new: python escapes \n \t allowed)
# Never touches /repo.  Needs extract/gsextract (cd extract && go build -o gsextract .).
export GOFLAGS=-mod=mod GOPROXY=off GOSUMDB=off GOTOOLCHAIN=local
set -u
ROOT=$(cd "$(dirname "$0")/.." && pwd)
name=$1; file=$2; old=$3; new=$4
R=$ROOT/tmp-repo
T=$ROOT/tmp-sens
rm -rf "$R" "$T"; cp -r /repo "$R"; mkdir -p "$T/gen" "$T/good"
python3 - "$R/$file" "$old" "$new" <<'PY' || { echo "$name: EDIT FAILED"; rm -rf "$R" "$T"; exit 1; }
import sys
p,old,new=sys.argv[1:4]
s=open(p).read()
old=old.encode().decode('unicode_escape'); new=new.encode().decode('unicode_escape')
assert s.count(old)>=1, "pattern not found"
open(p,'w').write(s.replace(old,new,1))
PY
(cd "$R" && go build ./... 2>&1 | head -3)
"$ROOT/extract/gsextract" -repo /repo -out "$T/good"
"$ROOT/extract/gsextract" -repo "$R" -out "$T/gen" || echo "$name: extractor error"
cp "$T/gen/Murmur.lean" "$ROOT/lean/Gostatix/Generated/Murmur.lean"
if (cd "$ROOT/lean" && lake build Gostatix.Props.MurmurTie) > "$T/build.log" 2>&1; then res=PASS; else res=FAIL; fi
echo "== $name: lake build Gostatix.Props.MurmurTie: $res"
diff "$T/gen/Murmur.lean" "$T/good/Murmur.lean" | grep '^[<>]' | cut -c1-200
grep -E "^error:" "$T/build.log" | grep -v "Lean exited\|build failed" | cut -c1-200 | head -4
cp "$T/good/Murmur.lean" "$ROOT/lean/Gostatix/Generated/Murmur.lean"
rm -rf "$R" "$T"
