#!/bin/bash
# P11: apply a patch (git diff format) to a scratch copy of /repo, regenerate Murmur.lean from the copy,
# build Gostatix.Props.MurmurTie against it, report PASS/FAIL, restore, delete the copy.
# usage: notes/p11-patch.sh <name> <patch.diff>
export GOFLAGS=-mod=mod GOPROXY=off GOSUMDB=off GOTOOLCHAIN=local
set -u
ROOT=$(cd "$(dirname "$0")/.." && pwd)
name=$1; patchfile=$2
R=$ROOT/tmp-repo
T=$ROOT/tmp-sens
rm -rf "$R" "$T"; cp -r /repo "$R"; mkdir -p "$T/gen" "$T/good"
(cd "$R" && patch -p1 -s < "$patchfile") || { echo "$name: PATCH FAILED"; rm -rf "$R" "$T"; exit 1; }
(cd "$R" && go build ./... 2>&1 | head -3)
"$ROOT/extract/gsextract" -repo /repo -out "$T/good"
"$ROOT/extract/gsextract" -repo "$R" -out "$T/gen" || echo "$name: extractor error"
cp "$T/gen/Murmur.lean" "$ROOT/lean/Gostatix/Generated/Murmur.lean"
if (cd "$ROOT/lean" && lake build Gostatix.Props.MurmurTie) > "$T/build.log" 2>&1; then res=PASS; else res=FAIL; fi
echo "== $name: lake build Gostatix.Props.MurmurTie: $res"
grep -h "UNSUPPORTED" "$T/gen/Murmur.lean" | cut -c1-330
grep -E "^error:" "$T/build.log" | grep -v "Lean exited\|build failed" | cut -c1-200 | head -4
for f in Arith.lean DecoderTable.lean LockTable.lean LuaScripts.lean; do cmp -s "$T/gen/$f" "$T/good/$f" || echo "   (note: $f differs for this patch - not part of the murmur tie)"; done
[ "${KEEP:-}" = 1 ] && cp "$T/gen/Murmur.lean" "$ROOT/notes/.last-Murmur.lean"
cp "$T/good/Murmur.lean" "$ROOT/lean/Gostatix/Generated/Murmur.lean"
rm -rf "$R" "$T"
