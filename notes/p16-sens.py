#!/usr/bin/env python3
# P16 sensitivity harness: apply a textual change to a scratch copy of /repo, regenerate lean/Gostatix/Generated from it,
# build Gostatix.Props.LoopTieCMS; M* must FAIL, H* should stay GREEN.  Usage: python3 notes/p16-sens.py [prefix ...]
import subprocess, sys, os, shutil, re
ROOT='/scratch/agentP16'
TMP=ROOT+'/tmp-repo'
ENV=dict(os.environ, GOFLAGS='-mod=mod', GOPROXY='off', GOSUMDB='off', GOTOOLCHAIN='local')
CMS='count_min_sketch.go'; BASE='base_count_min_sketch.go'; HLLF='hyperloglog.go'
UPD_LOOP='''	for r, c := range cms.getPositions(data) {
		cms.matrix[r][c] += count
	}
'''
CNT_IF='''		if r == 0 || cms.matrix[r][c] < min {'''
MRG_LOOP='''	for i := range cms.matrix {
		for j := range cms.matrix[i] {
			cms.matrix[i][j] += other[i][j]
		}
	}
'''
GP_LOOP='''	for c := range positions {
		positions[c] = uint((hash1 + uint64(c)*hash2) % uint64(cms.columns))
	}
'''
CNT_LOOP='''	for r, c := range cms.getPositions(data) {
		if r == 0 || cms.matrix[r][c] < min {
			min = cms.matrix[r][c]
		}
	}
'''
cases = {
 # --- must FAIL
 'M1a-count-init-from-row1': [(CMS, CNT_IF, '		if r == 1 || cms.matrix[r][c] < min {')],
 'M1b-count-starts-from-0': [(CMS, CNT_IF, '		if cms.matrix[r][c] < min {')],
 'M1c-count-starts-from-max': [(CMS, '	var min uint64\n', '	var min uint64 = 18446744073709551615\n'), (CMS, CNT_IF, '		if cms.matrix[r][c] < min {')],
 'M1d-count-loop-from-1': [(CMS, CNT_LOOP, '''	positions := cms.getPositions(data)
	min = cms.matrix[0][positions[0]]
	for r := 1; r < len(positions); r++ {
		if cms.matrix[r][positions[r]] < min {
			min = cms.matrix[r][positions[r]]
		}
	}
''')],
 'M1e-count-skips-last-row': [(CMS, CNT_LOOP, '''	positions := cms.getPositions(data)
	for r := 0; r < len(positions)-1; r++ {
		if r == 0 || cms.matrix[r][positions[r]] < min {
			min = cms.matrix[r][positions[r]]
		}
	}
''')],
 'M2-update-positions0': [(CMS, UPD_LOOP, '''	positions := cms.getPositions(data)
	for r := range positions {
		cms.matrix[r][positions[0]] += count
	}
''')],
 'M2b-update-row0': [(CMS, UPD_LOOP, '''	for _, c := range cms.getPositions(data) {
		cms.matrix[0][c] += count
	}
''')],
 'M3-merge-cols-minus-1': [(CMS, MRG_LOOP, '''	for i := range cms.matrix {
		for j := uint(0); j < cms.columns-1; j++ {
			cms.matrix[i][j] += other[i][j]
		}
	}
''')],
 'M3b-merge-len-minus-1': [(CMS, MRG_LOOP, '''	for i := range cms.matrix {
		for j := 0; j < len(cms.matrix[i])-1; j++ {
			cms.matrix[i][j] += other[i][j]
		}
	}
''')],
 'M3c-merge-rows-minus-1': [(CMS, MRG_LOOP, '''	for i := uint(0); i < cms.rows-1; i++ {
		for j := range cms.matrix[i] {
			cms.matrix[i][j] += other[i][j]
		}
	}
''')],
 'M4-getpositions-rows-minus-1': [(BASE, GP_LOOP, '''	for c := uint(0); c < cms.rows-1; c++ {
		positions[c] = uint((hash1 + uint64(c)*hash2) % uint64(cms.columns))
	}
''')],
 'M5-merge-errors-swapped': [(CMS, 'unequal row counts', 'unequal column counts#'), (CMS, 'unequal column counts, %d and %d", cms.columns', 'unequal row counts, %d and %d", cms.columns'), (CMS, 'column counts#', 'column counts')],
 'M6-merge-touches-allSum': [(CMS, MRG_LOOP, MRG_LOOP+'	cms.allSum += cms1.allSum\n')],
 'M7-update-allSum-in-loop': [(CMS, UPD_LOOP+'	cms.allSum += count\n', '''	for r, c := range cms.getPositions(data) {
		cms.matrix[r][c] += count
		cms.allSum += count
	}
''')],
 'M8-update-minus': [(CMS, 'cms.matrix[r][c] += count', 'cms.matrix[r][c] -= count')],
 'M9-merge-transposed-operand': [(CMS, 'cms.matrix[i][j] += other[i][j]', 'cms.matrix[i][j] += other[j][i]')],
 'M10-count-max': [(CMS, CNT_IF, '		if r == 0 || cms.matrix[r][c] > min {')],
 'M11-getpositions-c-plus-1': [(BASE, 'uint64(c)*hash2', 'uint64(c+1)*hash2')],
 'M12-merge-checks-swapped': [(CMS, 'if cms.rows != cms1.rows {', 'if cms.columns != cms1.columns {#'), (CMS, 'if cms.columns != cms1.columns {\n', 'if cms.rows != cms1.rows {\n'), (CMS, '{#', '{'), (CMS, 'unequal row counts', 'unequal column counts#'), (CMS, 'unequal column counts, %d and %d", cms.columns', 'unequal row counts, %d and %d", cms.columns'), (CMS, 'column counts#', 'column counts')],
 'M13-merge-no-snapshot': [(CMS, 'cms.matrix[i][j] += other[i][j]', 'cms.matrix[i][j] += cms1.matrix[i][j]')],
 'M14-update-no-allSum': [(CMS, '	cms.allSum += count\n', '')],
 'M15-update-break-after-first-row': [(CMS, UPD_LOOP, '''	for r, c := range cms.getPositions(data) {
		cms.matrix[r][c] += count
		break
	}
''')],
 'M16-count-returns-first-row': [(CMS, CNT_LOOP, '''	for r, c := range cms.getPositions(data) {
		if r == 0 {
			min = cms.matrix[r][c]
		}
	}
''')],
 'M17-update-saturating': [(CMS, 'cms.matrix[r][c] += count', '''if cms.matrix[r][c]+count < count {
			cms.matrix[r][c] = 18446744073709551615
		} else {
			cms.matrix[r][c] += count
		}''')],
 # --- harmless
 'H1a-update-index-loop': [(CMS, UPD_LOOP, '''	positions := cms.getPositions(data)
	for r := 0; r < len(positions); r++ {
		c := positions[r]
		cms.matrix[r][c] += count
	}
''')],
 'H1b-merge-index-loops': [(CMS, MRG_LOOP, '''	for i := uint(0); i < cms.rows; i++ {
		for j := uint(0); j < cms.columns; j++ {
			cms.matrix[i][j] += other[i][j]
		}
	}
''')],
 'H1c-getpositions-index-loop': [(BASE, GP_LOOP, '''	for c := 0; c < len(positions); c++ {
		positions[c] = uint((hash1 + uint64(c)*hash2) % uint64(cms.columns))
	}
''')],
 'H1d-count-index-loop': [(CMS, CNT_LOOP, '''	positions := cms.getPositions(data)
	for r := 0; r < len(positions); r++ {
		if r == 0 || cms.matrix[r][positions[r]] < min {
			min = cms.matrix[r][positions[r]]
		}
	}
''')],
 'H1e-merge-len-loops': [(CMS, MRG_LOOP, '''	for i := 0; i < len(cms.matrix); i++ {
		for j := 0; j < len(cms.matrix[i]); j++ {
			cms.matrix[i][j] += other[i][j]
		}
	}
''')],
 'H2a-update-renamed': [(CMS, UPD_LOOP, '''	for row, col := range cms.getPositions(data) {
		cms.matrix[row][col] += count
	}
''')],
 'H2b-merge-renamed': [(CMS, MRG_LOOP, '''	for a := range cms.matrix {
		for b := range cms.matrix[a] {
			cms.matrix[a][b] += other[a][b]
		}
	}
''')],
 'H2c-getpositions-renamed': [(BASE, GP_LOOP, '''	for k := range positions {
		positions[k] = uint((hash1 + uint64(k)*hash2) % uint64(cms.columns))
	}
''')],
 'H2d-count-renamed': [(CMS, CNT_LOOP, '''	for i, p := range cms.getPositions(data) {
		if i == 0 || cms.matrix[i][p] < min {
			min = cms.matrix[i][p]
		}
	}
''')],
 'H3a-update-row-local': [(CMS, UPD_LOOP, '''	for r, c := range cms.getPositions(data) {
		row := cms.matrix[r]
		row[c] += count
	}
''')],
 'H3b-merge-row-local': [(CMS, MRG_LOOP, '''	for i := range cms.matrix {
		row := cms.matrix[i]
		for j := range row {
			row[j] += other[i][j]
		}
	}
''')],
 'H3c-merge-range-value-row': [(CMS, MRG_LOOP, '''	for i, row := range cms.matrix {
		for j := range row {
			row[j] += other[i][j]
		}
	}
''')],
 'H4a-update-helper': [(CMS, UPD_LOOP, '''	for r, c := range cms.getPositions(data) {
		cms.bump(r, c, count)
	}
'''), (CMS, '// UpdateString increments', '''func (cms *CountMinSketch) bump(r int, c uint, n uint64) {
	cms.matrix[r][c] += n
}

// UpdateString increments''')],
 'H4b-merge-helper': [(CMS, MRG_LOOP, '''	for i := range cms.matrix {
		for j := range cms.matrix[i] {
			cms.addCell(i, j, other[i][j])
		}
	}
'''), (CMS, '// WriteTo writes', '''func (s *CountMinSketch) addCell(i, j int, v uint64) {
	s.matrix[i][j] += v
}

// WriteTo writes''')],
 'H4c-count-helper': [(CMS, CNT_LOOP, '''	for r, c := range cms.getPositions(data) {
		if r == 0 || cms.cell(r, c) < min {
			min = cms.cell(r, c)
		}
	}
'''), (CMS, '// CountString estimates', '''func (cms *CountMinSketch) cell(r int, c uint) uint64 {
	return cms.matrix[r][c]
}

// CountString estimates''')],
 'H5-merge-snapshot-helper': [(CMS, '''	other := make([][]uint64, len(cms1.matrix))
	for i := range cms1.matrix {
		other[i] = append([]uint64(nil), cms1.matrix[i]...)
	}
''', '''	other := cms1.snapshot()
'''), (CMS, '// WriteTo writes', '''func (cms *CountMinSketch) snapshot() [][]uint64 {
	out := make([][]uint64, len(cms.matrix))
	for i := range cms.matrix {
		out[i] = append([]uint64(nil), cms.matrix[i]...)
	}
	return out
}

// WriteTo writes''')],
 # --- HyperLogLog (target Gostatix.Props.LoopTieHLL)
 'X1-hll-update-plain-store': [(HLLF, 'h.registers[registerIndex] = uint8(util.Max(uint(h.registers[registerIndex]), uint(uint8(count))))', 'h.registers[registerIndex] = uint8(count)')],
 'X2-hll-merge-len-minus-1': [(HLLF, '	for i := range other {', '	for i := 0; i < len(other)-1; i++ {')],
 'X3-hll-merge-min': [(HLLF, '		h.registers[i] = uint8(util.Max(uint(h.registers[i]), uint(other[i])))', '''		if other[i] < h.registers[i] {
			h.registers[i] = other[i]
		}''')],
 'X4-hll-update-index-plus-1': [(HLLF, 'h.registers[registerIndex] = uint8(util.Max(uint(h.registers[registerIndex]),', 'h.registers[registerIndex+1] = uint8(util.Max(uint(h.registers[registerIndex]),')],
 'X5-hll-merge-no-check': [(HLLF, '	if h.numRegisters != g.numRegisters {', '	if h.numRegisters > g.numRegisters {')],
 'Y1-hll-merge-index-loop': [(HLLF, '	for i := range other {', '	for i := 0; i < len(other); i++ {')],
 'Y2-hll-merge-numRegisters-loop': [(HLLF, '	for i := range other {', '	for i := uint64(0); i < h.numRegisters; i++ {')],
 'Y3-hll-merge-range-value': [(HLLF, '''	for i := range other {
		h.registers[i] = uint8(util.Max(uint(h.registers[i]), uint(other[i])))''', '''	for k, v := range other {
		h.registers[k] = uint8(util.Max(uint(h.registers[k]), uint(v)))''')],
 'Y4-hll-update-locals': [(HLLF, '	h.registers[registerIndex] = uint8(util.Max(uint(h.registers[registerIndex]), uint(uint8(count))))', '''	old := uint(h.registers[registerIndex])
	h.registers[registerIndex] = uint8(util.Max(old, uint(uint8(count))))''')],
}

def run(name):
    for f in (CMS, BASE, HLLF):
        shutil.copy('/repo/'+f, TMP+'/'+f)
    for f, old, new in cases[name]:
        s = open(TMP+'/'+f).read()
        if old not in s:
            print(name, 'PATCH DOES NOT APPLY', repr(old[:40])); return
        open(TMP+'/'+f,'w').write(s.replace(old, new, 1))
    r = subprocess.run(['gofmt','-l',TMP+'/'+CMS,TMP+'/'+BASE,TMP+'/'+HLLF],capture_output=True,text=True)
    if r.returncode != 0 or r.stderr:
        print(name, 'DOES NOT PARSE', r.stderr); return
    subprocess.run([ROOT+'/extract/gsextract','-repo',TMP,'-out',ROOT+'/lean/Gostatix/Generated'],check=True,env=ENV)
    gen = open(ROOT+'/lean/Gostatix/Generated/Loops.lean').read()
    uns = re.findall(r'^-- (\w+) \(.*?UNSUPPORTED, no definition emitted: (.*)$', gen, re.M)
    ar = open(ROOT+'/lean/Gostatix/Generated/Arith.lean').read()
    aun = re.findall(r'^-- (\w+) \(.*?UNSUPPORTED, no definition emitted: (.*)$', ar, re.M)
    target = 'Gostatix.Props.LoopTieHLL' if name[0] in 'XY' else 'Gostatix.Props.LoopTieCMS'
    r = subprocess.run(['lake','build',target],cwd=ROOT+'/lean',capture_output=True,text=True)
    out = r.stdout + r.stderr
    errs = re.findall(r'^error: (Gostatix/\S+?:\d+):\d+: (.*)$', out, re.M)
    status = 'GREEN' if r.returncode == 0 else 'FAILS'
    print(f'{name}: {status}')
    for u in uns: print('   loops.go refused', u[0], ':', u[1][:230])
    for u in aun: print('   arith.go refused', u[0], ':', u[1][:160])
    for e in errs[:4]: print('   ', e[0], e[1][:150])
    if os.environ.get('KEEP'):
        shutil.copy(ROOT+'/lean/Gostatix/Generated/Loops.lean', ROOT+'/notes-p16-'+name+'.lean')

subprocess.run(['go','build','-o','gsextract','.'],cwd=ROOT+'/extract',check=True,env=ENV)
shutil.rmtree(TMP, ignore_errors=True)
shutil.copytree('/repo', TMP)  # the scratch copy (never /repo itself)
names = sys.argv[1:] or list(cases)
for n in names:
    for k in cases:
        if k.startswith(n): run(k)
shutil.rmtree(TMP)  # remove the scratch copy, regenerate from /repo
subprocess.run([ROOT+'/extract/gsextract','-repo','/repo','-out',ROOT+'/lean/Gostatix/Generated'],check=True,env=ENV)
