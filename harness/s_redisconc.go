package main

import (
	"io"
	"bytes"
	"context"
	"fmt"
	"math/rand"
	"net"
	"runtime"
	"sort"
	"strconv"
	"strings"
	"sync"

	"github.com/kwertop/gostatix"
	"github.com/redis/go-redis/v9"
)

// suite "redisconc": C16.  A go-redis hook (installed on the package client exposed under build
// tag `verif`) records the commands of every operation and blocks each worker goroutine before
// every command until a seeded scheduler releases it: deterministic interleavings at
// Redis-command granularity.

func init() { register("redisconc", suiteRedisConc) }

func curGoid() int64 {
	var buf [64]byte
	n := runtime.Stack(buf[:], false)
	f := bytes.Fields(buf[:n])
	id, _ := strconv.ParseInt(string(f[1]), 10, 64)
	return id
}

type cmdSched struct {
	mu      sync.Mutex
	cond    *sync.Cond
	active  bool
	worker  map[int64]int
	waiting map[int]bool
	live    int
	grant   int
	rng     *rand.Rand
	fixed   []int
	order   []int
	recGid  int64
	rec     []string
}

var theSched *cmdSched

func (s *cmdSched) before(name string) {
	gid := curGoid()
	s.mu.Lock()
	defer s.mu.Unlock()
	if gid == s.recGid {
		s.rec = append(s.rec, name)
	}
	w, ok := s.worker[gid]
	if !s.active || !ok {
		return
	}
	s.waiting[w] = true
	s.cond.Broadcast()
	for s.grant != w {
		s.cond.Wait()
	}
	s.grant = -1
	delete(s.waiting, w)
	s.order = append(s.order, w)
}

func (s *cmdSched) DialHook(next redis.DialHook) redis.DialHook {
	return func(ctx context.Context, network, addr string) (net.Conn, error) { return next(ctx, network, addr) }
}
func (s *cmdSched) ProcessHook(next redis.ProcessHook) redis.ProcessHook {
	return func(ctx context.Context, cmd redis.Cmder) error {
		s.before(strings.ToLower(cmd.Name()))
		err := next(ctx, cmd)
		s.mu.Lock()
		s.cond.Broadcast()
		s.mu.Unlock()
		return err
	}
}
func (s *cmdSched) ProcessPipelineHook(next redis.ProcessPipelineHook) redis.ProcessPipelineHook {
	return func(ctx context.Context, cmds []redis.Cmder) error {
		names := make([]string, len(cmds))
		for i, c := range cmds {
			names[i] = strings.ToLower(c.Name())
		}
		s.before("pipeline:" + strings.Join(names, ","))
		err := next(ctx, cmds)
		s.mu.Lock()
		s.cond.Broadcast()
		s.mu.Unlock()
		return err
	}
}

func getSched() *cmdSched {
	if theSched == nil {
		s := &cmdSched{worker: map[int64]int{}, waiting: map[int]bool{}, grant: -1}
		s.cond = sync.NewCond(&s.mu)
		gostatix.VerifRedisClient().AddHook(s)
		theSched = s
	}
	return theSched
}

// record runs f on the calling goroutine and returns the Redis commands it issued
func (s *cmdSched) record(f func()) []string {
	s.mu.Lock()
	s.recGid = curGoid()
	s.rec = nil
	s.mu.Unlock()
	f()
	s.mu.Lock()
	defer s.mu.Unlock()
	s.recGid = 0
	return s.rec
}

// runScheduled runs the workers under a seeded command-granularity schedule (fixed prefix first)
func (s *cmdSched) runScheduled(seed int64, fixed []int, workers []func()) []int {
	s.mu.Lock()
	s.active = true
	s.rng = rand.New(rand.NewSource(seed))
	s.fixed = append([]int(nil), fixed...)
	s.order = nil
	s.live = len(workers)
	s.grant = -1
	s.waiting = map[int]bool{}
	s.worker = map[int64]int{}
	s.mu.Unlock()
	var wg sync.WaitGroup
	ready := make(chan struct{})
	for i, w := range workers {
		wg.Add(1)
		go func(i int, w func()) {
			defer wg.Done()
			gid := curGoid()
			s.mu.Lock()
			s.worker[gid] = i
			s.mu.Unlock()
			<-ready
			safely(w)
			s.mu.Lock()
			s.live--
			delete(s.worker, gid)
			s.cond.Broadcast()
			s.mu.Unlock()
		}(i, w)
	}
	// wait until all workers are registered
	for {
		s.mu.Lock()
		n := len(s.worker)
		s.mu.Unlock()
		if n == len(workers) {
			break
		}
		runtime.Gosched()
	}
	close(ready)
	done := make(chan struct{})
	go func() { // controller
		defer close(done)
		for {
			s.mu.Lock()
			for s.live > 0 && !(s.grant == -1 && len(s.waiting) == s.live) {
				s.cond.Wait()
			}
			if s.live == 0 {
				s.mu.Unlock()
				return
			}
			var cands []int
			for w := range s.waiting {
				cands = append(cands, w)
			}
			sort.Ints(cands)
			pick := cands[s.rng.Intn(len(cands))]
			for len(s.fixed) > 0 {
				f := s.fixed[0]
				s.fixed = s.fixed[1:]
				if s.waiting[f] {
					pick = f
					break
				}
			}
			s.grant = pick
			s.cond.Broadcast()
			s.mu.Unlock()
		}
	}()
	wg.Wait()
	s.mu.Lock()
	s.cond.Broadcast()
	s.mu.Unlock()
	<-done
	s.mu.Lock()
	s.active = false
	ord := append([]int(nil), s.order...)
	s.mu.Unlock()
	return ord
}

// the functional properties of each kind whose histories include the concurrent ones
var redisKindProps = map[string][]string{"bloom": {"C01"}, "cms": {"C03"}, "hll": {"C05", "C06"}}

func onlyScriptCall(cmds []string) bool {
	n := 0
	for _, c := range cmds {
		if c == "evalsha" || c == "eval" {
			n++
		} else {
			return false
		}
	}
	return n >= 1 && n <= 2 // EVALSHA, plus EVAL after NOSCRIPT the first time
}

func suiteRedisConc(c *Ctx) {
	c.rep.Rule = "case = (structure, 2-4 clients sharing a handle or holding separately re-attached handles, per-client update sequence, seeded schedule at Redis-command granularity); final state compared with the sequential application; plus the recorded command trace of single updates; non-trivial = schedule in which commands of different clients alternate at least twice; distinct by (structure, ops, schedule)"
	s := getSched()
	rounds := c.scale(60, 600)
	for r := 0; r < rounds; r++ {
		for _, kind := range []string{"bloom", "cms", "hll"} {
			redisConcCommutative(c, s, kind)
		}
		redisConcCuckoo(c, s, false)
		redisConcTopK(c, s, false)
	}
	redisConcCuckoo(c, s, true)
	redisConcTopK(c, s, true)
	for r := 0; r < c.scale(24, 120); r++ {
		redisConcCuckooRemoveInsert(c, s, r)
	}
	for r := 0; r < c.scale(40, 300); r++ {
		redisConcMerge(c, s, "cms")
		redisConcMerge(c, s, "hll")
	}
	for r := 0; r < c.scale(2, 10); r++ {
		redisConcMerge(c, s, "cms-wide")
	}
	for r := 0; r < c.scale(16, 100); r++ {
		redisConcMergeSameSource(c, s, r)
	}
	for r := 0; r < c.scale(20, 100); r++ {
		redisConcTwoFilters(c, s, r)
	}
	for r := 0; r < c.scale(8, 50); r++ {
		for ki := 0; ki < 5; ki++ {
			redisConcEquals(c, s, ki)
		}
	}
	redisCommandSequences(c, s)
	redisCuckooLengthAcrossHandles(c)
	redisFaults(c)
}

func seqMatches(got []string, want [][]string) bool {
	// want[i] lists the admissible spellings of step i ("evalsha" may be followed by an "eval" retry)
	i := 0
	for _, w := range want {
		if i >= len(got) {
			return false
		}
		ok := false
		for _, alt := range w {
			if got[i] == alt {
				ok = true
			}
		}
		if !ok {
			return false
		}
		i++
		if w[0] == "evalsha" && i < len(got) && got[i] == "eval" {
			i++
		}
	}
	return i == len(got)
}

// the multi-command programs of the model (Props/C16.lean: `C16TopK.insertProg`, cuckoo
// `insertProg`): a change of the command sequence is a change of the concurrency behaviour
func redisCommandSequences(c *Ctx, s *cmdSched) {
	c.rep.Cases++
	sc := []string{"evalsha"}
	t := gostatix.NewTopKRedis(2, 0.05, 0.2)
	if t != nil {
		t.Insert([]byte("warm-a"), 5) // scripts cached, set not full
		t.Insert([]byte("warm-b"), 6)
		// new element into a full set: update script, count script, ZCARD, ZRANGE, ZSCORE, ZADD, ZCARD, ZPOPMIN
		got := s.record(func() { t.Insert([]byte("newcomer"), 9) })
		want := [][]string{sc, sc, {"zcard"}, {"zrange"}, {"zscore"}, {"zadd"}, {"zcard"}, {"zpopmin"}}
		if !seqMatches(got, want) {
			c.fail([]string{"C16", "C04", "C08"}, "redistopk-command-sequence", fmt.Sprintf("TopKRedis.Insert of a new element into a full set issues %v, the modelled program is [script script zcard zrange zscore zadd zcard zpopmin]", got), map[string]interface{}{"commands": got})
		}
		// tracked element: ... ZSCORE, ZREM, ZADD, ZCARD (no pop)
		got = s.record(func() { t.Insert([]byte("newcomer"), 1) })
		want = [][]string{sc, sc, {"zcard"}, {"zrange"}, {"zscore"}, {"zrem"}, {"zadd"}, {"zcard"}}
		if !seqMatches(got, want) {
			c.fail([]string{"C16", "C04", "C08"}, "redistopk-command-sequence", fmt.Sprintf("TopKRedis.Insert of a tracked element issues %v, the modelled program is [script script zcard zrange zscore zrem zadd zcard]", got), map[string]interface{}{"commands": got})
		}
		c.branch("topk-command-sequence")
	}
	f, err := gostatix.NewCuckooFilterRedisWithRetries(4, 2, 3, 3)
	if err == nil {
		f.Insert([]byte("warm"), false)
		got := s.record(func() { f.Insert([]byte("direct insert"), false) })
		// isFree(first) [isFree(second)] add HINCRBY
		w1 := [][]string{sc, sc, {"hincrby"}}
		w2 := [][]string{sc, sc, sc, {"hincrby"}}
		if !seqMatches(got, w1) && !seqMatches(got, w2) {
			c.fail([]string{"C16"}, "rediscuckoo-command-sequence", fmt.Sprintf("CuckooFilterRedis.Insert into a bucket with room issues %v, the modelled program is [isFree-script (isFree-script) add-script hincrby]", got), map[string]interface{}{"commands": got})
		}
		got = s.record(func() { f.Length() })
		if !seqMatches(got, [][]string{{"hget"}}) {
			c.fail([]string{"C16", "C09"}, "rediscuckoo-command-sequence", fmt.Sprintf("CuckooFilterRedis.Length issues %v instead of reading the shared counter (HGET)", got), map[string]interface{}{"commands": got})
		}
		c.branch("cuckoo-command-sequence")
	}
}

// Length is the shared counter: after updates through several re-attached handles (no
// interleaving involved) every handle must report the number of successful inserts
func redisCuckooLengthAcrossHandles(c *Ctx) {
	f, err := gostatix.NewCuckooFilterRedisWithRetries(64, 4, 4, 3)
	if err != nil {
		return
	}
	c.rep.Cases++
	hs := []*gostatix.CuckooFilterRedis{f}
	for i := 0; i < 2; i++ {
		if g, err := gostatix.NewCuckooFilterRedisFromKey(f.MetadataKey()); err == nil {
			hs = append(hs, g)
		}
	}
	succ := uint64(0)
	for i := 0; i < 30; i++ {
		h := hs[i%len(hs)]
		ok := false
		safely(func() { ok = h.Insert([]byte(fmt.Sprintf("len-%d", i)), false) })
		if ok {
			succ++
		}
		for hi, g := range hs {
			if l := g.Length(); l != succ {
				c.fail([]string{"C16", "C09", "C13"}, "rediscuckoo-length-handle-local", fmt.Sprintf("after %d successful inserts through %d handles, Length() through handle %d is %d", succ, len(hs), hi, l),
					map[string]interface{}{"handles": len(hs), "inserts": i + 1})
				return
			}
		}
	}
	c.branch("length-across-handles")
}

func alternations(order []int) int {
	n := 0
	for i := 1; i < len(order); i++ {
		if order[i] != order[i-1] {
			n++
		}
	}
	return n
}

func redisConcCommutative(c *Ctx, s *cmdSched, kind string) {
	var k *raKind
	switch kind {
	case "bloom":
		k = raKindByName("bloom-params")
	case "cms":
		k = raKindByName("cms")
	default:
		k = raKindByName("hll")
	}
	seed := c.rng.Int63()
	sub := &Ctx{rng: newRng(seed), rep: c.rep, mr: c.mr, tier: c.tier}
	h0, mk := k.create(sub)
	sub2 := &Ctx{rng: newRng(seed), rep: c.rep, mr: c.mr, tier: c.tier}
	seqH, _ := k.create(sub2)
	if h0 == nil || seqH == nil {
		c.fail([]string{"C16"}, kind+"-constructor", "constructor failed", kind)
		return
	}
	c.rep.Cases++
	// command trace of ONE update: Bloom = SETBITs only; CMS/HLL = exactly one script call
	cmds := s.record(func() { k.eq.feed(c, h0, []int{3}) })
	k.eq.feed(c, seqH, []int{3})
	okTrace := false
	switch kind {
	case "bloom":
		okTrace = len(cmds) >= 1
		for _, x := range cmds {
			for _, y := range strings.Split(strings.TrimPrefix(x, "pipeline:"), ",") {
				if y != "setbit" {
					okTrace = false
				}
			}
		}
	default:
		okTrace = onlyScriptCall(cmds)
	}
	if !okTrace {
		c.fail(append([]string{"C16"}, redisKindProps[kind]...), kind+"-update-not-atomic-steps", fmt.Sprintf("%s: one update issues the commands %v (model: Bloom = SETBITs only, Count-Min/HyperLogLog = one script)", kind, cmds), map[string]interface{}{"kind": kind, "commands": cmds})
	}
	nw := 2 + c.rng.Intn(3)
	shared := c.rng.Intn(2) == 0
	opsPer := make([][]int, nw)
	workers := make([]func(), nw)
	var all []int
	for w := 0; w < nw; w++ {
		n := 1 + c.rng.Intn(3)
		for i := 0; i < n; i++ {
			opsPer[w] = append(opsPer[w], c.rng.Intn(40))
		}
		all = append(all, opsPer[w]...)
		h := h0
		if !shared {
			if h2, err := k.attach(mk); err == nil && h2 != nil {
				h = h2
			}
		}
		ops := opsPer[w]
		workers[w] = func() { k.eq.feed(c, h, ops) }
	}
	if c.rng.Intn(3) == 0 {
		// an emptied script cache (restart, failover, SCRIPT FLUSH): every first EVALSHA is answered
		// NOSCRIPT and the client sends the script text again - two round trips per update, which
		// other clients' commands may now separate
		gostatix.VerifRedisClient().ScriptFlush(context.Background())
		c.branch("script-cache-flushed")
	}
	order := s.runScheduled(c.rng.Int63(), nil, workers)
	c.op(kind + ".concurrent-run")
	k.eq.feed(c, seqH, all)
	a, _ := k.eq.absStr(h0)
	b, _ := k.eq.absStr(seqH)
	if a != b {
		c.fail(append([]string{"C16", "C08"}, redisKindProps[kind]...), kind+"-concurrent-update-lost",
			fmt.Sprintf("%s: final state after %d clients (shared handle=%v) differs from the sequential application of the same updates", kind, nw, shared),
			map[string]interface{}{"kind": kind, "ops": opsPer, "schedule": order, "shared_handle": shared})
	}
	if alternations(order) >= 2 {
		c.nontrivial(fmt.Sprint(kind, opsPer, order))
	}
	c.sample(map[string]interface{}{"kind": kind, "clients": nw, "ops": opsPer, "schedule": order})
}

// cuckoo: every insert that reported success remains findable, Length = number of successes.
// The Redis Insert is check-then-act over several commands (finding D21).
func redisConcCuckoo(c *Ctx, s *cmdSched, targeted bool) {
	n, b, fpl := uint64(4), uint64(2), uint64(3)
	if targeted {
		n, b = 2, 1
	}
	f, err := gostatix.NewCuckooFilterRedisWithRetries(n, b, fpl, 3)
	if err != nil {
		return
	}
	c.rep.Cases++
	// warm the script cache so that every script is one EVALSHA step
	if w, err := gostatix.NewCuckooFilterRedisWithRetries(2, 2, fpl, 3); err == nil {
		w.Insert([]byte("warm"), false)
		w.Lookup([]byte("warm"))
	}
	var elems [][]byte
	if targeted {
		// two elements with different fingerprints and the same first bucket
		byBucket := map[uint64][][]byte{}
		for i := 0; i < 200 && len(elems) == 0; i++ {
			e := []byte(fmt.Sprintf("t%d", i))
			fp, i1, _, ok := cuckooPos(e, n, fpl)
			if !ok {
				continue
			}
			for _, o := range byBucket[i1] {
				ofp, _, _, _ := cuckooPos(o, n, fpl)
				if ofp != fp {
					elems = [][]byte{o, e}
				}
			}
			byBucket[i1] = append(byBucket[i1], e)
		}
	} else {
		for i := 0; len(elems) < 4; i++ {
			e := []byte(fmt.Sprintf("c%d-%d", c.rng.Intn(1000), i))
			if _, _, _, ok := cuckooPos(e, n, fpl); ok {
				elems = append(elems, e)
			}
		}
	}
	nw := 2
	acks := make([][]bool, nw)
	workers := make([]func(), nw)
	per := len(elems) / nw
	for w := 0; w < nw; w++ {
		w := w
		mine := elems[w*per : (w+1)*per]
		acks[w] = make([]bool, len(mine))
		workers[w] = func() {
			for i, e := range mine {
				i, e := i, e
				safely(func() { acks[w][i] = f.Insert(e, false) })
			}
		}
	}
	var fixed []int
	if targeted {
		fixed = []int{0, 1, 0, 1, 0, 1, 0, 1}
	}
	order := s.runScheduled(c.rng.Int63(), fixed, workers)
	c.op("cuckoo.concurrent-run")
	succ := 0
	lost := -1
	for w := 0; w < nw; w++ {
		for i, ok := range acks[w] {
			if ok {
				succ++
				if found, _ := f.Lookup(elems[w*per+i]); !found {
					lost = w*per + i
				}
			}
		}
	}
	d, _ := parseCuckoo(f.Export())
	if lost >= 0 || f.Length() != uint64(succ) || d.stored() != succ {
		c.fail([]string{"C16"}, "rediscuckoo-concurrent-insert",
			fmt.Sprintf("CuckooFilterRedis(n=%d,b=%d): %d inserts reported success, Length=%d, stored entries=%d, acknowledged element lost=%v", n, b, succ, f.Length(), d.stored(), lost >= 0),
			map[string]interface{}{"elements": poolHex(elems), "schedule": order, "targeted": targeted})
		c.branch("cuckoo-race-manifested")
	} else if targeted {
		c.note("cuckoo check-then-act schedule did not manifest (finding D21 not reproduced)")
	}
	if alternations(order) >= 2 {
		c.nontrivial(fmt.Sprint("cuckoo", order))
	}
}

// Remove of one element against Insert of another into the same bucket (other fingerprint, room
// left, no hole): every command of either is a script that searches the list itself, so every
// interleaving must end with the removed element gone and the two others stored.
func redisConcCuckooRemoveInsert(c *Ctx, s *cmdSched, round int) {
	f, err := gostatix.NewCuckooFilterRedisWithRetries(1, 4, 3, 3)
	if err != nil {
		return
	}
	c.rep.Cases++
	var elems [][]byte
	fps := map[string]bool{}
	for i := 0; len(elems) < 3 && i < 400; i++ {
		e := []byte(fmt.Sprintf("ri%d-%d", c.rng.Intn(1000), i))
		if fp, _, _, ok := cuckooPos(e, 1, 3); ok && !fps[fp] {
			fps[fp] = true
			elems = append(elems, e)
		}
	}
	if len(elems) < 3 {
		return
	}
	z, y, x := elems[0], elems[1], elems[2]
	if round%2 == 0 {
		f.Insert(z, false)
		f.Insert(y, false)
	} else {
		f.Insert(y, false)
		f.Insert(z, false)
	}
	var removed, insertedOK bool
	var rerr error
	workers := []func(){
		func() { removed, rerr = f.Remove(y) },
		func() { insertedOK = f.Insert(x, false) },
	}
	fixedSchedules := [][]int{{0, 1, 1, 1, 0, 0}, {0, 1, 1, 0, 1, 0}, {1, 0, 1, 0, 1, 0}, {0, 1, 0, 1, 0, 1}, nil, nil}
	order := s.runScheduled(c.rng.Int63(), fixedSchedules[round%len(fixedSchedules)], workers)
	c.op("cuckoo.remove-vs-insert")
	fx, _ := f.Lookup(x)
	fy, _ := f.Lookup(y)
	fz, _ := f.Lookup(z)
	d, _ := parseCuckoo(f.Export())
	if !removed || rerr != nil || !insertedOK || !fx || fy || !fz || f.Length() != 2 || d.stored() != 2 {
		c.fail([]string{"C16", "C13"}, "rediscuckoo-remove-vs-insert",
			fmt.Sprintf("CuckooFilterRedis(1 bucket of 4): Remove(y) concurrent with Insert(x) into the bucket holding y and z: Remove=%v (%v) Insert=%v; afterwards Lookup(x)=%v Lookup(y)=%v Lookup(z)=%v Length=%d stored=%d (want true/true, true false true, 2, 2)", removed, rerr, insertedOK, fx, fy, fz, f.Length(), d.stored()),
			map[string]interface{}{"elements": poolHex(elems), "schedule": order})
	}
	if alternations(order) >= 2 {
		c.nontrivial(fmt.Sprint("cuckoo-ri", order))
	}
}

// Top-K: ends up holding the k heaviest elements (collision-free sketch, distinct counts)
func redisConcTopK(c *Ctx, s *cmdSched, targeted bool) {
	k := uint(2)
	if targeted {
		k = 1
	}
	t := gostatix.NewTopKRedis(k, 0.05, 0.2)
	if t == nil {
		return
	}
	c.rep.Cases++
	if w := gostatix.NewTopKRedis(1, 1, 0.5); w != nil {
		w.Insert([]byte("warm"), 1)
	}
	nw := 2
	type ins struct {
		e string
		n uint64
	}
	per := 2
	if targeted {
		per = 1
	}
	var all []ins
	workers := make([]func(), nw)
	for w := 0; w < nw; w++ {
		var mine []ins
		for i := 0; i < per; i++ {
			mine = append(mine, ins{fmt.Sprintf("k%d-%d", w, i), uint64(1 + len(all)*2 + i)})
		}
		if targeted {
			mine = []ins{{fmt.Sprintf("heavy%d", w), uint64(5 - 4*w)}}
		}
		all = append(all, mine...)
		workers[w] = func() {
			for _, x := range mine {
				t.Insert([]byte(x.e), x.n)
			}
		}
	}
	var fixed []int
	if targeted {
		// both: script(update), script(count), ZCARD, ZRANGE, ZSCORE, ZADD, ZCARD, ZPOPMIN in lock step
		for i := 0; i < 12; i++ {
			fixed = append(fixed, 0, 1)
		}
	}
	order := s.runScheduled(c.rng.Int63(), fixed, workers)
	c.op("topk.concurrent-run")
	sort.Slice(all, func(i, j int) bool { return all[i].n > all[j].n })
	vals, _ := t.Values()
	got := topkElems(vals)
	ok := len(got) == int(k)
	for i := 0; ok && i < int(k); i++ {
		if got[i].V != all[i].e || got[i].F != all[i].n {
			ok = false
		}
	}
	if !ok {
		c.fail([]string{"C16"}, "redistopk-concurrent-insert",
			fmt.Sprintf("TopKRedis(k=%d): after concurrent inserts %v the tracked set is %v, not the %d heaviest", k, all, got, k),
			map[string]interface{}{"inserts": fmt.Sprint(all), "schedule": order, "targeted": targeted})
		c.branch("topk-race-manifested")
	} else if targeted {
		c.note("top-k check-then-act schedule did not manifest (finding D21 not reproduced)")
	}
	if alternations(order) >= 2 {
		c.nontrivial(fmt.Sprint("topk", order))
	}
}

// ---------------------------------------------------------------------------------------------
// Merge against concurrent updates (C06 / C12 / C16): a Merge into a shared Redis sketch while
// other handles update the same sketch.  Merge and updates commute (cell-wise sum / register-wise
// max), so whatever the interleaving of Redis commands the final state is the one of the
// sequential application - provided the Merge is one atomic step (a single script).

func redisConcMerge(c *Ctx, s *cmdSched, kind string) {
	c.rep.Cases++
	pool := eqPool
	nw := 2 + c.rng.Intn(2)
	var final, want string
	var opsPer [][]int
	var order []int
	switch kind {
	case "cms", "cms-wide":
		rows, cols := uint(2+c.rng.Intn(2)), uint(3+c.rng.Intn(6))
		if kind == "cms-wide" {
			// wider than any row length an implementation might treat specially (4096), still
			// below the unpack limit of the Lua stand-in (~5100)
			rows, cols = 2, uint(4200+c.rng.Intn(700))
		}
		mk := func() *gostatix.CountMinSketchRedis { h, _ := gostatix.NewCountMinSketchRedis(rows, cols); return h }
		T, S, seq := mk(), mk(), mk()
		if T == nil || S == nil || seq == nil {
			return
		}
		for i := 0; i < 5; i++ {
			e, n := pool[c.rng.Intn(len(pool))], uint64(1+c.rng.Intn(9))
			S.Update(e, n)
			seq.Update(e, n)
		}
		T.Update(pool[0], 1) // scripts cached
		seq.Update(pool[0], 1)
		workers := []func(){func() { T.Merge(S) }}
		opsPer = append(opsPer, []int{-1})
		for w := 1; w < nw; w++ {
			h, err := gostatix.NewCountMinSketchRedisFromKey(T.MetadataKey())
			if err != nil || h == nil {
				h = T
			}
			var ops []int
			for i := 0; i < 1+c.rng.Intn(3); i++ {
				ops = append(ops, c.rng.Intn(len(pool)))
			}
			opsPer = append(opsPer, ops)
			for _, j := range ops {
				seq.Update(pool[j], uint64(j+1))
			}
			workers = append(workers, func() {
				for _, j := range ops {
					h.Update(pool[j], uint64(j+1))
				}
			})
		}
		order = s.runScheduled(c.rng.Int63(), mergeFirstThenOthers(c, len(workers)), workers)
		a, _ := parseCMS(T.Export())
		b, _ := parseCMS(seq.Export())
		final, want = matrixStr(a.M), matrixStr(b.M)
	default:
		m := uint64(128)
		mk := func() *gostatix.HyperLogLogRedis { h, _ := gostatix.NewHyperLogLogRedis(m); return h }
		T, S, seq := mk(), mk(), mk()
		if T == nil || S == nil || seq == nil {
			return
		}
		elem := func(i int) []byte { return []byte(fmt.Sprintf("hll-merge-%d", i)) }
		for i := 0; i < 6; i++ {
			e := elem(c.rng.Intn(40))
			S.Update(e)
			seq.Update(e)
		}
		T.Update(elem(0))
		seq.Update(elem(0))
		workers := []func(){func() { T.Merge(S) }}
		opsPer = append(opsPer, []int{-1})
		for w := 1; w < nw; w++ {
			h, err := gostatix.NewHyperLogLogRedisFromKey(T.MetadataKey())
			if err != nil || h == nil {
				h = T
			}
			var ops []int
			for i := 0; i < 1+c.rng.Intn(3); i++ {
				ops = append(ops, c.rng.Intn(40))
			}
			opsPer = append(opsPer, ops)
			for _, j := range ops {
				seq.Update(elem(j))
			}
			workers = append(workers, func() {
				for _, j := range ops {
					h.Update(elem(j))
				}
			})
		}
		order = s.runScheduled(c.rng.Int63(), mergeFirstThenOthers(c, len(workers)), workers)
		a, _ := parseHLL(T.Export())
		b, _ := parseHLL(seq.Export())
		final, want = fmt.Sprint(a.R), fmt.Sprint(b.R)
	}
	c.op(kind + ".merge-vs-updates")
	if final != want {
		// the updaters work through handles re-attached from the metadata key (C09: such handles
		// and the creating one are one structure)
		props := []string{"C16", "C12", "C09"}
		if kind != "cms" && kind != "cms-wide" {
			props = []string{"C16", "C06", "C09"}
		}
		c.fail(props, kind+"-merge-loses-concurrent-update",
			fmt.Sprintf("%s: a Merge into a shared sketch interleaved with updates through other handles: final state differs from the sequential application (an acknowledged update was overwritten)", kind),
			map[string]interface{}{"kind": kind, "ops": opsPer, "schedule": order})
	}
	if alternations(order) >= 2 {
		c.nontrivial(fmt.Sprint(kind, "merge", opsPer, order))
	}
}

// ---------------------------------------------------------------------------------------------
// Faults on the connection (C03 / C04 / C16): one command of an update is hit by a fault - it is
// refused before it is executed, or it is executed and its REPLY is lost (timeout, reset).  The
// caller sees an error (or, if the library hides it, nothing).  Whatever it sees, an update is
// applied at most once: the estimate of an element never exceeds the sum of all counts any call
// tried to add, and is at least the sum of those calls that reported success.

// injectedTimeout is a net.Error with Timeout() == true ("read tcp ...: i/o timeout")
type injectedTimeout struct{}

func (injectedTimeout) Error() string   { return "read tcp 127.0.0.1: i/o timeout (injected)" }
func (injectedTimeout) Timeout() bool   { return true }
func (injectedTimeout) Temporary() bool { return true }

type faultHook struct {
	mu     sync.Mutex
	armed  bool
	lost   bool // true: execute, then lose the reply; false: refuse before execution
	sticky bool // true: every command fails until disarmed (an outage), false: the next one only
	fired  int
	only   string // when set: only commands of this name are candidates
	skip   int    // candidates to let through before the fault fires
}

func (f *faultHook) DialHook(next redis.DialHook) redis.DialHook { return next }
func (f *faultHook) ProcessHook(next redis.ProcessHook) redis.ProcessHook {
	return func(ctx context.Context, cmd redis.Cmder) error {
		f.mu.Lock()
		hit := f.armed
		lost := f.lost
		if hit && f.only != "" && cmd.Name() != f.only {
			hit = false
		}
		if hit && f.skip > 0 {
			f.skip--
			hit = false
		}
		if hit {
			f.armed = f.sticky
			f.fired++
		}
		f.mu.Unlock()
		if !hit {
			return next(ctx, cmd)
		}
		// the error a caller of go-redis really sees when the connection fails: end of stream, a
		// network timeout (net.Error), an expired deadline - rotating
		f.mu.Lock()
		kind := f.fired % 4
		f.mu.Unlock()
		var err error
		switch kind {
		case 0:
			err = injectedTimeout{}
		case 1:
			err = io.EOF
		case 2:
			err = context.DeadlineExceeded
		default:
			err = fmt.Errorf("verif: injected fault: %w", io.ErrUnexpectedEOF)
		}
		if lost {
			next(ctx, cmd)
		}
		cmd.SetErr(err)
		return err
	}
}
func (f *faultHook) ProcessPipelineHook(next redis.ProcessPipelineHook) redis.ProcessPipelineHook {
	return next
}

var theFaults *faultHook

func getFaults() *faultHook {
	if theFaults == nil {
		theFaults = &faultHook{}
		gostatix.VerifRedisClient().AddHook(theFaults)
	}
	return theFaults
}

func redisFaults(c *Ctx) {
	fh := getFaults()
	for round := 0; round < c.scale(12, 80); round++ {
		rows, cols := uint(1+c.rng.Intn(4)), uint(1+c.rng.Intn(64))
		s, err := gostatix.NewCountMinSketchRedis(rows, cols)
		if err != nil || s == nil {
			continue
		}
		c.rep.Cases++
		s.Update([]byte("warm"), 0) // script cache: a first call legitimately falls back from EVALSHA to EVAL
		s.Count([]byte("warm"))
		acked := map[string]uint64{}
		var attempted uint64
		var hist []string
		for i := 0; i < 6+c.rng.Intn(8); i++ {
			e := eqPool[c.rng.Intn(3)]
			if round%2 == 0 {
				e = eqPool[0] // a single distinct element: the estimate is exact, every doubled update shows
			}
			n := uint64(1 + c.rng.Intn(9))
			fault := c.rng.Intn(3) == 0
			if fault {
				fh.mu.Lock()
				fh.armed, fh.lost = true, c.rng.Intn(3) != 0
				fh.mu.Unlock()
			}
			var uerr error
			res := safely(func() { uerr = s.Update(e, n) })
			fh.mu.Lock()
			fh.armed = false
			fh.mu.Unlock()
			attempted += n
			if !res.panicked && uerr == nil {
				acked[string(e)] += n
			}
			hist = append(hist, fmt.Sprintf("Update(%s,%d) fault=%v err=%v", e, n, fault, uerr != nil))
			c.op("cms.update-under-fault")
		}
		for e, lo := range acked {
			got, err := s.Count([]byte(e))
			if err != nil {
				continue
			}
			if got < lo || got > attempted {
				c.fail([]string{"C16", "C03"}, "cms-update-not-exactly-once-under-fault",
					fmt.Sprintf("cms(rows=%d,cols=%d,redis=true): Count(%s)=%d after updates hit by connection faults: acknowledged updates of it sum to %d, ALL attempted updates of all elements to %d", rows, cols, e, got, lo, attempted),
					map[string]interface{}{"rows": rows, "cols": cols, "history": hist})
				return
			}
		}
		c.nontrivial(fmt.Sprint(rows, cols, hist))
	}
	c.branch("fault-injection")
	redisFaultsMerge(c, fh)
	redisFaultsHLL(c, fh)
	redisFaultsBloom(c, fh)
}

// HyperLogLog: an Update that reported an error is retried by the caller until it is
// acknowledged; every acknowledged element must then be in the registers (= a sketch that
// received the same elements without faults), through this and through an attached handle.
// Two DIFFERENT sketches merge the same source at the same time (the usual fan-out of one worker's
// sketch into several aggregates): the merges share nothing but the source, which they only read -
// every interleaving must leave each receiver = its own content + the source, the source unchanged,
// and no key in the database that belongs to none of the three.
func redisConcMergeSameSource(c *Ctx, s *cmdSched, round int) {
	c.rep.Cases++
	hll := round%3 == 2
	var exportOf func(i int) string
	var workers []func()
	var want [3]string
	var errs [2]error
	keysBefore := 0
	if hll {
		mk := func() *gostatix.HyperLogLogRedis { h, _ := gostatix.NewHyperLogLogRedis(128); return h }
		A, B, S, sa, sb := mk(), mk(), mk(), mk(), mk()
		if A == nil || B == nil || S == nil || sa == nil || sb == nil {
			return
		}
		el := func(i int) []byte { return []byte(fmt.Sprintf("fan-%d", i)) }
		for i := 0; i < 5; i++ {
			x, y, z := el(c.rng.Intn(50)), el(c.rng.Intn(50)), el(c.rng.Intn(50))
			A.Update(x)
			sa.Update(x)
			B.Update(y)
			sb.Update(y)
			S.Update(z)
			sa.Update(z)
			sb.Update(z)
		}
		hs := []*gostatix.HyperLogLogRedis{A, B, S}
		exportOf = func(i int) string { d, _ := parseHLL(hs[i].Export()); return fmt.Sprint(d.R) }
		da, _ := parseHLL(sa.Export())
		db, _ := parseHLL(sb.Export())
		want = [3]string{fmt.Sprint(da.R), fmt.Sprint(db.R), exportOf(2)}
		workers = []func(){func() { errs[0] = A.Merge(S) }, func() { errs[1] = B.Merge(S) }}
	} else {
		rows, cols := uint(2+c.rng.Intn(2)), uint(3+c.rng.Intn(6))
		mk := func() *gostatix.CountMinSketchRedis { h, _ := gostatix.NewCountMinSketchRedis(rows, cols); return h }
		A, B, S, sa, sb, W := mk(), mk(), mk(), mk(), mk(), mk()
		if A == nil || B == nil || S == nil || sa == nil || sb == nil || W == nil {
			return
		}
		W.Merge(S) // scripts cached
		for i := 0; i < 5; i++ {
			x, y, z := eqPool[c.rng.Intn(len(eqPool))], eqPool[c.rng.Intn(len(eqPool))], eqPool[c.rng.Intn(len(eqPool))]
			n := uint64(1 + c.rng.Intn(9))
			A.Update(x, n)
			sa.Update(x, n)
			B.Update(y, n+1)
			sb.Update(y, n+1)
			S.Update(z, n+2)
			sa.Update(z, n+2)
			sb.Update(z, n+2)
		}
		hs := []*gostatix.CountMinSketchRedis{A, B, S}
		exportOf = func(i int) string { d, _ := parseCMS(hs[i].Export()); return matrixStr(d.M) }
		da, _ := parseCMS(sa.Export())
		db, _ := parseCMS(sb.Export())
		want = [3]string{matrixStr(da.M), matrixStr(db.M), exportOf(2)}
		workers = []func(){func() { errs[0] = A.Merge(S) }, func() { errs[1] = B.Merge(S) }}
	}
	keysBefore = len(c.mr.Keys())
	fixed := [][]int{{0, 1, 0, 1, 0, 1}, {1, 0, 1, 0}, {0, 1, 1, 0}, nil}[round%4]
	order := s.runScheduled(c.rng.Int63(), fixed, workers)
	c.op("merge-same-source")
	got := [3]string{exportOf(0), exportOf(1), exportOf(2)}
	if errs[0] != nil || errs[1] != nil || got != want || len(c.mr.Keys()) != keysBefore {
		kind := map[bool]string{true: "hll", false: "cms"}[hll]
		props := []string{"C19", "C16", "C12"}
		if hll {
			props = []string{"C19", "C16", "C06"}
		}
		c.fail(props, kind+"-concurrent-merges-of-one-source-interfere",
			fmt.Sprintf("%s: two different sketches merging the same source concurrently: errors %v / %v; receiver 1 as expected: %v, receiver 2: %v, source unchanged: %v; keys in the database %d -> %d", kind, errs[0], errs[1], got[0] == want[0], got[1] == want[1], got[2] == want[2], keysBefore, len(c.mr.Keys())),
			map[string]interface{}{"kind": kind, "schedule": order})
	}
	if alternations(order) >= 2 {
		c.nontrivial(fmt.Sprint("merge-same-source", round, order))
	}
}

// Two DIFFERENT Redis-backed Bloom filters queried at the same time from two goroutines: each answers
// for itself (whatever the client side batches, pools or recycles between calls is not shared state
// of the two structures).
func redisConcTwoFilters(c *Ctx, s *cmdSched, round int) {
	k := []uint{3, 7, 12}[round%3]
	A, e1 := gostatix.NewRedisBloomFilterFromBitSet(make([]uint64, 4), k)
	B, e2 := gostatix.NewRedisBloomFilterFromBitSet(make([]uint64, 4), k)
	if e1 != nil || e2 != nil {
		return
	}
	c.rep.Cases++
	var in, out [][]byte
	for i := 0; i < 4; i++ {
		in = append(in, []byte(fmt.Sprintf("both-%d-%d", round, i)))
		out = append(out, []byte(fmt.Sprintf("none-%d-%d", round, i)))
	}
	for _, e := range in {
		A.Insert(e)
	}
	A.Lookup(in[0])
	B.Lookup(in[0])
	wantB := make([]bool, len(in))
	for i, e := range in {
		wantB[i] = B.Lookup(e) // false unless a false positive of the empty filter (impossible: no bit is set)
	}
	gotA, gotB := make([]bool, len(in)), make([]bool, len(in))
	workers := []func(){
		func() {
			for i, e := range in {
				gotA[i] = A.Lookup(e)
			}
		},
		func() {
			for i, e := range in {
				gotB[i] = B.Lookup(e)
			}
		},
	}
	fixed := [][]int{{1, 0, 1, 0, 1, 0}, {0, 1, 0, 1}, {1, 1, 0, 0}, nil}[round%4]
	order := s.runScheduled(c.rng.Int63(), fixed, workers)
	c.op("two-filters-concurrent-lookups")
	for i := range in {
		if !gotA[i] || gotB[i] != wantB[i] {
			c.fail([]string{"C19", "C16", "C01"}, "bloom-concurrent-lookups-on-two-filters-interfere",
				fmt.Sprintf("two Redis Bloom filters (%d hash functions): A holds the element, B is empty; concurrent Lookups returned A=%v B=%v for element %d (want true / %v)", k, gotA[i], gotB[i], i, wantB[i]),
				map[string]interface{}{"hashes": k, "schedule": order})
			return
		}
	}
	if alternations(order) >= 2 {
		c.nontrivial(fmt.Sprint("two-filters", round, order))
	}
}

// Merge under a connection fault: a Merge that reports success has happened (the receiver answers
// as the union), a Merge that reports an error has happened entirely or not at all.
func redisFaultsMerge(c *Ctx, fh *faultHook) {
	for round := 0; round < c.scale(10, 60); round++ {
		rows, cols := uint(1+c.rng.Intn(4)), uint(2+c.rng.Intn(40))
		A, e1 := gostatix.NewCountMinSketchRedis(rows, cols)
		B, e2 := gostatix.NewCountMinSketchRedis(rows, cols)
		W, e3 := gostatix.NewCountMinSketchRedis(rows, cols)
		if e1 != nil || e2 != nil || e3 != nil {
			continue
		}
		c.rep.Cases++
		W.Merge(B) // script cache warm: the merge below is one EVALSHA
		A.Update(eqPool[0], uint64(1+c.rng.Intn(9)))
		B.Update(eqPool[1+c.rng.Intn(2)], uint64(1+c.rng.Intn(9)))
		B.Update(eqPool[0], 1)
		dA, _ := parseCMS(A.Export())
		dB, _ := parseCMS(B.Export())
		lost := round%3 == 0
		fh.mu.Lock()
		fh.armed, fh.lost = true, lost
		fh.mu.Unlock()
		var merr error
		res := safely(func() { merr = A.Merge(B) })
		fh.mu.Lock()
		fh.armed = false
		fh.mu.Unlock()
		c.op("cms.merge-under-fault")
		dAfter, _ := parseCMS(A.Export())
		sum := make([][]uint64, len(dA.M))
		for r := range dA.M {
			sum[r] = make([]uint64, len(dA.M[r]))
			for k := range dA.M[r] {
				sum[r][k] = dA.M[r][k] + dB.M[r][k]
			}
		}
		merged := matrixStr(dAfter.M) == matrixStr(sum)
		untouched := matrixStr(dAfter.M) == matrixStr(dA.M)
		if res.panicked || (merr == nil && !merged) || !(merged || untouched) {
			c.fail([]string{"C12", "C16"}, "cms-merge-under-fault",
				fmt.Sprintf("cms(rows=%d,cols=%d,redis=true): the Merge command was hit by a connection fault (%s); Merge returned %v (panic=%q); receiver afterwards: merged=%v untouched=%v (a Merge that reports success must have happened; one that reports an error entirely or not at all)", rows, cols, map[bool]string{true: "executed, reply lost", false: "refused before execution"}[lost], merr, res.panicVal, merged, untouched),
				map[string]interface{}{"rows": rows, "cols": cols, "reply_lost": lost, "receiver_before": matrixStr(dA.M), "argument": matrixStr(dB.M), "receiver_after": matrixStr(dAfter.M)})
			return
		}
	}
	c.branch("merge-under-fault")
}

func redisFaultsHLL(c *Ctx, fh *faultHook) {
	for round := 0; round < c.scale(10, 60); round++ {
		m := []uint64{128, 256}[round%2]
		h, err := gostatix.NewHyperLogLogRedis(m)
		ref, err2 := gostatix.NewHyperLogLogRedis(m)
		if err != nil || err2 != nil || h == nil || ref == nil {
			continue
		}
		c.rep.Cases++
		h.Update([]byte("warm"))
		ref.Update([]byte("warm"))
		var hist []string
		for i := 0; i < 8+c.rng.Intn(10); i++ {
			e := []byte(fmt.Sprintf("fault-elem-%d-%d", round, c.rng.Intn(30)))
			fault := c.rng.Intn(3) == 0
			for attempt := 0; attempt < 4; attempt++ {
				if fault && attempt == 0 {
					fh.mu.Lock()
					fh.armed, fh.lost = true, c.rng.Intn(2) == 0
					fh.mu.Unlock()
				}
				var uerr error
				safely(func() { uerr = h.Update(e) })
				fh.mu.Lock()
				fh.armed = false
				fh.mu.Unlock()
				hist = append(hist, fmt.Sprintf("Update(%s) attempt %d fault=%v err=%v", e, attempt, fault && attempt == 0, uerr != nil))
				if uerr == nil {
					break
				}
			}
			ref.Update(e)
			c.op("hll.update-under-fault")
		}
		a, _ := parseHLL(h.Export())
		b, _ := parseHLL(ref.Export())
		if fmt.Sprint(a.R) != fmt.Sprint(b.R) {
			c.fail([]string{"C16", "C06", "C09"}, "hll-acknowledged-update-missing-after-fault",
				fmt.Sprintf("hll(m=%d,redis=true): after updates hit by connection faults and retried until acknowledged, the registers differ from a sketch that received the same elements", m),
				map[string]interface{}{"m": m, "history": hist})
			return
		}
	}
	c.branch("fault-injection-hll")
}

// Bloom: a filter into which nothing was inserted reports every element absent - also when a
// GETBIT of the lookup fails (a failed read is not a set bit).
func redisFaultsBloom(c *Ctx, fh *faultHook) {
	f, err := gostatix.NewRedisBloomFilterWithParameters(200, 0.01)
	if err != nil || f == nil {
		return
	}
	c.rep.Cases++
	f.Lookup([]byte("warm"))
	present := 0
	for i := 0; i < c.scale(60, 300); i++ {
		fh.mu.Lock()
		fh.armed, fh.lost, fh.sticky = true, i%2 == 0, i%3 != 0 // one failing command, or an outage
		fh.mu.Unlock()
		got := false
		safely(func() { got = f.Lookup([]byte(fmt.Sprintf("never-inserted-%d", i))) })
		fh.mu.Lock()
		fh.armed, fh.sticky = false, false
		fh.mu.Unlock()
		if got {
			present++
		}
		c.op("bloom.lookup-under-fault")
	}
	if present > 0 {
		c.fail([]string{"C16", "C01", "C15"}, "bloom-empty-filter-reports-present-under-fault",
			fmt.Sprintf("an EMPTY Redis Bloom filter reported %d never-inserted elements present when GETBITs of the lookup failed (one command, or all of them)", present),
			map[string]interface{}{"lookups_with_one_failing_command": c.scale(60, 300)})
	}
	c.branch("fault-injection-bloom")
}

// ---------------------------------------------------------------------------------------------
// Queries on DISJOINT structures interleave freely (C19, C17): two Equals calls on two unrelated
// pairs of structures, interleaved at command granularity, answer what they answer alone.
func redisConcEquals(c *Ctx, s *cmdSched, ki int) {
	kinds := []eqKind{eqBloom(true), eqCMS(true), eqHLL(true), eqCuckoo(true), eqTopK(true)}
	k := kinds[ki%len(kinds)]
	h := randHist(c)
	x1, x2, y1, y2 := k.build(c, 0), k.build(c, 0), k.build(c, 0), k.build(c, 0)
	if x1 == nil || x2 == nil || y1 == nil || y2 == nil {
		return
	}
	c.rep.Cases++
	k.feed(c, x1, h)
	k.feed(c, x2, append(append([]int(nil), h...), 5, 17, 23))
	h2 := randHist(c)
	k.feed(c, y1, h2)
	k.feed(c, y2, h2)
	wantX, _ := k.equals(x1, x2)
	wantY, _ := k.equals(y1, y2)
	var gotX, gotY bool
	order := s.runScheduled(c.rng.Int63(), nil, []func(){
		func() { gotX, _ = k.equals(x1, x2) },
		func() { gotY, _ = k.equals(y1, y2) },
	})
	c.op(k.name + ".equals-interleaved")
	if gotX != wantX || gotY != wantY {
		c.fail([]string{"C19", "C17", "C16"}, k.name+"-equals-disturbed-by-unrelated-equals",
			fmt.Sprintf("%s: Equals on one pair of structures interleaved with Equals on an unrelated pair answers (%v,%v); alone they answer (%v,%v)", k.name, gotX, gotY, wantX, wantY),
			map[string]interface{}{"kind": k.name, "schedule": order})
	}
	if alternations(order) >= 2 {
		c.nontrivial(fmt.Sprint(k.name, "equals", h, h2, order))
	}
}

// mergeFirstThenOthers: in half of the runs the schedule starts with ONE command of the merging
// client (worker 0) followed by all commands of the updating clients - the interleaving that
// separates a read of the target from its write-back if the merge is more than one step; the
// rest of the schedule (and the other half of the runs) is random.
func mergeFirstThenOthers(c *Ctx, workers int) []int {
	if c.rng.Intn(2) == 0 {
		return nil
	}
	fixed := []int{0}
	for w := 1; w < workers; w++ {
		for i := 0; i < 8; i++ {
			fixed = append(fixed, w)
		}
	}
	return fixed
}
