package main

import (
	"strings"
	"fmt"
	"math/rand"

	"github.com/dgryski/go-metro"
	"github.com/kwertop/gostatix"
)

// suite "cms": C03 (estimate bounds), C12 (merge = union), CMS part of C08.
// Abstract mode: the per-row position of every element is learned from one Update on a fresh
// sketch of the same dimensions; exact mode line `cms.positions` ties getPositions.

type cmsHandle interface {
	Update(data []byte, count uint64) error
	UpdateOnce(data []byte)
	UpdateString(data string, count uint64) error
	Count(data []byte) (uint64, error)
	CountString(data string) (uint64, error)
	Export() ([]byte, error)
	Merge(o cmsHandle) error
	Equals(o cmsHandle) (bool, error)
}

type cmsMem struct{ s *gostatix.CountMinSketch }

func (h cmsMem) Update(d []byte, c uint64) error {
	viaScratch(d, func(a []byte) { h.s.Update(a, c) })
	return nil
}
func (h cmsMem) UpdateOnce(d []byte)                   { viaScratch(d, func(a []byte) { h.s.UpdateOnce(a) }) }
func (h cmsMem) UpdateString(d string, c uint64) error { h.s.UpdateString(d, c); return nil }
func (h cmsMem) Count(d []byte) (n uint64, err error) {
	viaScratch(d, func(a []byte) { n = h.s.Count(a) })
	return
}
func (h cmsMem) CountString(d string) (uint64, error) { return h.s.CountString(d), nil }
func (h cmsMem) Export() ([]byte, error)              { return h.s.Export() }
func (h cmsMem) Merge(o cmsHandle) error              { return h.s.Merge(o.(cmsMem).s) }
func (h cmsMem) Equals(o cmsHandle) (bool, error)     { return h.s.Equals(o.(cmsMem).s), nil }

type cmsRedis struct{ s *gostatix.CountMinSketchRedis }

func (h cmsRedis) Update(d []byte, c uint64) (err error) {
	viaScratch(d, func(a []byte) { err = h.s.Update(a, c) })
	return
}
func (h cmsRedis) UpdateOnce(d []byte)                   { viaScratch(d, func(a []byte) { h.s.UpdateOnce(a) }) }
func (h cmsRedis) UpdateString(d string, c uint64) error { return h.s.UpdateString(d, c) }
func (h cmsRedis) Count(d []byte) (n uint64, err error) {
	viaScratch(d, func(a []byte) { n, err = h.s.Count(a) })
	return
}
func (h cmsRedis) CountString(d string) (uint64, error) { return h.s.CountString(d) }
func (h cmsRedis) Export() ([]byte, error)              { return h.s.Export() }
func (h cmsRedis) Merge(o cmsHandle) error              { return h.s.Merge(cmsUnder(o)) }
func (h cmsRedis) Equals(o cmsHandle) (bool, error)     { return h.s.Equals(cmsUnder(o)) }

// cmsMulti routes every operation of a Redis sketch through a randomly chosen handle: the creating
// one or one re-attached from the metadata key (handle-local state must not matter: C09)
type cmsMulti struct {
	hs     []cmsRedis
	rng    *rand.Rand
	frozen bool // no further handles are attached (after an Import in place: finding D25)
}

func (m *cmsMulti) pick() cmsRedis {
	if !m.frozen && len(m.hs) < 3 && m.rng.Intn(6) == 0 {
		if s, err := gostatix.NewCountMinSketchRedisFromKey(m.hs[0].s.MetadataKey()); err == nil && s != nil {
			m.hs = append(m.hs, cmsRedis{s})
		}
	}
	return m.hs[m.rng.Intn(len(m.hs))]
}
func (m *cmsMulti) Update(d []byte, c uint64) error       { return m.pick().Update(d, c) }
func (m *cmsMulti) UpdateOnce(d []byte)                   { m.pick().UpdateOnce(d) }
func (m *cmsMulti) UpdateString(d string, c uint64) error { return m.pick().UpdateString(d, c) }
func (m *cmsMulti) Count(d []byte) (uint64, error)        { return m.pick().Count(d) }
func (m *cmsMulti) CountString(d string) (uint64, error)  { return m.pick().CountString(d) }
func (m *cmsMulti) Export() ([]byte, error)               { return m.hs[0].Export() }
func (m *cmsMulti) Merge(o cmsHandle) error               { return m.pick().s.Merge(cmsUnder(o)) }
func (m *cmsMulti) Equals(o cmsHandle) (bool, error)      { return m.pick().s.Equals(cmsUnder(o)) }

var multiRng = rand.New(rand.NewSource(12345))

// cmsUnder: the library handle behind a harness handle (a random one for a multi-handle)
func cmsUnder(o cmsHandle) *gostatix.CountMinSketchRedis {
	switch x := o.(type) {
	case cmsRedis:
		return x.s
	case *cmsMulti:
		return x.pick().s
	}
	return nil
}

func newCMS(rows, cols uint, redis bool) (cmsHandle, error) {
	if redis {
		s, err := gostatix.NewCountMinSketchRedis(rows, cols)
		if err != nil {
			return nil, err
		}
		return &cmsMulti{hs: []cmsRedis{{s}}, rng: multiRng}, nil
	}
	s, err := gostatix.NewCountMinSketch(rows, cols)
	if err != nil {
		return nil, err
	}
	return cmsMem{s}, nil
}

func init() { register("cms", suiteCMS) }

var cmsCounts = []uint64{1, 1, 1, 2, 3, 7, 0, 1 << 32, 1 << 40}

// learnCMSPos: per-row column of e, from one update on a fresh sketch
func learnCMSPos(rows, cols uint, redis bool, e []byte) ([]uint64, error) {
	g, err := newCMS(rows, cols, redis)
	if err != nil {
		return nil, err
	}
	if err := g.Update(e, 1); err != nil {
		return nil, err
	}
	d, err := parseCMS(g.Export())
	if err != nil {
		return nil, err
	}
	if uint(len(d.M)) != rows {
		return nil, fmt.Errorf("exported matrix has %d rows, want %d", len(d.M), rows)
	}
	pos := make([]uint64, rows)
	for r := range d.M {
		found := -1
		for cidx, v := range d.M[r] {
			if v != 0 {
				if found >= 0 || v != 1 {
					return nil, fmt.Errorf("row %d: update touched more than one cell or wrong amount", r)
				}
				found = cidx
			}
		}
		if found < 0 {
			return nil, fmt.Errorf("row %d: update touched no cell", r)
		}
		pos[r] = uint64(found)
	}
	return pos, nil
}

func suiteCMS(c *Ctx) {
	c.rep.Rule = "case = (rows, cols, backend) x history of Update/UpdateOnce/UpdateString/Count/CountString over a pool 4-200x wider than the sketch, counts from {1,2,3,7,2^32,2^40}; plus merge pairs/triples; non-trivial = at least one cell shared by two distinct elements (collision) and >=3 updates; distinct by (dims, history)"
	cases := c.scale(120, 1200)
	for i := 0; i < cases; i++ {
		redis := i%2 == 1
		rows := uint(1 + c.rng.Intn(7))
		if c.rng.Intn(8) == 0 {
			rows = uint(10 + c.rng.Intn(4)) // row numbers of two decimal digits
		}
		cols := []uint{1, 1, 2, 3, 5, 8, 13, 64}[c.rng.Intn(8)]
		if i%17 == 0 {
			// a FromEstimates-sized sketch (kept small enough for Redis)
			var er, dl = 0.05, 0.05
			var h cmsHandle
			if redis {
				s, err := gostatix.NewCountMinSketchRedisFromEstimates(er, dl)
				if err != nil {
					c.fail([]string{"C03"}, "cms-constructor", err.Error(), nil)
					continue
				}
				h = &cmsMulti{hs: []cmsRedis{{s}}, rng: multiRng}
				rows, cols = s.GetRows(), s.GetColumns()
			} else {
				s, _ := gostatix.NewCountMinSketchFromEstimates(er, dl)
				h = cmsMem{s}
				rows, cols = s.GetRows(), s.GetColumns()
			}
			cmsCase(c, h, rows, cols, redis)
			continue
		}
		h, err := newCMS(rows, cols, redis)
		if err != nil {
			c.fail([]string{"C03"}, "cms-constructor", err.Error(), nil)
			continue
		}
		cmsCase(c, h, rows, cols, redis)
		if i%3 == 0 {
			cmsMergeCase(c, rows, cols, redis)
		}
	}
	cmsMismatch(c)
	cmsWideMerge(c)
	cmsGrowingStringKeys(c)
	cmsWideRedisProbe(c)
}

func cmsCase(c *Ctx, h cmsHandle, rows, cols uint, redis bool) {
	c.rep.Cases++
	cfg := fmt.Sprintf("cms(rows=%d,cols=%d,redis=%v)", rows, cols, redis)
	npool := 4 + c.rng.Intn(12)
	pool := elemPool(c.rng, npool, false)
	pos := make([][]uint64, len(pool))
	for j, e := range pool {
		p, err := learnCMSPos(rows, cols, redis, e)
		if err != nil {
			c.fail([]string{"C03", "C08"}, "cms-probe", fmt.Sprintf("%s: %v", cfg, err), cfg)
			return
		}
		pos[j] = p
		h1, h2 := metro.Hash128(e, 1373)
		c.emit("cms.positions %d %d %d %d %s", h1, h2, rows, cols, natList(p))
	}
	d0, err := parseCMS(h.Export())
	if err != nil {
		c.fail([]string{"C03"}, "cms-export", err.Error(), cfg)
		return
	}
	c.emit("cms.new %d %d %s", rows, cols, matrixStr(d0.M))
	// empty sketch: every count is zero
	for _, e := range pool {
		if v, err := h.Count(e); err != nil || v != 0 {
			c.fail([]string{"C03"}, "cms-empty-nonzero", fmt.Sprintf("%s: empty sketch counts %x as %d (err %v)", cfg, e, v, err), cfg)
		}
	}
	truth := make([]uint64, len(pool))
	var total uint64
	var hist []string
	distinct := map[int]bool{}
	nops := 8 + c.rng.Intn(25)
	single := c.rng.Intn(5) == 0 // a run with one distinct element: estimate must be exact
	for opn := 0; opn < nops; opn++ {
		j := c.rng.Intn(len(pool))
		if single {
			j = 0
		}
		e := pool[j]
		pre, err := parseCMS(h.Export())
		if err != nil {
			c.fail([]string{"C03"}, "cms-export", err.Error(), cfg)
			return
		}
		if r := c.rng.Intn(10); r < 6 {
			cnt := cmsCounts[c.rng.Intn(len(cmsCounts))]
			if !redis && c.rng.Intn(6) == 0 {
				// in-memory counters are uint64s: single counts and running sums around 2^62 / 2^63
				// (kept below 2^64 in total: the model counts in unbounded naturals)
				big := []uint64{1 << 62, 1<<62 + 1, 1<<63 + 5, 1 << 61}[c.rng.Intn(4)]
				if total < 1<<63 && big <= (1<<64-1)-total-(1<<40)*uint64(nops) {
					cnt = big
				}
			}
			var res callResult
			var uerr error
			switch r % 3 {
			case 0:
				c.op("Update")
				res = safely(func() { uerr = h.Update(e, cnt) })
			case 1:
				c.op("UpdateString")
				res = safely(func() { uerr = h.UpdateString(string(e), cnt) })
			default:
				c.op("UpdateOnce")
				cnt = 1
				res = safely(func() { h.UpdateOnce(e) })
			}
			if res.panicked || uerr != nil {
				c.fail([]string{"C03", "C08"}, "cms-update-fails", fmt.Sprintf("%s: update failed: %v %v", cfg, res.panicVal, uerr), cfg)
				return
			}
			post, _ := parseCMS(h.Export())
			c.emit("cms.update %s %s %d %s", matrixStr(pre.M), natList(pos[j]), cnt, matrixStr(post.M))
			truth[j] += cnt
			total += cnt
			distinct[j] = true
			hist = append(hist, fmt.Sprintf("U%d+%d", j, cnt))
		} else {
			c.op("Count")
			var v, v2 uint64
			var e1, e2 error
			res := safely(func() { v, e1 = h.Count(e); v2, e2 = h.CountString(string(e)) })
			if res.panicked || e1 != nil || e2 != nil {
				c.fail([]string{"C03", "C08"}, "cms-count-fails", fmt.Sprintf("%s: count failed: %v %v %v", cfg, res.panicVal, e1, e2), cfg)
				return
			}
			if v != v2 {
				c.fail([]string{"C03"}, "cms-string-bytes", fmt.Sprintf("%s: Count=%d CountString=%d", cfg, v, v2), cfg)
			}
			c.emit("cms.count %s %s %d", matrixStr(pre.M), natList(pos[j]), v)
			hist = append(hist, fmt.Sprintf("C%d", j))
		}
		// oracle after every step, for every pool element
		for jj, ee := range pool {
			v, err := h.Count(ee)
			if err != nil {
				c.fail([]string{"C03", "C08"}, "cms-count-fails", fmt.Sprintf("%s: count failed: %v", cfg, err), cfg)
				return
			}
			replay := map[string]interface{}{"config": cfg, "pool": poolHex(pool), "history": hist, "element": jj}
			if v < truth[jj] {
				c.fail([]string{"C03", "C04"}, "cms-undercount", fmt.Sprintf("%s: estimate %d below true count %d", cfg, v, truth[jj]), replay)
				return
			}
			if v > total {
				c.fail([]string{"C03", "C04"}, "cms-above-total", fmt.Sprintf("%s: estimate %d above stream total %d", cfg, v, total), replay)
				return
			}
			if len(distinct) == 1 && distinct[jj] && v != truth[jj] {
				c.fail([]string{"C03"}, "cms-single-inexact", fmt.Sprintf("%s: only element updated, estimate %d != %d", cfg, v, truth[jj]), replay)
				return
			}
			if v > truth[jj] {
				c.branch("overestimate")
			} else {
				c.branch("exact")
			}
		}
	}
	// collisions?
	coll := false
	for a := range pool {
		for b := a + 1; b < len(pool); b++ {
			for r := range pos[a] {
				if pos[a][r] == pos[b][r] && distinct[a] && distinct[b] {
					coll = true
				}
			}
		}
	}
	if coll && len(hist) >= 3 {
		c.nontrivial(cfg + fmt.Sprint(hist))
		c.branch("case-with-collision")
	}
	c.sample(map[string]interface{}{"config": cfg, "history": hist})
}

// cmsFeed applies a list of (element index, count) updates
func cmsFeed(h cmsHandle, pool [][]byte, ups [][2]uint64) error {
	for _, u := range ups {
		if err := h.Update(pool[u[0]], u[1]); err != nil {
			return err
		}
	}
	return nil
}

func cmsMergeCase(c *Ctx, rows, cols uint, redis bool) {
	cfg := fmt.Sprintf("cms-merge(rows=%d,cols=%d,redis=%v)", rows, cols, redis)
	c.rep.Cases++
	pool := elemPool(c.rng, 4+c.rng.Intn(8), false)
	counts := cmsCounts
	if !redis {
		// the in-memory counters are exact uint64s (the Redis ones are Lua doubles: exact below
		// 2^53 only, a modelling assumption): magnitudes where a float64 detour loses bits
		counts = append(append([]uint64(nil), cmsCounts...), 1<<53+1, 1<<53+1, 1<<57+3)
	}
	mk := func(n int) [][2]uint64 {
		var ups [][2]uint64
		for i := 0; i < n; i++ {
			ups = append(ups, [2]uint64{uint64(c.rng.Intn(len(pool))), counts[c.rng.Intn(len(counts))]})
		}
		return ups
	}
	ha, hb, hc := mk(c.rng.Intn(8)), mk(c.rng.Intn(8)), mk(c.rng.Intn(5))
	A, e1 := newCMS(rows, cols, redis)
	B, e2 := newCMS(rows, cols, redis)
	U, e3 := newCMS(rows, cols, redis) // receives a ++ b (++ c)
	B2, e4 := newCMS(rows, cols, redis)
	A2, e5 := newCMS(rows, cols, redis)
	if e1 != nil || e2 != nil || e3 != nil || e4 != nil || e5 != nil {
		c.fail([]string{"C12"}, "cms-constructor", "constructor failed", cfg)
		return
	}
	replay := map[string]interface{}{"config": cfg, "pool": poolHex(pool), "a": ha, "b": hb, "c": hc}
	for _, x := range []struct {
		h  cmsHandle
		up [][2]uint64
	}{{A, ha}, {B, hb}, {U, ha}, {U, hb}, {B2, hb}, {A2, ha}} {
		if err := cmsFeed(x.h, pool, x.up); err != nil {
			c.fail([]string{"C12", "C08"}, "cms-update-fails", err.Error(), replay)
			return
		}
	}
	da, _ := parseCMS(A.Export())
	db, _ := parseCMS(B.Export())
	c.op("Merge")
	var merr error
	res := safely(func() { merr = A.Merge(B) })
	if res.panicked || merr != nil {
		c.fail([]string{"C12", "C08"}, "cms-merge-fails", fmt.Sprintf("%s: merge of equal dimensions failed: %v %v", cfg, res.panicVal, merr), replay)
		return
	}
	dm, _ := parseCMS(A.Export())
	db2, _ := parseCMS(B.Export())
	c.emit("cms.merge %d %d %s %d %d %s %s", da.R, da.C, matrixStr(da.M), db.R, db.C, matrixStr(db.M), matrixStr(dm.M))
	if matrixStr(db.M) != matrixStr(db2.M) {
		c.fail([]string{"C12"}, "cms-merge-mutates-arg", cfg+": Merge changed its argument", replay)
	}
	for jj, e := range pool {
		v1, _ := A.Count(e)
		v2, _ := U.Count(e)
		if v1 != v2 {
			c.fail([]string{"C12", "C08"}, "cms-merge-not-union", fmt.Sprintf("%s: merged sketch counts element %d as %d, single sketch %d", cfg, jj, v1, v2), replay)
			return
		}
	}
	// other merge order: B2.Merge(A2) must give the same counts
	if err := B2.Merge(A2); err != nil {
		c.fail([]string{"C12"}, "cms-merge-fails", err.Error(), replay)
		return
	}
	for jj, e := range pool {
		v1, _ := B2.Count(e)
		v2, _ := U.Count(e)
		if v1 != v2 {
			c.fail([]string{"C12"}, "cms-merge-order", fmt.Sprintf("%s: merge order changes count of element %d: %d vs %d", cfg, jj, v1, v2), replay)
			return
		}
	}
	// updates after the merge behave as on the single sketch
	if err := cmsFeed(A, pool, hc); err != nil {
		c.fail([]string{"C12"}, "cms-update-fails", err.Error(), replay)
		return
	}
	cmsFeed(U, pool, hc)
	for jj, e := range pool {
		v1, _ := A.Count(e)
		v2, _ := U.Count(e)
		if v1 != v2 {
			c.fail([]string{"C12"}, "cms-merge-then-update", fmt.Sprintf("%s: after merge+updates element %d: %d vs %d", cfg, jj, v1, v2), replay)
			return
		}
	}
	if ok, err := A.Equals(U); err != nil || !ok {
		// the Redis Equals reports unequal as (false, err); equal sketches must be (true, nil)
		c.fail([]string{"C12", "C17"}, "cms-merged-not-equal", fmt.Sprintf("%s: merged sketch not Equal to the single sketch (%v, %v)", cfg, ok, err), replay)
	}
	// merge chain: an intermediate sketch that only ever received merges is merged onwards
	E, _ := newCMS(rows, cols, redis)
	T, _ := newCMS(rows, cols, redis)
	S, _ := newCMS(rows, cols, redis) // single sketch receiving a ++ (b again through the chain)
	if E != nil && T != nil && S != nil {
		cmsFeed(T, pool, hb)
		cmsFeed(S, pool, hb)
		cmsFeed(S, pool, ha)
		if E.Merge(A2) == nil && T.Merge(E) == nil {
			for jj, e := range pool {
				// the intermediate itself (filled only by a merge) must answer like its source
				ve, _ := E.Count(e)
				va, _ := A2.Count(e)
				if ve != va {
					c.fail([]string{"C12", "C03", "C08"}, "cms-merge-chain", fmt.Sprintf("%s: a sketch filled only by Merge counts element %d as %d, its source %d", cfg, jj, ve, va), replay)
					return
				}
			}
			for jj, e := range pool {
				v1, _ := T.Count(e)
				v2, _ := S.Count(e)
				if v1 != v2 {
					c.fail([]string{"C12", "C08"}, "cms-merge-chain", fmt.Sprintf("%s: merging through an intermediate sketch loses counts: element %d counts %d, single sketch %d", cfg, jj, v1, v2), replay)
					return
				}
			}
			c.branch("merge-chain")
		}
	}
	// a sketch restored from a document and never updated itself is as good a Merge argument as
	// the sketch that was exported (B still holds exactly b)
	if docB, err := B.Export(); err == nil {
		bi, ierr := eqCMS(redis).imp(c, docB)
		R, _ := newCMS(rows, cols, redis)
		S2, _ := newCMS(rows, cols, redis)
		if ierr == nil && bi != nil && R != nil && S2 != nil {
			cmsFeed(R, pool, ha)
			cmsFeed(S2, pool, ha)
			cmsFeed(S2, pool, hb)
			var merr error
			res := safely(func() { merr = R.Merge(bi.(cmsHandle)) })
			if res.panicked || merr != nil {
				c.fail([]string{"C12", "C10"}, "cms-merge-restored-source", fmt.Sprintf("%s: Merge of a sketch restored by Import failed: %v %v", cfg, res.panicVal, merr), replay)
				return
			}
			for jj, e := range pool {
				v1, _ := R.Count(e)
				v2, _ := S2.Count(e)
				if v1 != v2 {
					c.fail([]string{"C12", "C10"}, "cms-merge-restored-source", fmt.Sprintf("%s: after merging a sketch restored by Import (and never updated itself) element %d counts %d, the single sketch %d", cfg, jj, v1, v2), replay)
					return
				}
			}
			c.branch("merge-restored-source")
		}
	}
	if len(ha) > 0 && len(hb) > 0 {
		c.nontrivial(cfg + fmt.Sprint(ha, hb, hc))
	}
	// no sharing: two EMPTY receivers merge the same source; afterwards each of the three is
	// updated on its own and none of the others may move
	{
		src, e1 := newCMS(rows, cols, redis)
		r1, e2 := newCMS(rows, cols, redis)
		r2, e3 := newCMS(rows, cols, redis)
		if e1 == nil && e2 == nil && e3 == nil {
			cmsFeed(src, pool, ha)
			cmsFeed(src, pool, []([2]uint64){{0, 3}})
			r1.Merge(src)
			r2.Merge(src)
			d0, _ := parseCMS(src.Export())
			cmsFeed(r1, pool, hb)
			cmsFeed(r1, pool, []([2]uint64){{uint64(len(pool) - 1), 5}})
			d2, _ := parseCMS(r2.Export())
			ds, _ := parseCMS(src.Export())
			if matrixStr(d2.M) != matrixStr(d0.M) || matrixStr(ds.M) != matrixStr(d0.M) {
				c.fail([]string{"C12", "C03", "C08"}, "cms-merge-shares-storage", fmt.Sprintf("%s: updating one sketch that merged a source changed the source or another sketch that merged the same source", cfg), replay)
				return
			}
			cmsFeed(src, pool, []([2]uint64){{0, 7}})
			d2b, _ := parseCMS(r2.Export())
			if matrixStr(d2b.M) != matrixStr(d0.M) {
				c.fail([]string{"C12", "C03", "C08"}, "cms-merge-shares-storage", fmt.Sprintf("%s: updating the source after a merge changed the sketch that had merged it", cfg), replay)
				return
			}
			c.branch("merge-no-sharing")
		}
	}
	c.branch("merge-ok")
}

func cmsMismatch(c *Ctx) {
	for _, redis := range []bool{false, true} {
		for _, dims := range [][4]uint{{2, 3, 2, 4}, {2, 3, 3, 3}, {2, 3, 4, 5}, {1, 1, 1, 2}, {3, 2, 2, 3}} {
			A, e1 := newCMS(dims[0], dims[1], redis)
			B, e2 := newCMS(dims[2], dims[3], redis)
			if e1 != nil || e2 != nil {
				continue
			}
			c.rep.Cases++
			if c.rng.Intn(2) == 0 { // receiver empty or not: a rejected merge never depends on the contents
				A.Update([]byte("x"), 3)
			}
			if c.rng.Intn(3) != 0 {
				B.Update([]byte("y"), 5)
			}
			da, _ := parseCMS(A.Export())
			db, _ := parseCMS(B.Export())
			var merr error
			res := safely(func() { merr = A.Merge(B) })
			cfg := fmt.Sprintf("cms-mismatch(%v,redis=%v)", dims, redis)
			if res.panicked {
				c.fail([]string{"C12"}, "cms-mismatch-panic", cfg+": "+res.panicVal, cfg)
				continue
			}
			if merr == nil {
				c.fail([]string{"C12"}, "cms-mismatch-accepted", cfg+": merge of different dimensions accepted", cfg)
			}
			da2, _ := parseCMS(A.Export())
			db2, _ := parseCMS(B.Export())
			if matrixStr(da.M) != matrixStr(da2.M) || matrixStr(db.M) != matrixStr(db2.M) {
				c.fail([]string{"C12"}, "cms-mismatch-mutates", cfg+": rejected merge changed a sketch", cfg)
			}
			c.emit("cms.merge %d %d %s %d %d %s err", da.R, da.C, matrixStr(da.M), db.R, db.C, matrixStr(db.M))
			c.branch("merge-mismatch")
		}
	}
}

// finding D24: the Redis init script `unpack`s one table per row; gopher-lua rejects >= ~8000 values
func cmsWideRedisProbe(c *Ctx) {
	s, err := gostatix.NewCountMinSketchRedisFromEstimates(0.0001, 0.9)
	if err != nil || s == nil {
		c.note(fmt.Sprintf("wide redis sketch: constructor error %v", err))
		return
	}
	c.rep.Cases++
	uerr := s.Update([]byte("x"), 1)
	v, cerr := s.Count([]byte("x"))
	if uerr != nil || cerr != nil || v != 1 {
		c.fail([]string{"C03", "C08"}, "cms-redis-wide-unpack",
			fmt.Sprintf("NewCountMinSketchRedisFromEstimates(0.0001,0.9) (%d columns): Update err=%v, Count=%d err=%v", s.GetColumns(), uerr, v, cerr),
			map[string]interface{}{"constructor": "NewCountMinSketchRedisFromEstimates(0.0001, 0.9)", "op": "Update(\"x\",1); Count(\"x\")"})
	} else {
		c.note("wide redis sketch works (finding D24 no longer reproduces)")
	}
}

// cmsGrowingStringKeys: string keys of growing length (70, 100, 130, 250, 500, 66, 1000 bytes) through
// UpdateString, read back through Count on the bytes and CountString: a key is its bytes, all of
// them, whatever an implementation stages it in.
func cmsGrowingStringKeys(c *Ctx) {
	for _, redis := range []bool{false, true} {
		h, err := newCMS(3, 64, redis)
		if err != nil || h == nil {
			continue
		}
		c.rep.Cases++
		var keys []string
		for i, n := range []int{70, 100, 130, 250, 500, 66, 1000} {
			keys = append(keys, strings.Repeat(string(rune('a'+i)), n)+fmt.Sprintf("-%d", c.seed))
		}
		for i, k := range keys {
			if err := h.UpdateString(k, uint64(3+i)); err != nil {
				return
			}
		}
		for i, k := range keys {
			v1, _ := h.Count([]byte(k))
			v2, _ := h.CountString(k)
			if v1 < uint64(3+i) || v2 != v1 {
				c.fail([]string{"C03", "C08"}, "cms-undercount", fmt.Sprintf("cms(rows=3,cols=64,redis=%v): a %d-byte string key updated with %d through UpdateString counts %d through Count and %d through CountString", redis, len(k), 3+i, v1, v2), map[string]interface{}{"key_bytes": len(k), "redis": redis})
				return
			}
		}
		c.branch("growing-string-keys")
	}
}

// cmsWideMerge: sketches wider than 4096 columns (but below the unpack limit of finding D24)
func cmsWideMerge(c *Ctx) {
	for _, redis := range []bool{false, true} {
		cols := uint(4500 + c.rng.Intn(500))
		A, e1 := newCMS(2, cols, redis)
		B, e2 := newCMS(2, cols, redis)
		U, e3 := newCMS(2, cols, redis)
		if e1 != nil || e2 != nil || e3 != nil {
			continue
		}
		c.rep.Cases++
		cfg := fmt.Sprintf("cms-wide-merge(rows=2,cols=%d,redis=%v)", cols, redis)
		var keys [][]byte
		for i := 0; i < 60; i++ {
			keys = append(keys, []byte(fmt.Sprintf("wide-%d-%d", c.seed, i)))
		}
		for i, k := range keys {
			if i%2 == 0 {
				A.Update(k, uint64(1+i))
			} else {
				B.Update(k, uint64(1+i))
			}
			U.Update(k, uint64(1+i))
		}
		if err := A.Merge(B); err != nil {
			c.fail([]string{"C12", "C08"}, "cms-merge-fails", cfg+": "+err.Error(), cfg)
			continue
		}
		for i, k := range keys {
			v1, _ := A.Count(k)
			v2, _ := U.Count(k)
			if v1 != v2 {
				c.fail([]string{"C12", "C08"}, "cms-merge-not-union", fmt.Sprintf("%s: merged sketch counts key %d as %d, single sketch %d", cfg, i, v1, v2), cfg)
				break
			}
		}
		c.branch("wide-merge")
	}
}
