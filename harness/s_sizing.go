package main

import (
	"strings"
	"fmt"
	"math"

	"github.com/dgryski/go-metro"
	"github.com/kwertop/gostatix"
)

// suite "sizing": C15.  (a) exact mode: dimensions chosen by every from-error-budget constructor
// and the probing schemes against the transcribed formulas; (b) statistical test (testing, not
// proof): observed false-positive / over-estimate frequencies against the design budget with a
// one-sided bound of 6 sigma and a slack factor of 1.5, so that an unchanged tree does not alarm.

func init() { register("sizing", suiteSizing) }

func suiteSizing(c *Ctx) {
	c.rep.Rule = "case = one (n,p) / (epsilon,delta) / (size,bucketSize,errorRate) configuration: constructor dimensions compared with the transcribed formulas, then the structure is loaded to its design load and probed with never-inserted keys (random and skewed key sets); non-trivial = configuration with n >= 1000 and at least 20000 probes; distinct by configuration"
	bloomHuge(c, []string{"C15"})
	// (a) dimension grid
	for _, n := range []uint{1, 10, 1000, 5000, 123457} {
		for _, p := range []float64{0.5, 0.3, 0.1, 0.01, 0.001, 0.0001} {
			f, err := gostatix.NewMemBloomFilterWithParameters(n, p)
			if err != nil {
				continue
			}
			c.rep.Cases++
			c.emit("size.bloom %d %d %d %d", n, math.Float64bits(p), f.GetCap(), f.GetNumHashes())
			c.op("dims.bloom")
			if n <= 5000 {
				// the Redis constructor computes its dimensions separately
				if g, err := gostatix.NewRedisBloomFilterWithParameters(n, p); err == nil && g != nil {
					c.emit("size.bloom %d %d %d %d", n, math.Float64bits(p), g.GetCap(), g.GetNumHashes())
					c.op("dims.bloom.redis")
					if g.GetCap() != f.GetCap() || g.GetNumHashes() != f.GetNumHashes() {
						c.fail([]string{"C15", "C08"}, "bloom-dims-differ-between-backends", fmt.Sprintf("(n=%d,p=%g): in-memory (%d,%d) vs Redis (%d,%d)", n, p, f.GetCap(), f.GetNumHashes(), g.GetCap(), g.GetNumHashes()), nil)
					}
				}
			}
		}
	}
	for _, e := range []float64{0.5, 0.05, 0.003} {
		for _, d := range []float64{0.5, 0.05} {
			if s, err := gostatix.NewCountMinSketchRedisFromEstimates(e, d); err == nil && s != nil {
				c.rep.Cases++
				c.emit("size.cms %d %d %d %d", math.Float64bits(e), math.Float64bits(d), s.GetRows(), s.GetColumns())
				c.op("dims.cms.redis")
			}
		}
	}
	for _, size := range []uint64{8, 100} {
		if f, err := gostatix.NewCuckooFilterRedisWithErrorRate(size, 2, 10, 0.01); err == nil && f != nil {
			c.rep.Cases++
			c.emit("size.cuckoo %d %d %d %d %d", size, 2, math.Float64bits(0.01), f.Size(), f.FingerPrintLength())
			c.op("dims.cuckoo.redis")
		}
	}
	for _, e := range []float64{0.9, 0.5, 0.1, 0.01, 0.001, 0.0003, 0.00005, 0.00001, 0.9999, 0.99999} {
		for _, d := range []float64{0.9, 0.5, 0.1, 0.01, 0.001, 0.00001, 1e-9, 0.99999} {
			s, err := gostatix.NewCountMinSketchFromEstimates(e, d)
			if err != nil {
				continue
			}
			c.rep.Cases++
			c.emit("size.cms %d %d %d %d", math.Float64bits(e), math.Float64bits(d), s.GetRows(), s.GetColumns())
			c.op("dims.cms")
		}
	}
	for _, size := range []uint64{8, 100, 1000, 100000} {
		for _, b := range []uint64{1, 2, 4, 8} {
			for _, e := range []float64{0.5, 0.1, 0.01, 0.0001} {
				if size*1 > 20000 && b < 4 {
					continue
				}
				f := gostatix.NewCuckooFilterWithErrorRate(size, b, 10, e)
				c.rep.Cases++
				c.emit("size.cuckoo %d %d %d %d %d", size, b, math.Float64bits(e), f.Size(), f.FingerPrintLength())
				c.op("dims.cuckoo")
			}
		}
	}
	// probing schemes in exact mode (also tied in suites bloom / cms)
	for i := 0; i < 40; i++ {
		e := randBytes(c.rng, 1+c.rng.Intn(40))
		h1, h2 := metro.Hash128(e, 1373)
		f, _ := gostatix.NewMemBloomFilterWithParameters(1000, 0.01)
		f.Insert(e)
		a, _ := bloomAbsMem(f)
		c.emit("bloom.probes %d %d %d %d %s", h1, h2, a.K, a.Size, natList(a.Bits))
	}
	// (b) statistics
	probes := c.scale(20000, 200000)
	for _, cfg := range [][2]float64{{1000, 0.1}, {1000, 0.01}, {2000, 0.3}, {5000, 0.001}, {1000, 0.0001}, {3000, 0.5}} {
		sizingBloom(c, uint(cfg[0]), cfg[1], probes)
	}
	// a filter loaded (Import) into a handle that has been used for another, fuller filter
	sizingBloomReload(c, false, probes/2)
	sizingBloomReload(c, true, probes/4)
	for _, cfg := range [][2]float64{{0.01, 0.05}, {0.05, 0.1}, {0.002, 0.01}, {0.1, 0.3}} {
		sizingCMS(c, cfg[0], cfg[1], false)
		sizingCMS(c, cfg[0], cfg[1], true)
	}
	// sparse sketches (few heavy keys: most cells are zero) probed with never-inserted keys
	for _, cfg := range [][2]float64{{0.01, 0.001}, {0.02, 0.01}} {
		sizingCMSSparse(c, cfg[0], cfg[1], false)
		sizingCMSSparse(c, cfg[0], cfg[1], true)
	}
	// bimodal streams (a fifth of the columns' worth of heavy keys, many light ones), both backends
	for _, cfg := range [][2]float64{{0.01, 0.01}, {0.05, 0.05}, {0.02, 0.1}} {
		sizingCMSBimodal(c, cfg[0], cfg[1], false)
		sizingCMSBimodal(c, cfg[0], cfg[1], true)
	}
	for _, cfg := range [][3]float64{{1000, 4, 0.01}, {1000, 4, 0.0001}, {2000, 2, 0.1}} {
		sizingCuckoo(c, uint64(cfg[0]), uint64(cfg[1]), cfg[2], probes)
	}
	for _, redis := range []bool{false, true} {
		sizingCuckooLongKeys(c, redis)
	}
}

func overBudget(hits, probes int, p float64) bool {
	lim := 1.5*p*float64(probes) + 6*math.Sqrt(1.5*p*float64(probes)) + 5
	return float64(hits) > lim
}

func sizingBloom(c *Ctx, n uint, p float64, probes int) {
	f, err := gostatix.NewMemBloomFilterWithParameters(n, p)
	if err != nil {
		return
	}
	c.rep.Cases++
	for i := uint(0); i < n; i++ {
		f.Insert([]byte(fmt.Sprintf("member-%d-%d", c.seed, i)))
	}
	hits := 0
	for i := 0; i < probes; i++ {
		var e []byte
		if i%2 == 0 {
			e = []byte(fmt.Sprintf("absent-%d-%d", c.seed, i))
		} else {
			e = randBytes(c.rng, 9+c.rng.Intn(12)) // random binary keys
		}
		if f.Lookup(e) {
			hits++
		}
	}
	c.op("stat.bloom")
	rate := float64(hits) / float64(probes)
	c.sample(map[string]interface{}{"bloom": fmt.Sprintf("n=%d p=%g", n, p), "size": f.GetCap(), "k": f.GetNumHashes(), "observed_fp_rate": rate})
	if overBudget(hits, probes, p) {
		c.fail([]string{"C15"}, "bloom-fp-rate-above-budget", fmt.Sprintf("BloomFilter(n=%d,p=%g): %d false positives in %d probes (rate %.5f)", n, p, hits, probes, rate),
			map[string]interface{}{"n": n, "p": p, "probes": probes, "hits": hits, "seed": c.seed})
	}
	if n >= 1000 && probes >= 20000 {
		c.nontrivial(fmt.Sprintf("bloom %d %g", n, p))
	}
}

func sizingCMS(c *Ctx, eps, delta float64, skewed bool) {
	if eps >= 0.05 {
		sizingCMSRedis(c, eps, delta, skewed)
	}
	s, err := gostatix.NewCountMinSketchFromEstimates(eps, delta)
	if err != nil {
		return
	}
	c.rep.Cases++
	keys := 3000
	truth := make([]uint64, keys)
	var total uint64
	for i := 0; i < keys; i++ {
		cnt := uint64(1 + c.rng.Intn(5))
		if skewed {
			cnt = uint64(1 + 3000/(i+1)) // zipf-like: a few very heavy keys
		}
		truth[i] = cnt
		total += cnt
		s.Update([]byte(fmt.Sprintf("key-%d-%d", c.seed, i)), cnt)
	}
	bad := 0
	for i := 0; i < keys; i++ {
		est := s.Count([]byte(fmt.Sprintf("key-%d-%d", c.seed, i)))
		if float64(est-truth[i]) > eps*float64(total) {
			bad++
		}
	}
	// never-inserted keys: true count 0, so every estimate above eps*N is an over-estimate
	badAbsent, absent := 0, 3000
	for i := 0; i < absent; i++ {
		if float64(s.Count([]byte(fmt.Sprintf("absent-%d-%d", c.seed, i)))) > eps*float64(total) {
			badAbsent++
		}
	}
	if overBudget(badAbsent, absent, delta) {
		c.fail([]string{"C15"}, "cms-overestimate-above-budget", fmt.Sprintf("CountMinSketch(eps=%g,delta=%g,skewed=%v): %d of %d never-inserted keys estimated above eps*N", eps, delta, skewed, badAbsent, absent),
			map[string]interface{}{"eps": eps, "delta": delta, "skewed": skewed, "seed": c.seed, "absent_keys": true})
	}
	c.op("stat.cms")
	c.sample(map[string]interface{}{"cms": fmt.Sprintf("eps=%g delta=%g skewed=%v", eps, delta, skewed), "rows": s.GetRows(), "cols": s.GetColumns(), "fraction_over_eps": float64(bad) / float64(keys)})
	if overBudget(bad, keys, delta) {
		c.fail([]string{"C15"}, "cms-overestimate-above-budget", fmt.Sprintf("CountMinSketch(eps=%g,delta=%g,skewed=%v): %d of %d keys over-estimated by more than eps*N", eps, delta, skewed, bad, keys),
			map[string]interface{}{"eps": eps, "delta": delta, "skewed": skewed, "seed": c.seed})
	}
	c.nontrivial(fmt.Sprintf("cms %g %g %v", eps, delta, skewed))
}

// sizingCuckooLongKeys: an adversarially skewed key set - long keys (URLs, paths, composite ids)
// that share their first few hundred bytes and differ only at the end.  At 5 % load hardly any
// never-inserted key may be reported present; a hash that looks at a prefix only reports them all.
// (Kept apart from the design-load measurement above, which reproduces finding D22 on the
// unchanged code: the threshold here is far above what D22 causes at this load.)
func sizingCuckooLongKeys(c *Ctx, redis bool) {
	var h cuckooHandle
	if redis {
		f, err := gostatix.NewCuckooFilterRedisWithErrorRate(256, 4, 50, 0.01)
		if err != nil || f == nil {
			return
		}
		h = cuckooRedis{f}
	} else {
		h = cuckooMem{gostatix.NewCuckooFilterWithErrorRate(256, 4, 50, 0.01)}
	}
	c.rep.Cases++
	for _, plen := range []int{70, 300, 1100, 5000} {
		prefix := strings.Repeat("/a/shared/prefix/of/a/long/key", plen/30+1)[:plen]
		members, probes := 40, 400
		if redis {
			probes = 120
		}
		for i := 0; i < members; i++ {
			safely(func() { h.Insert([]byte(fmt.Sprintf("%s/member-%d-%d", prefix, c.seed, i)), false) })
		}
		hits := 0
		for i := 0; i < probes; i++ {
			if ok, _ := h.Lookup([]byte(fmt.Sprintf("%s/absent-%d-%d", prefix, c.seed, i))); ok {
				hits++
			}
		}
		c.op("stat.cuckoo.long-keys")
		if hits*4 > probes {
			c.fail([]string{"C15", "C02"}, "cuckoo-long-keys-collide", fmt.Sprintf("CuckooFilterWithErrorRate(256,4,0.01,redis=%v): %d keys sharing a %d-byte prefix inserted (a few %% of the capacity); %d of %d never-inserted keys with the same prefix are reported present", redis, members*(1+indexOf(plen)), plen, hits, probes),
				map[string]interface{}{"prefix_bytes": plen, "redis": redis, "seed": c.seed})
			return
		}
	}
	c.branch("long-keys")
}

func indexOf(plen int) int {
	for i, v := range []int{70, 300, 1100, 5000} {
		if v == plen {
			return i
		}
	}
	return 0
}

func sizingCuckoo(c *Ctx, size, b uint64, errRate float64, probes int) {
	f := gostatix.NewCuckooFilterWithErrorRate(size, b, 500, errRate)
	c.rep.Cases++
	load := int(float64(f.Size()*b) * 0.9)
	inserted := 0
	for i := 0; inserted < load && i < 2*load; i++ {
		e := []byte(fmt.Sprintf("member-%d-%d", c.seed, i))
		ok := false
		safely(func() { ok = f.Insert(e, false) })
		if ok {
			inserted++
		}
	}
	hits := 0
	for i := 0; i < probes; i++ {
		if f.Lookup([]byte(fmt.Sprintf("absent-%d-%d", c.seed, i))) {
			hits++
		}
	}
	c.op("stat.cuckoo")
	rate := float64(hits) / float64(probes)
	c.sample(map[string]interface{}{"cuckoo": fmt.Sprintf("size=%d b=%d err=%g", size, b, errRate), "buckets": f.Size(), "fingerprint_digits": f.FingerPrintLength(), "load": inserted, "observed_fp_rate": rate})
	if overBudget(hits, probes, errRate) {
		c.fail([]string{"C15"}, "cuckoo-errorrate-not-met",
			fmt.Sprintf("CuckooFilterWithErrorRate(size=%d,b=%d,err=%g): fingerprint length %d decimal digits, %d false positives in %d probes (rate %.5f)", size, b, errRate, f.FingerPrintLength(), hits, probes, rate),
			map[string]interface{}{"size": size, "bucketSize": b, "errorRate": errRate, "seed": c.seed})
	}
	c.nontrivial(fmt.Sprintf("cuckoo %d %d %g", size, b, errRate))
}

// the same measurement through the Redis-backed sketch (small configurations only)
func sizingCMSRedis(c *Ctx, eps, delta float64, skewed bool) {
	s, err := gostatix.NewCountMinSketchRedisFromEstimates(eps, delta)
	if err != nil || s == nil {
		return
	}
	c.rep.Cases++
	keys := 400
	truth := make([]uint64, keys)
	var total uint64
	for i := 0; i < keys; i++ {
		cnt := uint64(1 + c.rng.Intn(5))
		if skewed {
			cnt = uint64(1 + 1000/(i+1))
		}
		truth[i] = cnt
		total += cnt
		s.Update([]byte(fmt.Sprintf("rkey-%d-%d", c.seed, i)), cnt)
	}
	bad := 0
	for i := 0; i < keys; i++ {
		est, _ := s.Count([]byte(fmt.Sprintf("rkey-%d-%d", c.seed, i)))
		if est < truth[i] || float64(est-truth[i]) > eps*float64(total) {
			bad++
		}
	}
	c.op("stat.cms.redis")
	if overBudget(bad, keys, delta) {
		c.fail([]string{"C15", "C03"}, "cms-overestimate-above-budget", fmt.Sprintf("CountMinSketchRedis(eps=%g,delta=%g,skewed=%v): %d of %d keys off by more than eps*N", eps, delta, skewed, bad, keys),
			map[string]interface{}{"eps": eps, "delta": delta, "skewed": skewed, "seed": c.seed, "backend": "redis"})
	}
}

// bimodal stream: heavy keys of weight 1000 (about a fifth of the number of columns) and 400
// light keys of a one-digit weight; every light key is queried.  A light key is over-estimated by
// more than eps*N only if it meets a heavy key in EVERY row.
func sizingCMSBimodal(c *Ctx, eps, delta float64, redis bool) {
	var s cmsHandle
	var cols uint
	if redis {
		h, err := gostatix.NewCountMinSketchRedisFromEstimates(eps, delta)
		if err != nil || h == nil {
			return
		}
		s = cmsRedis{h}
		cols = h.GetColumns()
	} else {
		h, err := gostatix.NewCountMinSketchFromEstimates(eps, delta)
		if err != nil || h == nil {
			return
		}
		s = cmsMem{h}
		cols = h.GetColumns()
	}
	c.rep.Cases++
	heavy := int(cols)/5 + 1
	light := 400
	lw := uint64(2 + c.rng.Intn(8))
	var total uint64
	for i := 0; i < heavy; i++ {
		s.Update([]byte(fmt.Sprintf("heavy-%d-%d", c.seed, i)), 1000)
		total += 1000
	}
	for i := 0; i < light; i++ {
		s.Update([]byte(fmt.Sprintf("light-%d-%d", c.seed, i)), lw)
		total += lw
	}
	bad, under := 0, 0
	for i := 0; i < light; i++ {
		est, _ := s.Count([]byte(fmt.Sprintf("light-%d-%d", c.seed, i)))
		if est < lw {
			under++
		} else if float64(est-lw) > eps*float64(total) {
			bad++
		}
	}
	c.op(fmt.Sprintf("stat.cms.bimodal.redis=%v", redis))
	c.sample(map[string]interface{}{"cms-bimodal": fmt.Sprintf("eps=%g delta=%g redis=%v heavy=%d light=%d", eps, delta, redis, heavy, light), "fraction_over_eps": float64(bad) / float64(light)})
	if under > 0 || overBudget(bad, light, delta) {
		c.fail([]string{"C15", "C03"}, "cms-overestimate-above-budget", fmt.Sprintf("CountMinSketch(eps=%g,delta=%g,redis=%v), %d heavy keys of weight 1000 and %d light keys of weight %d: %d light keys over-estimated by more than eps*N, %d under-estimated", eps, delta, redis, heavy, light, lw, bad, under),
			map[string]interface{}{"eps": eps, "delta": delta, "redis": redis, "heavy": heavy, "light": light, "light_weight": lw, "seed": c.seed})
	}
	c.nontrivial(fmt.Sprintf("cms-bimodal %g %g %v", eps, delta, redis))
}

// the error budget belongs to the filter, not to the handle: a filter built for (n, p), filled to
// n, exported and imported into a handle that previously held (and was queried for) another,
// fuller filter still meets p.
func sizingBloomReload(c *Ctx, redis bool, probes int) {
	n, p := uint(400), 0.01
	f, err := bloomCfg{kind: "params", numItems: n, errorRate: p, redis: redis}.build()
	g, err2 := bloomCfg{kind: "params", numItems: 300, errorRate: 0.2, redis: redis}.build()
	if err != nil || err2 != nil || f == nil || g == nil {
		return
	}
	c.rep.Cases++
	for i := uint(0); i < n; i++ {
		f.Insert([]byte(fmt.Sprintf("member-%d-%d", c.seed, i)))
	}
	for i := 0; i < 900; i++ { // the previous tenant: over-full, and queried
		g.Insert([]byte(fmt.Sprintf("old-tenant-%d-%d", c.seed, i)))
		g.Lookup([]byte(fmt.Sprintf("old-tenant-%d-%d", c.seed, i)))
		g.Lookup([]byte(fmt.Sprintf("old-probe-%d-%d", c.seed, i)))
	}
	doc, err := f.Export()
	if err != nil || g.Import(doc) != nil {
		return
	}
	hits := 0
	for i := 0; i < probes; i++ {
		if g.Lookup([]byte(fmt.Sprintf("absent-%d-%d", c.seed, i))) {
			hits++
		}
	}
	c.op(fmt.Sprintf("stat.bloom.reload.redis=%v", redis))
	rate := float64(hits) / float64(probes)
	c.sample(map[string]interface{}{"bloom-reload": fmt.Sprintf("n=%d p=%g redis=%v", n, p, redis), "observed_fp_rate": rate})
	if overBudget(hits, probes, p) {
		c.fail([]string{"C15", "C10"}, "bloom-fp-rate-above-budget-after-import", fmt.Sprintf("BloomFilter(n=%d,p=%g,redis=%v) imported into a used handle: %d false positives in %d probes (rate %.5f)", n, p, redis, hits, probes, rate),
			map[string]interface{}{"n": n, "p": p, "redis": redis, "probes": probes, "hits": hits, "seed": c.seed})
	}
	c.nontrivial(fmt.Sprintf("bloom-reload %v", redis))
}

// sparse sketch: 30 heavy keys, so that most cells are zero, and 8000 (Redis: 600) never-inserted
// keys; an absent key is over-estimated by more than eps*N only if it meets a heavy key in EVERY row
func sizingCMSSparse(c *Ctx, eps, delta float64, redis bool) {
	var s cmsHandle
	if redis {
		h, err := gostatix.NewCountMinSketchRedisFromEstimates(eps, delta)
		if err != nil || h == nil {
			return
		}
		s = cmsRedis{h}
	} else {
		h, err := gostatix.NewCountMinSketchFromEstimates(eps, delta)
		if err != nil || h == nil {
			return
		}
		s = cmsMem{h}
	}
	c.rep.Cases++
	var total uint64
	for i := 0; i < 30; i++ {
		w := uint64(50 + c.rng.Intn(50))
		s.Update([]byte(fmt.Sprintf("sparse-heavy-%d-%d", c.seed, i)), w)
		total += w
	}
	probes := 8000
	if redis {
		probes = 600
	}
	bad := 0
	for i := 0; i < probes; i++ {
		est, _ := s.Count([]byte(fmt.Sprintf("sparse-absent-%d-%d", c.seed, i)))
		if float64(est) > eps*float64(total) {
			bad++
		}
	}
	c.op(fmt.Sprintf("stat.cms.sparse.redis=%v", redis))
	if overBudget(bad, probes, delta) {
		c.fail([]string{"C15", "C03"}, "cms-overestimate-above-budget", fmt.Sprintf("CountMinSketch(eps=%g,delta=%g,redis=%v), 30 heavy keys: %d of %d never-inserted keys estimated above eps*N", eps, delta, redis, bad, probes),
			map[string]interface{}{"eps": eps, "delta": delta, "redis": redis, "sparse": true, "seed": c.seed})
	}
	c.nontrivial(fmt.Sprintf("cms-sparse %g %g %v", eps, delta, redis))
}
