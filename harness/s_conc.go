package main

import (
	"time"
	"encoding/json"
	"bytes"
	"fmt"
	"io"
	"math/rand"
	"runtime"
	"sync"
	"sync/atomic"

	"github.com/kwertop/gostatix"
)

// suite "conc": C07.  2..16 goroutines call update / query / length / merge / export / serialize
// operations of ONE shared in-memory structure.  Run from a binary built with -race (the race
// detector's report is picked up by bin/check); the suite itself checks linearizability
// consequences: no update lost or doubled, own writes visible, order-independent final state.

func init() { register("conc", suiteConc) }

func suiteConc(c *Ctx) {
	c.rep.Rule = "case = (structure, #goroutines 2..16, GOMAXPROCS, per-goroutine random call sequence over update/query/length/merge/export/serialize) on one shared in-memory instance; final state compared with the sequential application of the same calls; non-trivial = >= 2 goroutines with >= 2 updates each; distinct by (structure, seeds)"
	rounds := c.scale(6, 60)
	old := runtime.GOMAXPROCS(0)
	defer runtime.GOMAXPROCS(old)
	for r := 0; r < rounds; r++ {
		runtime.GOMAXPROCS([]int{2, 4, 16}[r%3])
		g := []int{2, 3, 4, 8, 16}[c.rng.Intn(5)]
		concBloom(c, g)
		concCMS(c, g)
		concHLL(c, g)
		concHLLSmall(c, g)
		concCuckoo(c, g)
		concCuckooRemoveStorm(c, g)
		concSnapshotVsUpdate(c)
		if r%2 == 0 {
			concCuckooRemoveStormWide(c)
		}
		concTopK(c, g)
		for rep := 0; rep < 4; rep++ {
			concTopKHot(c, []int{2, 4, 8, 16}[rep])
		}
		concTopKHuge(c)
		concSnapshotReport(c)
	}
}

// runWorkers runs g goroutines; each gets its own PRNG derived from the case seed
func runWorkers(c *Ctx, g int, body func(w int, rng *rand.Rand)) {
	var wg sync.WaitGroup
	seeds := make([]int64, g)
	for i := range seeds {
		seeds[i] = c.rng.Int63()
	}
	start := make(chan struct{})
	for w := 0; w < g; w++ {
		wg.Add(1)
		go func(w int) {
			defer wg.Done()
			rng := rand.New(rand.NewSource(seeds[w]))
			<-start
			body(w, rng)
		}(w)
	}
	close(start)
	wg.Wait()
}

func concBloom(c *Ctx, g int) {
	f, _ := gostatix.NewMemBloomFilterWithParameters(200, 0.01)
	seq, _ := gostatix.NewMemBloomFilterWithParameters(200, 0.01)
	if c.rng.Intn(3) == 0 {
		// the shared filter is one that was restored: ReadFrom into a zero value, or Import into a
		// constructed one - it must be as safe for concurrent use as a constructed filter
		var buf bytes.Buffer
		f.WriteTo(&buf)
		if c.rng.Intn(2) == 0 {
			g2 := &gostatix.BloomFilter{}
			if _, err := g2.ReadFrom(&buf); err == nil {
				f = g2
				c.branch("bloom-restored-by-ReadFrom")
			}
		} else if doc, err := f.Export(); err == nil {
			g2, _ := gostatix.NewMemBloomFilterWithParameters(10, 0.1)
			if g2.Import(doc) == nil {
				f = g2
				c.branch("bloom-restored-by-Import")
			}
		}
	}
	if c.rng.Intn(2) == 0 {
		// the other in-memory constructor
		f = gostatix.NewMemBloomFilterFromBitSet(make([]uint64, 30), 7)
		seq = gostatix.NewMemBloomFilterFromBitSet(make([]uint64, 30), 7)
	}
	c.rep.Cases++
	var mu sync.Mutex
	var all [][]byte
	var bad []string
	runWorkers(c, g, func(w int, rng *rand.Rand) {
		var mine [][]byte
		for i := 0; i < 30; i++ {
			e := []byte(fmt.Sprintf("w%d-%d", w, rng.Intn(50)))
			switch rng.Intn(6) {
			case 0, 1, 2:
				f.Insert(e)
				mine = append(mine, e)
				if !f.Lookup(e) {
					mu.Lock()
					bad = append(bad, fmt.Sprintf("worker %d does not see its own completed Insert(%s)", w, e))
					mu.Unlock()
				}
			case 3:
				f.Lookup(e)
			case 4:
				concSnapshot("BloomFilter", f.Export)
				f.BloomPositiveRate()
			default:
				f.WriteTo(io.Discard)
			}
			if rng.Intn(4) == 0 {
				runtime.Gosched()
			}
		}
		mu.Lock()
		all = append(all, mine...)
		mu.Unlock()
	})
	c.rep.Ops["bloom.calls"] += 30 * g
	for _, e := range all {
		seq.Insert(e)
	}
	a, _ := bloomAbsMem(f)
	b, _ := bloomAbsMem(seq)
	replay := map[string]interface{}{"structure": "BloomFilter", "goroutines": g}
	for _, m := range bad {
		c.fail([]string{"C07", "C01"}, "conc-own-write-invisible", "BloomFilter: "+m, replay)
	}
	if !eqU64(a.Bits, b.Bits) {
		c.fail([]string{"C07", "C01"}, "conc-final-state", fmt.Sprintf("BloomFilter: final bits after %d concurrent goroutines differ from the sequential application of the same inserts", g), replay)
	}
	c.nontrivial(fmt.Sprint("bloom", g, len(all)))
}

func concCMS(c *Ctx, g int) {
	s, _ := gostatix.NewCountMinSketch(3, 7)
	seq, _ := gostatix.NewCountMinSketch(3, 7)
	c.rep.Cases++
	type upd struct {
		e []byte
		n uint64
	}
	var mu sync.Mutex
	var all []upd
	var bad []string
	var hotDone [2]uint64
	runWorkers(c, g, func(w int, rng *rand.Rand) {
		var mine []upd
		own := map[string]uint64{}
		for i := 0; i < 30; i++ {
			e := []byte(fmt.Sprintf("w%d-%d", w, rng.Intn(10)))
			if rng.Intn(3) == 0 {
				e = []byte(fmt.Sprintf("hot-%d", rng.Intn(2))) // contended by all goroutines
			}
			switch rng.Intn(7) {
			case 0, 1, 2:
				n := uint64(1 + rng.Intn(3))
				s.Update(e, n)
				if hot := string(e); hot == "hot-0" || hot == "hot-1" {
					// every update that has RETURNED (any goroutine) is visible to a later Count
					idx := int(hot[4] - '0')
					atomic.AddUint64(&hotDone[idx], n)
					done := atomic.LoadUint64(&hotDone[idx])
					if v := s.Count(e); v < done {
						mu.Lock()
						bad = append(bad, fmt.Sprintf("updates of %s adding up to %d had returned when worker %d called Count, which answers %d", hot, done, w, v))
						mu.Unlock()
					}
				}
				mine = append(mine, upd{e, n})
				own[string(e)] += n
				if v := s.Count(e); v < own[string(e)] {
					mu.Lock()
					bad = append(bad, fmt.Sprintf("worker %d: Count(%s)=%d below its own completed updates %d", w, e, v, own[string(e)]))
					mu.Unlock()
				}
			case 3:
				s.Count(e)
			case 4:
				// merge a private sketch: counts as one more batch of updates
				p, _ := gostatix.NewCountMinSketch(3, 7)
				p.Update(e, 2)
				if s.Merge(p) == nil {
					mine = append(mine, upd{e, 2})
					own[string(e)] += 2
				}
			case 5:
				concSnapshot("CountMinSketch", s.Export)
				// the shared sketch as the SOURCE of a merge into a private one: the private copy
				// must be a consistent snapshot (every row saw the same updates)
				p, _ := gostatix.NewCountMinSketch(3, 7)
				if p.Merge(s) == nil {
					d, _ := parseCMS(p.Export())
					var sums [3]uint64
					for r := range d.M {
						for _, v := range d.M[r] {
							sums[r] += v
						}
					}
					if sums[0] != sums[1] || sums[1] != sums[2] {
						mu.Lock()
						bad = append(bad, fmt.Sprintf("worker %d: a merge FROM the shared sketch copied a torn snapshot (row sums %v)", w, sums))
						mu.Unlock()
					}
				}
			default:
				s.WriteTo(io.Discard)
			}
			if rng.Intn(4) == 0 {
				runtime.Gosched()
			}
		}
		mu.Lock()
		all = append(all, mine...)
		mu.Unlock()
	})
	c.rep.Ops["cms.calls"] += 30 * g
	for _, u := range all {
		seq.Update(u.e, u.n)
	}
	a, _ := parseCMS(s.Export())
	b, _ := parseCMS(seq.Export())
	replay := map[string]interface{}{"structure": "CountMinSketch", "goroutines": g}
	for _, m := range bad {
		c.fail([]string{"C07", "C03", "C12"}, "conc-own-write-invisible", "CountMinSketch: "+m, replay)
	}
	if matrixStr(a.M) != matrixStr(b.M) {
		c.fail([]string{"C07", "C03", "C12"}, "conc-final-state", fmt.Sprintf("CountMinSketch: final matrix after %d concurrent goroutines differs from the sequential application (an update was lost or doubled)", g), replay)
	}
	c.nontrivial(fmt.Sprint("cms", g, len(all)))
}

func concHLL(c *Ctx, g int) {
	h, _ := gostatix.NewHyperLogLog(256)
	seq, _ := gostatix.NewHyperLogLog(256)
	c.rep.Cases++
	var mu sync.Mutex
	var all [][]byte
	runWorkers(c, g, func(w int, rng *rand.Rand) {
		var mine [][]byte
		for i := 0; i < 30; i++ {
			e := []byte(fmt.Sprintf("w%d-%d", w, rng.Intn(40)))
			switch rng.Intn(7) {
			case 0, 1, 2:
				h.Update(e)
				mine = append(mine, e)
			case 3:
				h.Count(true, true)
			case 4:
				p, _ := gostatix.NewHyperLogLog(256)
				p.Update(e)
				if h.Merge(p) == nil {
					mine = append(mine, e)
				}
			case 5:
				concSnapshot("HyperLogLog", h.Export)
				p, _ := gostatix.NewHyperLogLog(256)
				p.Merge(h) // shared sketch as merge source
			default:
				h.WriteTo(io.Discard)
			}
			if rng.Intn(4) == 0 {
				runtime.Gosched()
			}
		}
		mu.Lock()
		all = append(all, mine...)
		mu.Unlock()
	})
	c.rep.Ops["hll.calls"] += 30 * g
	for _, e := range all {
		seq.Update(e)
	}
	a, _ := parseHLL(h.Export())
	b, _ := parseHLL(seq.Export())
	if !eqU64(a.regs(), b.regs()) {
		c.fail([]string{"C07", "C06"}, "conc-final-state", fmt.Sprintf("HyperLogLog: final registers after %d concurrent goroutines differ from the sequential application", g), map[string]interface{}{"structure": "HyperLogLog", "goroutines": g})
	}
	c.nontrivial(fmt.Sprint("hll", g, len(all)))
}

func concCuckoo(c *Ctx, g int) {
	f := gostatix.NewCuckooFilterWithRetries(64, 4, 6, 50) // power-of-two bucket count, ample room
	c.rep.Cases++
	var mu sync.Mutex
	okIns, okRem := 0, 0
	var liveAll [][]byte
	var bad []string
	net := map[string]int{} // successful inserts minus successful removes, per element, all goroutines
	runWorkers(c, g, func(w int, rng *rand.Rand) {
		live := map[string]int{}
		ins, rem := 0, 0
		for i := 0; i < 12; i++ {
			e := []byte(fmt.Sprintf("worker-%d-element-%d", w, rng.Intn(6)))
			sharedE := rng.Intn(3) == 0
			if sharedE {
				e = []byte(fmt.Sprintf("shared-element-%d", rng.Intn(2))) // contended by all goroutines
			}
			switch rng.Intn(6) {
			case 0, 1, 2:
				ok := false
				safely(func() { ok = f.Insert(e, false) })
				if ok {
					ins++
					live[string(e)]++
					if !sharedE && !f.Lookup(e) {
						mu.Lock()
						bad = append(bad, fmt.Sprintf("worker %d does not find %s right after its successful Insert", w, e))
						mu.Unlock()
					}
				}
			case 3:
				// shared elements are removed whether or not this goroutine inserted them: several
				// removers may compete for fewer stored copies; each copy can be removed only once
				if (sharedE || live[string(e)] > 0) && f.Remove(e) {
					rem++
					live[string(e)]--
				}
			case 4:
				f.Length()
				f.Lookup(e)
			default:
				concSnapshot("CuckooFilter", f.Export)
				f.WriteTo(io.Discard)
			}
			if rng.Intn(4) == 0 {
				runtime.Gosched()
			}
		}
		mu.Lock()
		okIns += ins
		okRem += rem
		for e, n := range live {
			net[e] += n
		}
		mu.Unlock()
	})
	for e, n := range net {
		if n > 0 {
			liveAll = append(liveAll, []byte(e))
		}
		if n < 0 {
			bad = append(bad, fmt.Sprintf("%s was removed successfully %d more times than it was inserted", e, -n))
		}
	}
	c.rep.Ops["cuckoo.calls"] += 12 * g
	replay := map[string]interface{}{"structure": "CuckooFilter", "goroutines": g}
	for _, m := range bad {
		c.fail([]string{"C07", "C02", "C13"}, "conc-own-write-invisible", "CuckooFilter: "+m, replay)
	}
	d, _ := parseCuckoo(f.Export())
	if f.Length() != uint64(okIns-okRem) || d.stored() != okIns-okRem {
		c.fail([]string{"C07", "C13"}, "conc-final-state", fmt.Sprintf("CuckooFilter: Length %d / stored %d after %d successful inserts and %d removes by %d goroutines", f.Length(), d.stored(), okIns, okRem, g), replay)
	}
	for _, e := range liveAll {
		if !f.Lookup(e) {
			c.fail([]string{"C07", "C02"}, "conc-final-state", fmt.Sprintf("CuckooFilter: live element %s not found after concurrent use", e), replay)
			break
		}
	}
	c.nontrivial(fmt.Sprint("cuckoo", g, okIns))
}

func concTopK(c *Ctx, g int) {
	k := uint(4)
	t := gostatix.NewTopK(k, 0.01, 0.05) // wide sketch: estimates exact for this key set
	c.rep.Cases++
	var mu sync.Mutex
	truth := map[string]uint64{}
	var badTopK []string
	runWorkers(c, g, func(w int, rng *rand.Rand) {
		own := map[string]uint64{}
		for i := 0; i < 25; i++ {
			e := fmt.Sprintf("w%d-%d", w, rng.Intn(4))
			if rng.Intn(3) == 0 {
				e = "hot" // one element inserted by all goroutines: its entry is refreshed concurrently
			}
			switch rng.Intn(5) {
			case 0, 1, 2:
				n := uint64(1 + rng.Intn(3))
				if e == "hot" {
					n += 40 // heavy enough to be tracked
				}
				t.Insert([]byte(e), n)
				own[e] += n
				if e == "hot" {
					for _, v := range topkElems(t.Values()) {
						if v.V == e && v.F < own[e] {
							mu.Lock()
							badTopK = append(badTopK, fmt.Sprintf("worker %d: %q is reported with count %d, below the %d this goroutine alone has inserted", w, e, v.F, own[e]))
							mu.Unlock()
						}
					}
				}
			case 3:
				t.Values()
			default:
				concSnapshot("TopK", t.Export)
				t.WriteTo(io.Discard)
			}
			if rng.Intn(4) == 0 {
				runtime.Gosched()
			}
		}
		mu.Lock()
		for e, n := range own {
			truth[e] += n
		}
		mu.Unlock()
	})
	c.rep.Ops["topk.calls"] += 25 * g
	vals := topkElems(t.Values())
	replay := map[string]interface{}{"structure": "TopK", "goroutines": g, "values": fmt.Sprint(vals)}
	for _, m := range badTopK {
		c.fail([]string{"C07", "C04"}, "conc-own-write-invisible", "TopK: "+m, replay)
		break
	}
	want := int(k)
	if len(truth) < want {
		want = len(truth)
	}
	seen := map[string]bool{}
	minRep := uint64(1 << 62)
	okAll := len(vals) == want
	var total uint64
	for _, n := range truth {
		total += n
	}
	for _, e := range vals {
		// serialised by the lock, the run equals some sequential history: the C04 clauses must hold
		if seen[e.V] || e.F < truth[e.V] || e.F > total {
			okAll = false
		}
		seen[e.V] = true
		if e.F < minRep {
			minRep = e.F
		}
	}
	for e, n := range truth {
		if !seen[e] && n > minRep {
			okAll = false
		}
	}
	if !okAll {
		c.fail([]string{"C07", "C04"}, "conc-final-state", fmt.Sprintf("TopK: after %d concurrent goroutines Values=%v violates the Top-K clauses (size %d, no duplicates, true total <= count <= stream total, unreported elements no heavier than the smallest reported count) for totals %v", g, vals, k, truth), replay)
	}
	c.nontrivial(fmt.Sprint("topk", g, len(truth)))
}

// several goroutines remove the same element at the same moment while fewer copies are stored:
// each stored copy can be removed exactly once (Remove = true), Length follows
func concCuckooRemoveStorm(c *Ctx, g int) {
	f := gostatix.NewCuckooFilterWithRetries(16, 4, 6, 50)
	c.rep.Cases++
	rounds := 40
	var bad string
	for r := 0; r < rounds && bad == ""; r++ {
		e := []byte(fmt.Sprintf("storm-%d", r%5))
		copies := 1 + r%2
		stored := 0
		for i := 0; i < copies; i++ {
			ok := false
			safely(func() { ok = f.Insert(e, false) })
			if ok {
				stored++
			}
		}
		before := f.Length()
		var succ int64
		var wg sync.WaitGroup
		start := make(chan struct{})
		for w := 0; w < g; w++ {
			wg.Add(1)
			go func() {
				defer wg.Done()
				<-start
				if f.Remove(e) {
					atomic.AddInt64(&succ, 1)
				}
			}()
		}
		close(start)
		wg.Wait()
		want := stored
		if g < want {
			want = g
		}
		if int(succ) != want || f.Length() != before-uint64(want) {
			bad = fmt.Sprintf("%d goroutines removed %q (%d stored copies) at once: %d removes reported success, Length went from %d to %d", g, e, stored, succ, before, f.Length())
		}
		for f.Remove(e) {
		}
	}
	c.rep.Ops["cuckoo.remove-storm"] += rounds
	if bad != "" {
		c.fail([]string{"C07", "C13"}, "conc-remove-more-than-stored", "CuckooFilter: "+bad, map[string]interface{}{"structure": "CuckooFilter", "goroutines": g})
	}
}

// counts at the top of the uint64 range: two goroutines insert 2^63 each after a Values call
// (whatever Values remembered is stale: the total of the stream wraps to its old value); both
// completed inserts must be visible
func concTopKHuge(c *Ctx) {
	t := gostatix.NewTopK(4, 0.01, 0.05)
	c.rep.Cases++
	t.Insert([]byte("seed"), 1)
	t.Values()
	var wg sync.WaitGroup
	for _, e := range []string{"alpha", "beta"} {
		wg.Add(1)
		go func(e string) {
			defer wg.Done()
			t.Insert([]byte(e), 1<<63)
		}(e)
	}
	wg.Wait()
	got := map[string]uint64{}
	for _, v := range topkElems(t.Values()) {
		got[v.V] = v.F
	}
	c.rep.Ops["topk.huge-counts"]++
	if got["alpha"] < 1<<63 || got["beta"] < 1<<63 || got["seed"] < 1 {
		c.fail([]string{"C07", "C04"}, "conc-own-write-invisible", fmt.Sprintf("TopK: after two goroutines inserted alpha and beta with 2^63 each (following a Values call), Values reports %v", got), map[string]interface{}{"structure": "TopK", "counts": "2^63"})
	}
}

// one hot element inserted by all goroutines at once: Insert is one atomic step (sketch update,
// estimate and heap refresh together), so the reported count of the hot element never runs behind
// what a goroutine has itself completed, and ends at the total
func concTopKHot(c *Ctx, g int) {
	t := gostatix.NewTopK(4, 0.01, 0.05)
	c.rep.Cases++
	t.Insert([]byte("cold-a"), 2)
	t.Insert([]byte("cold-b"), 3)
	per := 400
	var mu sync.Mutex
	var bad []string
	var completed int64 // inserts of "hot" that have RETURNED, over all goroutines
	runWorkers(c, g, func(w int, rng *rand.Rand) {
		for i := 1; i <= per; i++ {
			t.Insert([]byte("hot"), 1)
			atomic.AddInt64(&completed, 1)
			if i%3 == 0 {
				// every insert that returned before this Values call started is visible to it
				done := uint64(atomic.LoadInt64(&completed))
				for _, v := range topkElems(t.Values()) {
					if v.V == "hot" && v.F < done {
						mu.Lock()
						bad = append(bad, fmt.Sprintf("%d inserts of \"hot\" had returned when worker %d called Values, which reports %d", done, w, v.F))
						mu.Unlock()
					}
				}
			}
			if rng.Intn(8) == 0 {
				runtime.Gosched()
			}
		}
	})
	c.rep.Ops["topk.hot-calls"] += per * g
	got := uint64(0)
	for _, v := range topkElems(t.Values()) {
		if v.V == "hot" {
			got = v.F
		}
	}
	if got != uint64(per*g) && len(bad) == 0 {
		bad = append(bad, fmt.Sprintf("after %d goroutines inserted \"hot\" %d times each, Values reports %d", g, per, got))
	}
	if len(bad) > 0 {
		c.fail([]string{"C07", "C04"}, "conc-own-write-invisible", "TopK: "+bad[0], map[string]interface{}{"structure": "TopK", "goroutines": g, "inserts_per_goroutine": per})
	}
}

// many short runs on fresh sketches: with only a dozen elements in a sketch a single lost update
// (or a merge that overwrites one) almost always shows in the registers, which a long run on a
// saturated sketch hides
func concHLLSmall(c *Ctx, g int) {
	if g > 8 {
		g = 8
	}
	bad := ""
	trials := 40
	for t := 0; t < trials && bad == ""; t++ {
		h, _ := gostatix.NewHyperLogLog(256)
		seq, _ := gostatix.NewHyperLogLog(256)
		var mu sync.Mutex
		var all [][]byte
		runWorkers(c, g, func(w int, rng *rand.Rand) {
			var mine [][]byte
			for i := 0; i < 3; i++ {
				e := []byte(fmt.Sprintf("t%d-w%d-%d-%d", t, w, i, rng.Intn(1000)))
				if i == 1 {
					p, _ := gostatix.NewHyperLogLog(256)
					p.Update(e)
					if h.Merge(p) == nil {
						mine = append(mine, e)
					}
				} else {
					h.Update(e)
					mine = append(mine, e)
				}
			}
			mu.Lock()
			all = append(all, mine...)
			mu.Unlock()
		})
		for _, e := range all {
			seq.Update(e)
		}
		a, _ := parseHLL(h.Export())
		b, _ := parseHLL(seq.Export())
		if !eqU64(a.regs(), b.regs()) {
			bad = fmt.Sprintf("trial %d: %d goroutines, 2 updates and 1 merge each on a fresh sketch: final registers differ from the sequential application (an update or a merge was lost)", t, g)
		}
	}
	c.rep.Cases++
	c.rep.Ops["hll.small-runs"] += trials
	if bad != "" {
		c.fail([]string{"C07", "C06"}, "conc-final-state", "HyperLogLog: "+bad, map[string]interface{}{"structure": "HyperLogLog", "goroutines": g})
	}
}

// concSnapshot: what Export returns belongs to the caller.  The bytes are kept for a while (other
// goroutines go on, some of them exporting too), then read again: they must be what they were and
// still a well-formed document.  (A result that aliases memory the structure keeps writing to is a
// data race on these reads, which the race detector reports; the comparison also works without it.)
var concSnapshotBad struct {
	sync.Mutex
	msgs []string
}

func concSnapshot(name string, export func() ([]byte, error)) {
	doc, err := export()
	if err != nil {
		return
	}
	keep := string(doc)
	for i := 0; i < 3; i++ {
		runtime.Gosched()
	}
	time.Sleep(20 * time.Microsecond)
	if string(doc) != keep || !json.Valid(doc) {
		concSnapshotBad.Lock()
		if len(concSnapshotBad.msgs) < 5 {
			concSnapshotBad.msgs = append(concSnapshotBad.msgs, fmt.Sprintf("%s: the bytes returned by Export changed after the call had returned (or are not a JSON document): %.80q -> %.80q", name, keep, string(doc)))
		}
		concSnapshotBad.Unlock()
	}
}

func concSnapshotReport(c *Ctx) {
	concSnapshotBad.Lock()
	defer concSnapshotBad.Unlock()
	for _, m := range concSnapshotBad.msgs {
		c.fail([]string{"C07", "C10"}, "conc-export-not-a-snapshot", m, nil)
	}
	concSnapshotBad.msgs = nil
}

// concSnapshotVsUpdate: WriteTo of a structure that is EMPTY (or has just become empty again) while
// another goroutine makes its first update, through a writer that yields on every Write.  The image
// is the empty structure or the structure after the update - never a mixture (a header that says
// "empty" over a payload that is not).  Many short rounds, all five structures.
type yieldingWriter struct{ buf bytes.Buffer }

func (w *yieldingWriter) Write(p []byte) (int, error) {
	runtime.Gosched()
	return w.buf.Write(p)
}

func concSnapshotVsUpdate(c *Ctx) {
	type pair struct {
		name    string
		writeTo func(io.Writer) (int64, error)
		update  func()
	}
	mk := []func() pair{
		func() pair {
			f := gostatix.NewCuckooFilter(8, 2, 3)
			return pair{"CuckooFilter", f.WriteTo, func() { f.Insert([]byte("first"), false) }}
		},
		func() pair {
			f := gostatix.NewCuckooFilter(4, 2, 3)
			f.Insert([]byte("gone"), false)
			f.Remove([]byte("gone"))
			return pair{"CuckooFilter(emptied)", f.WriteTo, func() { f.Insert([]byte("first"), false) }}
		},
		func() pair {
			t := gostatix.NewTopK(3, 0.5, 0.5)
			return pair{"TopK", t.WriteTo, func() { t.Insert([]byte("first"), 2) }}
		},
		func() pair {
			s, _ := gostatix.NewCountMinSketch(2, 4)
			return pair{"CountMinSketch", s.WriteTo, func() { s.Update([]byte("first"), 3) }}
		},
		func() pair {
			h, _ := gostatix.NewHyperLogLog(128)
			return pair{"HyperLogLog", h.WriteTo, func() { h.Update([]byte("first")) }}
		},
		func() pair {
			f, _ := gostatix.NewMemBloomFilterWithParameters(20, 0.1)
			return pair{"BloomFilter", f.WriteTo, func() { f.Insert([]byte("first")) }}
		},
	}
	for _, m := range mk {
		for round := 0; round < 12; round++ {
			p := m()
			var before bytes.Buffer
			if _, err := p.writeTo(&before); err != nil {
				break
			}
			w := &yieldingWriter{}
			var wg sync.WaitGroup
			start := make(chan struct{})
			wg.Add(2)
			go func() { defer wg.Done(); <-start; safely(func() { p.writeTo(w) }) }()
			go func() {
				defer wg.Done()
				<-start
				if round%2 == 1 {
					runtime.Gosched()
				}
				safely(p.update)
			}()
			close(start)
			wg.Wait()
			var after bytes.Buffer
			p.writeTo(&after)
			c.rep.Ops["snapshot-vs-first-update"]++
			if got := w.buf.Bytes(); !bytes.Equal(got, before.Bytes()) && !bytes.Equal(got, after.Bytes()) {
				c.fail([]string{"C07", "C11"}, "conc-writeto-torn-image", fmt.Sprintf("%s: WriteTo concurrent with the first update of an empty structure wrote an image that is neither the empty structure nor the updated one (%d bytes; empty %d, updated %d)", p.name, len(got), before.Len(), after.Len()),
					map[string]interface{}{"structure": p.name, "image_hex": hexStr(got), "empty_hex": hexStr(before.Bytes()), "updated_hex": hexStr(after.Bytes())})
				break
			}
		}
	}
	c.rep.Cases++
}

// concCuckooRemoveStormWide: one bucket of 1024 slots, nearly full, so that finding an entry is a long
// scan; one copy of the target, eight goroutines remove it at once.  Exactly one succeeds and Length
// drops by one - a probe that is separated from the removal has a wide window here.
func concCuckooRemoveStormWide(c *Ctx) {
	f := gostatix.NewCuckooFilterWithRetries(1, 1024, 6, 5)
	for i := 0; i < 1000; i++ {
		safely(func() { f.Insert([]byte(fmt.Sprintf("filler-%d", i)), false) })
	}
	c.rep.Cases++
	for r := 0; r < 60; r++ {
		e := []byte(fmt.Sprintf("wide-storm-%d", r))
		ok := false
		safely(func() { ok = f.Insert(e, false) })
		if !ok {
			continue
		}
		before := f.Length()
		var succ int64
		var wg sync.WaitGroup
		start := make(chan struct{})
		for w := 0; w < 8; w++ {
			wg.Add(1)
			go func() {
				defer wg.Done()
				<-start
				if f.Remove(e) {
					atomic.AddInt64(&succ, 1)
				}
			}()
		}
		close(start)
		wg.Wait()
		c.rep.Ops["cuckoo.remove-storm-wide"]++
		if succ != 1 || f.Length() != before-1 {
			c.fail([]string{"C07", "C13"}, "conc-remove-more-than-stored", fmt.Sprintf("CuckooFilter(1 bucket of 1024 slots, %d entries): 8 goroutines removed the single copy of %q at once: %d removes reported success, Length went from %d to %d", before, e, succ, before, f.Length()), map[string]interface{}{"structure": "CuckooFilter", "goroutines": 8})
			return
		}
	}
}
