package main

import (
	"bufio"
	"encoding/base64"
	"encoding/binary"
	"encoding/hex"
	"encoding/json"
	"fmt"
	"math/rand"
	"os"
	"sort"
	"strconv"
	"strings"
	"sync"

	"github.com/alicebob/miniredis/v2"
	"github.com/kwertop/gostatix"
)

// ---------------------------------------------------------------------------------------------
// report

type Failure struct {
	Properties []string    `json:"properties"`
	Kind       string      `json:"kind"` // oracle | harness
	Key        string      `json:"key"`  // classification used to match known findings
	What       string      `json:"what"`
	Replay     interface{} `json:"replay"`
}

type Report struct {
	Suite      string         `json:"suite"`
	Seed       int64          `json:"seed"`
	Tier       string         `json:"tier"`
	Cases      int            `json:"cases"`
	Ops        map[string]int `json:"ops"`
	Branches   map[string]int `json:"branches"`
	TraceLines int            `json:"trace_lines"`
	Nontrivial int            `json:"distinct_nontrivial"`
	Rule       string         `json:"rule"`
	Failures   []Failure      `json:"failures"`
	Samples    []interface{}  `json:"samples"`
	Notes      []string       `json:"notes"`
	seen       map[string]bool
}

type Ctx struct {
	rng   *rand.Rand
	tier  string
	seed  int64
	trace *bufio.Writer
	rep   *Report
	mr    *miniredis.Miniredis
	// pendingPath: side file naming the call in progress; a fatal runtime error of the
	// implementation (out of memory, stack exhaustion, deadlock - not recoverable) kills the
	// process before a report can be written, and bin/check then finds the input here
	pendingPath string
}

// pending records the call about to be made (props: the properties it would violate by killing
// the process); done() clears it.
func (c *Ctx) pending(props []string, key, what string, replay interface{}) {
	if c.pendingPath == "" {
		return
	}
	writeJSON(c.pendingPath, Failure{props, "oracle", key, what, replay})
}

func (c *Ctx) done() {
	if c.pendingPath != "" {
		os.Remove(c.pendingPath)
	}
}

func (c *Ctx) thorough() bool { return c.tier == "thorough" }

// scale returns q in quick tier and t in thorough tier
func (c *Ctx) scale(q, t int) int {
	if c.thorough() {
		return t
	}
	return q
}

func (c *Ctx) emit(format string, a ...interface{}) {
	fmt.Fprintf(c.trace, format, a...)
	c.trace.WriteByte('\n')
	c.rep.TraceLines++
}

func (c *Ctx) op(name string)     { c.rep.Ops[name]++ }
func (c *Ctx) branch(name string) { c.rep.Branches[name]++ }

// nontrivial records a distinct non-trivial case (deduplicated by its description)
func (c *Ctx) nontrivial(desc string) {
	if !c.rep.seen[desc] {
		c.rep.seen[desc] = true
		c.rep.Nontrivial++
	}
}

func (c *Ctx) sample(v interface{}) {
	if len(c.rep.Samples) < 4 {
		c.rep.Samples = append(c.rep.Samples, v)
	}
}

func (c *Ctx) fail(props []string, key, what string, replay interface{}) {
	if len(c.rep.Failures) < 200 {
		c.rep.Failures = append(c.rep.Failures, Failure{props, "oracle", key, what, replay})
	}
}

func (c *Ctx) note(s string) { c.rep.Notes = append(c.rep.Notes, s) }

// ---------------------------------------------------------------------------------------------
// encodings for the line protocol

func natList(l []uint64) string {
	if len(l) == 0 {
		return "-"
	}
	var sb strings.Builder
	for i, v := range l {
		if i > 0 {
			sb.WriteByte(',')
		}
		sb.WriteString(strconv.FormatUint(v, 10))
	}
	return sb.String()
}

func uintList(l []uint) string {
	m := make([]uint64, len(l))
	for i, v := range l {
		m[i] = uint64(v)
	}
	return natList(m)
}

func matrixStr(m [][]uint64) string {
	if len(m) == 0 {
		return "-"
	}
	rows := make([]string, len(m))
	for i := range m {
		rows[i] = natList(m[i])
	}
	return strings.Join(rows, ";")
}

func hexStr(b []byte) string {
	if len(b) == 0 {
		return "-"
	}
	return hex.EncodeToString(b)
}

func strList(l []string) string {
	if len(l) == 0 {
		return "-"
	}
	out := make([]string, len(l))
	for i, s := range l {
		if s == "" {
			out[i] = "_"
		} else {
			out[i] = s
		}
	}
	return strings.Join(out, ",")
}

func b2i(b bool) int {
	if b {
		return 1
	}
	return 0
}

// ---------------------------------------------------------------------------------------------
// calling the implementation with panic recovery

type callResult struct {
	panicked bool
	panicVal string
}

func safely(f func()) (res callResult) {
	defer func() {
		if r := recover(); r != nil {
			res.panicked = true
			res.panicVal = fmt.Sprint(r)
		}
	}()
	f()
	return
}

// ---------------------------------------------------------------------------------------------
// abstraction functions: Export() documents -> model state

type bloomDoc struct {
	M uint64 `json:"m"`
	K uint64 `json:"k"`
	B []byte `json:"b"`
}

// BloomAbs is the abstract state of a Bloom filter: parameters + sorted set-bit indexes
type BloomAbs struct {
	Size, K uint64
	Bits    []uint64 // sorted indexes of set bits
	BsLen   uint64   // number of bits held by the backing bitset
	Words   []uint64 // mem only: raw words
	Raw     []byte   // redis only: the bitmap string as stored in Redis
}

func bloomAbsMem(f *gostatix.BloomFilter) (BloomAbs, error) {
	data, err := f.Export()
	if err != nil {
		return BloomAbs{}, err
	}
	return bloomAbsMemDoc(data)
}

func bloomAbsMemDoc(data []byte) (BloomAbs, error) {
	var d bloomDoc
	if err := json.Unmarshal(data, &d); err != nil {
		return BloomAbs{}, err
	}
	var s string
	if err := json.Unmarshal(d.B, &s); err != nil {
		return BloomAbs{}, fmt.Errorf("bitset json: %v", err)
	}
	raw, err := base64.URLEncoding.DecodeString(s)
	if err != nil {
		return BloomAbs{}, err
	}
	if len(raw) < 8 || (len(raw)-8)%8 != 0 {
		return BloomAbs{}, fmt.Errorf("bitset image length %d", len(raw))
	}
	a := BloomAbs{Size: d.M, K: d.K}
	a.BsLen = binary.BigEndian.Uint64(raw[:8])
	for off := 8; off < len(raw); off += 8 {
		a.Words = append(a.Words, binary.BigEndian.Uint64(raw[off:off+8]))
	}
	for i := uint64(0); i < a.BsLen; i++ {
		if int(i/64) < len(a.Words) && a.Words[i/64]>>(i%64)&1 == 1 {
			a.Bits = append(a.Bits, i)
		}
	}
	return a, nil
}

func revBits(b byte) byte {
	var r byte
	for i := 0; i < 8; i++ {
		if b&(1<<i) != 0 {
			r |= 1 << (7 - i)
		}
	}
	return r
}

func bloomAbsRedis(f *gostatix.BloomFilter) (BloomAbs, error) {
	data, err := f.Export()
	if err != nil {
		return BloomAbs{}, err
	}
	var d bloomDoc
	if err := json.Unmarshal(data, &d); err != nil {
		return BloomAbs{}, err
	}
	var s string
	if err := json.Unmarshal(d.B, &s); err != nil {
		return BloomAbs{}, fmt.Errorf("bitset json: %v", err)
	}
	raw, err := base64.URLEncoding.DecodeString(s)
	if err != nil {
		return BloomAbs{}, err
	}
	if len(raw) < 8 {
		return BloomAbs{}, fmt.Errorf("bitset image length %d", len(raw))
	}
	a := BloomAbs{Size: d.M, K: d.K}
	a.BsLen = binary.BigEndian.Uint64(raw[:8])
	body := append([]byte(nil), raw[8:]...)
	// undo marshal(): bytes were bit-reversed, then the byte order reversed
	for i, j := 0, len(body)-1; i < j; i, j = i+1, j-1 {
		body[i], body[j] = body[j], body[i]
	}
	for i := range body {
		body[i] = revBits(body[i])
	}
	a.Raw = body
	// redis bit n = byte n/8, bit 7-n%8
	for n := 0; n < len(body)*8; n++ {
		if body[n/8]>>(7-uint(n%8))&1 == 1 {
			a.Bits = append(a.Bits, uint64(n))
		}
	}
	return a, nil
}

type bucketDoc struct {
	S uint64   `json:"s"`
	L uint64   `json:"l"`
	E []string `json:"e"`
	K string   `json:"k"`
}
type cuckooDoc struct {
	S   uint64      `json:"s"`
	BS  uint64      `json:"bs"`
	FPL uint64      `json:"fpl"`
	L   uint64      `json:"l"`
	R   uint64      `json:"r"`
	B   []bucketDoc `json:"b"`
	K   string      `json:"k"`
	MK  string      `json:"mk"`
}

func (d cuckooDoc) bucketsStr() string {
	if len(d.B) == 0 {
		return "-"
	}
	out := make([]string, len(d.B))
	for i, b := range d.B {
		out[i] = fmt.Sprintf("%d:%d:%s", b.S, b.L, strList(b.E))
	}
	return strings.Join(out, ";")
}

// stored returns the multiset of non-empty fingerprints
func (d cuckooDoc) stored() int {
	n := 0
	for _, b := range d.B {
		for _, e := range b.E {
			if e != "" {
				n++
			}
		}
	}
	return n
}

func parseCuckoo(data []byte, err error) (cuckooDoc, error) {
	var d cuckooDoc
	if err != nil {
		return d, err
	}
	err = json.Unmarshal(data, &d)
	return d, err
}

type cmsDoc struct {
	R uint64     `json:"r"`
	C uint64     `json:"c"`
	S uint64     `json:"s"`
	M [][]uint64 `json:"m"`
	K string     `json:"k"`
}

func parseCMS(data []byte, err error) (cmsDoc, error) {
	var d cmsDoc
	if err != nil {
		return d, err
	}
	err = json.Unmarshal(data, &d)
	return d, err
}

type hllDoc struct {
	NR  uint64  `json:"nr"`
	NBP uint64  `json:"nbp"`
	C   float64 `json:"c"`
	R   []uint8 `json:"r"`
	K   string  `json:"k"`
}

func parseHLL(data []byte, err error) (hllDoc, error) {
	var d hllDoc
	if err != nil {
		return d, err
	}
	err = json.Unmarshal(data, &d)
	return d, err
}

func (d hllDoc) regs() []uint64 {
	out := make([]uint64, len(d.R))
	for i, v := range d.R {
		out[i] = uint64(v)
	}
	return out
}

type heapDoc struct {
	V string `json:"v"`
	F uint64 `json:"f"`
}
type topkDoc struct {
	K  uint64    `json:"k"`
	ER float64   `json:"er"`
	A  float64   `json:"a"`
	S  cmsDoc    `json:"s"`
	H  []heapDoc `json:"h"`
	HK string    `json:"hk"`
}

func parseTopK(data []byte, err error) (topkDoc, error) {
	var d topkDoc
	if err != nil {
		return d, err
	}
	err = json.Unmarshal(data, &d)
	return d, err
}

func heapStr(h []heapDoc) string {
	if len(h) == 0 {
		return "-"
	}
	out := make([]string, len(h))
	for i, e := range h {
		out[i] = fmt.Sprintf("%s:%d", e.V, e.F)
	}
	return strings.Join(out, ",")
}

// ---------------------------------------------------------------------------------------------
// element pools

// elemPool builds a pool of n distinct byte strings with adversarial shapes first:
// empty, 1 byte, 15/16/17/33 bytes, binary, invalid UTF-8, then random.
func elemPool(rng *rand.Rand, n int, asciiOnly bool) [][]byte {
	seen := map[string]bool{}
	var out [][]byte
	add := func(b []byte) {
		if !seen[string(b)] && len(out) < n {
			seen[string(b)] = true
			out = append(out, b)
		}
	}
	// special shapes first, in random order (the pool may be smaller than their number)
	var special [][]byte
	if !asciiOnly {
		special = [][]byte{nil, {0}, {0xff, 0xfe, 0x00, 0x80}, []byte("\xc3\x28 bad utf8"),
			randBytes(rng, 15), randBytes(rng, 16), randBytes(rng, 17), randBytes(rng, 33), randBytes(rng, 64),
			// longer than any fixed-size scratch buffer an implementation might copy keys into
			randBytes(rng, 127), randBytes(rng, 128), randBytes(rng, 129), randBytes(rng, 300), randBytes(rng, 5000),
			[]byte("12345"), []byte("-1"), []byte("1e3"), []byte("c++ %41/\"q\"\\ x,y;z:_")}
	} else {
		// printable ASCII that percent-, URL-, JSON- or shell-style escaping treats specially
		// (no blank, comma, colon, semicolon, underscore: the trace format of the names)
		special = [][]byte{[]byte("c++"), []byte("%41%2B"), []byte("a/b\\c"), []byte("\"q\""), []byte("x=1&y=2"), []byte("<k>")}
	}
	rng.Shuffle(len(special), func(i, j int) { special[i], special[j] = special[j], special[i] })
	for _, sp := range special {
		if len(out) >= n-3 && len(out) >= 2 {
			break
		}
		add(sp)
	}
	add([]byte("a"))
	add([]byte("0123456789abcdef"))
	add([]byte("0123456789abcdefg"))
	for len(out) < n {
		l := 1 + rng.Intn(12)
		if asciiOnly {
			b := make([]byte, l)
			for i := range b {
				b[i] = "abcdefghijklmnopqrstuvwxyzABCDEFGHIJKLMNOPQRSTUVWXYZ0123456789"[rng.Intn(62)]
			}
			add(b)
		} else {
			add(randBytes(rng, l))
		}
	}
	return out
}

func randBytes(rng *rand.Rand, n int) []byte {
	b := make([]byte, n)
	rng.Read(b)
	return b
}

func sortedKeys(m map[string]int) []string {
	ks := make([]string, 0, len(m))
	for k := range m {
		ks = append(ks, k)
	}
	sort.Strings(ks)
	return ks
}

func eqU64(a, b []uint64) bool {
	if len(a) != len(b) {
		return false
	}
	for i := range a {
		if a[i] != b[i] {
			return false
		}
	}
	return true
}

func writeJSON(path string, v interface{}) error {
	data, err := json.MarshalIndent(v, "", " ")
	if err != nil {
		return err
	}
	return os.WriteFile(path, data, 0o644)
}

func newRng(seed int64) *rand.Rand { return rand.New(rand.NewSource(seed)) }

// ---- caller-owned argument buffers -------------------------------------------------------------
// A caller may reuse one buffer for successive elements (binary.PutUint64(buf, i); h.Update(buf)) and
// may overwrite it as soon as the call returns.  The handle wrappers pass every element through
// `viaScratch`: the bytes live in a recycled backing array (a sync.Pool: the same array for
// successive calls of one goroutine, never shared between two running calls) and are scribbled
// over after the call, so an implementation that keeps a reference to its argument (a "last
// element" cache, a stored key) is exposed.
var scratchPool = sync.Pool{New: func() interface{} { b := make([]byte, 512); return &b }}

func viaScratch(d []byte, call func(arg []byte)) {
	if len(d) == 0 || len(d) > 512 {
		call(d)
		return
	}
	bp := scratchPool.Get().(*[]byte)
	buf := *bp
	n := copy(buf, d)
	defer func() {
		for i := 0; i < n; i++ {
			buf[i] ^= 0xA5
		}
		scratchPool.Put(bp)
	}()
	call(buf[:n:n])
}

// keysWithTTL: the library never asks Redis to expire anything; a key of a structure that carries a
// time-to-live will silently vanish (nothing in the API would show it before that moment)
func (c *Ctx) keysWithTTL() []string {
	var out []string
	for _, k := range c.mr.Keys() {
		if c.mr.TTL(k) > 0 {
			out = append(out, k)
		}
	}
	return out
}

func (c *Ctx) checkNoTTL(props []string, where string) bool {
	if ks := c.keysWithTTL(); len(ks) > 0 {
		c.fail(props, "redis-key-expires", fmt.Sprintf("%s: Redis key %q of a structure now carries a time-to-live (%v): the data will vanish", where, ks[0], c.mr.TTL(ks[0])), map[string]interface{}{"keys": ks, "where": where})
		return false
	}
	return true
}
