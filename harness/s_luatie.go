package main

import (
	"bytes"
	"context"
	"crypto/sha1"
	"encoding/hex"
	"encoding/json"
	"fmt"
	"math"
	"net"
	"runtime"
	"sort"
	"strconv"
	"strings"
	"sync"

	"github.com/kwertop/gostatix"
	"github.com/redis/go-redis/v9"
)

// suite "luatie": correspondence check for the Lua interpreter of the Lean development
// (lean/Gostatix/Model/Lua.lean) applied to the scripts the extractor regenerates from the Go
// sources (lean/Gostatix/Generated/LuaScripts.lean).
//
// A go-redis hook on the package client (build tag `verif`) records EVERY `EVAL` / `EVALSHA` the
// library issues:
//   - the command as written on the wire (script text or SHA-1, KEYS, ARGV) and the reply as read
//     from the wire — the hook's DialHook wraps the connection, so that a status reply, a bulk
//     reply, nil and an error stay distinguishable (go-redis' `Cmd.Val()` merges some of them);
//   - the WHOLE miniredis database before and after the command, read directly from miniredis.
// One `lua.eval` line per invocation (an `EVALSHA` answered NOSCRIPT is not an invocation: go-redis
// follows it with the `EVAL` of the text, which is recorded).  The driver looks the script up by
// SHA-1, interprets it on the "before" database and must arrive at the recorded reply and at the
// "after" database (lean/Gostatix/Model/LuaDriver.lean).
//
// The suite body drives every public operation of the Redis-backed structures that runs a script,
// on random reachable states and on states damaged behind the library's back (key deleted, wrong
// type, non-numeric / non-canonical numbers, list too short or too long), so that the error paths
// of the scripts — including errors after the first writes — are recorded too.  Commands are
// issued one at a time: the dumps are exact.

func init() { register("luatie", suiteLuaTie) }

// ---------------------------------------------------------------------------------------------
// wire tap

type luaRec struct {
	mu     sync.Mutex
	c      *Ctx
	wbuf   bytes.Buffer // bytes written to Redis since the last reset (all connections)
	rbuf   bytes.Buffer // bytes read from Redis since the last reset
	counts map[string]int
	label  map[string]string // sha -> calling library function
	lines  int
	errs   int // invocations answered with an error reply
}

type teeConn struct {
	net.Conn
	r *luaRec
}

func (t *teeConn) Read(p []byte) (int, error) {
	n, err := t.Conn.Read(p)
	if n > 0 {
		t.r.mu.Lock()
		t.r.rbuf.Write(p[:n])
		t.r.mu.Unlock()
	}
	return n, err
}

func (t *teeConn) Write(p []byte) (int, error) {
	n, err := t.Conn.Write(p)
	if n > 0 {
		t.r.mu.Lock()
		t.r.wbuf.Write(p[:n])
		t.r.mu.Unlock()
	}
	return n, err
}

func (r *luaRec) DialHook(next redis.DialHook) redis.DialHook {
	return func(ctx context.Context, network, addr string) (net.Conn, error) {
		conn, err := next(ctx, network, addr)
		if err != nil {
			return conn, err
		}
		return &teeConn{Conn: conn, r: r}, nil
	}
}

func (r *luaRec) ProcessPipelineHook(next redis.ProcessPipelineHook) redis.ProcessPipelineHook {
	return func(ctx context.Context, cmds []redis.Cmder) error { return next(ctx, cmds) }
}

func (r *luaRec) ProcessHook(next redis.ProcessHook) redis.ProcessHook {
	return func(ctx context.Context, cmd redis.Cmder) error {
		name := strings.ToLower(cmd.Name())
		if name != "eval" && name != "evalsha" {
			return next(ctx, cmd)
		}
		before := r.c.ltDumpDB()
		r.mu.Lock()
		r.wbuf.Reset()
		r.rbuf.Reset()
		r.mu.Unlock()
		err := next(ctx, cmd)
		r.mu.Lock()
		w := append([]byte(nil), r.wbuf.Bytes()...)
		rd := append([]byte(nil), r.rbuf.Bytes()...)
		r.mu.Unlock()
		after := r.c.ltDumpDB()
		r.record(w, rd, before, after)
		return err
	}
}

// callerLabel names the library function the script was run from.
func callerLabel() string {
	pcs := make([]uintptr, 48)
	n := runtime.Callers(2, pcs)
	frames := runtime.CallersFrames(pcs[:n])
	for {
		f, more := frames.Next()
		const pfx = "github.com/kwertop/gostatix."
		if strings.HasPrefix(f.Function, pfx) {
			s := strings.TrimPrefix(f.Function, pfx)
			s = strings.NewReplacer("(", "", ")", "", "*", "").Replace(s)
			return s
		}
		if !more {
			return "?"
		}
	}
}

// ---- RESP (2 and 3)

type respVal struct {
	kind byte // + - : $ * _ # , ( ! = % ~ > |
	str  string
	null bool
	arr  []respVal
}

func respLine(b []byte, pos int) (string, int, error) {
	i := bytes.Index(b[pos:], []byte("\r\n"))
	if i < 0 {
		return "", 0, fmt.Errorf("resp: unterminated line")
	}
	return string(b[pos : pos+i]), pos + i + 2, nil
}

func parseResp(b []byte, pos int) (respVal, int, error) {
	if pos >= len(b) {
		return respVal{}, 0, fmt.Errorf("resp: empty")
	}
	kind := b[pos]
	line, next, err := respLine(b, pos+1)
	if err != nil {
		return respVal{}, 0, err
	}
	v := respVal{kind: kind}
	switch kind {
	case '+', '-', ':', '#', ',', '(':
		v.str = line
		return v, next, nil
	case '_':
		v.null = true
		return v, next, nil
	case '$', '!', '=':
		n, err := strconv.Atoi(line)
		if err != nil {
			return v, 0, fmt.Errorf("resp: length %q", line)
		}
		if n < 0 {
			v.null = true
			return v, next, nil
		}
		if next+n+2 > len(b) {
			return v, 0, fmt.Errorf("resp: short bulk")
		}
		v.str = string(b[next : next+n])
		return v, next + n + 2, nil
	case '*', '~', '>', '%', '|':
		n, err := strconv.Atoi(line)
		if err != nil {
			return v, 0, fmt.Errorf("resp: length %q", line)
		}
		if n < 0 {
			v.null = true
			return v, next, nil
		}
		if kind == '%' || kind == '|' {
			n *= 2
		}
		v.arr = make([]respVal, 0, n)
		for i := 0; i < n; i++ {
			var e respVal
			e, next, err = parseResp(b, next)
			if err != nil {
				return v, 0, err
			}
			v.arr = append(v.arr, e)
		}
		return v, next, nil
	}
	return v, 0, fmt.Errorf("resp: type byte %q", kind)
}

func parseRespAll(b []byte) ([]respVal, error) {
	var out []respVal
	pos := 0
	for pos < len(b) {
		v, next, err := parseResp(b, pos)
		if err != nil {
			return out, err
		}
		out = append(out, v)
		pos = next
	}
	return out, nil
}

// ---- encodings of the lua.eval line

func ltHex(s string) string {
	if s == "" {
		return "_"
	}
	return hex.EncodeToString([]byte(s))
}

func ltHexList(l []string) string {
	if len(l) == 0 {
		return "-"
	}
	out := make([]string, len(l))
	for i, s := range l {
		out[i] = ltHex(s)
	}
	return strings.Join(out, ",")
}

func ltReply(v respVal) string {
	switch v.kind {
	case '+':
		return "s:" + ltHex(v.str)
	case '-', '!':
		return "e"
	case ':':
		return "i:" + v.str
	case '$', '=':
		if v.null {
			return "n"
		}
		return "b:" + ltHex(v.str)
	case '_':
		return "n"
	case '*':
		if v.null {
			return "n"
		}
		parts := make([]string, len(v.arr))
		for i, e := range v.arr {
			parts[i] = ltReply(e)
		}
		return "a(" + strings.Join(parts, "|") + ")"
	}
	return "?" + string(v.kind)
}

// ltDumpDB prints the whole database (db 0), read directly from miniredis.
func (c *Ctx) ltDumpDB() string {
	keys := c.mr.Keys()
	sort.Strings(keys)
	if len(keys) == 0 {
		return "-"
	}
	out := make([]string, 0, len(keys))
	for _, k := range keys {
		var val string
		switch t := c.mr.Type(k); t {
		case "string":
			v, _ := c.mr.Get(k)
			val = "s:" + ltHex(v)
		case "list":
			l, _ := c.mr.List(k)
			val = "l:" + ltHexList(l)
		case "hash":
			fs, _ := c.mr.HKeys(k)
			sort.Strings(fs)
			ps := make([]string, len(fs))
			for i, f := range fs {
				ps[i] = ltHex(f) + "~" + ltHex(c.mr.HGet(k, f))
			}
			val = "h:" + strings.Join(ps, ",")
			if len(ps) == 0 {
				val = "h:-"
			}
		case "zset":
			ss, _ := c.mr.SortedSet(k)
			ms := make([]string, 0, len(ss))
			for m := range ss {
				ms = append(ms, m)
			}
			sort.Strings(ms)
			ps := make([]string, len(ms))
			for i, m := range ms {
				sc := ss[m]
				if sc >= 0 && sc < 1<<53 && sc == math.Trunc(sc) {
					ps[i] = ltHex(m) + "~" + strconv.FormatUint(uint64(sc), 10)
				} else {
					ps[i] = ltHex(m) + "~" + strconv.FormatFloat(sc, 'g', -1, 64) // not representable: the driver rejects the line
				}
			}
			val = "z:" + strings.Join(ps, ",")
			if len(ps) == 0 {
				val = "z:-"
			}
		default:
			val = "?:" + t
		}
		out = append(out, ltHex(k)+"="+val)
	}
	return strings.Join(out, ";")
}

func (r *luaRec) record(w, rd []byte, before, after string) {
	c := r.c
	cmds, err := parseRespAll(w)
	if err != nil || len(cmds) == 0 {
		c.fail([]string{"*"}, "luatie-tap", fmt.Sprintf("cannot parse the bytes written to Redis: %v", err), nil)
		return
	}
	replies, err := parseRespAll(rd)
	if err != nil || len(replies) == 0 {
		c.fail([]string{"*"}, "luatie-tap", fmt.Sprintf("cannot parse the bytes read from Redis: %v", err), nil)
		return
	}
	cmd := cmds[len(cmds)-1]
	reply := replies[len(replies)-1]
	if cmd.kind != '*' || len(cmd.arr) < 3 {
		c.fail([]string{"*"}, "luatie-tap", "last command written is not an EVAL/EVALSHA", nil)
		return
	}
	args := make([]string, len(cmd.arr))
	for i, a := range cmd.arr {
		args[i] = a.str
	}
	name := strings.ToLower(args[0])
	var sha string
	switch name {
	case "eval":
		sum := sha1.Sum([]byte(args[1]))
		sha = hex.EncodeToString(sum[:])
	case "evalsha":
		sha = strings.ToLower(args[1])
		if reply.kind == '-' && strings.HasPrefix(reply.str, "NOSCRIPT") {
			c.branch("lua:noscript-then-eval")
			return
		}
	default:
		c.fail([]string{"*"}, "luatie-tap", "last command written is "+name, nil)
		return
	}
	nk, err := strconv.Atoi(args[2])
	if err != nil || nk < 0 || 3+nk > len(args) {
		c.fail([]string{"*"}, "luatie-tap", "numkeys "+args[2], nil)
		return
	}
	keys, argv := args[3:3+nk], args[3+nk:]
	rep := ltReply(reply)
	c.emit("lua.eval %s %s %s %s %s %s", sha, ltHexList(keys), ltHexList(argv), before, rep, after)
	r.lines++
	r.counts[sha]++
	if _, ok := r.label[sha]; !ok {
		r.label[sha] = callerLabel()
	}
	c.op("lua." + name)
	if rep == "e" {
		r.errs++
		c.branch("lua:error-reply:" + r.label[sha])
		if before != after {
			c.branch("lua:error-after-writes:" + r.label[sha])
		}
	} else if before != after {
		c.branch("lua:wrote:" + r.label[sha])
	}
}

var theLuaRec *luaRec

func installLuaRec(c *Ctx) *luaRec {
	if theLuaRec == nil {
		theLuaRec = &luaRec{c: c, counts: map[string]int{}, label: map[string]string{}}
		gostatix.VerifRedisClient().AddHook(theLuaRec)
	}
	theLuaRec.c = c
	return theLuaRec
}

// the library functions that run a script; the suite must reach every one of them
var luaScriptFuncs = []string{
	"BucketRedis.isFree", "BucketRedis.add", "BucketRedis.remove", "BucketRedis.lookup", "BucketRedis.equals",
	"CountMinSketchRedis.Update", "CountMinSketchRedis.Count", "CountMinSketchRedis.compareMatrix",
	"CountMinSketchRedis.mergeMatrix", "CountMinSketchRedis.initMatrix", "CountMinSketchRedis.getMatrix",
	"CountMinSketchRedis.setMatrix", "CuckooFilterRedis.initBuckets",
	"HyperLogLogRedis.importRegisters", "HyperLogLogRedis.mergeRegisters", "HyperLogLogRedis.compareRegisters",
	"HyperLogLogRedis.computeHarmonicMean", "HyperLogLogRedis.updateRegisters", "HyperLogLogRedis.initRegisters",
	"TopKRedis.importHeap", "TopKRedis.compareHeaps",
}

// ---------------------------------------------------------------------------------------------
// suite body

func suiteLuaTie(c *Ctx) {
	c.rep.Rule = "case = one Redis-backed structure (cuckoo filter / count-min sketch / HyperLogLog / Top-K, random small configuration) with a random history of 25-60 public operations that run Lua scripts (constructor, Insert incl. evictions and full buckets, Lookup, Remove, Update, Count, Merge, Equals, Export, Import), two thirds of the histories with keys of the structure damaged behind the library's back in between (deleted, wrong type, non-numeric or non-canonical numbers, list shortened or extended); every EVAL/EVALSHA is recorded with the whole database before and after; non-trivial = history in which at least one script returned an error after the damage and at least one script wrote; distinct by (configuration, history)"
	rec := installLuaRec(c)
	rounds := c.scale(8, 60)
	for r := 0; r < rounds; r++ {
		for _, f := range []func(*Ctx, *luaRec, int){ltCuckooCase, ltCMSCase, ltHLLCase, ltTopKCase} {
			c.mr.FlushAll()
			e0, l0 := rec.errs, rec.lines
			f(c, rec, r)
			c.rep.Cases++
			if rec.errs > e0 && rec.lines-l0 >= 10 {
				c.nontrivial(fmt.Sprintf("case %d lines %d-%d", c.rep.Cases, l0, rec.lines))
			}
		}
	}
	c.mr.FlushAll()
	ltBigCases(c)
	c.mr.FlushAll()

	// per-script invocation counts
	type row struct {
		sha, label string
		n          int
	}
	var rows []row
	reached := map[string]bool{}
	for sha, n := range rec.counts {
		rows = append(rows, row{sha, rec.label[sha], n})
		reached[rec.label[sha]] = true
	}
	sort.Slice(rows, func(i, j int) bool {
		if rows[i].label != rows[j].label {
			return rows[i].label < rows[j].label
		}
		return rows[i].sha < rows[j].sha
	})
	for _, r := range rows {
		c.rep.Branches["lua:script:"+r.label+":"+r.sha] = r.n
		c.note(fmt.Sprintf("script %s (%s): %d invocations", r.sha, r.label, r.n))
	}
	c.note(fmt.Sprintf("%d invocations of %d distinct scripts recorded, %d answered with an error reply", rec.lines, len(rows), rec.errs))
	for _, f := range luaScriptFuncs {
		if !reached[f] {
			c.fail([]string{"*"}, "luatie-script-not-reached", "no invocation of the script of "+f+" was recorded", nil)
		}
	}
}

// ltRect: at least one row and one column, all rows of the same length (what Import assumes: the
// setMatrix script computes `rows = (#ARGV - 1) / columns`).
func ltRect(m [][]uint64) bool {
	if len(m) == 0 || len(m[0]) == 0 {
		return false
	}
	for _, r := range m {
		if len(r) != len(m[0]) {
			return false
		}
	}
	return true
}

func ltPick(c *Ctx, l []uint64) uint64 { return l[c.rng.Intn(len(l))] }

// damaged numbers: not numbers at all, and spellings that Lua's tonumber / Redis' integer parser
// treat differently (leading zeros, sign, blanks, hexadecimal)
var ltOddNumbers = []string{"abc", "", "007", "+2", " 3", "3 ", "0x2", "-1", "12abc", "1e3", "\xff\x00", "99999"}

// ltDamage changes one of the given keys behind the library's back.
func ltDamage(c *Ctx, what string, keys []string, numeric bool) {
	if len(keys) == 0 {
		c.branch("damage@" + what + ":no-keys")
		return
	}
	c.branch("damage@" + what)
	k := keys[c.rng.Intn(len(keys))]
	typ := c.mr.Type(k)
	switch c.rng.Intn(7) {
	case 0: // key deleted
		c.mr.Del(k)
		c.branch("damage:deleted")
	case 1: // wrong type
		c.mr.Del(k)
		switch c.rng.Intn(3) {
		case 0:
			c.mr.Set(k, ltOddNumbers[c.rng.Intn(len(ltOddNumbers))])
		case 1:
			c.mr.HSet(k, "f", "v")
		default:
			if typ == "list" {
				c.mr.ZAdd(k, 3, "m")
			} else {
				c.mr.RPush(k, "1", "2")
			}
		}
		c.branch("damage:wrong-type")
	case 2, 3: // odd entries
		switch typ {
		case "list":
			l, _ := c.mr.List(k)
			if len(l) > 0 {
				c.mr.Del(k)
				for n := 1 + c.rng.Intn(2); n > 0; n-- {
					l[c.rng.Intn(len(l))] = ltOddNumbers[c.rng.Intn(len(ltOddNumbers))]
				}
				c.mr.RPush(k, l...)
			}
		case "string":
			c.mr.Set(k, ltOddNumbers[c.rng.Intn(len(ltOddNumbers))])
		case "zset":
			c.mr.ZAdd(k, float64(c.rng.Intn(5)), "intruder")
		}
		c.branch("damage:odd-entries")
	case 4: // list too short
		if typ == "list" {
			l, _ := c.mr.List(k)
			c.mr.Del(k)
			if n := c.rng.Intn(len(l) + 1); n > 0 {
				c.mr.RPush(k, l[:n]...)
			}
		} else {
			c.mr.Del(k)
		}
		c.branch("damage:too-short")
	case 5: // list too long
		if typ == "list" {
			if numeric {
				c.mr.RPush(k, "5", "0")
			} else {
				c.mr.RPush(k, "", "77")
			}
		} else if typ == "string" {
			v, _ := c.mr.Get(k)
			c.mr.Set(k, v+"0")
		}
		c.branch("damage:too-long")
	default: // numbers changed to other valid numbers
		switch typ {
		case "list":
			l, _ := c.mr.List(k)
			if len(l) > 0 {
				c.mr.Del(k)
				if numeric {
					l[c.rng.Intn(len(l))] = strconv.Itoa(c.rng.Intn(300))
				} else {
					l[c.rng.Intn(len(l))] = ""
				}
				c.mr.RPush(k, l...)
			}
		case "string":
			c.mr.Set(k, strconv.Itoa(c.rng.Intn(6)-1))
		}
		c.branch("damage:valid-change")
	}
}

func ltKeysWithPrefix(c *Ctx, prefix string) []string {
	var out []string
	for _, k := range c.mr.Keys() {
		if strings.HasPrefix(k, prefix) {
			out = append(out, k)
		}
	}
	return out
}

// ---- cuckoo filter

func ltCuckooCase(c *Ctx, rec *luaRec, round int) {
	n := ltPick(c, []uint64{1, 2, 3, 4, 6})
	b := ltPick(c, []uint64{1, 2, 3, 4})
	fpl := ltPick(c, []uint64{1, 2, 3})
	retries := ltPick(c, []uint64{0, 1, 3, 8})
	f, err := gostatix.NewCuckooFilterRedisWithRetries(n, b, fpl, retries)
	if err != nil || f == nil {
		c.fail([]string{"*"}, "luatie-setup", fmt.Sprintf("cuckoo constructor: %v", err), nil)
		return
	}
	damaged := round%3 != 0
	pool := elemPool(c.rng, int(n*b)+4, false)
	var others []*gostatix.CuckooFilterRedis
	ops := 25 + c.rng.Intn(35)
	for i := 0; i < ops; i++ {
		e := pool[c.rng.Intn(len(pool))]
		if damaged && c.rng.Intn(6) == 0 {
			ltDamage(c, "cuckoo", ltKeysWithPrefix(c, "cuckoo_"+f.Key()+"_bucket_"), false)
			if c.rng.Intn(2) == 0 {
				// the bucket comparison script on the damaged buckets
				c.op("cuckoo.Equals")
				safely(func() { f.Equals(*f) })
			}
			continue
		}
		switch x := c.rng.Intn(18); {
		case x < 8:
			c.op("cuckoo.Insert")
			res := safely(func() { f.Insert(e, c.rng.Intn(2) == 0) })
			if res.panicked {
				c.branch("cuckoo:insert-full")
			}
		case x < 11:
			c.op("cuckoo.Lookup")
			f.Lookup(e)
		case x < 14:
			c.op("cuckoo.Remove")
			f.Remove(e)
		case x < 16:
			// a copy under new keys (Import runs the init script), compared both ways
			c.op("cuckoo.Export/Import")
			data, err := f.Export()
			if err == nil {
				g, err2 := gostatix.NewCuckooFilterRedisWithRetries(n, b, fpl, retries)
				if err2 == nil && safely(func() { err2 = g.Import(data, true) }).panicked == false && err2 == nil {
					others = append(others, g)
				}
			}
		default:
			c.op("cuckoo.Equals")
			if len(others) > 0 {
				g := others[c.rng.Intn(len(others))]
				safely(func() { f.Equals(*g) })
				safely(func() { g.Equals(*f) })
			} else {
				safely(func() { f.Equals(*f) })
			}
		}
	}
}

// ---- count-min sketch

func ltCMSCase(c *Ctx, rec *luaRec, round int) {
	rows := uint(1 + c.rng.Intn(4))
	cols := uint(1 + c.rng.Intn(6))
	s, err := gostatix.NewCountMinSketchRedis(rows, cols)
	if err != nil || s == nil {
		c.fail([]string{"*"}, "luatie-setup", fmt.Sprintf("cms constructor: %v", err), nil)
		return
	}
	t, _ := gostatix.NewCountMinSketchRedis(rows, cols)
	damaged := round%3 != 0
	pool := elemPool(c.rng, 8, false)
	all := []*gostatix.CountMinSketchRedis{s, t}
	rowKeys := func() []string {
		data, err := s.Export()
		d, err := parseCMS(data, err)
		if err != nil {
			return nil
		}
		return ltKeysWithPrefix(c, d.K)
	}
	keyOf := func(x *gostatix.CountMinSketchRedis) string {
		vals := c.mr.HGet(x.MetadataKey(), "key")
		return vals
	}
	ops := 25 + c.rng.Intn(30)
	for i := 0; i < ops; i++ {
		a := all[c.rng.Intn(len(all))]
		e := pool[c.rng.Intn(len(pool))]
		if damaged && c.rng.Intn(7) == 0 {
			ks := rowKeys()
			if c.rng.Intn(2) == 0 {
				ks = ltKeysWithPrefix(c, keyOf(t))
			}
			ltDamage(c, "cms", ks, true)
			continue
		}
		switch x := c.rng.Intn(18); {
		case x < 6:
			c.op("cms.Update")
			a.Update(e, uint64(1+c.rng.Intn(50)))
		case x < 9:
			c.op("cms.Count")
			a.Count(e)
		case x < 11:
			c.op("cms.Merge")
			b := all[c.rng.Intn(len(all))]
			a.Merge(b)
		case x < 13:
			c.op("cms.Equals")
			b := all[c.rng.Intn(len(all))]
			a.Equals(b)
		case x < 15:
			c.op("cms.Export")
			a.Export()
		case x < 17:
			c.op("cms.Import")
			data, err := a.Export()
			if err == nil {
				d, err := parseCMS(data, nil)
				if err == nil && ltRect(d.M) {
					// sometimes other counters, fewer rows than announced
					if c.rng.Intn(2) == 0 {
						d.M[c.rng.Intn(len(d.M))][c.rng.Intn(len(d.M[0]))] = uint64(c.rng.Intn(1000))
					}
					if c.rng.Intn(4) == 0 && len(d.M) > 1 {
						d.M = d.M[:len(d.M)-1]
					}
					doc, _ := json.Marshal(d)
					g, _ := gostatix.NewCountMinSketchRedis(rows, cols)
					if g != nil {
						safely(func() { g.Import(doc, c.rng.Intn(2) == 0) })
						if len(all) < 4 {
							all = append(all, g)
						}
					}
				}
			}
		default:
			c.op("cms.Count")
			a.Count(e)
		}
	}
}

// ---- HyperLogLog

func ltHLLCase(c *Ctx, rec *luaRec, round int) {
	m := ltPick(c, []uint64{2, 4, 8, 16, 32})
	h, err := gostatix.NewHyperLogLogRedis(m)
	if err != nil || h == nil {
		c.fail([]string{"*"}, "luatie-setup", fmt.Sprintf("hll constructor: %v", err), nil)
		return
	}
	g, _ := gostatix.NewHyperLogLogRedis(m)
	all := []*gostatix.HyperLogLogRedis{h, g}
	damaged := round%3 != 0
	keyOf := func(x *gostatix.HyperLogLogRedis) string { return c.mr.HGet(x.MetadataKey(), "key") }
	var lastDoc []byte
	ops := 25 + c.rng.Intn(30)
	for i := 0; i < ops; i++ {
		a := all[c.rng.Intn(len(all))]
		e := randBytes(c.rng, 1+c.rng.Intn(8))
		if damaged && c.rng.Intn(7) == 0 {
			ltDamage(c, "hll", []string{keyOf(all[c.rng.Intn(2)])}, true)
			if lastDoc != nil && c.rng.Intn(3) == 0 {
				// re-import an earlier document into its own (possibly damaged) key
				c.op("hll.Import")
				safely(func() { a.Import(lastDoc, false) })
			}
			continue
		}
		switch x := c.rng.Intn(18); {
		case x < 7:
			c.op("hll.Update")
			a.Update(e)
		case x < 9:
			c.op("hll.Count")
			a.Count(c.rng.Intn(2) == 0, c.rng.Intn(2) == 0)
		case x < 12:
			c.op("hll.Merge")
			a.Merge(all[c.rng.Intn(len(all))])
		case x < 14:
			c.op("hll.Equals")
			a.Equals(all[c.rng.Intn(len(all))])
		case x < 17:
			c.op("hll.Import")
			var data []byte
			var err error
			if safely(func() { data, err = a.Export() }).panicked || err != nil {
				break
			}
			d, err := parseHLL(data, nil)
			if err != nil {
				break
			}
			if c.rng.Intn(2) == 0 && len(d.R) > 0 {
				d.R[c.rng.Intn(len(d.R))] = uint8(c.rng.Intn(40))
			}
			doc, _ := json.Marshal(d)
			lastDoc = doc
			n, _ := gostatix.NewHyperLogLogRedis(m)
			if n != nil {
				// withNewKey=false appends to the exported key's list
				safely(func() { n.Import(doc, c.rng.Intn(3) != 0) })
				if len(all) < 4 {
					all = append(all, n)
				}
			}
		default:
			c.op("hll.Update")
			a.Update(e)
		}
	}
}

// ---- Top-K

func ltTopKCase(c *Ctx, rec *luaRec, round int) {
	k := uint(1 + c.rng.Intn(4))
	er := []float64{0.5, 0.9, 0.3}[c.rng.Intn(3)]  // columns = ceil(e/er): 6, 4, 10
	acc := []float64{0.5, 0.2, 0.1}[c.rng.Intn(3)] // rows = ceil(ln(1/acc)): 1, 2, 3
	t := gostatix.NewTopKRedis(k, er, acc)
	if t == nil {
		c.fail([]string{"*"}, "luatie-setup", "topk constructor returned nil", nil)
		return
	}
	all := []*gostatix.TopKRedis{t}
	damaged := round%3 != 0
	pool := elemPool(c.rng, 7, c.rng.Intn(2) == 0)
	var lastDoc []byte
	ops := 25 + c.rng.Intn(25)
	for i := 0; i < ops; i++ {
		a := all[c.rng.Intn(len(all))]
		e := pool[c.rng.Intn(len(pool))]
		if damaged && c.rng.Intn(7) == 0 {
			var ks []string
			for _, k := range c.mr.Keys() {
				if tp := c.mr.Type(k); tp == "zset" || tp == "list" {
					ks = append(ks, k)
				}
			}
			badHeap := ""
			var heaps []string
			for _, k := range ks {
				if c.mr.Type(k) == "zset" {
					heaps = append(heaps, k)
				}
			}
			if len(heaps) > 0 && c.rng.Intn(3) == 0 {
				// a heap key that is not a sorted set any more
				k := heaps[c.rng.Intn(len(heaps))]
				c.mr.Del(k)
				c.mr.RPush(k, "1", "2")
				badHeap = k
				c.branch("damage@topk")
				c.branch("damage:wrong-type")
			} else {
				ltDamage(c, "topk", ks, true)
			}
			switch c.rng.Intn(3) {
			case 0:
				// heap comparison on a possibly damaged heap key (the sketches compare equal)
				c.op("topk.Equals")
				safely(func() { a.Equals(a) })
			case 1:
				// re-import an earlier document into its own (possibly damaged) heap key
				if lastDoc != nil {
					c.op("topk.Export/Import")
					doc := lastDoc
					if d, err := parseTopK(lastDoc, nil); err == nil && badHeap != "" {
						d.HK = badHeap // ... or into the heap key just damaged
						doc, _ = json.Marshal(d)
					}
					safely(func() { a.Import(doc, false) })
				}
			}
			continue
		}
		switch x := c.rng.Intn(18); {
		case x < 9:
			c.op("topk.Insert")
			safely(func() { a.Insert(e, uint64(1+c.rng.Intn(9))) })
		case x < 13:
			// a copy under new keys: importHeap + constructor + setMatrix
			c.op("topk.Export/Import")
			var data []byte
			var err error
			if safely(func() { data, err = a.Export() }).panicked || err != nil {
				break
			}
			d, err := parseTopK(data, nil)
			if err != nil || !ltRect(d.S.M) {
				// Import would panic on an empty matrix; a ragged one (exported from a damaged
				// sketch) makes `(#ARGV - 1) / columns` fractional: outside the interpreter's integers
				c.branch("topk:import-skipped-non-rectangular")
				break
			}
			if c.rng.Intn(3) == 0 && len(d.H) > 0 {
				d.H[c.rng.Intn(len(d.H))].F = uint64(c.rng.Intn(100))
				data, _ = json.Marshal(d)
			}
			lastDoc = data
			u := gostatix.NewTopKRedis(k, er, acc)
			if u != nil {
				// withNewKey=false writes into the exported heap key
				safely(func() { u.Import(data, c.rng.Intn(3) != 0) })
				if len(all) < 4 {
					all = append(all, u)
				}
			}
		case x < 17:
			c.op("topk.Equals")
			b := all[c.rng.Intn(len(all))]
			safely(func() { a.Equals(b) })
		default:
			c.op("topk.Insert")
			safely(func() { a.Insert(e, 1) })
		}
	}
}

// ---- the data stack limit of unpack (gopher-lua: 5120 slots, no growth under miniredis)

func ltBigCases(c *Ctx) {
	// count-min rows of 4500 counters: init / merge / import work ...
	if s, err := gostatix.NewCountMinSketchRedis(2, 4500); err == nil && s != nil {
		c.op("big.cms")
		s.Update([]byte("a"), 3)
		s.Merge(s)
		if data, err := s.Export(); err == nil {
			g, _ := gostatix.NewCountMinSketchRedis(1, 1)
			if g != nil {
				g.Import(data, true)
			}
		}
	}
	c.mr.FlushAll()
	// ... rows of 5200 counters do not: `unpack` overflows the stack after the DEL
	if s, err := gostatix.NewCountMinSketchRedis(2, 5200); err == nil && s != nil {
		c.op("big.cms-overflow")
		s.Update([]byte("a"), 3)
		s.Count([]byte("a"))
	}
	// importing a document with such rows: setMatrix deletes the row, then `unpack` overflows
	if g, err := gostatix.NewCountMinSketchRedis(1, 2); err == nil && g != nil {
		c.op("big.cms-overflow")
		row := make([]uint64, 5200)
		for i := range row {
			row[i] = uint64(i % 7)
		}
		doc, _ := json.Marshal(cmsDoc{R: 2, C: 5200, S: 0, M: [][]uint64{row, row}, K: c.mr.HGet(g.MetadataKey(), "key")})
		g.Update([]byte("a"), 1)
		safely(func() { g.Import(doc, false) })
	}
	c.mr.FlushAll()
	// HyperLogLog with 8192 registers: init pushes 4096 twice (works); merge and import unpack 8192
	if h, err := gostatix.NewHyperLogLogRedis(8192); err == nil && h != nil {
		c.op("big.hll")
		g, _ := gostatix.NewHyperLogLogRedis(8192)
		h.Update([]byte("x"))
		if g != nil {
			g.Update([]byte("y"))
			h.Equals(g)
			h.Merge(g)
			h.Equals(g)
			if data, err := g.Export(); err == nil {
				g.Import(data, false)
			}
		}
	}
	c.mr.FlushAll()
	if h, err := gostatix.NewHyperLogLogRedis(4096); err == nil && h != nil {
		c.op("big.hll")
		g, _ := gostatix.NewHyperLogLogRedis(4096)
		h.Update([]byte("x"))
		if g != nil {
			g.Update([]byte("y"))
			h.Merge(g)
			if data, err := h.Export(); err == nil {
				g.Import(data, true)
			}
		}
	}
	c.mr.FlushAll()
	// 16384 registers: already the init script overflows
	if h, err := gostatix.NewHyperLogLogRedis(16384); err == nil && h != nil {
		c.op("big.hll-overflow")
		h.Update([]byte("x"))
	}
}
