package main

import (
	"encoding/base64"
	"encoding/binary"
	"encoding/json"
	"fmt"
	"math/rand"
	"strings"

	"github.com/kwertop/gostatix"
)

// suite "equals": C17.  Pairs of structures of the same kind: identical histories, one extra
// operation, one stored entry mutated at the first / middle / last position (crafted through
// Import), parameters differing in one dimension.  Oracle: Equals(a,b) == Equals(b,a) ==
// (parameters and payload of a and b are identical), never a panic.

type eqKind struct {
	name    string
	redis   bool
	build   func(c *Ctx, variant int) interface{}  // variant 0 = base parameters, >0 = one parameter changed
	feed    func(c *Ctx, o interface{}, ops []int) // apply a history (indices into a fixed pool)
	export  func(o interface{}) ([]byte, error)
	imp     func(c *Ctx, doc []byte) (interface{}, error) // fresh instance + Import (Redis: new keys)
	impInto func(h interface{}, doc []byte) error         // Redis kinds: Import under new keys into an EXISTING handle
	// impInPlace: Import into an existing handle of either backend
	impInPlace func(h interface{}, doc []byte) error
	equals  func(a, b interface{}) (bool, error)
	absStr  func(o interface{}) (string, error)              // canonical parameters+payload
	eqArgs  func(o interface{}) (string, error)              // argument block of the driver line
	mutate  func(doc map[string]interface{}, where int) bool // where: 0 first, 1 middle, 2 last
	nparams int
}

var eqPool = [][]byte{[]byte("a"), []byte("b"), []byte("c"), []byte("dd"), []byte("eee"), []byte("0123456789abcdefg"), []byte("x1"), []byte("y2"), []byte("z3"), []byte("q"),
	// names that escaping schemes treat specially (valid UTF-8: invalid names are finding D23)
	[]byte("c++"), []byte("1+1=2%41"), []byte("a/b\\c\"q\""), []byte("caf\xc3\xa9"),
	// names that read as the same number, and one longer than any small-buffer threshold
	[]byte("3"), []byte("003"), []byte("3.0"), []byte("0123456789012345678901234567890123456789012345678901234567890123456789")}

func init() { register("equals", suiteEquals) }

func jsonNum(v interface{}) uint64 {
	switch x := v.(type) {
	case json.Number:
		n, _ := x.Int64()
		return uint64(n)
	case float64:
		return uint64(x)
	}
	return 0
}

func pickIdx(n, where int) int {
	switch where {
	case 0:
		return 0
	case 1:
		return n / 2
	default:
		return n - 1
	}
}

// ---- CMS ---------------------------------------------------------------------------------------

func eqCMS(redis bool) eqKind { return eqCMSFam(redis, 0) }

// eqCMSSquare: as many rows as columns (rows and columns can be told apart only by position)
func eqCMSSquare(redis bool) eqKind { return eqCMSFam(redis, 1) }

func eqCMSFam(redis bool, fam int) eqKind {
	name := "cms.mem"
	if redis {
		name = "cms.redis"
	}
	dims := [][2]uint{{3, 5}, {3, 6}, {4, 5}, {12, 4}} // the last one: more rows than one decimal digit counts
	if fam == 1 {
		dims = [][2]uint{{4, 4}, {4, 5}, {5, 4}, {5, 5}}
	}
	return eqKind{
		name: name, redis: redis, nparams: 3,
		build: func(c *Ctx, v int) interface{} { h, _ := newCMS(dims[v][0], dims[v][1], redis); return h },
		feed: func(c *Ctx, o interface{}, ops []int) {
			for _, j := range ops {
				o.(cmsHandle).Update(eqPool[j%len(eqPool)], uint64(1+j%3))
			}
		},
		export: func(o interface{}) ([]byte, error) { return o.(cmsHandle).Export() },
		imp: func(c *Ctx, doc []byte) (interface{}, error) {
			if redis {
				s, err := gostatix.NewCountMinSketchRedis(1, 1)
				if err != nil {
					return nil, err
				}
				return cmsRedis{s}, s.Import(doc, true)
			}
			s, _ := gostatix.NewCountMinSketch(1, 1)
			return cmsMem{s}, s.Import(doc)
		},
		impInto: func(h interface{}, doc []byte) error {
			if m, ok := h.(*cmsMulti); ok {
				// the other handles of the wrapper stay attached to the keys the sketch had before
				// (Import does not rewrite the metadata hash, finding D25): only this one goes on
				m.hs, m.frozen = m.hs[:1], true
			}
			if u := cmsUnder(h.(cmsHandle)); u != nil {
				return u.Import(doc, true)
			}
			return fmt.Errorf("not a redis handle")
		},
		equals: func(a, b interface{}) (bool, error) { return a.(cmsHandle).Equals(b.(cmsHandle)) },
		absStr: func(o interface{}) (string, error) {
			d, err := parseCMS(o.(cmsHandle).Export())
			return fmt.Sprintf("%d %d %s", d.R, d.C, matrixStr(d.M)), err
		},
		eqArgs: func(o interface{}) (string, error) {
			d, err := parseCMS(o.(cmsHandle).Export())
			return fmt.Sprintf("%d %d %s", d.R, d.C, matrixStr(d.M)), err
		},
		mutate: func(doc map[string]interface{}, where int) bool {
			m := doc["m"].([]interface{})
			r := pickIdx(len(m), where)
			row := m[r].([]interface{})
			ci := pickIdx(len(row), where)
			row[ci] = json.Number(fmt.Sprint(jsonNum(row[ci]) + 1))
			return true
		},
	}
}

// ---- HLL ---------------------------------------------------------------------------------------

func eqHLL(redis bool) eqKind {
	name := "hll.mem"
	if redis {
		name = "hll.redis"
	}
	ms := []uint64{128, 256}
	return eqKind{
		name: name, redis: redis, nparams: 1,
		build: func(c *Ctx, v int) interface{} { h, _ := newHLL(ms[v], redis); return h },
		feed: func(c *Ctx, o interface{}, ops []int) {
			for _, j := range ops {
				o.(hllHandle).Update(eqPool[j%len(eqPool)])
			}
		},
		export: func(o interface{}) ([]byte, error) { return o.(hllHandle).Export() },
		imp: func(c *Ctx, doc []byte) (interface{}, error) {
			if redis {
				h, err := gostatix.NewHyperLogLogRedis(2)
				if err != nil {
					return nil, err
				}
				return hllRedis{h}, h.Import(doc, true)
			}
			h, _ := gostatix.NewHyperLogLog(2)
			return hllMem{h}, h.Import(doc)
		},
		impInto: func(h interface{}, doc []byte) error {
			if m, ok := h.(*hllMulti); ok {
				m.hs, m.frozen = m.hs[:1], true
			}
			if u := hllUnder(h.(hllHandle)); u != nil {
				return u.Import(doc, true)
			}
			return fmt.Errorf("not a redis handle")
		},
		impInPlace: func(h interface{}, doc []byte) error {
			if x, ok := h.(hllMem); ok {
				return x.h.Import(doc)
			}
			if m, ok := h.(*hllMulti); ok {
				m.hs, m.frozen = m.hs[:1], true
			}
			if u := hllUnder(h.(hllHandle)); u != nil {
				return u.Import(doc, true)
			}
			return fmt.Errorf("unknown handle")
		},
		equals: func(a, b interface{}) (bool, error) { return a.(hllHandle).Equals(b.(hllHandle)) },
		absStr: func(o interface{}) (string, error) {
			d, err := parseHLL(o.(hllHandle).Export())
			return fmt.Sprintf("%d %s", d.NR, natList(d.regs())), err
		},
		eqArgs: func(o interface{}) (string, error) {
			d, err := parseHLL(o.(hllHandle).Export())
			return fmt.Sprintf("%d %s", d.NR, natList(d.regs())), err
		},
		mutate: func(doc map[string]interface{}, where int) bool {
			raw, err := base64.StdEncoding.DecodeString(doc["r"].(string))
			if err != nil || len(raw) == 0 {
				return false
			}
			i := pickIdx(len(raw), where)
			raw[i] ^= 1
			doc["r"] = base64.StdEncoding.EncodeToString(raw)
			return true
		},
	}
}

// ---- Bloom -------------------------------------------------------------------------------------

func eqBloom(redis bool) eqKind {
	name := "bloom.mem"
	if redis {
		name = "bloom.redis"
	}
	cfgs := []bloomCfg{
		{kind: "params", numItems: 8, errorRate: 0.2}, // 27 bits, 3 hashes: dense after a few inserts
		{kind: "params", numItems: 9, errorRate: 0.2}, // other size
		{kind: "bitset", words: 2, numHashes: 3},
	}
	return eqKind{
		name: name, redis: redis, nparams: 2,
		build: func(c *Ctx, v int) interface{} {
			cfg := cfgs[v]
			cfg.redis = redis
			f, _ := cfg.build()
			return f
		},
		feed: func(c *Ctx, o interface{}, ops []int) {
			for _, j := range ops {
				o.(*gostatix.BloomFilter).Insert(eqPool[j%len(eqPool)])
			}
		},
		export: func(o interface{}) ([]byte, error) { return o.(*gostatix.BloomFilter).Export() },
		imp: func(c *Ctx, doc []byte) (interface{}, error) {
			cfg := bloomCfg{kind: "params", numItems: 3, errorRate: 0.3, redis: redis}
			f, err := cfg.build()
			if err != nil {
				return nil, err
			}
			return f, f.Import(doc)
		},
		equals: func(a, b interface{}) (bool, error) {
			return a.(*gostatix.BloomFilter).Equals(b.(*gostatix.BloomFilter))
		},
		absStr: func(o interface{}) (string, error) {
			a, err := bloomAbs(o.(*gostatix.BloomFilter), redis)
			if redis {
				return fmt.Sprintf("%d %d %s", a.Size, a.K, hexStr(a.Raw)), err
			}
			return fmt.Sprintf("%d %d %d %s", a.Size, a.K, a.BsLen, natList(a.Words)), err
		},
		eqArgs: func(o interface{}) (string, error) {
			a, err := bloomAbs(o.(*gostatix.BloomFilter), redis)
			if redis {
				return fmt.Sprintf("%d %d %s", a.Size, a.K, hexStr(a.Raw)), err
			}
			return fmt.Sprintf("%d %d %d %s", a.Size, a.K, a.BsLen, natList(a.Words)), err
		},
		mutate: func(doc map[string]interface{}, where int) bool {
			outer, err := base64.StdEncoding.DecodeString(doc["b"].(string))
			if err != nil {
				return false
			}
			var s string
			if json.Unmarshal(outer, &s) != nil {
				return false
			}
			raw, err := base64.URLEncoding.DecodeString(s)
			if err != nil || len(raw) <= 8 {
				return false
			}
			nbits := binary.BigEndian.Uint64(raw[:8])
			body := raw[8:]
			if redis {
				// body = reversed, bit-reversed redis string; flip a bit inside the first `size` bits:
				// redis bit n is body[len-1-n/8] bit (n%8) after the double reversal
				n := uint64(pickIdx(int(nbits), where))
				bi := len(body) - 1 - int(n/8)
				if bi < 0 {
					return false
				}
				body[bi] ^= 1 << (n % 8)
			} else {
				n := uint64(pickIdx(int(nbits), where))
				w := n / 64
				off := 8*int(w) + 7 - int((n%64)/8)
				if off >= len(body) {
					return false
				}
				body[off] ^= 1 << (n % 8)
			}
			inner, _ := json.Marshal(base64.URLEncoding.EncodeToString(raw))
			doc["b"] = base64.StdEncoding.EncodeToString(inner)
			return true
		},
	}
}

// ---- Cuckoo ------------------------------------------------------------------------------------

func eqCuckoo(redis bool) eqKind {
	name := "cuckoo.mem"
	if redis {
		name = "cuckoo.redis"
	}
	cfgs := []cuckooCfg{
		{n: 2, b: 4, fpl: 3, retries: 10},
		{n: 4, b: 4, fpl: 3, retries: 10},
		{n: 2, b: 8, fpl: 3, retries: 10},
		{n: 2, b: 4, fpl: 4, retries: 10},
		{n: 2, b: 4, fpl: 3, retries: 11},
		{n: 2, b: 12, fpl: 3, retries: 10}, // two-digit bucket size
		{n: 2, b: 4, fpl: 3, retries: 0},   // a zero that is a value, not an omission
	}
	return eqKind{
		name: name, redis: redis, nparams: 6,
		build: func(c *Ctx, v int) interface{} {
			cfg := cfgs[v]
			cfg.redis = redis
			h, _ := cfg.build()
			return h
		},
		feed: func(c *Ctx, o interface{}, ops []int) {
			for _, j := range ops {
				e := eqPool[j%len(eqPool)]
				h := o.(cuckooHandle)
				if j%4 == 3 {
					if ok, _ := h.Lookup(e); ok {
						h.Remove(e)
						continue
					}
				}
				rand.Seed(int64(j) + 7)
				safely(func() { h.Insert(e, false) })
			}
		},
		export: func(o interface{}) ([]byte, error) { return o.(cuckooHandle).Export() },
		imp: func(c *Ctx, doc []byte) (interface{}, error) {
			if redis {
				f, err := gostatix.NewCuckooFilterRedis(1, 1, 1)
				if err != nil {
					return nil, err
				}
				return cuckooRedis{f}, f.Import(doc, true)
			}
			f := gostatix.NewCuckooFilter(1, 1, 1)
			return cuckooMem{f}, f.Import(doc)
		},
		impInto: func(h interface{}, doc []byte) error {
			if x, ok := h.(cuckooRedis); ok {
				return x.f.Import(doc, true)
			}
			return fmt.Errorf("not a redis handle")
		},
		equals: func(a, b interface{}) (bool, error) {
			if redis {
				return a.(cuckooRedis).f.Equals(*b.(cuckooRedis).f)
			}
			return a.(cuckooMem).f.Equals(b.(cuckooMem).f), nil
		},
		absStr: func(o interface{}) (string, error) {
			d, err := parseCuckoo(o.(cuckooHandle).Export())
			return fmt.Sprintf("%d %d %d %d %d %s", d.S, d.BS, d.FPL, d.R, d.L, d.bucketsStr()), err
		},
		eqArgs: func(o interface{}) (string, error) {
			d, err := parseCuckoo(o.(cuckooHandle).Export())
			return fmt.Sprintf("%d %d %d %d %d %s", d.S, d.BS, d.FPL, d.R, d.L, d.bucketsStr()), err
		},
		mutate: func(doc map[string]interface{}, where int) bool {
			// change one stored fingerprint (non-empty -> other non-empty), first/middle/last occupied slot
			type loc struct{ b, s int }
			var locs []loc
			bs := doc["b"].([]interface{})
			for bi := range bs {
				es, _ := bs[bi].(map[string]interface{})["e"].([]interface{})
				for si := range es {
					if es[si].(string) != "" {
						locs = append(locs, loc{bi, si})
					}
				}
			}
			if len(locs) == 0 {
				return false
			}
			l := locs[pickIdx(len(locs), where)]
			es := bs[l.b].(map[string]interface{})["e"].([]interface{})
			old := es[l.s].(string)
			last := old[len(old)-1]
			nl := byte('0' + (last-'0'+1)%10)
			es[l.s] = old[:len(old)-1] + string(nl)
			return true
		},
	}
}

// ---- Top-K -------------------------------------------------------------------------------------

func eqTopK(redis bool) eqKind { return eqTopKFam(redis, 0) }

// eqTopKRates: error rate and accuracy that are computed values (no short decimal text)
func eqTopKRates(redis bool) eqKind { return eqTopKFam(redis, 1) }

// eqTopKSquare: parameters that give a sketch with as many rows as columns
func eqTopKSquare(redis bool) eqKind { return eqTopKFam(redis, 2) }

func eqTopKFam(redis bool, fam int) eqKind {
	name := "topk.mem"
	if redis {
		name = "topk.redis"
	}
	type cfg struct {
		k       uint
		er, acc float64
	}
	cfgs := []cfg{{3, 0.5, 0.2}, {4, 0.5, 0.2}, {3, 0.6, 0.2}, {3, 0.5, 0.25}}
	if fam == 2 {
		// a square sketch inside (6 x 6)
		cfgs = []cfg{{3, 0.5, 0.003}, {4, 0.5, 0.003}, {3, 0.6, 0.003}, {3, 0.5, 0.0031}}
	}
	if fam == 1 {
		cfgs = []cfg{{3, 1.0 / 3, 0.7 / 3}, {4, 1.0 / 3, 0.7 / 3}, {3, 1.0 / 3 * (1 + 1e-9), 0.7 / 3}, {3, 1.0 / 3, 0.7 / 3 * (1 - 1e-9)}}
	}
	return eqKind{
		name: name, redis: redis, nparams: 3,
		build: func(c *Ctx, v int) interface{} { return newTopK(cfgs[v].k, cfgs[v].er, cfgs[v].acc, redis) },
		feed: func(c *Ctx, o interface{}, ops []int) {
			for _, j := range ops {
				cnt := uint64(1 + j%3)
				if !redis && j%13 == 5 {
					cnt = 1<<53 + 1 // in memory the counts are uint64s: not every one of them is a float64
				}
				o.(topkHandle).Insert(eqPool[j%len(eqPool)], cnt)
			}
		},
		export: func(o interface{}) ([]byte, error) { return o.(topkHandle).Export() },
		imp: func(c *Ctx, doc []byte) (interface{}, error) {
			if redis {
				t := gostatix.NewTopKRedis(1, 1, 0.5)
				if t == nil {
					return nil, fmt.Errorf("constructor returned nil")
				}
				return topkRedis{t}, t.Import(doc, true)
			}
			t := gostatix.NewTopK(1, 1, 0.5)
			return topkMem{t}, t.Import(doc)
		},
		impInto: func(h interface{}, doc []byte) error {
			if m, ok := h.(*topkMulti); ok {
				m.hs, m.frozen = m.hs[:1], true
			}
			if u := topkUnder(h); u != nil {
				return u.Import(doc, true)
			}
			return fmt.Errorf("not a redis handle")
		},
		equals: func(a, b interface{}) (bool, error) {
			if redis {
				return topkUnder(a).Equals(topkUnder(b))
			}
			return a.(topkMem).t.Equals(b.(topkMem).t)
		},
		absStr: func(o interface{}) (string, error) {
			d, err := parseTopK(o.(topkHandle).Export())
			return fmt.Sprintf("%d %d %d %d %d %s %s", d.K, f64bits(d.ER), f64bits(d.A), d.S.R, d.S.C, matrixStr(d.S.M), heapStr(d.H)), err
		},
		eqArgs: func(o interface{}) (string, error) {
			d, err := parseTopK(o.(topkHandle).Export())
			return fmt.Sprintf("%d %d %d %d %d %s %s", d.K, f64bits(d.ER), f64bits(d.A), d.S.R, d.S.C, matrixStr(d.S.M), heapStr(d.H)), err
		},
		mutate: func(doc map[string]interface{}, where int) bool {
			h, _ := doc["h"].([]interface{})
			if len(h) == 0 {
				return false
			}
			e := h[pickIdx(len(h), where)].(map[string]interface{})
			if where == 1 {
				e["v"] = e["v"].(string) + "Z" // another tracked element, same count
			} else {
				e["f"] = json.Number(fmt.Sprint(jsonNum(e["f"]) + 1))
			}
			return true
		},
	}
}

func suiteEquals(c *Ctx) {
	c.rep.Rule = "case = a pair of structures of one kind (10 kinds = 5 structures x 2 backends): identical histories / one extra operation / one stored entry mutated at first, middle, last position through a crafted Import / one parameter changed; both argument orders; non-trivial = pair with non-empty payload that is not identical; distinct by (kind, relation, history)"
	kinds := []eqKind{eqCMS(false), eqCMS(true), eqHLL(false), eqHLL(true), eqBloom(false), eqBloom(true), eqCuckoo(false), eqCuckoo(true), eqTopK(false), eqTopK(true), eqTopKRates(false), eqTopKRates(true), eqCMSSquare(false), eqCMSSquare(true), eqTopKSquare(false), eqTopKSquare(true)}
	rounds := c.scale(12, 120)
	for r := 0; r < rounds; r++ {
		for _, k := range kinds {
			equalsKind(c, k)
		}
	}
	equalsCuckooHoles(c, false)
	equalsCuckooHoles(c, true)
	equalsNumericNames(c, false)
	equalsNumericNames(c, true)
	equalsCuckooDuplicates(c, false)
	equalsCuckooDuplicates(c, true)
	equalsTopKSeparators(c)
	for r := 0; r < c.scale(6, 40); r++ {
		for _, redis := range []bool{false, true} {
			equalsBuiltByMerge(c, eqHLL(redis))
			equalsBuiltByMerge(c, eqCMS(redis))
		}
	}
}

// equalsNumericNames: element names are byte strings.  Two names that are different spellings of one
// number ("3" / "003" / "3.0" / "+3" / "0x3" / "3e0") and share their sketch cell, inserted in the
// two possible orders into k = 1 structures: identical sketches, different tracked element.
func equalsNumericNames(c *Ctx, redis bool) {
	k := eqTopK(redis)
	rows, cols := topkDims(0.1, 0.9)
	found := 0
	for n := 0; n < 400 && found < 3; n++ {
		forms := []string{fmt.Sprint(n), fmt.Sprintf("0%d", n), fmt.Sprintf("00%d", n), fmt.Sprintf("%d.0", n), fmt.Sprintf("+%d", n), fmt.Sprintf("0x%x", n), fmt.Sprintf("%de0", n)}
		byPos := map[string]string{}
		for _, f := range forms {
			p, err := learnCMSPos(rows, cols, false, []byte(f))
			if err != nil {
				return
			}
			key := fmt.Sprint(p)
			g, dup := byPos[key]
			if !dup {
				byPos[key] = f
				continue
			}
			a, b := newTopK(1, 0.1, 0.9, redis), newTopK(1, 0.1, 0.9, redis)
			if a == nil || b == nil {
				return
			}
			a.Insert([]byte(f), 1)
			a.Insert([]byte(g), 1)
			b.Insert([]byte(g), 1)
			b.Insert([]byte(f), 1)
			eqCheck(c, k, a, b, "numeric-spellings", nil)
			c.branch("numeric-spellings")
			found++
			break
		}
	}
}

// equalsBuiltByMerge: the same content reached by updates alone and by query - merge - query:
// Equals must say true and every query must then be answered identically (an estimate cached
// before the merge must not survive it).
func equalsBuiltByMerge(c *Ctx, k eqKind) {
	h1, h2 := append(randHist(c), 1, 2), append(randHist(c), 3, 4, 5)
	a, b, twin := k.build(c, 0), k.build(c, 0), k.build(c, 0)
	if a == nil || b == nil || twin == nil {
		return
	}
	k.feed(c, a, h1)
	jsonQueries(k.name, a) // asked before the merge
	k.feed(c, b, h2)
	var merr error
	switch x := a.(type) {
	case hllHandle:
		merr = x.Merge(b.(hllHandle))
	case cmsHandle:
		merr = x.Merge(b.(cmsHandle))
	default:
		return
	}
	if merr != nil {
		return
	}
	k.feed(c, twin, h1)
	k.feed(c, twin, h2)
	eqCheck(c, k, a, twin, "built-by-merge", append(append([]int(nil), h1...), h2...))
	// two sketches that only ever received merges (of different content), and a fresh one
	m1, m2, s2, empty := k.build(c, 0), k.build(c, 0), k.build(c, 0), k.build(c, 0)
	if m1 == nil || m2 == nil || s2 == nil || empty == nil {
		return
	}
	k.feed(c, s2, append(append([]int(nil), h2...), 6, 7))
	switch x := m1.(type) {
	case hllHandle:
		x.Merge(b.(hllHandle))
		m2.(hllHandle).Merge(s2.(hllHandle))
	case cmsHandle:
		x.Merge(b.(cmsHandle))
		m2.(cmsHandle).Merge(s2.(cmsHandle))
	}
	eqCheck(c, k, m1, m2, "merge-only-pair", h2)
	eqCheck(c, k, m1, empty, "merge-only-vs-empty", h2)
	eqCheck(c, k, m1, b, "merge-only-vs-source", h2)
}

func randHist(c *Ctx) []int {
	n := c.rng.Intn(14)
	h := make([]int, n)
	for i := range h {
		h[i] = c.rng.Intn(40)
	}
	return h
}

func equalsKind(c *Ctx, k eqKind) {
	hist := randHist(c)
	a := k.build(c, 0)
	if a == nil {
		c.fail([]string{"C17"}, k.name+"-constructor", "constructor failed", k.name)
		return
	}
	k.feed(c, a, hist)
	check := func(rel string, b interface{}) { eqCheck(c, k, a, b, rel, hist) }
	// a twin with the same history that is NEVER passed to Equals: comparing must not change what
	// is compared (checked at the end, after both have received the same further operations)
	twin := k.build(c, 0)
	if twin != nil {
		k.feed(c, twin, hist)
	}
	// identical history
	b := k.build(c, 0)
	k.feed(c, b, hist)
	check("identical", b)
	check("self", a)
	// one extra operation
	b2 := k.build(c, 0)
	k.feed(c, b2, append(append([]int(nil), hist...), c.rng.Intn(40)))
	check("one-extra-op", b2)
	// one operation fewer
	if len(hist) > 0 {
		b3 := k.build(c, 0)
		k.feed(c, b3, hist[:len(hist)-1])
		check("one-op-less", b3)
	}
	// exported copy (imported into a fresh instance) and mutated copies
	doc, err := k.export(a)
	if err == nil {
		for where, wname := range []string{"first", "middle", "last"} {
			var m map[string]interface{}
			dec := json.NewDecoder(strings.NewReader(string(doc)))
			dec.UseNumber()
			if dec.Decode(&m) != nil {
				continue
			}
			if !k.mutate(m, where) {
				continue
			}
			md, _ := json.Marshal(m)
			if mc, err := k.imp(c, md); err == nil && mc != nil {
				check("mutated-"+wname, mc)
			}
		}
		if cp, err := k.imp(c, doc); err == nil && cp != nil {
			check("imported-copy", cp)
			// Equals true => identical answers, now and under the same further operations: the same
			// updates on the original and on the copy (which share nothing) leave them equal
			more := append(randHist(c), 10, 11, 12)
			qa0 := jsonQueries(k.name, a)
			k.feed(c, cp, more)
			if jsonQueries(k.name, a) != qa0 {
				c.fail([]string{"C17", "C10"}, k.name+"-equal-structures-share-state", fmt.Sprintf("%s: updating an imported copy changed the answers of the structure it was exported from", k.name), map[string]interface{}{"kind": k.name, "history": hist, "more": more})
			}
			check("copy-moved-on", cp)
			k.feed(c, a, more)
			check("same-ops-on-both", cp)
			if qa, qb := jsonQueries(k.name, a), jsonQueries(k.name, cp); qa != qb {
				c.fail([]string{"C17"}, k.name+"-equal-but-answers-differ", fmt.Sprintf("%s: two structures with the same history of operations answer differently: %.150s vs %.150s", k.name, qa, qb), map[string]interface{}{"kind": k.name, "history": hist, "more": more})
			}
			hist = append(append([]int(nil), hist...), more...)
		}
	}
	if twin != nil {
		// `hist` is what a has received so far (possibly extended above); bring the twin up to date
		// and go on with both
		moreT := append(randHist(c), 20, 21, 22, 23)
		twin2 := k.build(c, 0)
		if twin2 != nil {
			k.feed(c, twin2, hist)
			// compared through the queries (Values, counts, lookups): the internal arrangement of a
			// structure that has been compared is allowed to differ, its behaviour is not
			sa0, st0 := jsonQueries(k.name, a), jsonQueries(k.name, twin2)
			k.feed(c, a, moreT)
			k.feed(c, twin2, moreT)
			sa, st := jsonQueries(k.name, a), jsonQueries(k.name, twin2)
			if sa0 == st0 && sa != st {
				c.fail([]string{"C17"}, k.name+"-equals-changes-operand", fmt.Sprintf("%s: a structure that has been an operand of Equals and a twin with the same history that never was: after the same further operations they differ: %.150s vs %.150s", k.name, sa, st), map[string]interface{}{"kind": k.name, "history": hist, "more": moreT})
			}
			hist = append(append([]int(nil), hist...), moreT...)
		}
	}
	// a handle that has been compared before (b2 above) takes over a's content by an Import in
	// place: whatever it remembers from the earlier comparison describes keys it no longer uses
	if k.impInto != nil {
		if doc2, err := k.export(a); err == nil {
			var ierr error
			if res := safely(func() { ierr = k.impInto(b2, doc2) }); !res.panicked && ierr == nil {
				check("reimported-in-place", b2)
				if e := k.build(c, 0); e != nil {
					a0 := a
					a = e
					check("reimported-in-place-vs-empty", b2)
					a = a0
				}
			}
		}
	}
	// one parameter changed, same history
	for v := 1; v <= k.nparams; v++ {
		bp := k.build(c, v)
		if bp == nil {
			continue
		}
		k.feed(c, bp, hist)
		check(fmt.Sprintf("param-%d", v), bp)
		// and with empty payloads
		e1, e2 := k.build(c, 0), k.build(c, v)
		a0 := a
		a = e1
		check(fmt.Sprintf("param-%d-empty", v), e2)
		a = a0
	}
	c.sample(map[string]interface{}{"kind": k.name, "history": hist})
}

func eqCheck(c *Ctx, k eqKind, a, b interface{}, rel string, hist []int) {
	c.rep.Cases++
	c.op("Equals." + k.name)
	replay := map[string]interface{}{"kind": k.name, "relation": rel, "history": hist}
	sa, e1 := k.absStr(a)
	sb, e2 := k.absStr(b)
	if e1 != nil || e2 != nil {
		c.fail([]string{"C17"}, k.name+"-export", fmt.Sprintf("%v %v", e1, e2), replay)
		return
	}
	replay["a"], replay["b"] = sa, sb
	want := sa == sb
	var ab, ba bool
	var eab, eba error
	r1 := safely(func() { ab, eab = k.equals(a, b) })
	r2 := safely(func() { ba, eba = k.equals(b, a) })
	res := "0"
	if r1.panicked {
		res = "panic"
	} else if ab {
		res = "1"
	}
	aa, _ := k.eqArgs(a)
	bb, _ := k.eqArgs(b)
	c.emit("eq.%s %s %s %s", k.name, aa, bb, res)
	if r1.panicked || r2.panicked {
		c.fail([]string{"C17"}, k.name+"-equals-panic", fmt.Sprintf("%s (%s): Equals panicked: %s %s", k.name, rel, r1.panicVal, r2.panicVal), replay)
		return
	}
	if ab != ba {
		c.fail([]string{"C17"}, k.name+"-equals-asymmetric", fmt.Sprintf("%s (%s): Equals(a,b)=%v but Equals(b,a)=%v", k.name, rel, ab, ba), replay)
	}
	if ab != want {
		c.fail([]string{"C17"}, k.name+"-equals-wrong", fmt.Sprintf("%s (%s): Equals=%v (err %v/%v) but parameters+payload identical=%v", k.name, rel, ab, eab, eba, want), replay)
	}
	if ab && want {
		// Equals true: every query must be answered identically (whatever either side has cached)
		if qa, qb := jsonQueries(k.name, a), jsonQueries(k.name, b); qa != qb {
			c.fail([]string{"C17"}, k.name+"-equal-but-answers-differ", fmt.Sprintf("%s (%s): Equals=true but the queries are answered differently: %.150s vs %.150s", k.name, rel, qa, qb), replay)
		}
	}
	if ab && (eab != nil) {
		c.fail([]string{"C17"}, k.name+"-equals-true-with-error", fmt.Sprintf("%s (%s): Equals true with error %v", k.name, rel, eab), replay)
	}
	c.branch(rel + "=" + res)
	if !want && len(hist) > 0 {
		c.nontrivial(k.name + rel + fmt.Sprint(hist))
	}
}

// equalsCuckooHoles: buckets with removed entries in front of live ones (crafted through Import):
// two filters that differ only in a slot at an index >= the bucket's occupancy.
func equalsCuckooHoles(c *Ctx, redis bool) {
	k := eqCuckoo(redis)
	mkDoc := func(slot2 string, where int) []byte {
		elems := [][]string{{"", "123", "456", ""}, {"", "", "", ""}}
		lens := []int{2, 0}
		switch where {
		case 1:
			elems = [][]string{{"", "", "", "789"}, {"", "", "", ""}}
			lens = []int{1, 0}
		case 2:
			elems = [][]string{{"", "", "", ""}, {"", "", "555", "456"}}
			lens = []int{0, 2}
		}
		for bi := range elems {
			for si := range elems[bi] {
				if elems[bi][si] == "456" || elems[bi][si] == "789" {
					elems[bi][si] = slot2
				}
			}
		}
		var bs []string
		for bi := range elems {
			bs = append(bs, fmt.Sprintf(`{"s":4,"l":%d,"e":["%s"],"k":""}`, lens[bi], strings.Join(elems[bi], `","`)))
		}
		return []byte(fmt.Sprintf(`{"s":2,"bs":4,"fpl":3,"l":%d,"r":10,"b":[%s],"k":"","mk":""}`, lens[0]+lens[1], strings.Join(bs, ",")))
	}
	for where := 0; where < 3; where++ {
		a, e1 := k.imp(c, mkDoc("456", where))
		b, e2 := k.imp(c, mkDoc("457", where))
		a2, e3 := k.imp(c, mkDoc("456", where))
		if e1 != nil || e2 != nil || e3 != nil || a == nil || b == nil || a2 == nil {
			continue
		}
		eqCheck(c, k, a, b, fmt.Sprintf("holes-differ-%d", where), nil)
		eqCheck(c, k, a, a2, fmt.Sprintf("holes-same-%d", where), nil)
	}
}

// equalsCuckooDuplicates: buckets are multisets with positions.  One filter holds a fingerprint
// twice in a bucket, the other holds it once next to a different one: same parameters, same
// Length, same fill of every bucket - not equal, in either argument order.
func equalsCuckooDuplicates(c *Ctx, redis bool) {
	k := eqCuckoo(redis)
	docOf := func(slots []string) []byte {
		l := 0
		for _, e := range slots {
			if e != "" {
				l++
			}
		}
		return []byte(fmt.Sprintf(`{"s":2,"bs":4,"fpl":3,"l":%d,"r":10,"b":[{"s":4,"l":%d,"e":["%s"],"k":""},{"s":4,"l":0,"e":["","","",""],"k":""}],"k":"","mk":""}`, l, l, strings.Join(slots, `","`)))
	}
	cases := [][2][]string{
		{{"123", "123", "", ""}, {"123", "456", "", ""}},
		{{"123", "456", "123", ""}, {"123", "456", "456", ""}},
		{{"", "777", "777", "888"}, {"", "777", "888", "888"}},
	}
	for i, pair := range cases {
		a, e1 := k.imp(c, docOf(pair[0]))
		b, e2 := k.imp(c, docOf(pair[1]))
		if e1 != nil || e2 != nil || a == nil || b == nil {
			continue
		}
		eqCheck(c, k, a, b, fmt.Sprintf("duplicate-vs-distinct-%d", i), nil)
		eqCheck(c, k, b, a, fmt.Sprintf("distinct-vs-duplicate-%d", i), nil)
	}
	// and reached by operations: the same element twice against two elements of one bucket
	cfg := cuckooCfg{n: 1, b: 4, fpl: 3, retries: 10, redis: redis}
	var xs [][]byte
	fps := map[string]bool{}
	for i := 0; len(xs) < 2 && i < 300; i++ {
		e := []byte(fmt.Sprintf("dup-%d", i))
		if fp, _, _, ok := cuckooPos(e, 1, 3); ok && !fps[fp] {
			fps[fp] = true
			xs = append(xs, e)
		}
	}
	if len(xs) == 2 {
		ha, _ := cfg.build()
		hb, _ := cfg.build()
		if ha != nil && hb != nil {
			ha.Insert(xs[0], false)
			ha.Insert(xs[0], false)
			hb.Insert(xs[0], false)
			hb.Insert(xs[1], false)
			eqCheck(c, k, ha, hb, "same-element-twice-vs-two-elements", nil)
			eqCheck(c, k, hb, ha, "two-elements-vs-same-element-twice", nil)
		}
	}
}

// equalsTopKSeparators: element names are byte strings and may contain whatever a textual
// rendering of the tracked set uses as punctuation (':', ' ', ',', digits).  k = 2, four names
// inserted once each in every order: the sketches are equal (same multiset), the tracked pairs are
// not - any two structures whose tracked sets differ must compare unequal.  Oracle only (names
// with blanks do not travel through the line protocol).
func equalsTopKSeparators(c *Ctx) {
	names := [][]byte{[]byte("x"), []byte("y:1 z"), []byte("x:1 y"), []byte("z")}
	perms := permutations(4)
	type built struct {
		t    *gostatix.TopK
		vals string
	}
	var all []built
	for _, p := range perms {
		t := gostatix.NewTopK(2, 0.001, 0.5)
		for _, i := range p {
			t.Insert(names[i], 1)
		}
		all = append(all, built{t, fmt.Sprintf("%q", topkElems(t.Values()))})
	}
	bad := 0
	for i := range all {
		for j := range all {
			c.rep.Cases++
			eq, _ := all[i].t.Equals(all[j].t)
			same := all[i].vals == all[j].vals
			if eq && !same && bad < 3 {
				bad++
				c.fail([]string{"C17"}, "topk.mem-equals-wrong", fmt.Sprintf("topk.mem (names containing ':' and ' '): Equals=true although Values differ: %s vs %s", all[i].vals, all[j].vals), map[string]interface{}{"order_a": perms[i], "order_b": perms[j]})
			}
			if !eq && same && i == j {
				c.fail([]string{"C17"}, "topk.mem-equals-wrong", "topk.mem: a structure is not Equal to itself: "+all[i].vals, perms[i])
			}
		}
	}
	c.op("Equals.topk.mem.separators")
}

func permutations(n int) [][]int {
	if n == 0 {
		return [][]int{{}}
	}
	var out [][]int
	for _, p := range permutations(n - 1) {
		for pos := 0; pos <= len(p); pos++ {
			q := append(append(append([]int{}, p[:pos]...), n-1), p[pos:]...)
			out = append(out, q)
		}
	}
	return out
}

func topkUnder(o interface{}) *gostatix.TopKRedis {
	switch x := o.(type) {
	case topkRedis:
		return x.t
	case *topkMulti:
		return x.pick().t
	}
	return nil
}
