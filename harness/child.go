package main

import (
	"flag"
	"fmt"
	"math/rand"
	"os"

	"github.com/kwertop/gostatix"
)

// childMain: `gsharness -child <redis addr> <kind> <metadataKey> observe|update`
// attaches to an existing Redis-backed structure from a separate OS process.
func childMain(addr string) {
	args := flag.Args()
	if len(args) != 3 {
		fmt.Fprintln(os.Stderr, "child: want <kind> <metadataKey> <action>")
		os.Exit(2)
	}
	gostatix.MakeRedisClient(gostatix.RedisConnOptions{Address: addr})
	k := raKindByName(args[0])
	if k == nil {
		os.Exit(2)
	}
	h, err := k.attach(args[1])
	if err != nil || h == nil {
		fmt.Println("ATTACH-FAILED", err)
		return
	}
	c := &Ctx{rng: rand.New(rand.NewSource(99)), rep: &Report{Ops: map[string]int{}, Branches: map[string]int{}, seen: map[string]bool{}}}
	if args[2] == "update" {
		k.eq.feed(c, h, []int{5, 17})
	}
	fmt.Println(raObserve(k, h))
}
