package main

import (
	"flag"
	"fmt"
	"math/rand"
	"os"
	"time"

	"github.com/kwertop/gostatix"
)

// childMain: `gsharness -child <redis addr> <kind> <metadataKey> observe|update`
// attaches to an existing Redis-backed structure from a separate OS process.
func childMain(addr string) {
	args := flag.Args()
	if len(args) != 3 {
		fmt.Fprintln(os.Stderr, "child: want <kind> <metadataKey> <action>")
		os.Exit(2)
	}
	// generous timeouts: under heavy machine load a reply can take seconds; go-redis would
	// time out after 3 s and RETRY the command - an update would then be applied twice and the
	// run would report a difference that is not in the code under test
	gostatix.MakeRedisClient(gostatix.RedisConnOptions{Address: addr, ConnectionTimeout: time.Minute, ReadTimeout: 30 * time.Minute, WriteTimeout: 30 * time.Minute})
	k := raKindByName(args[0])
	if k == nil {
		os.Exit(2)
	}
	h, err := k.attach(args[1])
	if err != nil || h == nil {
		fmt.Println("ATTACH-FAILED", err)
		return
	}
	c := &Ctx{rng: rand.New(rand.NewSource(99)), rep: &Report{Ops: map[string]int{}, Branches: map[string]int{}, seen: map[string]bool{}}}
	if args[2] == "update" {
		k.eq.feed(c, h, []int{5, 17})
	}
	fmt.Println(raObserve(k, h))
}
