package main

func childMain(addr string) {}
