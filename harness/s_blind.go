package main

import (
	"fmt"
	"strings"
)

// suite "blind": observation must not matter.  Every other suite looks at the structure (Export,
// Length, queries) around every single operation; an implementation whose state is only right
// BECAUSE it is looked at (a lazily filled handle-local table that Export happens to complete, a
// cache that Equals happens to refresh) would pass them.  Here the same history runs on two
// instances: X is observed after every operation, Y is driven blind - for the Redis variants
// through the creating handle and through handles attached from the metadata key at random points,
// none of which is ever asked anything - and only at the end both are compared on parameters,
// payload and every query.

func init() { register("blind", suiteBlind) }

func blindProps(name string, redis bool) []string {
	var p []string
	switch {
	case strings.HasPrefix(name, "bloom"):
		p = []string{"C01"}
	case strings.HasPrefix(name, "cuckoo"):
		p = []string{"C02", "C13"}
	case strings.HasPrefix(name, "cms"):
		p = []string{"C03"}
	case strings.HasPrefix(name, "hll"):
		p = []string{"C06"}
	case strings.HasPrefix(name, "topk"):
		p = []string{"C04"}
	}
	if redis {
		p = append(p, "C08", "C09")
	}
	return p
}

func suiteBlind(c *Ctx) {
	c.rep.Rule = "case = (variant, history of 10-35 operations) run twice: observed after every operation / blind (Redis: split over the creating handle and 1-2 attached handles); the two end states are compared; non-trivial = >= 10 operations; distinct by (variant, history)"
	mem := []eqKind{eqCMS(false), eqHLL(false), eqBloom(false), eqCuckoo(false), eqTopK(false)}
	rounds := c.scale(3, 30)
	for r := 0; r < rounds; r++ {
		for _, k := range mem {
			hist := blindHist(c)
			x, y := k.build(c, 0), k.build(c, 0)
			if x == nil || y == nil {
				continue
			}
			c.rep.Cases++
			for _, op := range hist {
				k.feed(c, x, []int{op})
				k.absStr(x)
				jsonQueries(k.name, x)
			}
			k.feed(c, y, hist)
			blindCompare(c, k, x, y, hist, false, 1)
		}
		for _, rk := range raKinds() {
			kk := rk
			c.mr.FlushAll()
			hist := blindHist(c)
			seed := c.rng.Int63()
			x, _ := kk.create(&Ctx{rng: newRng(seed), rep: c.rep, mr: c.mr, tier: c.tier})
			y, mk := kk.create(&Ctx{rng: newRng(seed), rep: c.rep, mr: c.mr, tier: c.tier})
			if x == nil || y == nil {
				continue
			}
			c.rep.Cases++
			for _, op := range hist {
				kk.eq.feed(c, x, []int{op})
				kk.eq.absStr(x)
				jsonQueries(kk.eq.name, x)
			}
			hs := []interface{}{y}
			for _, op := range hist {
				if len(hs) < 3 && c.rng.Intn(6) == 0 {
					if h, err := kk.attach(mk); err == nil && h != nil {
						hs = append(hs, h)
					}
				}
				kk.eq.feed(c, hs[c.rng.Intn(len(hs))], []int{op})
			}
			// the verdict is read through a handle attached only now
			yv := y
			if h, err := kk.attach(mk); err == nil && h != nil {
				yv = h
			}
			blindCompare(c, kk.eq, x, yv, hist, true, len(hs))
		}
	}
}

func blindHist(c *Ctx) []int {
	n := 10 + c.rng.Intn(26)
	h := make([]int, n)
	for i := range h {
		h[i] = c.rng.Intn(40)
	}
	return h
}

func blindCompare(c *Ctx, k eqKind, x, y interface{}, hist []int, redis bool, handles int) {
	sx, _ := k.absStr(x)
	sy, _ := k.absStr(y)
	qx, qy := jsonQueries(k.name, x), jsonQueries(k.name, y)
	c.op("blind." + k.name)
	if sx != sy || qx != qy {
		c.fail(blindProps(k.name, redis), k.name+"-observation-matters",
			fmt.Sprintf("%s: the same %d operations on an instance that is observed after every operation and on one that is not (%d handle(s)) end in different states / answers: %.200q vs %.200q", k.name, len(hist), handles, sx+"|"+qx, sy+"|"+qy),
			map[string]interface{}{"kind": k.name, "history": hist, "observed": sx, "blind": sy})
	}
	c.nontrivial(fmt.Sprint(k.name, hist))
	c.sample(map[string]interface{}{"kind": k.name, "ops": len(hist), "handles": handles})
}
