package main

import (
	"context"
	"fmt"
	"math"
	"sort"
	"strconv"
	"strings"

	"github.com/kwertop/gostatix"
)

// suite "redistie": correspondence check for the Redis-level model (lean/Gostatix/Model/Redis.lean),
// the object of the theorems of C08, C09 and C19.  The suite drives the real library against the
// in-process Redis and dumps the ACTUAL content of the structure's Redis keys (read directly from
// miniredis, not through the library) around every operation; the driver (`rt.*` lines,
// lean/Gostatix/Model/RedisDriver.lean) rebuilds a model store from the "before" dump, runs the
// model's constructor / attach function / transcribed script and must arrive at the "after" dump
// and at the answer the library returned.
//
//   - every Redis constructor (raKinds): metadata hash written (rt.create.*), parameters of a handle
//     re-attached from it (rt.attach.*); plus hand-written metadata hashes (missing fields,
//     non-numeric / out-of-range values, wrong type) for the error paths of New…FromKey;
//   - Count-Min: init / Update / Count / Merge scripts (rt.cms.*), incl. sketches whose row lists
//     were damaged behind the library's back (a script aborts and keeps its earlier writes);
//   - HyperLogLog: init / update / merge / equals scripts (rt.hll.*);
//   - Bloom: SET at creation, SETBIT pipeline, GETBIT (rt.bloom.*), incl. a truncated bitmap;
//   - the abstraction functions absCMS/absHLL/absBloom against Export() (rt.*.abs).
//
// Per-row positions, (register, value) and probe sets of an element are learned from one
// operation on a fresh structure of the same configuration (as in suites cms/hll/bloom).

func init() { register("redistie", suiteRedisTie) }

func suiteRedisTie(c *Ctx) {
	c.rep.Rule = "case = one Redis-backed structure: (a) per Redis constructor: create, dump the metadata hash, re-attach, read the parameters of the re-attached handle (plus hand-written metadata hashes); (b) Count-Min / HyperLogLog / Bloom: a random history of 8-20 operations (update, count, merge incl. self- and mismatched merge, equals, insert, lookup) with the structure's data keys dumped from Redis before and after every operation, in two fifths of the cases with a data key damaged behind the library's back; non-trivial = history with >= 3 state-changing operations and >= 1 query; distinct by (configuration, history)"
	rounds := c.scale(6, 60)
	for r := 0; r < rounds; r++ {
		for _, k := range raKinds() {
			kk := k
			rtCreateAttach(c, &kk)
		}
	}
	rtSyntheticAttach(c)
	cases := c.scale(12, 120)
	for i := 0; i < cases; i++ {
		rtCMSCase(c)
		rtHLLCase(c)
		rtBloomCase(c, i)
	}
}

// ---------------------------------------------------------------------------------------------
// dumping Redis keys

func keyTok(k string) string {
	if k == "" {
		return "_"
	}
	return k
}

func (c *Ctx) rtKeySet() map[string]bool {
	out := map[string]bool{}
	for _, k := range c.mr.Keys() {
		out[k] = true
	}
	return out
}

func (c *Ctx) rtNewKeys(before map[string]bool, typ string) []string {
	var out []string
	for _, k := range c.mr.Keys() {
		if !before[k] && c.mr.Type(k) == typ {
			out = append(out, k)
		}
	}
	sort.Strings(out)
	return out
}

// rtList: content of a list key (`nil` = absent)
func (c *Ctx) rtList(k string) string {
	if !c.mr.Exists(k) {
		return "nil"
	}
	if t := c.mr.Type(k); t != "list" {
		return "?" + t
	}
	l, _ := c.mr.List(k)
	return strList(l)
}

// rtRows: the row lists key0 .. key(rows-1) of a count-min sketch
func (c *Ctx) rtRows(key string, rows uint) string {
	out := make([]string, rows)
	for r := range out {
		out[r] = c.rtList(key + strconv.Itoa(r))
	}
	return strings.Join(out, ";")
}

// rtHash: content of a hash key, fields sorted (`nil` = absent, `str:<hex>` = a string key)
func (c *Ctx) rtHash(k string) string {
	if !c.mr.Exists(k) {
		return "nil"
	}
	switch c.mr.Type(k) {
	case "string":
		v, _ := c.mr.Get(k)
		return "str:" + hexStr([]byte(v))
	case "hash":
		fs, _ := c.mr.HKeys(k)
		sort.Strings(fs)
		if len(fs) == 0 {
			return "-"
		}
		out := make([]string, len(fs))
		for i, f := range fs {
			out[i] = f + "=" + c.mr.HGet(k, f)
		}
		return strings.Join(out, ",")
	}
	return "?" + c.mr.Type(k)
}

// rtBytes: content of a string key (`nil` = absent, `-` = empty)
func (c *Ctx) rtBytes(k string) string {
	if !c.mr.Exists(k) {
		return "nil"
	}
	if t := c.mr.Type(k); t != "string" {
		return "?" + t
	}
	v, _ := c.mr.Get(k)
	return hexStr([]byte(v))
}

func okErr(err error, panicked bool) string {
	if err != nil || panicked {
		return "err"
	}
	return "ok"
}

func fmtFloat(f float64) string { return strconv.FormatFloat(f, 'f', -1, 64) }

// ---------------------------------------------------------------------------------------------
// (a) constructors and re-attachment

type rtBloomSpec struct {
	ctor      string
	numItems  uint
	errorRate float64
	words     int
	numHashes uint
}

func (s rtBloomSpec) cfg() bloomCfg {
	if s.ctor == "bloom-params" {
		return bloomCfg{kind: "params", redis: true, numItems: s.numItems, errorRate: s.errorRate}
	}
	return bloomCfg{kind: "bitset", redis: true, words: s.words, numHashes: s.numHashes}
}

// rtRandBloomSpec: parameter choices of the two Bloom constructors; (5, 1.0) computes size 0 and
// numHashes 0, (50, 0.9) and (100, 0.7) compute numHashes 0 (size < numItems): the clamping cases.
func rtRandBloomSpec(c *Ctx, ctor string) rtBloomSpec {
	if ctor == "bloom-params" {
		ps := [][2]float64{{20, 0.05}, {100, 0.7}, {1, 0.5}, {50, 0.9}, {300, 0.001}, {5, 1.0}, {7, 0.3}, {3, 0.01}, {40, 0.2}}
		p := ps[c.rng.Intn(len(ps))]
		return rtBloomSpec{ctor: ctor, numItems: uint(p[0]), errorRate: p[1]}
	}
	return rtBloomSpec{ctor: ctor, words: []int{0, 0, 1, 2, 3}[c.rng.Intn(5)], numHashes: []uint{0, 0, 1, 2, 3, 5, 70}[c.rng.Intn(7)]}
}

// transcription of util.CalculateNumHashes (internal package, not importable): the value the
// constructor computes BEFORE clamping; only used as the model's input for rt.create.bloom.
func rtCalcNumHashes(size, numItems uint) uint {
	return uint(math.Ceil(float64(size/numItems) * math.Log(2)))
}

// rtParams: the parameters a live handle reports, as tokens in the order of the rt.attach line
// (after `ok`); base keys that cannot be observed are `?`
func rtParams(c *Ctx, base string, h interface{}) (toks []string, ok bool) {
	res := safely(func() {
		switch base {
		case "bloom":
			f := h.(*gostatix.BloomFilter)
			toks = []string{fmt.Sprint(f.GetCap()), fmt.Sprint(f.GetNumHashes())}
		case "cuckoo":
			f := h.(cuckooRedis).f
			toks = []string{fmt.Sprint(f.Size()), fmt.Sprint(f.BucketSize()), fmt.Sprint(f.FingerPrintLength()), fmt.Sprint(f.Retries()), keyTok(f.Key())}
		case "cms":
			s := h.(cmsRedis).s
			key := "?"
			if d, err := parseCMS(s.Export()); err == nil {
				key = keyTok(d.K)
			}
			toks = []string{fmt.Sprint(s.GetRows()), fmt.Sprint(s.GetColumns()), key}
		case "hll":
			x := h.(hllRedis).h
			key := "?"
			// Export() panics when the register list is shorter than numRegisters
			safely(func() {
				if d, err := parseHLL(x.Export()); err == nil {
					key = keyTok(d.K)
				}
			})
			toks = []string{fmt.Sprint(x.NumRegisters()), key}
		case "topk":
			d, err := parseTopK(h.(topkRedis).t.Export())
			if err != nil {
				return
			}
			toks = []string{fmt.Sprint(d.K), fmtFloat(d.ER), fmtFloat(d.A), keyTok(d.HK), fmt.Sprint(d.S.R), fmt.Sprint(d.S.C), keyTok(d.S.K)}
		}
	})
	return toks, !res.panicked && toks != nil
}

func rtBase(name string) string { return strings.SplitN(name, "-", 2)[0] }

func rtCreateAttach(c *Ctx, k *raKind) {
	base := rtBase(k.name)
	before := c.rtKeySet()
	var h interface{}
	var mk string
	var spec rtBloomSpec
	if base == "bloom" {
		spec = rtRandBloomSpec(c, k.name)
		f, err := spec.cfg().build()
		if err == nil && f != nil {
			h, mk = f, f.GetMetadataKey()
		}
	} else {
		h, mk = k.create(c)
	}
	c.op("create")
	if h == nil || mk == "" {
		c.fail([]string{"C09"}, k.name+"-constructor", k.name+": constructor failed or returned an empty metadata key", k.name)
		return
	}
	c.rep.Cases++
	hash := c.rtHash(mk)
	own, ok := rtParams(c, base, h)
	if !ok {
		c.fail([]string{"C09"}, k.name+"-params", k.name+": cannot read the parameters of the creating handle", k.name)
		return
	}
	desc := k.name + " " + strings.Join(own, " ")
	smk, shash := "", ""
	switch base {
	case "bloom":
		f := h.(*gostatix.BloomFilter)
		a, err := bloomAbsRedis(f)
		bks := c.rtNewKeys(before, "string")
		if err != nil || len(bks) != 1 {
			c.fail([]string{"C09"}, k.name+"-keys", fmt.Sprintf("%s: expected one new string key, got %v (%v)", k.name, bks, err), k.name)
			return
		}
		rawSize := uint(a.BsLen) // the bitset's own size = the constructor's size before clamping
		rawK := spec.numHashes
		if k.name == "bloom-params" {
			rawK = rtCalcNumHashes(rawSize, spec.numItems)
			// bitmap as created: `size` zero bytes
			c.emit("rt.bloom.init %d %s nil %s", rawSize, bks[0], c.rtBytes(bks[0]))
		}
		c.emit("rt.create.bloom %s %d %d %s %s %s %s %s", k.name, rawSize, rawK, bks[0], mk, hash, own[0], own[1])
		desc = fmt.Sprintf("%s raw=%d,%d", desc, rawSize, rawK)
		if rawSize == 0 || rawK == 0 {
			c.branch("bloom-create-clamped")
		}
	case "cuckoo":
		c.emit("rt.create.cuckoo %s %s %s %s %s %s %s %s", k.name, own[0], own[1], own[2], own[3], own[4], mk, hash)
	case "cms":
		c.emit("rt.create.cms %s %s %s %s %s %s", k.name, own[0], own[1], own[2], mk, hash)
		rows := h.(cmsRedis).s.GetRows()
		c.emit("rt.cms.init %s %s %s %s %s", own[0], own[1], own[2], rtAbsentRows(before, own[2], rows), c.rtRows(own[2], rows))
	case "hll":
		c.emit("rt.create.hll %s %s %s %s %s", k.name, own[0], own[1], mk, hash)
		c.emit("rt.hll.init %s %s %s %s ok", own[0], own[1], rtAbsent(before, own[1]), c.rtList(own[1]))
	case "topk":
		var others []string
		for _, hk := range c.rtNewKeys(before, "hash") {
			if hk != mk {
				others = append(others, hk)
			}
		}
		if len(others) != 1 {
			c.fail([]string{"C09"}, k.name+"-keys", fmt.Sprintf("%s: expected one more new hash key (the sketch's metadata), got %v", k.name, others), k.name)
			return
		}
		smk, shash = others[0], c.rtHash(others[0])
		// own = k er acc heapKey rows cols sketchKey
		c.emit("rt.create.topk %s %s %s %s %s %s %s %s %s %s %s %s", k.name, own[0], own[1], own[2], own[3], mk, own[4], own[5], own[6], smk, hash, shash)
	}
	// --- re-attach through the metadata key
	var h2 interface{}
	var err error
	res := safely(func() { h2, err = k.attach(mk) })
	c.op("attach")
	obs := "err"
	var got []string
	if !res.panicked && err == nil && h2 != nil {
		if g, ok := rtParams(c, base, h2); ok {
			got = g
			obs = "ok " + strings.Join(g, " ")
		}
	}
	if base == "bloom" && got != nil {
		// which key does the re-attached handle write to?  one insert, observe the changed key
		snapA := c.dbSnapshot()
		safely(func() { h2.(*gostatix.BloomFilter).Insert([]byte("rt-probe")) })
		ch := changedKeys(snapA, c.dbSnapshot())
		if len(ch) == 1 {
			obs += " " + ch[0]
		} else {
			obs += " ?"
		}
	}
	if base == "topk" {
		c.emit("rt.attach.topk %s %s %s %s %s %s", k.name, mk, hash, smk, shash, obs)
	} else {
		c.emit("rt.attach.%s %s %s %s %s", base, k.name, mk, hash, obs)
	}
	if got == nil {
		c.fail([]string{"C09"}, k.name+"-attach-fails", fmt.Sprintf("%s: re-attaching through the metadata key failed: %v %v", k.name, res.panicVal, err), desc)
		return
	}
	if strings.Join(got, " ") != strings.Join(own, " ") {
		c.fail([]string{"C09"}, k.name+"-attach-params-differ",
			fmt.Sprintf("%s: the re-attached handle reports [%s], the creating handle [%s] (metadata %s)", k.name, strings.Join(got, " "), strings.Join(own, " "), hash),
			map[string]interface{}{"constructor": k.name, "params": own})
	}
	c.nontrivial(desc)
	c.sample(map[string]interface{}{"constructor": k.name, "params": own, "metadata": hash})
}

func rtAbsent(before map[string]bool, k string) string {
	if before[k] {
		return "?existed"
	}
	return "nil"
}

func rtAbsentRows(before map[string]bool, key string, rows uint) string {
	out := make([]string, rows)
	for r := range out {
		out[r] = rtAbsent(before, key+strconv.Itoa(r))
	}
	return strings.Join(out, ";")
}

// rtSyntheticAttach: New…FromKey on metadata the library did not write itself: absent key, missing
// fields, non-numeric and out-of-range numbers, a key of the wrong type.
func rtSyntheticAttach(c *Ctx) {
	type synth struct {
		kind   string // raKind used for attaching
		name   string
		fields []string // f, v, f, v ...; nil = leave the key absent
		str    string   // != "": the key holds this string instead of a hash
		sketch bool     // topk: point sketchKey to a real sketch
	}
	big := "99999999999999999999"
	cases := []synth{
		{kind: "bloom-params", name: "absent"},
		{kind: "bloom-params", name: "nonnumeric", fields: []string{"size", "abc", "numHashes", "7", "bitsetKey", "nokey"}},
		{kind: "bloom-params", name: "range", fields: []string{"size", big, "numHashes", "007", "bitsetKey", "nokey"}},
		{kind: "bloom-params", name: "missing-fields", fields: []string{"size", "12"}},
		{kind: "bloom-params", name: "wrongtype", str: "hello"},
		{kind: "cuckoo", name: "absent"},
		{kind: "cuckoo", name: "nonnumeric", fields: []string{"size", "4", "bucketSize", "x", "fingerPrintLength", "", "retries", "12", "key", "ck", "length", "0"}},
		{kind: "cuckoo", name: "missing-fields", fields: []string{"size", "3", "key", "ck"}},
		{kind: "cuckoo", name: "wrongtype", str: "x"},
		{kind: "cms", name: "absent"},
		{kind: "cms", name: "zero-rows", fields: []string{"rows", "0", "columns", "5", "key", "sk"}},
		{kind: "cms", name: "nonnumeric-columns", fields: []string{"rows", "2", "columns", "x", "key", "sk"}},
		{kind: "cms", name: "leading-zeros", fields: []string{"rows", "002", "columns", "03", "key", "sk"}},
		{kind: "cms", name: "missing-key", fields: []string{"rows", "2", "columns", "3"}},
		{kind: "cms", name: "wrongtype", str: "x"},
		{kind: "hll", name: "absent"},
		{kind: "hll", name: "zero", fields: []string{"numRegisters", "0", "key", "hk"}},
		{kind: "hll", name: "not-pow2", fields: []string{"numRegisters", "96", "key", "hk"}},
		{kind: "hll", name: "three", fields: []string{"numRegisters", "3", "key", "hk"}},
		{kind: "hll", name: "pow2-nokey", fields: []string{"numRegisters", "64"}},
		{kind: "hll", name: "one", fields: []string{"numRegisters", "1", "key", "hk"}},
		{kind: "hll", name: "nonnumeric", fields: []string{"numRegisters", "6x4", "key", "hk"}},
		{kind: "topk", name: "k-overflow", fields: []string{"k", "4294967296", "heapKey", "hp", "errorRate", "0.5", "accuracy", "0.2"}, sketch: true},
		{kind: "topk", name: "k-nonnumeric", fields: []string{"k", "k", "heapKey", "hp", "errorRate", "0.5", "accuracy", "0.2"}, sketch: true},
		{kind: "topk", name: "no-sketch", fields: []string{"k", "3", "heapKey", "hp", "errorRate", "0.5", "accuracy", "0.2"}},
		{kind: "topk", name: "absent"},
	}
	for i, s := range cases {
		k := raKindByName(s.kind)
		base := rtBase(s.kind)
		mk := fmt.Sprintf("rtsynth%s%02d", base, i)
		c.mr.Del(mk)
		fields := append([]string(nil), s.fields...)
		smk, shash := "", "nil"
		if s.sketch {
			sk, err := gostatix.NewCountMinSketchRedis(2, 3)
			if err != nil {
				continue
			}
			smk = sk.MetadataKey()
			shash = c.rtHash(smk)
			fields = append(fields, "sketchKey", smk)
		}
		if s.str != "" {
			c.mr.Set(mk, s.str)
		} else if len(fields) > 0 {
			c.mr.HSet(mk, fields...)
		}
		if base == "hll" && !c.mr.Exists("hk") {
			// a register list under the key the hand-written hashes name, so that Export() of the
			// attached handle works and shows which key it reads
			zeros := make([]string, 64)
			for z := range zeros {
				zeros[z] = "0"
			}
			c.mr.Push("hk", zeros...)
		}
		c.rep.Cases++
		hash := c.rtHash(mk)
		var h2 interface{}
		var err error
		res := safely(func() { h2, err = k.attach(mk) })
		c.op("attach-synthetic")
		obs := "err"
		if !res.panicked && err == nil && h2 != nil {
			if g, ok := rtParams(c, base, h2); ok {
				obs = "ok " + strings.Join(g, " ")
				if base == "bloom" {
					obs += " ?"
				}
				c.branch("synthetic-attach-ok")
			}
		}
		if obs == "err" {
			c.branch("synthetic-attach-err")
		}
		name := s.kind + "/" + s.name
		if base == "topk" {
			c.emit("rt.attach.topk %s %s %s %s %s %s", name, mk, hash, keyTok(smk), shash, obs)
		} else {
			c.emit("rt.attach.%s %s %s %s %s", base, name, mk, hash, obs)
		}
		c.nontrivial("synthetic " + name)
	}
}

// ---------------------------------------------------------------------------------------------
// (b) Count-Min Sketch

func rtRaw() context.Context { return context.Background() }

func rtCMSCase(c *Ctx) {
	rows := uint(1 + c.rng.Intn(4))
	cols := []uint{1, 2, 3, 5, 8}[c.rng.Intn(5)]
	cfg := fmt.Sprintf("rt-cms(rows=%d,cols=%d)", rows, cols)
	pool := elemPool(c.rng, 4+c.rng.Intn(5), false)
	pos := make([][]uint64, len(pool))
	for j, e := range pool {
		p, err := learnCMSPos(rows, cols, true, e)
		if err != nil {
			c.fail([]string{"C08"}, "cms-probe", fmt.Sprintf("%s: %v", cfg, err), cfg)
			return
		}
		pos[j] = p
	}
	mkSketch := func(r, cl uint) (*gostatix.CountMinSketchRedis, string) {
		before := c.rtKeySet()
		s, err := gostatix.NewCountMinSketchRedis(r, cl)
		if err != nil || s == nil {
			return nil, ""
		}
		d, err := parseCMS(s.Export())
		if err != nil {
			return nil, ""
		}
		c.op("cms.init")
		c.emit("rt.cms.init %d %d %s %s %s", r, cl, d.K, rtAbsentRows(before, d.K, r), c.rtRows(d.K, r))
		return s, d.K
	}
	A, keyA := mkSketch(rows, cols)
	B, keyB := mkSketch(rows, cols)
	if A == nil || B == nil {
		c.fail([]string{"C08"}, "cms-constructor", cfg+": constructor failed", cfg)
		return
	}
	c.rep.Cases++
	for n := c.rng.Intn(5); n > 0; n-- {
		B.Update(pool[c.rng.Intn(len(pool))], cmsCounts[c.rng.Intn(len(cmsCounts))])
	}
	client := gostatix.VerifRedisClient()
	nops := 8 + c.rng.Intn(12)
	damageAt := -1
	if c.rng.Intn(5) < 2 {
		damageAt = nops/2 + c.rng.Intn(nops/2)
	}
	damaged := false
	var hist []string
	changes, queries := 0, 0
	for opn := 0; opn < nops; opn++ {
		if opn == damageAt {
			r := c.rng.Intn(int(rows))
			rk := keyA + strconv.Itoa(r)
			switch c.rng.Intn(3) {
			case 0:
				client.Del(rtRaw(), rk)
				hist = append(hist, fmt.Sprintf("DEL-row%d", r))
			case 1:
				client.LSet(rtRaw(), rk, int64(c.rng.Intn(int(cols))), "x")
				hist = append(hist, fmt.Sprintf("LSET-x-row%d", r))
			default:
				client.RPop(rtRaw(), rk)
				hist = append(hist, fmt.Sprintf("RPOP-row%d", r))
			}
			damaged = true
			c.branch("cms-damaged")
		}
		j := c.rng.Intn(len(pool))
		e := pool[j]
		switch r := c.rng.Intn(20); {
		case r < 9:
			cnt := cmsCounts[c.rng.Intn(len(cmsCounts))]
			pre := c.rtRows(keyA, rows)
			var uerr error
			var res callResult
			if r%2 == 0 {
				res = safely(func() { uerr = A.Update(e, cnt) })
			} else {
				res = safely(func() { uerr = A.UpdateString(string(e), cnt) })
			}
			c.op("cms.update")
			out := okErr(uerr, res.panicked)
			c.emit("rt.cms.update %d %d %s %s %s %d %s %s", rows, cols, keyA, pre, natList(pos[j]), cnt, c.rtRows(keyA, rows), out)
			c.branch("cms.update-" + out)
			hist = append(hist, fmt.Sprintf("U%d+%d", j, cnt))
			changes++
		case r < 15:
			pre := c.rtRows(keyA, rows)
			var v uint64
			var cerr error
			res := safely(func() { v, cerr = A.Count(e) })
			c.op("cms.count")
			out := strconv.FormatUint(v, 10)
			if cerr != nil || res.panicked {
				out = "err"
				c.branch("cms.count-err")
			} else {
				c.branch("cms.count-ok")
			}
			c.emit("rt.cms.count %d %d %s %s %s %s %s", rows, cols, keyA, pre, natList(pos[j]), c.rtRows(keyA, rows), out)
			hist = append(hist, fmt.Sprintf("C%d", j))
			queries++
		case r < 17:
			// merge: B into A, or A into B
			X, keyX, Y, keyY := A, keyA, B, keyB
			if c.rng.Intn(3) == 0 {
				X, keyX, Y, keyY = B, keyB, A, keyA
			}
			preX, preY := c.rtRows(keyX, rows), c.rtRows(keyY, rows)
			var merr error
			res := safely(func() { merr = X.Merge(Y) })
			c.op("cms.merge")
			out := okErr(merr, res.panicked)
			c.emit("rt.cms.merge %d %d %s %s %d %d %s %s %s %s %s", rows, cols, keyX, preX, rows, cols, keyY, preY, c.rtRows(keyX, rows), c.rtRows(keyY, rows), out)
			c.branch("cms.merge-" + out)
			hist = append(hist, "M:"+map[bool]string{true: "A<-B", false: "B<-A"}[keyX == keyA])
			changes++
		case r < 18:
			pre := c.rtRows(keyA, rows)
			var merr error
			res := safely(func() { merr = A.Merge(A) })
			c.op("cms.merge")
			out := okErr(merr, res.panicked)
			post := c.rtRows(keyA, rows)
			c.emit("rt.cms.merge %d %d %s %s %d %d %s %s %s %s %s", rows, cols, keyA, pre, rows, cols, keyA, pre, post, post, out)
			c.branch("cms.selfmerge-" + out)
			hist = append(hist, "M:A<-A")
			changes++
		case r < 19:
			// dimension mismatch: rejected by the Go code before any command
			r2, c2 := rows+uint(c.rng.Intn(2)), cols
			if r2 == rows {
				c2 = cols + 1
			}
			C, keyC := mkSketch(r2, c2)
			if C == nil {
				continue
			}
			C.Update(e, 3)
			preA, preC := c.rtRows(keyA, rows), c.rtRows(keyC, r2)
			var merr error
			res := safely(func() { merr = A.Merge(C) })
			c.op("cms.merge")
			out := okErr(merr, res.panicked)
			c.emit("rt.cms.merge %d %d %s %s %d %d %s %s %s %s %s", rows, cols, keyA, preA, r2, c2, keyC, preC, c.rtRows(keyA, rows), c.rtRows(keyC, r2), out)
			c.branch("cms.merge-mismatch-" + out)
			hist = append(hist, fmt.Sprintf("M:A<-C(%dx%d)", r2, c2))
		default:
			if damaged {
				continue
			}
			d, err := parseCMS(A.Export())
			if err != nil {
				continue
			}
			c.op("cms.abs")
			c.emit("rt.cms.abs %d %d %s %s %s", rows, cols, keyA, c.rtRows(keyA, rows), matrixStr(d.M))
		}
	}
	if changes >= 3 && queries >= 1 {
		c.nontrivial(cfg + fmt.Sprint(hist))
	}
	c.sample(map[string]interface{}{"config": cfg, "history": hist})
}

// ---------------------------------------------------------------------------------------------
// (b) HyperLogLog

func rtHLLCase(c *Ctx) {
	m := []uint64{4, 16, 32, 64, 128, 128, 256}[c.rng.Intn(7)]
	cfg := fmt.Sprintf("rt-hll(m=%d)", m)
	mkHLL := func(mm uint64) (*gostatix.HyperLogLogRedis, string) {
		before := c.rtKeySet()
		var h *gostatix.HyperLogLogRedis
		var err error
		res := safely(func() { h, err = gostatix.NewHyperLogLogRedis(mm) })
		c.op("hll.init")
		if res.panicked || err != nil || h == nil {
			// the metadata hash is written before the init script: find the key through it
			for _, mk := range c.rtNewKeys(before, "hash") {
				if key := c.mr.HGet(mk, "key"); key != "" && c.mr.HGet(mk, "numRegisters") == strconv.FormatUint(mm, 10) {
					c.emit("rt.hll.init %d %s %s %s err", mm, key, rtAbsent(before, key), c.rtList(key))
					c.branch("hll.init-err")
				}
			}
			return nil, ""
		}
		d, err := parseHLL(h.Export())
		if err != nil {
			return nil, ""
		}
		c.emit("rt.hll.init %d %s %s %s ok", mm, d.K, rtAbsent(before, d.K), c.rtList(d.K))
		return h, d.K
	}
	if c.rng.Intn(4) == 0 {
		mkHLL(1) // one register: the init script pushes no value and fails
	}
	A, keyA := mkHLL(m)
	B, keyB := mkHLL(m)
	if A == nil || B == nil {
		c.fail([]string{"C08"}, "hll-constructor", cfg+": constructor failed", cfg)
		return
	}
	c.rep.Cases++
	pool := elemPool(c.rng, 6+c.rng.Intn(8), false)
	ivs := make([]hllIV, len(pool))
	for j, e := range pool {
		iv, err := learnHLL(m, true, e)
		if err != nil || iv.val == 0 {
			// the update fails (register index = rank >= m) or leaves no visible trace: the index is
			// the rank the code computes (rankOf, as in suite hllacc); the value is irrelevant then
			iv = hllIV{uint64(uint8(rankOf(e, m))), 0}
		}
		ivs[j] = iv
	}
	for n := c.rng.Intn(6); n > 0; n-- {
		safely(func() { B.Update(pool[c.rng.Intn(len(pool))]) })
	}
	client := gostatix.VerifRedisClient()
	nops := 8 + c.rng.Intn(12)
	damageAt := -1
	if c.rng.Intn(5) < 2 {
		damageAt = nops/2 + c.rng.Intn(nops/2)
	}
	damaged := false
	var hist []string
	changes, queries := 0, 0
	eqTok := func(ok bool, err error, panicked bool) string {
		switch {
		case panicked:
			return "err"
		case err != nil && strings.Contains(err.Error(), "redis: nil"):
			return "0n" // the script returned false: a nil reply, which go-redis' Bool() reports as redis.Nil
		case err != nil:
			return "err"
		case ok:
			return "1"
		}
		return "0"
	}
	for opn := 0; opn < nops; opn++ {
		if opn == damageAt {
			switch c.rng.Intn(4) {
			case 0:
				client.Del(rtRaw(), keyA)
				hist = append(hist, "DEL")
			case 1:
				client.LSet(rtRaw(), keyA, int64(c.rng.Intn(int(m))), "x")
				hist = append(hist, "LSET-x")
			case 2:
				client.RPop(rtRaw(), keyA)
				hist = append(hist, "RPOP")
			default:
				client.RPush(rtRaw(), keyA, "7")
				hist = append(hist, "RPUSH-7")
			}
			damaged = true
			c.branch("hll-damaged")
		}
		j := c.rng.Intn(len(pool))
		switch r := c.rng.Intn(20); {
		case r < 11:
			pre := c.rtList(keyA)
			var uerr error
			res := safely(func() { uerr = A.Update(pool[j]) })
			c.op("hll.update")
			out := okErr(uerr, res.panicked)
			c.emit("rt.hll.update %d %s %s %d %d %s %s", m, keyA, pre, ivs[j].idx, ivs[j].val, c.rtList(keyA), out)
			c.branch("hll.update-" + out)
			hist = append(hist, fmt.Sprintf("U%d", j))
			changes++
		case r < 14:
			X, keyX, Y, keyY := A, keyA, B, keyB
			if c.rng.Intn(3) == 0 {
				X, keyX, Y, keyY = B, keyB, A, keyA
			}
			if c.rng.Intn(4) == 0 {
				Y, keyY = X, keyX
			}
			preX, preY := c.rtList(keyX), c.rtList(keyY)
			var merr error
			res := safely(func() { merr = X.Merge(Y) })
			c.op("hll.merge")
			out := okErr(merr, res.panicked)
			c.emit("rt.hll.merge %d %s %s %d %s %s %s %s %s", m, keyX, preX, m, keyY, preY, c.rtList(keyX), c.rtList(keyY), out)
			c.branch("hll.merge-" + out)
			hist = append(hist, fmt.Sprintf("M:%v<-%v", keyX == keyA, keyY == keyA))
			changes++
		case r < 17:
			Y, keyY := B, keyB
			if c.rng.Intn(4) == 0 {
				Y, keyY = A, keyA
			}
			preA, preY := c.rtList(keyA), c.rtList(keyY)
			var ok bool
			var eerr error
			res := safely(func() { ok, eerr = A.Equals(Y) })
			c.op("hll.equals")
			out := eqTok(ok, eerr, res.panicked)
			c.emit("rt.hll.equals %d %s %s %d %s %s %s", m, keyA, preA, m, keyY, preY, out)
			c.branch("hll.equals-" + out)
			hist = append(hist, "E")
			queries++
		case r < 18:
			// different register counts: merge and equals are answered by the Go code alone
			C, keyC := mkHLL(m * 2)
			if C == nil {
				continue
			}
			preA, preC := c.rtList(keyA), c.rtList(keyC)
			var merr error
			res := safely(func() { merr = A.Merge(C) })
			c.op("hll.merge")
			out := okErr(merr, res.panicked)
			c.emit("rt.hll.merge %d %s %s %d %s %s %s %s %s", m, keyA, preA, m*2, keyC, preC, c.rtList(keyA), c.rtList(keyC), out)
			c.branch("hll.merge-mismatch-" + out)
			var ok bool
			var eerr error
			res = safely(func() { ok, eerr = A.Equals(C) })
			c.emit("rt.hll.equals %d %s %s %d %s %s %s", m, keyA, c.rtList(keyA), m*2, keyC, c.rtList(keyC), eqTok(ok, eerr, res.panicked))
			hist = append(hist, "mismatch")
		default:
			if damaged {
				continue
			}
			regs, err := hllRegs(hllRedis{A})
			if err != nil {
				continue
			}
			c.op("hll.abs")
			c.emit("rt.hll.abs %d %s %s %s", m, keyA, c.rtList(keyA), natList(regs))
			queries++
		}
	}
	if changes >= 3 && queries >= 1 {
		c.nontrivial(cfg + fmt.Sprint(hist))
	}
	c.sample(map[string]interface{}{"config": cfg, "pool": poolHex(pool), "history": hist})
}

// ---------------------------------------------------------------------------------------------
// (b) Bloom filter

// bitsOfRaw: indexes of the set bits of a Redis string (bit n = byte n/8, bit 7-n%8)
func bitsOfRaw(raw string) []uint64 {
	var out []uint64
	for n := 0; n < len(raw)*8; n++ {
		if raw[n/8]>>(7-uint(n%8))&1 == 1 {
			out = append(out, uint64(n))
		}
	}
	return out
}

func rtBloomCase(c *Ctx, caseNo int) {
	spec := rtRandBloomSpec(c, []string{"bloom-params", "bloom-params", "bloom-bitset"}[c.rng.Intn(3)])
	cfg := spec.cfg()
	f, err := cfg.build()
	if err != nil || f == nil {
		c.fail([]string{"C08"}, "bloom-constructor", fmt.Sprintf("constructor failed: %v (%s)", err, cfg), cfg.String())
		return
	}
	c.rep.Cases++
	mk := f.GetMetadataKey()
	bk := c.mr.HGet(mk, "bitsetKey")
	size, k := f.GetCap(), f.GetNumHashes()
	pool := elemPool(c.rng, 5+c.rng.Intn(6), false)
	probes := make([][]uint64, len(pool))
	for j, e := range pool {
		g, err := cfg.build()
		if err != nil || g == nil {
			c.fail([]string{"C08"}, "bloom-constructor", fmt.Sprintf("constructor failed: %v", err), cfg.String())
			return
		}
		gbk := c.mr.HGet(g.GetMetadataKey(), "bitsetKey")
		g.Insert(e)
		raw, _ := c.mr.Get(gbk)
		probes[j] = bitsOfRaw(raw)
		if len(probes[j]) == 0 || uint(len(probes[j])) > k {
			c.fail([]string{"C08"}, "bloom-probe", fmt.Sprintf("%s: insert into a fresh filter set %d bits (k=%d)", cfg, len(probes[j]), k), cfg.String())
			return
		}
	}
	// half of the histories go through a handle re-attached from the metadata key
	h := f
	via := "creator"
	if caseNo%2 == 1 {
		if g, err := gostatix.NewRedisBloomFilterFromKey(mk); err == nil && g != nil {
			h, via = g, "attached"
		}
	}
	client := gostatix.VerifRedisClient()
	nops := 8 + c.rng.Intn(10)
	damageAt := -1
	if c.rng.Intn(5) < 2 {
		damageAt = nops/2 + c.rng.Intn(nops/2)
	}
	damaged := false
	var hist []string
	changes, queries := 0, 0
	for opn := 0; opn < nops; opn++ {
		if opn == damageAt {
			cur, _ := c.mr.Get(bk)
			if c.rng.Intn(2) == 0 || len(cur) == 0 {
				client.Del(rtRaw(), bk)
				hist = append(hist, "DEL")
			} else {
				keep := c.rng.Intn(len(cur))
				client.Set(rtRaw(), bk, cur[:keep], 0)
				hist = append(hist, fmt.Sprintf("TRUNC%d", keep))
			}
			damaged = true
			c.branch("bloom-damaged")
		}
		j := c.rng.Intn(len(pool))
		e := pool[j]
		switch r := c.rng.Intn(20); {
		case r < 9:
			pre := c.rtBytes(bk)
			var res callResult
			if r%2 == 0 {
				res = safely(func() { h.Insert(e) })
			} else {
				res = safely(func() { h.InsertString(string(e)) })
			}
			c.op("bloom.insert")
			if res.panicked {
				c.fail([]string{"C08"}, "bloom-panic", "Insert panicked: "+res.panicVal, cfg.String())
				return
			}
			post := c.rtBytes(bk)
			c.emit("rt.bloom.insert %s %s %s %s", bk, pre, natList(probes[j]), post)
			if len(post) != len(pre) {
				c.branch("bloom.insert-grows")
			}
			hist = append(hist, fmt.Sprintf("I%d", j))
			changes++
		case r < 18:
			pre := c.rtBytes(bk)
			var got bool
			res := safely(func() { got = h.Lookup(e) })
			c.op("bloom.lookup")
			if res.panicked {
				c.fail([]string{"C08"}, "bloom-panic", "Lookup panicked: "+res.panicVal, cfg.String())
				return
			}
			c.emit("rt.bloom.lookup %s %s %s %s %d", bk, pre, natList(probes[j]), c.rtBytes(bk), b2i(got))
			c.branch(fmt.Sprintf("bloom.lookup-%d", b2i(got)))
			hist = append(hist, fmt.Sprintf("L%d", j))
			queries++
		default:
			raw, _ := c.mr.Get(bk)
			if damaged || uint(8*len(raw)) < size {
				continue // absBloom is defined for bitmaps holding at least `size` bits
			}
			a, err := bloomAbsRedis(h)
			if err != nil {
				continue
			}
			c.op("bloom.abs")
			c.emit("rt.bloom.abs %d %d %s %s %s", size, k, bk, c.rtBytes(bk), natList(a.Bits))
		}
	}
	desc := fmt.Sprintf("%s via %s %v", cfg, via, hist)
	if changes >= 3 && queries >= 1 {
		c.nontrivial(desc)
	}
	c.sample(map[string]interface{}{"config": cfg.String(), "via": via, "size": size, "numHashes": k, "history": hist})
}
