package main

import (
	"bytes"
	"encoding/binary"
	"fmt"
	"io"
	"math"
	"math/rand"
	"strings"

	"github.com/kwertop/gostatix"
)

// suite "persist": C11 (binary round trip, byte counts, back-to-back streams) and C18 (every
// strict prefix of the binary image and of the JSON document is rejected), for the five
// in-memory structures.  Encoder/decoder correspondence lines: enc.<S>, dec.<S>.

type persistObj struct {
	kind     string
	writeTo  func(w io.Writer) (int64, error)
	export   func() ([]byte, error)
	fresh    func() persistTarget // a fresh instance to read/import into (with other state)
	encLine  func(raw []byte, cnt int64) (string, error)
	equalsTo func(t persistTarget) (bool, error)
	queries  func() string // canonical answers to a fixed set of queries
	rawObj   interface{}   // the library object itself
	// poke applies a fixed continuation of the history to a library object of this kind (the
	// original and the restored instance must stay indistinguishable under it)
	poke func(x interface{})
}

func (o persistObj) raw() interface{} { return o.rawObj }

type persistTarget struct {
	readFrom func(r io.Reader) (int64, error)
	imp      func(data []byte) error
	export   func() ([]byte, error)
	queries  func() string
	raw      interface{}
}

func init() { register("persist", suitePersist) }

func f64bits(f float64) uint64 { return math.Float64bits(f) }

func bucketImgStr(b bucketDoc) string {
	es := make([]string, len(b.E))
	for i, e := range b.E {
		if e == "" {
			es[i] = "_"
		} else {
			es[i] = hexStr([]byte(e))
		}
	}
	el := "-"
	if len(es) > 0 {
		el = strings.Join(es, ",")
	}
	return fmt.Sprintf("%d:%d:%s", b.S, b.L, el)
}

func cuckooImgStr(d cuckooDoc) string {
	bs := "-"
	if len(d.B) > 0 {
		parts := make([]string, len(d.B))
		for i, b := range d.B {
			parts[i] = bucketImgStr(b)
		}
		bs = strings.Join(parts, ";")
	}
	return fmt.Sprintf("%d %d %d %d %d %s", d.S, d.BS, d.FPL, d.L, d.R, bs)
}

func heapImgStr(h []heapDoc) string {
	if len(h) == 0 {
		return "-"
	}
	parts := make([]string, len(h))
	for i, e := range h {
		v := "_"
		if e.V != "" {
			v = hexStr([]byte(e.V))
		}
		parts[i] = fmt.Sprintf("%s:%d", v, e.F)
	}
	return strings.Join(parts, ",")
}

func cmsImgStr(d cmsDoc) string {
	return fmt.Sprintf("%d %d %d %s", d.R, d.C, d.S, matrixStr(d.M))
}

// ---- builders of random reachable states ------------------------------------------------------

func persistBloom(c *Ctx) persistObj {
	cfg := randBloomCfg(c, 0)
	return persistBloomWith(c, cfg)
}

func persistBloomWith(c *Ctx, cfg bloomCfg) persistObj {
	cfg.redis = false
	f, _ := cfg.build()
	pool := elemPool(c.rng, 8, false)
	for i := 0; i < c.rng.Intn(10); i++ {
		f.Insert(pool[c.rng.Intn(len(pool))])
	}
	q := func(g *gostatix.BloomFilter) func() string {
		return func() string {
			var sb strings.Builder
			fmt.Fprintf(&sb, "%d/%d:", g.GetCap(), g.GetNumHashes())
			for _, e := range pool {
				fmt.Fprintf(&sb, "%v,", g.Lookup(e))
			}
			return sb.String()
		}
	}
	mkTarget := func() persistTarget {
		g, _ := gostatix.NewMemBloomFilterWithParameters(50, 0.1)
		g.Insert([]byte("other state"))
		return persistTarget{readFrom: g.ReadFrom, imp: g.Import, export: g.Export, queries: q(g), raw: g}
	}
	return persistObj{
		kind: "bloom", writeTo: f.WriteTo, export: f.Export, fresh: mkTarget, queries: q(f), rawObj: f,
		poke: func(x interface{}) {
			g := x.(*gostatix.BloomFilter)
			g.Insert(pool[0])
			g.Insert([]byte("poke"))
		},
		encLine: func(raw []byte, cnt int64) (string, error) {
			a, err := bloomAbsMem(f)
			if err != nil {
				return "", err
			}
			if len(raw) < 24 {
				return "", fmt.Errorf("image too short")
			}
			bsSize := binary.BigEndian.Uint64(raw[16:24])
			return fmt.Sprintf("enc.bloom %d %d %d %d %s %d %s", a.Size, a.K, bsSize, a.BsLen, natList(a.Words), cnt, hexStr(raw)), nil
		},
		equalsTo: func(t persistTarget) (bool, error) { return f.Equals(t.raw.(*gostatix.BloomFilter)) },
	}
}

// a bit array of several 4 KiB blocks
func persistBloomBig(c *Ctx) persistObj {
	o := persistBloomWith(c, bloomCfg{kind: "bitset", words: 1100 + c.rng.Intn(900), numHashes: 5})
	return o
}

func persistCMS(c *Ctx) persistObj {
	return persistCMSDims(c, uint(1+c.rng.Intn(4)), []uint{1, 2, 3, 7}[c.rng.Intn(4)])
}

// rows wider than any chunk size an implementation might read or write in (8192 counters)
func persistCMSWide(c *Ctx) persistObj {
	return persistCMSDims(c, 1+uint(c.rng.Intn(2)), 8200+uint(c.rng.Intn(900)))
}

func persistCMSDims(c *Ctx, rows, cols uint) persistObj {
	s, _ := gostatix.NewCountMinSketch(rows, cols)
	pool := elemPool(c.rng, 8, false)
	if c.rng.Intn(4) == 0 {
		// a sketch that only ever received merges (never an Update of its own)
		src, _ := gostatix.NewCountMinSketch(rows, cols)
		for i := 0; i < 1+c.rng.Intn(6); i++ {
			src.Update(pool[c.rng.Intn(len(pool))], cmsCounts[c.rng.Intn(len(cmsCounts))])
		}
		s.Merge(src)
		c.branch("cms-merge-only")
	} else {
		for i := 0; i < c.rng.Intn(10); i++ {
			s.Update(pool[c.rng.Intn(len(pool))], cmsCounts[c.rng.Intn(len(cmsCounts))])
		}
	}
	q := func(g *gostatix.CountMinSketch) func() string {
		return func() string {
			var sb strings.Builder
			fmt.Fprintf(&sb, "%d/%d:", g.GetRows(), g.GetColumns())
			for _, e := range pool {
				fmt.Fprintf(&sb, "%d,", g.Count(e))
			}
			return sb.String()
		}
	}
	mkTarget := func() persistTarget {
		g, _ := gostatix.NewCountMinSketch(2, 5)
		g.Update([]byte("other"), 9)
		return persistTarget{readFrom: g.ReadFrom, imp: g.Import, export: g.Export, queries: q(g), raw: g}
	}
	return persistObj{
		kind: "cms", writeTo: s.WriteTo, export: s.Export, fresh: mkTarget, queries: q(s), rawObj: s,
		poke: func(x interface{}) {
			g := x.(*gostatix.CountMinSketch)
			g.Update(pool[0], 3)
			g.Update([]byte("poke"), 1)
		},
		encLine: func(raw []byte, cnt int64) (string, error) {
			d, err := parseCMS(s.Export())
			if err != nil {
				return "", err
			}
			return fmt.Sprintf("enc.cms %s %d %s", cmsImgStr(d), cnt, hexStr(raw)), nil
		},
		equalsTo: func(t persistTarget) (bool, error) { return s.Equals(t.raw.(*gostatix.CountMinSketch)), nil },
	}
}

func persistHLL(c *Ctx) persistObj {
	return persistHLLSize(c, []uint64{128, 128, 256, 512}[c.rng.Intn(4)])
}

// more registers than any cap an implementation might put on what it allocates from a header (2^16)
func persistHLLBig(c *Ctx) persistObj { return persistHLLSize(c, 1<<17) }

func persistHLLSize(c *Ctx, m uint64) persistObj {
	h, _ := gostatix.NewHyperLogLog(m)
	pool := elemPool(c.rng, 12, false)
	for i := 0; i < c.rng.Intn(12); i++ {
		h.Update(pool[c.rng.Intn(len(pool))])
	}
	q := func(g *gostatix.HyperLogLog) func() string {
		return func() string {
			return fmt.Sprintf("%d:%d,%d,%d,%d", g.NumRegisters(), g.Count(false, false), g.Count(false, true), g.Count(true, false), g.Count(true, true))
		}
	}
	mkTarget := func() persistTarget {
		g, _ := gostatix.NewHyperLogLog(1024)
		g.Update([]byte("other"))
		return persistTarget{readFrom: g.ReadFrom, imp: g.Import, export: g.Export, queries: q(g), raw: g}
	}
	return persistObj{
		kind: "hll", writeTo: h.WriteTo, export: h.Export, fresh: mkTarget, queries: q(h), rawObj: h,
		poke: func(x interface{}) {
			g := x.(*gostatix.HyperLogLog)
			g.Update(pool[0])
			g.Update([]byte("poke"))
		},
		encLine: func(raw []byte, cnt int64) (string, error) {
			d, err := parseHLL(h.Export())
			if err != nil {
				return "", err
			}
			return fmt.Sprintf("enc.hll %d %d %d %s %d %s", d.NR, d.NBP, f64bits(d.C), hexStr(d.R), cnt, hexStr(raw)), nil
		},
		equalsTo: func(t persistTarget) (bool, error) { return h.Equals(t.raw.(*gostatix.HyperLogLog)), nil },
	}
}

func persistCuckoo(c *Ctx) persistObj {
	n := []uint64{1, 2, 4, 8}[c.rng.Intn(4)]
	b := []uint64{1, 2, 4}[c.rng.Intn(3)]
	fpl := []uint64{1, 2, 4}[c.rng.Intn(3)]
	anyElement := c.rng.Intn(6) == 0
	if anyElement {
		// fingerprint length 20 with elements whose hash has fewer digits (finding D3: such an Insert
		// counts an entry it does not store): a reachable state like any other, the image carries it
		fpl = 20
	}
	f := gostatix.NewCuckooFilterWithRetries(n, b, fpl, 10)
	var pool [][]byte
	for _, e := range elemPool(c.rng, 14, false) {
		if _, _, _, ok := cuckooPos(e, n, fpl); ok || anyElement {
			pool = append(pool, e)
		}
	}
	var inserted [][]byte
	for i := 0; i < c.rng.Intn(int(n*b)+3); i++ {
		e := pool[c.rng.Intn(len(pool))]
		if r := safely(func() { f.Insert(e, false) }); !r.panicked {
			inserted = append(inserted, e)
		}
	}
	if c.rng.Intn(4) == 0 {
		// exactly full: every cell occupied (Length == CellSize), no removals
		for i := 0; i < 400 && f.Length() < n*b; i++ {
			e := []byte(fmt.Sprintf("fill-%d", i))
			if _, _, _, ok := cuckooPos(e, n, fpl); ok {
				safely(func() { f.Insert(e, false) })
			}
		}
		if f.Length() == n*b {
			c.branch("cuckoo-exactly-full")
		}
	} else {
		// removals leave holes in the middle of buckets
		for _, e := range inserted {
			if c.rng.Intn(3) == 0 {
				f.Remove(e)
			}
		}
	}
	q := func(g *gostatix.CuckooFilter) func() string {
		return func() string {
			var sb strings.Builder
			fmt.Fprintf(&sb, "%d/%d/%d/%d/%d:", g.Size(), g.BucketSize(), g.FingerPrintLength(), g.Retries(), g.Length())
			res := safely(func() {
				for _, e := range pool {
					fmt.Fprintf(&sb, "%v,", g.Lookup(e))
				}
			})
			if res.panicked {
				sb.WriteString("PANIC:" + res.panicVal)
			}
			return sb.String()
		}
	}
	mkTarget := func() persistTarget {
		g := gostatix.NewCuckooFilter(3, 2, 3)
		g.Insert([]byte("other"), false)
		return persistTarget{readFrom: g.ReadFrom, imp: g.Import, export: g.Export, queries: q(g), raw: g}
	}
	return persistObj{
		kind: "cuckoo", writeTo: f.WriteTo, export: f.Export, fresh: mkTarget, queries: q(f), rawObj: f,
		poke: func(x interface{}) {
			g := x.(*gostatix.CuckooFilter)
			for _, e := range pool[:min(2, len(pool))] {
				// re-insertion only into the slot just freed: no relocation, nothing random
				if g.Remove(e) {
					g.Insert(e, false)
				}
			}
			if len(inserted) > 0 {
				g.Remove(inserted[0])
			}
		},
		encLine: func(raw []byte, cnt int64) (string, error) {
			d, err := parseCuckoo(f.Export())
			if err != nil {
				return "", err
			}
			return fmt.Sprintf("enc.cuckoo %s %d %s", cuckooImgStr(d), cnt, hexStr(raw)), nil
		},
		equalsTo: func(t persistTarget) (bool, error) { return f.Equals(t.raw.(*gostatix.CuckooFilter)), nil },
	}
}

func persistTopK(c *Ctx) persistObj { return persistTopKWith(c, nil) }

// an element longer than 64 KiB, heaviest and inserted last: it ends the image
func persistTopKHuge(c *Ctx) persistObj {
	big := make([]byte, 66000+c.rng.Intn(3000))
	for i := range big {
		big[i] = "abcdefghijklmnopqrstuvwxyz0123456789"[c.rng.Intn(36)]
	}
	return persistTopKWith(c, big)
}

func persistTopKWith(c *Ctx, last []byte) persistObj {
	k := []uint{1, 2, 3, 5}[c.rng.Intn(4)]
	if last == nil && c.rng.Intn(10) == 0 {
		k = []uint{math.MaxUint64, math.MaxInt64 + 1, 1 << 40}[c.rng.Intn(3)] // "unbounded" top-k: k is only a number
	}
	er := []float64{3, 1, 0.5}[c.rng.Intn(3)]
	acc := []float64{0.5, 0.2}[c.rng.Intn(2)]
	t := gostatix.NewTopK(k, er, acc)
	pool := elemPool(c.rng, 8, true)
	if last != nil {
		defer t.Insert(last, 1000)
	}
	// often fewer distinct elements than k: partially filled heap
	nd := 1 + c.rng.Intn(len(pool))
	for i := 0; i < c.rng.Intn(12); i++ {
		t.Insert(pool[c.rng.Intn(nd)], uint64(1+c.rng.Intn(3)))
	}
	q := func(g *gostatix.TopK) func() string {
		return func() string { return fmt.Sprint(topkElems(g.Values())) }
	}
	mkTarget := func() persistTarget {
		g := gostatix.NewTopK(4, 0.2, 0.1)
		g.Insert([]byte("other"), 2)
		return persistTarget{readFrom: g.ReadFrom, imp: g.Import, export: g.Export, queries: q(g), raw: g}
	}
	return persistObj{
		kind: "topk", writeTo: t.WriteTo, export: t.Export, fresh: mkTarget, queries: q(t), rawObj: t,
		poke: func(x interface{}) {
			g := x.(*gostatix.TopK)
			g.Insert(pool[0], 1)
			g.Insert(pool[1], 2)
			g.Insert([]byte("other"), 1)
			g.Insert(pool[0], 1)
		},
		encLine: func(raw []byte, cnt int64) (string, error) {
			d, err := parseTopK(t.Export())
			if err != nil {
				return "", err
			}
			return fmt.Sprintf("enc.topk %d %d %d %s %s %d %s", d.K, f64bits(d.ER), f64bits(d.A), cmsImgStr(d.S), heapImgStr(d.H), cnt, hexStr(raw)), nil
		},
		equalsTo: func(t2 persistTarget) (bool, error) { return t.Equals(t2.raw.(*gostatix.TopK)) },
	}
}

// decLineOK: what a successful ReadFrom produced, as the model decoder's answer
func decLineOK(kind string, consumed int64, t persistTarget, raw []byte) (string, error) {
	data, err := t.export()
	if err != nil {
		return "", err
	}
	switch kind {
	case "bloom":
		a, err := bloomAbsMemDoc(data)
		if err != nil {
			return "", err
		}
		bsSize := binary.BigEndian.Uint64(raw[16:24])
		return fmt.Sprintf("ok %d %d %d %d %d %s", consumed, a.Size, a.K, bsSize, a.BsLen, natList(a.Words)), nil
	case "cms":
		d, err := parseCMS(data, nil)
		return fmt.Sprintf("ok %d %s", consumed, cmsImgStr(d)), err
	case "hll":
		d, err := parseHLL(data, nil)
		return fmt.Sprintf("ok %d %d %d %d %s", consumed, d.NR, d.NBP, f64bits(d.C), hexStr(d.R)), err
	case "cuckoo":
		d, err := parseCuckoo(data, nil)
		return fmt.Sprintf("ok %d %s", consumed, cuckooImgStr(d)), err
	default:
		d, err := parseTopK(data, nil)
		return fmt.Sprintf("ok %d %d %d %d %s %s", consumed, d.K, f64bits(d.ER), f64bits(d.A), cmsImgStr(d.S), heapImgStr(d.H)), err
	}
}

func suitePersist(c *Ctx) {
	c.rep.Rule = "case = one reachable state of an in-memory structure (empty, partially filled buckets with holes, partially filled heaps, ...): WriteTo, ReadFrom into an instance holding other state, with a random tail, back-to-back with a second structure; every strict prefix of the binary image and of the JSON document fed to ReadFrom/Import; non-trivial = non-empty payload; distinct by image bytes"
	builders := []func(*Ctx) persistObj{persistBloom, persistCMS, persistHLL, persistCuckoo, persistTopK}
	cases := c.scale(250, 2500)
	for i := 0; i < cases; i++ {
		o := builders[i%len(builders)](c)
		var second *persistObj
		if c.rng.Intn(2) == 0 {
			s := builders[c.rng.Intn(len(builders))](c)
			second = &s
		}
		persistCase(c, o, second)
	}
	for i := 0; i < c.scale(1, 4); i++ {
		persistCase(c, persistCMSWide(c), nil)
		persistCase(c, persistHLLBig(c), nil)
		persistCase(c, persistBloomBig(c), nil)
		b := persistBloom(c)
		persistCase(c, persistTopKHuge(c), &b)
	}
}

func persistCase(c *Ctx, o persistObj, second *persistObj) {
	c.rep.Cases++
	props := []string{"C11"}
	var buf bytes.Buffer
	var n int64
	var werr error
	res := safely(func() { n, werr = o.writeTo(&buf) })
	c.op("WriteTo." + o.kind)
	if res.panicked || werr != nil {
		c.fail(props, o.kind+"-writeto-fails", fmt.Sprintf("%s: WriteTo failed on a reachable state: %v %v", o.kind, res.panicVal, werr), o.queries())
		return
	}
	raw := append([]byte(nil), buf.Bytes()...)
	replay := map[string]interface{}{"kind": o.kind, "image_hex": hexStr(raw)}
	if n != int64(len(raw)) {
		c.fail(props, o.kind+"-write-count", fmt.Sprintf("%s: WriteTo reported %d bytes, wrote %d", o.kind, n, len(raw)), replay)
	}
	if line, err := o.encLine(raw, n); err == nil {
		c.emit("%s", line)
	} else {
		c.fail(props, o.kind+"-export", err.Error(), replay)
	}
	if len(raw) > 40 {
		c.nontrivial(o.kind + hexStr(raw))
	}
	// read back, followed by a random tail
	tail := randBytes(c.rng, c.rng.Intn(9))
	stream := bytes.NewReader(append(append([]byte(nil), raw...), tail...))
	rkind := c.rng.Intn(4)
	c.branch("reader-" + readerKindName(rkind))
	t := o.fresh()
	if c.rep.Cases%2 == 0 {
		t.queries() // the receiving instance has been queried before (anything it cached is now stale)
	}
	var rn int64
	var rerr error
	c.pending(append(props, "C18"), o.kind+"-readfrom-kills-process", fmt.Sprintf("%s: ReadFrom of its own complete image through a %s stream ended the process (fatal runtime error)", o.kind, readerKindName(rkind)), replay)
	res = safely(func() { rn, rerr = t.readFrom(wrapReader(stream, rkind, c.rng.Int63())) })
	c.done()
	c.op("ReadFrom." + o.kind)
	if res.panicked || rerr != nil {
		c.fail(append(props, "C18"), o.kind+"-readfrom-fails", fmt.Sprintf("%s: ReadFrom of a complete image failed: %v %v", o.kind, res.panicVal, rerr), replay)
		return
	}
	consumed := int64(len(raw)+len(tail)) - int64(stream.Len())
	if consumed != int64(len(raw)) {
		c.fail(props, o.kind+"-read-consumes", fmt.Sprintf("%s: ReadFrom consumed %d bytes of a %d-byte image", o.kind, consumed, len(raw)), replay)
	}
	if rn != consumed {
		c.fail(props, o.kind+"-read-count", fmt.Sprintf("%s: ReadFrom reported %d bytes, consumed %d", o.kind, rn, consumed), replay)
	}
	if dl, err := decLineOK(o.kind, consumed, t, raw); err == nil {
		c.emit("dec.%s %s %s", o.kind, hexStr(append(append([]byte(nil), raw...), tail...)), dl)
	}
	e1, _ := o.export()
	e2, _ := t.export()
	if !bytes.Equal(e1, e2) {
		c.fail(props, o.kind+"-roundtrip-state", fmt.Sprintf("%s: reconstructed structure exports differently", o.kind), replay)
	}
	if q1, q2 := o.queries(), t.queries(); q1 != q2 {
		c.fail(props, o.kind+"-roundtrip-queries", fmt.Sprintf("%s: reconstructed structure answers differently: %s vs %s", o.kind, q1, q2), replay)
	}
	if ok, err := o.equalsTo(t); !ok {
		c.fail(append(props, "C17"), o.kind+"-roundtrip-equals", fmt.Sprintf("%s: reconstructed structure not Equal to the original (%v)", o.kind, err), replay)
	}
	// a restored sketch is as good a Merge argument as the one that was written
	persistMergeRestored(c, o, t, replay)
	// ... and the history goes on from the restored instance as from the original (the receiving
	// instance had a life before ReadFrom: nothing of it may survive)
	if o.poke != nil && o.raw() != nil && c.rep.Cases%3 != 0 {
		r1 := safely(func() { o.poke(o.raw()) })
		r2 := safely(func() { o.poke(t.raw) })
		pe1, _ := o.export()
		pe2, _ := t.export()
		if r1.panicked != r2.panicked || o.queries() != t.queries() || !bytes.Equal(pe1, pe2) {
			kp := map[string][]string{"bloom": {"C01"}, "cuckoo": {"C02", "C13"}, "cms": {"C03"}, "hll": {"C06"}, "topk": {"C04"}}[o.kind]
			c.fail(append(append([]string{}, props...), kp...), o.kind+"-diverges-after-restore", fmt.Sprintf("%s: the same further operations applied to the original and to the instance restored from its image give different structures: %s vs %s (panics %v/%v)", o.kind, o.queries(), t.queries(), r1.panicked, r2.panicked), replay)
		}
		c.branch("continued-after-restore")
	}
	// back to back with a second structure in one stream
	if second != nil {
		var b2 bytes.Buffer
		n1, _ := o.writeTo(&b2)
		var n2 int64
		var err2 error
		r2 := safely(func() { n2, err2 = second.writeTo(&b2) })
		if !r2.panicked && err2 == nil {
			rd := bytes.NewReader(b2.Bytes())
			// one stream object for both reads, of a random kind (a file or a socket is neither
			// an io.ByteReader nor does it fill the buffer it is given)
			shared := wrapReader(rd, c.rng.Intn(4), c.rng.Int63())
			t1, t2 := o.fresh(), second.fresh()
			var m1, m2 int64
			var er1, er2 error
			c.pending(props, o.kind+"+"+second.kind+"-back-to-back-kills-process", fmt.Sprintf("%s then %s in one stream: reading them back ended the process (fatal runtime error)", o.kind, second.kind), replay)
			r3 := safely(func() { m1, er1 = t1.readFrom(shared); m2, er2 = t2.readFrom(shared) })
			c.done()
			if r3.panicked || er1 != nil || er2 != nil || rd.Len() != 0 || m1 != n1 || m2 != n2 {
				c.fail(props, o.kind+"+"+second.kind+"-back-to-back", fmt.Sprintf("%s then %s in one stream: read failed or misaligned (%v %v %v, %d left, counts %d/%d vs %d/%d)", o.kind, second.kind, r3.panicVal, er1, er2, rd.Len(), m1, m2, n1, n2), replay)
			} else if t2.queries() != second.queries() {
				c.fail(props, o.kind+"+"+second.kind+"-back-to-back", "second structure of the stream answers differently", replay)
			}
			c.branch("back-to-back")
		}
	}
	// ---- a writer that fails (disk full, connection reset) after `lim` bytes: WriteTo must say so,
	// wherever in the image the failure falls (a torn image reported as written is what C18's
	// readers then meet), and must not claim more bytes than the writer took
	var cur bytes.Buffer // the structure may have moved on since `raw` was taken
	o.writeTo(&cur)
	for _, lim := range writeFaultPoints(cur.Len()) {
		fw := &failingWriter{limit: lim}
		var wn int64
		var werr error
		res := safely(func() { wn, werr = o.writeTo(fw) })
		c.rep.Ops["WriteTo.failing-writer"]++
		if res.panicked || werr == nil || wn > int64(lim) {
			c.fail([]string{"C11", "C18"}, o.kind+"-writeto-hides-write-error", fmt.Sprintf("%s: the writer failed after %d of %d bytes; WriteTo returned (%d, %v) panic=%q", o.kind, lim, cur.Len(), wn, werr, res.panicVal), map[string]interface{}{"kind": o.kind, "image_hex": hexStr(cur.Bytes()), "writer_fails_after": lim})
			break
		}
	}
	// ---- C18: every strict prefix of the binary image is rejected
	step := 1
	if len(raw) > 3000 {
		step = len(raw) / 1500
	}
	emitted := 0
	for _, cut := range cutPoints(len(raw), step) {
		t := o.fresh()
		var rerr error
		if cut%16 == 0 {
			c.pending([]string{"C18", "C11"}, o.kind+"-prefix-kills-process", fmt.Sprintf("%s: ReadFrom of a prefix (around byte %d of %d) ended the process (fatal runtime error)", o.kind, cut, len(raw)), map[string]interface{}{"kind": o.kind, "image_hex": hexStr(raw), "cut_from": cut})
		}
		res := safely(func() { _, rerr = t.readFrom(wrapReader(bytes.NewReader(raw[:cut]), cut%4, int64(cut))) })
		c.rep.Ops["ReadFrom.prefix"]++
		if res.panicked {
			c.fail([]string{"C18"}, o.kind+"-prefix-panic", fmt.Sprintf("%s: ReadFrom panicked on the %d-byte prefix of a %d-byte image: %s", o.kind, cut, len(raw), res.panicVal), map[string]interface{}{"kind": o.kind, "image_hex": hexStr(raw), "cut": cut})
			break
		}
		if rerr == nil {
			c.fail([]string{"C18", "C11"}, o.kind+"-prefix-accepted", fmt.Sprintf("%s: ReadFrom reported success on the %d-byte prefix of a %d-byte image", o.kind, cut, len(raw)), map[string]interface{}{"kind": o.kind, "image_hex": hexStr(raw), "cut": cut})
			break
		}
		if emitted < 12 && (cut%7 == 0 || cut == len(raw)-1) {
			c.emit("dec.%s %s err", o.kind, hexStr(raw[:cut]))
			emitted++
		}
	}
	c.done()
	// ---- C18: every strict prefix of the JSON document is rejected by Import
	doc, err := o.export()
	if err != nil {
		return
	}
	jstep := 1
	if len(doc) > 3000 {
		jstep = len(doc) / 1500
	}
	for _, cut := range cutPoints(len(doc), jstep) {
		t := o.fresh()
		var ierr error
		res := safely(func() { ierr = t.imp(doc[:cut]) })
		c.rep.Ops["Import.prefix"]++
		if res.panicked || ierr == nil {
			c.fail([]string{"C18"}, o.kind+"-json-prefix", fmt.Sprintf("%s: Import of the %d-byte prefix of a %d-byte document: panic=%q err=%v", o.kind, cut, len(doc), res.panicVal, ierr), map[string]interface{}{"kind": o.kind, "doc": string(doc), "cut": cut})
			break
		}
	}
	c.sample(map[string]interface{}{"kind": o.kind, "image_bytes": len(raw), "json_bytes": len(doc)})
}

// failingWriter accepts `limit` bytes in total and fails from then on (short write + error)
type failingWriter struct{ limit, n int }

func (w *failingWriter) Write(p []byte) (int, error) {
	room := w.limit - w.n
	if room >= len(p) {
		w.n += len(p)
		return len(p), nil
	}
	if room < 0 {
		room = 0
	}
	w.n += room
	return room, fmt.Errorf("injected write failure after %d bytes", w.limit)
}

func writeFaultPoints(n int) []int {
	if n <= 200 {
		out := make([]int, 0, n)
		for i := 0; i < n; i++ {
			out = append(out, i)
		}
		return out
	}
	var out []int
	for i := 0; i < n; i++ {
		if i < 64 || i >= n-100 || i%(n/60+1) == 0 {
			out = append(out, i)
		}
	}
	return out
}

// cutPoints: every step-th strict prefix length of an n-byte image, and all of the first and the
// last 80 (headers and trailers are where a decoder's length bookkeeping ends)
func cutPoints(n, step int) []int {
	var out []int
	for cut := 0; cut < n; cut++ {
		if cut%step == 0 || cut < 80 || cut >= n-80 || blockBoundary(cut) {
			out = append(out, cut)
		}
	}
	return out
}

// blockBoundary: a whole number of blocks (512 B .. 64 KiB) after a header of 0..48 bytes - where a
// decoder that reads its payload block by block sees a clean end of file
func blockBoundary(cut int) bool {
	for _, b := range []int{512, 1024, 4096, 8192, 65536} {
		for h := 0; h <= 48; h += 8 {
			if cut > h && (cut-h)%b == 0 {
				return true
			}
		}
	}
	return false
}

// ---- stream kinds.  bytes.Reader is an io.ByteReader/io.Seeker that always fills the buffer; files,
// sockets and pipes are neither: a reader may return fewer bytes than asked for without an error.

type plainReader struct{ r io.Reader }

func (p plainReader) Read(b []byte) (int, error) { return p.r.Read(b) }

type chunkReader struct {
	r   io.Reader
	rng *rand.Rand
	max int
}

func (p *chunkReader) Read(b []byte) (int, error) {
	if len(b) == 0 {
		return 0, nil
	}
	n := 1
	if p.max > 1 {
		n = 1 + p.rng.Intn(p.max)
	}
	if n > len(b) {
		n = len(b)
	}
	return p.r.Read(b[:n])
}

func readerKindName(k int) string {
	return [...]string{"bytes.Reader", "plain", "one-byte", "random-chunks"}[k%4]
}

func wrapReader(r io.Reader, kind int, seed int64) io.Reader {
	switch kind % 4 {
	case 1:
		return plainReader{r}
	case 2:
		return &chunkReader{r: r, max: 1}
	case 3:
		return &chunkReader{r: r, rng: rand.New(rand.NewSource(seed)), max: 7}
	}
	return r
}

// persistMergeRestored: a structure restored by ReadFrom, used as the SOURCE of a Merge before
// anything else touches it, contributes exactly what the written structure would contribute
func persistMergeRestored(c *Ctx, o persistObj, t persistTarget, replay interface{}) {
	switch orig := o.raw().(type) {
	case *gostatix.CountMinSketch:
		rest, ok := t.raw.(*gostatix.CountMinSketch)
		if !ok || rest.GetRows() != orig.GetRows() || rest.GetColumns() != orig.GetColumns() {
			return
		}
		a, _ := gostatix.NewCountMinSketch(orig.GetRows(), orig.GetColumns())
		b, _ := gostatix.NewCountMinSketch(orig.GetRows(), orig.GetColumns())
		a.Update([]byte("base"), 3)
		b.Update([]byte("base"), 3)
		e1, e2 := a.Merge(orig), b.Merge(rest)
		da, _ := a.Export()
		db, _ := b.Export()
		c.op("Merge.restored-cms")
		if (e1 == nil) != (e2 == nil) || string(da) != string(db) {
			c.fail([]string{"C11", "C12"}, "cms-restored-merge-differs", fmt.Sprintf("cms: merging a sketch restored by ReadFrom gives another result than merging the sketch that was written (%v / %v)", e1, e2), replay)
		}
	case *gostatix.HyperLogLog:
		rest, ok := t.raw.(*gostatix.HyperLogLog)
		if !ok || rest.NumRegisters() != orig.NumRegisters() {
			return
		}
		a, _ := gostatix.NewHyperLogLog(orig.NumRegisters())
		b, _ := gostatix.NewHyperLogLog(orig.NumRegisters())
		a.Update([]byte("base"))
		b.Update([]byte("base"))
		e1, e2 := a.Merge(orig), b.Merge(rest)
		da, _ := a.Export()
		db, _ := b.Export()
		c.op("Merge.restored-hll")
		if (e1 == nil) != (e2 == nil) || string(da) != string(db) {
			c.fail([]string{"C11", "C06"}, "hll-restored-merge-differs", fmt.Sprintf("hll: merging a sketch restored by ReadFrom gives another result than merging the sketch that was written (%v / %v)", e1, e2), replay)
		}
	}
}
