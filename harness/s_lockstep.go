package main

import (
	"fmt"
	"math/rand"

	"github.com/kwertop/gostatix"
)

// suite "lockstep": C08.  One history applied to an in-memory instance and a Redis instance built
// with the same parameters; every answer compared after every step.

func init() { register("lockstep", suiteLockstep) }

func suiteLockstep(c *Ctx) {
	c.rep.Rule = "case = (structure, parameters) x history (updates, removes, merges, queries) applied in lock-step to a memory and a Redis instance; non-trivial = history with >= 3 updates that reaches a non-default branch (collision, eviction, tie, merge); distinct by (structure, parameters, history)"
	rounds := c.scale(40, 400)
	for i := 0; i < rounds; i++ {
		lockBloom(c)
		lockCMS(c)
		lockHLL(c)
		lockCuckoo(c)
		lockTopK(c)
	}
	lockCuckooHoles(c)
}

func lockBloom(c *Ctx) {
	cfg := randBloomCfg(c, 0)
	cfg.redis = false
	m, e1 := cfg.build()
	cfg.redis = true
	r, e2 := cfg.build()
	if e1 != nil || e2 != nil {
		c.fail([]string{"C08"}, "bloom-constructor", fmt.Sprint(e1, e2), cfg.String())
		return
	}
	c.rep.Cases++
	pool := elemPool(c.rng, 8+c.rng.Intn(8), false)
	var hist []int
	if m.GetCap() != r.GetCap() || m.GetNumHashes() != r.GetNumHashes() {
		c.fail([]string{"C08"}, "bloom-params-differ", fmt.Sprintf("%s: mem (%d,%d) vs redis (%d,%d)", cfg, m.GetCap(), m.GetNumHashes(), r.GetCap(), r.GetNumHashes()), cfg.String())
		return
	}
	for op := 0; op < 25; op++ {
		j := c.rng.Intn(len(pool))
		if c.rng.Intn(2) == 0 {
			m.Insert(pool[j])
			r.Insert(pool[j])
			hist = append(hist, j)
			c.op("bloom.Insert")
		}
		for jj, e := range pool {
			a, b := m.Lookup(e), r.Lookup(e)
			c.rep.Ops["bloom.Lookup"]++
			if a != b {
				c.fail([]string{"C08"}, "bloom-lockstep", fmt.Sprintf("%s: Lookup(element %d) mem=%v redis=%v", cfg, jj, a, b),
					map[string]interface{}{"config": cfg.String(), "pool": poolHex(pool), "inserted": hist, "element": jj})
				return
			}
		}
	}
	if len(hist) >= 3 {
		c.nontrivial(fmt.Sprint("bloom", cfg, hist))
	}
}

func lockCMS(c *Ctx) {
	rows := uint(1 + c.rng.Intn(6))
	cols := []uint{1, 2, 3, 5, 8, 40}[c.rng.Intn(6)]
	cfg := fmt.Sprintf("cms(rows=%d,cols=%d)", rows, cols)
	mk := func(redis bool) (cmsHandle, cmsHandle) {
		a, _ := newCMS(rows, cols, redis)
		b, _ := newCMS(rows, cols, redis)
		return a, b
	}
	m, m2 := mk(false)
	r, r2 := mk(true)
	if m == nil || r == nil || m2 == nil || r2 == nil {
		c.fail([]string{"C08"}, "cms-constructor", cfg, cfg)
		return
	}
	c.rep.Cases++
	pool := elemPool(c.rng, 6+c.rng.Intn(10), false)
	var hist []string
	cmp := func(what string) bool {
		for jj, e := range pool {
			a, _ := m.Count(e)
			b, err := r.Count(e)
			c.rep.Ops["cms.Count"]++
			if a != b || err != nil {
				c.fail([]string{"C08"}, "cms-lockstep", fmt.Sprintf("%s %s: Count(element %d) mem=%d redis=%d err=%v", cfg, what, jj, a, b, err),
					map[string]interface{}{"config": cfg, "pool": poolHex(pool), "history": hist, "element": jj})
				return false
			}
		}
		return true
	}
	for op := 0; op < 20; op++ {
		j := c.rng.Intn(len(pool))
		cnt := cmsCounts[c.rng.Intn(len(cmsCounts))]
		switch c.rng.Intn(6) {
		case 0:
			m2.Update(pool[j], cnt)
			r2.Update(pool[j], cnt)
			hist = append(hist, fmt.Sprintf("B:U%d+%d", j, cnt))
		case 1:
			var e1, e2 error
			if c.rng.Intn(4) == 0 {
				// a sketch merged with itself (the Redis one: through whichever handle): counts double
				e1, e2 = m.Merge(m), r.Merge(r)
				hist = append(hist, "self-merge")
			} else {
				e1, e2 = m.Merge(m2), r.Merge(r2)
				hist = append(hist, "merge")
			}
			c.op("cms.Merge")
			if (e1 == nil) != (e2 == nil) {
				c.fail([]string{"C08"}, "cms-lockstep", fmt.Sprintf("%s: Merge mem err=%v redis err=%v", cfg, e1, e2), hist)
				return
			}
		default:
			m.Update(pool[j], cnt)
			r.Update(pool[j], cnt)
			c.op("cms.Update")
			hist = append(hist, fmt.Sprintf("U%d+%d", j, cnt))
		}
		if !cmp(fmt.Sprintf("after op %d", op)) {
			return
		}
	}
	c.nontrivial(fmt.Sprint(cfg, hist))
}

func lockHLL(c *Ctx) {
	mreg := []uint64{128, 256, 1024, 16, 64}[c.rng.Intn(5)]
	cfg := fmt.Sprintf("hll(m=%d)", mreg)
	m, e1 := newHLL(mreg, false)
	r, e2 := newHLL(mreg, true)
	m2, _ := newHLL(mreg, false)
	r2, _ := newHLL(mreg, true)
	if e1 != nil || e2 != nil {
		c.fail([]string{"C08"}, "hll-constructor", fmt.Sprint(e1, e2), cfg)
		return
	}
	c.rep.Cases++
	var pool [][]byte
	for _, e := range elemPool(c.rng, 40, false) {
		if rankOf(e, mreg) < mreg {
			pool = append(pool, e)
		}
	}
	var hist []string
	for op := 0; op < 20; op++ {
		j := c.rng.Intn(len(pool))
		switch c.rng.Intn(6) {
		case 0:
			m2.Update(pool[j])
			r2.Update(pool[j])
			hist = append(hist, fmt.Sprintf("B:U%d", j))
		case 1:
			e1 := m.Merge(m2)
			e2 := r.Merge(r2)
			c.op("hll.Merge")
			hist = append(hist, "merge")
			if (e1 == nil) != (e2 == nil) {
				c.fail([]string{"C08"}, "hll-lockstep", fmt.Sprintf("%s: Merge mem err=%v redis err=%v", cfg, e1, e2), hist)
				return
			}
		default:
			m.Update(pool[j])
			r.Update(pool[j])
			c.op("hll.Update")
			hist = append(hist, fmt.Sprintf("U%d", j))
		}
		for _, fl := range hllFlags() {
			a, _ := m.Count(fl[0], fl[1])
			b, err := r.Count(fl[0], fl[1])
			c.rep.Ops["hll.Count"]++
			if a != b || err != nil {
				c.fail([]string{"C08"}, "hll-lockstep", fmt.Sprintf("%s: Count(%v,%v) mem=%d redis=%d err=%v after op %d", cfg, fl[0], fl[1], a, b, err, op),
					map[string]interface{}{"config": cfg, "pool": poolHex(pool), "history": hist})
				return
			}
		}
	}
	c.nontrivial(fmt.Sprint(cfg, hist))
}

// lockCuckooHoles: a fixed history, whatever the seed: one bucket of four slots; three elements in,
// the FIRST one out (a hole in front of occupied slots), a fourth in, then each of the others out and
// in again: after every step both backends answer every lookup and Length identically.
func lockCuckooHoles(c *Ctx) {
	cfg := cuckooCfg{n: 1, b: 4, fpl: 3, retries: 5}
	m, _ := cfg.build()
	cfg.redis = true
	r, err := cfg.build()
	if err != nil || m == nil || r == nil {
		return
	}
	c.rep.Cases++
	var es [][]byte
	fps := map[string]bool{}
	for i := 0; len(es) < 5 && i < 300; i++ {
		e := []byte(fmt.Sprintf("hole-%d", i))
		if fp, _, _, ok := cuckooPos(e, 1, 3); ok && !fps[fp] {
			fps[fp] = true
			es = append(es, e)
		}
	}
	if len(es) < 5 {
		return
	}
	type step struct {
		ins bool
		j   int
	}
	steps := []step{{true, 0}, {true, 1}, {true, 2}, {false, 0}, {true, 3}, {false, 1}, {true, 4}, {false, 2}, {true, 0}, {false, 3}, {false, 4}, {true, 1}}
	for si, st := range steps {
		var a, b bool
		if st.ins {
			safely(func() { a = m.Insert(es[st.j], false) })
			safely(func() { b = r.Insert(es[st.j], false) })
		} else {
			a, _ = m.Remove(es[st.j])
			b, _ = r.Remove(es[st.j])
		}
		bad := a != b || m.Length() != r.Length()
		var detail string
		for jj, e := range es {
			x, _ := m.Lookup(e)
			y, _ := r.Lookup(e)
			if x != y {
				bad = true
				detail = fmt.Sprintf("Lookup(element %d) mem=%v redis=%v", jj, x, y)
			}
		}
		if bad {
			c.fail([]string{"C08", "C02", "C13"}, "cuckoo-lockstep", fmt.Sprintf("cuckoo(n=1,b=4,fpl=3): fixed history with holes, step %d (insert=%v element %d): results mem=%v redis=%v, Length mem=%d redis=%d %s", si, st.ins, st.j, a, b, m.Length(), r.Length(), detail), nil)
			return
		}
	}
	c.branch("cuckoo-fixed-holes")
}

func lockCuckoo(c *Ctx) {
	cfg := cuckooCfg{
		n:       []uint64{2, 4, 8, 16, 5, 7, 2, 4}[c.rng.Intn(8)],
		b:       []uint64{1, 2, 4, 1, 2}[c.rng.Intn(5)],
		fpl:     []uint64{1, 2, 4}[c.rng.Intn(3)],
		retries: 5,
	}
	m, _ := cfg.build()
	cfg.redis = true
	r, err := cfg.build()
	if err != nil {
		c.fail([]string{"C08"}, "cuckoo-constructor", err.Error(), cfg.String())
		return
	}
	c.rep.Cases++
	var pool [][]byte
	for _, e := range elemPool(c.rng, int(cfg.n*cfg.b)+6, false) {
		if _, _, _, ok := cuckooPos(e, cfg.n, cfg.fpl); ok {
			pool = append(pool, e)
		}
	}
	var hist []string
	live := make([]int, len(pool))
	for op := 0; op < 45; op++ {
		j := c.rng.Intn(len(pool))
		e := pool[j]
		replay := map[string]interface{}{"config": cfg.String(), "pool": poolHex(pool), "history": hist}
		switch c.rng.Intn(4) {
		case 0, 1:
			// the property covers histories "as long as no randomly chosen relocation has occurred":
			// stop before the first insert that would take the eviction path
			d, _ := parseCuckoo(m.Export())
			_, i1, i2, _ := cuckooPos(e, cfg.n, cfg.fpl)
			if d.B[i1].L >= cfg.b && d.B[i2].L >= cfg.b {
				c.branch("cuckoo-stopped-before-relocation")
				c.nontrivial(fmt.Sprint(cfg, hist))
				return
			}
			seed := c.rng.Int63()
			var a, b bool
			rand.Seed(seed)
			r1 := safely(func() { a = m.Insert(e, false) })
			rand.Seed(seed)
			r2 := safely(func() { b = r.Insert(e, false) })
			c.op("cuckoo.Insert")
			hist = append(hist, fmt.Sprintf("I%d", j))
			if a != b || r1.panicked != r2.panicked {
				c.fail([]string{"C08"}, "cuckoo-lockstep", fmt.Sprintf("%s: Insert mem=%v/%v redis=%v/%v", cfg, a, r1.panicked, b, r2.panicked), replay)
				return
			}
			if a {
				live[j]++
			}
		case 2:
			if live[j] == 0 {
				if ok, _ := m.Lookup(e); ok {
					continue
				}
			}
			a, _ := m.Remove(e)
			b, err := r.Remove(e)
			c.op("cuckoo.Remove")
			hist = append(hist, fmt.Sprintf("R%d", j))
			if a != b || err != nil {
				c.fail([]string{"C08"}, "cuckoo-lockstep", fmt.Sprintf("%s: Remove mem=%v redis=%v err=%v", cfg, a, b, err), replay)
				return
			}
			if a && live[j] > 0 {
				live[j]--
			}
		}
		if m.Length() != r.Length() {
			c.fail([]string{"C08"}, "cuckoo-lockstep", fmt.Sprintf("%s: Length mem=%d redis=%d", cfg, m.Length(), r.Length()), replay)
			return
		}
		for jj, x := range pool {
			a, _ := m.Lookup(x)
			b, err := r.Lookup(x)
			c.rep.Ops["cuckoo.Lookup"]++
			if a != b || err != nil {
				c.fail([]string{"C08"}, "cuckoo-lockstep", fmt.Sprintf("%s: Lookup(element %d) mem=%v redis=%v err=%v", cfg, jj, a, b, err), replay)
				return
			}
		}
	}
	c.nontrivial(fmt.Sprint(cfg, hist))
}

func lockTopK(c *Ctx) {
	k := []uint{1, 2, 3, 5}[c.rng.Intn(4)]
	er := []float64{3, 1, 0.5, 0.1}[c.rng.Intn(4)]
	acc := []float64{0.5, 0.2, 0.01}[c.rng.Intn(3)]
	cfg := fmt.Sprintf("topk(k=%d,errorRate=%g,accuracy=%g)", k, er, acc)
	m := newTopK(k, er, acc, false)
	r := newTopK(k, er, acc, true)
	if m == nil || r == nil {
		c.fail([]string{"C08"}, "topk-constructor", cfg, cfg)
		return
	}
	c.rep.Cases++
	pool := elemPool(c.rng, 3+c.rng.Intn(3*int(k)+4), true)
	var hist []string
	for op := 0; op < 25; op++ {
		j := c.rng.Intn(len(pool))
		cnt := []uint64{1, 1, 2, 3, 1 << 32}[c.rng.Intn(5)]
		m.Insert(pool[j], cnt)
		err := r.Insert(pool[j], cnt)
		c.op("topk.Insert")
		hist = append(hist, fmt.Sprintf("%s+%d", pool[j], cnt))
		replay := map[string]interface{}{"config": cfg, "history": hist}
		if err != nil {
			c.fail([]string{"C08"}, "topk-lockstep", fmt.Sprintf("%s: redis Insert failed: %v", cfg, err), replay)
			return
		}
		va, _ := m.Values()
		vb, err := r.Values()
		c.op("topk.Values")
		if err != nil || len(va) != len(vb) {
			c.fail([]string{"C08"}, "topk-lockstep", fmt.Sprintf("%s: Values mem=%v redis=%v err=%v", cfg, va, vb, err), replay)
			return
		}
		if fmt.Sprint(va) == fmt.Sprint(vb) {
			continue
		}
		// allowed difference: the choice among entries tied at the smallest reported count
		if len(va) == 0 {
			continue
		}
		minA, minB := va[len(va)-1].F, vb[len(vb)-1].F
		okTie := minA == minB
		inB := map[string]uint64{}
		for _, e := range vb {
			inB[e.V] = e.F
		}
		inA := map[string]uint64{}
		for _, e := range va {
			inA[e.V] = e.F
		}
		for _, e := range va {
			if f, ok := inB[e.V]; (!ok || f != e.F) && e.F != minA {
				okTie = false
			}
		}
		for _, e := range vb {
			if f, ok := inA[e.V]; (!ok || f != e.F) && e.F != minB {
				okTie = false
			}
		}
		if !okTie {
			c.fail([]string{"C08"}, "topk-lockstep", fmt.Sprintf("%s: Values differ beyond ties at the smallest count: mem=%v redis=%v", cfg, va, vb), replay)
			return
		}
		// the tracked sets now differ legitimately; later answers are not comparable
		c.branch("topk-tie-divergence")
		c.nontrivial(fmt.Sprint(cfg, hist))
		return
	}
	c.nontrivial(fmt.Sprint(cfg, hist))
}

var _ = gostatix.NewTopK
