package main

// Independent transcription of getHash/getPositions (murmur3 x64_128, first word) used ONLY to
// classify cases (valid fingerprint? which bucket pair?).  The implementation under test is
// always the code in /repo; the model's own murmur3 lives in lean/Gostatix/Model/Murmur.lean.

import (
	"encoding/binary"
	"math/bits"
	"strconv"
)

func mm3(data []byte) uint64 {
	const c1, c2 = 0x87c37b91114253d5, 0x4cf5ad432745937f
	var h1, h2 uint64
	n := len(data) / 16
	for i := 0; i < n; i++ {
		k1 := binary.LittleEndian.Uint64(data[i*16:])
		k2 := binary.LittleEndian.Uint64(data[i*16+8:])
		k1 *= c1
		k1 = bits.RotateLeft64(k1, 31)
		k1 *= c2
		h1 ^= k1
		h1 = bits.RotateLeft64(h1, 27)
		h1 += h2
		h1 = h1*5 + 0x52dce729
		k2 *= c2
		k2 = bits.RotateLeft64(k2, 33)
		k2 *= c1
		h2 ^= k2
		h2 = bits.RotateLeft64(h2, 31)
		h2 += h1
		h2 = h2*5 + 0x38495ab5
	}
	tail := data[n*16:]
	var k1, k2 uint64
	for i := len(tail) - 1; i >= 0; i-- {
		if i >= 8 {
			k2 ^= uint64(tail[i]) << (8 * uint(i-8))
		} else {
			k1 ^= uint64(tail[i]) << (8 * uint(i))
		}
	}
	if len(tail) > 8 {
		k2 *= c2
		k2 = bits.RotateLeft64(k2, 33)
		k2 *= c1
		h2 ^= k2
	}
	if len(tail) > 0 {
		k1 *= c1
		k1 = bits.RotateLeft64(k1, 31)
		k1 *= c2
		h1 ^= k1
	}
	h1 ^= uint64(len(data))
	h2 ^= uint64(len(data))
	h1 += h2
	h2 += h1
	fm := func(k uint64) uint64 {
		k ^= k >> 33
		k *= 0xff51afd7ed558ccd
		k ^= k >> 33
		k *= 0xc4ceb9fe1a85ec53
		k ^= k >> 33
		return k
	}
	h1 = fm(h1)
	h2 = fm(h2)
	h1 += h2
	return h1
}

// cuckooPos: fingerprint and the two bucket indexes as getPositions computes them; ok=false when
// the fingerprint length exceeds the decimal length of the hash (finding D3)
func cuckooPos(e []byte, n, fpl uint64) (fp string, i1, i2 uint64, ok bool) {
	h := mm3(e)
	hs := strconv.FormatUint(h, 10)
	if fpl > uint64(len(hs)) || fpl == 0 || n == 0 {
		return "", 0, 0, false
	}
	fp = hs[:fpl]
	i1 = h % n
	i2 = (i1 ^ mm3([]byte(fp))) % n
	return fp, i1, i2, true
}
