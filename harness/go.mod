module verifharness

go 1.19

require (
	github.com/alicebob/miniredis/v2 v2.30.4
	github.com/dgryski/go-metro v0.0.0-20211217172704-adc40b04c140
	github.com/kwertop/gostatix v0.0.0
	github.com/redis/go-redis/v9 v9.0.5
)

require (
	github.com/alicebob/gopher-json v0.0.0-20200520072559-a9ecdc9d1d3a // indirect
	github.com/bits-and-blooms/bitset v1.8.0 // indirect
	github.com/cespare/xxhash/v2 v2.2.0 // indirect
	github.com/dgryski/go-rendezvous v0.0.0-20200823014737-9f7001d12a5f // indirect
	github.com/yuin/gopher-lua v1.1.0 // indirect
)

replace github.com/kwertop/gostatix => /repo
