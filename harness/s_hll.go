package main

import (
	"bytes"
	"encoding/json"
	"fmt"
	"math"
	"math/bits"

	"github.com/dgryski/go-metro"
	"github.com/kwertop/gostatix"
)

// suite "hll": C06 (set semantics, merge = union), HLL part of C08, register/estimator
// correspondence used by C05.  suite "hllacc": the accuracy oracle of C05.

type hllHandle interface {
	Update(data []byte) error
	Count(corr, round bool) (uint64, error)
	Merge(o hllHandle) error
	Equals(o hllHandle) (bool, error)
	Export() ([]byte, error)
}

type hllMem struct{ h *gostatix.HyperLogLog }

func (x hllMem) Update(d []byte) error {
	viaScratch(d, func(a []byte) { x.h.Update(a) })
	return nil
}
func (x hllMem) Count(c, r bool) (uint64, error)  { return x.h.Count(c, r), nil }
func (x hllMem) Merge(o hllHandle) error          { return x.h.Merge(o.(hllMem).h) }
func (x hllMem) Equals(o hllHandle) (bool, error) { return x.h.Equals(o.(hllMem).h), nil }
func (x hllMem) Export() ([]byte, error)          { return x.h.Export() }

type hllRedis struct{ h *gostatix.HyperLogLogRedis }

func (x hllRedis) Update(d []byte) (err error) {
	viaScratch(d, func(a []byte) { err = x.h.Update(a) })
	return
}
func (x hllRedis) Count(c, r bool) (uint64, error)  { return x.h.Count(c, r) }
func (x hllRedis) Merge(o hllHandle) error          { return x.h.Merge(hllUnder(o)) }
func (x hllRedis) Equals(o hllHandle) (bool, error) { return x.h.Equals(hllUnder(o)) }
func (x hllRedis) Export() ([]byte, error)          { return x.h.Export() }

// hllMulti: operations of a Redis sketch go through the creating handle or re-attached ones
type hllMulti struct {
	hs     []hllRedis
	frozen bool
}

func (m *hllMulti) pick() hllRedis {
	if !m.frozen && len(m.hs) < 3 && multiRng.Intn(6) == 0 {
		if h, err := gostatix.NewHyperLogLogRedisFromKey(m.hs[0].h.MetadataKey()); err == nil && h != nil {
			m.hs = append(m.hs, hllRedis{h})
		}
	}
	return m.hs[multiRng.Intn(len(m.hs))]
}
func (m *hllMulti) Update(d []byte) error            { return m.pick().Update(d) }
func (m *hllMulti) Count(c, r bool) (uint64, error)  { return m.pick().Count(c, r) }
func (m *hllMulti) Merge(o hllHandle) error          { return m.pick().h.Merge(hllUnder(o)) }
func (m *hllMulti) Equals(o hllHandle) (bool, error) { return m.pick().h.Equals(hllUnder(o)) }
func (m *hllMulti) Export() ([]byte, error)          { return m.hs[0].Export() }

func hllUnder(o hllHandle) *gostatix.HyperLogLogRedis {
	switch x := o.(type) {
	case hllRedis:
		return x.h
	case *hllMulti:
		return x.pick().h
	}
	return nil
}

func newHLL(m uint64, redis bool) (hllHandle, error) {
	if redis {
		h, err := gostatix.NewHyperLogLogRedis(m)
		if err != nil {
			return nil, err
		}
		return &hllMulti{hs: []hllRedis{{h}}}, nil
	}
	h, err := gostatix.NewHyperLogLog(m)
	if err != nil {
		return nil, err
	}
	return hllMem{h}, nil
}

// rankOf = the register index the code computes (1 + clz(hash << p)); independent transcription
// used only to pick elements whose update does not fail for small m.
func rankOf(e []byte, m uint64) uint64 {
	h, _ := metro.Hash128(e, 1373)
	p := uint64(math.Log2(float64(m)))
	return uint64(1 + bits.LeadingZeros64(h<<p))
}

func init() {
	register("hll", suiteHLL)
	register("hllacc", suiteHLLAcc)
}

type hllIV struct{ idx, val uint64 }

// learnHLL: (register, value) written by one update on a fresh sketch; val 0 = nothing visible
func learnHLL(m uint64, redis bool, e []byte) (hllIV, error) {
	g, err := newHLL(m, redis)
	if err != nil {
		return hllIV{}, err
	}
	var uerr error
	res := safely(func() { uerr = g.Update(e) })
	if res.panicked || uerr != nil {
		return hllIV{}, fmt.Errorf("update failed: %v %v", res.panicVal, uerr)
	}
	d, err := parseHLL(g.Export())
	if err != nil {
		return hllIV{}, err
	}
	iv := hllIV{1, 0}
	n := 0
	for i, v := range d.R {
		if v != 0 {
			iv = hllIV{uint64(i), uint64(v)}
			n++
		}
	}
	if n > 1 {
		return iv, fmt.Errorf("one update changed %d registers", n)
	}
	return iv, nil
}

func hllFlags() [][2]bool {
	return [][2]bool{{false, false}, {false, true}, {true, false}, {true, true}}
}

func suiteHLL(c *Ctx) {
	c.rep.Rule = "case = (m, backend) x stream of elements (with duplicates) + a permutation + a split into two merged sketches; non-trivial = >=4 distinct elements, at least one duplicate and two elements sharing a register; distinct by (m, stream)"
	cases := c.scale(60, 600)
	ms := []uint64{128, 128, 256, 512, 1024, 4096, 16, 32, 64, 2, 4, 8, 4, 8}
	for i := 0; i < cases; i++ {
		m := ms[c.rng.Intn(len(ms))]
		hllCase(c, m, i%2 == 1)
	}
	hllMismatch(c)
	for i := 0; i < c.scale(6, 30); i++ {
		hllRecycled(c, []uint64{128, 256, 1024}[i%3], i%2 == 0)
	}
	hllHighRegisters(c, false)
	hllHighRegisters(c, true)
	hllManyRegisters(c)
}

// hllRecycled: a handle that has updated a sketch takes over another (here: an empty) sketch by an
// Import in place and receives the same elements again: it must end up like a new sketch that
// received them once (whatever the handle remembers about values it has already written describes
// a sketch that is gone).
func hllRecycled(c *Ctx, m uint64, redis bool) {
	cfg := fmt.Sprintf("hll(m=%d,redis=%v), recycled handle", m, redis)
	H, e1 := newHLL(m, redis)
	E, e2 := newHLL(m, redis)
	F, e3 := newHLL(m, redis)
	if e1 != nil || e2 != nil || e3 != nil {
		return
	}
	c.rep.Cases++
	elems := elemPool(c.rng, 6, false)
	for _, e := range elems {
		H.Update(e)
	}
	H.Count(false, false)
	doc, err := E.Export()
	if err != nil {
		return
	}
	if ierr := eqHLL(redis).impInPlace(H, doc); ierr != nil {
		c.fail([]string{"C06", "C10"}, "hll-import-in-place-fails", fmt.Sprintf("%s: Import of an empty sketch of the same size into a used handle failed: %v", cfg, ierr), cfg)
		return
	}
	if r0, _ := hllRegs(H); !eqU64(r0, make([]uint64, m)) {
		c.fail([]string{"C06", "C10"}, "hll-recycled-handle-differs", cfg+": after importing an empty sketch the registers are not all zero", cfg)
		return
	}
	for _, e := range elems {
		H.Update(e)
		F.Update(e)
	}
	rh, _ := hllRegs(H)
	rf, _ := hllRegs(F)
	if !eqU64(rh, rf) {
		c.fail([]string{"C06", "C10", "C05"}, "hll-recycled-handle-differs", fmt.Sprintf("%s: the same %d elements give other registers on a handle that held (and had updated) another sketch before an Import in place than on a new sketch", cfg, len(elems)), map[string]interface{}{"config": cfg, "pool": poolHex(elems)})
		return
	}
	for _, fl := range hllFlags() {
		a, _ := H.Count(fl[0], fl[1])
		b, _ := F.Count(fl[0], fl[1])
		if a != b {
			c.fail([]string{"C06", "C10", "C05"}, "hll-recycled-handle-differs", fmt.Sprintf("%s: Count%v = %d on the recycled handle, %d on a new sketch with the same registers", cfg, fl, a, b), cfg)
			return
		}
	}
	c.branch("recycled-handle")
}

// hllHighRegisters: register images that only Import / ReadFrom / Merge can produce on the pinned
// code (every register high): the raw estimate passes 2^32/30 and the large-range branch of the
// estimator is taken.  Every Count variant is replayed through the model (hll.count).
func hllHighRegisters(c *Ctx, redis bool) {
	for _, v := range []uint8{17, 18, 20, 21} {
		m := uint64(1024)
		h, err := newHLL(m, redis)
		if err != nil {
			return
		}
		d, err := parseHLL(h.Export())
		if err != nil {
			return
		}
		regs := make([]uint8, m)
		for i := range regs {
			regs[i] = v + uint8(c.rng.Intn(2))
		}
		d.R = regs
		doc, _ := json.Marshal(d)
		if ierr := eqHLL(redis).impInPlace(h, doc); ierr != nil {
			continue
		}
		c.rep.Cases++
		rr, _ := hllRegs(h)
		for _, fl := range hllFlags() {
			cnt, err := h.Count(fl[0], fl[1])
			if err != nil {
				c.fail([]string{"C05", "C06", "C08"}, "hll-count-fails", err.Error(), fmt.Sprintf("hll(m=%d,redis=%v) all registers about %d", m, redis, v))
				return
			}
			c.emit("hll.count %d %s %d %d %d", m, natList(rr), b2i(fl[0]), b2i(fl[1]), cnt)
		}
		c.branch("high-registers")
	}
}

// hllManyRegisters: 2^16 and 2^17 registers (in memory), nearly all equal: whatever the estimator
// tallies per register value must not be a 16-bit quantity.  Replayed through the model.
func hllManyRegisters(c *Ctx) {
	for _, m := range []uint64{1 << 16, 1 << 17} {
		h, err := newHLL(m, false)
		if err != nil {
			return
		}
		c.rep.Cases++
		for round := 0; round < 2; round++ {
			rr, _ := hllRegs(h)
			for _, fl := range hllFlags() {
				cnt, _ := h.Count(fl[0], fl[1])
				c.emit("hll.count %d %s %d %d %d", m, natList(rr), b2i(fl[0]), b2i(fl[1]), cnt)
			}
			for i := 0; i < 5; i++ {
				h.Update([]byte(fmt.Sprintf("many-%d-%d", c.seed, i)))
			}
		}
		c.branch("many-registers")
	}
}

func hllRegs(h hllHandle) ([]uint64, error) {
	d, err := parseHLL(h.Export())
	if err != nil {
		return nil, err
	}
	return d.regs(), nil
}

func hllCase(c *Ctx, m uint64, redis bool) {
	cfg := fmt.Sprintf("hll(m=%d,redis=%v)", m, redis)
	c.rep.Cases++
	// pool: elements whose update cannot fail (rank < m); for m >= 128 that is every element
	var pool [][]byte
	for _, e := range elemPool(c.rng, 40, false) {
		if rankOf(e, m) < m {
			pool = append(pool, e)
		}
		if len(pool) >= 6+c.rng.Intn(14) {
			break
		}
	}
	if len(pool) < 3 {
		return
	}
	ivs := make([]hllIV, len(pool))
	p := uint64(math.Log2(float64(m)))
	for j, e := range pool {
		iv, err := learnHLL(m, redis, e)
		if err != nil {
			c.fail([]string{"C06", "C05", "C08"}, "hll-probe", fmt.Sprintf("%s: %v", cfg, err), cfg)
			return
		}
		ivs[j] = iv
		if iv.val != 0 {
			h, _ := metro.Hash128(e, 1373)
			c.emit("hll.indexval %d %d %d %d", h, p, iv.idx, iv.val)
		}
	}
	// stream with duplicates
	n := 4 + c.rng.Intn(20)
	stream := make([]int, n)
	for i := range stream {
		stream[i] = c.rng.Intn(len(pool))
	}
	replay := map[string]interface{}{"config": cfg, "pool": poolHex(pool), "stream": stream}
	A, err := newHLL(m, redis)
	if err != nil {
		c.fail([]string{"C06"}, "hll-constructor", err.Error(), cfg)
		return
	}
	if hm, ok := A.(hllMem); ok && c.rng.Intn(3) == 0 {
		// a previous life ended by Reset: the sketch must be indistinguishable from a new one
		for i := 0; i < 6; i++ {
			A.Update(pool[c.rng.Intn(len(pool))])
		}
		for _, fl := range hllFlags() {
			A.Count(fl[0], fl[1])
		}
		hm.h.Reset()
		if r0, _ := hllRegs(A); len(r0) != int(m) || !eqU64(r0, make([]uint64, m)) {
			c.fail([]string{"C06"}, "hll-reset-not-empty", cfg+": registers are not all zero after Reset", replay)
			return
		}
		if v, _ := A.Count(false, false); true {
			F, _ := newHLL(m, redis)
			if w, _ := F.Count(false, false); v != w {
				c.fail([]string{"C06", "C05"}, "hll-reset-not-empty", fmt.Sprintf("%s: Count after Reset is %d, a new sketch counts %d", cfg, v, w), replay)
				return
			}
		}
		c.branch("after-reset")
	}
	seen := map[int]bool{}
	dup := false
	for _, j := range stream {
		pre, _ := hllRegs(A)
		c.op("Update")
		var uerr error
		res := safely(func() { uerr = A.Update(pool[j]) })
		if res.panicked || uerr != nil {
			c.fail([]string{"C06", "C05", "C08"}, "hll-update-fails", fmt.Sprintf("%s: update of an element with rank < m failed: %v %v", cfg, res.panicVal, uerr), replay)
			return
		}
		post, _ := hllRegs(A)
		c.emit("hll.update %d %s %d %d %s", m, natList(pre), ivs[j].idx, ivs[j].val, natList(post))
		if seen[j] {
			dup = true
			if !eqU64(pre, post) {
				c.fail([]string{"C06"}, "hll-duplicate-changes-state", fmt.Sprintf("%s: re-inserting element %d changed the registers", cfg, j), replay)
				return
			}
		}
		seen[j] = true
	}
	regsA, _ := hllRegs(A)
	countsA := [4]uint64{}
	for fi, fl := range hllFlags() {
		c.op("Count")
		v, err := A.Count(fl[0], fl[1])
		if err != nil {
			c.fail([]string{"C06", "C08"}, "hll-count-fails", err.Error(), replay)
			return
		}
		countsA[fi] = v
		c.emit("hll.count %d %s %d %d %d", m, natList(regsA), b2i(fl[0]), b2i(fl[1]), v)
	}
	if mu, ok := A.(*hllMulti); ok {
		// the creating handle and a handle attached now describe one sketch: same parameters,
		// same derived constants (bit for bit), same registers, same estimates
		if h2, err := gostatix.NewHyperLogLogRedisFromKey(mu.hs[0].h.MetadataKey()); err == nil && h2 != nil {
			d1, e1 := parseHLL(mu.hs[0].Export())
			d2, e2 := parseHLL(h2.Export())
			if e1 != nil || e2 != nil || d1.NR != d2.NR || d1.NBP != d2.NBP || f64bits(d1.C) != f64bits(d2.C) || hexStr(d1.R) != hexStr(d2.R) {
				c.fail([]string{"C06", "C09", "C05"}, "hll-handles-disagree", fmt.Sprintf("%s: the creating handle exports (m=%d, bits=%d, bias=%v), a handle attached from the metadata key (m=%d, bits=%d, bias=%v) (%v %v)", cfg, d1.NR, d1.NBP, d1.C, d2.NR, d2.NBP, d2.C, e1, e2), replay)
				return
			}
			for fi, fl := range hllFlags() {
				if v, err := h2.Count(fl[0], fl[1]); err != nil || v != countsA[fi] {
					c.fail([]string{"C06", "C09", "C05"}, "hll-handles-disagree", fmt.Sprintf("%s: Count%v through an attached handle gives %d (%v), %d through the others", cfg, fl, v, err, countsA[fi]), replay)
					return
				}
			}
			c.branch("attached-handle-compared")
		}
	}
	// permutation of the distinct elements, no duplicates
	var distinct []int
	for j := range seen {
		distinct = append(distinct, j)
	}
	c.rng.Shuffle(len(distinct), func(a, b int) { distinct[a], distinct[b] = distinct[b], distinct[a] })
	P, _ := newHLL(m, redis)
	for _, j := range distinct {
		P.Update(pool[j])
	}
	regsP, _ := hllRegs(P)
	if !eqU64(regsA, regsP) {
		c.fail([]string{"C06"}, "hll-order-dependent", fmt.Sprintf("%s: registers differ between the stream and a permutation of its distinct elements", cfg), replay)
		return
	}
	for fi, fl := range hllFlags() {
		v, _ := P.Count(fl[0], fl[1])
		if v != countsA[fi] {
			c.fail([]string{"C06"}, "hll-order-dependent", fmt.Sprintf("%s: Count differs under permutation (%d vs %d)", cfg, v, countsA[fi]), replay)
			return
		}
	}
	// split into two sketches, merge, compare with the single sketch
	cut := c.rng.Intn(len(stream) + 1)
	X, _ := newHLL(m, redis)
	Y, _ := newHLL(m, redis)
	for _, j := range stream[:cut] {
		X.Update(pool[j])
	}
	for _, j := range stream[cut:] {
		Y.Update(pool[j])
	}
	// queries before the merge (a cached estimate must not survive it)
	for _, fl := range hllFlags() {
		X.Count(fl[0], fl[1])
		Y.Count(fl[0], fl[1])
	}
	rx, _ := hllRegs(X)
	ry, _ := hllRegs(Y)
	c.op("Merge")
	var merr error
	res := safely(func() { merr = X.Merge(Y) })
	if res.panicked || merr != nil {
		c.fail([]string{"C06", "C08"}, "hll-merge-fails", fmt.Sprintf("%s: %v %v", cfg, res.panicVal, merr), replay)
		return
	}
	rm, _ := hllRegs(X)
	ry2, _ := hllRegs(Y)
	c.emit("hll.merge %d %s %d %s %s", m, natList(rx), m, natList(ry), natList(rm))
	if !eqU64(ry, ry2) {
		c.fail([]string{"C06"}, "hll-merge-mutates-arg", cfg+": Merge changed its argument", replay)
	}
	if !eqU64(rm, regsA) {
		c.fail([]string{"C06", "C08"}, "hll-merge-not-union", fmt.Sprintf("%s: merged registers differ from the single sketch's (split at %d)", cfg, cut), replay)
		return
	}
	if ok, err := X.Equals(A); err != nil || !ok {
		c.fail([]string{"C06", "C17"}, "hll-merged-not-equal", fmt.Sprintf("%s: merged sketch not Equal to the single sketch (%v,%v)", cfg, ok, err), replay)
	}
	for fi, fl := range hllFlags() {
		v, _ := X.Count(fl[0], fl[1])
		c.emit("hll.count %d %s %d %d %d", m, natList(rm), b2i(fl[0]), b2i(fl[1]), v)
		if v != countsA[fi] {
			c.fail([]string{"C06", "C08"}, "hll-merge-not-union", fmt.Sprintf("%s: merged Count %d != %d", cfg, v, countsA[fi]), replay)
			return
		}
	}
	hllCraftedMerge(c, m, redis, cfg)
	// merge chain: a sketch that only ever received merges is merged onwards:
	//   E := {} + X0' ; T := Y' + E  must be the single sketch again (X0', Y' = the two halves)
	{
		X0c, _ := newHLL(m, redis)
		Yc, _ := newHLL(m, redis)
		for _, j := range stream[:cut] {
			X0c.Update(pool[j])
		}
		for _, j := range stream[cut:] {
			Yc.Update(pool[j])
		}
		E, _ := newHLL(m, redis)
		E2, _ := newHLL(m, redis)
		E.Merge(X0c)
		E2.Merge(E) // two hops
		Yc.Merge(E2)
		rc, _ := hllRegs(Yc)
		re, _ := hllRegs(E2)
		rx0, _ := hllRegs(X0c)
		if !eqU64(re, rx0) {
			c.fail([]string{"C06", "C08"}, "hll-merge-chain", fmt.Sprintf("%s: a sketch filled only by merges (two hops) differs from its source", cfg), replay)
			return
		}
		if !eqU64(rc, regsA) {
			c.fail([]string{"C06", "C08"}, "hll-merge-chain", fmt.Sprintf("%s: merging through intermediate sketches that only received merges loses registers (split at %d)", cfg, cut), replay)
			return
		}
		c.branch("merge-chain")
	}
	// no sharing: two EMPTY receivers merge the same source; afterwards each of the three is
	// updated on its own and none of the others may move
	{
		src, _ := newHLL(m, redis)
		for _, j := range stream[:cut] {
			src.Update(pool[j])
		}
		r1, _ := newHLL(m, redis)
		r2, _ := newHLL(m, redis)
		r1.Merge(src)
		r2.Merge(src)
		s0, _ := hllRegs(src)
		fresh := pool[c.rng.Intn(len(pool))]
		r1.Update(fresh)
		for _, j := range stream[cut:] {
			r1.Update(pool[j])
		}
		a2, _ := hllRegs(r2)
		as, _ := hllRegs(src)
		if !eqU64(a2, s0) || !eqU64(as, s0) {
			c.fail([]string{"C06", "C08"}, "hll-merge-shares-storage", fmt.Sprintf("%s: updating one sketch that merged a source changed the source or another sketch that merged the same source", cfg), replay)
			return
		}
		for _, j := range stream[cut:] {
			src.Update(pool[j])
		}
		a2b, _ := hllRegs(r2)
		if !eqU64(a2b, s0) {
			c.fail([]string{"C06", "C08"}, "hll-merge-shares-storage", fmt.Sprintf("%s: updating the source after a merge changed the sketch that had merged it", cfg), replay)
			return
		}
		c.branch("merge-no-sharing")
	}
	// a sketch that has been queried and is then overwritten by ReadFrom / Import answers for what
	// it now holds (not for what it held when it was last asked)
	if !redis {
		if hm, ok := Y.(hllMem); ok {
			for variant := 0; variant < 2; variant++ {
				tm := m
				if tm < 128 {
					tm = 128 // smaller sketches cannot take every update (finding D4)
				}
				tgt, _ := gostatix.NewHyperLogLog([]uint64{tm, 2 * tm}[variant])
				safely(func() { tgt.Update([]byte("previous tenant")); tgt.Update([]byte("another one")) })
				for _, fl := range hllFlags() {
					tgt.Count(fl[0], fl[1])
				}
				var lerr error
				if variant == 0 {
					var b2 bytes.Buffer
					if _, lerr = hm.h.WriteTo(&b2); lerr == nil {
						_, lerr = tgt.ReadFrom(&b2)
					}
				} else if doc, e := hm.h.Export(); e == nil {
					lerr = tgt.Import(doc)
				}
				if lerr != nil {
					continue
				}
				for _, fl := range hllFlags() {
					if a, b := hm.h.Count(fl[0], fl[1]), tgt.Count(fl[0], fl[1]); a != b {
						c.fail([]string{"C05", "C06", "C11", "C10"}, "hll-count-stale-after-load", fmt.Sprintf("%s: a sketch that had been queried and was then loaded (variant %d: 0 = ReadFrom, 1 = Import) counts %d, the sketch it was loaded from %d", cfg, variant, b, a), replay)
						return
					}
				}
			}
			c.branch("count-after-load")
		}
	}
	// a sketch restored from its binary image is as good a Merge argument as the one written
	if !redis {
		if hm, ok := Y.(hllMem); ok {
			var buf bytes.Buffer
			if _, err := hm.h.WriteTo(&buf); err == nil {
				rest := &gostatix.HyperLogLog{}
				if _, err := rest.ReadFrom(&buf); err == nil {
					t1, _ := gostatix.NewHyperLogLog(m)
					t2, _ := gostatix.NewHyperLogLog(m)
					e1, e2 := t1.Merge(hm.h), t2.Merge(rest)
					d1, _ := t1.Export()
					d2, _ := t2.Export()
					if (e1 == nil) != (e2 == nil) || string(d1) != string(d2) {
						c.fail([]string{"C06", "C11"}, "hll-restored-merge-differs", fmt.Sprintf("%s: merging a sketch restored by ReadFrom gives another result than merging the sketch that was written (%v / %v)", cfg, e1, e2), replay)
						return
					}
					c.branch("merge-restored-source")
				}
			}
		}
	}
	// idempotent: merging Y again, and merging a sketch with itself, change nothing
	X.Merge(Y)
	X.Merge(X)
	rm2, _ := hllRegs(X)
	if !eqU64(rm2, regsA) {
		c.fail([]string{"C06", "C05", "C08"}, "hll-merge-not-idempotent", cfg+": merging again changed the registers", replay)
	}
	// commutative: Y.Merge(X0) where X0 = first half
	X0, _ := newHLL(m, redis)
	for _, j := range stream[:cut] {
		X0.Update(pool[j])
	}
	Y.Merge(X0)
	ryx, _ := hllRegs(Y)
	if !eqU64(ryx, regsA) {
		c.fail([]string{"C06"}, "hll-merge-not-commutative", cfg+": merge in the other direction differs", replay)
	}
	// updates after a merge behave as on the single sketch
	for k := 0; k < 3; k++ {
		j := c.rng.Intn(len(pool))
		X.Update(pool[j])
		A.Update(pool[j])
	}
	r1, _ := hllRegs(X)
	r2, _ := hllRegs(A)
	if !eqU64(r1, r2) {
		c.fail([]string{"C06"}, "hll-merge-then-update", cfg+": updates after merge diverge from the single sketch", replay)
	}
	shared := false
	for a := range ivs {
		for b := a + 1; b < len(ivs); b++ {
			if seen[a] && seen[b] && ivs[a].idx == ivs[b].idx && ivs[a].val != 0 && ivs[b].val != 0 {
				shared = true
			}
		}
	}
	if len(distinct) >= 4 && dup && shared {
		c.nontrivial(fmt.Sprintf("%s%v", cfg, stream))
	}
	c.sample(replay)
}

func hllMismatch(c *Ctx) {
	for _, redis := range []bool{false, true} {
		for mi, mm := range [][2]uint64{{128, 256}, {256, 128}, {128, 4096}, {256, 128}, {128, 256}, {256, 128}, {128, 256}} {
			A, e1 := newHLL(mm[0], redis)
			B, e2 := newHLL(mm[1], redis)
			if e1 != nil || e2 != nil {
				continue
			}
			c.rep.Cases++
			// receiver / argument empty or not: a rejected merge never depends on the contents
			fillA, fillB := c.rng.Intn(2) == 0, c.rng.Intn(3) != 0
			if mi >= 3 {
				// all four combinations, whatever the seed draws above
				fillA, fillB = (mi-3)&1 == 1, (mi-3)&2 == 2
			}
			if fillA {
				A.Update([]byte("x"))
			}
			if fillB {
				B.Update([]byte("y"))
				B.Update([]byte("z"))
			}
			ra, _ := hllRegs(A)
			rb, _ := hllRegs(B)
			var merr error
			res := safely(func() { merr = A.Merge(B) })
			cfg := fmt.Sprintf("hll-mismatch(%v,redis=%v,receiver-empty=%v,argument-empty=%v)", mm, redis, !fillA, !fillB)
			if res.panicked {
				c.fail([]string{"C06"}, "hll-mismatch-panic", cfg+": "+res.panicVal, cfg)
				continue
			}
			if merr == nil {
				c.fail([]string{"C06"}, "hll-mismatch-accepted", cfg+": merge of different register counts accepted", cfg)
			}
			ra2, _ := hllRegs(A)
			rb2, _ := hllRegs(B)
			if !eqU64(ra, ra2) || !eqU64(rb, rb2) {
				c.fail([]string{"C06"}, "hll-mismatch-mutates", cfg+": rejected merge changed a sketch", cfg)
			}
			c.emit("hll.merge %d %s %d %s err", mm[0], natList(ra), mm[1], natList(rb))
			c.branch("merge-mismatch")
		}
	}
}

// ---------------------------------------------------------------------------------------------
// C05: accuracy oracle.  The unchanged code stores hash bits in register <rank>, so the estimate
// does not track n (finding D4) and updates fail for m <= 64 on some elements.

func suiteHLLAcc(c *Ctx) {
	c.rep.Rule = "case = (m, n, backend): n distinct random elements into a sketch of m registers, estimate compared with n (tolerance 3*1.04/sqrt(m)); every update and count is also replayed through the model; non-trivial = n >= m/2"
	ms := []uint64{4, 16, 64, 128, 1024, 2048, 4096, 8192}
	if c.thorough() {
		ms = []uint64{2, 4, 8, 16, 32, 64, 128, 256, 512, 1024, 2048, 4096}
	}
	for _, m := range ms {
		for _, redis := range []bool{false, true} {
			ns := []uint64{0, m / 2, m, 10 * m}
			if c.thorough() && !redis {
				ns = append(ns, 100*m)
			}
			if redis && m > 1024 {
				ns = []uint64{0, m}
			}
			if redis && m > 4096 {
				continue // finding D26 territory (unpack limit); in-memory only
			}
			for _, n := range ns {
				hllAccCase(c, m, n, redis)
			}
		}
	}
}

func hllAccCase(c *Ctx, m, n uint64, redis bool) {
	cfg := fmt.Sprintf("hllacc(m=%d,n=%d,redis=%v)", m, n, redis)
	c.rep.Cases++
	H, err := newHLL(m, redis)
	if err != nil {
		// m = 1 etc: the Redis constructor fails on its own init script
		c.fail([]string{"C05"}, "hll-small-m-update-fails", fmt.Sprintf("%s: constructor failed: %v", cfg, err), cfg)
		return
	}
	failed := 0
	var firstFail []byte
	traced := 0
	for i := uint64(0); i < n; i++ {
		e := []byte(fmt.Sprintf("elem-%d-%d", c.seed, i*2654435761+uint64(c.rng.Intn(1000))*1000003))
		e = append(e, byte(i), byte(i>>8), byte(i>>16))
		var pre []uint64
		doTrace := traced < 40
		if doTrace {
			pre, _ = hllRegs(H)
		}
		var uerr error
		res := safely(func() { uerr = H.Update(e) })
		c.op("Update")
		if res.panicked || uerr != nil {
			failed++
			if firstFail == nil {
				firstFail = e
			}
			continue
		}
		if doTrace {
			post, _ := hllRegs(H)
			h, _ := metro.Hash128(e, 1373)
			p := uint64(math.Log2(float64(m)))
			idx := uint64(1 + bits.LeadingZeros64(h<<p))
			val := (h >> (32 - p)) & 0xff
			c.emit("hll.indexval %d %d %d %d", h, p, idx, val)
			c.emit("hll.update %d %s %d %d %s", m, natList(pre), idx, val, natList(post))
			traced++
		}
	}
	if failed > 0 {
		c.fail([]string{"C05"}, "hll-small-m-update-fails",
			fmt.Sprintf("%s: %d of %d updates failed (first failing element %x): the register index is the rank (1..65) and exceeds m-1", cfg, failed, n, firstFail),
			map[string]interface{}{"m": m, "redis": redis, "element_hex": hexStr(firstFail)})
		c.branch("update-failed")
	}
	regs, _ := hllRegs(H)
	for _, fl := range hllFlags() {
		v, err := H.Count(fl[0], fl[1])
		c.op("Count")
		if err != nil {
			c.fail([]string{"C05"}, "hll-count-fails", cfg+": "+err.Error(), cfg)
			return
		}
		c.emit("hll.count %d %s %d %d %d", m, natList(regs), b2i(fl[0]), b2i(fl[1]), v)
		if fl[0] && fl[1] {
			tol := 3 * 1.04 / math.Sqrt(float64(m))
			var relerr float64
			if n == 0 {
				relerr = float64(v) // "about zero": allow |est| <= 1
				if v <= 1 {
					relerr = 0
				}
			} else {
				relerr = math.Abs(float64(v)-float64(n)) / float64(n)
			}
			if relerr > tol && failed == 0 {
				c.fail([]string{"C05"}, "hll-accuracy-rank-as-index",
					fmt.Sprintf("%s: estimate %d for %d distinct elements (relative error %.2f > %.3f)", cfg, v, n, relerr, tol),
					map[string]interface{}{"m": m, "n": n, "redis": redis, "estimate": v})
				c.branch("inaccurate")
			} else if failed == 0 {
				c.branch("accurate")
			}
		}
	}
	if n >= m/2 && n > 0 {
		c.nontrivial(cfg)
	}
	c.sample(map[string]interface{}{"config": cfg})
}

// hllCraftedMerge: merge operands whose registers are set at arbitrary positions (first, last,
// random) through a crafted Import document - states Update alone reaches only with probability
// 2^-rank.  The merge must be the register-wise maximum (model line hll.merge) and commutative.
func hllCraftedMerge(c *Ctx, m uint64, redis bool, cfg string) {
	mk := func() (hllHandle, []uint64, bool) {
		h, err := newHLL(m, redis)
		if err != nil {
			return nil, nil, false
		}
		d, err := parseHLL(h.Export())
		if err != nil {
			return nil, nil, false
		}
		regs := make([]uint8, m)
		for _, i := range []uint64{0, m - 1, uint64(c.rng.Intn(int(m))), uint64(c.rng.Intn(int(m)))} {
			if c.rng.Intn(3) != 0 {
				regs[i] = uint8(1 + c.rng.Intn(30)) // small enough that the estimate stays far below 2^63
			}
		}
		d.R = regs
		doc, _ := json.Marshal(d)
		var ierr error
		switch x := h.(type) {
		case hllMem:
			ierr = x.h.Import(doc)
		case hllRedis:
			ierr = x.h.Import(doc, true)
		case *hllMulti:
			// Import moves the handle to new keys without rewriting the metadata hash (D25, see
			// DESIGN.md): only the importing handle is used from here on
			x.hs = x.hs[:1]
			x.frozen = true
			ierr = x.hs[0].h.Import(doc, true)
		}
		if ierr != nil {
			return nil, nil, false
		}
		out, _ := hllRegs(h)
		return h, out, true
	}
	A, ra, ok1 := mk()
	B, rb, ok2 := mk()
	if !ok1 || !ok2 {
		return
	}
	for _, fl := range hllFlags() {
		A.Count(fl[0], fl[1])
	}
	if err := A.Merge(B); err != nil {
		c.fail([]string{"C06", "C08"}, "hll-merge-fails", fmt.Sprintf("%s: merge of imported sketches failed: %v", cfg, err), cfg)
		return
	}
	rm, _ := hllRegs(A)
	c.emit("hll.merge %d %s %d %s %s", m, natList(ra), m, natList(rb), natList(rm))
	for i := range rm {
		want := ra[i]
		if rb[i] > want {
			want = rb[i]
		}
		if rm[i] != want {
			c.fail([]string{"C06", "C08"}, "hll-merge-not-union", fmt.Sprintf("%s: register %d of the merged sketch is %d, operands have %d and %d", cfg, i, rm[i], ra[i], rb[i]),
				map[string]interface{}{"config": cfg, "a": ra, "b": rb, "merged": rm})
			return
		}
	}
	for _, fl := range hllFlags() {
		v, _ := A.Count(fl[0], fl[1])
		c.emit("hll.count %d %s %d %d %d", m, natList(rm), b2i(fl[0]), b2i(fl[1]), v)
	}
	c.branch("crafted-merge")
}
