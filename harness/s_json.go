package main

import (
	"fmt"
	"strings"

	"github.com/kwertop/gostatix"
)

// suite "json": C10.  Export -> Import into a fresh instance that holds other state (Redis: under
// new keys); the copy must have the same parameters and payload, answer every query identically,
// be Equal both ways, behave identically under further updates, and the exporter must be untouched.

func init() { register("json", suiteJSON) }

var jsonAbsent = [][]byte{[]byte("never-1"), []byte("never-2"), []byte("never-3"), {}, {0xff, 0x00}}

func jsonQueries(kind string, o interface{}) string {
	var sb strings.Builder
	res := safely(func() {
		all := append(append([][]byte(nil), eqPool...), jsonAbsent...)
		switch {
		case strings.HasPrefix(kind, "bloom"):
			f := o.(*gostatix.BloomFilter)
			fmt.Fprintf(&sb, "%d/%d:", f.GetCap(), f.GetNumHashes())
			for _, e := range all {
				fmt.Fprintf(&sb, "%v,", f.Lookup(e))
			}
		case strings.HasPrefix(kind, "cms"):
			for _, e := range all {
				v, err := o.(cmsHandle).Count(e)
				fmt.Fprintf(&sb, "%d/%v,", v, err != nil)
			}
		case strings.HasPrefix(kind, "hll"):
			for _, fl := range hllFlags() {
				v, err := o.(hllHandle).Count(fl[0], fl[1])
				fmt.Fprintf(&sb, "%d/%v,", v, err != nil)
			}
		case strings.HasPrefix(kind, "cuckoo"):
			h := o.(cuckooHandle)
			fmt.Fprintf(&sb, "len=%d:", h.Length())
			for _, e := range eqPool {
				v, err := h.Lookup(e)
				fmt.Fprintf(&sb, "%v/%v,", v, err != nil)
			}
		default:
			v, err := o.(topkHandle).Values()
			fmt.Fprintf(&sb, "%v/%v", v, err != nil)
		}
	})
	if res.panicked {
		sb.WriteString("PANIC:" + res.panicVal)
	}
	return sb.String()
}

func suiteJSON(c *Ctx) {
	c.rep.Rule = "case = one reachable state of one of the 10 variants (random history incl. removals, partially filled heaps, single-column sketches, evictions) exported and imported into an instance holding other state; non-trivial = non-empty payload; distinct by (kind, history)"
	kinds := []eqKind{eqCMS(false), eqCMS(true), eqHLL(false), eqHLL(true), eqBloom(false), eqBloom(true), eqCuckoo(false), eqCuckoo(true), eqTopK(false), eqTopK(true), eqTopKRates(false), eqTopKRates(true), eqCMSSquare(false), eqCMSSquare(true), eqTopKSquare(false), eqTopKSquare(true)}
	rounds := c.scale(10, 60)
	for r := 0; r < rounds; r++ {
		for _, k := range kinds {
			for v := 0; v <= k.nparams; v++ {
				if v > 0 && c.rng.Intn(3) != 0 {
					continue
				}
				jsonCase(c, k, v)
			}
		}
	}
	jsonSingleColumn(c)
	jsonMergeOnly(c)
	jsonCrossBackend(c)
	jsonWide(c)
	jsonExportAcrossHandles(c)
	jsonBloomDense(c)
	jsonProbes(c)
}

// jsonBloomDense: Bloom filters of many sizes filled to 50%..100% before the round trip.  The
// serialised bitmap of a sparse filter is almost all zero bytes; runs of set bits (every base64
// sextet value, 0xff bytes, a completely full filter) only occur in well-filled ones.
func jsonBloomDense(c *Ctx) {
	rounds := c.scale(12, 80)
	for r := 0; r < rounds; r++ {
		for _, redis := range []bool{false, true} {
			k := eqBloom(redis)
			size := uint(5 + c.rng.Intn(400))
			if r%4 == 0 {
				size = uint(64 * (1 + c.rng.Intn(4)))
			}
			fill := []float64{0.5, 0.8, 0.95, 1.0}[c.rng.Intn(4)]
			n, p := paramsForSize(size, 1+uint(c.rng.Intn(int(size))))
			kd := k
			kd.build = func(c *Ctx, v int) interface{} {
				f, err := bloomCfg{kind: "params", numItems: n, errorRate: p, redis: redis}.build()
				if err != nil || f == nil {
					return nil
				}
				for i := 0; i < 40*int(size); i++ {
					a, err := bloomAbs(f, redis)
					if err != nil || float64(len(a.Bits)) >= fill*float64(a.Size) {
						break
					}
					for j := 0; j < 1+int(size)/16; j++ {
						f.Insert(randBytes(c.rng, 1+c.rng.Intn(12)))
					}
				}
				c.branch(fmt.Sprintf("bloom-dense-%g", fill))
				return f
			}
			jsonCase(c, kd, 0)
		}
	}
}

func jsonCase(c *Ctx, k eqKind, variant int) {
	if k.redis {
		c.mr.FlushAll() // cases are independent; keeps the database dumps small
	}
	hist := randHist(c)
	a := k.build(c, variant)
	if a == nil {
		return
	}
	c.rep.Cases++
	k.feed(c, a, hist)
	replay := map[string]interface{}{"kind": k.name, "variant": variant, "history": hist}
	doc, err := k.export(a)
	c.op("Export." + k.name)
	if err != nil {
		c.fail([]string{"C10"}, k.name+"-export-fails", err.Error(), replay)
		return
	}
	// a document is a snapshot: in a third of the cases the exporter moves on before the document
	// is imported; the copy must be the state at export time, whatever the exporter holds now
	if c.rng.Intn(3) == 0 {
		sa0, _ := k.absStr(a)
		qa0 := jsonQueries(k.name, a)
		later := append(randHist(c), 7, 8, 9)
		k.feed(c, a, later)
		var b0 interface{}
		var ierr0 error
		res0 := safely(func() { b0, ierr0 = k.imp(c, doc) })
		c.op("Import-stale-snapshot." + k.name)
		if res0.panicked || ierr0 != nil || b0 == nil {
			c.fail([]string{"C10"}, k.name+"-import-fails", fmt.Sprintf("%s: Import of an exported document failed: %v %v", k.name, res0.panicVal, ierr0), replay)
			return
		}
		sb0, _ := k.absStr(b0)
		if sb0 != sa0 || jsonQueries(k.name, b0) != qa0 {
			replay["later_updates_of_the_exporter"] = later
			replay["exported_state"], replay["copy"] = sa0, sb0
			c.fail([]string{"C10", "C19"}, k.name+"-import-not-the-snapshot", fmt.Sprintf("%s: the exporter was updated after Export; the imported copy is not the exported state", k.name), replay)
		}
		c.branch("stale-snapshot")
		return
	}
	var dumpBefore string
	if k.redis {
		dumpBefore = c.mr.Dump()
	}
	var b interface{}
	var ierr error
	res := safely(func() { b, ierr = k.imp(c, doc) })
	c.op("Import." + k.name)
	if res.panicked || ierr != nil || b == nil {
		c.fail([]string{"C10"}, k.name+"-import-fails", fmt.Sprintf("%s: Import of an exported document failed: %v %v", k.name, res.panicVal, ierr), replay)
		return
	}
	if k.redis {
		c.checkNoTTL([]string{"C10", "C19"}, k.name+" after Import under new keys")
		// the exporter's keys must be untouched: every key present before has the same value after
		after := c.mr.Dump()
		if !dumpContains(after, dumpBefore) {
			c.fail([]string{"C10", "C19"}, k.name+"-import-touches-original", k.name+": Import under new keys changed keys that existed before", replay)
		}
	}
	doc2, _ := k.export(a)
	if string(doc) != string(doc2) {
		c.fail([]string{"C10", "C19"}, k.name+"-import-touches-original", k.name+": the exporter's Export changed after the copy was imported", replay)
	}
	sa, _ := k.absStr(a)
	sb, _ := k.absStr(b)
	replay["original"], replay["copy"] = sa, sb
	if sa != sb {
		c.fail([]string{"C10"}, k.name+"-roundtrip-state", fmt.Sprintf("%s: imported copy differs in parameters or payload", k.name), replay)
		return
	}
	if qa, qb := jsonQueries(k.name, a), jsonQueries(k.name, b); qa != qb {
		c.fail([]string{"C10"}, k.name+"-roundtrip-queries", fmt.Sprintf("%s: imported copy answers differently: %s vs %s", k.name, qa, qb), replay)
		return
	}
	var ab, ba bool
	r1 := safely(func() { ab, _ = k.equals(a, b); ba, _ = k.equals(b, a) })
	if r1.panicked || !ab || !ba {
		c.fail([]string{"C10", "C17"}, k.name+"-roundtrip-equals", fmt.Sprintf("%s: imported copy not Equal to the original (%v,%v,%s)", k.name, ab, ba, r1.panicVal), replay)
	}
	// further updates: first on the copy alone - the original must not notice -, then on the
	// original, after which both must agree again
	more := append(randHist(c), randHist(c)...)
	k.feed(c, b, more)
	if docA, _ := k.export(a); string(docA) != string(doc) {
		c.fail([]string{"C10", "C19"}, k.name+"-copy-not-independent", k.name+": updating the imported copy changed what the original exports", replay)
		return
	}
	k.feed(c, a, more)
	sa, _ = k.absStr(a)
	sb, _ = k.absStr(b)
	if sa != sb || jsonQueries(k.name, a) != jsonQueries(k.name, b) {
		replay["more"] = more
		replay["original"], replay["copy"] = sa, sb
		c.fail([]string{"C10"}, k.name+"-diverges-after-import", fmt.Sprintf("%s: original and imported copy diverge under further identical updates", k.name), replay)
	}
	if len(hist) > 0 {
		c.nontrivial(fmt.Sprint(k.name, variant, hist))
	}
	c.sample(map[string]interface{}{"kind": k.name, "history": hist, "doc_bytes": len(doc)})
}

// dumpContains: every "key + value block" of `before` still occurs verbatim in `after`
func dumpContains(after, before string) bool {
	blocks := strings.Split(before, "\n- ")
	for _, b := range blocks {
		b = strings.TrimPrefix(b, "- ")
		if strings.TrimSpace(b) == "" {
			continue
		}
		if !strings.Contains(after, strings.TrimRight(b, "\n")) {
			return false
		}
	}
	return true
}

// single-column sketches (named explicitly by the property), both backends, plus Top-K over one
func jsonSingleColumn(c *Ctx) {
	for _, redis := range []bool{false, true} {
		for rows := uint(1); rows <= 3; rows++ {
			h, err := newCMS(rows, 1, redis)
			if err != nil {
				continue
			}
			c.rep.Cases++
			h.Update([]byte("a"), 2)
			h.Update([]byte("b"), 3)
			doc, _ := h.Export()
			k := eqCMS(redis)
			cp, ierr := k.imp(c, doc)
			name := fmt.Sprintf("cms(rows=%d,cols=1,redis=%v)", rows, redis)
			if ierr != nil || cp == nil {
				c.fail([]string{"C10"}, k.name+"-import-fails", fmt.Sprintf("%s: Import of a single-column sketch failed: %v", name, ierr), name)
				continue
			}
			sa, _ := k.absStr(h)
			sb, _ := k.absStr(cp)
			if sa != sb {
				c.fail([]string{"C10"}, k.name+"-roundtrip-state", name+": imported single-column sketch differs", name)
			}
			c.branch("single-column")
		}
	}
}

func jsonProbes(c *Ctx) {
	// finding D23: Top-K element names travel as JSON strings; invalid UTF-8 is replaced by U+FFFD
	for _, redis := range []bool{false, true} {
		t := newTopK(3, 1, 0.5, redis)
		if t == nil {
			continue
		}
		c.rep.Cases++
		t.Insert([]byte{0xff, 0xfe}, 5)
		t.Insert([]byte("ok"), 2)
		doc, _ := t.Export()
		k := eqTopK(redis)
		cp, err := k.imp(c, doc)
		if err != nil || cp == nil {
			continue
		}
		v1, _ := t.Values()
		v2, _ := cp.(topkHandle).Values()
		if fmt.Sprint(v1) != fmt.Sprint(v2) {
			c.fail([]string{"C10"}, "topk-json-invalid-utf8", fmt.Sprintf("topk(redis=%v): element name 0xfffe comes back as %q after Export/Import", redis, v2[0].V),
				map[string]interface{}{"op": "Insert([]byte{0xff,0xfe},5); Export; Import"})
		} else {
			c.note("invalid UTF-8 element names survive Export/Import (finding D23 not reproduced)")
		}
	}
	// finding D26: HyperLogLogRedis.Import unpacks all registers at once; >= ~8000 registers fail
	h, err := gostatix.NewHyperLogLogRedis(8192)
	if err == nil {
		c.rep.Cases++
		h.Update([]byte("x"))
		doc, _ := h.Export()
		g, _ := gostatix.NewHyperLogLogRedis(128)
		ierr := g.Import(doc, true)
		ok, _ := h.Equals(g)
		if ierr != nil || !ok {
			c.fail([]string{"C10"}, "hll-redis-import-unpack", fmt.Sprintf("NewHyperLogLogRedis(8192): Import of its own export fails: %v (Equals=%v)", ierr, ok),
				map[string]interface{}{"op": "NewHyperLogLogRedis(8192); Update; Export; Import(doc,true)"})
		} else {
			c.note("HLL redis import with 8192 registers works (finding D26 not reproduced)")
		}
	}
}

// suite "jsonprefix": C18, JSON half, for ALL ten variants (suite persist covers the five in-memory
// ones together with their binary images): Import of every strict prefix of an exported document -
// the empty one included - must return an error and must not panic.  Redis variants import under
// new keys and in place.
func init() { register("jsonprefix", suiteJSONPrefix) }

func suiteJSONPrefix(c *Ctx) {
	c.rep.Rule = "case = one reachable state of one of the 10 variants, exported; every strict prefix of the document (every k-th byte for documents over 1500 bytes) is offered to Import of a fresh instance (Redis: under new keys); non-trivial = document of a non-empty structure; distinct by (kind, document)"
	kinds := []eqKind{eqCMS(false), eqCMS(true), eqHLL(false), eqHLL(true), eqBloom(false), eqBloom(true), eqCuckoo(false), eqCuckoo(true), eqTopK(false), eqTopK(true)}
	rounds := c.scale(3, 20)
	for r := 0; r < rounds; r++ {
		for _, k := range kinds {
			if k.redis {
				c.mr.FlushAll()
			}
			a := k.build(c, 0)
			if a == nil {
				continue
			}
			c.rep.Cases++
			hist := randHist(c)
			k.feed(c, a, hist)
			doc, err := k.export(a)
			if err != nil {
				continue
			}
			step := 1
			if len(doc) > 1500 {
				step = len(doc) / 750
			}
			for cut := 0; cut < len(doc); cut += step {
				var ierr error
				var b interface{}
				res := safely(func() { b, ierr = k.imp(c, doc[:cut]) })
				c.rep.Ops["Import.prefix."+k.name]++
				if res.panicked || ierr == nil {
					c.fail([]string{"C18"}, k.name+"-json-prefix", fmt.Sprintf("%s: Import of the %d-byte prefix of a %d-byte document: panic=%q err=%v", k.name, cut, len(doc), res.panicVal, ierr),
						map[string]interface{}{"kind": k.name, "history": hist, "doc": string(doc), "cut": cut})
					break
				}
				_ = b
			}
			if len(hist) > 0 {
				c.nontrivial(k.name + string(doc))
			}
			if r == 0 {
				c.sample(map[string]interface{}{"kind": k.name, "json_bytes": len(doc)})
			}
		}
	}
}

// jsonExportAcrossHandles: Export reads the structure, not what this handle last saw.  Redis kinds:
// export through handle A, update through a second handle B attached from the metadata key, export
// through A again: the second document must describe the updated structure (= B's export), and its
// import must answer like B.
func jsonExportAcrossHandles(c *Ctx) {
	rounds := c.scale(4, 25)
	for r := 0; r < rounds; r++ {
		for _, k := range raKinds() {
			kk := k
			c.mr.FlushAll()
			a, mk := kk.create(c)
			if a == nil {
				continue
			}
			c.rep.Cases++
			kk.eq.feed(c, a, randHist(c))
			if _, err := kk.eq.export(a); err != nil {
				continue
			}
			b, err := kk.attach(mk)
			if err != nil || b == nil {
				continue
			}
			// a handle that has not updated anything itself exports the structure as it is
			if docA0, e1 := kk.eq.export(a); e1 == nil {
				if docB0, e2 := kk.eq.export(b); e2 == nil {
					if sa, sb := jsonDocState(kk.eq, c, docA0), jsonDocState(kk.eq, c, docB0); sa != "" && sb != "" && sa != sb {
						c.fail([]string{"C10", "C09"}, kk.eq.name+"-export-through-fresh-handle", fmt.Sprintf("%s: Export through a freshly attached handle, imported again, is not the structure that Export through the creating handle gives", kk.name),
							map[string]interface{}{"kind": kk.name, "via_creating_handle": sa, "via_attached_handle": sb})
					}
				}
			}
			more := append(randHist(c), 1, 2, 3, 4, 5)
			kk.eq.feed(c, b, more)
			docA, e1 := kk.eq.export(a)
			docB, e2 := kk.eq.export(b)
			c.op("Export-after-update-through-other-handle." + kk.name)
			if e1 != nil || e2 != nil {
				continue
			}
			replay := map[string]interface{}{"kind": kk.name, "updates_through_second_handle": more}
			sa, sb := jsonDocState(kk.eq, c, docA), jsonDocState(kk.eq, c, docB)
			if sa == "" || sb == "" {
				continue
			}
			if sa != sb {
				replay["export_through_first_handle"], replay["export_through_second_handle"] = sa, sb
				c.fail([]string{"C10", "C09"}, kk.eq.name+"-export-stale-across-handles", fmt.Sprintf("%s: after updates through a second handle, Export through the first handle does not describe the current structure", kk.name), replay)
			}
			c.branch("export-across-handles")
		}
	}
}

// jsonDocState: canonical state of the structure a document describes (through a fresh import)
func jsonDocState(k eqKind, c *Ctx, doc []byte) string {
	var o interface{}
	var err error
	res := safely(func() { o, err = k.imp(c, doc) })
	if res.panicked || err != nil || o == nil {
		return ""
	}
	s, _ := k.absStr(o)
	return s + "|" + jsonQueries(k.name, o)
}

// jsonWide: sketches wider than any slice / batch size an implementation might move rows in (4096),
// below the unpack limit of the Lua stand-in (~5100): Count-Min and the sketch inside Top-K.
func jsonWide(c *Ctx) {
	for _, redis := range []bool{false, true} {
		cols := uint(4200 + c.rng.Intn(700))
		h, err := newCMS(2, cols, redis)
		if err != nil || h == nil {
			continue
		}
		c.rep.Cases++
		for i := 0; i < 120; i++ {
			h.Update([]byte(fmt.Sprintf("wide-%d", i)), uint64(1+i%5))
		}
		doc, _ := h.Export()
		k := eqCMS(redis)
		cp, ierr := k.imp(c, doc)
		name := fmt.Sprintf("cms(rows=2,cols=%d,redis=%v)", cols, redis)
		if ierr != nil || cp == nil {
			c.fail([]string{"C10"}, k.name+"-import-fails", fmt.Sprintf("%s: Import of a wide sketch failed: %v", name, ierr), name)
			continue
		}
		sa, _ := k.absStr(h)
		sb, _ := k.absStr(cp)
		ok, _ := k.equals(h, cp)
		if sa != sb || !ok {
			c.fail([]string{"C10"}, k.name+"-roundtrip-state", name+": imported wide sketch differs (Equals="+fmt.Sprint(ok)+")", name)
		}
		c.branch("wide-sketch")
		// Top-K over a wide sketch (errorRate 0.0006 -> 4531 columns, one row)
		t := newTopK(3, 0.0006, 0.5, redis)
		if t == nil {
			continue
		}
		c.rep.Cases++
		for i := 0; i < 60; i++ {
			t.Insert([]byte(fmt.Sprintf("wide-%d", i)), uint64(1+i%7))
		}
		tk := eqTopK(redis)
		tdoc, err := t.Export()
		if err != nil {
			continue
		}
		tcp, terr := tk.imp(c, tdoc)
		if terr != nil || tcp == nil {
			c.fail([]string{"C10"}, tk.name+"-import-fails", fmt.Sprintf("topk over a wide sketch (redis=%v): Import failed: %v", redis, terr), name)
			continue
		}
		ta, _ := tk.absStr(t)
		tb, _ := tk.absStr(tcp)
		if ta != tb {
			c.fail([]string{"C10"}, tk.name+"-roundtrip-state", fmt.Sprintf("topk over a wide sketch (redis=%v): imported copy differs", redis), name)
		}
		c.branch("wide-topk")
	}
}

// jsonMergeOnly: a sketch that was filled only by Merge (its own update counter never moved), and
// a sketch exported through a handle attached from the metadata key (whose handle-local fields
// start at zero): their documents import like any other.
func jsonMergeOnly(c *Ctx) {
	for _, redis := range []bool{false, true} {
		for r := 0; r < c.scale(3, 12); r++ {
			for _, k := range []eqKind{eqCMS(redis), eqHLL(redis)} {
				src, dst := k.build(c, 0), k.build(c, 0)
				if src == nil || dst == nil {
					continue
				}
				c.rep.Cases++
				k.feed(c, src, append(randHist(c), 1, 2, 3))
				var merr error
				switch x := dst.(type) {
				case cmsHandle:
					merr = x.Merge(src.(cmsHandle))
				case hllHandle:
					merr = x.Merge(src.(hllHandle))
				}
				if merr != nil {
					continue
				}
				doc, err := k.export(dst)
				if err != nil {
					continue
				}
				cp, ierr := k.imp(c, doc)
				if ierr != nil || cp == nil {
					c.fail([]string{"C10"}, k.name+"-import-fails", fmt.Sprintf("%s: Import of the export of a merge-only sketch failed: %v", k.name, ierr), k.name)
					continue
				}
				sa, _ := k.absStr(dst)
				sb, _ := k.absStr(cp)
				if sa != sb || jsonQueries(k.name, dst) != jsonQueries(k.name, cp) {
					c.fail([]string{"C10"}, k.name+"-roundtrip-state", fmt.Sprintf("%s: a sketch filled only by Merge does not survive Export/Import", k.name), map[string]interface{}{"original": sa, "copy": sb})
				}
				c.branch("merge-only-export")
			}
		}
	}
}

// jsonCrossBackend: a document exported by an in-memory structure (it names no Redis keys) imported
// into Redis-backed structures under new keys, twice: two independent copies under fresh non-empty
// keys, each answering like the exporter.
func jsonCrossBackend(c *Ctx) {
	for r := 0; r < c.scale(3, 12); r++ {
		for _, pair := range [][2]eqKind{{eqCMS(false), eqCMS(true)}, {eqHLL(false), eqHLL(true)}, {eqTopK(false), eqTopK(true)}, {eqCuckoo(false), eqCuckoo(true)}} {
			km, kr := pair[0], pair[1]
			c.mr.FlushAll()
			a := km.build(c, 0)
			if a == nil {
				continue
			}
			c.rep.Cases++
			km.feed(c, a, append(randHist(c), 1, 2, 3))
			doc, err := km.export(a)
			if err != nil {
				continue
			}
			var c1, c2 interface{}
			var e1, e2 error
			res := safely(func() { c1, e1 = kr.imp(c, doc); c2, e2 = kr.imp(c, doc) })
			c.op("Import.mem-document-into-redis." + kr.name)
			if res.panicked || e1 != nil || e2 != nil || c1 == nil || c2 == nil {
				// not every in-memory document is importable by the Redis variant (no property says so)
				c.branch("cross-backend-import-refused")
				continue
			}
			for _, key := range c.mr.Keys() {
				if key == "" {
					c.fail([]string{"C19", "C10"}, kr.name+"-import-under-empty-key", fmt.Sprintf("%s: Import under new keys of an in-memory document created the Redis key \"\"", kr.name), kr.name)
					return
				}
			}
			q1 := jsonQueries(kr.name, c1)
			more := append(randHist(c), 7, 8, 9, 10)
			kr.feed(c, c2, more)
			if jsonQueries(kr.name, c1) != q1 {
				c.fail([]string{"C19", "C10"}, kr.name+"-copies-not-independent", fmt.Sprintf("%s: two structures imported under new keys from one in-memory document share state: updating one changed the answers of the other", kr.name), map[string]interface{}{"kind": kr.name, "updates": more})
			}
			c.branch("cross-backend-import")
		}
	}
}
