package main

import (
	"fmt"
	"math"
	"math/rand"
	"sort"
	"strings"

	"github.com/kwertop/gostatix"
)

// suite "cuckoo": C02 (no live element lost), C13 (deletion / length accounting), C14 (failed
// insert), cuckoo part of C08.  Exact mode: the element bytes and the mirrored random choices are
// shipped, the Lean model computes fingerprints, buckets, evictions and rollback itself.

type cuckooHandle interface {
	Insert(data []byte, destructive bool) bool
	Lookup(data []byte) (bool, error)
	Remove(data []byte) (bool, error)
	Length() uint64
	Export() ([]byte, error)
	tag() string
}

type cuckooMem struct{ f *gostatix.CuckooFilter }

func (h cuckooMem) Insert(d []byte, ds bool) (ok bool) {
	viaScratch(d, func(a []byte) { ok = h.f.Insert(a, ds) })
	return
}
func (h cuckooMem) Lookup(d []byte) (ok bool, err error) {
	viaScratch(d, func(a []byte) { ok = h.f.Lookup(a) })
	return
}
func (h cuckooMem) Remove(d []byte) (ok bool, err error) {
	viaScratch(d, func(a []byte) { ok = h.f.Remove(a) })
	return
}
func (h cuckooMem) Length() uint64          { return h.f.Length() }
func (h cuckooMem) Export() ([]byte, error) { return h.f.Export() }
func (h cuckooMem) tag() string             { return "cuckoo.mem" }

type cuckooRedis struct{ f *gostatix.CuckooFilterRedis }

func (h cuckooRedis) Insert(d []byte, ds bool) (ok bool) {
	viaScratch(d, func(a []byte) { ok = h.f.Insert(a, ds) })
	return
}
func (h cuckooRedis) Lookup(d []byte) (ok bool, err error) {
	viaScratch(d, func(a []byte) { ok, err = h.f.Lookup(a) })
	return
}
func (h cuckooRedis) Remove(d []byte) (ok bool, err error) {
	viaScratch(d, func(a []byte) { ok, err = h.f.Remove(a) })
	return
}
func (h cuckooRedis) Length() uint64          { return h.f.Length() }
func (h cuckooRedis) Export() ([]byte, error) { return h.f.Export() }
func (h cuckooRedis) tag() string             { return "cuckoo.redis" }

type cuckooCfg struct {
	n, b, fpl, retries uint64
	redis              bool
	errRate            float64 // > 0: WithErrorRate constructor (n is then the `size` argument)
}

func (k cuckooCfg) String() string {
	if k.errRate > 0 {
		return fmt.Sprintf("cuckooWithErrorRate(size=%d,b=%d,retries=%d,err=%g,redis=%v)", k.n, k.b, k.retries, k.errRate, k.redis)
	}
	return fmt.Sprintf("cuckoo(n=%d,b=%d,fpl=%d,retries=%d,redis=%v)", k.n, k.b, k.fpl, k.retries, k.redis)
}

func (k cuckooCfg) build() (cuckooHandle, error) {
	if k.redis {
		var f *gostatix.CuckooFilterRedis
		var err error
		if k.errRate > 0 {
			f, err = gostatix.NewCuckooFilterRedisWithErrorRate(k.n, k.b, k.retries, k.errRate)
		} else {
			f, err = gostatix.NewCuckooFilterRedisWithRetries(k.n, k.b, k.fpl, k.retries)
		}
		if err != nil {
			return nil, err
		}
		return cuckooRedis{f}, nil
	}
	if k.errRate > 0 {
		return cuckooMem{gostatix.NewCuckooFilterWithErrorRate(k.n, k.b, k.retries, k.errRate)}, nil
	}
	return cuckooMem{gostatix.NewCuckooFilterWithRetries(k.n, k.b, k.fpl, k.retries)}, nil
}

func isPow2(n uint64) bool { return n != 0 && n&(n-1) == 0 }

func init() { register("cuckoo", suiteCuckoo) }

func suiteCuckoo(c *Ctx) {
	c.rep.Rule = "case = (bucket count, bucket size, fingerprint length, retries, backend, constructor) x history of Insert(destructive|not)/Remove/Lookup over a pool sized 0.5-1.5x capacity with duplicates, random eviction choices mirrored from a per-insert seed; non-trivial = history containing at least one relocation (kick) or a failed insert; distinct by (config, history)"
	cases := c.scale(150, 1500)
	ns := []uint64{1, 2, 4, 8, 16, 32, 2, 4, 8, 3, 5, 7, 10, 12}
	for i := 0; i < cases; i++ {
		redis := i%3 == 2
		cfg := cuckooCfg{
			n:       ns[c.rng.Intn(len(ns))],
			b:       []uint64{1, 2, 4, 8, 2, 4, 13}[c.rng.Intn(7)],
			fpl:     []uint64{1, 2, 3, 4, 8, 1, 2, 3, 17, 19, 20}[c.rng.Intn(11)],
			retries: []uint64{0, 1, 2, 3, 10, 50, 500}[c.rng.Intn(7)],
			redis:   redis,
		}
		if redis && cfg.n > 16 {
			cfg.n = 8
		}
		if redis && cfg.retries > 50 {
			cfg.retries = 10
		}
		if c.rng.Intn(8) == 0 {
			cfg.errRate = []float64{0.1, 0.01, 0.001}[c.rng.Intn(3)]
			cfg.n = []uint64{8, 20, 40}[c.rng.Intn(3)] // `size`; bucket count = ceil(size*0.955/b)
		}
		cuckooCase(c, cfg)
	}
	// two-digit bucket counts and sizes on both backends (keys and slot numbers that, written next
	// to each other, can be read in two ways: bucket 1 slot 12 / bucket 11 slot 2)
	cuckooCase(c, cuckooCfg{n: 12, b: 13, fpl: 3, retries: 500, redis: true})
	cuckooCase(c, cuckooCfg{n: 12, b: 13, fpl: 3, retries: 500, redis: false})
	cuckooFullRollback(c, 12, 13, true)
	cuckooFullRollback(c, 12, 13, false)
	cuckooFullRollback(c, 16, 11, true)
	// walks longer than any batch an implementation might undo them in (retries "from 1 to hundreds")
	for _, r := range []uint64{1, 2, 600, 1000} {
		cuckooFullRollback(c, 5, 1, true, r)
		cuckooFullRollback(c, 4, 2, false, r)
	}
	for r := 0; r < 6; r++ {
		cuckooFaultDuringWalk(c, r)
	}
	for _, redis := range []bool{false, true} {
		cuckooLookupThenEvictThenRemove(c, redis)
		cuckooFaultDuringSearch(c, redis)
	}
	// more slots per bucket than buckets (slot numbers and bucket numbers must not be confused)
	for _, g := range [][2]uint64{{2, 4}, {2, 8}, {4, 8}, {3, 7}} {
		cuckooFullRollback(c, g[0], g[1], true)
		cuckooFullRollback(c, g[0], g[1], false)
	}
	cuckooInvalidFpProbe(c)
	cuckooHugeBucket(c)
}

// cuckooHugeBucket: a bucket with more slots than a 16-bit index can address (a compact undo log,
// a narrowed slot type).  One completely full in-memory filter of 1 bucket x 70 000 slots is loaded
// through Import (filling it with Insert would be quadratic); a non-destructive Insert into it
// must fail and leave every slot as it was (C14), all stored elements still present (C02).
func cuckooHugeBucket(c *Ctx) {
	const slots = 70000
	elems := make([]string, slots)
	for i := range elems {
		elems[i] = fmt.Sprintf("%06d", 100000+i)
	}
	doc := []byte(fmt.Sprintf(`{"s":1,"bs":%d,"fpl":6,"l":%d,"r":40,"b":[{"s":%d,"l":%d,"e":["%s"],"k":""}],"k":"","mk":""}`,
		slots, slots, slots, slots, strings.Join(elems, `","`)))
	f := gostatix.NewCuckooFilterWithRetries(1, 2, 6, 40)
	if err := f.Import(doc); err != nil || f.Length() != slots {
		return
	}
	c.rep.Cases++
	before, err := f.Export()
	if err != nil {
		return
	}
	cfg := fmt.Sprintf("cuckoo(n=1,b=%d,fpl=6,retries=40,redis=false), completely full", slots)
	for try := 0; try < 3; try++ {
		e := []byte(fmt.Sprintf("one-too-many-%d-%d", c.seed, try))
		if _, _, _, ok := cuckooPos(e, 1, 6); !ok {
			continue
		}
		rand.Seed(c.rng.Int63())
		ok := false
		res := safely(func() { ok = f.Insert(e, false) })
		c.op("Insert.huge-bucket")
		if !res.panicked && ok {
			c.fail([]string{"C14", "C13"}, "cuckoo-insert-into-full-succeeds", cfg+": Insert into a completely full filter reported success", cfg)
			return
		}
		after, _ := f.Export()
		if string(after) != string(before) || f.Length() != slots {
			da, _ := parseCuckoo(after, nil)
			db, _ := parseCuckoo(before, nil)
			diff := 0
			if len(da.B) == 1 && len(db.B) == 1 {
				for i := range db.B[0].E {
					if i < len(da.B[0].E) && da.B[0].E[i] != db.B[0].E[i] {
						diff++
					}
				}
			}
			c.fail([]string{"C14", "C02"}, "cuckoo-rollback-inexact", fmt.Sprintf("%s: failed non-destructive Insert changed the filter (%d slots differ, Length %d)", cfg, diff, f.Length()), cfg)
			return
		}
	}
	c.branch("huge-bucket")
}

type cuckooState struct {
	doc    cuckooDoc
	length uint64
}

func cuckooSnap(h cuckooHandle) (cuckooState, error) {
	d, err := parseCuckoo(h.Export())
	if err != nil {
		return cuckooState{}, err
	}
	return cuckooState{d, h.Length()}, nil
}

func fpMultiset(d cuckooDoc) map[string]int {
	m := map[string]int{}
	for _, b := range d.B {
		for _, e := range b.E {
			if e != "" {
				m[e]++
			}
		}
	}
	return m
}

// diffSlots counts positions whose content differs (lists of unequal length count the extra tail)
func diffSlots(a, b cuckooDoc) int {
	n := 0
	for i := range a.B {
		if i >= len(b.B) {
			break
		}
		ea, eb := a.B[i].E, b.B[i].E
		if len(ea) != len(eb) {
			// redis list grew by LPUSH: compare as multisets
			ma, mb := map[string]int{}, map[string]int{}
			for _, x := range ea {
				ma[x]++
			}
			for _, x := range eb {
				mb[x]++
			}
			for k, v := range mb {
				if ma[k] != v {
					n++
				}
			}
			continue
		}
		for j := range ea {
			if ea[j] != eb[j] {
				n++
			}
		}
	}
	return n
}

func cuckooCase(c *Ctx, cfg cuckooCfg) {
	h, err := cfg.build()
	if err != nil {
		c.fail([]string{"C02"}, "cuckoo-constructor", err.Error(), cfg.String())
		return
	}
	c.rep.Cases++
	s0, err := cuckooSnap(h)
	if err != nil {
		c.fail([]string{"C02"}, "cuckoo-export", err.Error(), cfg.String())
		return
	}
	n, b, fpl, retries := s0.doc.S, s0.doc.BS, s0.doc.FPL, s0.doc.R
	capacity := int(n * b)
	poolSize := capacity/2 + c.rng.Intn(capacity+2) + 2
	var pool [][]byte
	for _, e := range elemPool(c.rng, poolSize+4, false) {
		// elements whose hash has fewer decimal digits than fpl are finding D3 (probed separately)
		if _, _, _, ok := cuckooPos(e, n, fpl); ok && len(pool) < poolSize {
			pool = append(pool, e)
		}
	}
	keyOf := func(j int) string {
		fp, i1, i2, _ := cuckooPos(pool[j], n, fpl)
		if i1 > i2 {
			i1, i2 = i2, i1
		}
		return fmt.Sprintf("%s@%d,%d", fp, i1, i2)
	}
	live := make([]int, len(pool)) // successful inserts - successful removes
	okIns, okRem := uint64(0), uint64(0)
	kicked := false
	destructiveLoss := false
	var hist []string
	nops := capacity + 5 + c.rng.Intn(2*capacity+10)
	if cfg.redis && nops > 60 {
		nops = 60
	}
	known := func() bool { return !isPow2(n) && (kicked || okRem > 0) }
	key := func(k string) string {
		if known() {
			return "cuckoo-nonpow2-relocation-or-remove"
		}
		return k
	}
	replayOf := func() interface{} {
		return map[string]interface{}{"config": cfg.String(), "pool": poolHex(pool), "history": hist}
	}
	// Redis: operations are routed through the creating handle and through handles re-attached
	// from the metadata key at random points (handle-local caches must not matter: C09)
	handles := []cuckooHandle{h}
	pick := func() cuckooHandle { return handles[c.rng.Intn(len(handles))] }
	for opn := 0; opn < nops; opn++ {
		j := c.rng.Intn(len(pool))
		e := pool[j]
		if hr, isRedis := h.(cuckooRedis); isRedis && len(handles) < 3 && c.rng.Intn(8) == 0 {
			if f2, err := gostatix.NewCuckooFilterRedisFromKey(hr.f.MetadataKey()); err == nil && f2 != nil {
				handles = append(handles, cuckooRedis{f2})
				c.branch("reattached-handle")
			}
		}
		if c.rng.Intn(25) == 0 {
			// continue the history on an imported copy (imported into a handle that already
			// held another filter of other dimensions): all later transitions are still checked
			if doc, err := h.Export(); err == nil {
				var nh cuckooHandle
				var ierr error
				// the previous tenant's geometry: prime, or a power of two larger or smaller than ours
				td := [][2]uint64{{3, 3}, {16, 2}, {2, 4}, {64, 1}, {1, 5}}[c.rng.Intn(5)]
				res := safely(func() {
					if _, isRedis := h.(cuckooRedis); isRedis {
						f2, e2 := gostatix.NewCuckooFilterRedisWithRetries(td[0], td[1], 2, 7)
						if e2 != nil {
							ierr = e2
							return
						}
						f2.Insert([]byte("previous tenant"), false)
						ierr = f2.Import(doc, true)
						nh = cuckooRedis{f2}
					} else {
						f2 := gostatix.NewCuckooFilterWithRetries(td[0], td[1], 2, 7)
						f2.Insert([]byte("previous tenant"), false)
						f2.Lookup([]byte("previous tenant"))
						ierr = f2.Import(doc)
						nh = cuckooMem{f2}
					}
				})
				if res.panicked || ierr != nil || nh == nil {
					c.fail([]string{"C10", "C13"}, "cuckoo-import-fails", fmt.Sprintf("%s: Import of the filter's own export failed: %v %v", cfg, res.panicVal, ierr), replayOf())
					return
				}
				a, _ := cuckooSnap(h)
				bb, _ := cuckooSnap(nh)
				if a.doc.bucketsStr() != bb.doc.bucketsStr() || a.length != bb.length {
					c.fail([]string{"C10", "C13", "C02"}, "cuckoo-import-differs", fmt.Sprintf("%s: imported copy differs from the original", cfg), replayOf())
					return
				}
				h = nh
				handles = []cuckooHandle{h}
				hist = append(hist, "export+import-into-used-handle")
				c.branch("continued-on-imported-copy")
			}
		}
		via := pick()
		pre, err := cuckooSnap(h)
		if err != nil {
			c.fail([]string{"C02"}, "cuckoo-export", err.Error(), cfg.String())
			return
		}
		r := c.rng.Intn(10)
		switch {
		case r < 6: // insert
			destructive := c.rng.Intn(3) == 0
			seed := c.rng.Int63()
			rand.Seed(seed)
			mr := rand.New(rand.NewSource(seed))
			side := mr.Float32() < 0.5
			slots := make([]uint64, retries)
			for i := range slots {
				slots[i] = uint64(math.Ceil(mr.Float64() * float64(b-1)))
			}
			c.op("Insert")
			var ok bool
			res := safely(func() { ok = via.Insert(e, destructive) })
			post, _ := cuckooSnap(h)
			tag := "ok"
			if res.panicked {
				tag = "full"
				if res.panicVal != "cannot insert element, cuckoofilter is full" {
					c.fail([]string{"C02", "C14"}, "cuckoo-insert-panic", fmt.Sprintf("%s: Insert panicked with %q", cfg, res.panicVal), replayOf())
					return
				}
			} else if !ok {
				c.fail([]string{"C14"}, "cuckoo-insert-false", cfg.String()+": Insert returned false", replayOf())
			}
			c.emit("%s insert %d %d %d %d %d %s %s %d %d %s %s %d %s", h.tag(), n, b, fpl, retries, pre.length, pre.doc.bucketsStr(),
				hexStr(e), b2i(destructive), b2i(side), natList(slots), tag, post.length, post.doc.bucketsStr())
			hist = append(hist, fmt.Sprintf("I%d(d=%v,seed=%d)->%s", j, destructive, seed, tag))
			changed := diffSlots(pre.doc, post.doc)
			// the eviction path is taken exactly when both candidate buckets are full beforehand
			if _, i1, i2, ok := cuckooPos(e, n, fpl); ok && pre.doc.B[i1].L >= b && pre.doc.B[i2].L >= b {
				kicked = true
				changed += 2
			}
			if tag == "ok" {
				okIns++
				live[j]++
				if changed > 1 {
					kicked = true
					c.branch("insert-with-kick")
				} else {
					c.branch("insert-direct")
				}
				// C02: an Insert that returns normally has stored the element
				if post.doc.stored() != pre.doc.stored()+1 {
					c.fail([]string{"C02", "C13"}, key("cuckoo-insert-not-stored"), fmt.Sprintf("%s: successful Insert changed the number of stored entries from %d to %d", cfg, pre.doc.stored(), post.doc.stored()), replayOf())
					return
				}
			} else {
				kicked = kicked || changed > 0
				// a refusal is only legitimate when both candidate buckets were full beforehand
				if _, i1, i2, okp := cuckooPos(e, n, fpl); okp && (pre.doc.B[i1].L < b || pre.doc.B[i2].L < b) {
					c.fail([]string{"C14", "C02", "C09"}, "cuckoo-insert-refused-with-room",
						fmt.Sprintf("%s: Insert signalled 'filter is full' although a candidate bucket of the element had room (bucket %d holds %d, bucket %d holds %d, capacity %d; %d handle(s) in use)", cfg, i1, pre.doc.B[i1].L, i2, pre.doc.B[i2].L, b, len(handles)), replayOf())
					return
				}
				// C14
				if !destructive {
					c.branch("insert-full-rollback")
					if pre.doc.bucketsStr() != post.doc.bucketsStr() || pre.length != post.length {
						c.fail([]string{"C14"}, "cuckoo-rollback-inexact", cfg.String()+": failed non-destructive Insert changed the filter", replayOf())
						return
					}
				} else {
					c.branch("insert-full-destructive")
					if post.doc.stored() != pre.doc.stored() || post.length != pre.length {
						c.fail([]string{"C14"}, "cuckoo-destructive-count", fmt.Sprintf("%s: failed destructive Insert changed stored entries %d->%d / Length %d->%d", cfg, pre.doc.stored(), post.doc.stored(), pre.length, post.length), replayOf())
						return
					}
					// at most one previously stored entry displaced
					ma, mb := fpMultiset(pre.doc), fpMultiset(post.doc)
					lost := 0
					for k, v := range ma {
						if mb[k] < v {
							lost += v - mb[k]
						}
					}
					if lost > 1 {
						c.fail([]string{"C14"}, "cuckoo-destructive-many", fmt.Sprintf("%s: failed destructive Insert displaced %d stored entries", cfg, lost), replayOf())
						return
					}
					// one stored entry was dropped: the (fingerprint, bucket pair) key it belonged to has one
					// copy less; charge it to one live element of that key.  More than one missing copy
					// (over all keys) means more than one previously stored entry was displaced.
					destructiveLoss = true
					deficit := 0
					liveKey := map[string]int{}
					for jj := range pool {
						if live[jj] > 0 {
							liveKey[keyOf(jj)] += live[jj]
						}
					}
					for jj := range pool {
						k := keyOf(jj)
						if live[jj] > 0 && liveKey[k] > 0 {
							have := bagCount(post.doc, pool[jj], n, fpl)
							for liveKey[k] > have && live[jj] > 0 {
								live[jj]--
								liveKey[k]--
								deficit++
							}
						}
					}
					if deficit > 1 {
						c.fail([]string{"C14"}, key("cuckoo-destructive-many"), fmt.Sprintf("%s: failed destructive Insert removed %d stored copies that live elements relied on", cfg, deficit), replayOf())
						return
					}
				}
			}
		case r < 8: // remove: only live elements, or elements that Lookup reports absent
			present, _ := via.Lookup(e)
			if live[j] == 0 && present {
				continue // a false positive: removing it would be outside the documented usage
			}
			c.op("Remove")
			var ok bool
			var rerr error
			res := safely(func() { ok, rerr = via.Remove(e) })
			if res.panicked || rerr != nil {
				c.fail([]string{"C13"}, "cuckoo-remove-fails", fmt.Sprintf("%s: Remove failed: %v %v", cfg, res.panicVal, rerr), replayOf())
				return
			}
			post, _ := cuckooSnap(h)
			c.emit("%s remove %d %d %d %s %s %d %d %s", h.tag(), n, fpl, pre.length, pre.doc.bucketsStr(), hexStr(e), b2i(ok), post.length, post.doc.bucketsStr())
			hist = append(hist, fmt.Sprintf("R%d->%v", j, ok))
			if present {
				c.branch("remove-present")
				if !ok || post.doc.stored() != pre.doc.stored()-1 {
					c.fail([]string{"C13"}, key("cuckoo-remove-present"), fmt.Sprintf("%s: Remove of a present element returned %v, stored %d->%d", cfg, ok, pre.doc.stored(), post.doc.stored()), replayOf())
					return
				}
			} else {
				c.branch("remove-absent")
				if live[j] > 0 {
					// a live element that Lookup does not find: already a C02 failure (reported below)
				} else if ok || pre.doc.bucketsStr() != post.doc.bucketsStr() || pre.length != post.length {
					c.fail([]string{"C13"}, "cuckoo-remove-absent", fmt.Sprintf("%s: Remove of an absent element returned %v or changed the filter", cfg, ok), replayOf())
					return
				}
			}
			if ok {
				okRem++
				if live[j] > 0 {
					live[j]--
				}
			}
		default:
			c.op("Lookup")
			ok, lerr := via.Lookup(e)
			if lerr != nil {
				c.fail([]string{"C02"}, "cuckoo-lookup-fails", lerr.Error(), replayOf())
				return
			}
			c.emit("%s lookup %d %d %s %s %d", h.tag(), n, fpl, pre.doc.bucketsStr(), hexStr(e), b2i(ok))
			hist = append(hist, fmt.Sprintf("L%d->%v", j, ok))
			continue
		}
		// ---- invariants after every mutating op
		cur, _ := cuckooSnap(h)
		if !destructiveLoss && cur.length != okIns-okRem {
			c.fail([]string{"C13"}, "cuckoo-length-drift", fmt.Sprintf("%s: Length %d != successful inserts %d - removes %d", cfg, cur.length, okIns, okRem), replayOf())
			return
		}
		if cur.length != uint64(cur.doc.stored()) {
			c.fail([]string{"C13", "C14"}, "cuckoo-length-vs-stored", fmt.Sprintf("%s: Length %d != stored entries %d", cfg, cur.length, cur.doc.stored()), replayOf())
			return
		}
		for bi, bk := range cur.doc.B {
			occ := 0
			for _, x := range bk.E {
				if x != "" {
					occ++
				}
			}
			if uint64(occ) > b || bk.L != uint64(occ) || uint64(len(bk.E)) > b {
				c.fail([]string{"C13"}, "cuckoo-bucket-capacity", fmt.Sprintf("%s: bucket %d holds %d entries (capacity %d, cached length %d, slots %d)", cfg, bi, occ, b, bk.L, len(bk.E)), replayOf())
				return
			}
		}
		for jj := range pool {
			if live[jj] > 0 {
				if ok, _ := pick().Lookup(pool[jj]); !ok {
					c.fail([]string{"C02", "C08"}, key("cuckoo-false-negative"),
						fmt.Sprintf("%s: element %d inserted %d more times than removed is reported absent after op %d", cfg, jj, live[jj], opn),
						map[string]interface{}{"config": cfg.String(), "pool": poolHex(pool), "history": hist, "element": jj})
					return
				}
			}
		}
	}
	// remove everything that is live; then the filter must be empty and every lookup false
	if !destructiveLoss {
		for jj := range pool {
			for live[jj] > 0 {
				ok, _ := h.Remove(pool[jj])
				if !ok {
					c.fail([]string{"C13", "C02"}, key("cuckoo-remove-present"), fmt.Sprintf("%s: removing live element %d returned false", cfg, jj), replayOf())
					return
				}
				live[jj]--
			}
		}
		end, _ := cuckooSnap(h)
		if end.length != 0 || end.doc.stored() != 0 {
			c.fail([]string{"C13"}, key("cuckoo-not-empty-after-removals"), fmt.Sprintf("%s: after removing every inserted element Length=%d stored=%d", cfg, end.length, end.doc.stored()), replayOf())
			return
		}
		for jj := range pool {
			if ok, _ := h.Lookup(pool[jj]); ok {
				c.fail([]string{"C13"}, "cuckoo-lookup-on-empty", fmt.Sprintf("%s: emptied filter reports element %d present", cfg, jj), replayOf())
				return
			}
		}
		c.branch("emptied")
	}
	if kicked {
		c.nontrivial(cfg.String() + fmt.Sprint(hist))
	}
	if len(hist) > 12 {
		hist = hist[:12]
	}
	c.sample(map[string]interface{}{"config": cfg.String(), "history_prefix": hist})
}

// finding D3: a fingerprint length above the number of decimal digits of the element hash makes
// getPositions fail; the callers ignore the error: Insert "succeeds", stores nothing, Length grows.
func cuckooInvalidFpProbe(c *Ctx) {
	for i, redis := range []bool{false, true, false, true} {
		cfg := cuckooCfg{n: 8, b: 2, fpl: 25, retries: 5, redis: redis}
		elem := []byte("some element")
		if i >= 2 {
			// the empty byte string hashes to 0 = one decimal digit: invalid for every fpl >= 2
			cfg.fpl = 2
			elem = []byte{}
		}
		h, err := cfg.build()
		if err != nil {
			continue
		}
		c.rep.Cases++
		var ok bool
		res := safely(func() { ok = h.Insert(elem, false) })
		s, _ := cuckooSnap(h)
		if !res.panicked && ok && (s.doc.stored() == 0 || s.length != uint64(s.doc.stored())) {
			c.fail([]string{"C02", "C13"}, "cuckoo-fpl-exceeds-hash-digits",
				fmt.Sprintf("%s: Insert returned true but stored %d entries, Length=%d", cfg, s.doc.stored(), s.length),
				map[string]interface{}{"config": cfg.String(), "op": fmt.Sprintf("Insert(%q, false)", elem)})
		} else {
			c.note(fmt.Sprintf("%s: invalid-fingerprint probe: panicked=%v ok=%v stored=%d length=%d (finding D3 not reproduced)", cfg, res.panicked, ok, s.doc.stored(), s.length))
		}
	}
}

// bagCount = number of stored copies of e's fingerprint in e's two candidate buckets
func bagCount(d cuckooDoc, e []byte, n, fpl uint64) int {
	fp, i1, i2, ok := cuckooPos(e, n, fpl)
	if !ok {
		return 0
	}
	cnt := 0
	for _, x := range d.B[i1].E {
		if x == fp {
			cnt++
		}
	}
	if i2 != i1 {
		for _, x := range d.B[i2].E {
			if x == fp {
				cnt++
			}
		}
	}
	return cnt
}

var _ = sort.Ints

// cuckooFullRollback: a completely full filter (loaded through Import) and non-destructive inserts
// that must fail after a LONG eviction walk (500 retries: most cells are visited, many of them
// twice): every one of them leaves the filter exactly as it was (C14), whatever the geometry.
// cuckooLookupThenEvictThenRemove: Lookup(x) - then an Insert(y) that must relocate x (buckets of one
// slot; both candidate buckets of y are the bucket x sits in) - then Remove(x) with no query in
// between.  Whatever Lookup remembered about where x was is out of date: Remove must take out x,
// not whatever lives in its old slot now.
func cuckooLookupThenEvictThenRemove(c *Ctx, redis bool) {
	n, fpl := uint64(8), uint64(3)
	type cand struct {
		e      []byte
		fp     string
		i1, i2 uint64
	}
	var xs, ys []cand
	for i := 0; i < 4000 && (len(xs) < 40 || len(ys) < 40); i++ {
		e := []byte(fmt.Sprintf("hint-%d-%d", c.seed, i))
		fp, i1, i2, ok := cuckooPos(e, n, fpl)
		if !ok {
			continue
		}
		if i1 == i2 {
			ys = append(ys, cand{e, fp, i1, i2})
		} else {
			xs = append(xs, cand{e, fp, i1, i2})
		}
	}
	done := 0
	for _, x := range xs {
		for _, y := range ys {
			if done >= 3 || y.i1 != x.i1 || y.fp == x.fp {
				continue
			}
			cfg := cuckooCfg{n: n, b: 1, fpl: fpl, retries: 10, redis: redis}
			h, err := cfg.build()
			if err != nil || h == nil {
				return
			}
			c.rep.Cases++
			done++
			ok1 := false
			safely(func() { ok1 = h.Insert(x.e, false) })
			found, _ := h.Lookup(x.e)
			ok2 := false
			rand.Seed(int64(done))
			res := safely(func() { ok2 = h.Insert(y.e, false) })
			if !ok1 || !found || res.panicked || !ok2 {
				continue // (x did not land in its first bucket, or y could not be placed: not the scenario)
			}
			removed, rerr := h.Remove(x.e)
			fx, _ := h.Lookup(x.e)
			fy, _ := h.Lookup(y.e)
			c.op("Lookup-Insert(evicting)-Remove")
			if !removed || rerr != nil || fx || !fy || h.Length() != 1 {
				c.fail([]string{"C02", "C13"}, "cuckoo-remove-after-relocation", fmt.Sprintf("%s: Insert(x), Lookup(x)=true, Insert(y) relocating x, Remove(x)=%v (%v): afterwards Lookup(x)=%v Lookup(y)=%v Length=%d (want true: false true 1)", cfg, removed, rerr, fx, fy, h.Length()),
					map[string]interface{}{"x": hexStr(x.e), "y": hexStr(y.e), "redis": redis})
				return
			}
			c.branch("remove-after-relocation")
		}
	}
}

// cuckooFaultDuringSearch: Redis fails the command that searches a bucket.  "I could not look" is not
// "it is not there": Lookup / Remove of a stored element must report the error (or the truth),
// never a definite (false, nil).
func cuckooFaultDuringSearch(c *Ctx, redis bool) {
	if !redis {
		return
	}
	f, err := gostatix.NewCuckooFilterRedisWithRetries(4, 2, 3, 10)
	if err != nil {
		return
	}
	var e []byte
	for i := 0; i < 200; i++ {
		e = []byte(fmt.Sprintf("search-fault-%d-%d", c.seed, i))
		if _, _, _, ok := cuckooPos(e, 4, 3); ok {
			break
		}
	}
	f.Insert(e, false)
	if ok, _ := f.Lookup(e); !ok {
		return
	}
	c.rep.Cases++
	fh := getFaults()
	for _, what := range []string{"Lookup", "Remove"} {
		for skip := 0; skip < 2; skip++ {
			fh.mu.Lock()
			// skip = 1: an outage for the whole call (every command fails); skip = 0: one failure
			fh.armed, fh.lost, fh.sticky, fh.only, fh.skip = true, false, skip == 1, "", 0
			fh.fired = 0
			fh.mu.Unlock()
			var ok bool
			var oerr error
			res := safely(func() {
				if what == "Lookup" {
					ok, oerr = f.Lookup(e)
				} else {
					ok, oerr = f.Remove(e)
				}
			})
			fh.mu.Lock()
			fired := fh.fired > 0
			fh.armed, fh.sticky, fh.skip = false, false, 0
			fh.mu.Unlock()
			c.op(what + ".under-fault")
			if fired && !res.panicked && !ok && oerr == nil {
				still, _ := f.Lookup(e)
				if still {
					c.fail([]string{"C13", "C02"}, "cuckoo-search-error-reported-as-absent", fmt.Sprintf("CuckooFilterRedis: Redis failed command %d of %s(e) for a stored element; %s returned (false, nil) - and the element is still there", skip+1, what, what), map[string]interface{}{"element": hexStr(e), "operation": what, "failed_command": skip + 1})
					return
				}
			}
			if what == "Remove" && ok {
				f.Insert(e, false)
			}
		}
	}
	c.branch("search-under-fault")
}

// cuckooFaultDuringWalk: Redis refuses one LSET somewhere in the eviction walk of a non-destructive
// insert into a full filter (the command is not executed).  The insert cannot succeed; whatever it
// reports, the walk is undone: the stored entries are what they were.
func cuckooFaultDuringWalk(c *Ctx, round int) {
	n, b := uint64(5), uint64(1)
	doc := []byte(`{"s":5,"bs":1,"fpl":3,"l":5,"r":12,"b":[{"s":1,"l":1,"e":["101"],"k":""},{"s":1,"l":1,"e":["202"],"k":""},{"s":1,"l":1,"e":["303"],"k":""},{"s":1,"l":1,"e":["404"],"k":""},{"s":1,"l":1,"e":["505"],"k":""}],"k":"","mk":""}`)
	f, err := gostatix.NewCuckooFilterRedisWithRetries(2, 2, 3, 12)
	if err != nil || f.Import(doc, true) != nil || f.Length() != n*b {
		return
	}
	c.rep.Cases++
	before, err := f.Export()
	if err != nil {
		return
	}
	var e []byte
	for i := 0; i < 200; i++ {
		e = []byte(fmt.Sprintf("walk-fault-%d-%d", round, i))
		if _, _, _, ok := cuckooPos(e, n, 3); ok {
			break
		}
	}
	fh := getFaults()
	fh.mu.Lock()
	fh.armed, fh.lost, fh.sticky, fh.only, fh.skip = true, false, false, "lset", 1+round
	fh.mu.Unlock()
	rand.Seed(c.rng.Int63())
	ok := false
	res := safely(func() { ok = f.Insert(e, false) })
	fh.mu.Lock()
	fired := fh.armed == false
	fh.armed, fh.only, fh.skip = false, "", 0
	fh.mu.Unlock()
	c.op("Insert.full-filter-under-fault")
	if !fired {
		return // the walk issued fewer LSETs than expected: no fault happened
	}
	after, _ := f.Export()
	da, _ := parseCuckoo(after, nil)
	db, _ := parseCuckoo(before, nil)
	if (ok && !res.panicked) || da.bucketsStr() != db.bucketsStr() || f.Length() != n*b {
		c.fail([]string{"C14"}, "cuckoo-rollback-inexact-under-fault", fmt.Sprintf("cuckoo(n=5,b=1,fpl=3,retries=12,redis=true), full: Redis refused LSET number %d of the eviction walk of a non-destructive Insert; Insert returned %v (panic=%q), Length %d, entries %s (before: %s)", 2+round, ok, res.panicVal, f.Length(), da.bucketsStr(), db.bucketsStr()),
			map[string]interface{}{"refused_lset": 2 + round, "before": db.bucketsStr(), "after": da.bucketsStr()})
		return
	}
	c.branch("walk-under-fault")
}

func cuckooFullRollback(c *Ctx, n, b uint64, redis bool, retriesOpt ...uint64) {
	retries := uint64(500)
	if len(retriesOpt) > 0 {
		retries = retriesOpt[0]
	}
	var bs []string
	fp := 100
	for i := uint64(0); i < n; i++ {
		es := make([]string, b)
		for j := range es {
			es[j] = fmt.Sprintf("%03d", fp)
			fp++
			if fp > 999 {
				fp = 100
			}
		}
		bs = append(bs, fmt.Sprintf(`{"s":%d,"l":%d,"e":["%s"],"k":""}`, b, b, strings.Join(es, `","`)))
	}
	doc := []byte(fmt.Sprintf(`{"s":%d,"bs":%d,"fpl":3,"l":%d,"r":%d,"b":[%s],"k":"","mk":""}`, n, b, n*b, retries, strings.Join(bs, ",")))
	var h cuckooHandle
	if redis {
		f, err := gostatix.NewCuckooFilterRedisWithRetries(2, 2, 3, retries)
		if err != nil || f.Import(doc, true) != nil {
			return
		}
		h = cuckooRedis{f}
	} else {
		f := gostatix.NewCuckooFilterWithRetries(2, 2, 3, retries)
		if f.Import(doc) != nil {
			return
		}
		h = cuckooMem{f}
	}
	if h.Length() != n*b {
		return
	}
	c.rep.Cases++
	cfg := fmt.Sprintf("cuckoo(n=%d,b=%d,fpl=3,retries=%d,redis=%v), completely full", n, b, retries, redis)
	before, err := h.Export()
	if err != nil {
		return
	}
	for try := 0; try < 4; try++ {
		e := []byte(fmt.Sprintf("one-too-many-%d-%d", c.seed, try))
		if _, _, _, ok := cuckooPos(e, n, 3); !ok {
			continue
		}
		rand.Seed(c.rng.Int63())
		ok := false
		res := safely(func() { ok = h.Insert(e, false) })
		c.op("Insert.full-filter")
		if !res.panicked && ok {
			c.fail([]string{"C14", "C13"}, "cuckoo-insert-into-full-succeeds", cfg+": Insert into a completely full filter reported success", cfg)
			return
		}
		after, _ := h.Export()
		da, _ := parseCuckoo(after, nil)
		db, _ := parseCuckoo(before, nil)
		if da.bucketsStr() != db.bucketsStr() || h.Length() != n*b {
			c.fail([]string{"C14", "C02"}, "cuckoo-rollback-inexact", fmt.Sprintf("%s: failed non-destructive Insert changed the filter (Length %d)", cfg, h.Length()),
				map[string]interface{}{"config": cfg, "before": db.bucketsStr(), "after": da.bucketsStr()})
			return
		}
	}
	c.branch("full-filter-rollback")
}
