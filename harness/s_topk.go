package main

import (
	"bytes"
	"fmt"
	"math"
	"reflect"
	"sort"

	"github.com/kwertop/gostatix"
)

// suite "topk": C04, Top-K part of C08.

type topkHandle interface {
	Insert(data []byte, count uint64) error
	Values() ([]heapDoc, error)
	Export() ([]byte, error)
}

func topkElems(v interface{}) []heapDoc {
	rv := reflect.ValueOf(v)
	out := make([]heapDoc, rv.Len())
	for i := 0; i < rv.Len(); i++ {
		e := rv.Index(i)
		out[i] = heapPair(e)
	}
	return out
}

type topkMem struct{ t *gostatix.TopK }

func (h topkMem) Insert(d []byte, c uint64) error {
	viaScratch(d, func(a []byte) { h.t.Insert(a, c) })
	return nil
}
func (h topkMem) Values() ([]heapDoc, error) { return topkElems(h.t.Values()), nil }
func (h topkMem) Export() ([]byte, error)    { return h.t.Export() }

type topkRedis struct{ t *gostatix.TopKRedis }

func (h topkRedis) Insert(d []byte, c uint64) (err error) {
	viaScratch(d, func(a []byte) { err = h.t.Insert(a, c) })
	return
}
func (h topkRedis) Values() ([]heapDoc, error) {
	v, err := h.t.Values()
	return topkElems(v), err
}
func (h topkRedis) Export() ([]byte, error) { return h.t.Export() }

// topkMulti: operations of a Redis Top-K go through the creating handle or re-attached ones
type topkMulti struct {
	hs     []topkRedis
	frozen bool
}

func (m *topkMulti) pick() topkRedis {
	if !m.frozen && len(m.hs) < 3 && multiRng.Intn(6) == 0 {
		if t := gostatix.NewTopKRedisFromKey(m.hs[0].t.MetadataKey()); t != nil {
			m.hs = append(m.hs, topkRedis{t})
		}
	}
	return m.hs[multiRng.Intn(len(m.hs))]
}
func (m *topkMulti) Insert(d []byte, c uint64) error { return m.pick().Insert(d, c) }
func (m *topkMulti) Values() ([]heapDoc, error)      { return m.pick().Values() }
func (m *topkMulti) Export() ([]byte, error)         { return m.hs[0].Export() }

func newTopK(k uint, er, acc float64, redis bool) topkHandle {
	if redis {
		t := gostatix.NewTopKRedis(k, er, acc)
		if t == nil {
			return nil
		}
		return &topkMulti{hs: []topkRedis{{t}}}
	}
	return topkMem{gostatix.NewTopK(k, er, acc)}
}

func init() { register("topk", suiteTopK) }

func topkDims(er, acc float64) (uint, uint) {
	return uint(math.Ceil(math.Log(1 / acc))), uint(math.Ceil(math.E / er))
}

func suiteTopK(c *Ctx) {
	c.rep.Rule = "case = (k, errorRate, accuracy, backend) x insertion history over many distinct keys with repeats, ties at the boundary and counts from {1,2,3,2^32}; sketches from 1x1 to 5x28 (and 7x2719 in the thorough tier); non-trivial = more distinct keys than k and at least one eviction or rejection; distinct by (config, history)"
	cases := c.scale(100, 900)
	for i := 0; i < cases; i++ {
		redis := i%3 == 2
		k := []uint{1, 2, 3, 5, 11}[c.rng.Intn(5)]
		er := []float64{3, 1, 0.5, 0.1}[c.rng.Intn(4)]
		acc := []float64{0.5, 0.2, 0.01}[c.rng.Intn(3)]
		if c.thorough() && i%40 == 0 {
			er, acc = 0.001, 0.001
		}
		topkCase(c, k, er, acc, redis)
	}
	topkLarge(c, false)
	topkLarge(c, true)
	topkBinaryNames(c)
}

// topkBinaryNames: elements are byte strings.  Names that are not valid UTF-8 (a truncated
// multi-byte sequence, raw binary identifiers differing only in such bytes) are tracked and
// reported by Values byte for byte, identically on both backends.  (Export/Import of such names is
// finding D23 and is not used here.)
func topkBinaryNames(c *Ctx) {
	names := [][]byte{[]byte("caf\xc3"), []byte("\xff\x01id"), []byte("\xfe\x01id"), []byte("plain"), {0x80}, {0xc0, 0xaf}}
	want := map[string]uint64{}
	var got [2]string
	for bi, redis := range []bool{false, true} {
		t := newTopK(10, 0.001, 0.5, redis)
		if t == nil {
			return
		}
		c.rep.Cases++
		for i, n := range names {
			cnt := uint64(10 - i)
			t.Insert(n, cnt)
			t.Insert(n, 1)
			want[string(n)] = cnt + 1
		}
		vals, err := t.Values()
		if err != nil {
			c.fail([]string{"C04", "C08"}, "topk-values-fails", err.Error(), "binary names")
			return
		}
		got[bi] = fmt.Sprintf("%q", vals)
		ok := len(vals) == len(names)
		for _, v := range vals {
			if want[v.V] != v.F {
				ok = false
			}
		}
		if !ok {
			c.fail([]string{"C04", "C08"}, "topk-binary-names", fmt.Sprintf("topk(k=10,redis=%v): six distinct byte strings (some not valid UTF-8) inserted with counts 11..6; Values reports %q", redis, vals), fmt.Sprintf("%q", names))
		}
	}
	if got[0] != got[1] {
		c.fail([]string{"C08", "C04"}, "topk-binary-names", fmt.Sprintf("the same inserts of byte strings that are not valid UTF-8: in memory %s, Redis %s", got[0], got[1]), fmt.Sprintf("%q", names))
	}
	c.branch("binary-names")
}

// topkLarge: more tracked entries than any page / batch size an implementation might read the
// heap in (k = 1500, 1100 distinct elements).  Oracle only (no per-step replay): Values has exactly
// min(k, distinct) entries, no duplicates, descending counts, every count >= the true total.
func topkLarge(c *Ctx, redis bool) {
	k, n := uint(1500), 1100+c.rng.Intn(150)
	cfg := fmt.Sprintf("topk(k=%d,errorRate=0.001,accuracy=0.5,redis=%v), %d distinct elements", k, redis, n)
	t := newTopK(k, 0.001, 0.5, redis)
	if t == nil {
		return
	}
	c.rep.Cases++
	truth := map[string]uint64{}
	var total uint64
	for i := 0; i < n; i++ {
		e := fmt.Sprintf("large-%d-%d", c.seed, i)
		cnt := uint64(1 + (i*7)%50)
		if err := t.Insert([]byte(e), cnt); err != nil {
			return
		}
		truth[e] += cnt
		total += cnt
	}
	c.op("Insert.large")
	vals, err := t.Values()
	if err != nil {
		c.fail([]string{"C04", "C08"}, "topk-values-fails", cfg+": "+err.Error(), cfg)
		return
	}
	es := topkElems(vals)
	seen := map[string]bool{}
	bad := ""
	if len(es) != n {
		bad = fmt.Sprintf("Values has %d entries, expected %d", len(es), n)
	}
	for i, e := range es {
		if seen[e.V] {
			bad = fmt.Sprintf("element %q is reported twice", e.V)
		}
		seen[e.V] = true
		if e.F < truth[e.V] || e.F > total {
			bad = fmt.Sprintf("element %q reported with count %d, true total %d, stream total %d", e.V, e.F, truth[e.V], total)
		}
		if i > 0 && (es[i-1].F < e.F || (es[i-1].F == e.F && es[i-1].V > e.V)) {
			bad = fmt.Sprintf("entries %d and %d are out of order", i-1, i)
		}
	}
	if bad != "" {
		c.fail([]string{"C04", "C08"}, "topk-large-values", cfg+": "+bad, cfg)
	}
	c.branch("large-k")
}

func topkCase(c *Ctx, k uint, er, acc float64, redis bool) {
	cfg := fmt.Sprintf("topk(k=%d,errorRate=%g,accuracy=%g,redis=%v)", k, er, acc, redis)
	t := newTopK(k, er, acc, redis)
	if t == nil {
		c.fail([]string{"C04"}, "topk-constructor", cfg+": constructor returned nil", cfg)
		return
	}
	c.rep.Cases++
	rows, cols := topkDims(er, acc)
	pool := elemPool(c.rng, 3+c.rng.Intn(3*int(k)+6), true)
	pos := make([][]uint64, len(pool))
	for j, e := range pool {
		p, err := learnCMSPos(rows, cols, false, e)
		if err != nil {
			c.fail([]string{"C04"}, "topk-probe", fmt.Sprintf("%s: %v", cfg, err), cfg)
			return
		}
		pos[j] = p
	}
	truth := make([]uint64, len(pool))
	var total uint64
	var hist []string
	evictions := 0
	nops := 5 + c.rng.Intn(40)
	counts := []uint64{1, 1, 1, 2, 3, 1 << 32}
	if redis && nops > 25 {
		nops = 25
	}
	replayOf := func() interface{} {
		return map[string]interface{}{"config": cfg, "pool": poolHex(pool), "history": hist}
	}
	moveAt := -1
	if c.rng.Intn(3) == 0 {
		moveAt = 1 + c.rng.Intn(nops)
	}
	exact := true // every estimate so far equalled the true total (no effective collision)
	for opn := 0; opn < nops; opn++ {
		j := c.rng.Intn(len(pool))
		if c.rng.Intn(4) == 0 && opn > 0 {
			j = c.rng.Intn(min(len(pool), int(k)+1)) // favour a few keys: ties and re-admissions
		}
		cnt := counts[c.rng.Intn(len(counts))]
		if opn > 0 && opn == moveAt {
			// the history continues on a restored copy: in memory, the image or the document of the
			// structure read into a handle that has tracked other elements before; on Redis, the
			// document exported through a handle attached a moment ago (which has inserted
			// nothing itself) and imported under new keys
			nt, how, merr := topkMove(c, t, redis)
			c.branch("moved-" + how)
			if merr != nil || nt == nil {
				c.fail([]string{"C04", "C10", "C11"}, "topk-move-fails", fmt.Sprintf("%s: %s of the structure's own image failed: %v", cfg, how, merr), replayOf())
				return
			}
			a, e1 := parseTopK(t.Export())
			b, e2 := parseTopK(nt.Export())
			if e1 != nil || e2 != nil || heapStr(a.H) != heapStr(b.H) || matrixStr(a.S.M) != matrixStr(b.S.M) || a.K != b.K {
				c.fail([]string{"C04", "C10", "C11"}, "topk-move-differs", fmt.Sprintf("%s: the copy made by %s differs from the original (heap %s vs %s)", cfg, how, heapStr(a.H), heapStr(b.H)), replayOf())
				return
			}
			t = nt
			hist = append(hist, "moved:"+how)
		}
		pre, err := parseTopK(t.Export())
		if err != nil {
			c.fail([]string{"C04"}, "topk-export", err.Error(), cfg)
			return
		}
		c.op("Insert")
		var ierr error
		res := safely(func() { ierr = t.Insert(pool[j], cnt) })
		if res.panicked || ierr != nil {
			c.fail([]string{"C04", "C08"}, "topk-insert-fails", fmt.Sprintf("%s: Insert failed: %v %v", cfg, res.panicVal, ierr), replayOf())
			return
		}
		post, _ := parseTopK(t.Export())
		truth[j] += cnt
		total += cnt
		hist = append(hist, fmt.Sprintf("%s+%d", pool[j], cnt))
		// estimate of the element after the update, from the exported matrix
		var f uint64
		for r := range post.S.M {
			v := post.S.M[r][pos[j][r]]
			if r == 0 || v < f {
				f = v
			}
		}
		if f != truth[j] {
			exact = false
		}
		c.emit("cms.update %s %s %d %s", matrixStr(pre.S.M), natList(pos[j]), cnt, matrixStr(post.S.M))
		c.emit("cms.count %s %s %d", matrixStr(post.S.M), natList(pos[j]), f)
		if redis {
			c.emit("topk.admit.redis %d %s %s %d %s", k, heapStr(pre.H), pool[j], f, heapStr(post.H))
		} else {
			c.emit("topk.admit.mem %d %s %s %d %s", k, heapStr(pre.H), pool[j], f, heapStr(post.H))
		}
		inPre := false
		for _, e := range pre.H {
			if e.V == string(pool[j]) {
				inPre = true
			}
		}
		inPost := false
		for _, e := range post.H {
			if e.V == string(pool[j]) {
				inPost = true
			}
		}
		switch {
		case uint(len(pre.H)) < k && !inPre:
			c.branch("admit-room")
		case inPre:
			c.branch("refresh")
		case inPost:
			c.branch("admit-evict")
			evictions++
		default:
			c.branch("reject")
			evictions++
		}
		// ---- oracle on Values
		c.op("Values")
		vals, verr := t.Values()
		if verr != nil {
			c.fail([]string{"C04", "C08"}, "topk-values-fails", verr.Error(), replayOf())
			return
		}
		c.emit("topk.values %s %s", heapStr(post.H), heapStr(vals))
		distinct := 0
		for jj := range pool {
			if truth[jj] > 0 {
				distinct++
			}
		}
		want := int(k)
		if distinct < want {
			want = distinct
		}
		if len(vals) != want {
			c.fail([]string{"C04"}, "topk-size", fmt.Sprintf("%s: Values returns %d entries, want min(k=%d, distinct=%d)", cfg, len(vals), k, distinct), replayOf())
			return
		}
		seen := map[string]bool{}
		minRep := uint64(math.MaxUint64)
		for i, e := range vals {
			if seen[e.V] {
				c.fail([]string{"C04"}, "topk-duplicate", fmt.Sprintf("%s: %q reported twice", cfg, e.V), replayOf())
				return
			}
			seen[e.V] = true
			if i > 0 {
				p := vals[i-1]
				if p.F < e.F || (p.F == e.F && p.V > e.V) {
					c.fail([]string{"C04"}, "topk-order", fmt.Sprintf("%s: Values not ordered at %d: %v then %v", cfg, i, p, e), replayOf())
					return
				}
			}
			if e.F < minRep {
				minRep = e.F
			}
			jj := -1
			for x := range pool {
				if string(pool[x]) == e.V {
					jj = x
				}
			}
			if jj < 0 || truth[jj] == 0 {
				c.fail([]string{"C04"}, "topk-phantom", fmt.Sprintf("%s: reported element %q was never inserted", cfg, e.V), replayOf())
				return
			}
			if e.F < truth[jj] || e.F > total {
				c.fail([]string{"C04"}, "topk-count-bounds", fmt.Sprintf("%s: %q reported with %d, true total %d, stream total %d", cfg, e.V, e.F, truth[jj], total), replayOf())
				return
			}
			if exact && e.F != truth[jj] {
				c.fail([]string{"C04"}, "topk-exact", fmt.Sprintf("%s: no collisions, but %q reported with %d instead of %d", cfg, e.V, e.F, truth[jj]), replayOf())
				return
			}
		}
		for jj := range pool {
			if truth[jj] > 0 && !seen[string(pool[jj])] && truth[jj] > minRep {
				c.fail([]string{"C04", "C08"}, "topk-heavier-unreported",
					fmt.Sprintf("%s: %q (true total %d) is not reported although the smallest reported count is %d", cfg, pool[jj], truth[jj], minRep), replayOf())
				return
			}
		}
	}
	if evictions > 0 {
		c.nontrivial(cfg + fmt.Sprint(hist))
	}
	if len(hist) > 10 {
		hist = hist[:10]
	}
	c.sample(map[string]interface{}{"config": cfg, "history_prefix": hist})
}

// topkMove: a copy of the structure behind t, made through persistence, to continue the history on
func topkMove(c *Ctx, t topkHandle, redis bool) (topkHandle, string, error) {
	if redis {
		m := t.(*topkMulti)
		via := gostatix.NewTopKRedisFromKey(m.hs[0].t.MetadataKey())
		if via == nil {
			return nil, "Export-through-attached-handle+Import", fmt.Errorf("attach failed")
		}
		doc, err := via.Export()
		if err != nil {
			return nil, "Export-through-attached-handle+Import", err
		}
		nt := gostatix.NewTopKRedis(2, 0.7, 0.3)
		if nt == nil {
			return nil, "Export-through-attached-handle+Import", fmt.Errorf("constructor failed")
		}
		if c.rng.Intn(2) == 0 {
			nt.Insert([]byte("previous tenant"), 3)
		}
		var ierr error
		res := safely(func() { ierr = nt.Import(doc, true) })
		if res.panicked {
			ierr = fmt.Errorf("panic: %s", res.panicVal)
		}
		return topkRedis{nt}, "Export-through-attached-handle+Import", ierr
	}
	src := t.(topkMem).t
	nt := gostatix.NewTopK(2+uint(c.rng.Intn(3)), 0.7, 0.3)
	for i := 0; i < 3; i++ {
		nt.Insert([]byte(fmt.Sprintf("previous tenant %d", i)), uint64(1+i))
	}
	nt.Values()
	var err error
	how := "Export+Import-into-used-handle"
	res := safely(func() {
		if c.rng.Intn(2) == 0 {
			how = "WriteTo+ReadFrom-into-used-handle"
			var buf bytes.Buffer
			if _, err = src.WriteTo(&buf); err == nil {
				_, err = nt.ReadFrom(&buf)
			}
			return
		}
		var doc []byte
		if doc, err = src.Export(); err == nil {
			err = nt.Import(doc)
		}
	})
	if res.panicked {
		err = fmt.Errorf("panic: %s", res.panicVal)
	}
	return topkMem{nt}, how, err
}

func min(a, b int) int {
	if a < b {
		return a
	}
	return b
}

var _ = sort.Strings
