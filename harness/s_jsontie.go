package main

import (
	"encoding/base64"
	"encoding/json"
	"fmt"
	"reflect"
	"regexp"
	"sort"
	"strconv"
	"strings"

	"github.com/kwertop/gostatix"
)

// suite "jsontie": ties the Lean model of JSON Export/Import (lean/Gostatix/Model/Json.lean, the
// model the C10 theorems are about) to the real methods.  For random reachable states of each of
// the ten variants:
//
//	json.<variant>.export  <state> [<store> [<zstore>]] <doc>
//	json.<variant>.import  <doc> [<new ids>] <target before> [<store> [<zstore>]] <res> <target after> [<store> [<zstore>]]
//
// <state> is observed WITHOUT going through Export: private fields of the Go structs are read by
// reflection, Redis contents directly from miniredis (the whole database is shipped, so the model
// is also compared on keys the call should not have touched).  <doc> is the document the real
// Export produced, parsed with the harness' own mirror structs.  Token formats: see the header of
// lean/Gostatix/Model/JsonDriver.lean.
//
// The import target is a fresh instance of the same kind with (usually) other parameters that has
// been fed another history; Redis variants import with withNewKey = true.  Imported documents:
// the exported one and copies with one stored entry changed (first / middle / last position).

func init() { register("jsontie", suiteJSONTie) }

// the `unpack` limit of the Lua interpreter (Model/Json.lean, HLLRedis.importRegisters); only
// sketches far below it are generated here
const jtUnpackLimit = 7999

// ---- names of Redis keys -> small numbers -------------------------------------------------------

type jtNames struct {
	ids  map[string]int
	next int
}

func newJTNames() *jtNames { return &jtNames{ids: map[string]int{}, next: 1} }

func (n *jtNames) id(name string) int {
	if v, ok := n.ids[name]; ok {
		return v
	}
	n.ids[name] = n.next
	n.next++
	return n.ids[name]
}

// optID: the key field of a document ("" = absent)
func (n *jtNames) optID(name string) string {
	if name == "" {
		return "-"
	}
	return strconv.Itoa(n.id(name))
}

var (
	jtReBucket = regexp.MustCompile(`^cuckoo_([A-Za-z]{16})_bucket_([0-9]+)(_len)?$`)
	jtReRow    = regexp.MustCompile(`^([A-Za-z]{16})([0-9]+)$`)
	jtReRand   = regexp.MustCompile(`^[A-Za-z]{16}$`)
)

// keyTok: structured token of a key name (r<id> | b<id>.<i> | l<id>.<i> | m<id>.<r>)
func (n *jtNames) keyTok(name string) string {
	if m := jtReBucket.FindStringSubmatch(name); m != nil {
		if m[3] != "" {
			return fmt.Sprintf("l%d.%s", n.id(m[1]), m[2])
		}
		return fmt.Sprintf("b%d.%s", n.id(m[1]), m[2])
	}
	if m := jtReRow.FindStringSubmatch(name); m != nil {
		return fmt.Sprintf("m%d.%s", n.id(m[1]), m[2])
	}
	if jtReRand.MatchString(name) {
		return fmt.Sprintf("r%d", n.id(name))
	}
	return "?" + name
}

func isDecimal(s string) bool {
	if s == "" {
		return false
	}
	for _, ch := range s {
		if ch < '0' || ch > '9' {
			return false
		}
	}
	return true
}

// dump: the whole miniredis database as <store> and <zstore> tokens
func (n *jtNames) dump(c *Ctx) (string, string) {
	keys := c.mr.Keys()
	sort.Strings(keys)
	var st, zs []string
	for _, k := range keys {
		kt := n.keyTok(k)
		switch c.mr.Type(k) {
		case "string":
			v, _ := c.mr.Get(k)
			if kt[0] == 'l' {
				st = append(st, kt+"=i:"+v)
			} else {
				st = append(st, kt+"=s:"+hexStr([]byte(v)))
			}
		case "list":
			l, _ := c.mr.List(k)
			allNum := true
			for _, e := range l {
				allNum = allNum && isDecimal(e)
			}
			switch {
			case kt[0] == 'b':
				st = append(st, kt+"=S:"+strList(l))
			case kt[0] == 'm' || allNum:
				st = append(st, kt+"=n:"+strings.Join(l, ","))
			default:
				ks := make([]string, len(l))
				for i, e := range l {
					ks[i] = n.keyTok(e)
				}
				st = append(st, kt+"=k:"+strings.Join(ks, ","))
			}
		case "hash":
			fs, _ := c.mr.HKeys(k)
			sort.Strings(fs)
			es := make([]string, len(fs))
			for i, f := range fs {
				v := c.mr.HGet(k, f)
				switch {
				case jtReRand.MatchString(v):
					es[i] = fmt.Sprintf("%s~%d", f, n.id(v))
				case isDecimal(v):
					es[i] = f + "~" + v
				default:
					fl, err := strconv.ParseFloat(v, 64)
					if err != nil {
						es[i] = f + "~?" + v
					} else {
						es[i] = fmt.Sprintf("%s~%d", f, f64bits(fl))
					}
				}
			}
			st = append(st, kt+"=h:"+strings.Join(es, ","))
		case "zset":
			ms, _ := c.mr.ZMembers(k)
			h := make([]heapDoc, len(ms))
			for i, m := range ms {
				sc, _ := c.mr.ZScore(k, m)
				h[i] = heapDoc{V: m, F: uint64(sc)}
			}
			// the set as a list in (score, member bytes) order
			sort.Slice(h, func(i, j int) bool { return h[i].F < h[j].F || (h[i].F == h[j].F && h[i].V < h[j].V) })
			if kt[0] != 'r' {
				zs = append(zs, kt+"="+heapImgStr(h))
			} else {
				zs = append(zs, kt[1:]+"="+heapImgStr(h))
			}
		default:
			st = append(st, kt+"=?")
		}
	}
	join := func(l []string) string {
		if len(l) == 0 {
			return "-"
		}
		return strings.Join(l, "|")
	}
	return join(st), join(zs)
}

// ---- observing private state by reflection ------------------------------------------------------

// deref follows pointers and interfaces; the zero Value for nil
func deref(v reflect.Value) reflect.Value {
	for v.IsValid() && (v.Kind() == reflect.Ptr || v.Kind() == reflect.Interface) {
		if v.IsNil() {
			return reflect.Value{}
		}
		v = v.Elem()
	}
	return v
}

// fld: field `name` of struct v (promoted fields included), dereferenced
func fld(v reflect.Value, name string) reflect.Value {
	if !v.IsValid() {
		return reflect.Value{}
	}
	var f reflect.Value
	if res := safely(func() { f = v.FieldByName(name) }); res.panicked {
		return reflect.Value{} // promoted through a nil embedded pointer
	}
	return deref(f)
}

func fU(v reflect.Value, name string) uint64 {
	f := fld(v, name)
	if !f.IsValid() {
		return 0
	}
	return f.Uint()
}

func fS(v reflect.Value, name string) string {
	f := fld(v, name)
	if !f.IsValid() {
		return ""
	}
	return f.String()
}

func fF(v reflect.Value, name string) uint64 {
	f := fld(v, name)
	if !f.IsValid() {
		return 0
	}
	return f64bits(f.Float())
}

// heapPair: the (name, count) pair of a two-field struct, by the KIND of the fields (their order and
// names are private to the library)
func heapPair(e reflect.Value) heapDoc {
	var d heapDoc
	for i := 0; i < e.NumField(); i++ {
		switch f := e.Field(i); f.Kind() {
		case reflect.String:
			d.V = f.String()
		case reflect.Slice:
			if f.Type().Elem().Kind() == reflect.Uint8 {
				d.V = string(f.Bytes())
			}
		case reflect.Uint, reflect.Uint64, reflect.Uint32:
			d.F = f.Uint()
		case reflect.Int, reflect.Int64:
			d.F = uint64(f.Int())
		}
	}
	return d
}

func fU64s(f reflect.Value) []uint64 {
	if !f.IsValid() {
		return nil
	}
	out := make([]uint64, f.Len())
	for i := range out {
		out[i] = f.Index(i).Uint()
	}
	return out
}

func fMatrix(f reflect.Value) [][]uint64 {
	if !f.IsValid() {
		return nil
	}
	out := make([][]uint64, f.Len())
	for i := range out {
		out[i] = fU64s(f.Index(i))
	}
	return out
}

// jtRaw: the library object behind a harness handle
func jtRaw(o interface{}) interface{} {
	switch h := o.(type) {
	case cmsMem:
		return h.s
	case cmsRedis:
		return h.s
	case hllMem:
		return h.h
	case hllRedis:
		return h.h
	case cuckooMem:
		return h.f
	case cuckooRedis:
		return h.f
	case topkMem:
		return h.t
	case topkRedis:
		return h.t
	case *cmsMulti:
		return h.hs[0].s
	case *hllMulti:
		return h.hs[0].h
	case *topkMulti:
		return h.hs[0].t
	}
	return o
}

// jtImport calls the real Import (Redis: under new keys)
func jtImport(o interface{}, doc []byte) error {
	switch h := jtRaw(o).(type) {
	case *gostatix.BloomFilter:
		return h.Import(doc)
	case *gostatix.CuckooFilter:
		return h.Import(doc)
	case *gostatix.CuckooFilterRedis:
		return h.Import(doc, true)
	case *gostatix.CountMinSketch:
		return h.Import(doc)
	case *gostatix.CountMinSketchRedis:
		return h.Import(doc, true)
	case *gostatix.HyperLogLog:
		return h.Import(doc)
	case *gostatix.HyperLogLogRedis:
		return h.Import(doc, true)
	case *gostatix.TopK:
		return h.Import(doc)
	case *gostatix.TopKRedis:
		return h.Import(doc, true)
	}
	return fmt.Errorf("jsontie: unknown handle %T", o)
}

func cmsMemTok(s reflect.Value) string {
	return fmt.Sprintf("%d %d %d %s", fU(s, "rows"), fU(s, "columns"), fU(s, "allSum"), matrixStr(fMatrix(fld(s, "matrix"))))
}

func cmsRedisTok(n *jtNames, s reflect.Value) string {
	return fmt.Sprintf("%d %d %d %d %d", fU(s, "rows"), fU(s, "columns"), fU(s, "allSum"), n.id(fS(s, "key")), n.id(fS(s, "metadataKey")))
}

// jtState: the <state> / <handle> token group of a live structure, and the ids of the key names
// an Import under new keys draws (read off the handle: meaningful after the call)
func jtState(n *jtNames, kind string, o interface{}) (state string, newIDs string) {
	v := deref(reflect.ValueOf(jtRaw(o)))
	switch kind {
	case "bloom.mem":
		bs := fld(v, "filter")
		set := fld(bs, "set")
		return fmt.Sprintf("%d %d %d %d %s", fU(v, "size"), fU(v, "numHashes"), fU(bs, "size"), fU(set, "length"), natList(fU64s(fld(set, "set")))), ""
	case "bloom.redis":
		bs := fld(v, "filter")
		return fmt.Sprintf("%d %d %d %d %d", fU(v, "size"), fU(v, "numHashes"), fU(bs, "size"), n.id(fS(bs, "key")), n.id(fS(v, "metadataKey"))), ""
	case "cuckoo.mem":
		bks := fld(v, "buckets")
		parts := make([]string, bks.Len())
		for i := range parts {
			b := bks.Index(i)
			es := fld(b, "elements")
			el := make([]string, 0)
			if es.IsValid() {
				for j := 0; j < es.Len(); j++ {
					el = append(el, es.Index(j).String())
				}
			}
			parts[i] = fmt.Sprintf("%d:%d:%s", fU(b, "size"), fU(b, "length"), strList(el))
		}
		bt := "-"
		if len(parts) > 0 {
			bt = strings.Join(parts, ";")
		}
		return fmt.Sprintf("%d %d %d %d %d %s", fU(v, "size"), fU(v, "bucketSize"), fU(v, "fingerPrintLength"), fU(v, "retries"), fU(v, "length"), bt), ""
	case "cuckoo.redis":
		k, mk := n.id(fS(v, "key")), n.id(fS(v, "metadataKey"))
		nb := 0
		if m := fld(v, "buckets"); m.IsValid() {
			nb = m.Len()
		}
		return fmt.Sprintf("%d %d %d %d %d %d %d", fU(v, "size"), fU(v, "bucketSize"), fU(v, "fingerPrintLength"), fU(v, "retries"), k, mk, nb), fmt.Sprintf("%d %d", k, mk)
	case "cms.mem":
		return cmsMemTok(v), ""
	case "cms.redis":
		return cmsRedisTok(n, v), fmt.Sprint(n.id(fS(v, "key")))
	case "hll.mem":
		regs := fld(v, "registers")
		return fmt.Sprintf("%d %d %d %s", fU(v, "numRegisters"), fU(v, "numBytesPerHash"), fF(v, "correctionBias"), natList(fU64s(regs))), ""
	case "hll.redis":
		k := n.id(fS(v, "key"))
		return fmt.Sprintf("%d %d %d %d %d", fU(v, "numRegisters"), fU(v, "numBytesPerHash"), fF(v, "correctionBias"), k, n.id(fS(v, "metadataKey"))), fmt.Sprintf("%d %d", jtUnpackLimit, k)
	case "topk.mem":
		hp := fld(v, "heap")
		h := make([]heapDoc, 0)
		if hp.IsValid() {
			for i := 0; i < hp.Len(); i++ {
				h = append(h, heapPair(hp.Index(i)))
			}
		}
		return fmt.Sprintf("%d %d %d %s %s", fU(v, "k"), fF(v, "errorRate"), fF(v, "accuracy"), cmsMemTok(fld(v, "sketch")), heapImgStr(h)), ""
	case "topk.redis":
		sk := fld(v, "sketch")
		hk := n.id(fS(v, "heapKey"))
		mk := n.id(fS(v, "metadataKey"))
		skt := cmsRedisTok(n, sk)
		return fmt.Sprintf("%d %d %d %s %d %d", fU(v, "k"), fF(v, "errorRate"), fF(v, "accuracy"), skt, hk, mk),
			fmt.Sprintf("%d %d %d", hk, n.id(fS(sk, "key")), n.id(fS(sk, "metadataKey")))
	}
	return "?", ""
}

// ---- documents ----------------------------------------------------------------------------------

func cmsDocTok(n *jtNames, d cmsDoc) string {
	return fmt.Sprintf("%d %d %d %s %s", d.R, d.C, d.S, matrixStr(d.M), n.optID(d.K))
}

// jtDoc: the <doc> token group of a JSON document, parsed with the harness' mirror structs
func jtDoc(n *jtNames, kind string, data []byte) (string, error) {
	switch kind {
	case "bloom.mem":
		a, err := bloomAbsMemDoc(data)
		return fmt.Sprintf("%d %d %d %s", a.Size, a.K, a.BsLen, natList(a.Words)), err
	case "bloom.redis":
		var d bloomDoc
		if err := json.Unmarshal(data, &d); err != nil {
			return "", err
		}
		var s string
		if err := json.Unmarshal(d.B, &s); err != nil {
			return "", err
		}
		raw, err := base64.URLEncoding.DecodeString(s)
		return fmt.Sprintf("%d %d %s", d.M, d.K, hexStr(raw)), err
	case "cuckoo.mem", "cuckoo.redis":
		d, err := parseCuckoo(data, nil)
		ks := make([]string, len(d.B))
		anyKey := false
		for i, b := range d.B {
			ks[i] = "-"
			if b.K != "" {
				ks[i] = n.keyTok(b.K)
				anyKey = true
			}
		}
		kt := "-"
		if anyKey {
			kt = strings.Join(ks, ",")
		}
		return fmt.Sprintf("%d %d %d %d %d %s %s %s %s", d.S, d.BS, d.FPL, d.L, d.R, d.bucketsStr(), kt, n.optID(d.K), n.optID(d.MK)), err
	case "cms.mem", "cms.redis":
		d, err := parseCMS(data, nil)
		return cmsDocTok(n, d), err
	case "hll.mem", "hll.redis":
		d, err := parseHLL(data, nil)
		return fmt.Sprintf("%d %d %d %s %s", d.NR, d.NBP, f64bits(d.C), natList(d.regs()), n.optID(d.K)), err
	case "topk.mem", "topk.redis":
		d, err := parseTopK(data, nil)
		return fmt.Sprintf("%d %d %d %s %s %s", d.K, f64bits(d.ER), f64bits(d.A), cmsDocTok(n, d.S), heapImgStr(d.H), n.optID(d.HK)), err
	}
	return "?", fmt.Errorf("jsontie: unknown kind %s", kind)
}

// ---- the suite ----------------------------------------------------------------------------------

func suiteJSONTie(c *Ctx) {
	c.rep.Rule = "case = one reachable state of one of the 10 variants (random history incl. removals, partially filled heaps, evictions; base or changed parameters): one json.<variant>.export line (state read by reflection / from miniredis vs. the exported document) and one json.<variant>.import line per imported document (the exported one and up to three copies with one stored entry changed), each into a fresh instance with other parameters and other contents (Redis: under new keys, whole database shipped before and after); non-trivial = non-empty payload; distinct by (kind, parameters, history)"
	kinds := []eqKind{eqCMS(false), eqCMS(true), eqHLL(false), eqHLL(true), eqBloom(false), eqBloom(true), eqCuckoo(false), eqCuckoo(true), eqTopK(false), eqTopK(true)}
	rounds := c.scale(10, 100)
	for r := 0; r < rounds; r++ {
		for _, k := range kinds {
			for v := 0; v <= k.nparams; v++ {
				if v > 0 && c.rng.Intn(3) != 0 {
					continue
				}
				jsonTieCase(c, k, v)
			}
		}
	}
}

func jsonTieCase(c *Ctx, k eqKind, variant int) {
	if k.redis {
		c.mr.FlushAll()
	}
	names := newJTNames()
	hist := randHist(c)
	a := k.build(c, variant)
	if a == nil {
		return
	}
	c.rep.Cases++
	k.feed(c, a, hist)
	replay := map[string]interface{}{"kind": k.name, "variant": variant, "history": hist}

	// redisPart: " <store>" / " <store> <zstore>" for the Redis variants
	redisPart := func() string {
		if !k.redis {
			return ""
		}
		st, z := names.dump(c)
		if strings.HasPrefix(k.name, "topk") {
			return " " + st + " " + z
		}
		return " " + st
	}

	// ---- Export
	state, _ := jtState(names, k.name, a)
	store := redisPart()
	doc, err := k.export(a)
	c.op("Export." + k.name)
	if err != nil {
		c.fail([]string{"C10"}, k.name+"-export-fails", err.Error(), replay)
		return
	}
	docTok, err := jtDoc(names, k.name, doc)
	if err != nil {
		c.fail([]string{"C10"}, k.name+"-export-unparsable", err.Error(), replay)
		return
	}
	c.emit("json.%s.export %s%s %s", k.name, state, store, docTok)

	// ---- Import: the exported document and mutated copies
	type impDoc struct {
		label string
		data  []byte
	}
	docs := []impDoc{{"exported", doc}}
	for where, wname := range []string{"first", "middle", "last"} {
		var m map[string]interface{}
		dec := json.NewDecoder(strings.NewReader(string(doc)))
		dec.UseNumber()
		if dec.Decode(&m) != nil || !k.mutate(m, where) {
			continue
		}
		if md, err := json.Marshal(m); err == nil {
			docs = append(docs, impDoc{"mutated-" + wname, md})
		}
	}
	for _, d := range docs {
		if d.label != "exported" && c.rng.Intn(2) != 0 {
			continue
		}
		dTok, err := jtDoc(names, k.name, d.data)
		if err != nil {
			continue
		}
		tv := c.rng.Intn(k.nparams + 1)
		t := k.build(c, tv)
		if t == nil {
			continue
		}
		other := randHist(c)
		k.feed(c, t, other)
		pre, _ := jtState(names, k.name, t)
		preStore := redisPart()
		var ierr error
		res := safely(func() { ierr = jtImport(t, d.data) })
		c.op("Import." + k.name)
		tag := "ok"
		if res.panicked {
			tag = "panic"
		} else if ierr != nil {
			tag = "err"
		}
		post, newIDs := jtState(names, k.name, t)
		postStore := redisPart()
		if newIDs != "" {
			newIDs = " " + newIDs
		}
		c.emit("json.%s.import %s%s %s%s %s %s%s", k.name, dTok, newIDs, pre, preStore, tag, post, postStore)
		c.branch(d.label + "=" + tag)
		if tag != "ok" {
			rp := map[string]interface{}{"kind": k.name, "variant": variant, "history": hist, "document": d.label, "target_variant": tv, "target_history": other}
			c.fail([]string{"C10"}, k.name+"-import-fails", fmt.Sprintf("%s: Import of the %s document failed: %s %v", k.name, d.label, res.panicVal, ierr), rp)
		}
	}
	if len(hist) > 0 {
		c.nontrivial(fmt.Sprint(k.name, variant, hist))
	}
	c.sample(map[string]interface{}{"kind": k.name, "variant": variant, "history": hist, "doc_bytes": len(doc)})
}
