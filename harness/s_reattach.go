package main

import (
	"fmt"
	"os"
	"os/exec"
	"strings"

	"github.com/kwertop/gostatix"
)

// suite "reattach": C09.  For every constructor of Redis-backed structures: histories split
// between the creating handle and handles re-attached from the metadata key at random points
// (in-process, and one in a separate OS process); every handle must report the same parameters
// and answers after every step.

func init() { register("reattach", suiteReattach) }

type raKind struct {
	name   string
	eq     eqKind
	create func(c *Ctx) (interface{}, string) // handle, metadata key
	attach func(mk string) (interface{}, error)
}

func raKinds() []raKind {
	bloomAttach := func(mk string) (interface{}, error) { return gostatix.NewRedisBloomFilterFromKey(mk) }
	cuckooAttach := func(mk string) (interface{}, error) {
		f, err := gostatix.NewCuckooFilterRedisFromKey(mk)
		if err != nil {
			return nil, err
		}
		return cuckooRedis{f}, nil
	}
	cmsAttach := func(mk string) (interface{}, error) {
		s, err := gostatix.NewCountMinSketchRedisFromKey(mk)
		if err != nil {
			return nil, err
		}
		return cmsRedis{s}, nil
	}
	return []raKind{
		{"bloom-params", eqBloom(true), func(c *Ctx) (interface{}, string) {
			ps := [][2]float64{{20, 0.05}, {100, 0.7}, {1, 0.5}, {50, 0.9}, {300, 0.001}, {10, 1.0}, {7, 0.999}}
			p := ps[c.rng.Intn(len(ps))]
			f, err := gostatix.NewRedisBloomFilterWithParameters(uint(p[0]), p[1])
			if err != nil {
				return nil, ""
			}
			return f, f.GetMetadataKey()
		}, bloomAttach},
		{"bloom-bitset", eqBloom(true), func(c *Ctx) (interface{}, string) {
			f, err := gostatix.NewRedisBloomFilterFromBitSet(make([]uint64, c.rng.Intn(3)), uint(c.rng.Intn(4)))
			if err != nil {
				return nil, ""
			}
			return f, f.GetMetadataKey()
		}, bloomAttach},
		{"cuckoo", eqCuckoo(true), func(c *Ctx) (interface{}, string) {
			f, err := gostatix.NewCuckooFilterRedisWithRetries([]uint64{4, 8}[c.rng.Intn(2)], 2, 3, []uint64{10, 0, 1}[c.rng.Intn(3)])
			if err != nil {
				return nil, ""
			}
			return cuckooRedis{f}, f.MetadataKey()
		}, cuckooAttach},
		{"cuckoo-default", eqCuckoo(true), func(c *Ctx) (interface{}, string) {
			f, err := gostatix.NewCuckooFilterRedis(8, 2, 3)
			if err != nil {
				return nil, ""
			}
			return cuckooRedis{f}, f.MetadataKey()
		}, cuckooAttach},
		{"cuckoo-errorrate", eqCuckoo(true), func(c *Ctx) (interface{}, string) {
			f, err := gostatix.NewCuckooFilterRedisWithErrorRate(16, 2, 10, 0.01)
			if err != nil {
				return nil, ""
			}
			return cuckooRedis{f}, f.MetadataKey()
		}, cuckooAttach},
		{"cms", eqCMS(true), func(c *Ctx) (interface{}, string) {
			s, err := gostatix.NewCountMinSketchRedis(uint(1+c.rng.Intn(4)), uint(1+c.rng.Intn(6)))
			if err != nil {
				return nil, ""
			}
			return cmsRedis{s}, s.MetadataKey()
		}, cmsAttach},
		{"cms-estimates", eqCMS(true), func(c *Ctx) (interface{}, string) {
			s, err := gostatix.NewCountMinSketchRedisFromEstimates(0.3, 0.1)
			if err != nil {
				return nil, ""
			}
			return cmsRedis{s}, s.MetadataKey()
		}, cmsAttach},
		{"hll", eqHLL(true), func(c *Ctx) (interface{}, string) {
			h, err := gostatix.NewHyperLogLogRedis([]uint64{128, 256}[c.rng.Intn(2)])
			if err != nil {
				return nil, ""
			}
			return hllRedis{h}, h.MetadataKey()
		}, func(mk string) (interface{}, error) {
			h, err := gostatix.NewHyperLogLogRedisFromKey(mk)
			if err != nil {
				return nil, err
			}
			return hllRedis{h}, nil
		}},
		{"topk", eqTopK(true), func(c *Ctx) (interface{}, string) {
			t := gostatix.NewTopKRedis([]uint{1, 3, 5}[c.rng.Intn(3)], []float64{1, 0.5, 0.25, 1.0 / 3}[c.rng.Intn(4)], []float64{0.5, 0.2, 0.1 / 3}[c.rng.Intn(3)])
			if t == nil {
				return nil, ""
			}
			return topkRedis{t}, t.MetadataKey()
		}, func(mk string) (interface{}, error) {
			t := gostatix.NewTopKRedisFromKey(mk)
			if t == nil {
				return nil, fmt.Errorf("nil")
			}
			return topkRedis{t}, nil
		}},
	}
}

func raKindByName(name string) *raKind {
	for _, k := range raKinds() {
		if k.name == name {
			kk := k
			return &kk
		}
	}
	return nil
}

// observable state of a handle: parameters+payload (as Export reports them) and query answers
func raObserve(k *raKind, h interface{}) string {
	var s string
	res := safely(func() {
		a, err := k.eq.absStr(h)
		s = fmt.Sprintf("%s|err=%v|%s", a, err != nil, jsonQueries(k.eq.name, h))
	})
	if res.panicked {
		return "PANIC:" + res.panicVal
	}
	return s
}

func suiteReattach(c *Ctx) {
	c.rep.Rule = "case = (Redis constructor) x history of updates split at random between the creating handle and 1-3 handles re-attached from the metadata key at random points, one of them in a separate OS process; after every step all handles must agree on parameters and on every query; non-trivial = >= 2 handles each performing at least one update; distinct by (constructor, history)"
	rounds := c.scale(6, 60)
	self, _ := os.Executable()
	for r := 0; r < rounds; r++ {
		for _, k := range raKinds() {
			kk := k
			reattachCase(c, &kk, self, r == 0)
		}
	}
	for r := 0; r < 4; r++ {
		reattachEmptied(c, r)
	}
}

// reattachEmptied: structures that are empty AGAIN (everything removed: zero counters over buckets
// that still hold cleared slots) or STILL (nothing ever inserted) when a handle is attached.
// Attaching is a read: it must not change what the creating handle observes, and the new handle
// must observe the same.
func reattachEmptied(c *Ctx, round int) {
	k := raKindByName("cuckoo")
	if k == nil {
		return
	}
	h0, mk := k.create(c)
	if h0 == nil || mk == "" {
		return
	}
	c.rep.Cases++
	f := h0.(cuckooRedis).f
	var elems [][]byte
	for i := 0; len(elems) < 2+round && i < 200; i++ {
		e := []byte(fmt.Sprintf("emptied-%d-%d", c.seed, i))
		if _, _, _, ok := cuckooPos(e, f.Size(), f.FingerPrintLength()); ok {
			elems = append(elems, e)
		}
	}
	for _, e := range elems {
		safely(func() { f.Insert(e, false) })
	}
	for _, e := range elems {
		f.Remove(e)
	}
	before := raObserve(k, h0)
	h1, err := k.attach(mk)
	if err != nil || h1 == nil {
		c.fail([]string{"C09"}, "cuckoo-attach-fails", fmt.Sprintf("attach to a filter emptied by Remove failed: %v", err), k.name)
		return
	}
	after, seen := raObserve(k, h0), raObserve(k, h1)
	if before != after || seen != before {
		c.fail([]string{"C09", "C13"}, "cuckoo-attach-changes-emptied-filter", fmt.Sprintf("a cuckoo filter with %d elements inserted and all removed: the creating handle observed %.120s before a second handle was attached and %.120s after; the attached handle observes %.120s", len(elems), before, after, seen), map[string]interface{}{"elements": poolHex(elems)})
		return
	}
	safely(func() { h1.(cuckooRedis).f.Insert(elems[0], false) })
	if a, b := raObserve(k, h0), raObserve(k, h1); a != b || f.Length() != 1 {
		c.fail([]string{"C09", "C13"}, "cuckoo-attach-changes-emptied-filter", fmt.Sprintf("after one insert through the attached handle the two handles observe %.120s / %.120s, Length %d", a, b, f.Length()), map[string]interface{}{"elements": poolHex(elems)})
	}
	c.branch("attached-to-emptied")
}

func reattachCase(c *Ctx, k *raKind, self string, crossProcess bool) {
	h0, mk := k.create(c)
	if h0 == nil || mk == "" {
		c.fail([]string{"C09"}, k.name+"-constructor", k.name+": constructor failed or returned an empty metadata key", k.name)
		return
	}
	c.rep.Cases++
	handles := []interface{}{h0}
	updates := map[int]int{}
	var hist []string
	nops := 6 + c.rng.Intn(10)
	for op := 0; op < nops; op++ {
		if len(handles) < 4 && c.rng.Intn(3) == 0 {
			var h interface{}
			var err error
			res := safely(func() { h, err = k.attach(mk) })
			c.op("attach")
			if res.panicked || err != nil || h == nil {
				c.fail([]string{"C09"}, k.name+"-attach-fails", fmt.Sprintf("%s: re-attaching through the metadata key failed: %v %v", k.name, res.panicVal, err), hist)
				return
			}
			handles = append(handles, h)
			hist = append(hist, fmt.Sprintf("attach#%d", len(handles)-1))
		}
		who := c.rng.Intn(len(handles))
		j := c.rng.Intn(40)
		res := safely(func() { k.eq.feed(c, handles[who], []int{j}) })
		c.op("update")
		updates[who]++
		hist = append(hist, fmt.Sprintf("h%d:op%d", who, j))
		if res.panicked {
			c.fail([]string{"C09"}, k.name+"-update-panics", fmt.Sprintf("%s: update through handle %d panicked: %s", k.name, who, res.panicVal), hist)
			return
		}
		ref := raObserve(k, handles[0])
		for i := 1; i < len(handles); i++ {
			if o := raObserve(k, handles[i]); o != ref {
				c.fail([]string{"C09"}, k.name+"-handles-disagree",
					fmt.Sprintf("%s: handle %d disagrees with the creating handle after %q: %.300s  VS  %.300s", k.name, i, hist[len(hist)-1], o, ref),
					map[string]interface{}{"constructor": k.name, "history": hist})
				return
			}
		}
	}
	// a handle in a separate OS process: must observe the same, and its update must be visible here
	if crossProcess {
		ref := raObserve(k, handles[0])
		out, err := exec.Command(self, "-child", c.mr.Addr(), k.name, mk, "observe").Output()
		c.op("attach-other-process")
		if err != nil || strings.TrimSpace(string(out)) != ref {
			c.fail([]string{"C09"}, k.name+"-other-process-disagrees",
				fmt.Sprintf("%s: a handle attached in another process observes %.300q, creating handle %.300q (err %v)", k.name, strings.TrimSpace(string(out)), ref, err),
				map[string]interface{}{"constructor": k.name, "history": hist})
			return
		}
		out, err = exec.Command(self, "-child", c.mr.Addr(), k.name, mk, "update").Output()
		now := raObserve(k, handles[0])
		if err != nil || strings.TrimSpace(string(out)) != now {
			c.fail([]string{"C09"}, k.name+"-other-process-update-invisible",
				fmt.Sprintf("%s: after an update from another process it observes %.300q, creating handle %.300q (err %v)", k.name, strings.TrimSpace(string(out)), now, err),
				map[string]interface{}{"constructor": k.name, "history": hist})
			return
		}
		c.branch("cross-process")
	}
	multi := 0
	for _, n := range updates {
		if n > 0 {
			multi++
		}
	}
	if multi >= 2 {
		c.nontrivial(k.name + fmt.Sprint(hist))
	}
	c.sample(map[string]interface{}{"constructor": k.name, "history": hist})
}
