package main

import (
	"fmt"
	"sort"
	"strings"

	"github.com/kwertop/gostatix"
)

// suite "isolation": C19.  2-8 Redis-backed structures of random kinds in one database; their
// histories are first run solo (database flushed in between), then interleaved; every structure
// must observe exactly what it observed alone, and every operation may only change keys of its
// own structure (key sets computed by the Lean model `Redis.keysOfKind`, driver line redis.keysof).

func init() { register("isolation", suiteIsolation) }

func (c *Ctx) dbSnapshot() map[string]string {
	out := map[string]string{}
	for _, k := range c.mr.Keys() {
		switch c.mr.Type(k) {
		case "string":
			v, _ := c.mr.Get(k)
			out[k] = "s:" + v
		case "list":
			l, _ := c.mr.List(k)
			out[k] = "l:" + strings.Join(l, "\x00")
		case "hash":
			fs, _ := c.mr.HKeys(k)
			sort.Strings(fs)
			var sb strings.Builder
			for _, f := range fs {
				sb.WriteString(f + "=" + c.mr.HGet(k, f) + "\x00")
			}
			out[k] = "h:" + sb.String()
		case "zset":
			ms, _ := c.mr.ZMembers(k)
			var sb strings.Builder
			for _, m := range ms {
				sc, _ := c.mr.ZScore(k, m)
				fmt.Fprintf(&sb, "%s=%v\x00", m, sc)
			}
			out[k] = "z:" + sb.String()
		default:
			out[k] = "?"
		}
	}
	return out
}

func changedKeys(a, b map[string]string) []string {
	var out []string
	for k, v := range a {
		if w, ok := b[k]; !ok || w != v {
			out = append(out, k)
		}
	}
	for k := range b {
		if _, ok := a[k]; !ok {
			out = append(out, k)
		}
	}
	sort.Strings(out)
	return out
}

type isoStruct struct {
	kind   *raKind
	h      interface{}
	mk     string
	ops    []int
	solo   []string // observation after each op when run alone
	next   int
	keyArg string // "<kind> <params> <bases>" for redis.keysof
	keys   map[string]bool
}

// isoKeyArg computes kind/params/bases of a live structure from its public accessors and metadata
func isoKeyArg(c *Ctx, k *raKind, h interface{}, mk string) (string, []string) {
	switch {
	case strings.HasPrefix(k.name, "bloom"):
		bk := c.mr.HGet(mk, "bitsetKey")
		return fmt.Sprintf("bloom - %s,%s", bk, mk), []string{bk, mk}
	case strings.HasPrefix(k.name, "cuckoo"):
		f := h.(cuckooRedis).f
		return fmt.Sprintf("cuckoo %d %s,%s", f.Size(), f.Key(), mk), []string{f.Key(), mk}
	case strings.HasPrefix(k.name, "cms"):
		d, _ := parseCMS(h.(cmsRedis).s.Export())
		return fmt.Sprintf("cms %d %s,%s", d.R, d.K, mk), []string{d.K, mk}
	case strings.HasPrefix(k.name, "hll"):
		d, _ := parseHLL(h.(hllRedis).h.Export())
		return fmt.Sprintf("hll - %s,%s", d.K, mk), []string{d.K, mk}
	default:
		d, _ := parseTopK(h.(topkRedis).t.Export())
		smk := c.mr.HGet(mk, "sketchKey")
		return fmt.Sprintf("topk %d %s,%s,%s,%s", d.S.R, d.HK, mk, d.S.K, smk), []string{d.HK, mk, d.S.K, smk}
	}
}

func suiteIsolation(c *Ctx) {
	c.rep.Rule = "case = 2-8 live Redis-backed structures of random kinds and parameters in one database, their update histories interleaved at random (creation, import-under-new-keys and re-attachment in between); each structure is compared step by step with its own solo run, and the keys changed by every operation with the model's key set of that structure; non-trivial = >= 3 structures with >= 2 kinds; distinct by (kinds, histories, interleaving)"
	rounds := c.scale(70, 400)
	for r := 0; r < rounds; r++ {
		isolationCase(c)
	}
	// documents that name no Redis keys (in-memory exports) imported under new keys, twice
	jsonCrossBackend(c)
	isolationDegenerate(c)
	isolationSameElement(c)
}

// isolationSameElement: a fixed case, whatever the seed - sketches of equal depth and different width
// (two Count-Min sketches, two Top-K structures, one in-memory Count-Min for good measure) all
// receive the SAME elements, strictly alternating.  Each must end exactly as it ends when it is fed
// alone: nothing computed for one structure (positions, keys, buffers) may be reused for another.
func isolationSameElement(c *Ctx) {
	type st struct {
		name   string
		update func(e []byte)
		obs    func() string
	}
	build := func() []st {
		a, e1 := gostatix.NewCountMinSketchRedis(2, 5)
		b, e2 := gostatix.NewCountMinSketchRedis(2, 7)
		m, e3 := gostatix.NewCountMinSketch(2, 11)
		t1 := gostatix.NewTopKRedis(2, 0.5, 0.5)
		t2 := gostatix.NewTopKRedis(2, 0.25, 0.5)
		if e1 != nil || e2 != nil || e3 != nil || t1 == nil || t2 == nil {
			return nil
		}
		cmsObs := func(exp func() ([]byte, error)) func() string {
			return func() string { d, _ := parseCMS(exp()); return matrixStr(d.M) }
		}
		tkObs := func(t *gostatix.TopKRedis) func() string {
			return func() string { d, _ := parseTopK(t.Export()); return matrixStr(d.S.M) + " " + heapStr(d.H) }
		}
		return []st{
			{"cms.redis(2x5)", func(e []byte) { a.Update(e, 1) }, cmsObs(a.Export)},
			{"cms.redis(2x7)", func(e []byte) { b.Update(e, 1) }, cmsObs(b.Export)},
			{"cms.mem(2x11)", func(e []byte) { m.Update(e, 1) }, cmsObs(m.Export)},
			{"topk.redis(er=0.5)", func(e []byte) { t1.Insert(e, 1) }, tkObs(t1)},
			{"topk.redis(er=0.25)", func(e []byte) { t2.Insert(e, 1) }, tkObs(t2)},
		}
	}
	elems := [][]byte{[]byte("a"), []byte("a"), []byte("bb"), []byte("a"), eqPool[len(eqPool)-1], eqPool[len(eqPool)-1], []byte("bb")}
	c.mr.FlushAll()
	solo := build()
	if solo == nil {
		return
	}
	c.rep.Cases++
	want := make([]string, len(solo))
	for i, s := range solo {
		for _, e := range elems {
			safely(func() { s.update(e) })
		}
		want[i] = s.obs()
	}
	c.mr.FlushAll()
	inter := build()
	if inter == nil {
		return
	}
	for _, e := range elems {
		for _, s := range inter {
			safely(func() { s.update(e) })
		}
	}
	for i, s := range inter {
		if got := s.obs(); got != want[i] {
			c.fail([]string{"C19", "C03", "C04"}, "structure-disturbed", fmt.Sprintf("%s fed the same elements as four other sketches, strictly alternating, ends as %.160s; fed alone it ends as %.160s", s.name, got, want[i]), map[string]interface{}{"structure": s.name})
			return
		}
	}
	c.branch("same-elements-alternating")
}

// isolationDegenerate: structures of degenerate size (a Bloom filter of zero bits: error rate 1,
// or built from an empty word list) are structures like any other: their own keys, not shared.
func isolationDegenerate(c *Ctx) {
	c.mr.FlushAll()
	mk := []func() (*gostatix.BloomFilter, error){
		func() (*gostatix.BloomFilter, error) { return gostatix.NewRedisBloomFilterWithParameters(10, 1.0) },
		func() (*gostatix.BloomFilter, error) { return gostatix.NewRedisBloomFilterFromBitSet(nil, 2) },
		func() (*gostatix.BloomFilter, error) { return gostatix.NewRedisBloomFilterWithParameters(7, 1.0) },
	}
	var fs []*gostatix.BloomFilter
	keysOf := map[string]int{}
	for i, f := range mk {
		var g *gostatix.BloomFilter
		var err error
		if res := safely(func() { g, err = f() }); res.panicked || err != nil || g == nil {
			continue
		}
		fs = append(fs, g)
		mkKey := g.GetMetadataKey()
		bk := c.mr.HGet(mkKey, "bitsetKey")
		for _, k := range []string{mkKey, bk} {
			if j, dup := keysOf[k]; dup && j != i {
				c.fail([]string{"C19"}, "structures-share-a-key", fmt.Sprintf("two independently created zero-size Bloom filters use the same Redis key %q", k), k)
				return
			}
			keysOf[k] = i
		}
	}
	if len(fs) < 2 {
		return
	}
	c.rep.Cases++
	before := make([]string, len(fs))
	for i, g := range fs {
		d, _ := g.Export()
		before[i] = string(d)
	}
	safely(func() { fs[0].Insert([]byte("only into the first")) })
	for i, g := range fs[1:] {
		d, _ := g.Export()
		if string(d) != before[i+1] {
			c.fail([]string{"C19"}, "structure-disturbed", fmt.Sprintf("an Insert into one zero-size Bloom filter changed what another, independently created one exports: %.80s -> %.80s", before[i+1], d), nil)
			return
		}
	}
	c.branch("degenerate-sizes")
}

func isolationCase(c *Ctx) {
	kinds := raKinds()
	n := 2 + c.rng.Intn(7)
	structs := make([]*isoStruct, n)
	seeds := make([]int64, n)
	kindSet := map[string]bool{}
	sameLong := c.rng.Intn(3) == 0
	longIdx := 0
	for j, e := range eqPool {
		if len(e) > len(eqPool[longIdx]) {
			longIdx = j
		}
	}
	for i := range structs {
		k := kinds[c.rng.Intn(len(kinds))]
		kk := k
		ops := make([]int, 2+c.rng.Intn(6))
		for j := range ops {
			ops[j] = c.rng.Intn(40)
		}
		if sameLong {
			// every structure of this case also receives one and the same long element, twice
			ops[c.rng.Intn(len(ops))] = longIdx
			ops[c.rng.Intn(len(ops))] = longIdx
		}
		structs[i] = &isoStruct{kind: &kk, ops: ops}
		seeds[i] = c.rng.Int63()
		kindSet[strings.SplitN(k.name, "-", 2)[0]] = true
	}
	c.rep.Cases++
	desc := ""
	// --- solo runs (constructor parameters are drawn from a per-structure PRNG so that the
	// interleaved run builds identical structures)
	for i, s := range structs {
		c.mr.FlushAll()
		sub := &Ctx{rng: newRng(seeds[i]), rep: c.rep, mr: c.mr, tier: c.tier}
		h, mk := s.kind.create(sub)
		if h == nil {
			c.fail([]string{"C19"}, s.kind.name+"-constructor", "constructor failed", s.kind.name)
			return
		}
		for _, op := range s.ops {
			safely(func() { s.kind.eq.feed(c, h, []int{op}) })
			s.solo = append(s.solo, raObserve(s.kind, h))
		}
		_ = mk
		desc += fmt.Sprintf("%s%v;", s.kind.name, s.ops)
	}
	c.mr.FlushAll()
	// --- interleaved run
	remaining := 0
	for _, s := range structs {
		remaining += len(s.ops)
	}
	var order []int
	allKeys := func(except int) map[string]int {
		m := map[string]int{}
		for j, t := range structs {
			if j != except && t.h != nil {
				for k := range t.keys {
					m[k] = j
				}
			}
		}
		return m
	}
	setKeys := func(s *isoStruct) {
		arg, _ := isoKeyArg(c, s.kind, s.h, s.mk)
		s.keyArg = arg
	}
	var pendingDoc []byte
	var pendingObs string
	pendingOf := -1
	for remaining > 0 {
		i := c.rng.Intn(n)
		s := structs[i]
		if s.next >= len(s.ops) {
			continue
		}
		before := c.dbSnapshot()
		what := "update"
		if s.h == nil {
			sub := &Ctx{rng: newRng(seeds[i]), rep: c.rep, mr: c.mr, tier: c.tier}
			s.h, s.mk = s.kind.create(sub)
			if s.h == nil {
				c.fail([]string{"C19"}, s.kind.name+"-constructor", "constructor failed", s.kind.name)
				return
			}
			setKeys(s)
			s.keys = map[string]bool{}
			for k := range c.dbSnapshot() {
				if _, old := before[k]; !old {
					s.keys[k] = true
				}
			}
			c.op("create")
			before = c.dbSnapshot()
		} else if c.rng.Intn(6) == 0 {
			// re-attach: later operations of this structure go through a fresh handle
			if h2, err := s.kind.attach(s.mk); err == nil && h2 != nil {
				s.h = h2
				c.op("reattach")
				what = "reattach+update"
			}
		} else if c.rng.Intn(8) == 0 {
			// import-under-new-keys of this structure's export: must not touch the exporter
			if doc, err := s.kind.eq.export(s.h); err == nil && c.rng.Intn(3) == 0 {
				// the document is kept and imported only AFTER the exporter's next update: the copy
				// must be the exported state (a snapshot), not whatever the exporter holds by then
				pendingDoc, pendingObs, pendingOf = doc, raObserve(s.kind, s.h), i
			} else if err == nil {
				snapA := c.dbSnapshot()
				// target: a fresh instance, or a second handle that is currently attached to ANOTHER
				// live structure of the same kind (it moves to new keys; that structure must not notice)
				target := -1
				var cp interface{}
				if s.kind.eq.impInto != nil && c.rng.Intn(2) == 0 {
					for j, t := range structs {
						if j != i && t.h != nil && t.kind.eq.name == s.kind.eq.name {
							target = j
						}
					}
					// ... or to the exporter itself: the second handle moves to new keys, the
					// structure it was attached to stays as it is
					if target < 0 || c.rng.Intn(3) == 0 {
						target = i
					}
				}
				if target >= 0 {
					if h2, err := structs[target].kind.attach(structs[target].mk); err == nil && h2 != nil {
						var ierr error
						safely(func() { ierr = s.kind.eq.impInto(h2, doc) })
						c.op("import-into-attached-handle")
						if ierr == nil {
							cp = h2 // from now on a structure of its own, under the keys the import created
						}
					}
				} else {
					safely(func() { cp, _ = s.kind.eq.imp(c, doc) })
				}
				snapB := c.dbSnapshot()
				c.op("import-new-keys")
				others := allKeys(-1)
				for _, k := range changedKeys(snapA, snapB) {
					if j, hit := others[k]; hit {
						c.fail([]string{"C19", "C10"}, "import-touches-existing-key", fmt.Sprintf("importing an export of structure %d (%s) under new keys changed key %q of structure %d", i, s.kind.name, k, j), desc)
						return
					}
				}
				// the copy is one more live structure: its own updates stay inside the keys it was
				// given at import, and the exporter (like everybody else) does not notice them
				if cp != nil {
					obsBefore := raObserve(s.kind, s.h)
					cops := []int{c.rng.Intn(40), c.rng.Intn(40), c.rng.Intn(40)}
					safely(func() { s.kind.eq.feed(c, cp, cops) })
					c.op("update-imported-copy")
					snapC := c.dbSnapshot()
					for _, k := range changedKeys(snapB, snapC) {
						if j, hit := others[k]; hit {
							c.fail([]string{"C19", "C10"}, "copy-update-touches-existing-key", fmt.Sprintf("updating a copy of structure %d (%s) imported under new keys changed key %q of structure %d", i, s.kind.name, k, j),
								map[string]interface{}{"structures": desc, "order": order, "copy_ops": cops})
							return
						}
					}
					if obs := raObserve(s.kind, s.h); obs != obsBefore {
						c.fail([]string{"C19", "C10"}, "copy-update-disturbs-exporter", fmt.Sprintf("structure %d (%s) observes %.200q after updates of its imported copy but %.200q before them", i, s.kind.name, obs, obsBefore),
							map[string]interface{}{"structures": desc, "order": order, "copy_ops": cops})
						return
					}
					snapB = snapC
				}
				before = snapB
			}
		}
		op := s.ops[s.next]
		safely(func() { s.kind.eq.feed(c, s.h, []int{op}) })
		c.op("update")
		after := c.dbSnapshot()
		ch := changedKeys(before, after)
		others := allKeys(i)
		for _, k := range ch {
			if j, hit := others[k]; hit {
				c.fail([]string{"C19"}, "op-touches-foreign-key", fmt.Sprintf("%s on structure %d (%s) changed key %q of structure %d (%s)", what, i, s.kind.name, k, j, structs[j].kind.name),
					map[string]interface{}{"structures": desc, "order": order})
				return
			}
		}
		// keys changed by an update must be keys of this structure as the model names them
		if what == "update" {
			c.emit("redis.keysof %s %s", s.keyArg, strList(ch))
			for _, k := range ch {
				s.keys[k] = true
			}
		}
		if !c.checkNoTTL([]string{"C19"}, fmt.Sprintf("after %s on structure %d (%s)", what, i, s.kind.name)) {
			return
		}
		obs := raObserve(s.kind, s.h)
		if obs != s.solo[s.next] {
			c.fail([]string{"C19"}, "structure-disturbed",
				fmt.Sprintf("structure %d (%s) observes %.250q after its op #%d in the shared database but %.250q when alone", i, s.kind.name, obs, s.next, s.solo[s.next]),
				map[string]interface{}{"structures": desc, "order": order})
			return
		}
		order = append(order, i)
		s.next++
		remaining--
		if pendingDoc != nil && pendingOf == i {
			snapA := c.dbSnapshot()
			var cp interface{}
			safely(func() { cp, _ = s.kind.eq.imp(c, pendingDoc) })
			c.op("import-stale-snapshot")
			if cp != nil {
				if got := raObserve(s.kind, cp); got != pendingObs {
					c.fail([]string{"C19", "C10"}, "import-not-the-snapshot", fmt.Sprintf("structure %d (%s) was updated after its Export; the copy imported under new keys observes %.200q, the exported state was %.200q", i, s.kind.name, got, pendingObs),
						map[string]interface{}{"structures": desc, "order": order})
					return
				}
			}
			others := allKeys(-1)
			for _, k := range changedKeys(snapA, c.dbSnapshot()) {
				if j, hit := others[k]; hit {
					c.fail([]string{"C19", "C10"}, "import-touches-existing-key", fmt.Sprintf("importing an export of structure %d (%s) under new keys changed key %q of structure %d", i, s.kind.name, k, j), desc)
					return
				}
			}
			pendingDoc = nil
		}
	}
	if n >= 3 && len(kindSet) >= 2 {
		c.nontrivial(desc + fmt.Sprint(order))
	}
	c.sample(map[string]interface{}{"structures": desc, "order": order})
	c.mr.FlushAll()
}

var _ = gostatix.NewTopK
