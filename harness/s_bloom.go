package main

import (
	"bytes"
	"fmt"
	"math"
	"runtime"
	"runtime/debug"
	"sync"

	"github.com/dgryski/go-metro"
	"github.com/kwertop/gostatix"
)

// suite "bloom": C01 (and the Bloom part of C08).  Abstract mode: the probe set of every element
// is learned from one Insert into a fresh filter of the same configuration.

type bloomCfg struct {
	kind      string // "params" | "bitset"
	redis     bool
	numItems  uint
	errorRate float64
	words     int
	numHashes uint
}

func (c bloomCfg) String() string {
	if c.kind == "params" {
		return fmt.Sprintf("params(n=%d,p=%g,redis=%v)", c.numItems, c.errorRate, c.redis)
	}
	return fmt.Sprintf("%s(words=%d,k=%d,redis=%v)", c.kind, c.words, c.numHashes, c.redis)
}

func (c bloomCfg) build() (*gostatix.BloomFilter, error) {
	switch {
	case c.kind == "withbitset":
		// the general constructor with an in-memory bit set: the key argument is documented as
		// overlooked for this kind of bit set
		bs := *gostatix.NewMemBloomFilterFromBitSet(make([]uint64, c.words), 1).GetBitSet()
		return gostatix.NewBloomFilterWithBitSet(uint(c.words*64), c.numHashes, bs, "overlooked-key")
	case c.kind == "params" && !c.redis:
		return gostatix.NewMemBloomFilterWithParameters(c.numItems, c.errorRate)
	case c.kind == "params" && c.redis:
		return gostatix.NewRedisBloomFilterWithParameters(c.numItems, c.errorRate)
	case c.kind == "bitset" && !c.redis:
		return gostatix.NewMemBloomFilterFromBitSet(make([]uint64, c.words), c.numHashes), nil
	default:
		return gostatix.NewRedisBloomFilterFromBitSet(make([]uint64, c.words), c.numHashes)
	}
}

func bloomAbs(f *gostatix.BloomFilter, redis bool) (BloomAbs, error) {
	if redis {
		return bloomAbsRedis(f)
	}
	return bloomAbsMem(f)
}

// paramsForSize returns (numItems, errorRate) such that CalculateFilterSize gives `size`
func paramsForSize(size uint, numItems uint) (uint, float64) {
	ln2sq := math.Ln2 * math.Ln2
	p := math.Exp(-(float64(size) - 0.5) * ln2sq / float64(numItems))
	return numItems, p
}

func randBloomCfg(c *Ctx, i int) bloomCfg {
	redis := i%2 == 1
	sizes := []uint{1, 2, 3, 5, 7, 8, 31, 63, 64, 65, 100, 127, 128, 129, 200, 511, 1000, 1023, 1025, 2049, 4095}
	if c.rng.Intn(4) == 0 {
		// FromBitSet: size = 64*words (0 words -> size 1), numHashes free (0, 1, > size)
		words := []int{0, 0, 1, 2, 3, 8}[c.rng.Intn(6)]
		ks := []uint{0, 1, 2, 3, 5, 7, 11, 70}
		return bloomCfg{kind: "bitset", redis: redis, words: words, numHashes: ks[c.rng.Intn(len(ks))]}
	}
	size := sizes[c.rng.Intn(len(sizes))]
	// numHashes = ceil((size/numItems)*ln2): choose numItems to get 1..~12 hashes
	want := 1 + c.rng.Intn(12)
	n := uint(float64(size) * math.Ln2 / float64(want))
	if n < 1 {
		n = 1
	}
	if n > size {
		n = size
	}
	ni, p := paramsForSize(size, n)
	if p >= 1 || p <= 0 {
		p = 0.5
	}
	return bloomCfg{kind: "params", redis: redis, numItems: ni, errorRate: p}
}

func init() { register("bloom", suiteBloom) }

func suiteBloom(c *Ctx) {
	c.rep.Rule = "case = (constructor, backend, size, numHashes) x random history of Insert/InsertString/Lookup/LookupString over a pool of adversarial byte strings; non-trivial = history with >=2 inserts and at least one lookup of a never-inserted element; distinct by (config, history hash)"
	cases := c.scale(160, 1500)
	for i := 0; i < cases; i++ {
		cfg := randBloomCfg(c, i)
		bloomCase(c, cfg, i)
	}
	// fixed cases: more hash functions than any batch size (32, 64) an implementation might send
	// SETBITs in, on both backends, whatever the seed draws above
	for i, k := range []uint{33, 40, 70, 97} {
		bloomCase(c, bloomCfg{kind: "bitset", redis: true, words: 2 + i, numHashes: k}, 1)
		bloomCase(c, bloomCfg{kind: "bitset", redis: false, words: 2 + i, numHashes: k}, 2)
	}
	for i := 0; i < 6; i++ {
		bloomCase(c, bloomCfg{kind: "withbitset", redis: false, words: 1 + i%3, numHashes: uint(1 + 2*i)}, i)
	}
	// error budgets so generous that the derived number of hash functions is clamped (and error
	// rate 1: zero bits), on Redis with handles attached from the metadata key
	for i, np := range [][2]float64{{50, 0.9}, {100, 0.7}, {10, 1.0}, {7, 0.999}, {3, 0.62}} {
		bloomCase(c, bloomCfg{kind: "params", redis: true, numItems: uint(np[0]), errorRate: np[1]}, 1+i)
		if np[1] < 1 {
			// (the in-memory constructor rejects error rate 1 with an error: nothing to check)
			bloomCase(c, bloomCfg{kind: "params", redis: false, numItems: uint(np[0]), errorRate: np[1]}, 1+i)
		}
	}
	bloomHuge(c, []string{"C01"})
	bloomConcurrent(c)
	// small-scope exhaustive: all histories of length <= L over 3 elements for sizes 1..6
	if c.thorough() {
		bloomExhaustive(c)
	}
}

func bloomCase(c *Ctx, cfg bloomCfg, caseNo int) {
	f, err := cfg.build()
	if err != nil || f == nil {
		c.fail([]string{"C01"}, "bloom-constructor", fmt.Sprintf("constructor failed: %v (%s)", err, cfg), cfg.String())
		return
	}
	c.rep.Cases++
	size, k := uint64(f.GetCap()), uint64(f.GetNumHashes())
	pool := elemPool(c.rng, 6+c.rng.Intn(10), false)
	// learn the probe set of each pool element on a fresh instance
	probes := make([][]uint64, len(pool))
	for j, e := range pool {
		g, err := cfg.build()
		if err != nil {
			c.fail([]string{"C01"}, "bloom-constructor", fmt.Sprintf("constructor failed: %v", err), cfg.String())
			return
		}
		g.Insert(e)
		a, err := bloomAbs(g, cfg.redis)
		if err != nil {
			c.fail(bloomExportProps(cfg), "bloom-export", fmt.Sprintf("export failed: %v", err), cfg.String())
			return
		}
		probes[j] = a.Bits
		if len(a.Bits) == 0 || uint64(len(a.Bits)) > k {
			c.fail([]string{"C01"}, "bloom-probe-count", fmt.Sprintf("insert of %x into a fresh filter set %d bits (k=%d)", e, len(a.Bits), k), cfg.String())
		}
		for _, b := range a.Bits {
			if b >= size {
				c.fail([]string{"C01"}, "bloom-probe-range", fmt.Sprintf("probe %d >= size %d", b, size), cfg.String())
			}
		}
		// exact mode: the probing scheme as transcribed
		h1, h2 := metro.Hash128(e, 1373)
		c.emit("bloom.probes %d %d %d %d %s", h1, h2, k, size, natList(a.Bits))
	}
	if cfg.kind == "bitset" {
		a, _ := bloomAbs(f, cfg.redis)
		c.emit("bloom.new %d %d %d %d %s", cfg.words*64, cfg.numHashes, size, k, natList(a.Bits))
	}
	// fresh filter: everything absent
	for j, e := range pool {
		var got bool
		if j%2 == 0 {
			got = f.Lookup(e)
		} else {
			got = f.LookupString(string(e))
		}
		if got {
			c.fail([]string{"C01"}, "bloom-empty-present", fmt.Sprintf("fresh filter reports %x present", e), cfg.String())
		}
	}
	inserted := map[int]bool{}
	var hist []string
	nops := 10 + c.rng.Intn(30)
	lookedAbsent := false
	// Redis: the operations are routed through the creating handle and through handles attached
	// from the metadata key - one of them while the filter is still empty, others at random
	// points (what a handle remembers locally must not matter: C09); `f` stays the handle the
	// state is observed through.
	handles := []*gostatix.BloomFilter{f}
	mayAttach := cfg.redis && f.GetMetadataKey() != ""
	var snapDoc, snapImg []byte
	var snapInserted map[int]bool
	attachFailed := false
	attach := func() {
		g, err := gostatix.NewRedisBloomFilterFromKey(f.GetMetadataKey())
		if err == nil && g != nil && g.GetCap() == f.GetCap() && g.GetNumHashes() == f.GetNumHashes() {
			handles = append(handles, g)
			c.branch("attached-handle")
			return
		}
		if !attachFailed {
			attachFailed = true
			got := "no handle"
			if g != nil {
				got = fmt.Sprintf("size %d, %d hashes", g.GetCap(), g.GetNumHashes())
			}
			c.fail([]string{"C09", "C01"}, "bloom-attach-differs", fmt.Sprintf("%s: a handle attached from the metadata key of a live filter (size %d, %d hashes): error %v, %s", cfg, f.GetCap(), f.GetNumHashes(), err, got), cfg.String())
		}
	}
	if mayAttach && caseNo%3 != 0 {
		attach()
	}
	for opn := 0; opn < nops; opn++ {
		j := c.rng.Intn(len(pool))
		e := pool[j]
		if mayAttach && len(handles) < 4 && c.rng.Intn(10) == 0 {
			attach()
		}
		if c.rng.Intn(30) == 0 && len(inserted) > 0 {
			// continue the history on a copy loaded into a handle that was built with OTHER
			// dimensions (a power of two, or none) and has been used: Import, or for the in-memory
			// variant WriteTo/ReadFrom.  Everything inserted so far must still be found.
			if g := bloomReload(c, f, cfg); g != nil {
				f = g
				handles = []*gostatix.BloomFilter{f}
				mayAttach = false // finding D25: Import does not rewrite the metadata hash
				hist = append(hist, "reload")
				if uint64(f.GetCap()) != size || uint64(f.GetNumHashes()) != k {
					c.fail([]string{"C01", "C10", "C11"}, "bloom-reload-parameters", fmt.Sprintf("reloaded filter has size %d / %d hashes, the original %d / %d", f.GetCap(), f.GetNumHashes(), size, k), cfg.String())
					return
				}
			}
		}
		if snapDoc == nil && c.rng.Intn(6) == 0 {
			// remember this state: the filter is rolled back to it later, in place
			if d, err := f.Export(); err == nil {
				snapDoc = d
				if !cfg.redis {
					var buf bytes.Buffer
					if _, err := f.WriteTo(&buf); err == nil {
						snapImg = buf.Bytes()
					}
				}
				snapInserted = map[int]bool{}
				for k := range inserted {
					snapInserted[k] = true
				}
			}
		} else if snapDoc != nil && c.rng.Intn(8) == 0 {
			// roll the SAME handle back to the remembered state, between two inserts of one element
			// that the remembered state does not hold: whatever the handle remembers of its last
			// operation describes a state that is gone
			jn := -1
			for cand := range pool {
				if !snapInserted[cand] {
					jn = cand
					break
				}
			}
			how := "Import"
			var lerr error
			if mayAttach && len(handles) < 2 {
				attach()
			}
			prim := handles[len(handles)-1] // Redis: a handle other than the one that loads the image
			res := safely(func() {
				if jn >= 0 {
					prim.Insert(pool[jn])
					prim.Lookup(pool[jn])
				}
				if snapImg != nil && c.rng.Intn(2) == 0 {
					how = "ReadFrom"
					_, lerr = f.ReadFrom(bytes.NewReader(snapImg))
				} else {
					lerr = f.Import(snapDoc)
				}
			})
			c.branch("rollback-in-place-" + how)
			if res.panicked || lerr != nil {
				c.fail([]string{"C10", "C11"}, "bloom-reload-fails", fmt.Sprintf("%s of an earlier image of the filter into the filter itself failed: %v %v", how, res.panicVal, lerr), cfg.String())
				return
			}
			if !cfg.redis {
				handles = []*gostatix.BloomFilter{f}
			}
			// Redis: the image went back under the same key with the same dimensions, so every
			// attached handle still describes the filter - and must see what is there now
			inserted = map[int]bool{}
			for k := range snapInserted {
				inserted[k] = true
			}
			hist = append(hist, "rollback")
			if jn >= 0 {
				for hi, hq := range handles {
					if hq.Lookup(pool[jn]) && !eqU64sub(probes[jn], f, cfg.redis) {
						c.fail([]string{"C01", "C09", "C10", "C11"}, "bloom-rollback-remembers", fmt.Sprintf("element %x, inserted only after the remembered state was taken, is reported present by handle %d of %d after the roll-back although not all of its bits are set", pool[jn], hi, len(handles)), cfg.String())
						return
					}
				}
				prim.Insert(pool[jn])
				inserted[jn] = true
				hist = append(hist, fmt.Sprintf("I%d", jn))
			}
			snapDoc, snapImg = nil, nil
		}
		via := handles[c.rng.Intn(len(handles))]
		pre, err := bloomAbs(f, cfg.redis)
		if err != nil {
			c.fail(bloomExportProps(cfg), "bloom-export", fmt.Sprintf("export failed: %v", err), cfg.String())
			return
		}
		switch r := c.rng.Intn(10); {
		case r < 5: // insert
			var res callResult
			if r%2 == 0 {
				c.op("Insert")
				res = safely(func() { via.Insert(e) })
			} else {
				c.op("InsertString")
				res = safely(func() { via.InsertString(string(e)) })
			}
			if res.panicked {
				c.fail([]string{"C01"}, "bloom-panic", "Insert panicked: "+res.panicVal, cfg.String())
				return
			}
			post, _ := bloomAbs(f, cfg.redis)
			c.emit("bloom.insert %d %s %s %s", size, natList(pre.Bits), natList(probes[j]), natList(post.Bits))
			inserted[j] = true
			hist = append(hist, fmt.Sprintf("I%d", j))
		default:
			var got, got2 bool
			c.op("Lookup")
			res := safely(func() { got = via.Lookup(e); got2 = via.LookupString(string(e)) })
			if res.panicked {
				c.fail([]string{"C01"}, "bloom-panic", "Lookup panicked: "+res.panicVal, cfg.String())
				return
			}
			if got != got2 {
				c.fail([]string{"C01"}, "bloom-string-bytes", fmt.Sprintf("Lookup(%x)=%v but LookupString=%v", e, got, got2), cfg.String())
			}
			c.emit("bloom.lookup %d %s %s %d", size, natList(pre.Bits), natList(probes[j]), b2i(got))
			post, _ := bloomAbs(f, cfg.redis)
			if !eqU64(pre.Bits, post.Bits) {
				c.fail([]string{"C01"}, "bloom-lookup-mutates", "Lookup changed the bit array", cfg.String())
			}
			if !inserted[j] {
				lookedAbsent = true
				if !got {
					c.branch("lookup-absent-false")
				} else {
					c.branch("lookup-false-positive")
				}
			} else {
				c.branch("lookup-present")
			}
			hist = append(hist, fmt.Sprintf("L%d", j))
		}
		// oracle: every inserted element is present after every step
		for jj := range inserted {
			q := handles[(opn+jj)%len(handles)]
			ok1 := q.Lookup(pool[jj])
			ok2 := q.LookupString(string(pool[jj]))
			if !ok1 || !ok2 {
				c.fail([]string{"C01", "C08", "C09"}, "bloom-false-negative",
					fmt.Sprintf("element %x inserted earlier is reported absent after op %d (Lookup=%v LookupString=%v, %d handles)", pool[jj], opn, ok1, ok2, len(handles)),
					map[string]interface{}{"config": cfg.String(), "pool": poolHex(pool), "history": hist, "element": jj})
				return
			}
		}
	}
	if len(inserted) >= 2 && lookedAbsent {
		c.nontrivial(fmt.Sprintf("%s|%v", cfg, hist))
	}
	c.sample(map[string]interface{}{"config": cfg.String(), "size": size, "numHashes": k, "history": hist})
}

// bloomHuge: an in-memory filter of a little more than 2^32 bits (512 MiB of untouched zero pages;
// a few hundred elements touch a few thousand of them).  Oracle only - nothing of this size is
// exported: every inserted element is found, and of as many never-inserted ones none is (at this
// load the false-positive probability is below 1e-40; probes confined to `size mod 2^32` bits,
// or positions computed with a narrower modulus on one of the two paths, show at once).
func bloomHuge(c *Ctx, props []string) {
	size := uint(1<<32) + 777 + uint(c.rng.Intn(500))
	ni, p := paramsForSize(size, uint(float64(size)*math.Ln2/7))
	if p <= 0 || p >= 1 {
		return
	}
	cfg := fmt.Sprintf("bloom(mem, n=%d, p=%g) -> %d bits", ni, p, size)
	var f *gostatix.BloomFilter
	var err error
	if res := safely(func() { f, err = gostatix.NewMemBloomFilterWithParameters(ni, p) }); res.panicked || err != nil || f == nil {
		c.note("bloomHuge: could not build " + cfg)
		return
	}
	c.rep.Cases++
	c.op("bloom.huge")
	if uint64(f.GetCap()) < 1<<32 {
		c.note(fmt.Sprintf("bloomHuge: %s has only %d bits", cfg, f.GetCap()))
		return
	}
	const n = 300
	for i := 0; i < n; i++ {
		f.Insert([]byte(fmt.Sprintf("huge-in-%d-%d", c.seed, i)))
	}
	lost, fp := 0, 0
	for i := 0; i < n; i++ {
		if !f.Lookup([]byte(fmt.Sprintf("huge-in-%d-%d", c.seed, i))) {
			lost++
		}
		if f.Lookup([]byte(fmt.Sprintf("huge-out-%d-%d", c.seed, i))) {
			fp++
		}
	}
	if lost > 0 {
		c.fail(append([]string{"C01"}, props...), "bloom-false-negative", fmt.Sprintf("%s (%d hashes): %d of %d inserted elements are reported absent", cfg, f.GetNumHashes(), lost, n), cfg)
	}
	if fp > 0 {
		c.fail(append([]string{"C15"}, props...), "bloom-huge-false-positives", fmt.Sprintf("%s (%d hashes): after %d insertions %d of %d never-inserted elements are reported present (the budget allows practically none at this load)", cfg, f.GetNumHashes(), n, fp, n), cfg)
	}
	f = nil
	runtime.GC()
	debug.FreeOSMemory()
}

// a Redis-backed filter whose state cannot be read back is also not "fully described by what Redis
// holds" (C09) and does not answer like its in-memory twin (C08)
func bloomExportProps(cfg bloomCfg) []string {
	if cfg.redis {
		return []string{"C01", "C09", "C08"}
	}
	return []string{"C01"}
}

// eqU64sub: are all of the given bits set in the filter?
func eqU64sub(bits []uint64, f *gostatix.BloomFilter, redis bool) bool {
	a, err := bloomAbs(f, redis)
	if err != nil {
		return true
	}
	set := map[uint64]bool{}
	for _, b := range a.Bits {
		set[b] = true
	}
	for _, b := range bits {
		if !set[b] {
			return false
		}
	}
	return true
}

// bloomReload: the current state loaded into another, used handle of other dimensions
func bloomReload(c *Ctx, f *gostatix.BloomFilter, cfg bloomCfg) *gostatix.BloomFilter {
	var g *gostatix.BloomFilter
	var err error
	switch c.rng.Intn(3) {
	case 0: // power-of-two size
		if cfg.redis {
			g, err = gostatix.NewRedisBloomFilterFromBitSet(make([]uint64, 1<<uint(c.rng.Intn(5))), 3)
		} else {
			g = gostatix.NewMemBloomFilterFromBitSet(make([]uint64, 1<<uint(c.rng.Intn(5))), 3)
		}
	case 1:
		g, err = bloomCfg{kind: "params", redis: cfg.redis, numItems: 100, errorRate: 0.01}.build()
	default:
		g, err = bloomCfg{kind: "params", redis: cfg.redis, numItems: 3, errorRate: 0.3}.build()
	}
	if err != nil || g == nil {
		return nil
	}
	g.Insert([]byte("previous tenant"))
	g.Lookup([]byte("previous tenant"))
	if g.GetCap() <= 1024 && c.rng.Intn(2) == 0 {
		// the previous tenant was saturated: every bit set (whatever the handle remembers about
		// its fill level is stale after the load)
		for i := 0; i < 40*int(g.GetCap()); i++ {
			if a, err := bloomAbs(g, cfg.redis); err != nil || uint64(len(a.Bits)) >= a.Size {
				break
			}
			for j := 0; j < 1+int(g.GetCap())/8; j++ {
				g.Insert(randBytes(c.rng, 1+c.rng.Intn(12)))
			}
		}
		c.branch("reload-into-saturated")
	}
	var lerr error
	how := "Import"
	useStream := !cfg.redis && c.rng.Intn(2) == 0
	if useStream && c.rng.Intn(3) == 0 {
		// the receiving struct was created Redis-backed: ReadFrom makes it an in-memory filter
		if g2, e2 := gostatix.NewRedisBloomFilterWithParameters(60, 0.1); e2 == nil && g2 != nil {
			g2.Insert([]byte("previous tenant"))
			g = g2
			c.branch("readfrom-into-redis-created-struct")
		}
	}
	res := safely(func() {
		if useStream {
			how = "WriteTo/ReadFrom"
			var buf bytes.Buffer
			if _, lerr = f.WriteTo(&buf); lerr == nil {
				_, lerr = g.ReadFrom(&buf)
			}
			return
		}
		var doc []byte
		if doc, lerr = f.Export(); lerr == nil {
			lerr = g.Import(doc)
		}
	})
	c.branch("reload-" + how)
	if cfg.redis && !c.checkNoTTL([]string{"C01", "C10"}, "after "+how+" into a Redis-backed Bloom filter") {
		return nil
	}
	if res.panicked || lerr != nil {
		c.fail([]string{"C10", "C11"}, "bloom-reload-fails", fmt.Sprintf("%s of the filter's own image into a used handle failed: %v %v", how, res.panicVal, lerr), cfg.String())
		return nil
	}
	return g
}

func poolHex(pool [][]byte) []string {
	out := make([]string, len(pool))
	for i, e := range pool {
		out[i] = hexStr(e)
	}
	return out
}

func bloomExhaustive(c *Ctx) {
	elems := [][]byte{[]byte("a"), []byte(""), []byte("0123456789abcdefg")}
	count := 0
	for size := uint(1); size <= 6; size++ {
		ni, p := paramsForSize(size, 1)
		if p >= 1 || p <= 0 {
			continue
		}
		// histories: sequences over {I0,I1,I2}; after each prefix all inserted must be present
		var rec func(f *gostatix.BloomFilter, depth int, ins map[int]bool) bool
		_ = rec
		total := 1
		for d := 0; d < 4; d++ {
			total *= 3
		}
		for code := 0; code < total; code++ {
			f, err := gostatix.NewMemBloomFilterWithParameters(ni, p)
			if err != nil {
				continue
			}
			ins := map[int]bool{}
			x := code
			for d := 0; d < 4; d++ {
				j := x % 3
				x /= 3
				f.Insert(elems[j])
				ins[j] = true
				for jj := range ins {
					if !f.Lookup(elems[jj]) {
						c.fail([]string{"C01"}, "bloom-false-negative", fmt.Sprintf("exhaustive: size %d code %d element %d lost", size, code, jj), nil)
						return
					}
				}
			}
			count++
		}
	}
	c.rep.Branches["exhaustive-histories"] = count
}

// bloomConcurrent: several goroutines insert disjoint element sets into ONE in-memory filter whose
// bits share words (one hash function); no inserted element may be absent afterwards.  (The lock
// discipline itself is C07; this is the no-false-negative clause under concurrent inserts.)
func bloomConcurrent(c *Ctx) {
	rounds := c.scale(3, 20)
	old := runtime.GOMAXPROCS(0)
	if old < 4 {
		runtime.GOMAXPROCS(4)
		defer runtime.GOMAXPROCS(old)
	}
	for r := 0; r < rounds; r++ {
		f, err := gostatix.NewMemBloomFilterWithParameters(4096, 0.5) // numHashes = 1
		if err != nil {
			return
		}
		c.rep.Cases++
		const g, per = 8, 512
		var wg sync.WaitGroup
		start := make(chan struct{})
		for w := 0; w < g; w++ {
			wg.Add(1)
			go func(w int) {
				defer wg.Done()
				<-start
				for i := 0; i < per; i++ {
					f.Insert([]byte(fmt.Sprintf("conc-%d-%d-%d", r, i, w)))
				}
			}(w)
		}
		close(start)
		wg.Wait()
		c.rep.Ops["Insert.concurrent"] += g * per
		for w := 0; w < g; w++ {
			for i := 0; i < per; i++ {
				e := []byte(fmt.Sprintf("conc-%d-%d-%d", r, i, w))
				if !f.Lookup(e) {
					c.fail([]string{"C01", "C07"}, "bloom-false-negative-concurrent",
						fmt.Sprintf("in-memory filter (size %d, 1 hash): element %q inserted by one of %d concurrent goroutines is reported absent", f.GetCap(), e, g),
						map[string]interface{}{"goroutines": g, "elements_each": per, "round": r})
					return
				}
			}
		}
		c.branch("concurrent-insert-round")
	}
}
