// gsharness — drives the real gostatix implementation (built from /repo's working tree),
// writes the observed transitions for the Lean model driver, and evaluates the properties'
// direct oracles.  Usage:
//
//	gsharness -suite <name> -seed N -tier quick|thorough -trace <file> -report <file>
package main

import (
	"bufio"
	"flag"
	"fmt"
	"math/rand"
	"os"
	"sort"
	"time"

	"github.com/alicebob/miniredis/v2"
	"github.com/kwertop/gostatix"
)

var suites = map[string]func(*Ctx){}

func register(name string, f func(*Ctx)) { suites[name] = f }

func main() {
	suite := flag.String("suite", "", "suite name")
	seed := flag.Int64("seed", 1, "PRNG seed")
	tier := flag.String("tier", "quick", "quick|thorough")
	tracePath := flag.String("trace", "", "trace output (line protocol)")
	reportPath := flag.String("report", "", "report output (json)")
	list := flag.Bool("list", false, "list suites")
	child := flag.String("child", "", "internal: run as a re-attached child process (addr)")
	flag.Parse()
	if *list {
		names := make([]string, 0, len(suites))
		for n := range suites {
			names = append(names, n)
		}
		sort.Strings(names)
		for _, n := range names {
			fmt.Println(n)
		}
		return
	}
	if *child != "" {
		childMain(*child)
		return
	}
	f, ok := suites[*suite]
	if !ok {
		fmt.Fprintf(os.Stderr, "unknown suite %q\n", *suite)
		os.Exit(2)
	}
	mr, err := miniredis.Run()
	if err != nil {
		fmt.Fprintf(os.Stderr, "miniredis: %v\n", err)
		os.Exit(2)
	}
	defer mr.Close()
	// generous timeouts: under heavy machine load a reply can take seconds; go-redis would
	// time out after 3 s and RETRY the command - an update would then be applied twice and the
	// run would report a difference that is not in the code under test
	gostatix.MakeRedisClient(gostatix.RedisConnOptions{Address: mr.Addr(), ConnectionTimeout: time.Minute, ReadTimeout: 30 * time.Minute, WriteTimeout: 30 * time.Minute})

	tf, err := os.Create(*tracePath)
	if err != nil {
		fmt.Fprintf(os.Stderr, "trace: %v\n", err)
		os.Exit(2)
	}
	w := bufio.NewWriterSize(tf, 1<<20)
	rep := &Report{Suite: *suite, Seed: *seed, Tier: *tier, Ops: map[string]int{}, Branches: map[string]int{}, seen: map[string]bool{}}
	ctx := &Ctx{rng: rand.New(rand.NewSource(*seed)), tier: *tier, seed: *seed, trace: w, rep: rep, mr: mr, pendingPath: *reportPath + ".pending"}
	res := safely(func() { f(ctx) })
	if res.panicked {
		rep.Failures = append(rep.Failures, Failure{[]string{"*"}, "harness", "harness-panic", "suite panicked: " + res.panicVal, nil})
	}
	w.Flush()
	tf.Close()
	if rep.Failures == nil {
		rep.Failures = []Failure{}
	}
	if err := writeJSON(*reportPath, rep); err != nil {
		fmt.Fprintf(os.Stderr, "report: %v\n", err)
		os.Exit(2)
	}
}
