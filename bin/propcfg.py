"""Per-property configuration of /verif/bin/check: Lean modules holding the theorems,
correspondence suites (harness suite names), level, trusted base, assumptions."""

TRUSTED_COMMON = [
    "Lean 4.33.0 kernel (lake build; thorough tier: leanchecker re-check of the property modules)",
    "axioms allowed per theorem: propext, Classical.choice, Quot.sound (audited by #print axioms on every run); no sorry/admit/native_decide/bv_decide/own axioms",
    "the hand-written Lean model is tied to /repo by the correspondence suites of the Go harness (differential testing on every run, bounded by the generators) - it is modelled, not verified",
    "harness canonicalisation (decoding of Export documents into abstract states), go-redis, miniredis+gopher-lua standing in for Redis",
]

PROPS = {
    'C01': {
        'lean_modules': ['C01', 'ArithTieBloom'],
        'required_theorems': ['tie_bloomIndexInt', 'C01_no_false_negative', 'C01_empty_absent', 'C01_probe_in_range', 'C01_no_false_negative_concrete'],
        'suites': ['bloom', 'conc', 'redisconc'],
        'race_suites': ['conc'],
        'level': 'proof',
        'explanation': 'Theorems C01_* (Lean 4) over the bit-array model for an arbitrary in-range probe function and every history; '
                       'suite `bloom` checks on every run that each observed Insert/Lookup of both backends is the model transition '
                       '(abstract mode: probe sets learned from a fresh filter) and that getIndex is the transcribed formula (exact mode).',
        'assumptions': ['hash (metro.Hash128) is a function of the element bytes only',
                        'numHashes < 2^17 so that the float64 cubic term of getIndex is exact',
                        'bits-and-blooms/bitset Set/Test and Redis SETBIT/GETBIT implement a bit array'],
        'trusted': [],
    },

    'C02': {
        'lean_modules': ['C02', 'ArithTieCuckoo', 'C02Concrete', 'MurmurTie'],
        'required_theorems': ['tie_murmur_sum128', 'tie_murmur_getHash', 'tie_bmixBlock', 'tie_finalize', 'tie_tailMix', 'C02_no_false_negative_concrete', 'C02_inserted_element_found', 'C02_positions_valid', 'C02_positions_valid_any_n', 'C02_fpl_valid_iff', 'C02_concrete_npow2_loses_element', 'tie_cuckooFirstIndex', 'tie_cuckooSecondIndex', 'tie_cuckooKickIndexMem', 'tie_cuckooKickIndexRedis', 'C02_no_false_negative', 'C02_insert_ok_stored', 'C02_insert_preserves_lookup', 'C02_alt_involutive_pow2',
                              'C02_alt_not_involutive_npow2', 'C02_no_kick_any_n_partial', 'C02_npow2_kick_loses_element'],
        'suites': ['cuckoo', 'conc'],
        'race_suites': ['conc'],
        'level': 'proof',
        'explanation': 'Key-bag refinement proved in Lean for both bucket kinds (in-memory slot array, Redis list): under an involutive alternate-bucket map '
                       '(proved for power-of-two bucket counts) a successful insert adds one copy to the element\'s bucket pair, relocations keep every fingerprint inside its pair, '
                       'so every element inserted more often than removed is found, for every eviction choice; for other bucket counts the statement is refuted in Lean (finding D2) and only the no-relocation part is proved. '
                       'Suite `cuckoo` (exact mode) replays every observed Insert/Remove/Lookup of both backends through the model with the mirrored random choices. Props/C02Concrete: the same on byte strings through the transcribed positions; Props/MurmurTie: murmur3 is translated from murmur.go on every run and proved equal to the model for all inputs.',
        'assumptions': ['element fingerprints are valid: fingerprint length <= number of decimal digits of the element hash (finding D3 otherwise)',
                        'histories without failed destructive inserts for the no-false-negative theorem (a failed destructive insert may displace one entry by design, C14)',
                        'math/rand stream reproduced by rand.Seed for the correspondence check'],
    },
    'C03': {
        'lean_modules': ['C03', 'ArithTieCMS', 'C03Machine', 'ArithTieCMSCells', 'LoopTieCMS', 'LoopTieCMSKernels'],
        'required_theorems': ['tie_loop_update', 'tie_loop_count', 'tie_loop_getPositions', 'loops_all_translated', 'C03_machine_refines_history', 'C03_machine_lower', 'C03_machine_upper', 'C03_machine_exact_single', 'C03_machine_wraps', 'C03_machine_mod', 'tie_cmsCellUpdate', 'tie_cmsAllSumUpdate', 'tie_cmsPosition', 'C03_lower', 'C03_upper', 'C03_exact_single', 'C03_empty_zero', 'C03_concrete'],
        'suites': ['cms', 'conc', 'redisconc'],
        'race_suites': ['conc'],
        'level': 'proof',
        'explanation': 'Lean theorems over the matrix model for an arbitrary in-range position function and every update history (cell invariant: each cell is the sum of the counts hashed to it); '
                       'suite `cms` checks every observed Update/UpdateOnce/UpdateString/Count of both backends against the model (abstract mode) and getPositions against its transcription. Props/C03Machine: a uint64 machine model refines the Nat model for every history whose stream total is below 2^64 (sharp; beyond it counters wrap and the lower bound is false of the code); the cell statements of Update and Merge are translated from the source (ArithTieCMSCells).',
        'assumptions': ['no counter overflow: stream total < 2^64 (in-memory uint64) resp. < 2^53 (Lua numbers)',
                        'Redis sketches narrower than gopher-lua\'s unpack limit (finding D24 otherwise)'],
    },
    'C04': {
        'lean_modules': ['C04', 'C04E2E', 'C04Exact'],
        'required_theorems': ['C04_end_to_end_exact_mem', 'C04_end_to_end_exact_redis', 'C04_end_to_end_exact_mem_values', 'C04_exact_iff_prefixFree', 'C04_exact_needs_noCollision', 'C04_k_zero_model_differs', 'C04_end_to_end_mem', 'C04_end_to_end_redis', 'C04_size', 'C04_nodup', 'C04_count_bounds', 'C04_unreported_light', 'C04_exact_without_collisions',
                              'C04_values_sorted', 'C04_mem_refines_spec', 'C04_redis_refines_spec'],
        'suites': ['topk', 'conc', 'redisconc'],
        'race_suites': ['conc'],
        'level': 'proof',
        'explanation': 'Lean: nondeterministic Top-K specification (any tie resolution) with size/no-duplicate/count-bound/unreported-light/exactness theorems for every history whose estimates satisfy the Count-Min bounds; '
                       'container/heap (up/down/Push/Pop/Remove) and the sorted-set variant are proved to refine it. Suite `topk` replays every observed Insert (sketch update, estimate, heap transition) and Values of both backends through the model.',
        'assumptions': ['C04_end_to_end_{mem,redis} discharge the estimate hypothesis EstOK from the Count-Min theorems of C03: no hypothesis on estimates remains; scores < 2^53 in Redis',
                        'element names valid UTF-8 without protocol separators in the correspondence suite'],
    },
    'C05': {
        'lean_modules': ['C05', 'ArithTieHLL', 'C05Est'],
        'required_theorems': ['C05_estimate_independent_of_n_hashes', 'C05_estimate_window', 'C05_cannot_track', 'C05_window_16384', 'C05_run_total_of_large', 'C05_update_panic_iff', 'C05_update_can_fail_le_65', 'tie_hllRegisterIndex', 'tie_hllStoredValueRedis', 'C05_update_ok_iff', 'C05_registers_confined', 'C05_index_range'],
        'suites': ['hllacc', 'hll', 'redisconc'],
        'level': 'proof',
        'explanation': 'The accuracy clause is FALSE of the pinned code (finding D4: the register index is the rank and the stored value is hash bits); what is proved is the exact characterisation of what the code computes '
                       '(which registers can ever be written, when an update fails) and the refutation; suites `hllacc`/`hll` tie registers and the float estimator to the model on every run, so any change of the estimator or the register rule is detected as a correspondence break; '
                       'the accuracy oracle itself reports the known finding.',
        'assumptions': ['IEEE-754 evaluation of the estimator is the same in Go and Lean Float (checked by the correspondence on every run)',
                        'statistical accuracy of a concrete hash function is not provable; tested only'],
    },
    'C06': {
        'lean_modules': ['C06', 'LoopTieHLL'],
        'required_theorems': ['tie_loop_hll_update', 'tie_loop_hll_merge', 'tie_loop_hll_merge_rejected', 'loops_hll_all_translated', 'C06_perm', 'C06_dup', 'C06_depends_only_on_set', 'C06_merge_union_fresh', 'C06_merge_comm', 'C06_merge_idem',
                              'C06_merge_then_update', 'C06_merge_mismatch'],
        'suites': ['hll', 'conc', 'redisconc'],
        'race_suites': ['conc'],
        'level': 'proof',
        'explanation': 'Lean theorems for an arbitrary (register, value) function: updates commute and are idempotent, so registers (hence Count and Export) depend only on the set of elements; merge = pointwise max = union, commutative, idempotent; mismatch is an error. '
                       'Suite `hll` replays every observed Update/Count/Merge of both backends through the model.',
        'assumptions': ['elements whose rank is < m (for m <= 64 other elements make Update fail: finding D4, reported under C05)'],
    },
    'C11': {
        'lean_modules': ['C11', 'C11Reach', 'C11Table'],
        'required_theorems': ['C11_layout_understood', 'C11_one_byte_order', 'C11_write_read_agree', 'C11_layout_bloom', 'C11_layout_bitset', 'C11_layout_cms', 'C11_layout_hll', 'C11_layout_bucket', 'C11_layout_cuckoo', 'C11_layout_topk', 'C11_reachable_wf_bloom', 'C11_reachable_wf_cms', 'C11_reachable_wf_hll', 'C11_reachable_wf_cuckoo_bytes', 'C11_reachable_wf_topk', 'C11_roundtrip_reachable_bloom', 'C11_roundtrip_reachable_cms', 'C11_roundtrip_reachable_hll', 'C11_roundtrip_reachable_cuckoo_bytes', 'C11_roundtrip_reachable_topk', 'C11_count_reachable_topk', 'C11_roundtrip_bloom', 'C11_roundtrip_cms', 'C11_roundtrip_hll', 'C11_roundtrip_cuckoo', 'C11_roundtrip_topk',
                              'C11_count_bloom', 'C11_count_cms', 'C11_count_hll', 'C11_count_cuckoo', 'C11_count_topk', 'C11_concat'],
        'suites': ['persist'],
        'level': 'proof',
        'explanation': 'Lean: byte-exact encoders/decoders of the five binary formats; decode(encode s ++ rest) = (s, rest) for every well-formed image, reported byte counts = encoded length, back-to-back streams. '
                       'Suite `persist` compares WriteTo output byte for byte with the model encoder, ReadFrom results with the model decoder (also on truncated input), and checks counts/consumption/equality/queries on the implementation. Props/C11Table (regenerated layout table): one byte order, write and read sequences agree pairwise in type, nesting and loop depth and equal the sequence of the Lean codec. Props/C11Reach: images of all reachable states of the operational models are well-formed, so the round-trip, count and truncation theorems apply to them (parameters and totals below 2^64).',
        'assumptions': ['all header fields < 2^64; float parameters travel as bit patterns', 'bits-and-blooms/bitset WriteTo/ReadFrom format as transcribed (tie-checked)'],
    },
    'C12': {
        'lean_modules': ['C12', 'C03Machine', 'ArithTieCMSCells', 'LoopTieCMS'],
        'required_theorems': ['tie_loop_merge', 'tie_loop_merge_rejected', 'C12_machine_merge_union', 'C12_machine_wraps', 'tie_cmsCellMerge', 'C03_machine_refines_merge', 'C12_merge_union', 'C12_merge_comm', 'C12_merge_assoc', 'C12_merge_then_update', 'C12_counts_after_merge', 'C12_mismatch'],
        'suites': ['cms', 'redisconc', 'conc'],
        'race_suites': ['conc'],
        'level': 'proof',
        'explanation': 'Lean: merge of two sketches of equal dimensions is the sketch of the concatenated history (all counts equal), commutative/associative, later updates behave as on the single sketch, mismatch is an error. '
                       'Suite `cms` replays observed merges of both backends through the model and checks argument-unchanged, merge orders, updates after merge, mismatches.',
        'assumptions': ['no counter overflow (as C03)'],
    },
    'C13': {
        'lean_modules': ['C13', 'C02Concrete'],
        'required_theorems': ['C13_length_exact_concrete', 'C13_wf_preserved', 'C13_length_exact', 'C13_capacity', 'C13_remove_present', 'C13_remove_absent', 'C13_empty_after_all_removed'],
        'suites': ['cuckoo', 'conc'],
        'race_suites': ['conc'],
        'level': 'proof',
        'explanation': 'Lean (any bucket count, both bucket kinds, every eviction choice): well-formedness is preserved by every operation, Length = stored entries = successful inserts - successful removes, no bucket exceeds its capacity, '
                       'remove of a present element removes exactly one copy, remove of an absent one changes nothing, an emptied filter answers false everywhere. Suite `cuckoo` as for C02.',
        'assumptions': ['valid fingerprints (finding D3 otherwise)', 'for non-power-of-two bucket counts a live element can become unfindable (finding D2), so "remove of a live element returns true" is only guaranteed with an involutive alternate bucket'],
    },
    'C14': {
        'lean_modules': ['C14', 'C14Strict'],
        'required_theorems': ['C14_walk_in_range', 'C14_strict_agrees', 'C14_rollback_exact_strict', 'C14_failure_signalled_strict', 'C14_rollback_exact_in_range', 'C14_strict_needs_slot_range', 'C14_strict_needs_wf', 'C14_rollback_exact', 'C14_failure_signalled', 'C14_success_means_stored', 'C14_destructive_bound'],
        'suites': ['cuckoo'],
        'level': 'proof',
        'explanation': 'Lean: a failed non-destructive insert returns EXACTLY the initial state (no hypotheses); success only by storing into a bucket with room; a failed destructive insert keeps Length and the number of stored entries and changes the stored multiset by +new -one. '
                       'Suite `cuckoo` drives small filters to saturation with retries 1..500 and replays every failed insert through the model.',
        'assumptions': ['the panic value "cannot insert element, cuckoofilter is full" is the failure signal'],
    },
    'C18': {
        'lean_modules': ['C18', 'C11', 'C18Table', 'C11Reach', 'C11Table'],
        'required_theorems': ['C11_write_read_agree', 'C18_truncated_reachable_bloom', 'C18_truncated_reachable_cms', 'C18_truncated_reachable_hll', 'C18_truncated_reachable_cuckoo_bytes', 'C18_truncated_reachable_topk', 'C18_truncated_bloom', 'C18_truncated_cms', 'C18_truncated_hll', 'C18_truncated_cuckoo', 'C18_truncated_topk', 'C18_errors_propagated', 'C18_decoder_table_covers'],
        'suites': ['persist', 'jsonprefix'],
        'level': 'proof',
        'explanation': 'Lean: a decoder written in the read-n-bytes monad that consumes a whole image rejects every strict prefix (generic theorem), instantiated for the five formats via the C11 round trip. '
                       'Suite `persist` feeds EVERY strict prefix of each sampled binary image and JSON document to ReadFrom/Import (must error, not panic, not succeed) and compares the decoders on truncated input with the model; '
                       'the regenerated decoder table checks that every fallible read has its error tested and returned by the next statement (it does NOT say that the receiver is untouched: HyperLogLog, CountMinSketch and CuckooFilter.ReadFrom assign header fields before their last fallible read, so a failed ReadFrom returns an error AND may leave the receiver modified - the property as stated (error, no panic, no reported success) holds; see DESIGN section 4 C18).',
        'assumptions': ['encoding/json rejects every strict prefix of a marshalled object (standard library, exhaustively tested per sampled document)'],
    },

    'C08': {
        'lean_modules': ['C08', 'C04', 'C08Cuckoo', 'C08TopK', 'C08Bucket', 'C08ZSet', 'LuaBucket', 'LuaCMS', 'LuaHLL'],
        'required_theorems': ['lua_count_min_sketch_redis_updateLists_eq', 'lua_count_min_sketch_redis_countLists_eq', 'lua_count_min_sketch_redis_mergeMatrixScript_eq', 'lua_updateList_eq', 'lua_mergeRegisters_eq', 'lua_hllEquals_eq', 'lua_importHeap_eq', 'lua_topkEquals_eq', 'lua_isFreeScript_eq', 'lua_addElement_eq', 'lua_removeElement_eq', 'lua_exists_eq', 'lua_equals_eq', 'lua_initCuckooFilterRedis_eq', 'C08_cuckoo_until_kick', 'C08_topk_no_tie_equal', 'C08_topk_history', 'C08_bucket_add', 'C08_bucket_remove', 'C08_bucket_lookup', 'C08_topk_insert_cmds', 'C08_cms_update', 'C08_cms_count', 'C08_cms_merge', 'C08_hll_update', 'C08_hll_merge', 'C08_bloom_insert', 'C08_bloom_lookup',
                              'C04_mem_refines_spec', 'C04_redis_refines_spec'],
        'suites': ['lockstep', 'redistie', 'cms', 'hll', 'bloom', 'topk', 'redisconc', 'luatie'],
        'level': 'proof',
        'explanation': 'Lean: the Redis-level models (store, commands, the Lua scripts transcribed) of Count-Min, HyperLogLog and Bloom are proved to simulate the in-memory models step for step (same answers, same abstract state); '
                       'both Top-K variants refine one specification (equal up to ties at the minimum); for cuckoo both bucket kinds satisfy the same bucket laws (C02/C13). '
                       'Suite `lockstep` applies one history to a memory and a Redis instance and compares every answer; the per-structure suites tie each backend to its model.',
        'assumptions': ['numbers < 2^53 (Lua float64); canonical decimal formatting of numbers in Redis lists',
                        'cuckoo: compared only until the first randomly chosen relocation; Top-K: up to the choice among entries tied at the smallest count',
                        'HyperLogLog with m <= 64: only elements whose update does not fail (finding D4)'],
        'timeout': 1800,
    },
    'C09': {
        'lean_modules': ['C09', 'C09Stable'],
        'required_theorems': ['C09_attach_any_time_cms', 'C09_attach_any_time_hll', 'C09_attach_any_time_bloom', 'C09_attach_any_time_cuckoo', 'C09_attach_any_time_topk', 'C09_attach_stable', 'C09_attach_stable_cuckoo_length', 'C09_attach_roundtrip_bloom', 'C09_attach_roundtrip_bloom_params', 'C09_attach_roundtrip_cuckoo', 'C09_attach_roundtrip_cms',
                              'C09_attach_roundtrip_hll', 'C09_attach_roundtrip_topk', 'C09_other_keys_irrelevant'],
        'suites': ['reattach', 'redistie', 'cuckoo', 'blind', 'redisconc', 'bloom'],
        'level': 'proof',
        'explanation': 'Lean: for every Redis constructor the metadata hash it writes (field names and decimal formatting transcribed) is parsed back by the matching FromKey into the same handle (parameters and keys), and attach depends on nothing but that hash; '
                       'all behaviour of a handle is a function of (parameters, keys, store). Suite `reattach` splits histories between the creating handle and handles re-attached at random points, one in a separate OS process, and compares parameters and every answer after every step.',
        'assumptions': ['numbers < 2^63 (strconv.Atoi); Top-K k < 2^32 (ParseUint 32)', 'Import followed by re-attachment is outside the checked histories (Import does not rewrite the metadata hash: reported in DESIGN.md as D25)'],
    },
    'C10': {
        'lean_modules': ['C10', 'C11Reach', 'C10Table'],
        'required_theorems': ['C10_table_understood', 'C10_table_covers', 'C10_tags_plain', 'C10_keys_distinct', 'C10_fields_bloom', 'C10_fields_cuckooMem', 'C10_fields_cuckooRedis', 'C10_fields_cmsMem', 'C10_fields_cmsRedis', 'C10_fields_hllMem', 'C10_fields_hllRedis', 'C10_fields_topkMem', 'C10_fields_topkRedis', 'C10_wiring_consistent', 'C10_keys_match', 'C10_roundtrip_reachable_bloom', 'C10_roundtrip_reachable_cms', 'C10_roundtrip_reachable_hll', 'C10_roundtrip_reachable_cuckoo', 'C10_roundtrip_reachable_topk', 'C10_roundtrip_bloomMem', 'C10_roundtrip_bloomRedis', 'C10_roundtrip_cuckooMem_partial', 'C10_roundtrip_cuckooRedis_partial',
                              'C10_roundtrip_cmsMem', 'C10_roundtrip_cmsRedis', 'C10_roundtrip_hllMem', 'C10_roundtrip_hllRedis_partial',
                              'C10_topk_utf8_partial', 'C10_roundtrip_topkRedis_partial', 'C10_redis_original_untouched', 'C10_bloom_redis_codec'],
        'suites': ['json', 'jsontie'],
        'level': 'proof',
        'explanation': 'Lean: Export/Import of all ten variants transcribed field by field (mirror records, Redis import scripts incl. the Lua loop bounds); import(export s) restores parameters and payload into an instance holding arbitrary other state, '
                       'the Redis bitmap codec is an involution, imports under new keys write no pre-existing key; the Top-K theorem needs UTF-8-stable names (finding D23) and the Redis HLL one the unpack limit (finding D26). '
                       'Suite `json` exports random reachable states of all ten variants, imports into busy instances, compares parameters/payload/queries/Equals, continues both copies in lock-step and checks the exporter untouched. Props/C10Table (regenerated JSON table): no omitempty/string/- tags, distinct keys, Export sets exactly the mirror fields Import reads (exceptions stated), same receiver field behind each key, keys = the field names of the Lean document records. Props/C11Reach: the round trip for every REACHABLE state of the operational models.',
        'assumptions': ['encoding/json struct <-> bytes is the identity except for the UTF-8 coercion of strings', 'valid cuckoo fingerprints (finding D3)'],
    },
    'C17': {
        'lean_modules': ['C17'],
        'required_theorems': ['C17_total_CMSMem', 'C17_sound_CMSMem', 'C17_total_CuckooMem', 'C17_sound_CuckooMem', 'C17_total_CuckooRedis', 'C17_sound_CuckooRedis',
                              'C17_sound_HLLMem', 'C17_sound_TopKMem', 'C17_sound_TopKRedis', 'C17_sound_BloomMem', 'C17_sound_BloomRedis',
                              'C17_symm_TopKMem', 'C17_complete_CuckooMem'],
        'suites': ['equals'],
        'level': 'proof',
        'explanation': 'Lean: the ten Equals methods transcribed with run-time panics as an explicit outcome (Go indexing / Lua nil semantics); for well-formed (reachable) states Equals never panics, is symmetric, returns true on identical states and true only on identical parameters and payload. '
                       'Suite `equals` compares Equals both ways with a full state comparison on pairs from identical histories, one extra/missing operation, one entry mutated at first/middle/last position (crafted Import), one parameter changed; every observed result is replayed through the model.',
        'assumptions': ['float parameters positive and finite; Top-K sketch non-nil (NewTopK with accuracy >= 1 builds no sketch)'],
    },
    'C19': {
        'lean_modules': ['C19', 'C19Import'],
        'required_theorems': ['C19_import_cms_untouched', 'C19_import_hll_untouched', 'C19_import_topk_untouched', 'C19_import_cuckoo_untouched', 'C19_import_cms_fresh', 'C19_frame_cms_equals', 'C19_frame_hll_equals', 'C19_disjoint', 'C19_keys_nodup', 'C19_noninterference', 'C19_noninterference_n', 'C19_import_new_keys', 'C19_frame_cms_update', 'C19_keysOfKind_cuckoo'],
        'suites': ['isolation', 'redisconc'],
        'level': 'proof',
        'explanation': 'Lean: key names of every structure transcribed; handles with distinct 16-letter base keys have disjoint key sets; operations supported on disjoint key sets do not interfere under ANY interleaving of any number of structures (each observes its solo run), an import under new keys changes no other key. '
                       'Suite `isolation` runs 2-8 structures of random kinds in one database: every structure is compared step by step with its solo run, and the keys each operation changes must lie in the model key set of that structure and in no other structure.',
        'assumptions': ['GenerateRandomString(16) returns pairwise distinct names of 16 ASCII letters (checked at run time by the key-set comparison, not proved)',
                        'Redis executes each command / script atomically'],
    },

    'C07': {
        'lean_modules': ['C07', 'C07Lock', 'C07Merge', 'C07Sections'],
        'required_theorems': ['C07_sections_understood', 'C07_single_section', 'C07_single_section_covers', 'C07_merge_two_sections', 'C07_merge_guarded', 'C07_lock_order', 'C07_no_two_locks_of_one_type', 'C07_section_table_aligned', 'C07_self_merge_linearizable', 'C07_self_merge_any_schedule', 'C07_self_merge_all_applied', 'C07_cross_merge_h_side', 'C07_cross_merge_g_side', 'C07_two_phase_needs_commutation', 'C07_overlapping_self_merges_not_atomic', 'C07_serializable', 'C07_program_order_preserved', 'C07_no_lost_update', 'C07_order_independent_bloom',
                              'C07_order_independent_cms', 'C07_order_independent_hll', 'C07_lock_discipline', 'C07_lock_table_covers'],
        'suites': ['conc'],
        'race_suites': ['conc'],
        'level': 'proof',
        'explanation': 'Lean: (2) every schedule of calls of the form acquire;body;release that respects mutual exclusion has the final state and per-call results of the sequential execution in lock-acquisition order, which preserves each goroutine\'s program order and applies every call exactly once; '
                       '(3) Bloom/Count-Min/HyperLogLog updates commute, so that state equals the one of any order. Premise (1) - every access to mutable state of the five in-memory types lies inside a critical section of the instance\'s mutex, writes under the write lock - '
                       'is a table REGENERATED from /repo by the go/ast extractor on every run and re-decided by lake build (C07_lock_discipline, C07_lock_table_covers). '
                       'When it breaks, the search is suite `conc` built with the race detector: 2..16 goroutines on one instance, final state compared with the sequential application. Props/C07Sections (regenerated section table): every call is exactly ONE critical section on the receiver, except the two Merge methods, which are snapshot-on-the-argument then apply-on-the-receiver - the shape Props/C07Merge proves linearizable for commuting applies; Top-K always locks outside its sketch.',
        'assumptions': ['sync.Mutex / RWMutex semantics and the Go memory model (a data-race-free program is sequentially consistent)',
                        'Import, ReadFrom, Equals and GetBitSet are outside the call classes the property lists (update, query, length, merge, export/serialize) and are exempt in the table',
                        'the extractor is syntactic: it answers "not guarded" for shapes it does not understand'],
    },

    'C15': {
        'lean_modules': ['C15', 'C15Prob', 'C15Bloom', 'ArithTieCMS', 'ArithTieBloom', 'MurmurTie'],
        'required_theorems': ['tie_murmur_sum128', 'tie_murmur_getHash', 'C15_bloom_fp_union_bound', 'C15_bloom_fp_fraction_le', 'C15_bloom_fp_sized_p', 'C15_bloom_fp_exact_sum', 'C15_bloom_member_always_present', 'tie_cmsPositionsOf', 'tie_bloomIndexInt', 'C15_bloom_size', 'C15_cms_cols', 'C15_cms_rows', 'C15_cubic_term_exact', 'C15_probes_scheme', 'C15_cuckoo_fpl_counterexample',
                              'C15_cms_eps_delta_ideal', 'C15_cms_eps_delta_ideal_count'],
        'suites': ['sizing', 'redisconc'],
        'level': 'other',
        'explanation': 'PARTIAL by nature: the claim is statistical and about concrete hash functions. Proved in Lean (Mathlib reals): the sizing formulas give m >= n ln(1/p)/ln^2 2, e/cols <= eps, e^-rows <= delta; the probe sequences are (enhanced) double hashing with an exact cubic term; the cuckoo sizing is refuted (fingerprint length in bytes used as decimal digits, finding D22). '
                       'Props/C15Prob: the Count-Min (eps, delta) clause is PROVED for ideal hashing - for the sketch the constructor builds (rows = ceil(ln 1/delta), cols = ceil(e/eps)), any history and any element, the fraction of the hash family (every row drawn uniformly and independently from all functions E -> Fin cols) for which Count exceeds the true count by more than eps*N is at most delta (C15_cms_eps_delta_ideal, by counting: cell invariant of C03, Markov by double counting, product set, (1/e)^rows <= delta). The concrete double-hashing scheme of the code is not covered by it. '
                       'Props/C15Bloom: the Bloom clause for ideal hashing, by counting - for m bits, k probes, any inserted list S and y not in S, the number of hash-family members (all functions E -> Fin k -> Fin m) reporting y present times m^k is at most (k|S|)^k times the family size (C15_bloom_fp_union_bound; exact identity C15_bloom_fp_exact_sum in terms of the occupancy); with the constructor sizing this is (ln 2 + n/m)^k, about p^0.53: a real but LOOSE guarantee, the advertised p itself is not proved. '
                       'Suite `sizing`: every from-error-budget constructor\'s dimensions against the transcribed formulas (exact mode, IEEE double), and a statistical test of observed false-positive / over-estimate frequencies at design load against the budget (slack factor 1.5 + 6 sigma, so an unchanged tree does not alarm) - that part is testing, not proof.',
        'assumptions': ['Bloom: only the union bound (k n / m)^k is proved for ideal hashing, the classical (1 - e^(-kn/m))^k estimate is cited, not proved; the Count-Min analysis is proved for ideal hashing only; metro hash + double hashing is measured', 'float rounding of the sizing formulas (checked on a grid with a 1e-12 relative tolerance for libm differences)'],
        'technique': 'Lean 4 theorems about the sizing arithmetic + exact-mode correspondence of constructor dimensions + statistical test (one-sided bound) of the observed error frequencies',
    },
    'C16': {
        'lean_modules': ['C16', 'C16Merge', 'C16Cond'],
        'required_theorems': ['C16_cuckoo_disjoint_buckets', 'C16_cuckoo_room_for_all', 'C16_cuckoo_room_needed', 'C16_cuckoo_shared_bucket_order', 'C16_topk_single_writer', 'C16_topk_two_refreshers', 'C16_topk_reader_sees_k_plus_one', 'C16_topk_refresh_same_member', 'C16_bloom', 'C16_cms', 'C16_hll', 'C16_bloom_not_lost', 'C16_cuckoo_counterexample', 'C16_topk_counterexample',
                              'C16_cms_with_merge', 'C16_hll_with_merge', 'C16_cms_merge_not_lost', 'C16_cms_nonatomic_merge_loses_update'],
        'suites': ['redisconc'],
        'level': 'proof',
        'explanation': 'Lean: at Redis-command granularity a Bloom insert is k single-bit steps and a Count-Min / HyperLogLog update is one script step; these steps commute (and are idempotent for bits), so EVERY interleaving of any number of clients ends in the state of the sequential application in any order. '
                       'Props/C16Merge: the same with whole-Merge steps in the alphabet (Count-Min cell-wise sum, HyperLogLog register-wise max, the source being a value): any interleaving of updates and merges = sequential application, every cell = initial + updates that hit it + source cells; a client-side read/add/write-back merge is NOT such a step and loses an update (counterexample by decide). '
                       'For cuckoo and Top-K the multi-command programs are modelled and an interleaving that loses an acknowledged insert / empties the tracked set is exhibited by `decide` (finding D21). '
                       'Suite `redisconc`: a go-redis hook (build tag verif) records the command trace of each update (must be SETBITs only / exactly one script) and a seeded scheduler interleaves 2-4 clients command by command (shared and re-attached handles); final state vs sequential application; the two counterexample schedules are replayed on the implementation on every run.',
        'assumptions': ['Redis executes each command and each Lua script atomically', 'connection-pool ordering and network faults are not modelled',
                        'goroutines sharing one CountMinSketchRedis handle race on the handle-local allSum field, which no query reads (recorded, not a property violation)'],
    },
}

# properties not (yet) claimed: reason shown in MANIFEST.not_applicable
NOT_APPLICABLE = {}

# commits in /repo that add build-tag-guarded hooks
HOOK_COMMITS = ['bbcd405']
