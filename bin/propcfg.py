"""Per-property configuration of /verif/bin/check: Lean modules holding the theorems,
correspondence suites (harness suite names), level, trusted base, assumptions."""

TRUSTED_COMMON = [
    "Lean 4.33.0 kernel (lake build; thorough tier: leanchecker re-check of the property modules)",
    "axioms allowed per theorem: propext, Classical.choice, Quot.sound (audited by #print axioms on every run); no sorry/admit/native_decide/bv_decide/own axioms",
    "the hand-written Lean model is tied to /repo by the correspondence suites of the Go harness (differential testing on every run, bounded by the generators) - it is modelled, not verified",
    "harness canonicalisation (decoding of Export documents into abstract states), go-redis, miniredis+gopher-lua standing in for Redis",
]

PROPS = {
    'C01': {
        'lean_modules': ['C01'],
        'required_theorems': ['C01_no_false_negative', 'C01_empty_absent', 'C01_probe_in_range', 'C01_no_false_negative_concrete'],
        'suites': ['bloom'],
        'level': 'proof',
        'explanation': 'Theorems C01_* (Lean 4) over the bit-array model for an arbitrary in-range probe function and every history; '
                       'suite `bloom` checks on every run that each observed Insert/Lookup of both backends is the model transition '
                       '(abstract mode: probe sets learned from a fresh filter) and that getIndex is the transcribed formula (exact mode).',
        'assumptions': ['hash (metro.Hash128) is a function of the element bytes only',
                        'numHashes < 2^17 so that the float64 cubic term of getIndex is exact',
                        'bits-and-blooms/bitset Set/Test and Redis SETBIT/GETBIT implement a bit array'],
        'trusted': [],
    },
}

# properties not (yet) claimed: reason shown in MANIFEST.not_applicable
NOT_APPLICABLE = {}

# commits in /repo that add build-tag-guarded hooks
HOOK_COMMITS = ['bbcd405']
