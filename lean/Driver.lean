/-
  gsdriver — line protocol between the Go harness and the Lean model.
  One observed transition / function application of the IMPLEMENTATION per input line; the
  driver evaluates the MODEL on the same pre-state and arguments and answers
      ok                      the model produces exactly the observed post-state / result
      mismatch <what>         it does not (payload: what the model computed)
      bad-line <why>          the line could not be parsed (counts as a failure of the harness)
  Tokens are separated by single spaces.  Encodings:
      nat                     decimal
      nat list                `-` (empty) or `1,2,3`
      matrix                  `-` or rows separated by `;`
      string list             `-` (empty) or items separated by `,`, `_` = empty string
      bytes                   `-` (empty) or lowercase hex
-/
import Gostatix.Model.Bloom
import Gostatix.Model.CMS
import Gostatix.Model.HLL
import Gostatix.Model.Cuckoo
import Gostatix.Model.TopK
import Gostatix.Model.Codec
import Gostatix.Model.Redis
import Gostatix.Model.Equals
import Gostatix.Model.JsonDriver
import Gostatix.Model.RedisDriver
import Gostatix.Model.LuaDriver
open Gostatix

abbrev P := Except String

def pNat (s : String) : P Nat :=
  match s.toNat? with
  | some n => pure n
  | none => throw s!"nat:{s}"

def pBool (s : String) : P Bool :=
  if s == "1" then pure true else if s == "0" then pure false else throw s!"bool:{s}"

def pNatList (s : String) : P (List Nat) :=
  if s == "-" then pure [] else (s.splitOn ",").mapM pNat

def pMatrix (s : String) : P (List (List Nat)) :=
  if s == "-" then pure [] else (s.splitOn ";").mapM pNatList

def pStrList (s : String) : P (List String) :=
  if s == "-" then pure [] else pure ((s.splitOn ",").map (fun t => if t == "_" then "" else t))

def hexVal (c : Char) : Option Nat :=
  if '0' ≤ c ∧ c ≤ '9' then some (c.toNat - '0'.toNat)
  else if 'a' ≤ c ∧ c ≤ 'f' then some (c.toNat - 'a'.toNat + 10) else none

partial def pHexAux : List Char → List UInt8 → P (List UInt8)
  | [], acc => pure acc.reverse
  | [_], _ => throw "hex:odd"
  | a :: b :: rest, acc =>
    match hexVal a, hexVal b with
    | some x, some y => pHexAux rest (UInt8.ofNat (x * 16 + y) :: acc)
    | _, _ => throw "hex:char"

def pHex (s : String) : P (List UInt8) := if s == "-" then pure [] else pHexAux s.toList []

def hexDigit (n : Nat) : Char := if n < 10 then Char.ofNat (n + 48) else Char.ofNat (n - 10 + 97)
def toHex (bs : List UInt8) : String :=
  if bs.isEmpty then "-" else
  String.ofList (bs.foldr (fun b acc => hexDigit (b.toNat / 16) :: hexDigit (b.toNat % 16) :: acc) [])

def showNatList (l : List Nat) : String := if l.isEmpty then "-" else ",".intercalate (l.map toString)
def showMatrix (m : List (List Nat)) : String := if m.isEmpty then "-" else ";".intercalate (m.map showNatList)
def showStrList (l : List String) : String :=
  if l.isEmpty then "-" else ",".intercalate (l.map (fun s => if s.isEmpty then "_" else s))

def verdict (same : Bool) (what : String) : String := if same then "ok" else s!"mismatch {what}"

/-! ### bloom -/

def bitsOf (size : Nat) (set : List Nat) : List Bool := (List.range size).map (fun i => set.contains i)
def setOf (bits : List Bool) : List Nat := (List.range bits.length).filter (fun i => bits.getD i false)

/-! ### cuckoo text format:  buckets `;`-separated, each `size:len:e1,e2,..` -/

def pBucketMem (s : String) : P (BucketMem String) := do
  match s.splitOn ":" with
  | [sz, ln, es] => pure ⟨← pNat sz, ← pStrList es, ← pNat ln⟩
  | _ => throw s!"bucket:{s}"
def pBucketRedis (s : String) : P (BucketRedis String) := do
  match s.splitOn ":" with
  | [sz, ln, es] => pure ⟨← pNat sz, ← pStrList es, ← pNat ln⟩
  | _ => throw s!"bucket:{s}"
def pBuckets {B} (pb : String → P B) (s : String) : P (List B) :=
  if s == "-" then pure [] else (s.splitOn ";").mapM pb
def showBucketMem (b : BucketMem String) : String := s!"{b.size}:{b.length}:{showStrList b.elements}"
def showBucketRedis (b : BucketRedis String) : String := s!"{b.size}:{b.len}:{showStrList b.list}"
def showBuckets {B} (f : B → String) (l : List B) : String := if l.isEmpty then "-" else ";".intercalate (l.map f)

def cuckooStep {B} [Inhabited B] [DecidableEq B] (o : BucketOps B String) (pb : String → P B) (sb : B → String)
    (args : List String) : P String := do
  match args with
  | "insert" :: n :: b :: fpl :: retries :: len :: bks :: data :: destr :: side :: slots :: res :: plen :: pbks :: [] =>
    let n ← pNat n
    let c : Cuckoo B := ⟨n, ← pNat b, ← pNat fpl, ← pNat retries, ← pBuckets pb bks, ← pNat len⟩
    let (fp, i1, i2) := Cuckoo.positions n c.fpl (← pHex data)
    let r := Cuckoo.insert o (Cuckoo.altOf Cuckoo.hashStr n) c fp i1 i2 (← pBool destr) (← pBool side) (← pNatList slots)
    let (tag, c') := match r with | .ok c' => ("ok", c') | .full c' => ("full", c')
    let same := tag == res && c'.length == (← pNat plen) && c'.buckets == (← pBuckets pb pbks)
    pure (verdict same s!"{tag} {c'.length} {showBuckets sb c'.buckets} fp={fp} i1={i1} i2={i2}")
  | "lookup" :: n :: fpl :: bks :: data :: res :: [] =>
    let n ← pNat n
    let c : Cuckoo B := ⟨n, 0, ← pNat fpl, 0, ← pBuckets pb bks, 0⟩
    let (fp, i1, i2) := Cuckoo.positions n c.fpl (← pHex data)
    let r := Cuckoo.lookup o c fp i1 i2
    pure (verdict (r == (← pBool res)) s!"{r} fp={fp} i1={i1} i2={i2}")
  | "remove" :: n :: fpl :: len :: bks :: data :: res :: plen :: pbks :: [] =>
    let n ← pNat n
    let c : Cuckoo B := ⟨n, 0, ← pNat fpl, 0, ← pBuckets pb bks, ← pNat len⟩
    let (fp, i1, i2) := Cuckoo.positions n c.fpl (← pHex data)
    let (c', r) := Cuckoo.remove o c fp i1 i2
    let same := r == (← pBool res) && c'.length == (← pNat plen) && c'.buckets == (← pBuckets pb pbks)
    pure (verdict same s!"{r} {c'.length} {showBuckets sb c'.buckets} fp={fp} i1={i1} i2={i2}")
  | _ => throw "cuckoo:args"

/-! ### heap text format: `-` or `name:freq,name:freq` (names hex-free ascii without `:`/`,`) -/

def pHElem (s : String) : P HElem := do
  match s.splitOn ":" with
  | [v, f] => pure (v, ← pNat f)
  | _ => throw s!"helem:{s}"
def pHeap (s : String) : P (List HElem) := if s == "-" then pure [] else (s.splitOn ",").mapM pHElem
def showHeap (l : List HElem) : String :=
  if l.isEmpty then "-" else ",".intercalate (l.map (fun e => s!"{e.1}:{e.2}"))

/-! ### HLL estimate in IEEE double (same operations, same order as the Go code) -/

def hllAlpha (m : Nat) : Float :=
  if m == 16 then 0.673 else if m == 32 then 0.697 else if m == 64 then 0.709
  else 0.7213 / (1.0 + 1.079 / m.toFloat)

def hllEstimate (m : Nat) (bias : Float) (regs : List Nat) (corr round : Bool) : Nat :=
  let hm := regs.foldl (fun acc r => acc + Float.pow 2.0 (-(r.toFloat))) 0.0
  let est := (bias * Float.pow m.toFloat 2.0) / hm
  let two32 := Float.pow 2.0 32.0
  let est := if est > two32 / 30.0 && corr then -two32 * Float.log (1.0 - est / two32) else est
  let est := if round then Float.round est else est
  est.toUInt64.toNat

/-! ### images for the codecs -/

def pBucketImg (s : String) : P Codec.BucketImg := do
  -- `size:length:hex,hex,..` (`_` = empty string)
  match s.splitOn ":" with
  | [sz, ln, es] =>
    let es ← if es == "-" then pure [] else (es.splitOn ",").mapM (fun t => if t == "_" then pure [] else pHex t)
    pure ⟨← pNat sz, ← pNat ln, es⟩
  | _ => throw s!"bucketimg:{s}"

def showBucketImg (b : Codec.BucketImg) : String :=
  let es := if b.elements.isEmpty then "-" else ",".intercalate (b.elements.map (fun e => if e.isEmpty then "_" else toHex e))
  s!"{b.size}:{b.length}:{es}"

def pHeapImg (s : String) : P (List (Bytes × Nat)) :=
  if s == "-" then pure [] else (s.splitOn ",").mapM (fun t => do
    match t.splitOn ":" with
    | [v, f] => pure ((← if v == "_" then pure [] else pHex v), ← pNat f)
    | _ => throw s!"heapimg:{t}")
def showHeapImg (l : List (Bytes × Nat)) : String :=
  if l.isEmpty then "-" else ",".intercalate (l.map (fun e => s!"{if e.1.isEmpty then "_" else toHex e.1}:{e.2}"))

def showBloomImg (s : Codec.BloomImg) : String := s!"{s.size} {s.k} {s.bsSize} {s.bsLen} {showNatList s.words}"
def showCMSImg (s : Codec.CMSImg) : String := s!"{s.rows} {s.cols} {s.allSum} {showMatrix s.matrix}"
def showHLLImg (s : Codec.HLLImg) : String := s!"{s.m} {s.nbp} {s.bias} {toHex s.regs}"
def showCuckooImg (s : Codec.CuckooImg) : String :=
  s!"{s.n} {s.bsize} {s.fpl} {s.length} {s.retries} {if s.buckets.isEmpty then "-" else ";".intercalate (s.buckets.map showBucketImg)}"
def showTopKImg (s : Codec.TopKImg) : String :=
  s!"{s.k} {s.errorRate} {s.accuracy} {showCMSImg s.sketch} {showHeapImg s.heap}"

/-- decode `hex`; compare with the observed outcome: `err` or `ok <consumed> <image…>` -/
def decCheck {α} (d : Dec α) (sh : α → String) (hex : String) (obs : List String) : P String := do
  let bs ← pHex hex
  let got := match d.run bs with
    | none => "err"
    | some (a, rest) => s!"ok {bs.length - rest.length} {sh a}"
  pure (verdict (got == " ".intercalate obs) got)

/-! ### Equals (model of Gostatix/Model/Equals.lean): result `1`, `0` or `panic` -/

def showEq : Option Bool → String
  | some true => "1" | some false => "0" | none => "panic"

def pRBucket (s : String) : P Equals.RBucket := do
  match s.splitOn ":" with
  | [sz, _ln, es] => pure ⟨← pNat sz, ← pStrList es⟩
  | _ => throw s!"rbucket:{s}"

def pCMSOpt (rows cols m : String) : P (Option CMS) := do
  if rows == "nil" then pure none else pure (some ⟨← pNat rows, ← pNat cols, ← pMatrix m⟩)

/-! ### sizing formulas of internal/util/base.go and the constructors, evaluated in IEEE double.
    Go's math.Log / math.Log2 and the C library's may differ in the last bit, so a result is accepted
    when it is produced with the real-valued argument perturbed by at most 1e-12 relatively. -/

def ceilNat (x : Float) : Nat := x.ceil.toUInt64.toNat
def near (f : Float → Nat) (obs : Nat) : Bool :=
  f 1.0 == obs || f (1.0 - 1e-12) == obs || f (1.0 + 1e-12) == obs

def bloomSizeF (n : Nat) (p : Float) (sc : Float) : Nat :=
  ceilNat (-((n.toFloat * Float.log p) / (Float.pow (Float.log 2.0) 2.0)) * sc)
def bloomKF (size n : Nat) (sc : Float) : Nat := ceilNat ((size / n).toFloat * Float.log 2.0 * sc)
def cmsColsF (eps : Float) (sc : Float) : Nat := ceilNat (Float.exp 1.0 / eps * sc)
def cmsRowsF (delta : Float) (sc : Float) : Nat := ceilNat (Float.log (1.0 / delta) * sc)
def cuckooFplF (size : Nat) (eps : Float) (sc : Float) : Nat :=
  let v := Float.ceil ((Float.log2 (1.0 / eps) + Float.log2 ((2 * size).toFloat)) * sc)
  ceilNat (v / 8.0)
def cuckooCapF (size b : Nat) (sc : Float) : Nat := ceilNat (size.toFloat * 0.955 / b.toFloat * sc)

def handleSize (toks : List String) : P String := do
  match toks with
  | ["size.bloom", n, pbits, size, k] =>
    let n ← pNat n; let p := Float.ofBits (← pNat pbits).toUInt64
    let size ← pNat size; let k ← pNat k
    let okS := near (bloomSizeF n p) size
    let okK := near (bloomKF size n) k
    pure (verdict (okS && okK) s!"size={bloomSizeF n p 1.0} k={bloomKF size n 1.0}")
  | ["size.cms", ebits, dbits, rows, cols] =>
    let e := Float.ofBits (← pNat ebits).toUInt64; let d := Float.ofBits (← pNat dbits).toUInt64
    let ok := near (cmsColsF e) (← pNat cols) && near (cmsRowsF d) (← pNat rows)
    pure (verdict ok s!"rows={cmsRowsF d 1.0} cols={cmsColsF e 1.0}")
  | ["size.cuckoo", size, b, ebits, n, fpl] =>
    let size ← pNat size; let b ← pNat b; let e := Float.ofBits (← pNat ebits).toUInt64
    let ok := near (cuckooCapF size b) (← pNat n) && near (cuckooFplF size e) (← pNat fpl)
    pure (verdict ok s!"n={cuckooCapF size b 1.0} fpl={cuckooFplF size e 1.0}")
  | _ => throw "size:args"

def handleEq (toks : List String) : P String := do
  match toks with
  | ["eq.bloom.mem", s1, k1, l1, w1, s2, k2, l2, w2, res] =>
    let a : Equals.BloomMem := ⟨← pNat s1, ← pNat k1, ← pNat l1, ← pNatList w1⟩
    let b : Equals.BloomMem := ⟨← pNat s2, ← pNat k2, ← pNat l2, ← pNatList w2⟩
    let r := showEq (a.equals b); pure (verdict (r == res) r)
  | ["eq.bloom.redis", s1, k1, h1, s2, k2, h2, res] =>
    let a : Equals.BloomRedis := ⟨← pNat s1, ← pNat k1, some (← pHex h1)⟩
    let b : Equals.BloomRedis := ⟨← pNat s2, ← pNat k2, some (← pHex h2)⟩
    let r := showEq (a.equals b); pure (verdict (r == res) r)
  | ["eq.cuckoo.mem", n1, b1, f1, r1, l1, bk1, n2, b2, f2, r2, l2, bk2, res] =>
    let a : Equals.CuckooMem := ⟨← pNat n1, ← pNat b1, ← pNat f1, ← pNat r1, ← pBuckets pBucketMem bk1, ← pNat l1⟩
    let b : Equals.CuckooMem := ⟨← pNat n2, ← pNat b2, ← pNat f2, ← pNat r2, ← pBuckets pBucketMem bk2, ← pNat l2⟩
    let r := showEq (Equals.CuckooMem.equals a b); pure (verdict (r == res) r)
  | ["eq.cuckoo.redis", n1, b1, f1, r1, l1, bk1, n2, b2, f2, r2, l2, bk2, res] =>
    let a : Equals.CuckooRedis := ⟨← pNat n1, ← pNat b1, ← pNat f1, ← pNat r1, ← pNat l1, ← pBuckets pRBucket bk1⟩
    let b : Equals.CuckooRedis := ⟨← pNat n2, ← pNat b2, ← pNat f2, ← pNat r2, ← pNat l2, ← pBuckets pRBucket bk2⟩
    let r := showEq (a.equals b); pure (verdict (r == res) r)
  | ["eq.cms.mem", r1, c1, m1, r2, c2, m2, res] =>
    let r := showEq (Equals.CMSMem.equals ⟨← pNat r1, ← pNat c1, ← pMatrix m1⟩ ⟨← pNat r2, ← pNat c2, ← pMatrix m2⟩)
    pure (verdict (r == res) r)
  | ["eq.cms.redis", r1, c1, m1, r2, c2, m2, res] =>
    let r := showEq (Equals.CMSRedis.equals ⟨← pNat r1, ← pNat c1, ← pMatrix m1⟩ ⟨← pNat r2, ← pNat c2, ← pMatrix m2⟩)
    pure (verdict (r == res) r)
  | ["eq.hll.mem", m1, r1, m2, r2, res] =>
    let r := showEq (Equals.HLLMem.equals ⟨← pNat m1, ← pNatList r1⟩ ⟨← pNat m2, ← pNatList r2⟩)
    pure (verdict (r == res) r)
  | ["eq.hll.redis", m1, r1, m2, r2, res] =>
    let r := showEq (Equals.HLLRedis.equals ⟨← pNat m1, ← pNatList r1⟩ ⟨← pNat m2, ← pNatList r2⟩)
    pure (verdict (r == res) r)
  | ["eq.topk.mem", k1, e1, a1, r1, c1, m1, h1, k2, e2, a2, r2, c2, m2, h2, res] =>
    let a : Equals.TopKMem := ⟨← pNat k1, ← pNat e1, ← pNat a1, ← pCMSOpt r1 c1 m1, ← pHeap h1⟩
    let b : Equals.TopKMem := ⟨← pNat k2, ← pNat e2, ← pNat a2, ← pCMSOpt r2 c2 m2, ← pHeap h2⟩
    let r := showEq (a.equals b); pure (verdict (r == res) r)
  | ["eq.topk.redis", k1, e1, a1, r1, c1, m1, h1, k2, e2, a2, r2, c2, m2, h2, res] =>
    let a : Equals.TopKRedis := ⟨← pNat k1, ← pNat e1, ← pNat a1, ← pCMSOpt r1 c1 m1, ← pHeap h1⟩
    let b : Equals.TopKRedis := ⟨← pNat k2, ← pNat e2, ← pNat a2, ← pCMSOpt r2 c2 m2, ← pHeap h2⟩
    let r := showEq (a.equals b); pure (verdict (r == res) r)
  | _ => throw "eq:args"

def handle (toks : List String) : P String := do
  match toks with
  -- Bloom ---------------------------------------------------------------------------------
  | ["bloom.new", size, k, osize, ok, obits] =>
    let b := Bloom.new (← pNat size) (← pNat k)
    pure (verdict (b.size == (← pNat osize) && b.k == (← pNat ok) && setOf b.bits == (← pNatList obits)) s!"{b.size} {b.k}")
  | ["bloom.insert", size, pre, probes, post] =>
    let size ← pNat size
    let b : Bloom := ⟨size, 0, bitsOf size (← pNatList pre)⟩
    let b' := b.insert (← pNatList probes)
    pure (verdict (setOf b'.bits == (← pNatList post)) (showNatList (setOf b'.bits)))
  | ["bloom.lookup", size, bits, probes, res] =>
    let size ← pNat size
    let b : Bloom := ⟨size, 0, bitsOf size (← pNatList bits)⟩
    let r := b.lookup (← pNatList probes)
    pure (verdict (r == (← pBool res)) s!"{r}")
  | ["bloom.probes", h1, h2, k, size, probes] =>
    let ps := Bloom.probesOf (← pNat h1) (← pNat h2) (← pNat k) (← pNat size)
    let ps := setOf (bitsOf (← pNat size) ps)   -- as a sorted set
    pure (verdict (ps == (← pNatList probes)) (showNatList ps))
  -- Count-Min -----------------------------------------------------------------------------
  | ["cms.new", rows, cols, m] =>
    let s := CMS.new (← pNat rows) (← pNat cols)
    pure (verdict (s.m == (← pMatrix m)) (showMatrix s.m))
  | ["cms.update", pre, pos, c, post] =>
    let s : CMS := ⟨0, 0, ← pMatrix pre⟩
    let s' := s.update (← pNatList pos) (← pNat c)
    pure (verdict (s'.m == (← pMatrix post)) (showMatrix s'.m))
  | ["cms.count", m, pos, res] =>
    let s : CMS := ⟨0, 0, ← pMatrix m⟩
    let r := s.count (← pNatList pos)
    pure (verdict (r == (← pNat res)) s!"{r}")
  | ["cms.positions", h1, h2, rows, cols, pos] =>
    let ps := CMS.positionsOf (← pNat h1) (← pNat h2) (← pNat rows) (← pNat cols)
    pure (verdict (ps == (← pNatList pos)) (showNatList ps))
  | ["cms.merge", r1, c1, m1, r2, c2, m2, res] =>
    let a : CMS := ⟨← pNat r1, ← pNat c1, ← pMatrix m1⟩
    let b : CMS := ⟨← pNat r2, ← pNat c2, ← pMatrix m2⟩
    let got := match CMS.merge a b with | .ok s => showMatrix s.m | .err => "err"
    pure (verdict (got == res) got)
  | ["cms.equals", r1, c1, m1, r2, c2, m2, res] =>
    let a : CMS := ⟨← pNat r1, ← pNat c1, ← pMatrix m1⟩
    let b : CMS := ⟨← pNat r2, ← pNat c2, ← pMatrix m2⟩
    let r := CMS.equals a b
    pure (verdict (r == (← pBool res)) s!"{r}")
  -- HyperLogLog ---------------------------------------------------------------------------
  | ["hll.update", m, regs, idx, val, res] =>
    let s : HLL := ⟨← pNat m, ← pNatList regs⟩
    let got := match s.update (← pNat idx) (← pNat val) with
      | .ok s' => showNatList s'.regs | .err => "err" | .panic => "panic"
    pure (verdict (got == res) got)
  | ["hll.indexval", hash, p, idx, val] =>
    let h ← pNat hash; let p ← pNat p
    let i := HLL.indexOf h p; let v := HLL.valueOf h p
    pure (verdict (i == (← pNat idx) && v == (← pNat val)) s!"{i} {v}")
  | ["hll.merge", m1, r1, m2, r2, res] =>
    let a : HLL := ⟨← pNat m1, ← pNatList r1⟩
    let b : HLL := ⟨← pNat m2, ← pNatList r2⟩
    let got := match HLL.merge a b with | .ok s => showNatList s.regs | .err => "err" | .panic => "panic"
    pure (verdict (got == res) got)
  | ["hll.equals", m1, r1, m2, r2, res] =>
    let a : HLL := ⟨← pNat m1, ← pNatList r1⟩
    let b : HLL := ⟨← pNat m2, ← pNatList r2⟩
    let r := HLL.equals a b
    pure (verdict (r == (← pBool res)) s!"{r}")
  | ["hll.count", m, regs, corr, round, res] =>
    let m ← pNat m
    let r := hllEstimate m (hllAlpha m) (← pNatList regs) (← pBool corr) (← pBool round)
    pure (verdict (r == (← pNat res)) s!"{r}")
  -- Cuckoo --------------------------------------------------------------------------------
  | "cuckoo.mem" :: rest => cuckooStep (BucketMem.ops "") pBucketMem showBucketMem rest
  | "cuckoo.redis" :: rest => cuckooStep (BucketRedis.ops "") pBucketRedis showBucketRedis rest
  | ["cuckoo.positions", n, fpl, data, fp, i1, i2] =>
    let (f, a, b) := Cuckoo.positions (← pNat n) (← pNat fpl) (← pHex data)
    let fp := if fp == "_" then "" else fp
    pure (verdict (f == fp && a == (← pNat i1) && b == (← pNat i2)) s!"{f} {a} {b}")
  -- Top-K ---------------------------------------------------------------------------------
  | ["topk.admit.mem", k, heap, x, f, post] =>
    let h := TopK.offer (← pNat k) (← pHeap heap).toArray x (← pNat f)
    pure (verdict (h.toList == (← pHeap post)) (showHeap h.toList))
  | ["topk.admit.redis", k, z, x, f, post] =>
    let h := TopK.offerRedis (← pNat k) (← pHeap z) x (← pNat f)
    pure (verdict (h == (← pHeap post)) (showHeap h))
  | ["topk.values", heap, vals] =>
    let v := TopK.values (← pHeap heap)
    pure (verdict (v == (← pHeap vals)) (showHeap v))
  -- binary codecs: encoders ---------------------------------------------------------------
  | ["enc.bloom", size, k, bsSize, bsLen, words, cnt, hex] =>
    let s : Codec.BloomImg := ⟨← pNat size, ← pNat k, ← pNat bsSize, ← pNat bsLen, ← pNatList words⟩
    let e := Codec.encBloom s
    pure (verdict (toHex e == hex && Codec.countBloom s == (← pNat cnt)) s!"{Codec.countBloom s} {toHex e}")
  | ["enc.cms", rows, cols, allSum, m, cnt, hex] =>
    let s : Codec.CMSImg := ⟨← pNat rows, ← pNat cols, ← pNat allSum, ← pMatrix m⟩
    let e := Codec.encCMS s
    pure (verdict (toHex e == hex && Codec.countCMS s == (← pNat cnt)) s!"{Codec.countCMS s} {toHex e}")
  | ["enc.hll", m, nbp, bias, regs, cnt, hex] =>
    let s : Codec.HLLImg := ⟨← pNat m, ← pNat nbp, ← pNat bias, ← pHex regs⟩
    let e := Codec.encHLL s
    pure (verdict (toHex e == hex && Codec.countHLL s == (← pNat cnt)) s!"{Codec.countHLL s} {toHex e}")
  | ["enc.cuckoo", n, b, fpl, len, retries, bks, cnt, hex] =>
    let bs ← if bks == "-" then pure [] else (bks.splitOn ";").mapM pBucketImg
    let s : Codec.CuckooImg := ⟨← pNat n, ← pNat b, ← pNat fpl, ← pNat len, ← pNat retries, bs⟩
    let e := Codec.encCuckoo s
    pure (verdict (toHex e == hex && Codec.countCuckoo s == (← pNat cnt)) s!"{Codec.countCuckoo s} {toHex e}")
  | ["enc.topk", k, er, acc, rows, cols, allSum, m, heap, cnt, hex] =>
    let sk : Codec.CMSImg := ⟨← pNat rows, ← pNat cols, ← pNat allSum, ← pMatrix m⟩
    let s : Codec.TopKImg := ⟨← pNat k, ← pNat er, ← pNat acc, sk, ← pHeapImg heap⟩
    let e := Codec.encTopK s
    pure (verdict (toHex e == hex && Codec.countTopK s == (← pNat cnt)) s!"{Codec.countTopK s} {toHex e}")
  -- binary codecs: decoders (any byte string, incl. truncated ones) --------------------------
  | "dec.bloom" :: hex :: obs => decCheck Codec.decBloom showBloomImg hex obs
  | "dec.cms" :: hex :: obs => decCheck Codec.decCMS showCMSImg hex obs
  | "dec.hll" :: hex :: obs => decCheck Codec.decHLL showHLLImg hex obs
  | "dec.cuckoo" :: hex :: obs => decCheck Codec.decCuckoo showCuckooImg hex obs
  | "dec.topk" :: hex :: obs => decCheck Codec.decTopK showTopKImg hex obs
  -- Redis-level models -----------------------------------------------------------------------
  | ["redis.keysof", kind, params, bases, changed] =>
    match Redis.keysOfKind kind (← pNatList params) (← pStrList bases) with
    | none => throw s!"keysof:{kind}"
    | some ks =>
      let bad := (← pStrList changed).filter (fun k => !ks.contains k)
      pure (verdict bad.isEmpty s!"not-in-keysOf {showStrList bad}")
  | "redis" :: rest => Redis.handle rest
  | op :: rest =>
    if op.startsWith "eq." then handleEq (op :: rest)
    else if op.startsWith "size." then handleSize (op :: rest)
    else if op.startsWith "json." then Gostatix.Json.handle (op :: rest)
    else if op.startsWith "rt." then Redis.handleTie (op :: rest)
    else if op.startsWith "lua." then Gostatix.Lua.Driver.handle (op :: rest)
    else throw s!"unknown-op:{op}"
  | [] => throw "empty"

partial def loop (h : IO.FS.Stream) (out : IO.FS.Stream) : IO Unit := do
  let line ← h.getLine
  if line.isEmpty then return ()
  let l := (line.trimAsciiEnd).toString
  let ans := match handle (l.splitOn " ") with
    | .ok s => s
    | .error e => s!"bad-line {e}"
  out.putStrLn ans
  loop h out

def main : IO Unit := do
  let out ← IO.getStdout
  loop (← IO.getStdin) out
  out.flush
