-- Root of the `Gostatix` library: executable models, proofs and property theorems.
import Gostatix.Model.Basic
import Gostatix.Model.Bloom
import Gostatix.Props.C01
import Gostatix.Props.C11
import Gostatix.Props.C18
