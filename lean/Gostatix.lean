-- Root of the `Gostatix` library: executable models, proofs and property theorems.
import Gostatix.Model.Basic
import Gostatix.Model.Bloom
import Gostatix.Props.C01
import Gostatix.Props.C11
import Gostatix.Props.C18
import Gostatix.Props.C03
import Gostatix.Props.C06
import Gostatix.Props.C12
import Gostatix.Props.C17
import Gostatix.Props.C04
import Gostatix.Props.C07
import Gostatix.Props.C16
import Gostatix.Props.C02
import Gostatix.Props.C13
import Gostatix.Props.C14
