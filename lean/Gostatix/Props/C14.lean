/-
  C14 — a failed cuckoo insert: it is signalled only when no visited bucket had room, the
  non-destructive mode restores EXACTLY the initial state, the destructive mode displaces at
  most one previously stored fingerprint.
  In-memory filter (`BucketMem.ops emp`, namespace `Gostatix.Cuckoo.Mem`) and, at the end of the file,
  the Redis-backed filter (`BucketRedis.ops emp`, namespace `Gostatix.Cuckoo.Redis`); arbitrary
  fingerprint type `F` with empty value `emp`;
  the random choices (`side`, `slots`) and the alternate-bucket map `alt` are universally
  quantified.  Helper lemmas: `Gostatix/Proofs/Cuckoo*.lean` (generic in the bucket implementation).
-/
import Gostatix.Proofs.CuckooMem
import Gostatix.Proofs.CuckooRedis
namespace Gostatix.Cuckoo.Mem

section
variable {F : Type} [DecidableEq F] [Inhabited (BucketMem F)]

/-- **Rollback is exact.** A non-destructive insert that fails returns exactly the state it started
    from — for every state (well-formed or not), every `n`, every `alt`, every choice of `side` and
    `slots`.  (Replaying the log newest-first undoes the slot writes one by one.) -/
theorem C14_rollback_exact (emp : F) (alt : Nat → F → Nat) (c : Cuckoo (BucketMem F))
    (fp : F) (i1 i2 : Nat) (side : Bool) (slots : List Nat) (c' : Cuckoo (BucketMem F))
    (h : insert (BucketMem.ops emp) alt c fp i1 i2 false side slots = .full c') : c' = c :=
  insert_full_nondestructive (BucketMem.lawful emp) alt c fp i1 i2 side slots c' h

/-- `Insert` returns true only if a bucket that had room received one more fingerprint:
    exactly one bucket `j0`, free before, gains one occupied slot; no other bucket changes its
    occupancy; `length` and the number of stored fingerprints grow by one. -/
theorem C14_success_means_stored (emp : F) (alt : Nat → F → Nat) (c : Cuckoo (BucketMem F))
    (fp : F) (i1 i2 : Nat) (d side : Bool) (slots : List Nat) (c' : Cuckoo (BucketMem F))
    (hwf : WF emp c) (hAlt : ∀ j f, j < c.n → alt j f < c.n) (hb : 0 < c.bsize) (hfp : fp ≠ emp)
    (hi1 : i1 < c.n) (hi2 : i2 < c.n) (hsl : ∀ x ∈ slots, x < c.bsize)
    (h : insert (BucketMem.ops emp) alt c fp i1 i2 d side slots = .ok c') :
    c'.length = c.length + 1 ∧ stored emp c' = stored emp c + 1 ∧
    ∃ j0, j0 < c.n ∧ (bucketAt c.buckets j0).isFree = true ∧
      ∀ j, occ emp (bucketAt c'.buckets j).elements
        = occ emp (bucketAt c.buckets j).elements + (if j = j0 then 1 else 0) := by
  have sp := insert_ok_spec (BucketMem.lawful emp) alt c fp i1 i2 d side slots c'
    ((wf_iff emp c).mp hwf) hAlt hb hfp hi1 hi2 hsl h
  exact ⟨sp.length, by rw [stored_eq, stored_eq]; exact sp.tocc, sp.bucket⟩

/-- **Failure is signalled only when no visited bucket had room.** If `Insert` fails (either mode)
    then both candidate buckets were full, the eviction loop used all `retries` rounds, and every
    bucket it visited (`e.2.1`) as well as every bucket it tested for room (`alt e.2.1 e.1`, the
    alternate bucket of the displaced fingerprint `e.1`) was full. -/
theorem C14_failure_signalled (emp : F) (alt : Nat → F → Nat) (c : Cuckoo (BucketMem F))
    (fp : F) (i1 i2 : Nat) (d side : Bool) (slots : List Nat) (c' : Cuckoo (BucketMem F))
    (hwf : WF emp c) (hAlt : ∀ j f, j < c.n → alt j f < c.n) (hb : 0 < c.bsize) (hfp : fp ≠ emp)
    (hi1 : i1 < c.n) (hi2 : i2 < c.n) (hsl : ∀ x ∈ slots, x < c.bsize)
    (h : insert (BucketMem.ops emp) alt c fp i1 i2 d side slots = .full c') :
    (bucketAt c.buckets i1).isFree = false ∧ (bucketAt c.buckets i2).isFree = false ∧
    ∃ bs log, kick (BucketMem.ops emp) alt c.retries c.buckets (if side then i1 else i2) fp slots []
        = (bs, log, false) ∧ log.length = c.retries ∧
      ∀ e ∈ log, e.2.1 < c.n ∧ (bucketAt c.buckets e.2.1).isFree = false ∧
        (bucketAt c.buckets (alt e.2.1 e.1)).isFree = false := by
  have hw := (wf_iff emp c).mp hwf
  have sp := insert_full_spec (BucketMem.lawful emp) alt c fp i1 i2 d side slots c' hw hAlt hb hfp
    hi1 hi2 hsl h
  exact ⟨sp.full1, sp.full2,
    insert_full_log (BucketMem.lawful emp) alt c fp i1 i2 d side slots c' hw hAlt hb hfp hi1 hi2 hsl h⟩

/-- **Destructive failure displaces at most one stored entry.** The resulting filter is
    well-formed, `length`, the occupancy of every bucket and the number of stored fingerprints are
    unchanged, and the multiset of slot contents changes by `+ fp − y` for one `y` that was stored
    before (or `y = fp`, i.e. nothing changed as a multiset). -/
theorem C14_destructive_bound (emp : F) (alt : Nat → F → Nat) (c : Cuckoo (BucketMem F))
    (fp : F) (i1 i2 : Nat) (side : Bool) (slots : List Nat) (c' : Cuckoo (BucketMem F))
    (hwf : WF emp c) (hAlt : ∀ j f, j < c.n → alt j f < c.n) (hb : 0 < c.bsize) (hfp : fp ≠ emp)
    (hi1 : i1 < c.n) (hi2 : i2 < c.n) (hsl : ∀ x ∈ slots, x < c.bsize)
    (h : insert (BucketMem.ops emp) alt c fp i1 i2 true side slots = .full c') :
    WF emp c' ∧ c'.length = c.length ∧ stored emp c' = stored emp c ∧
    (∀ j, occ emp (bucketAt c'.buckets j).elements = occ emp (bucketAt c.buckets j).elements) ∧
    ∃ y, y ≠ emp ∧ (y = fp ∨ y ∈ allSlots c) ∧
      ∀ g, (allSlots c').count g + (if g = y then 1 else 0)
         = (allSlots c).count g + (if g = fp then 1 else 0) := by
  have sp := insert_full_spec (BucketMem.lawful emp) alt c fp i1 i2 true side slots c'
    ((wf_iff emp c).mp hwf) hAlt hb hfp hi1 hi2 hsl h
  refine ⟨(wf_iff emp c').mpr sp.wf, sp.length, by rw [stored_eq, stored_eq]; exact sp.tocc, sp.occB, ?_⟩
  obtain ⟨y, hy, hy2, hy3⟩ := sp.tcnt
  refine ⟨y, hy, ?_, ?_⟩
  · rcases hy2 with e | hpos
    · exact Or.inl e
    · right
      rw [← count_allSlots_eq] at hpos
      exact List.count_pos_iff.mp hpos
  · intro g
    have := hy3 g
    rw [← count_allSlots_eq, ← count_allSlots_eq, ind_eq_comm y g, ind_eq_comm fp g] at this
    exact this

end

/-! ### non-vacuity: `n = 2`, one slot per bucket, `alt j f = (j ^^^ f) % 2`, both buckets full -/

/-- buckets `[5]`, `[7]`; inserting `9` fails after 2 retries -/
def exFull : Cuckoo (BucketMem Nat) := ⟨2, 1, 0, 2, [⟨1, [5], 1⟩, ⟨1, [7], 1⟩], 2⟩

example : WF 0 exFull := by
  refine ⟨rfl, ?_, ?_⟩
  · intro b hb
    simp only [exFull, List.mem_cons, List.not_mem_nil, or_false] at hb
    rcases hb with rfl | rfl <;> decide
  · decide

/-- the non-destructive insert fails and returns the initial state -/
example : insert (BucketMem.ops 0) (fun j f => (j ^^^ f) % 2) exFull 9 0 1 false true [0, 0]
    = .full exFull := by decide

/-- the destructive insert fails, keeps `length = 2`, and has displaced the stored `7` by `9` -/
example : insert (BucketMem.ops 0) (fun j f => (j ^^^ f) % 2) exFull 9 0 1 true true [0, 0]
    = .full ⟨2, 1, 0, 2, [⟨1, [9], 1⟩, ⟨1, [5], 1⟩], 2⟩ := by decide

end Gostatix.Cuckoo.Mem

/-! ## the same theorems for the Redis-backed filter (`BucketRedis.ops emp`) -/
namespace Gostatix.Cuckoo.Redis

section
variable {F : Type} [DecidableEq F] [Inhabited (BucketRedis F)]

/-- **Rollback is exact.** A non-destructive insert that fails returns exactly the state it started
    from — for every state (well-formed or not), every `n`, every `alt`, every choice of `side` and
    `slots`.  (Replaying the log newest-first undoes the slot writes one by one.) -/
theorem C14_rollback_exact (emp : F) (alt : Nat → F → Nat) (c : Cuckoo (BucketRedis F))
    (fp : F) (i1 i2 : Nat) (side : Bool) (slots : List Nat) (c' : Cuckoo (BucketRedis F))
    (h : insert (BucketRedis.ops emp) alt c fp i1 i2 false side slots = .full c') : c' = c :=
  insert_full_nondestructive (BucketRedis.lawful emp) alt c fp i1 i2 side slots c' h

/-- `Insert` returns true only if a bucket that had room received one more fingerprint:
    exactly one bucket `j0`, free before, gains one occupied slot; no other bucket changes its
    occupancy; `length` and the number of stored fingerprints grow by one. -/
theorem C14_success_means_stored (emp : F) (alt : Nat → F → Nat) (c : Cuckoo (BucketRedis F))
    (fp : F) (i1 i2 : Nat) (d side : Bool) (slots : List Nat) (c' : Cuckoo (BucketRedis F))
    (hwf : WF emp c) (hAlt : ∀ j f, j < c.n → alt j f < c.n) (hb : 0 < c.bsize) (hfp : fp ≠ emp)
    (hi1 : i1 < c.n) (hi2 : i2 < c.n) (hsl : ∀ x ∈ slots, x < c.bsize)
    (h : insert (BucketRedis.ops emp) alt c fp i1 i2 d side slots = .ok c') :
    c'.length = c.length + 1 ∧ stored emp c' = stored emp c + 1 ∧
    ∃ j0, j0 < c.n ∧ (bucketAt c.buckets j0).isFree = true ∧
      ∀ j, occ emp (bucketAt c'.buckets j).list
        = occ emp (bucketAt c.buckets j).list + (if j = j0 then 1 else 0) := by
  have sp := insert_ok_spec (BucketRedis.lawful emp) alt c fp i1 i2 d side slots c'
    ((wf_iff emp c).mp hwf) hAlt hb hfp hi1 hi2 hsl h
  exact ⟨sp.length, by rw [stored_eq, stored_eq]; exact sp.tocc, sp.bucket⟩

/-- **Failure is signalled only when no visited bucket had room.** If `Insert` fails (either mode)
    then both candidate buckets were full, the eviction loop used all `retries` rounds, and every
    bucket it visited (`e.2.1`) as well as every bucket it tested for room (`alt e.2.1 e.1`, the
    alternate bucket of the displaced fingerprint `e.1`) was full. -/
theorem C14_failure_signalled (emp : F) (alt : Nat → F → Nat) (c : Cuckoo (BucketRedis F))
    (fp : F) (i1 i2 : Nat) (d side : Bool) (slots : List Nat) (c' : Cuckoo (BucketRedis F))
    (hwf : WF emp c) (hAlt : ∀ j f, j < c.n → alt j f < c.n) (hb : 0 < c.bsize) (hfp : fp ≠ emp)
    (hi1 : i1 < c.n) (hi2 : i2 < c.n) (hsl : ∀ x ∈ slots, x < c.bsize)
    (h : insert (BucketRedis.ops emp) alt c fp i1 i2 d side slots = .full c') :
    (bucketAt c.buckets i1).isFree = false ∧ (bucketAt c.buckets i2).isFree = false ∧
    ∃ bs log, kick (BucketRedis.ops emp) alt c.retries c.buckets (if side then i1 else i2) fp slots []
        = (bs, log, false) ∧ log.length = c.retries ∧
      ∀ e ∈ log, e.2.1 < c.n ∧ (bucketAt c.buckets e.2.1).isFree = false ∧
        (bucketAt c.buckets (alt e.2.1 e.1)).isFree = false := by
  have hw := (wf_iff emp c).mp hwf
  have sp := insert_full_spec (BucketRedis.lawful emp) alt c fp i1 i2 d side slots c' hw hAlt hb hfp
    hi1 hi2 hsl h
  exact ⟨sp.full1, sp.full2,
    insert_full_log (BucketRedis.lawful emp) alt c fp i1 i2 d side slots c' hw hAlt hb hfp hi1 hi2 hsl h⟩

/-- **Destructive failure displaces at most one stored entry.** The resulting filter is
    well-formed, `length`, the occupancy of every bucket and the number of stored fingerprints are
    unchanged, and the multiset of slot contents changes by `+ fp − y` for one `y` that was stored
    before (or `y = fp`, i.e. nothing changed as a multiset). -/
theorem C14_destructive_bound (emp : F) (alt : Nat → F → Nat) (c : Cuckoo (BucketRedis F))
    (fp : F) (i1 i2 : Nat) (side : Bool) (slots : List Nat) (c' : Cuckoo (BucketRedis F))
    (hwf : WF emp c) (hAlt : ∀ j f, j < c.n → alt j f < c.n) (hb : 0 < c.bsize) (hfp : fp ≠ emp)
    (hi1 : i1 < c.n) (hi2 : i2 < c.n) (hsl : ∀ x ∈ slots, x < c.bsize)
    (h : insert (BucketRedis.ops emp) alt c fp i1 i2 true side slots = .full c') :
    WF emp c' ∧ c'.length = c.length ∧ stored emp c' = stored emp c ∧
    (∀ j, occ emp (bucketAt c'.buckets j).list = occ emp (bucketAt c.buckets j).list) ∧
    ∃ y, y ≠ emp ∧ (y = fp ∨ y ∈ allSlots c) ∧
      ∀ g, (allSlots c').count g + (if g = y then 1 else 0)
         = (allSlots c).count g + (if g = fp then 1 else 0) := by
  have sp := insert_full_spec (BucketRedis.lawful emp) alt c fp i1 i2 true side slots c'
    ((wf_iff emp c).mp hwf) hAlt hb hfp hi1 hi2 hsl h
  refine ⟨(wf_iff emp c').mpr sp.wf, sp.length, by rw [stored_eq, stored_eq]; exact sp.tocc, sp.occB, ?_⟩
  obtain ⟨y, hy, hy2, hy3⟩ := sp.tcnt
  refine ⟨y, hy, ?_, ?_⟩
  · rcases hy2 with e | hpos
    · exact Or.inl e
    · right
      rw [← count_allSlots_eq] at hpos
      exact List.count_pos_iff.mp hpos
  · intro g
    have := hy3 g
    rw [← count_allSlots_eq, ← count_allSlots_eq, ind_eq_comm y g, ind_eq_comm fp g] at this
    exact this

end

/-! ### non-vacuity (Redis): two full one-entry lists -/

example : insert (BucketRedis.ops 0) (fun j f => (j ^^^ f) % 2)
    (⟨2, 1, 0, 2, [⟨1, [5], 1⟩, ⟨1, [7], 1⟩], 2⟩ : Cuckoo (BucketRedis Nat)) 9 0 1 false true [0, 0]
    = .full ⟨2, 1, 0, 2, [⟨1, [5], 1⟩, ⟨1, [7], 1⟩], 2⟩ := by decide

example : insert (BucketRedis.ops 0) (fun j f => (j ^^^ f) % 2)
    (⟨2, 1, 0, 2, [⟨1, [5], 1⟩, ⟨1, [7], 1⟩], 2⟩ : Cuckoo (BucketRedis Nat)) 9 0 1 true true [0, 0]
    = .full ⟨2, 1, 0, 2, [⟨1, [9], 1⟩, ⟨1, [5], 1⟩], 2⟩ := by decide

end Gostatix.Cuckoo.Redis
