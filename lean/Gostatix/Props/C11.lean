/-
  C11 — Binary WriteTo / ReadFrom round-trips every state with exact byte counts.

  For each of the five formats: decoding `enc s ++ rest` yields exactly `(s, rest)` (so the
  state is reconstructed AND exactly the image's bytes are consumed: images can be streamed
  back to back), and the byte count reported by WriteTo/ReadFrom equals the encoded length.
  Helper lemmas: Proofs/Codec.lean.
-/
import Gostatix.Proofs.Codec
namespace Gostatix.Codec
open Dec

/-! ### well-formedness of images (what the Go in-memory structures guarantee) -/

/-- all header fields are uint64, the word slice has `ceil(bsLen/64)` uint64 words -/
def BloomImg.WF (s : BloomImg) : Prop :=
  s.size < 2 ^ 64 ∧ s.k < 2 ^ 64 ∧ s.bsSize < 2 ^ 64 ∧ s.bsLen < 2 ^ 64 ∧
  s.words.length = wordsNeeded s.bsLen ∧ ∀ w ∈ s.words, w < 2 ^ 64

instance (s : BloomImg) : Decidable s.WF := by unfold BloomImg.WF; infer_instance

/-- `rows × cols` matrix of uint64 cells -/
def CMSImg.WF (s : CMSImg) : Prop :=
  s.rows < 2 ^ 64 ∧ s.cols < 2 ^ 64 ∧ s.allSum < 2 ^ 64 ∧ s.matrix.length = s.rows ∧
  (∀ r ∈ s.matrix, r.length = s.cols) ∧ ∀ r ∈ s.matrix, ∀ c ∈ r, c < 2 ^ 64

instance (s : CMSImg) : Decidable s.WF := by unfold CMSImg.WF; infer_instance

/-- `m` one-byte registers -/
def HLLImg.WF (s : HLLImg) : Prop :=
  s.m < 2 ^ 64 ∧ s.nbp < 2 ^ 64 ∧ s.bias < 2 ^ 64 ∧ s.regs.length = s.m

instance (s : HLLImg) : Decidable s.WF := by unfold HLLImg.WF; infer_instance

/-- `size` slots (empty slots are empty strings), `length` = number of occupied slots -/
def BucketImg.WF (b : BucketImg) : Prop :=
  b.size < 2 ^ 64 ∧ b.length < 2 ^ 64 ∧ b.elements.length = b.size ∧
  ∀ e ∈ b.elements, e.length < 2 ^ 64

instance (b : BucketImg) : Decidable b.WF := by unfold BucketImg.WF; infer_instance

def CuckooImg.WF (s : CuckooImg) : Prop :=
  s.n < 2 ^ 64 ∧ s.bsize < 2 ^ 64 ∧ s.fpl < 2 ^ 64 ∧ s.length < 2 ^ 64 ∧ s.retries < 2 ^ 64 ∧
  s.buckets.length = s.n ∧ ∀ b ∈ s.buckets, b.WF

instance (s : CuckooImg) : Decidable s.WF := by unfold CuckooImg.WF; infer_instance

/-- the heap may hold fewer than `k` entries; its length travels as a uint64 -/
def TopKImg.WF (s : TopKImg) : Prop :=
  s.k < 2 ^ 64 ∧ s.errorRate < 2 ^ 64 ∧ s.accuracy < 2 ^ 64 ∧ s.sketch.WF ∧
  s.heap.length < 2 ^ 64 ∧ ∀ e ∈ s.heap, e.1.length < 2 ^ 64 ∧ e.2 < 2 ^ 64

instance (s : TopKImg) : Decidable s.WF := by unfold TopKImg.WF; infer_instance

/-! ### round trip with exact consumption -/

theorem C11_roundtrip_bloom (s : BloomImg) (h : s.WF) :
    ∀ rest, Dec.run decBloom (encBloom s ++ rest) = some (s, rest) := by
  obtain ⟨h1, h2, h3, h4, hl, hw⟩ := h
  intro rest
  simp only [decBloom, encBloom, List.append_assoc]
  rw [run_bind_of_eq (run_decU64 h1 _), run_bind_of_eq (run_decU64 h2 _),
    run_bind_of_eq (run_decU64 h3 _), run_bind_of_eq (run_decU64 h4 _),
    run_bind_of_eq (run_decWords s.words _ hl hw _)]
  rfl

theorem C11_roundtrip_cms (s : CMSImg) (h : s.WF) :
    ∀ rest, Dec.run decCMS (encCMS s ++ rest) = some (s, rest) := by
  obtain ⟨h1, h2, h3, hr, hc, hv⟩ := h
  exact run_decCMS s h1 h2 h3 hr hc hv

theorem C11_roundtrip_hll (s : HLLImg) (h : s.WF) :
    ∀ rest, Dec.run decHLL (encHLL s ++ rest) = some (s, rest) := by
  obtain ⟨h1, h2, h3, hl⟩ := h
  intro rest
  simp only [decHLL, encHLL, List.append_assoc]
  rw [run_bind_of_eq (run_decU64 h1 _), run_bind_of_eq (run_decU64 h2 _),
    run_bind_of_eq (run_decU64 h3 _)]
  simp only [Dec.run]
  rw [if_neg (by simp [hl]), List.take_left' hl, List.drop_left' hl]

theorem C11_roundtrip_cuckoo (s : CuckooImg) (h : s.WF) :
    ∀ rest, Dec.run decCuckoo (encCuckoo s ++ rest) = some (s, rest) := by
  obtain ⟨h1, h2, h3, h4, h5, hl, hb⟩ := h
  intro rest
  have hbs : ∀ r, Dec.run (Dec.replicateM s.n decBucket) (encList encBucket s.buckets ++ r)
      = some (s.buckets, r) :=
    run_replicateM' decBucket encBucket s.buckets s.n hl (fun b hbm r =>
      run_decBucket b (hb b hbm).1 (hb b hbm).2.1 (hb b hbm).2.2.1 (hb b hbm).2.2.2 r)
  simp only [decCuckoo, encCuckoo, List.append_assoc]
  rw [run_bind_of_eq (run_decU64 h1 _), run_bind_of_eq (run_decU64 h2 _),
    run_bind_of_eq (run_decU64 h3 _), run_bind_of_eq (run_decU64 h4 _),
    run_bind_of_eq (run_decU64 h5 _), run_bind_of_eq (hbs _)]
  rfl

theorem C11_roundtrip_topk (s : TopKImg) (h : s.WF) :
    ∀ rest, Dec.run decTopK (encTopK s ++ rest) = some (s, rest) := by
  obtain ⟨h1, h2, h3, hs, hl, he⟩ := h
  intro rest
  have hheap : ∀ r, Dec.run (Dec.replicateM s.heap.length decHeapElem)
      (encList encHeapElem s.heap ++ r) = some (s.heap, r) :=
    run_replicateM decHeapElem encHeapElem s.heap (fun e hem r =>
      run_decHeapElem e (he e hem).1 (he e hem).2 r)
  simp only [decTopK, encTopK, List.append_assoc]
  rw [run_bind_of_eq (run_decU64 h1 _), run_bind_of_eq (run_decU64 h2 _),
    run_bind_of_eq (run_decU64 h3 _), run_bind_of_eq (C11_roundtrip_cms s.sketch hs _),
    run_bind_of_eq (run_decU64 hl _), run_bind_of_eq (hheap _)]
  rfl

/-! ### back-to-back streams -/

/-- generic: two decoders that are exact on their own images decode the concatenation -/
theorem C11_concat {α β : Type} (d₁ : Dec α) (d₂ : Dec β) (e₁ e₂ : Bytes) (a : α) (b : β)
    (h₁ : ∀ rest, Dec.run d₁ (e₁ ++ rest) = some (a, rest))
    (h₂ : ∀ rest, Dec.run d₂ (e₂ ++ rest) = some (b, rest)) (rest : Bytes) :
    Dec.run (Dec.bind d₁ fun x => Dec.bind d₂ fun y => .ret (x, y)) (e₁ ++ e₂ ++ rest)
      = some ((a, b), rest) := by
  rw [List.append_assoc, Dec.run_bind, h₁]
  simp only
  rw [Dec.run_bind, h₂]
  rfl

theorem C11_concat_cuckoo_topk (s : CuckooImg) (t : TopKImg) (hs : s.WF) (ht : t.WF)
    (rest : Bytes) :
    Dec.run (Dec.bind decCuckoo fun a => Dec.bind decTopK fun b => .ret (a, b))
      (encCuckoo s ++ encTopK t ++ rest) = some ((s, t), rest) :=
  C11_concat _ _ _ _ _ _ (C11_roundtrip_cuckoo s hs) (C11_roundtrip_topk t ht) rest

theorem C11_concat_bloom_bloom (s t : BloomImg) (hs : s.WF) (ht : t.WF) (rest : Bytes) :
    Dec.run (Dec.bind decBloom fun a => Dec.bind decBloom fun b => .ret (a, b))
      (encBloom s ++ encBloom t ++ rest) = some ((s, t), rest) :=
  C11_concat _ _ _ _ _ _ (C11_roundtrip_bloom s hs) (C11_roundtrip_bloom t ht) rest

theorem C11_concat_cms_hll (s : CMSImg) (t : HLLImg) (hs : s.WF) (ht : t.WF) (rest : Bytes) :
    Dec.run (Dec.bind decCMS fun a => Dec.bind decHLL fun b => .ret (a, b))
      (encCMS s ++ encHLL t ++ rest) = some ((s, t), rest) :=
  C11_concat _ _ _ _ _ _ (C11_roundtrip_cms s hs) (C11_roundtrip_hll t ht) rest

/-! ### reported byte counts are the real encoded lengths -/

theorem C11_count_bloom (s : BloomImg) (h : s.WF) : (encBloom s).length = countBloom s := by
  obtain ⟨_, _, _, _, hl, _⟩ := h
  simp only [encBloom, countBloom, List.length_append, length_encU64, length_encWords, hl]
  omega

theorem C11_count_cms (s : CMSImg) (h : s.WF) : (encCMS s).length = countCMS s := by
  obtain ⟨_, _, _, hr, hc, _⟩ := h
  exact length_encCMS s hr hc

theorem C11_count_hll (s : HLLImg) (h : s.WF) : (encHLL s).length = countHLL s := by
  obtain ⟨_, _, _, hl⟩ := h
  simp only [encHLL, countHLL, List.length_append, length_encU64, hl]
  omega

theorem C11_count_cuckoo (s : CuckooImg) (_h : s.WF) :
    (encCuckoo s).length = countCuckoo s := by
  simp only [encCuckoo, countCuckoo, List.length_append, length_encU64, length_encBuckets]

theorem C11_count_topk (s : TopKImg) (h : s.WF) : (encTopK s).length = countTopK s := by
  obtain ⟨_, _, _, ⟨_, _, _, hr, hc, _⟩, _, _⟩ := h
  simp only [encTopK, countTopK, List.length_append, length_encU64, length_encHeap,
    length_encCMS s.sketch hr hc]

/-! ### non-vacuity: concrete non-trivial well-formed images -/

/-- 70 bits → 2 words, one of them with the top bit set -/
def exBloom : BloomImg := ⟨70, 3, 70, 70, [0x8000000000000001, 0x2A]⟩
example : exBloom.WF := by decide

/-- 2 × 3 matrix with a maximal cell -/
def exCMS : CMSImg := ⟨2, 3, 18446744073709551615, [[1, 0, 18446744073709551615], [0, 7, 0]]⟩
example : exCMS.WF := by decide

def exHLL : HLLImg := ⟨4, 1, 0x3FE6A09E667F3BCD, [0, 5, 255, 1]⟩
example : exHLL.WF := by decide

/-- bucket 0 is partially filled (1 of 2 slots, the free slot is the empty string),
    bucket 1 is empty -/
def exCuckoo : CuckooImg :=
  ⟨2, 2, 1, 1, 500, [⟨2, 1, [[0x61], []]⟩, ⟨2, 0, [[], []]⟩]⟩
example : exCuckoo.WF := by decide

/-- heap holds 2 entries, fewer than k = 5; one value is the empty string -/
def exTopK : TopKImg :=
  ⟨5, 0x3F847AE147AE147B, 0x3FEFAE147AE147AE, ⟨1, 2, 9, [[4, 5]]⟩, [([0x61, 0x62], 5), ([], 4)]⟩
example : exTopK.WF := by decide

/-- the examples really go through the byte-level codec (evaluated by the kernel) -/
example : Dec.run decCuckoo (encCuckoo exCuckoo) = some (exCuckoo, []) := by
  simpa using C11_roundtrip_cuckoo exCuckoo (by decide) []
example : (encCuckoo exCuckoo).length = 105 := by
  rw [C11_count_cuckoo exCuckoo (by decide)]; decide
example : (encTopK exTopK).length = 106 := by
  rw [C11_count_topk exTopK (by decide)]; decide

end Gostatix.Codec
