/-
  ArithTieCMS — arithmetic tie, count-min sketch `getPositions`: the definitions of Generated/Arith.lean (translated from the Go
  sources by extract/arith.go on every run) agree with the hand-written `Nat` model for ALL inputs.
  One file per structure, so that a change of one structure's arithmetic breaks only the obligations
  of the properties of that structure.  A kernel the translator could not translate is missing from
  Generated/Arith.lean and the theorems about it fail to elaborate.  See Props/ArithTie.lean.
-/
import Gostatix.Generated.Arith
import Gostatix.Proofs.GoArith
import Gostatix.Model.CMS
import Gostatix.Model.HLL
import Gostatix.Model.Cuckoo
import Gostatix.Model.Bloom
import Gostatix.Model.Murmur
set_option linter.unusedSimpArgs false

namespace Gostatix.ArithTie
open Gostatix.Generated.Arith Gostatix.GoArith

/-- closes `A % m = B % m` where `A`, `B` are the same sum of `toNat` products, reduced modulo
    2^64 at different places and with the operands in any order (products become atoms of `omega`). -/
local macro "mod64_congr" : tactic =>
  `(tactic| (congr 1; (try simp only [Nat.mul_comm]); omega))

/-! ### count-min sketch: `getPositions` -/

/-- `positions[c] = uint((hash1 + uint64(c)*hash2) % uint64(cms.columns))` is `CMS.position`. -/
theorem tie_cmsPosition (h1 h2 c cols : UInt64) (_hc : cols ≠ 0) :
    (cmsPosition h1 h2 c cols).toNat = CMS.position h1.toNat h2.toNat c.toNat cols.toNat := by
  simp only [cmsPosition, CMS.position, UInt64.toNat_mod, UInt64.toNat_add, UInt64.toNat_mul]
  mod64_congr

/-- the whole row list of `getPositions` (loop variable `c = 0 .. rows-1`, `rows < 2^64`). -/
theorem tie_cmsPositionsOf (h1 h2 cols : UInt64) (rows : Nat) (hr : rows ≤ 2 ^ 64) (hc : cols ≠ 0) :
    (List.range rows).map (fun c => (cmsPosition h1 h2 (UInt64.ofNat c) cols).toNat)
      = CMS.positionsOf h1.toNat h2.toNat rows cols.toNat := by
  unfold CMS.positionsOf
  apply List.map_congr_left
  intro c hcr
  have hlt : c < UInt64.size := by
    have := List.mem_range.1 hcr
    show c < 2 ^ 64
    omega
  rw [tie_cmsPosition _ _ _ _ hc, UInt64.toNat_ofNat_of_lt' hlt]

example : (cmsPosition 18446744073709551615 3 2 10).toNat = 5 := by decide
example : CMS.position 18446744073709551615 3 2 10 = 5 := by decide


end Gostatix.ArithTie
